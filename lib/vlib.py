"""Shared machinery for the dawn verification checks.

Every check (checks/Cxx.py) is a module with
    META : dict        (manifest fields)
    run(ctx) -> None   (calls ctx.* helpers; raises nothing on a violation, records it)

The driver (/verif/check) creates the Ctx, calls run, writes the evidence file and
prints the VIOLATION / KNOWN-FINDING lines.
"""
import glob
import json
import os
import re
import shutil
import subprocess
import sys
import tempfile
import time
import concurrent.futures

VERIF = os.path.dirname(os.path.dirname(os.path.abspath(__file__)))
REPO = os.environ.get("DAWN_REPO", "/repo")
COQ = os.path.join(VERIF, "coq")
HARNESS = os.path.join(VERIF, "harness")

GOENV = {
    "GOFLAGS": "-mod=mod",
    "GOPROXY": "off",
    "GOSUMDB": "off",
    "GOTOOLCHAIN": "local",
    "CGO_ENABLED": "0",
}

FORBIDDEN = re.compile(
    r"\b(Admitted|admit|Axiom|Axioms|Parameter|Parameters|Conjecture|Conjectures|"
    r"Admit Obligations|bypass_check|Unset Guard Checking|Unset Positivity Checking|"
    r"Unset Universe Checking|type-in-type|impredicative-set)\b"
)

TRUSTED_BASE_COMMON = [
    "Coq 8.16.1 kernel (coqc, full .vo build, no -vos/-vok); vm_compute used for finite sweeps, "
    "witnesses of _refuted theorems and the in-Coq evaluation of correspondence cases; no native_compute",
    "no Axiom/Parameter/Admitted anywhere in /verif/coq (grepped on every run); Print Assumptions of every "
    "property theorem is captured on every run and reported in coverage.assumptions_report",
    "correspondence check: Go harness (overlay test files compiled into /repo's packages from the current "
    "working tree) + python driver that renders cases as Coq terms + coqc vm_compute of the model on them",
]


def env_replace():
    """VERIF_REPLACE="pkg/file.go=/tmp/x/file.go,..." : what-if substitution of /repo files through the overlay
    (used only for mutation-sensitivity experiments; never set by the registered commands)."""
    r = {}
    for item in filter(None, os.environ.get("VERIF_REPLACE", "").split(",")):
        dst, src = item.split("=", 1)
        r[os.path.join(REPO, dst)] = src
    return r


def sh(cmd, cwd=None, env=None, timeout=None, input=None):
    e = dict(os.environ)
    if env:
        e.update(env)
    try:
        p = subprocess.run(cmd, cwd=cwd, env=e, timeout=timeout, input=input,
                           stdout=subprocess.PIPE, stderr=subprocess.STDOUT,
                           shell=isinstance(cmd, str), text=True, errors="replace")
        return p.returncode, p.stdout
    except subprocess.TimeoutExpired as ex:
        out = ex.stdout or ""
        if isinstance(out, bytes):
            out = out.decode("utf-8", "replace")
        return 124, out + "\n[timeout after %ss]" % timeout


# ---------------------------------------------------------------------------------------------
# Coq term rendering helpers


def cq_N(n):
    return "%d%%N" % n


def cq_Z(n):
    return "(%d)%%Z" % n


def cq_nat(n):
    assert 0 <= n < 5000
    return "%d%%nat" % n


def cq_bool(b):
    return "true" if b else "false"


def cq_bytes(b):
    """bytes / str (utf-8) -> list N literal"""
    if isinstance(b, str):
        b = b.encode("utf-8", "surrogateescape")
    return "[" + ";".join(str(x) for x in b) + "]%N" if len(b) else "(@nil N)"


def cq_list(items, ty=None):
    if not items:
        return "(@nil %s)" % ty if ty else "[]"
    return "[" + "; ".join(items) + "]"


def cq_opt(x, ty=None):
    if x is None:
        return "(@None %s)" % ty if ty else "None"
    return "(Some %s)" % x


def cq_pair(*xs):
    return "(" + ", ".join(xs) + ")"


# ---------------------------------------------------------------------------------------------


class Ctx:
    def __init__(self, prop, tier, seed):
        self.prop = prop
        self.tier = tier
        self.seed = seed
        self.t0 = time.time()
        self.tmp = tempfile.mkdtemp(prefix="verif-%s-" % prop, dir=os.environ.get("VERIF_TMP", "/tmp"))
        self.violations = []      # (replay_path, note, found_input: bool)
        self.known = []           # strings
        self.coverage = {
            "obligations": 0, "discharged": 0, "checker_cmd": "", "trusted_base": list(TRUSTED_BASE_COMMON),
            "evaluations": 0, "distinct_nontrivial": 0, "rule": "", "samples": [],
            "assumptions_report": {}, "correspondence": {},
        }
        self.assumptions = []
        self.log_lines = []
        self._replay_n = 0
        self.known_findings = load_known_findings(prop)

    # -- logging -----------------------------------------------------------------------------
    def log(self, *a):
        s = " ".join(str(x) for x in a)
        self.log_lines.append(s)
        print("[%s %6.1fs] %s" % (self.prop, time.time() - self.t0, s), flush=True)

    def quick(self):
        return self.tier == "quick"

    def cleanup(self):
        shutil.rmtree(self.tmp, ignore_errors=True)

    # -- violations --------------------------------------------------------------------------
    def replay_path(self):
        self._replay_n += 1
        d = os.path.join(VERIF, "evidence", "replay")
        os.makedirs(d, exist_ok=True)
        return os.path.join(d, "%s-%d.json" % (self.prop, self._replay_n))

    def violation(self, what, replay, found_input=True, key=None):
        """Record a violation. `replay` is a JSON-able object describing the failing input (or, when
        found_input is False, the theorem / correspondence that no longer checks). `key` is the
        known-findings key of this violation class, if any."""
        if key is not None:
            for kf in self.known_findings:
                if kf["key"] == key:
                    msg = "KNOWN-FINDING: property=%s %s (%s)" % (self.prop, kf["text"], what)
                    if msg not in self.known:
                        self.known.append(msg)
                    return
        if len(self.violations) >= 10:
            return
        p = self.replay_path()
        with open(p, "w") as f:
            json.dump({"property": self.prop, "what": what, "found_failing_input": found_input,
                       "seed": self.seed, "tier": self.tier, "replay": replay}, f, indent=1, default=str)
        self.violations.append((p, what, found_input))
        self.log("violation:", what, "->", p)

    # -- Coq ---------------------------------------------------------------------------------
    def coq_build(self, targets, timeout=1500):
        """(Re)build the given .vo targets (paths relative to coq/) with coq_makefile + make."""
        ok, out = coq_make(targets, timeout)
        if not ok:
            self.log("coq build FAILED for", targets)
            self.log(out[-3000:])
        return ok, out

    def coq_props(self, props_rel, timeout=900):
        """Build and re-check a Props_Cxx.v file: returns (ok, {theorem: assumptions-string}).
        Every `Theorem` in the file is an obligation; it is discharged when the file compiles and
        its Print Assumptions output is present."""
        src = os.path.join(COQ, props_rel)
        text = open(src).read()
        theorems = re.findall(r"^\s*(?:Theorem|Corollary)\s+([A-Za-z0-9_']+)", text, re.M)
        self.coverage["obligations"] += len(theorems)
        self.coverage["checker_cmd"] = (
            "cd /verif/coq && make -j16 %s && coqc -Q . Dawn %s  (then Print Assumptions output parsed)"
            % (props_rel.replace(".v", ".vo"), props_rel))
        bad = scan_forbidden()
        if bad:
            self.log("forbidden tokens in the development:", bad[:5])
            self.violation("forbidden token in Coq development: %s" % bad[:3],
                           {"theorem_or_correspondence": "development hygiene", "hits": bad[:20]}, found_input=False)
            return False, {}
        ok, out = self.coq_build([props_rel.replace(".v", ".vo")], timeout)
        if not ok:
            m = re.findall(r'File "([^"]+)", line (\d+)', out)
            self.broken_proof = {"file": props_rel, "log_tail": out[-2500:], "locations": m[-3:]}
            return False, {}
        # re-run coqc on the Props file itself to capture Print Assumptions (make is silent when up to date)
        rc, out = sh(["coqc", "-Q", ".", "Dawn", props_rel], cwd=COQ, timeout=timeout)
        if rc != 0:
            self.broken_proof = {"file": props_rel, "log_tail": out[-2500:]}
            return False, {}
        rep = parse_assumptions(out, theorems)
        self.coverage["assumptions_report"].update(rep)
        self.coverage["discharged"] += len([t for t in theorems if t in rep])
        if self.tier == "thorough":
            # independent re-check of the compiled Props module and everything it depends on
            mod = "Dawn." + props_rel[:-2].replace("/", ".")
            t0 = time.time()
            rc, cout = sh(["coqchk", "-silent", "-o", "-Q", ".", "Dawn", mod], cwd=COQ, timeout=3000)
            summ = cout[cout.find("CONTEXT SUMMARY"):] if "CONTEXT SUMMARY" in cout else cout[-1500:]
            self.coverage["coqchk"] = {"module": mod, "exit": rc, "wall_s": round(time.time() - t0, 1),
                                       "summary": " ".join(summ.split())[:1500]}
            if rc != 0:
                self.broken_proof = {"file": props_rel, "coqchk": cout[-2000:]}
                return False, rep
        axioms = sorted({a for v in rep.values() if v != "Closed under the global context" for a in v.split("; ")})
        if axioms:
            self.coverage["trusted_base"].append("axioms reported by Print Assumptions: " + ", ".join(axioms))
        return all(t in rep for t in theorems), rep

    def coq_eval(self, header, body_defs, name="bad", shards=None, timeout=900):
        """Evaluate, inside Coq, `Definition <name> := Eval vm_compute in <expr>` for each shard.
        header: Coq text with Require Imports. body_defs: list of Coq expressions (one per shard)
        of type `list N` (indices of mismatching cases). Returns (ok, list of lists of ints, logs)."""
        # the modules the header imports must be built from the sources as they are now (a module left over from an earlier
        # build, older than something it depends on, is rejected by coqc as "inconsistent assumptions")
        mods = []
        for line in header.splitlines():
            mm = re.match(r"\s*From\s+Dawn\s+Require\s+(?:Import\s+|Export\s+)?(.*?)\.\s*$", line)
            if mm:
                mods += [x for x in mm.group(1).split() if re.match(r"^[A-Za-z_][\w.]*$", x)]
        targets = [m.replace(".", "/") + ".vo" for m in mods if os.path.exists(os.path.join(COQ, m.replace(".", "/") + ".v"))]
        if targets:
            okb, outb = self.coq_build(targets)
            if not okb:
                return False, [None] * len(body_defs), [outb[-2000:]]
        d = os.path.join(self.tmp, "coqeval-%d" % int(time.time() * 1000 % 1e9))
        os.makedirs(d, exist_ok=True)
        files = []
        for i, expr in enumerate(body_defs):
            p = os.path.join(d, "cases_%d.v" % i)
            with open(p, "w") as f:
                f.write(header + "\n")
                f.write("Definition %s : list N := Eval vm_compute in (%s).\n" % (name, expr))
                f.write("Print %s.\n" % name)
            files.append(p)

        def one(p):
            rc, out = sh(["coqc", "-Q", COQ, "Dawn", p], cwd=d, timeout=timeout)
            return rc, out

        res = []
        with concurrent.futures.ThreadPoolExecutor(max_workers=14) as ex:
            outs = list(ex.map(one, files))
        allok = True
        logs = []
        for rc, out in outs:
            if rc != 0:
                allok = False
                logs.append(out[-2000:])
                res.append(None)
                continue
            m = re.search(r"%s\s*=\s*(.*?)\s*:\s*list N" % name, out, re.S)
            if not m:
                allok = False
                logs.append(out[-2000:])
                res.append(None)
                continue
            body = m.group(1)
            # body is only the list literal (with or without %N suffixes, depending on open scopes)
            res.append([int(x) for x in re.findall(r"(\d+)(?:%N)?", body)])
        return allok, res, logs

    # -- Go ----------------------------------------------------------------------------------
    def go_overlay_test(self, pkg, files, run, env=None, timeout=1200, tags="verif", extra=None, replace=None):
        """Run `go test` in /repo/<pkg> with harness files added through -overlay.
        files: {name_in_pkg: absolute source path}; the package dir itself is not modified."""
        ov = {"Replace": {}}
        for dst, src in files.items():
            ov["Replace"][os.path.join(REPO, pkg, dst)] = src
        for dst, src in (replace or {}).items():
            ov["Replace"][os.path.join(REPO, dst)] = src
        ov["Replace"].update(env_replace())
        ovp = os.path.join(self.tmp, "overlay-%s.json" % re.sub(r"\W", "_", pkg + run))
        with open(ovp, "w") as f:
            json.dump(ov, f)
        cmd = ["go", "test", "-vet=off", "-count=1", "-overlay", ovp, "-run", run, "-timeout", "%ds" % timeout]
        if tags:
            cmd += ["-tags", tags]
        cmd += extra or []
        cmd += ["./" + pkg if pkg else "."]
        e = dict(GOENV)
        e.update(env or {})
        if "TMPDIR" not in e:
            # dawn leaves directories behind in the temporary directory (DialGitRepository's mvs-repo-*, its own tests'
            # projects): keep them inside this run's scratch directory, which is removed when the check ends
            e["TMPDIR"] = os.path.join(self.tmp, "gotmp")
            os.makedirs(e["TMPDIR"], exist_ok=True)
        return sh(cmd, cwd=REPO, env=e, timeout=timeout + 60)

    def go_build_overlay(self, pkg, files, outbin, tags="verif", timeout=600):
        ov = {"Replace": {}}
        for dst, src in files.items():
            ov["Replace"][os.path.join(REPO, pkg, dst)] = src
        ov["Replace"].update(env_replace())
        ovp = os.path.join(self.tmp, "overlay-b-%s.json" % re.sub(r"\W", "_", pkg))
        with open(ovp, "w") as f:
            json.dump(ov, f)
        cmd = ["go", "build", "-overlay", ovp, "-o", outbin]
        if tags:
            cmd += ["-tags", tags]
        cmd += ["./" + pkg]
        return sh(cmd, cwd=REPO, env=GOENV, timeout=timeout)

    def go_test_compile(self, pkg, files, outbin, tags="verif", timeout=600):
        """Compile a test binary (go test -c) with overlay files; returns (rc, out)."""
        ov = {"Replace": {}}
        for dst, src in files.items():
            ov["Replace"][os.path.join(REPO, pkg, dst)] = src
        ov["Replace"].update(env_replace())
        ovp = os.path.join(self.tmp, "overlay-c-%s.json" % re.sub(r"\W", "_", pkg))
        with open(ovp, "w") as f:
            json.dump(ov, f)
        cmd = ["go", "test", "-c", "-vet=off", "-overlay", ovp, "-o", outbin]
        if tags:
            cmd += ["-tags", tags]
        cmd += ["./" + pkg if pkg else "."]
        return sh(cmd, cwd=REPO, env=GOENV, timeout=timeout)

    # -- evidence ----------------------------------------------------------------------------
    def add_samples(self, samples, limit=6):
        for s in samples:
            if len(self.coverage["samples"]) < limit:
                self.coverage["samples"].append(s)

    def write_evidence(self):
        ev = {
            "property_id": self.prop,
            "tier": self.tier,
            "seed": self.seed,
            "level": "proof",
            "coverage": self.coverage,
            "assumptions": self.assumptions,
            "wall_s": round(time.time() - self.t0, 2),
            "violations": len(self.violations),
            "known_findings_reported": self.known,
        }
        d = os.path.join(VERIF, "evidence")
        os.makedirs(d, exist_ok=True)
        with open(os.path.join(d, "%s.json" % self.prop), "w") as f:
            json.dump(ev, f, indent=1, default=str)


# ---------------------------------------------------------------------------------------------


def scan_forbidden():
    hits = []
    for p in glob.glob(os.path.join(COQ, "**", "*.v"), recursive=True):
        txt = open(p, errors="replace").read()
        # strip comments (non-nested approximation is enough: we forbid the words in comments too,
        # except inside (* ... *) blocks, which are removed here)
        stripped = strip_coq_comments(txt)
        for m in FORBIDDEN.finditer(stripped):
            hits.append("%s: %s" % (os.path.relpath(p, COQ), m.group(0)))
        if re.search(r"^\s*(Variable|Variables|Hypothesis|Hypotheses)\b", stripped, re.M):
            # allowed only inside a Section: check nesting
            depth = 0
            for line in stripped.splitlines():
                if re.match(r"\s*Section\b", line):
                    depth += 1
                elif re.match(r"\s*End\b", line) and depth > 0:
                    depth -= 1  # approximates: Modules also End, handled by never going below 0
                elif re.match(r"\s*(Variable|Variables|Hypothesis|Hypotheses|Context)\b", line) and depth == 0:
                    hits.append("%s: top-level %s" % (os.path.relpath(p, COQ), line.strip()[:40]))
    return hits


def strip_coq_comments(txt):
    out = []
    depth = 0
    i = 0
    n = len(txt)
    instr = False
    while i < n:
        if depth == 0 and txt[i] == '"':
            instr = not instr
            out.append(txt[i])
            i += 1
            continue
        if not instr and txt.startswith("(*", i):
            depth += 1
            i += 2
            continue
        if not instr and depth > 0 and txt.startswith("*)", i):
            depth -= 1
            i += 2
            continue
        if depth == 0:
            out.append(txt[i])
        elif txt[i] == "\n":
            out.append("\n")
        i += 1
    return "".join(out)


def coq_project_sync():
    """Regenerate _CoqProject and the Makefile from the .v files present."""
    vs = sorted(os.path.relpath(p, COQ) for p in glob.glob(os.path.join(COQ, "**", "*.v"), recursive=True)
                if "/scratch/" not in p and not os.path.basename(p).startswith("cases_"))
    txt = "-Q . Dawn\n-arg -w -arg -notation-overridden,-deprecated,-ambiguous-paths\n" + "\n".join(vs) + "\n"
    cp = os.path.join(COQ, "_CoqProject")
    old = open(cp).read() if os.path.exists(cp) else None
    if old != txt or not os.path.exists(os.path.join(COQ, "Makefile")):
        with open(cp, "w") as f:
            f.write(txt)
        rc, out = sh(["coq_makefile", "-f", "_CoqProject", "-o", "Makefile"], cwd=COQ, timeout=120)
        if rc != 0:
            raise RuntimeError("coq_makefile failed: " + out)


def coq_make(targets, timeout=1500):
    """make the given .vo targets. Only the regeneration of _CoqProject/Makefile is serialised (several checks or
    developers may run make at once; a collision on a shared dependency shows up as a transient error, hence one retry)."""
    import fcntl
    os.makedirs(COQ, exist_ok=True)
    lock = open(os.path.join(COQ, ".build.lock"), "w")
    fcntl.flock(lock, fcntl.LOCK_EX)
    try:
        coq_project_sync()
    finally:
        fcntl.flock(lock, fcntl.LOCK_UN)
        lock.close()
    rc, out = sh(["make", "-j16"] + list(targets), cwd=COQ, timeout=timeout)
    if rc != 0 and rc != 124:
        time.sleep(2)
        rc, out2 = sh(["make", "-j16"] + list(targets), cwd=COQ, timeout=timeout)
        out = out + "\n[retry]\n" + out2
    return rc == 0, out


def parse_assumptions(out, theorems):
    """coqc output of a Props file: sequence of Print Assumptions results, in order of appearance.
    Each is either 'Closed under the global context' or 'Axioms:' followed by lines."""
    blocks = []
    cur = None
    for line in out.splitlines():
        if line.startswith("Closed under the global context"):
            if cur is not None:
                blocks.append(cur)
                cur = None
            blocks.append("Closed under the global context")
        elif line.startswith("Axioms:"):
            if cur is not None:
                blocks.append(cur)
            cur = []
        elif cur is not None:
            if line.strip() == "":
                continue
            m = re.match(r"^([A-Za-z0-9_.']+)\s*:", line)
            if m:
                cur.append(m.group(1))
            # continuation lines of a type are ignored
    if cur is not None:
        blocks.append(cur)
    rep = {}
    for t, b in zip(theorems, blocks):
        rep[t] = b if isinstance(b, str) else "; ".join(b)
    return rep


def load_known_findings(prop):
    p = os.path.join(VERIF, "findings", "known_findings.txt")
    res = []
    if not os.path.exists(p):
        return res
    for line in open(p):
        line = line.strip()
        if not line or line.startswith("#") or line.startswith("fixed:"):
            continue
        # format: known: property=<id> key=<key> <text>
        m = re.match(r"known:\s+property=(\S+)\s+key=(\S+)\s+(.*)$", line)
        if m and m.group(1) == prop:
            res.append({"key": m.group(2), "text": m.group(3)})
    return res


def main(argv):
    import importlib
    if len(argv) < 2:
        print("usage: check <ID> [--tier quick|thorough] [--replay path] | check --manifest")
        return 2
    if argv[1] == "--manifest":
        m = gen_manifest()
        print("MANIFEST.json written: %d checks, %d not_applicable" % (len(m["checks"]), len(m["not_applicable"])))
        return 0
    prop = argv[1]
    tier = os.environ.get("VERIF_TIER", "quick")
    replay = None
    i = 2
    while i < len(argv):
        if argv[i] == "--tier":
            tier = argv[i + 1]
            i += 2
        elif argv[i] == "--replay":
            replay = argv[i + 1]
            i += 2
        else:
            i += 1
    seed = int(os.environ.get("VERIF_SEED", "1") or "1")
    sys.path.insert(0, VERIF)
    mod = importlib.import_module("checks.%s" % prop)
    ctx = Ctx(prop, tier, seed)
    ctx.replay_in = replay
    rc = 0
    try:
        try:
            mod.run(ctx)
        except Exception as ex:  # a crash of the machinery is reported as such
            import traceback
            traceback.print_exc()
            ctx.violation("check machinery failed: %r" % ex,
                          {"theorem_or_correspondence": "check machinery", "error": repr(ex)}, found_input=False)
        ctx.write_evidence()
        for k in ctx.known:
            print(k)
        if ctx.violations:
            rc = 1
            for p, what, found in ctx.violations:
                print("VIOLATION property=%s replay=%s%s" % (prop, p, "" if found else " no-failing-input-found"))
        else:
            print("OK property=%s tier=%s obligations=%d discharged=%d evaluations=%d wall=%.1fs" % (
                prop, tier, ctx.coverage["obligations"], ctx.coverage["discharged"],
                ctx.coverage["evaluations"], time.time() - ctx.t0))
    finally:
        ctx.cleanup()
    return rc


def gen_manifest():
    import importlib
    sys.path.insert(0, VERIF)
    checks = []
    claimed = set()
    allowed = None
    cp = os.path.join(VERIF, "claimed.txt")
    if os.path.exists(cp):
        allowed = {l.strip() for l in open(cp) if l.strip() and not l.startswith("#")}
    for p in sorted(glob.glob(os.path.join(VERIF, "checks", "C*.py"))):
        pid = os.path.basename(p)[:-3]
        if allowed is not None and pid not in allowed:
            continue
        mod = importlib.import_module("checks.%s" % pid)
        m = mod.META
        claimed.add(pid)
        checks.append({
            "property_id": pid,
            "quick_cmd": "./check %s --tier quick" % pid,
            "thorough_cmd": "./check %s --tier thorough" % pid,
            "evidence_file": "/verif/evidence/%s.json" % pid,
            "replay_cmd_template": "./check %s --replay {path}" % pid,
            "engine": "coq-model+correspondence",
            "level_claimed": {"category": "proof", "text": m["level_text"], "design_ref": m.get("design_ref", "DESIGN.md §6")},
            "level_note": m["level_note"],
            "technique": m["technique"],
        })
    props = [json.loads(l)["id"] for l in open(os.path.join(VERIF, "properties.jsonl")) if l.strip()]
    na_path = os.path.join(VERIF, "not_applicable.json")
    na_given = json.load(open(na_path)) if os.path.exists(na_path) else {}
    na = []
    for pid in props:
        if pid not in claimed:
            na.append({"property_id": pid, "reason": na_given.get(
                pid, "not yet claimed: model/check under construction in this round (see DESIGN.md §9 build order); "
                     "the technique applies, nothing is asserted about this property yet")})
    hooks_commits = []
    hp = os.path.join(VERIF, "hooks_commits.txt")
    if os.path.exists(hp):
        hooks_commits = [l.split()[0] for l in open(hp) if l.strip() and not l.startswith("#")]
    man = {
        "version": 1,
        "setup_cmd": "cd /verif && ./setup.sh",
        "hooks": {
            "guard": "verif",
            "enable": "go build/test -tags verif (plus -overlay files from /verif/harness/overlay that add *_test.go "
                      "harness files to /repo's packages at build time without modifying the tree)",
            "baseline_off_cmd": "cd /repo && GOFLAGS=-mod=mod GOPROXY=off GOSUMDB=off go test -vet=off -count=1 -timeout 25m ./...",
            "source_commits": hooks_commits,
            "add_only": True,
        },
        "engines": [{
            "name": "coq-model+correspondence",
            "path": "/verif/coq, /verif/harness, /verif/checks, /verif/lib/vlib.py",
            "serves_properties": sorted(claimed),
            "kind_free_text": "Gallina models + Coq 8.16.1 theorems (Props_Cxx.v, Print Assumptions captured per run); "
                              "Go overlay harness runs the implementation from /repo's working tree; the model is "
                              "evaluated on the same cases inside Coq (vm_compute) and the answers are compared",
        }],
        "checks": checks,
        "not_applicable": na,
        "notes": "See DESIGN.md. Known findings and fixed defects: findings/known_findings.txt.",
    }
    with open(os.path.join(VERIF, "MANIFEST.json"), "w") as f:
        json.dump(man, f, indent=1)
    return man
