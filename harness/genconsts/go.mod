module verif/genconsts

go 1.23
