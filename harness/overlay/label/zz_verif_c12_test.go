package label

// Correspondence harness for C12 (added to the package through `go test -overlay`; never committed to /repo).
// Writes one TSV line per case to $VERIF_OUT:  op \t hex(inputs...) \t outcome fields (hex)
// and one line "ORACLE\t<name>\t<hex inputs>" for each direct failure of the property on the implementation.

import (
	"bufio"
	"encoding/hex"
	"fmt"
	"math/rand"
	"os"
	"strconv"
	"strings"
	"testing"
)

func hx(s string) string {
	if s == "" {
		return "-"
	}
	return hex.EncodeToString([]byte(s))
}

type c12out struct {
	w *bufio.Writer
}

func (o *c12out) line(fields ...string) {
	o.w.WriteString(strings.Join(fields, "\t"))
	o.w.WriteByte('\n')
}

func c12parse(s string) (l *Label, err error, panicked bool) {
	defer func() {
		if x := recover(); x != nil {
			panicked = true
		}
	}()
	l, err = Parse(s)
	return
}

func labelFields(l *Label) []string {
	return []string{hx(l.Kind), hx(l.Project), hx(l.Package), hx(l.Name)}
}

func eligible(l *Label) bool { return l.Name != "" || l.Kind == "" }

func enumStrings(alpha string, maxLen int, f func(string)) {
	var rec func(prefix []byte, n int)
	rec = func(prefix []byte, n int) {
		f(string(prefix))
		if n == maxLen {
			return
		}
		for i := 0; i < len(alpha); i++ {
			rec(append(prefix, alpha[i]), n+1)
		}
	}
	rec(nil, 0)
}

func TestVerifC12(t *testing.T) {
	outPath := os.Getenv("VERIF_OUT")
	if outPath == "" {
		t.Skip("VERIF_OUT not set")
	}
	maxLen, _ := strconv.Atoi(os.Getenv("VERIF_MAXLEN"))
	if maxLen == 0 {
		maxLen = 5
	}
	nRand, _ := strconv.Atoi(os.Getenv("VERIF_NRAND"))
	seed, _ := strconv.ParseInt(os.Getenv("VERIF_SEED"), 10, 64)
	rng := rand.New(rand.NewSource(seed))

	f, err := os.Create(outPath)
	if err != nil {
		t.Fatal(err)
	}
	defer f.Close()
	o := &c12out{w: bufio.NewWriterSize(f, 1<<20)}
	defer o.w.Flush()

	printed := map[string]Label{} // String() -> label, eligible labels only (canonicity oracle)

	pkgs := []string{"//", "//a", "//a/b", "", "a", "//.a", "//a./b"}

	doParse := func(s string) {
		l, err, p := c12parse(s)
		switch {
		case p:
			o.line("parse", hx(s), "panic")
			o.line("ORACLE", "parse_panics", hx(s))
		case err != nil:
			o.line("parse", hx(s), "err")
		default:
			str := l.String()
			o.line(append([]string{"parse", hx(s), "ok"}, append(labelFields(l), hx(str))...)...)
			if eligible(l) {
				l2, err2, p2 := c12parse(str)
				if p2 || err2 != nil || *l2 != *l {
					o.line("ORACLE", "parse_print_roundtrip", hx(s))
				}
				if prev, ok := printed[str]; ok && prev != *l {
					o.line("ORACLE", "print_not_canonical", hx(s))
				}
				printed[str] = *l
				// the same after resolving against a package
				for _, pkg := range pkgs {
					r, err := l.RelativeTo(pkg)
					if err != nil {
						o.line("rel", hx(s), hx(pkg), "err")
						continue
					}
					rs := r.String()
					o.line(append([]string{"rel", hx(s), hx(pkg), "ok"}, append(labelFields(r), hx(rs))...)...)
					if eligible(r) {
						r2, err2, p2 := c12parse(rs)
						if p2 || err2 != nil || *r2 != *r {
							o.line("ORACLE", "relative_roundtrip", hx(s), hx(pkg))
						}
						if prev, ok := printed[rs]; ok && prev != *r {
							o.line("ORACLE", "print_not_canonical_rel", hx(s), hx(pkg))
						}
						printed[rs] = *r
					}
				}
			}
		}
	}

	doClean := func(s string) {
		c, err := Clean(s)
		if err != nil {
			o.line("clean", hx(s), "err")
		} else {
			o.line("clean", hx(s), "ok", hx(c))
			c2, err2 := Clean(c)
			if err2 != nil || c2 != c {
				o.line("ORACLE", "clean_not_idempotent", hx(s))
			}
		}
		comps := Split(s)
		hs := make([]string, len(comps))
		for i, c := range comps {
			hs[i] = hx(c)
		}
		o.line("split", hx(s), strconv.Itoa(len(comps)), strings.Join(hs, ","))
	}

	// exhaustive short strings over the label alphabet
	enumStrings("a./:@", maxLen, func(s string) {
		doParse(s)
		if len(s) <= maxLen-1 {
			doClean(s)
		}
	})

	// label.New and Join on a small product
	parts := []string{"", "a", "a:b", "a/b", "//", "//a", "//a/b", "/a", ".", "..", "a/..", "//a//b", "a@v2"}
	for _, k := range parts {
		for _, pr := range parts {
			for _, pk := range parts {
				for _, n := range []string{"", "n", "a/b", "a:b", "."} {
					l, err := New(k, pr, pk, n)
					if err != nil {
						o.line("new", hx(k), hx(pr), hx(pk), hx(n), "err")
					} else {
						o.line(append([]string{"new", hx(k), hx(pr), hx(pk), hx(n), "ok"}, labelFields(l)...)...)
					}
				}
			}
		}
	}
	for _, a := range parts {
		for _, b := range parts {
			j, err := Join(a, b)
			if err != nil {
				o.line("join", hx(a), hx(b), "err")
			} else {
				o.line("join", hx(a), hx(b), "ok", hx(j))
			}
		}
	}

	// random longer strings, full byte range biased to the alphabet
	alpha := []byte("ab./:@/:/.")
	for i := 0; i < nRand; i++ {
		n := rng.Intn(40)
		b := make([]byte, n)
		for j := range b {
			if rng.Intn(12) == 0 {
				b[j] = byte(rng.Intn(256))
			} else {
				b[j] = alpha[rng.Intn(len(alpha))]
			}
		}
		doParse(string(b))
		doClean(string(b))
	}
	fmt.Fprintln(os.Stderr, "c12 label harness done")
}
