package pickle

// C15, directed family "shared tuples as hashed keys".  With the memo a byte string of 4 bytes per level builds a tuple DAG
// t1 = (x, x), t2 = (t1, t1), ..., td = (t(d-1), t(d-1)): d tuples in memory, 2^d leaves when it is walked as a tree.  The
// decoder itself handles it in d steps.  When such a value is used as a dict key (SETITEMS), a set element (ADDITEMS) or
// inside a tuple that is, the host value library hashes it, and starlark's Tuple.Hash walks it as a tree: 2^d steps.
//
// Input  ($VERIF_IN):   dag \t <id> \t <shape> \t <depth> \t <unp 0|1> \t <where: inproc|child:<seconds>> \t <hex bytes>
// Output ($VERIF_OUT):  dag \t <id> \t <outcome> \t <elapsed microseconds> \t <shape of the decoded value>
//     outcome = ok | err | nilnil | panic | hang (child: no answer within <seconds>) | died
//     shape of the decoded value: "dag:<d>" when the expected place of the decoded value holds a tuple chain of d levels
//     whose two components are the same tuple at every level and whose leaf is the integer 1 (checked in d steps, by the
//     identity of the backing arrays, never by walking the tree), else "other".
// (Uses verifUnpickle of zz_verif_c07_test.go.)

import (
	"bufio"
	"bytes"
	"context"
	"encoding/hex"
	"fmt"
	"os"
	"os/exec"
	"strconv"
	"strings"
	"sync"
	"testing"
	"time"

	"go.starlark.net/starlark"
)

// dagDepth: the number of levels of a shared 2-tuple chain ending in the integer 1, or -1.
func dagDepth(v starlark.Value) int {
	d := 0
	for {
		switch x := v.(type) {
		case starlark.Int:
			if i, ok := x.Int64(); ok && i == 1 {
				return d
			}
			return -1
		case starlark.Tuple:
			if len(x) != 2 {
				return -1
			}
			a, aok := x[0].(starlark.Tuple)
			b, bok := x[1].(starlark.Tuple)
			if aok != bok {
				return -1
			}
			if aok && (len(a) != len(b) || (len(a) > 0 && &a[0] != &b[0])) {
				return -1
			}
			d++
			v = x[0]
		default:
			return -1
		}
	}
}

// dagFind: the DAG at the place where the shape puts it.
func dagFind(shape string, v starlark.Value) starlark.Value {
	defer func() { recover() }()
	switch shape {
	case "top":
		return v
	case "dict-key", "dict-key-two-gets":
		return v.(*starlark.Dict).Keys()[0]
	case "tuple-in-dict-key":
		return v.(*starlark.Dict).Keys()[0].(starlark.Tuple)[0]
	case "set-element":
		it := v.(*starlark.Set).Iterate()
		defer it.Done()
		var x starlark.Value
		it.Next(&x)
		return x
	case "dict-value":
		return v.(*starlark.Dict).Items()[0][1]
	case "list-element":
		return v.(*starlark.List).Index(0)
	}
	return nil
}

func dagDecode(shape string, unp int, bs []byte) (outcome string, elapsed time.Duration, what string) {
	var u Unpickler
	if unp == 1 {
		u = UnpicklerFunc(verifUnpickle)
	}
	t0 := time.Now()
	defer func() {
		if r := recover(); r != nil {
			outcome, elapsed, what = "panic", time.Since(t0), "-"
		}
	}()
	v, err := NewDecoder(bytes.NewReader(bs), u).Decode()
	elapsed = time.Since(t0)
	switch {
	case err != nil:
		return "err", elapsed, "-"
	case v == nil:
		return "nilnil", elapsed, "-"
	}
	what = "other"
	if x := dagFind(shape, v); x != nil {
		if d := dagDepth(x); d >= 0 {
			what = "dag:" + strconv.Itoa(d)
		}
	}
	return "ok", elapsed, what
}

// TestVerifC15DagChild decodes one input and prints the answer; the parent's watchdog decides what silence means.
func TestVerifC15DagChild(t *testing.T) {
	h := os.Getenv("VERIF_C15_DAG_HEX")
	if h == "" {
		t.Skip("not a child")
	}
	bs, err := hex.DecodeString(h)
	if err != nil {
		t.Fatal(err)
	}
	unp, _ := strconv.Atoi(os.Getenv("VERIF_C15_DAG_UNP"))
	o, el, what := dagDecode(os.Getenv("VERIF_C15_DAG_SHAPE"), unp, bs)
	fmt.Printf("DAGCHILD\t%s\t%d\t%s\n", o, el.Microseconds(), what)
}

func TestVerifC15Dag(t *testing.T) {
	inPath, outPath := os.Getenv("VERIF_IN"), os.Getenv("VERIF_OUT")
	if inPath == "" || outPath == "" || os.Getenv("VERIF_C15_DAG_HEX") != "" {
		t.Skip("VERIF_IN / VERIF_OUT not set")
	}
	in, err := os.ReadFile(inPath)
	if err != nil {
		t.Fatal(err)
	}
	f, err := os.Create(outPath)
	if err != nil {
		t.Fatal(err)
	}
	defer f.Close()
	w := bufio.NewWriter(f)
	defer w.Flush()
	var mu sync.Mutex
	var wg sync.WaitGroup
	for _, line := range strings.Split(string(in), "\n") {
		p := strings.Split(line, "\t")
		if len(p) != 7 || p[0] != "dag" {
			continue
		}
		id, shape, where := p[1], p[2], p[5]
		unp, _ := strconv.Atoi(p[4])
		bs, err := hex.DecodeString(p[6])
		if err != nil {
			t.Fatal(err)
		}
		if where == "inproc" {
			o, el, what := dagDecode(shape, unp, bs)
			mu.Lock()
			fmt.Fprintf(w, "dag\t%s\t%s\t%d\t%s\n", id, o, el.Microseconds(), what)
			mu.Unlock()
			continue
		}
		secs, _ := strconv.Atoi(strings.TrimPrefix(where, "child:"))
		wg.Add(1)
		go func() {
			defer wg.Done()
			ctx, cancel := context.WithTimeout(context.Background(), time.Duration(secs)*time.Second)
			defer cancel()
			t0 := time.Now()
			cmd := exec.CommandContext(ctx, os.Args[0], "-test.run=^TestVerifC15DagChild$", "-test.count=1")
			cmd.Env = append(os.Environ(), "VERIF_C15_DAG_HEX="+p[6], "VERIF_C15_DAG_SHAPE="+shape, "VERIF_C15_DAG_UNP="+p[4],
				"VERIF_IN=", "VERIF_OUT=")
			out, _ := cmd.CombinedOutput()
			o, el, what := "died", strconv.FormatInt(time.Since(t0).Microseconds(), 10), "-"
			if ctx.Err() != nil {
				o = "hang"
			}
			for _, l := range strings.Split(string(out), "\n") {
				if q := strings.Split(l, "\t"); len(q) == 4 && q[0] == "DAGCHILD" {
					o, el, what = q[1], q[2], q[3]
				}
			}
			mu.Lock()
			fmt.Fprintf(w, "dag\t%s\t%s\t%s\t%s\n", id, o, el, what)
			mu.Unlock()
		}()
	}
	wg.Wait()
}
