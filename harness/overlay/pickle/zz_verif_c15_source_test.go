package pickle

// C15, the decoder's SOURCE.  The decoder does not get a byte string, it gets an io.Reader (in dawn: a base64 stream
// decoder over the persisted stamp), and a reader can fail in other ways than by ending: "every possible corruption of
// a persisted target record" includes those that make the reader return an error that is not io.EOF.  This harness
// decodes from sources that deliver a prefix of the input and then fail, in every way an io.Reader may do so.
// (Uses verifDecode / verifDump / verifUnpickle of zz_verif_c07_test.go; added through `go test -overlay`.)
//
// Input  ($VERIF_SRC_IN):  data \t <n> \t <hex bytes>                                 (byte string number n)
//                          src \t <id> \t <unp 0|1> \t <mode> \t <k> \t <n>        (decode byte string n from a failing source)
//     mode sticky     k bytes, then (0, err) on every further Read
//          withdata   as sticky, but the error comes together with the last delivered bytes (n > 0, err)
//          bytewise   as sticky, one byte per Read
//          transient  k bytes, (0, err) ONCE, then the remaining bytes and io.EOF
//          closedpipe as sticky with a standard-library error value (io.ErrClosedPipe)
//          wrapeof    as sticky with an error that wraps io.EOF but is not io.EOF
//          b64:<c>    the source is base64.NewDecoder over the standard encoding of the bytes, in which the character at
//                     index k is replaced by the character with code <c> (dawn's persisted form of a stamp)
// Output ($VERIF_SRC_OUT): src \t <id> \t <delivered> \t <nerr> \t <outcome> \t <outcome of the in-memory prefix> \t <got>
//     delivered = bytes handed to the decoder before the first error (-1: the source never returned an error)
//     got       = "=" when the delivered bytes are the first <delivered> input bytes, else their hex
//     nerr      = number of Read calls answered with an error
//     outcome   = ok <dump> | err | nilnil | panic | hang     (hang: see srcGuard)
//     ORACLE \t source-<what> \t <id> \t <detail>

import (
	"bufio"
	"bytes"
	"encoding/base64"
	"encoding/hex"
	"fmt"
	"io"
	"os"
	"strconv"
	"strings"
	"testing"
)

type srcError struct{}

func (srcError) Error() string { return "verif: read error" }

type srcHang struct{}

// srcHangLimit: a decoder that keeps calling Read this many times on a source that has already failed is hung (it would
// never come back on a source that keeps failing; the guard breaks the loop by panicking with a value that is not an
// error, which Decode's recover swallows).
const srcHangLimit = 1 << 16

// srcGuard observes what the decoder does with its source.
type srcGuard struct {
	r         io.Reader
	delivered int // bytes handed over before the first error
	got       []byte
	nerr      int // Read calls answered with an error
	hung      bool
}

func (g *srcGuard) Read(p []byte) (int, error) {
	n, err := g.r.Read(p)
	if g.nerr == 0 {
		g.delivered += n
		g.got = append(g.got, p[:n]...)
	}
	if err != nil {
		g.nerr++
		if g.nerr > srcHangLimit {
			g.hung = true
			panic(srcHang{})
		}
	}
	return n, err
}

// srcFault delivers data[:k] and then fails.
type srcFault struct {
	data      []byte
	k, pos    int
	mode      string
	err       error
	signalled bool
}

func (s *srcFault) Read(p []byte) (int, error) {
	if len(p) == 0 {
		return 0, nil
	}
	if s.pos < s.k {
		end := s.k
		if s.mode == "bytewise" {
			end = s.pos + 1
		}
		n := copy(p, s.data[s.pos:end])
		s.pos += n
		if s.mode == "withdata" && s.pos == s.k {
			s.signalled = true
			return n, s.err
		}
		return n, nil
	}
	if s.mode == "transient" && s.signalled {
		if s.pos >= len(s.data) {
			return 0, io.EOF
		}
		n := copy(p, s.data[s.pos:])
		s.pos += n
		return n, nil
	}
	s.signalled = true
	return 0, s.err
}

func srcMake(mode string, k int, data []byte) io.Reader {
	if strings.HasPrefix(mode, "b64:") {
		c, _ := strconv.Atoi(mode[4:])
		enc := []byte(base64.StdEncoding.EncodeToString(data))
		if k < len(enc) {
			enc[k] = byte(c)
		}
		return base64.NewDecoder(base64.StdEncoding, bytes.NewReader(enc))
	}
	var err error = srcError{}
	switch mode {
	case "closedpipe":
		err = io.ErrClosedPipe
	case "wrapeof":
		err = fmt.Errorf("verif: %w", io.EOF)
	}
	return &srcFault{data: data, k: k, mode: mode, err: err}
}

// srcDecode classifies Decode from the guarded source.
func srcDecode(g *srcGuard, unp Unpickler) (out string) {
	defer func() {
		if r := recover(); r != nil {
			out = "panic"
			if _, ok := r.(srcHang); ok {
				out = "hang"
			}
		}
	}()
	v, err := NewDecoder(g, unp).Decode()
	switch {
	case g.hung:
		return "hang"
	case err != nil:
		return "err"
	case v == nil:
		return "nilnil"
	}
	return "ok " + verifDump(v)
}

func TestVerifC15Source(t *testing.T) {
	inPath, outPath := os.Getenv("VERIF_SRC_IN"), os.Getenv("VERIF_SRC_OUT")
	if inPath == "" || outPath == "" {
		t.Skip("VERIF_SRC_IN / VERIF_SRC_OUT not set")
	}
	in, err := os.Open(inPath)
	if err != nil {
		t.Fatal(err)
	}
	defer in.Close()
	f, err := os.Create(outPath)
	if err != nil {
		t.Fatal(err)
	}
	defer f.Close()
	w := bufio.NewWriterSize(f, 1<<20)
	defer w.Flush()

	sc := bufio.NewScanner(in)
	sc.Buffer(make([]byte, 1<<20), 1<<28)
	datas := map[string][]byte{}
	for sc.Scan() {
		fs := strings.Split(sc.Text(), "\t")
		if fs[0] == "data" {
			b, err := hex.DecodeString(fs[2])
			if err != nil {
				t.Fatal(err)
			}
			datas[fs[1]] = b
			continue
		}
		if fs[0] != "src" {
			continue
		}
		id, mode := fs[1], fs[3]
		var unp Unpickler
		if fs[2] == "1" {
			unp = UnpicklerFunc(verifUnpickle)
		}
		k, _ := strconv.Atoi(fs[4])
		data, found := datas[fs[5]]
		if !found {
			t.Fatalf("no data line %s", fs[5])
		}
		fmt.Fprintf(w, "begin\t%s\n", id)
		w.Flush()
		g := &srcGuard{r: srcMake(mode, k, data)}
		out := srcDecode(g, unp)
		delivered := g.delivered
		if g.nerr == 0 {
			delivered = -1
		}
		// what the same decoder says when the input simply ends where this source failed
		prefix, got := "-", "="
		if g.nerr > 0 {
			prefix = verifDecode(g.got, unp)
		}
		if !bytes.HasPrefix(data, g.got) {
			got = hex.EncodeToString(g.got)
		}
		detail := fmt.Sprintf("mode=%s k=%d delivered=%d reads-answered-with-an-error=%d", mode, k, delivered, g.nerr)
		switch {
		case out == "hang":
			// direct oracle of C15: decoding never hangs
			fmt.Fprintf(w, "ORACLE\tsource-hang\t%s\t%s\n", id, detail)
		case out == "panic" || out == "nilnil":
			fmt.Fprintf(w, "ORACLE\tsource-%s\t%s\t%s\n", out, id, detail)
		case strings.HasPrefix(out, "ok ") && g.nerr > 0 && prefix == "err" && (mode != "transient" || out != verifDecode(data, unp)):
			// the decoder asked for bytes beyond the failure, was told so, and still produced a value that the
			// delivered bytes do not encode: the failure of the source (a corrupted record) is not reported
			// (after a transient failure, the value of the complete input is tolerated: retrying is not forbidden)
			fmt.Fprintf(w, "ORACLE\tsource-error-swallowed\t%s\t%s\n", id, detail)
		}
		fmt.Fprintf(w, "src\t%s\t%d\t%d\t%s\t%s\t%s\n", id, delivered, g.nerr, out, prefix, got)
	}
	if err := sc.Err(); err != nil {
		t.Fatal(err)
	}
}
