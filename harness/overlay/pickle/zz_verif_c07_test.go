package pickle

// Correspondence harness for C07 and C15 (added to the package through `go test -overlay`; never committed
// to /repo).
//
// Input  ($VERIF_IN), one case per line:
//     rt  \t <id> \t <description>            build the described value, encode, decode, dump
//     dec \t <id> \t <unp> \t <hex bytes>     decode arbitrary bytes (unp: 0 = nil unpickler, 1 = test unpickler)
// Output ($VERIF_OUT):
//     rt  \t <id> \t <dump of the source value> \t <hex encoding | err | panic> \t <dump of decode(encoding) | err | nilnil | panic>
//     dec \t <id> \t <ok dump | err | nilnil | panic>
//     ORACLE \t <name> \t <id> \t <detail>    direct failures of the properties on the implementation
//     begin \t <id>                           progress marker written (and flushed) before each case
//
// Description grammar (heap nodes first, then the root value):
//     line  := { node '|' } '=' value
//     node  := 'L[' vals ']' | 'D[' vals ']' (k,v alternating) | 'E[' vals ']' | 'O' hex '.' hex '[' vals ']'
//     value := 'N' | 'T' | 'F' | 'I' decimal | 'G' hex16 (float bits) | 'S' hex | 'B' hex | 't(' vals ')' | '@' index
// The dump uses the same alphabet; heap objects carry their first-visit number: L<id>[..] D<id>[..] E<id>[..]
// O<id>:<hex>.<hex>[..], '@'<id> for a repeated visit, 'M' mark, 'g'<hex>.<hex> global.

import (
	"bufio"
	"bytes"
	"encoding/hex"
	"fmt"
	"math"
	"math/big"
	"os"
	"strconv"
	"strings"
	"testing"

	"go.starlark.net/starlark"
)

// ---- a host object with an object-preserving pickler/unpickler pair

type verifObj struct {
	module, name string
	args         starlark.Tuple
}

func (*verifObj) String() string        { return "verifObj" }
func (*verifObj) Type() string          { return "verifObj" }
func (*verifObj) Freeze()               {}
func (*verifObj) Truth() starlark.Bool  { return starlark.True }
func (*verifObj) Hash() (uint32, error) { return 0, fmt.Errorf("unhashable type: verifObj") }

func verifPickle(x starlark.Value) (string, string, starlark.Tuple, error) {
	if o, ok := x.(*verifObj); ok {
		return o.module, o.name, o.args, nil
	}
	return "", "", nil, ErrCannotPickle
}

func verifUnpickle(module, name string, args starlark.Tuple) (starlark.Value, error) {
	return &verifObj{module, name, args}, nil
}

// ---- description parser

type descParser struct {
	s     string
	i     int
	nodes []starlark.Value
}

func (p *descParser) hex() string {
	j := p.i
	for j < len(p.s) && (p.s[j] >= '0' && p.s[j] <= '9' || p.s[j] >= 'a' && p.s[j] <= 'f') {
		j++
	}
	b, err := hex.DecodeString(p.s[p.i:j])
	if err != nil {
		panic(err)
	}
	p.i = j
	return string(b)
}

func (p *descParser) vals(end byte) []starlark.Value {
	var vs []starlark.Value
	for p.s[p.i] != end {
		vs = append(vs, p.value())
		if p.s[p.i] == ',' {
			p.i++
		}
	}
	p.i++
	return vs
}

func (p *descParser) value() starlark.Value {
	c := p.s[p.i]
	p.i++
	switch c {
	case 'N':
		return starlark.None
	case 'T':
		return starlark.True
	case 'F':
		return starlark.False
	case 'I':
		j := p.i
		for j < len(p.s) && (p.s[j] == '-' || p.s[j] >= '0' && p.s[j] <= '9') {
			j++
		}
		n, ok := new(big.Int).SetString(p.s[p.i:j], 10)
		if !ok {
			panic("bad int " + p.s[p.i:j])
		}
		p.i = j
		return starlark.MakeBigInt(n)
	case 'G':
		bits, err := strconv.ParseUint(p.s[p.i:p.i+16], 16, 64)
		if err != nil {
			panic(err)
		}
		p.i += 16
		return starlark.Float(math.Float64frombits(bits))
	case 'S':
		return starlark.String(p.hex())
	case 'B':
		return starlark.Bytes(p.hex())
	case 't':
		p.i++ // (
		return starlark.Tuple(p.vals(')'))
	case '@':
		j := p.i
		for j < len(p.s) && p.s[j] >= '0' && p.s[j] <= '9' {
			j++
		}
		k, _ := strconv.Atoi(p.s[p.i:j])
		p.i = j
		return p.nodes[k]
	}
	panic(fmt.Sprintf("bad description at %d: %q", p.i-1, c))
}

// parseDesc builds the described value graph: all heap objects are allocated first, then filled.
func parseDesc(s string) starlark.Value {
	eq := strings.LastIndexByte(s, '=')
	var nodeDescs []string
	if eq > 0 {
		nodeDescs = strings.Split(s[:eq-1], "|")
	}
	p := &descParser{}
	for _, nd := range nodeDescs {
		switch nd[0] {
		case 'L':
			p.nodes = append(p.nodes, starlark.NewList(nil))
		case 'D':
			p.nodes = append(p.nodes, starlark.NewDict(0))
		case 'E':
			p.nodes = append(p.nodes, starlark.NewSet(0))
		case 'O':
			p.nodes = append(p.nodes, &verifObj{})
		default:
			panic("bad node " + nd)
		}
	}
	for k, nd := range nodeDescs {
		p.s, p.i = nd, 1
		switch n := p.nodes[k].(type) {
		case *starlark.List:
			p.i++
			for _, v := range p.vals(']') {
				n.Append(v)
			}
		case *starlark.Dict:
			p.i++
			vs := p.vals(']')
			for j := 0; j+1 < len(vs); j += 2 {
				if err := n.SetKey(vs[j], vs[j+1]); err != nil {
					panic(err)
				}
			}
		case *starlark.Set:
			p.i++
			for _, v := range p.vals(']') {
				if err := n.Insert(v); err != nil {
					panic(err)
				}
			}
		case *verifObj:
			n.module = p.hex()
			p.i++ // .
			n.name = p.hex()
			p.i++ // [
			n.args = starlark.Tuple(p.vals(']'))
		}
	}
	p.s, p.i = s, eq+1
	return p.value()
}

// ---- canonical dump

type dumper struct {
	b    strings.Builder
	seen map[starlark.Value]int
}

func (d *dumper) seq(vs []starlark.Value) {
	for i, v := range vs {
		if i > 0 {
			d.b.WriteByte(',')
		}
		d.dump(v)
	}
}

func (d *dumper) visit(x starlark.Value, tag string) bool {
	if id, ok := d.seen[x]; ok {
		fmt.Fprintf(&d.b, "@%d", id)
		return false
	}
	id := len(d.seen)
	d.seen[x] = id
	fmt.Fprintf(&d.b, "%s%d", tag, id)
	return true
}

func (d *dumper) dump(x starlark.Value) {
	switch x := x.(type) {
	case nil:
		d.b.WriteString("?nil")
	case starlark.NoneType:
		d.b.WriteByte('N')
	case starlark.Bool:
		if x {
			d.b.WriteByte('T')
		} else {
			d.b.WriteByte('F')
		}
	case starlark.Int:
		d.b.WriteString("I" + x.BigInt().String())
	case starlark.Float:
		fmt.Fprintf(&d.b, "G%016x", math.Float64bits(float64(x)))
	case starlark.String:
		d.b.WriteString("S" + hex.EncodeToString([]byte(x)))
	case starlark.Bytes:
		d.b.WriteString("B" + hex.EncodeToString([]byte(x)))
	case starlark.Tuple:
		d.b.WriteString("t(")
		d.seq(x)
		d.b.WriteByte(')')
	case *starlark.List:
		if d.visit(x, "L") {
			d.b.WriteByte('[')
			vs := make([]starlark.Value, x.Len())
			for i := range vs {
				vs[i] = x.Index(i)
			}
			d.seq(vs)
			d.b.WriteByte(']')
		}
	case *starlark.Dict:
		if d.visit(x, "D") {
			d.b.WriteByte('[')
			var vs []starlark.Value
			for _, kv := range x.Items() {
				vs = append(vs, kv[0], kv[1])
			}
			d.seq(vs)
			d.b.WriteByte(']')
		}
	case *starlark.Set:
		if d.visit(x, "E") {
			d.b.WriteByte('[')
			d.seq(x.Elems())
			d.b.WriteByte(']')
		}
	case *verifObj:
		if d.visit(x, "O") {
			fmt.Fprintf(&d.b, ":%s.%s[", hex.EncodeToString([]byte(x.module)), hex.EncodeToString([]byte(x.name)))
			d.seq(x.args)
			d.b.WriteByte(']')
		}
	case markT:
		d.b.WriteByte('M')
	case *global:
		fmt.Fprintf(&d.b, "g%s.%s", hex.EncodeToString([]byte(x.module)), hex.EncodeToString([]byte(x.name)))
	default:
		fmt.Fprintf(&d.b, "?%T", x)
	}
}

func verifDump(x starlark.Value) string {
	d := &dumper{seen: map[starlark.Value]int{}}
	d.dump(x)
	return d.b.String()
}

// ---- running the implementation under recover

func verifEncode(x starlark.Value) (out string, enc []byte) {
	defer func() {
		if r := recover(); r != nil {
			out = "panic"
		}
	}()
	var buf bytes.Buffer
	if err := NewEncoder(&buf, PicklerFunc(verifPickle)).Encode(x); err != nil {
		return "err", nil
	}
	return hex.EncodeToString(buf.Bytes()), buf.Bytes()
}

// verifDecode classifies Decode(bs): "ok <dump>", "err", "nilnil", "panic".
func verifDecode(bs []byte, unp Unpickler) (out string) {
	defer func() {
		if r := recover(); r != nil {
			out = "panic"
		}
	}()
	v, err := NewDecoder(bytes.NewReader(bs), unp).Decode()
	switch {
	case err != nil:
		return "err"
	case v == nil:
		return "nilnil"
	}
	return "ok " + verifDump(v)
}

func TestVerifPickle(t *testing.T) {
	inPath, outPath := os.Getenv("VERIF_IN"), os.Getenv("VERIF_OUT")
	if inPath == "" || outPath == "" {
		t.Skip("VERIF_IN / VERIF_OUT not set")
	}
	in, err := os.Open(inPath)
	if err != nil {
		t.Fatal(err)
	}
	defer in.Close()
	f, err := os.Create(outPath)
	if err != nil {
		t.Fatal(err)
	}
	defer f.Close()
	w := bufio.NewWriterSize(f, 1<<20)
	defer w.Flush()
	verifPlaceholderCases(w)

	sc := bufio.NewScanner(in)
	sc.Buffer(make([]byte, 1<<20), 1<<28)
	for sc.Scan() {
		fs := strings.Split(sc.Text(), "\t")
		// progress marker: if the process dies (e.g. fatal stack overflow) the driver knows on which case
		fmt.Fprintf(w, "begin\t%s\n", fs[1])
		w.Flush()
		switch fs[0] {
		case "rt":
			id := fs[1]
			x := parseDesc(fs[2])
			src := verifDump(x)
			encOut, enc := verifEncode(x)
			dec := "-"
			if enc != nil {
				dec = verifDecode(enc, UnpicklerFunc(verifUnpickle))
				// direct oracle of C07: decode(encode v) is isomorphic to v, sharing included
				if dec != "ok "+src {
					fmt.Fprintf(w, "ORACLE\troundtrip\t%s\t%s\n", id, clip(dec))
				}
				// and the source value is untouched by encoding
				if verifDump(x) != src {
					fmt.Fprintf(w, "ORACLE\tsource-mutated\t%s\t-\n", id)
				}
			} else {
				fmt.Fprintf(w, "ORACLE\tencode-failed\t%s\t%s\n", id, encOut)
			}
			fmt.Fprintf(w, "rt\t%s\t%s\t%s\t%s\n", id, src, encOut, dec)
		case "dec":
			id := fs[1]
			var unp Unpickler
			if fs[2] == "1" {
				unp = UnpicklerFunc(verifUnpickle)
			}
			bs, err := hex.DecodeString(fs[3])
			if err != nil {
				t.Fatal(err)
			}
			out := verifDecode(bs, unp)
			// direct oracle of C15: a value or an error, never a panic, never (nil, nil)
			if out == "panic" || out == "nilnil" {
				fmt.Fprintf(w, "ORACLE\tdecode-%s\t%s\t%s\n", out, id, fs[3])
			}
			fmt.Fprintf(w, "dec\t%s\t%s\n", id, out)
		}
	}
	if err := sc.Err(); err != nil {
		t.Fatal(err)
	}
}

// ---- a host pickler that, like dawn's recursionPickler, answers a second request for an object that is still being
// pickled with a placeholder: the object is then memoized twice (placeholder, final), and the ids of everything memoized
// afterwards must still agree with the decoder's memo

type recPickler struct{ seen map[*verifObj]bool }

func (p *recPickler) Pickle(x starlark.Value) (string, string, starlark.Tuple, error) {
	if o, ok := x.(*verifObj); ok {
		if p.seen[o] {
			return "verif", "Placeholder", starlark.Tuple{starlark.String(o.name)}, nil
		}
		p.seen[o] = true
		return o.module, o.name, o.args, nil
	}
	return "", "", nil, ErrCannotPickle
}

func verifPlaceholderCases(w *bufio.Writer) {
	for n := 0; n < 4; n++ {
		// n host objects, each reachable from its own arguments through a list
		var hosts starlark.Tuple
		for i := 0; i < n; i++ {
			x := starlark.NewList(nil)
			h := &verifObj{"verif", "H" + strconv.Itoa(i), starlark.Tuple{x}}
			x.Append(h)
			hosts = append(hosts, h)
		}
		shared := starlark.NewList([]starlark.Value{starlark.MakeInt(1), starlark.MakeInt(2)})
		d := starlark.NewDict(1)
		d.SetKey(starlark.String("k"), shared)
		top := starlark.Tuple{hosts, shared, d, shared}
		var buf bytes.Buffer
		if err := NewEncoder(&buf, &recPickler{map[*verifObj]bool{}}).Encode(top); err != nil {
			fmt.Fprintf(w, "ORACLE\tencode-failed\tplaceholder-%d\t%v\n", n, err)
			continue
		}
		v, err := NewDecoder(&buf, UnpicklerFunc(verifUnpickle)).Decode()
		ok := false
		if t, isT := v.(starlark.Tuple); err == nil && isT && len(t) == 4 {
			l1, a := t[1].(*starlark.List)
			l2, b := t[3].(*starlark.List)
			dd, c := t[2].(*starlark.Dict)
			if a && b && c && l1 == l2 && l1.Len() == 2 {
				if x, found, _ := dd.Get(starlark.String("k")); found && x == starlark.Value(l1) {
					if i0, _ := starlark.AsInt32(l1.Index(0)); i0 == 1 {
						ok = true
					}
				}
			}
		}
		if !ok {
			fmt.Fprintf(w, "ORACLE\troundtrip\tplaceholder-%d\ta container shared after %d doubly-memoized host objects does not decode to one shared list [1, 2] (err=%v)\n", n, n, err)
		}
	}
}

func clip(s string) string {
	if len(s) > 200 {
		return s[:200] + "..."
	}
	return s
}
