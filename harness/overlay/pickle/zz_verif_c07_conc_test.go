package pickle

// Instance-isolation harness for C07 (added to the package through `go test -overlay` together with
// zz_verif_c07_test.go, whose description parser, dump and host pickler pair it uses; never committed to /repo).
//
// C07 says that decoding the encoding of a value yields that value -- for every value, whatever else the process is
// doing.  The model (Pickle/Model.v) makes the encoding a function of the value graph and of the encoder's own memo,
// and the decoded graph a function of the bytes.  This harness checks that the implementation's Encoders and Decoders
// really are such functions: several codec instances, each with its own Writer/Reader, its own memo and its own
// value, are run INTERLEAVED, and every one of them must produce exactly the bytes / the graph it produces when it
// runs alone (Props_C07.interleaved_codecs_isolated is the statement for the model).  Any state shared between
// instances (a package-level scratch buffer, a shared memo or counter, a pooled buffer handed out twice, ...) shows up
// as a difference.
//
// Interleavings are explored in two ways:
//   * deterministically, with a cooperative scheduler: exactly one task runs at a time, and a task hands control back
//     at every point at which the codec calls out of the package -- on entry to and on return from Writer.Write, on
//     entry to Reader.Read and after Read has filled the caller's slice (before it returns), in Pickler.Pickle and in
//     Unpickler.Unpickle.  Which task runs next is decided by a seeded policy (rr: strict alternation, rand: uniform,
//     burst: random run lengths, serial: one after the other -- the control, which must trivially agree).  Readers
//     deliver at most `chunk` bytes per call (0 = as many as asked for).
//   * free running, on real goroutines: every encoder writes through an io.Pipe (whose Write blocks, holding the
//     caller's slice, until the reader has taken it) into its decoder (policy pipe), or into a writer that calls
//     runtime.Gosched before it copies (policy gosched).  Passing is deterministic on a correct tree; detection is
//     not, which is why the deterministic schedules above are the main family.
//
// Input  ($VERIF_CONC_IN), one group per line:
//     conc \t <gid> \t <policy> \t <seed> \t <chunk> \t <id>=<description> { \t <id>=<description> }
// Output ($VERIF_CONC_OUT):
//     cbegin \t <gid>                           progress marker written (and flushed) before each group
//     conc \t <gid> \t <tasks> \t <scheduler steps>
//     ORACLE \t isolation-encode \t <gid> \t <member id> \t <first differing offset> \t <hex got (clipped)> \t <hex alone (clipped)>
//     ORACLE \t isolation-decode \t <gid> \t <member id> \t <got (clipped)> \t <alone (clipped)>
//     ORACLE \t isolation-control \t <gid> \t <member id> \t <detail>     the harness disagrees with itself (serial policy)

import (
	"bufio"
	"bytes"
	"encoding/hex"
	"fmt"
	"io"
	"math/rand"
	"os"
	"runtime"
	"strconv"
	"strings"
	"sync"
	"testing"

	"go.starlark.net/starlark"
)

// ---- cooperative scheduler: one task runs at a time; tasks yield at call-outs

type coopSched struct {
	event chan bool // sent by the running task: false = parked at a yield point, true = finished
	tasks []*coopTask
	steps int
}

type coopTask struct {
	s      *coopSched
	resume chan struct{}
	body   func(t *coopTask)
}

func (t *coopTask) yield() {
	t.s.event <- false
	<-t.resume
}

func (s *coopSched) add(body func(t *coopTask)) {
	s.tasks = append(s.tasks, &coopTask{s: s, resume: make(chan struct{}), body: body})
}

func (s *coopSched) run(policy string, rng *rand.Rand) {
	s.event = make(chan bool)
	for _, t := range s.tasks {
		t := t
		go func() {
			<-t.resume
			defer func() {
				recover() // bodies recover themselves; this only keeps the scheduler alive
				s.event <- true
			}()
			t.body(t)
		}()
	}
	live := make([]*coopTask, len(s.tasks))
	copy(live, s.tasks)
	cur, left := 0, 0
	for len(live) > 0 {
		switch policy {
		case "serial":
			cur = 0
		case "rr":
			cur = (cur + 1) % len(live)
		case "burst":
			if left <= 0 || cur >= len(live) {
				cur = rng.Intn(len(live))
				left = 1 + rng.Intn(40)
			}
			left--
		default: // rand
			cur = rng.Intn(len(live))
		}
		t := live[cur]
		t.resume <- struct{}{}
		s.steps++
		if <-s.event {
			live = append(live[:cur], live[cur+1:]...)
			left = 0
		}
	}
}

type coopWriter struct {
	t   *coopTask
	buf bytes.Buffer
}

func (w *coopWriter) Write(p []byte) (int, error) {
	w.t.yield() // the codec has handed p over; nothing has been taken from it yet
	n, err := w.buf.Write(p)
	w.t.yield()
	return n, err
}

type coopReader struct {
	t     *coopTask
	data  []byte
	chunk int
}

func (r *coopReader) Read(p []byte) (int, error) {
	r.t.yield()
	if len(r.data) == 0 {
		return 0, io.EOF
	}
	n := len(p)
	if r.chunk > 0 && n > r.chunk {
		n = r.chunk
	}
	if n > len(r.data) {
		n = len(r.data)
	}
	copy(p, r.data[:n])
	r.data = r.data[n:]
	r.t.yield() // p is filled; the codec has not looked at it yet
	return n, nil
}

// ---- one member of a group

type concMember struct {
	id, desc string
	aloneEnc []byte // nil: Encode fails when run alone
	aloneOut string // hex | err | panic
	aloneDec string
	gotEnc   []byte
	gotOut   string
	gotDec   string
}

func concEncode(x starlark.Value, w io.Writer, p Pickler) (out string) {
	defer func() {
		if r := recover(); r != nil {
			out = "panic"
		}
	}()
	if err := NewEncoder(w, p).Encode(x); err != nil {
		return "err"
	}
	return "ok"
}

func concDecode(r io.Reader, unp Unpickler) (out string) {
	defer func() {
		if r := recover(); r != nil {
			out = "panic"
		}
	}()
	v, err := NewDecoder(r, unp).Decode()
	switch {
	case err != nil:
		return "err"
	case v == nil:
		return "nilnil"
	}
	return "ok " + verifDump(v)
}

func firstDiff(a, b []byte) int {
	n := len(a)
	if len(b) < n {
		n = len(b)
	}
	for i := 0; i < n; i++ {
		if a[i] != b[i] {
			return i
		}
	}
	return n
}

func clipHex(b []byte, at int) string {
	lo := at - 16
	if lo < 0 {
		lo = 0
	}
	hi := at + 48
	if hi > len(b) {
		hi = len(b)
	}
	return fmt.Sprintf("[%d:%d]%s", lo, hi, hex.EncodeToString(b[lo:hi]))
}

func (m *concMember) report(w *bufio.Writer, gid string, control bool) {
	if control {
		if m.gotOut != m.aloneOut || !bytes.Equal(m.gotEnc, m.aloneEnc) || m.gotDec != m.aloneDec {
			fmt.Fprintf(w, "ORACLE\tisolation-control\t%s\t%s\tencode %s/%s decode %s/%s\n", gid, m.id, m.gotOut, m.aloneOut,
				clip(m.gotDec), clip(m.aloneDec))
		}
		return
	}
	if m.gotOut != m.aloneOut || !bytes.Equal(m.gotEnc, m.aloneEnc) {
		at := firstDiff(m.gotEnc, m.aloneEnc)
		fmt.Fprintf(w, "ORACLE\tisolation-encode\t%s\t%s\t%d\t%s %s\t%s %s\n", gid, m.id, at, m.gotOut, clipHex(m.gotEnc, at),
			m.aloneOut, clipHex(m.aloneEnc, at))
	}
	if m.gotDec != m.aloneDec {
		fmt.Fprintf(w, "ORACLE\tisolation-decode\t%s\t%s\t%s\t%s\n", gid, m.id, clip(m.gotDec), clip(m.aloneDec))
	}
}

// alone: the reference behaviour of one encoder and one decoder with nothing else running
func (m *concMember) alone() {
	var buf bytes.Buffer
	m.aloneOut = concEncode(parseDesc(m.desc), &buf, PicklerFunc(verifPickle))
	m.aloneEnc = buf.Bytes()
	m.aloneDec = "-"
	if m.aloneOut == "ok" {
		m.aloneDec = concDecode(bytes.NewReader(m.aloneEnc), UnpicklerFunc(verifUnpickle))
	}
}

// coop: all encoders of the group and all decoders (each decoding the reference encoding of its member, so that the
// decoders are judged independently of the encoders) in ONE schedule
func concCoop(ms []*concMember, policy string, seed int64, chunk int) int {
	s := &coopSched{}
	for _, m := range ms {
		m := m
		x := parseDesc(m.desc)
		s.add(func(t *coopTask) {
			w := &coopWriter{t: t}
			m.gotOut = concEncode(x, w, PicklerFunc(func(x starlark.Value) (string, string, starlark.Tuple, error) {
				t.yield()
				return verifPickle(x)
			}))
			m.gotEnc = w.buf.Bytes()
		})
		m.gotDec = "-"
		if m.aloneOut == "ok" {
			s.add(func(t *coopTask) {
				r := &coopReader{t: t, data: m.aloneEnc, chunk: chunk}
				m.gotDec = concDecode(r, UnpicklerFunc(func(module, name string, args starlark.Tuple) (starlark.Value, error) {
					t.yield()
					return verifUnpickle(module, name, args)
				}))
			})
		}
	}
	s.run(policy, rand.New(rand.NewSource(seed)))
	return s.steps
}

type goschedWriter struct{ buf bytes.Buffer }

func (w *goschedWriter) Write(p []byte) (int, error) {
	runtime.Gosched()
	return w.buf.Write(p)
}

type teeWriter struct {
	pw  *io.PipeWriter
	buf bytes.Buffer
}

func (w *teeWriter) Write(p []byte) (int, error) {
	n, err := w.pw.Write(p) // blocks, holding p, until the decoder has taken the bytes
	w.buf.Write(p[:n])
	return n, err
}

// free: real goroutines, several rounds
func concFree(ms []*concMember, policy string, rounds int, w *bufio.Writer, gid string) {
	var mu sync.Mutex
	for round := 0; round < rounds; round++ {
		var wg sync.WaitGroup
		start := make(chan struct{})
		for _, m := range ms {
			m := m
			x := parseDesc(m.desc)
			r := &concMember{id: m.id, aloneEnc: m.aloneEnc, aloneOut: m.aloneOut, aloneDec: m.aloneDec, gotDec: "-"}
			var decDone sync.WaitGroup
			wg.Add(1)
			if policy == "pipe" {
				pr, pw := io.Pipe()
				tw := &teeWriter{pw: pw}
				decDone.Add(1)
				go func() {
					defer decDone.Done()
					got := concDecode(pr, UnpicklerFunc(verifUnpickle))
					pr.Close() // unblocks an encoder that is still writing
					if m.aloneOut == "ok" {
						r.gotDec = got
					}
				}()
				go func() {
					defer wg.Done()
					<-start
					r.gotOut = concEncode(x, tw, PicklerFunc(verifPickle))
					pw.Close()
					decDone.Wait()
					r.gotEnc = tw.buf.Bytes()
					mu.Lock()
					r.report(w, gid, false)
					mu.Unlock()
				}()
			} else {
				go func() {
					defer wg.Done()
					<-start
					gw := &goschedWriter{}
					r.gotOut = concEncode(x, gw, PicklerFunc(verifPickle))
					r.gotEnc = gw.buf.Bytes()
					if m.aloneOut == "ok" {
						r.gotDec = concDecode(bytes.NewReader(m.aloneEnc), UnpicklerFunc(verifUnpickle))
					}
					mu.Lock()
					r.report(w, gid, false)
					mu.Unlock()
				}()
			}
		}
		close(start)
		wg.Wait()
	}
}

func TestVerifPickleIsolation(t *testing.T) {
	inPath, outPath := os.Getenv("VERIF_CONC_IN"), os.Getenv("VERIF_CONC_OUT")
	if inPath == "" || outPath == "" {
		t.Skip("VERIF_CONC_IN / VERIF_CONC_OUT not set")
	}
	in, err := os.Open(inPath)
	if err != nil {
		t.Fatal(err)
	}
	defer in.Close()
	f, err := os.Create(outPath)
	if err != nil {
		t.Fatal(err)
	}
	defer f.Close()
	w := bufio.NewWriterSize(f, 1<<20)
	defer w.Flush()

	sc := bufio.NewScanner(in)
	sc.Buffer(make([]byte, 1<<20), 1<<28)
	for sc.Scan() {
		fs := strings.Split(sc.Text(), "\t")
		if len(fs) < 6 || fs[0] != "conc" {
			continue
		}
		gid, policy := fs[1], fs[2]
		fmt.Fprintf(w, "cbegin\t%s\n", gid) // progress marker: the driver knows which group a dead process was running
		w.Flush()
		seed, _ := strconv.ParseInt(fs[3], 10, 64)
		chunk, _ := strconv.Atoi(fs[4])
		var ms []*concMember
		for _, d := range fs[5:] {
			eq := strings.IndexByte(d, '=')
			m := &concMember{id: d[:eq], desc: d[eq+1:]}
			m.alone()
			ms = append(ms, m)
		}
		steps := 0
		switch policy {
		case "pipe", "gosched":
			concFree(ms, policy, int(seed%7)+3, w, gid)
		default:
			steps = concCoop(ms, policy, seed, chunk)
			for _, m := range ms {
				m.report(w, gid, policy == "serial")
			}
		}
		fmt.Fprintf(w, "conc\t%s\t%d\t%d\n", gid, len(ms), steps)
	}
	if err := sc.Err(); err != nil {
		t.Fatal(err)
	}
}
