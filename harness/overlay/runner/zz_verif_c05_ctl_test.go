package runner

// C05: controlled scheduler for the real runner ("deadlock = no runnable goroutine under the controlled scheduler"), and the
// graph family "cycle whose members have other dependencies around the edge that closes the cycle".
//
// Under control every goroutine of a build stops at each verifhook point that is outside a critical section of the runner
// (run.entered, run.loaded, eval.begin, publish.pre/post, walk.pre/load/cycle, wait.begin/end, clear.pre/post, eval.reenter,
// and the fake target's eval.results/body.end) and waits there until the controller releases it.  The controller releases ONE
// goroutine at a time, chosen by a seeded policy, and before every choice waits until the build has settled: every goroutine
// of the build is parked at a hook, has ended, or is blocked inside the runner (sync.Cond.Wait / sync.Mutex.Lock ... as the Go
// runtime itself reports it in runtime.Stack).  So the schedule is a sequence of (goroutine, hook) choices, the interleaving of
// the shared-memory operations between two hooks is exactly that sequence, a run is reproducible from its seed, and
//
//	deadlock  :=  the build has not ended, no goroutine is parked at a hook, none is running or runnable
//
// is decided from the runtime's own goroutine states (confirmed three times, 20 ms apart): every goroutine of the build then
// waits for a mutex or a condition that only another goroutine of the build could release.  No harness lock is held while a
// goroutine runs the runner's code (unlike the free-running mode, whose log mutex spans a .pre/.post pair), so such a state is
// a deadlock of the runner itself.  A run that takes more than the step budget is reported as non-terminating.
//
// Environment (in addition to the shared harness's): VERIF_CTL_OUT (output; same record format as the shared harness),
// VERIF_CTL_REPEAT (schedules per graph x limit x policy), VERIF_CTL_RANDOM (random graphs).

import (
	"bufio"
	"fmt"
	"math/rand"
	"os"
	"runtime"
	"sort"
	"strings"
	"sync"
	"sync/atomic"
	"testing"
	"time"
)

func init() {
	vctlNew = func(r *vrun, v *vlog) (func(string, ...any), func(chan error, *vresult) (error, string)) {
		c := &vctl{v: v, policy: r.policy, rng: rand.New(rand.NewSource(int64(r.seed))), parked: map[int64]*vparked{},
			stale: map[int64]bool{}, steps: map[string]int{}, prio: map[string]int{}}
		for _, g := range vgoroutines() {
			if g.inRun {
				c.stale[g.gid] = true // left over from an earlier run that was given up
			}
		}
		return c.at, c.drive
	}
	vextraGraphs = vsideFamily
}

// ---------------------------------------------------------------------------------------------------------
// graph family: cycles of length 1..4 whose members list other dependencies before / after / around the closing edge

func vsideFamily() []*vgraph {
	var out []*vgraph
	for c := 1; c <= 4; c++ {
		for _, side := range []string{"ok", "fail", "unknown", "shared", "chain"} {
			for _, pos := range []string{"before", "after", "around"} {
				// members 0..c-1 (member i depends on member (i+1) mod c), then the side targets
				n := c
				edges := map[int][]int{}
				var failing, unknown []int
				shared := -1
				for i := 0; i < c; i++ {
					next := (i + 1) % c
					mk := func() int {
						switch side {
						case "shared":
							if shared < 0 {
								shared = n
								n++
							}
							return shared
						case "chain":
							a, b := n, n+1
							n += 2
							edges[a] = []int{b}
							return a
						}
						s := n
						n++
						if side == "fail" {
							failing = append(failing, s)
						} else if side == "unknown" {
							unknown = append(unknown, s)
						}
						return s
					}
					switch pos {
					case "before":
						edges[i] = []int{mk(), next}
					case "after":
						edges[i] = []int{next, mk()}
					default:
						edges[i] = []int{mk(), next, mk()}
					}
				}
				g := vg(fmt.Sprintf("side_c%d_%s_%s", c, side, pos), n, edges).fail(failing...).unk(unknown...)
				out = append(out, g)
			}
		}
	}
	// the cycle behind a root that is not part of it, the root's own list also having a dependency before the entry
	out = append(out,
		vg("side_tail_c2", 5, map[int][]int{0: {3, 1}, 1: {4, 2}, 2: {4, 1}}),
		vg("side_tail_c3", 6, map[int][]int{0: {4, 1}, 1: {5, 2}, 2: {3}, 3: {4, 1}}).fail(5),
		vg("cycle4", 4, map[int][]int{0: {1}, 1: {2}, 2: {3}, 3: {0}}),
		vg("cycle5", 5, map[int][]int{0: {1}, 1: {2}, 2: {3}, 3: {4}, 4: {0}}),
		vg("cycle4_chords", 4, map[int][]int{0: {1, 2}, 1: {2, 3}, 2: {3, 0}, 3: {0, 1}}),
		vg("two_cycles_shared_member", 5, map[int][]int{0: {1, 3}, 1: {2}, 2: {0}, 3: {4}, 4: {0}}),
	)
	return out
}

// ---------------------------------------------------------------------------------------------------------
// controller

type vparked struct {
	gid   int64
	label string
	point string
	ch    chan struct{}
}

type vctl struct {
	v      *vlog
	policy string
	rng    *rand.Rand

	mu     sync.Mutex
	parked map[int64]*vparked
	off    bool // the run was given up: hooks pass through

	stale     map[int64]bool
	last      string         // label released last (policy sticky)
	steps     map[string]int // releases per label (policy lockstep)
	prio      map[string]int // policy pct
	nrel      int
	snaps     int
	busy      bool
	unsettled int // self-check: times the runtime showed a runnable goroutine of the build after settleAfter
}

func (c *vctl) at(point string, args ...any) {
	gid := vgid()
	v := c.v
	v.mu.Lock()
	v.evs = append(v.evs, vevent{gid, point, vcopyArgs(args)})
	switch point {
	case "start.run":
		v.live.Add(1)
	case "run.finished":
		v.fin[gid] = true
	case "gate.exit":
		if v.fin[gid] {
			delete(v.fin, gid)
			v.live.Add(-1)
		}
	case "walk.cycle":
		v.nCyclic.Add(1)
	}
	v.mu.Unlock()
	if vInsideCS[point] || gid == v.mainGid.Load() || len(args) == 0 {
		return
	}
	label, ok := args[0].(string)
	if !ok {
		return // main.result: logged by the harness's own goroutine
	}
	p := &vparked{gid: gid, label: label, point: point, ch: make(chan struct{})}
	c.mu.Lock()
	if c.off {
		c.mu.Unlock()
		return
	}
	c.parked[gid] = p
	c.mu.Unlock()
	<-p.ch
}

// settleAfter waits for the build to settle after a release.  Controlled runs use ONE processor (GOMAXPROCS(1)): a goroutine
// made runnable by the controller or by another goroutine of the build goes to the processor's local run queue, the
// controller's Gosched puts the controller on the global queue, and the Go scheduler serves the local queue first (except on
// every 61st scheduling round).  So when the second of two consecutive Gosched calls returns, every other goroutine has run
// until it parked at a hook, blocked, or ended.  (On one processor the log order is also trivially the memory order.)
// Every vctlVerifyEvery-th time the runtime's goroutine states are consulted as well, to measure that claim (c.unsettled).
func (c *vctl) settleAfter() []vgor {
	runtime.Gosched()
	runtime.Gosched()
	if c.nrel%vctlVerifyEvery == 0 {
		c.snaps++
		gs := vgoroutines()
		if c.anyActive(gs) {
			c.unsettled++
			return c.settle()
		}
		return gs
	}
	return nil
}

const vctlVerifyEvery = 64

func (c *vctl) anyActive(gs []vgor) bool {
	main := c.v.mainGid.Load()
	c.mu.Lock()
	defer c.mu.Unlock()
	for _, g := range gs {
		if c.stale[g.gid] || !(g.inRun || g.gid == main) {
			continue
		}
		if _, ok := c.parked[g.gid]; ok {
			continue
		}
		if vactiveState(g.state) {
			return true
		}
	}
	return false
}

// settle waits until no goroutine of the build is running or runnable and returns the snapshot that showed it.
func (c *vctl) settle() []vgor {
	t0 := time.Now()
	for spin := 0; ; spin++ {
		runtime.Gosched()
		gs := vgoroutines()
		c.snaps++
		if !c.anyActive(gs) {
			return gs
		}
		if spin > 50 {
			time.Sleep(50 * time.Microsecond)
			if time.Since(t0) > 5*time.Second {
				c.busy = true // a goroutine of the build has been running for 5 s without reaching a hook, blocking or ending
				return gs
			}
		}
	}
}

func (c *vctl) choose() *vparked {
	c.mu.Lock()
	defer c.mu.Unlock()
	if len(c.parked) == 0 {
		return nil
	}
	ps := make([]*vparked, 0, len(c.parked))
	for _, p := range c.parked {
		ps = append(ps, p)
	}
	sort.Slice(ps, func(i, j int) bool {
		if len(ps[i].label) != len(ps[j].label) {
			return len(ps[i].label) < len(ps[j].label)
		}
		return ps[i].label < ps[j].label
	})
	var pick *vparked
	switch c.policy {
	case "sticky": // long stretches of one goroutine: a walk runs far ahead of the others' publications / clears
		if c.rng.Intn(100) < 85 {
			for _, p := range ps {
				if p.label == c.last {
					pick = p
				}
			}
		}
	case "lockstep": // all goroutines advance together: symmetric races (every member of a cycle walks at the same time)
		best := -1
		var cands []*vparked
		for _, p := range ps {
			if n := c.steps[p.label]; best < 0 || n < best {
				best, cands = n, []*vparked{p}
			} else if n == best {
				cands = append(cands, p)
			}
		}
		pick = cands[c.rng.Intn(len(cands))]
	case "pct": // random priorities with a few priority drops (Burckhardt et al.): bugs of small depth with known probability
		for _, p := range ps {
			if _, ok := c.prio[p.label]; !ok {
				c.prio[p.label] = 1000 + c.rng.Intn(1000)
			}
		}
		if c.nrel > 0 && c.rng.Intn(25) == 0 {
			c.prio[c.last] = c.rng.Intn(1000) // drop the goroutine that ran last below the fresh ones
		}
		for _, p := range ps {
			if pick == nil || c.prio[p.label] > c.prio[pick.label] {
				pick = p
			}
		}
	}
	if pick == nil { // policy "random", and the fallback of sticky
		pick = ps[c.rng.Intn(len(ps))]
	}
	delete(c.parked, pick.gid)
	c.last = pick.label
	c.steps[pick.label]++
	c.nrel++
	c.v.schedule = append(c.v.schedule, pick.label+"@"+pick.point)
	return pick
}

func (c *vctl) giveUp() {
	c.mu.Lock()
	c.off = true
	for gid, p := range c.parked {
		delete(c.parked, gid)
		close(p.ch)
	}
	c.mu.Unlock()
}

func (c *vctl) report(gs []vgor) []string {
	main := c.v.mainGid.Load()
	var out []string
	for _, g := range gs {
		if c.stale[g.gid] || !(g.inRun || g.gid == main) {
			continue
		}
		who := "goroutine"
		if g.gid == main {
			who = "caller of Run, goroutine"
		}
		out = append(out, fmt.Sprintf("%s %d [%s] at %s", who, g.gid, g.state, g.where))
	}
	sort.Strings(out)
	return out
}

const vctlStepBudget = 200000

func (c *vctl) drive(done chan error, res *vresult) (runErr error, verdict string) {
	defer func() { c.v.ctlStats = [3]int{c.nrel, c.snaps, c.unsettled} }()
	returned := false
	gs := c.settleAfter()
	for {
		if !returned {
			select {
			case runErr = <-done:
				returned = true
			default:
			}
		}
		if c.busy {
			res.blocked = c.report(gs)
			c.giveUp()
			return nil, "no termination: a goroutine of the build has been running for 5 s without reaching a hook point, blocking or ending"
		}
		p := c.choose()
		if p != nil {
			if c.nrel > vctlStepBudget {
				res.blocked = c.report(gs)
				c.giveUp()
				close(p.ch)
				return nil, fmt.Sprintf("no termination: the build is still running after %d scheduling steps", vctlStepBudget)
			}
			close(p.ch)
			gs = c.settleAfter()
			continue
		}
		if returned && c.v.live.Load() == 0 {
			return runErr, ""
		}
		if gs == nil {
			gs = c.settle()
			continue
		}
		// Nobody is parked and nobody can run although the build has not ended.  Confirm: the same must hold three more times.
		stuck := true
		for i := 0; i < 3 && stuck; i++ {
			time.Sleep(20 * time.Millisecond)
			gs = c.settle()
			c.mu.Lock()
			n := len(c.parked)
			c.mu.Unlock()
			if !returned {
				select {
				case runErr = <-done:
					returned = true
				default:
				}
			}
			if n > 0 || (returned && c.v.live.Load() == 0) {
				stuck = false
			}
		}
		if !stuck {
			gs = c.settle()
			continue
		}
		res.blocked = c.report(gs)
		c.giveUp()
		what := "Run has not returned"
		if returned {
			what = "Run has returned but goroutines of the build never end"
		}
		return nil, "deadlock: " + what + ", no goroutine is parked at a hook and none is runnable (runtime goroutine states)"
	}
}

// ---------------------------------------------------------------------------------------------------------
// the controlled runs

var vctlPolicies = []string{"random", "sticky", "lockstep", "pct"}

func TestVerifC05Ctl(t *testing.T) {
	outPath := os.Getenv("VERIF_CTL_OUT")
	if outPath == "" {
		t.Skip("VERIF_CTL_OUT not set")
	}
	f, err := os.Create(outPath)
	if err != nil {
		t.Fatal(err)
	}
	defer f.Close()
	out := bufio.NewWriterSize(f, 1<<20)
	defer out.Flush()

	seed := int64(venvInt("VERIF_SEED", 1))
	repeat := venvInt("VERIF_CTL_REPEAT", 1)
	nrand := venvInt("VERIF_CTL_RANDOM", 40)
	rng := rand.New(rand.NewSource(seed*7919 + 5))

	var graphs []*vgraph
	graphs = append(graphs, vcorpus()...)
	graphs = append(graphs, vsideFamily()...)
	for i := 0; i < nrand; i++ {
		graphs = append(graphs, vrandom(rng, i))
	}
	var runs []*vrun
	id := 500000
	for rep := 0; rep < repeat; rep++ {
		for gi, g := range graphs {
			// every graph under every policy; the limit rotates through 1, 2, 3, 16 (limit 1 at least once per graph and repetition)
			for pi, pol := range vctlPolicies {
				id++
				k := []int{1, 2, 3, 16}[(gi+pi+rep)%4]
				runs = append(runs, &vrun{id: id, g: g, k: k, profile: 0, procs: 1, seed: rng.Uint64(), policy: pol})
			}
		}
	}

	var cur atomic.Pointer[vrun]
	var curSince atomic.Int64
	stopWatch := vprocessWatchdog(outPath, &cur, &curSince, 30*time.Second)
	defer stopWatch()
	nOracle, nVerdict := 0, 0
	for _, r := range runs {
		curSince.Store(time.Now().UnixNano())
		cur.Store(r)
		w, res := vexec(r, 10*time.Second)
		if res.hung || res.stuck {
			nVerdict++
			what := res.verdict
			if res.stuck {
				what = "Run returned but spawned goroutines never finished"
			}
			sched := w.v.schedule
			if len(sched) > 60 {
				sched = sched[len(sched)-60:]
			}
			w.oracle("terminates", fmt.Sprintf("controlled schedule (policy %s, seed %d, graph %s, limit %d): %s; blocked: %s; last releases: %s",
				r.policy, r.seed, r.g.name, r.k, what, strings.Join(res.blocked, "; "), strings.Join(sched, " ")))
		} else if len(w.oracles) == 0 {
			w.v.schedule = nil // keep the records small: the schedule is only needed for a failing run (the event log has it anyway)
		}
		for _, o := range w.oracles {
			nOracle++
			fmt.Fprintf(out, "ORACLE\t%s\t%d\t%s\n", o[0], r.id, o[1])
		}
		out.Write(vjsonRun(r, w, res))
		out.WriteByte('\n')
		if res.stuck || nVerdict >= 3 || (res.hung && !strings.HasPrefix(res.verdict, "deadlock")) {
			// goroutines of this run may still be running: stop here (after a deadlock verdict they are blocked for good
			// and are ignored by later runs)
			fmt.Fprintf(out, "ABORTED\t%d\n", r.id)
			break
		}
	}
	out.Flush()
	t.Logf("controlled runs=%d oracle_failures=%d", len(runs), nOracle)
}
