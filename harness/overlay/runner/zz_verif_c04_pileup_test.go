package runner

// C04 harness, second part: simultaneous requesters (added to the package next to zz_verif_c04c05c09_test.go, whose graph,
// log, fake-target and JSON code it reuses; never committed to /repo).
//
// "Loaded and evaluated at most once however many dependents request it" rests on start()'s test-and-set of the status being
// ONE critical section.  Free-running schedules (jitter at hook points) practically never put two requesters of the same idle
// target inside start() at the same instant: there is no hook point between getTarget and the status test, and the window
// is a few nanoseconds.  Two schedule families close that gap.
//
// Family P, "pile-up builds".  Before the build starts the harness creates (runner.getTarget, the runner's own way) the
// records of a set H of labels and keeps their mutexes.  Every requester of a label in H now stops at the first statement of
// start() -- a legal schedule: each of them is preempted just before it takes the lock -- also under limit 1, because
// EvaluateTargets gives its slot back before it starts the dependencies.  A controller watches the hook stream; whenever the
// build is quiescent (no hook event for a settle time) it works out from the eval.begin / publish.pre events which requesters
// are parked at which held label, picks one label (policy: most requesters / seeded random), records (label, requesters, was
// the target still idle) and releases that mutex: all parked requesters enter the test-and-set together.  The build then
// runs on to the next pile-up.  The hook log is recorded by the shared logger and replayed by the Coq model like every
// other run (a second start.run of a label is rejected there: start.run only from Idle); black-box oracles as usual.
//
// Family D, "direct simultaneous start".  k goroutines leave a spin barrier and call start() on the same fresh record (or
// getTarget(label).start(), the exact sequence of EvaluateTargets) at the same instant, on all CPUs; then a second wave
// calls start() on the finished target.  Thousands of rounds; target outcome ok / failing body / unknown label.
// Observations: start.run hook count, LoadTarget / Evaluate counts, wait()'s error value.
//
// Environment: VERIF_OUT, VERIF_SEED, VERIF_PILEUP_RANDOM (random graphs in addition to the fixed ones x limits),
// VERIF_PILEUP_REPEAT, VERIF_DIRECT_ROUNDS, VERIF_TIMEOUT_MS.

import (
	"bufio"
	"encoding/json"
	"fmt"
	"math/rand"
	"os"
	"runtime"
	"sort"
	"strconv"
	"sync"
	"sync/atomic"
	"testing"
	"time"

	"github.com/pgavlin/dawn/internal/verifhook"
)

// ---------------------------------------------------------------------------------------------------------
// graphs with shared dependencies

func vpSeq(a, b int) []int {
	var out []int
	for i := a; i <= b; i++ {
		out = append(out, i)
	}
	return out
}

func vpGraphs() []*vgraph {
	var gs []*vgraph
	// k dependents of the root request one shared leaf (ok / failing body / unknown label)
	for _, k := range []int{2, 3, 5, 8, 16} {
		e := map[int][]int{0: vpSeq(1, k)}
		for i := 1; i <= k; i++ {
			e[i] = []int{k + 1}
		}
		gs = append(gs, vg(fmt.Sprintf("pfanin%d", k), k+2, e))
		if k == 3 || k == 8 {
			gs = append(gs, vg(fmt.Sprintf("pfanin%d_fail", k), k+2, e).fail(k+1))
			gs = append(gs, vg(fmt.Sprintf("pfanin%d_unknown", k), k+2, e).unk(k+1))
		}
	}
	// two shared leaves requested in opposite orders
	e := map[int][]int{0: vpSeq(1, 6)}
	for i := 1; i <= 6; i++ {
		if i%2 == 1 {
			e[i] = []int{7, 8}
		} else {
			e[i] = []int{8, 7}
		}
	}
	gs = append(gs, vg("pcross", 9, e))
	// a shared target whose own dependencies are shared with its requesters
	gs = append(gs, vg("pdeep", 8, map[int][]int{0: {1, 2, 3, 4}, 1: {5, 6}, 2: {5, 6}, 3: {6, 5}, 4: {5}, 5: {6, 7}, 6: {7}}))
	gs = append(gs, vg("pdeep_fail", 8, map[int][]int{0: {1, 2, 3, 4}, 1: {5, 6}, 2: {5, 6}, 3: {6, 5}, 4: {5}, 5: {6, 7}, 6: {7}}).fail(6))
	// the root requests the shared label itself, after the dependents that also request it
	gs = append(gs, vg("proot", 5, map[int][]int{0: {1, 2, 3, 4}, 1: {4}, 2: {4}, 3: {4}}))
	gs = append(gs, vg("proot_first", 5, map[int][]int{0: {4, 1, 2, 3}, 1: {4}, 2: {4}, 3: {4}}))
	// duplicates inside one request and across requests
	gs = append(gs, vg("pdup", 6, map[int][]int{0: {1, 2, 3}, 1: {4, 4}, 2: {4, 5, 4}, 3: {5, 4, 5}}))
	// fan-in on a member of a cycle / on a self-loop
	gs = append(gs, vg("pcyc", 6, map[int][]int{0: {1, 2, 3}, 1: {4}, 2: {4}, 3: {4}, 4: {5}, 5: {4}}))
	gs = append(gs, vg("pself", 5, map[int][]int{0: {1, 2, 3}, 1: {4}, 2: {4}, 3: {4}, 4: {4}}))
	// three levels of sharing
	gs = append(gs, vg("player3", 10, map[int][]int{0: {1, 2, 3}, 1: {4, 5, 6}, 2: {5, 6, 4}, 3: {6, 4, 5}, 4: {7, 8}, 5: {8, 7}, 6: {7, 8}, 7: {9}, 8: {9}}))
	return gs
}

// requesters returns, per label, the number of distinct labels that declare it as a dependency.
func vpRequesters(g *vgraph) []int {
	out := make([]int, g.n)
	for a := 0; a < g.n; a++ {
		seen := map[int]bool{}
		for _, d := range g.edeps(a) {
			if !seen[d] {
				seen[d] = true
				out[d]++
			}
		}
	}
	return out
}

// ---------------------------------------------------------------------------------------------------------
// family P: pile-up builds

type vpRelease struct {
	Label   int    `json:"label"`
	Blocked []int  `json:"requesters"` // targets parked in start(label) when its mutex was released
	Idle    bool   `json:"idle"`       // the target had not been started yet
	Style   string `json:"style"`      // together: plain Unlock; fifo-handoff: the mutex is first put into its hand-off mode
}

type vpInfo struct {
	Run      int         `json:"run"`
	Hold     string      `json:"hold_policy"`
	Pick     string      `json:"pick_policy"`
	Held     []int       `json:"held"`
	Releases []vpRelease `json:"releases"`
	Fallback bool        `json:"fallback"` // quiescent, nobody parked at a held label, build not finished: everything released
	Unused   []int       `json:"never_requested"`
}

type vpCtl struct {
	mu     sync.Mutex
	calls  map[string][]string // owner -> labels of its EvaluateTargets call, from eval.begin until publish.pre
	events atomic.Int64
}

func (c *vpCtl) observe(point string, args []any) {
	c.events.Add(1)
	switch point {
	case "eval.begin":
		owner, _ := args[0].(string)
		labels, _ := args[1].([]string)
		c.mu.Lock()
		c.calls[owner] = append([]string(nil), labels...)
		c.mu.Unlock()
	case "publish.pre":
		owner, _ := args[0].(string)
		c.mu.Lock()
		delete(c.calls, owner)
		c.mu.Unlock()
	}
}

// parked: a call is parked at the first of its labels whose mutex the harness still keeps.
func (c *vpCtl) parked(held map[string]*target) map[string][]int {
	out := map[string][]int{}
	c.mu.Lock()
	for owner, labels := range c.calls {
		for _, l := range labels {
			if _, ok := held[l]; ok {
				o, _ := strconv.Atoi(owner)
				out[l] = append(out[l], o)
				break
			}
		}
	}
	c.mu.Unlock()
	for _, v := range out {
		sort.Ints(v)
	}
	return out
}

const (
	vpHoldShared = iota // every non-root label with at least two requesters
	vpHoldAll           // every non-root label
	vpHoldRandom        // a seeded subset of the non-root labels
	vpHoldKinds
)

var vpHoldNames = []string{"shared", "all", "random"}

func vpChooseHeld(g *vgraph, kind int, rng *rand.Rand) []int {
	req := vpRequesters(g)
	var out []int
	for l := 0; l < g.n; l++ {
		if l == g.root {
			continue
		}
		switch kind {
		case vpHoldShared:
			if req[l] >= 2 {
				out = append(out, l)
			}
		case vpHoldAll:
			out = append(out, l)
		default:
			if req[l] >= 2 && rng.Intn(4) != 0 || req[l] == 1 && rng.Intn(3) == 0 {
				out = append(out, l)
			}
		}
	}
	return out
}

func vpExec(r *vrun, holdKind, pickKind int, rng *rand.Rand, timeout time.Duration) (*vworld, *vresult, *vpInfo) {
	g := r.g
	v := &vlog{fin: map[int64]bool{}, prof: &vprofiles[0], seed: r.seed}
	w := &vworld{g: g, k: r.k, v: v,
		load: make([]atomic.Int32, g.n), eval: make([]atomic.Int32, g.n), body: make([]atomic.Int32, g.n),
		finished: make([]bool, g.n), outcome: make([]error, g.n), results: map[int][][2]string{}}
	for l := 0; l < g.n; l++ {
		w.targets = append(w.targets, &vtarget{w, l})
	}
	res := &vresult{capacityEnd: -1}
	info := &vpInfo{Run: r.id, Hold: vpHoldNames[holdKind], Pick: []string{"most", "random", "most+fifo-handoff", "random+fifo-handoff"}[pickKind], Releases: []vpRelease{}, Unused: []int{}}
	ctl := &vpCtl{calls: map[string][]string{}}
	old := runtime.GOMAXPROCS(r.procs)
	defer runtime.GOMAXPROCS(old)
	verifhook.SetHandler(func(point string, args ...any) {
		ctl.observe(point, args)
		v.at(point, args...)
	})
	defer verifhook.SetHandler(nil)

	rn := &runner{targetLoader: w, gate: newGate(r.k)}
	held := map[string]*target{}
	info.Held = vpChooseHeld(g, holdKind, rng)
	if info.Held == nil {
		info.Held = []int{}
	}
	for _, l := range info.Held {
		t := rn.getTarget(strconv.Itoa(l))
		t.m.Lock()
		held[strconv.Itoa(l)] = t
	}
	releaseAll := func(unused bool) {
		var ls []int
		for l, t := range held {
			t.m.Unlock()
			n, _ := strconv.Atoi(l)
			ls = append(ls, n)
			delete(held, l)
		}
		sort.Ints(ls)
		if unused {
			info.Unused = append(info.Unused, ls...)
		}
	}

	root := strconv.Itoa(g.root)
	done := make(chan error, 1)
	go func() {
		t := rn.getTarget(root)
		t.start(rn)
		err := t.wait()
		verifhook.At("main.returned", root)
		done <- err
	}()

	const settle = 150 * time.Microsecond
	const vpStarve = 1300 * time.Microsecond
	handoff := pickKind >= 2
	pickKind %= 2
	began := time.Now()
	last, lastChange := ctl.events.Load(), time.Now()
	quiet := 0
	finished := false
	var runErr error
	for len(held) > 0 && !finished {
		select {
		case runErr = <-done:
			finished = true
			continue
		default:
		}
		if time.Since(began) > timeout {
			releaseAll(false)
			res.hung = true
			return w, res, info
		}
		time.Sleep(40 * time.Microsecond)
		if n := ctl.events.Load(); n != last {
			last, lastChange, quiet = n, time.Now(), 0
			continue
		}
		if time.Since(lastChange) < settle {
			continue
		}
		parked := ctl.parked(held)
		var cands []string
		for l := range parked {
			cands = append(cands, l)
		}
		if len(cands) == 0 {
			quiet++
			if quiet > 200 {
				info.Fallback = true
				releaseAll(false)
			}
			continue
		}
		sort.Slice(cands, func(i, j int) bool {
			a, _ := strconv.Atoi(cands[i])
			b, _ := strconv.Atoi(cands[j])
			return a < b
		})
		pick := cands[rng.Intn(len(cands))]
		if pickKind == 0 {
			for _, l := range cands {
				if len(parked[l]) > len(parked[pick]) {
					pick = l
				}
			}
		}
		t := held[pick]
		n, _ := strconv.Atoi(pick)
		style := "together"
		if handoff && len(parked[pick]) >= 2 {
			// FIFO hand-off: once a waiter of a sync.Mutex has waited for more than a millisecond and finds the mutex taken
			// again when it wakes up, the mutex passes from each Unlock directly to the longest waiter, and a goroutine that
			// locks again queues behind all of them.  Released like this, every parked requester runs its first critical
			// section of start() before any of them gets a second one.
			if time.Since(lastChange) < vpStarve {
				continue
			}
			style = "fifo-handoff"
			t.m.Unlock()
			t.m.Lock()
			time.Sleep(200 * time.Microsecond)
		}
		info.Releases = append(info.Releases, vpRelease{Label: n, Blocked: parked[pick], Idle: t.status == statusIdle, Style: style})
		delete(held, pick)
		t.m.Unlock()
		lastChange, quiet = time.Now(), 0
	}
	releaseAll(finished)
	if !finished {
		select {
		case runErr = <-done:
		case <-time.After(timeout):
			res.hung = true
			return w, res, info
		}
	}
	res.runErr = vkindOf(runErr)
	v.at("main.result", runErr == nil)

	deadline := time.Now().Add(timeout)
	for v.live.Load() != 0 {
		if time.Now().After(deadline) {
			res.stuck = true
			return w, res, info
		}
		time.Sleep(50 * time.Microsecond)
	}

	// the C04 oracles of the shared harness
	w.mu.Lock()
	rootFin, rootOut := w.finished[g.root], w.outcome[g.root]
	w.mu.Unlock()
	if !rootFin || runErr != rootOut {
		w.oracle("run_result_is_root", fmt.Sprintf("Run returned %v, root outcome %v (finished=%v)", runErr, rootOut, rootFin))
	}
	for l := 0; l < g.n; l++ {
		if c := w.load[l].Load(); c > 1 {
			w.oracle("load_at_most_once", fmt.Sprintf("LoadTarget(%d) called %d times", l, c))
		}
		if c := w.eval[l].Load(); c > 1 {
			w.oracle("evaluate_at_most_once", fmt.Sprintf("Evaluate(%d) called %d times", l, c))
		}
		if c := w.body[l].Load(); c > 1 {
			w.oracle("body_at_most_once", fmt.Sprintf("body of %d ran %d times", l, c))
		}
	}
	rn.gate.m.Lock()
	res.capacityEnd = rn.gate.capacity
	rn.gate.m.Unlock()
	return w, res, info
}

// ---------------------------------------------------------------------------------------------------------
// family D: direct simultaneous start

type vpDirect struct {
	outcome int // 0 ok, 1 failing body, 2 unknown label
	err     error
	loads   atomic.Int32
	evals   atomic.Int32
}

func (d *vpDirect) LoadTarget(label string) (Target, error) {
	d.loads.Add(1)
	if d.outcome == 2 {
		return nil, d.err
	}
	return d, nil
}

func (d *vpDirect) Evaluate(Engine) error {
	d.evals.Add(1)
	if d.outcome == 1 {
		return d.err
	}
	return nil
}

type vpDirectCfg struct {
	Round   int    `json:"round"`
	K       int    `json:"simultaneous_callers"`
	Late    int    `json:"late_callers"`
	Via     string `json:"via"`
	Outcome string `json:"target_outcome"`
	Gate    int    `json:"limit"`
	Spawns  int    `json:"start_run_events"`
	Noops   int    `json:"start_noop_events"`
	Loads   int    `json:"load_calls"`
	Evals   int    `json:"evaluate_calls"`
}

// vpWave releases k goroutines from a spin barrier into start() of the same label.
func vpWave(rn *runner, t *target, k int, yield bool) {
	var arrived atomic.Int32
	var wg sync.WaitGroup
	wg.Add(k)
	for i := 0; i < k; i++ {
		go func() {
			defer wg.Done()
			arrived.Add(1)
			for spins := 0; arrived.Load() < int32(k); spins++ {
				// a short pure spin keeps the release tight; on a loaded machine (a caller's thread descheduled) give the
				// processor away instead of burning the time slice
				if yield || spins > 3000 {
					runtime.Gosched()
				}
			}
			tt := t
			if tt == nil {
				tt = rn.getTarget("x")
			}
			tt.start(rn)
		}()
	}
	wg.Wait()
}

func vpDirectRounds(rounds int, rng *rand.Rand, out *bufio.Writer) (map[string]int, int) {
	dist := map[string]int{}
	nfail := 0
	if rounds <= 0 {
		return dist, 0
	}
	procs := runtime.NumCPU()
	old := runtime.GOMAXPROCS(procs)
	defer runtime.GOMAXPROCS(old)
	var spawns, noops, fins atomic.Int32
	verifhook.SetHandler(func(point string, args ...any) {
		switch point {
		case "start.run":
			spawns.Add(1)
		case "start.noop":
			noops.Add(1)
		case "run.finished":
			fins.Add(1)
		}
	})
	defer verifhook.SetHandler(nil)
	ks := []int{2, 3, 4, 8, 16}
	outcomes := []string{"ok", "failing_body", "unknown_label"}
	for i := 0; i < rounds; i++ {
		k := ks[rng.Intn(len(ks))]
		yield := false
		if k > procs {
			if procs >= 2 {
				k = procs
			} else {
				yield = true
			}
		}
		cfg := vpDirectCfg{Round: i, K: k, Late: rng.Intn(4), Via: []string{"record.start", "getTarget(label).start"}[rng.Intn(2)],
			Gate: []int{1, 2, 16}[rng.Intn(3)]}
		d := &vpDirect{outcome: rng.Intn(3)}
		cfg.Outcome = outcomes[d.outcome]
		if d.outcome != 0 {
			d.err = &vErr{cfg.Outcome, 0}
		}
		spawns.Store(0)
		noops.Store(0)
		fins.Store(0)
		rn := &runner{targetLoader: d, gate: newGate(cfg.Gate)}
		var t *target
		if cfg.Via == "record.start" {
			t = rn.getTarget("x")
		}
		vpWave(rn, t, k, yield)
		rec := rn.getTarget("x")
		var werr error
		waited := make(chan struct{})
		go func() { werr = rec.wait(); close(waited) }()
		bad := []string{}
		select {
		case <-waited:
		case <-time.After(5 * time.Second):
			bad = append(bad, "terminates\twait() on the started target did not return within 5s")
		}
		if len(bad) == 0 {
			if werr != d.err {
				bad = append(bad, fmt.Sprintf("result_is_actual\twait() returned %v, the target's own error is %v", werr, d.err))
			}
			// late callers: the target is finished (succeeded or failed); start must not run it again
			if cfg.Late > 0 {
				vpWave(rn, t, cfg.Late, yield || cfg.Late > procs)
			}
			// every goroutine created by start logs run.finished: wait for the stragglers of a duplicate start
			deadline := time.Now().Add(2 * time.Second)
			for fins.Load() < spawns.Load() && time.Now().Before(deadline) {
				time.Sleep(20 * time.Microsecond)
			}
		}
		cfg.Spawns, cfg.Noops = int(spawns.Load()), int(noops.Load())
		cfg.Loads, cfg.Evals = int(d.loads.Load()), int(d.evals.Load())
		if cfg.Spawns > 1 || cfg.Loads > 1 {
			bad = append(bad, fmt.Sprintf("load_at_most_once\t%d callers of start() on one idle target (+%d after it finished): %d goroutines started, LoadTarget called %d times",
				cfg.K, cfg.Late, cfg.Spawns, cfg.Loads))
		}
		if cfg.Evals > 1 {
			bad = append(bad, fmt.Sprintf("evaluate_at_most_once\t%d callers of start() on one idle target (+%d after it finished): Evaluate called %d times",
				cfg.K, cfg.Late, cfg.Evals))
		}
		dist[fmt.Sprintf("k=%d", k)]++
		dist[cfg.Outcome]++
		dist[cfg.Via]++
		if len(bad) > 0 {
			nfail++
			if nfail <= 8 {
				b, _ := json.Marshal(cfg)
				for _, x := range bad {
					fmt.Fprintf(out, "DORACLE\t%s\t%s\n", x, b)
				}
			}
			if len(bad) > 0 && bad[0][:10] == "terminates" {
				break
			}
		}
	}
	return dist, nfail
}

// ---------------------------------------------------------------------------------------------------------

func TestVerifC04Pileup(t *testing.T) {
	outPath := os.Getenv("VERIF_OUT")
	if outPath == "" {
		t.Skip("VERIF_OUT not set")
	}
	f, err := os.Create(outPath)
	if err != nil {
		t.Fatal(err)
	}
	defer f.Close()
	out := bufio.NewWriterSize(f, 1<<20)
	defer out.Flush()

	seed := int64(venvInt("VERIF_SEED", 1))
	nrand := venvInt("VERIF_PILEUP_RANDOM", 40)
	repeat := venvInt("VERIF_PILEUP_REPEAT", 1)
	rounds := venvInt("VERIF_DIRECT_ROUNDS", 4000)
	timeout := time.Duration(venvInt("VERIF_TIMEOUT_MS", 10000)) * time.Millisecond
	rng := rand.New(rand.NewSource(seed))

	// fixed graphs: those above plus every graph of the shared corpus in which some label has two requesters
	graphs := vpGraphs()
	for _, g := range vcorpus() {
		for l, c := range vpRequesters(g) {
			if c >= 2 && l != g.root {
				graphs = append(graphs, g)
				break
			}
		}
	}
	limits := []int{1, 2, 3, 4, 16}
	procsChoices := []int{1, 2, 4, 16}
	type job struct {
		r          *vrun
		hold, pick int
	}
	var jobs []job
	id := 0
	add := func(g *vgraph, k, hold int) {
		id++
		jobs = append(jobs, job{&vrun{id: id, g: g, k: k, procs: procsChoices[rng.Intn(len(procsChoices))], seed: rng.Uint64()},
			hold, rng.Intn(4)})
	}
	for rep := 0; rep < repeat; rep++ {
		for gi, g := range graphs {
			// every graph under limit 1 and under a wide gate with the "shared" policy, and under two more (limit, policy) pairs
			add(g, 1, vpHoldShared)
			add(g, 16, vpHoldShared)
			add(g, limits[(gi+rep)%len(limits)], vpHoldAll)
			add(g, limits[rng.Intn(len(limits))], vpHoldRandom)
		}
	}
	for i := 0; i < nrand; i++ {
		g := vrandom(rng, i)
		add(g, limits[rng.Intn(len(limits))], rng.Intn(vpHoldKinds))
	}

	nOracle := 0
	aborted := false
	for _, j := range jobs {
		w, res, info := vpExec(j.r, j.hold, j.pick, rng, timeout)
		if res.hung || res.stuck {
			what := "Run did not return"
			if res.stuck {
				what = "Run returned but spawned goroutines never finished"
			}
			w.oracle("terminates", fmt.Sprintf("%s within %v (graph %s, limit %d, pile-up schedule)", what, timeout, j.r.g.name, j.r.k))
		}
		for _, o := range w.oracles {
			nOracle++
			fmt.Fprintf(out, "ORACLE\t%s\t%d\t%s\n", o[0], j.r.id, o[1])
		}
		out.Write(vjsonRun(j.r, w, res))
		out.WriteByte('\n')
		b, _ := json.Marshal(info)
		fmt.Fprintf(out, "PILEUP\t%s\n", b)
		if res.hung || res.stuck {
			fmt.Fprintf(out, "ABORTED\t%d\n", j.r.id)
			aborted = true
			break
		}
	}
	out.Flush()
	ndirect := 0
	if !aborted {
		dist, nfail := vpDirectRounds(rounds, rng, out)
		b, _ := json.Marshal(map[string]any{"rounds": rounds, "failures": nfail, "distribution": dist, "cpus": runtime.NumCPU()})
		fmt.Fprintf(out, "DIRECT\t%s\n", b)
		ndirect = nfail
	}
	out.Flush()
	t.Logf("pile-up runs=%d oracle_failures=%d direct_rounds=%d direct_failures=%d", len(jobs), nOracle, rounds, ndirect)
}
