package runner

// Harness for C04 / C05 / C09 (added to the package through `go test -overlay -tags verif`; never committed to /repo).
//
// For every run (a dependency graph, a gate limit k, a jitter profile, a seed) it
//   * installs a logging verifhook handler: one global mutex, every hook event appended as (goroutine id, point,
//     args); for the three lock-free operations (waiting.Swap publish, waiting.Swap clear, waiting.Load) the mutex is
//     kept from the `.pre` hook to the matching `.post`/`walk.load` hook of the same goroutine, so that the log
//     order is the memory order of those operations; all other shared accesses are logged inside their own
//     critical section (t.m / g.m);
//   * runs the real runner over a fake Targets/Target implementation (which emulates dawn's target.go: one
//     EvaluateTargets call with all dependencies; any failed result => fail without running the body);
//   * watches for hangs (watchdog) and waits for quiescence (every spawned goroutine ended);
//   * evaluates the direct oracles on the implementation and writes `ORACLE\t<name>\t<run>\t<detail>` lines;
//   * writes one JSON line per run (configuration, event log, black-box observations) to $VERIF_OUT.
//
// Environment: VERIF_OUT, VERIF_SEED, VERIF_RUNS (random runs in addition to the fixed corpus x limits),
// VERIF_TIMEOUT_MS (watchdog), VERIF_REPEAT (repetitions of the fixed corpus), VERIF_STRESS (extra runs of the
// contention-heavy graphs on all CPUs).

import (
	"bufio"
	"encoding/json"
	"fmt"
	"math/rand"
	"os"
	"runtime"
	"sort"
	"strconv"
	"strings"
	"sync"
	"sync/atomic"
	"testing"
	"time"

	"github.com/pgavlin/dawn/internal/verifhook"
)

// ---------------------------------------------------------------------------------------------------------
// graphs

type vgraph struct {
	name    string
	n       int
	root    int
	deps    [][]int
	unknown map[int]bool
	failing map[int]bool
}

func vg(name string, n int, edges map[int][]int) *vgraph {
	g := &vgraph{name: name, n: n, deps: make([][]int, n), unknown: map[int]bool{}, failing: map[int]bool{}}
	for k, v := range edges {
		g.deps[k] = v
	}
	return g
}

func (g *vgraph) unk(ls ...int) *vgraph {
	for _, l := range ls {
		g.unknown[l] = true
	}
	return g
}

func (g *vgraph) fail(ls ...int) *vgraph {
	for _, l := range ls {
		g.failing[l] = true
	}
	return g
}

func (g *vgraph) edeps(l int) []int {
	if g.unknown[l] {
		return nil
	}
	return g.deps[l]
}

// cyclic reports whether a dependency cycle is reachable from the root (unknown targets have no dependencies).
func (g *vgraph) cyclic() bool {
	color := make([]int, g.n)
	var dfs func(l int) bool
	dfs = func(l int) bool {
		color[l] = 1
		for _, d := range g.edeps(l) {
			if color[d] == 1 {
				return true
			}
			if color[d] == 0 && dfs(d) {
				return true
			}
		}
		color[l] = 2
		return false
	}
	return dfs(g.root)
}

func vcorpus() []*vgraph {
	return []*vgraph{
		vg("single", 1, nil),
		vg("chain3", 3, map[int][]int{0: {1}, 1: {2}}),
		vg("diamond", 4, map[int][]int{0: {1, 2}, 1: {3}, 2: {3}}),
		vg("shared", 6, map[int][]int{0: {1, 2, 3}, 1: {4}, 2: {4, 5}, 3: {4, 5}, 4: {5}}),
		vg("fan6", 7, map[int][]int{0: {1, 2, 3, 4, 5, 6}}),
		vg("dupdep", 3, map[int][]int{0: {1, 1, 2, 1}, 2: {1}}),
		vg("diamond_fail_leaf", 4, map[int][]int{0: {1, 2}, 1: {3}, 2: {3}}).fail(3),
		vg("diamond_fail_mid", 5, map[int][]int{0: {1, 2}, 1: {3}, 2: {3, 4}}).fail(1),
		vg("unknown_root", 1, nil).unk(0),
		vg("unknown_dep", 4, map[int][]int{0: {1, 2}, 1: {3}, 2: {3}}).unk(3),
		vg("unknown_and_fail", 5, map[int][]int{0: {1, 2, 3}, 1: {4}, 2: {4}}).unk(3).fail(4),
		vg("fail_root", 2, map[int][]int{0: {1}}).fail(0),
		vg("selfloop", 1, map[int][]int{0: {0}}),
		vg("selfloop_dep", 3, map[int][]int{0: {1, 2}, 1: {1}}),
		vg("cycle2", 2, map[int][]int{0: {1}, 1: {0}}),
		vg("cycle3", 3, map[int][]int{0: {1}, 1: {2}, 2: {0}}),
		vg("inner_cycle2", 3, map[int][]int{0: {1}, 1: {2}, 2: {1}}),
		vg("inner_cycle3_side", 5, map[int][]int{0: {4, 1}, 1: {2}, 2: {3}, 3: {1, 4}}),
		vg("overlap_cycles", 4, map[int][]int{0: {1}, 1: {2, 0}, 2: {0, 3}, 3: {1}}),
		vg("two_roots_into_cycle", 5, map[int][]int{0: {1, 2}, 1: {3}, 2: {4}, 3: {4}, 4: {3}}),
		vg("cycle_with_unknown", 4, map[int][]int{0: {1, 3}, 1: {2}, 2: {1}}).unk(3),
		vg("cycle_through_unknown_is_none", 3, map[int][]int{0: {1}, 1: {2}, 2: {0}}).unk(2),
		// the F11 shape of DESIGN section 5: R=0 P1=1 P2=2 L1=3 L2=4 A=5 B=6
		vg("f11", 7, map[int][]int{0: {1, 2, 3, 4}, 3: {5, 1}, 1: {3}, 4: {6, 2}, 2: {4}, 5: {2}, 6: {1}}),
		// fan-in: five targets request the same new label at the same moment (first-use race on the target map)
		vg("fanin5", 7, map[int][]int{0: {1, 2, 3, 4, 5}, 1: {6}, 2: {6}, 3: {6}, 4: {6}, 5: {6}}),
		// layered DAG (exponential for a walk without a visited set)
		vg("layered", 8, map[int][]int{0: {1, 2}, 1: {3, 4}, 2: {3, 4}, 3: {5, 6}, 4: {5, 6}, 5: {7}, 6: {7}}),
	}
}

func vrandom(rng *rand.Rand, i int) *vgraph {
	n := 2 + rng.Intn(7)
	g := vg(fmt.Sprintf("rand%d", i), n, nil)
	kind := rng.Intn(3) // 0: DAG, 1: DAG + a few back edges, 2: arbitrary
	p := 0.15 + rng.Float64()*0.5
	for a := 0; a < n; a++ {
		for b := 0; b < n; b++ {
			ok := false
			switch kind {
			case 0:
				ok = b > a
			case 1:
				ok = b > a || rng.Intn(8) == 0
			default:
				ok = true
			}
			if ok && rng.Float64() < p && len(g.deps[a]) < 4 {
				g.deps[a] = append(g.deps[a], b)
			}
		}
		rng.Shuffle(len(g.deps[a]), func(x, y int) { g.deps[a][x], g.deps[a][y] = g.deps[a][y], g.deps[a][x] })
	}
	for a := 1; a < n; a++ {
		switch rng.Intn(10) {
		case 0:
			g.unknown[a] = true
		case 1:
			g.failing[a] = true
		}
	}
	return g
}

// ---------------------------------------------------------------------------------------------------------
// event log / hook handler

type vevent struct {
	gid   int64
	point string
	args  []any
}

type vprofile struct {
	name     string
	gosched  float64            // probability of a Gosched at a parkable point
	sleep    float64            // probability of a short sleep at a parkable point
	maxUs    int                // upper bound of that sleep
	delayUs  map[string]int     // fixed extra delay (microseconds, randomised 50%..150%) at named points
	delayTgt map[string]float64 // probability of the fixed delay (default 1)
	meet     bool               // rendezvous: a dependent about to wait for d and d about to finish are released together
}

var vprofiles = []vprofile{
	{name: "none"},
	{name: "gosched", gosched: 0.6},
	{name: "sleepy", gosched: 0.2, sleep: 0.3, maxUs: 60},
	{name: "late_publish", gosched: 0.2, delayUs: map[string]int{"publish.pre": 250}},
	{name: "slow_walk", gosched: 0.2, delayUs: map[string]int{"publish.post": 120, "walk.pre": 80, "walk.load": 80}},
	{name: "slow_clear", gosched: 0.2, delayUs: map[string]int{"clear.pre": 200, "eval.reenter": 100, "wait.end": 100}},
	{name: "slow_wait", gosched: 0.2, delayUs: map[string]int{"wait.begin": 200, "eval.begin": 60}},
	{name: "stagger", gosched: 0.3, sleep: 0.3, maxUs: 200, delayUs: map[string]int{"run.entered": 100, "run.loaded": 100}},
	{name: "half_late_publish", gosched: 0.3, delayUs: map[string]int{"publish.pre": 300, "walk.pre": 150},
		delayTgt: map[string]float64{"publish.pre": 0.5, "walk.pre": 0.5}},
	// the window between a dependent's look at a dependency's status and its wait has no hook inside; to put a finish into it
	// the two goroutines are lined up at the hooks just before (wait.begin of the dependent, body.end of the dependency) and
	// then let go with a random offset of less than two microseconds
	{name: "rendezvous", meet: true},
}

type vlog struct {
	mu      sync.Mutex
	holder  int64 // goroutine keeping mu between a .pre and its .post (0 = none); written under mu
	evs     []vevent
	fin     map[int64]bool // goroutines that logged run.finished
	live    atomic.Int32   // spawned goroutines that have not yet done their final gate.exit
	prof    *vprofile
	seed    uint64
	ctr     atomic.Uint64
	nCyclic atomic.Int32

	mainGid  atomic.Int64 // the goroutine that calls Run
	ctlAt    func(string, ...any)
	meetings sync.Map // label -> *vmeeting (profile rendezvous)
	ctlStats [3]int   // controlled runs: releases, runtime snapshots taken, snapshots that showed the build not settled
	policy   string   // "" = free-running with jitter; otherwise the policy of the controlled scheduler (zz_verif_c05_ctl_test.go)
	schedule []string // controlled runs: the goroutines released, in order ("label@hook point")
}

func vgid() int64 {
	var buf [64]byte
	n := runtime.Stack(buf[:], false)
	// "goroutine 123 [running]:..."
	s := string(buf[:n])
	s = strings.TrimPrefix(s, "goroutine ")
	if i := strings.IndexByte(s, ' '); i > 0 {
		s = s[:i]
	}
	id, _ := strconv.ParseInt(s, 10, 64)
	return id
}

func (v *vlog) rnd() uint64 {
	x := v.seed + v.ctr.Add(1)*0x9E3779B97F4A7C15
	x ^= x >> 30
	x *= 0xBF58476D1CE4E5B9
	x ^= x >> 27
	x *= 0x94D049BB133111EB
	x ^= x >> 31
	return x
}

func (v *vlog) frac() float64 { return float64(v.rnd()>>11) / float64(1<<53) }

// jitter is only called outside every critical section (no t.m, g.m or log mutex held).
func (v *vlog) jitter(point string) {
	p := v.prof
	if p == nil {
		return
	}
	if us, ok := p.delayUs[point]; ok {
		pr := 1.0
		if q, ok := p.delayTgt[point]; ok {
			pr = q
		}
		if v.frac() < pr {
			time.Sleep(time.Duration(float64(us)*(0.5+v.frac())) * time.Microsecond)
		}
	}
	if p.gosched > 0 && v.frac() < p.gosched {
		runtime.Gosched()
	}
	if p.sleep > 0 && v.frac() < p.sleep {
		time.Sleep(time.Duration(1+int(v.frac()*float64(p.maxUs))) * time.Microsecond)
	}
}

func vcopyArgs(args []any) []any {
	out := make([]any, len(args))
	for i, a := range args {
		if ss, ok := a.([]string); ok {
			out[i] = append([]string(nil), ss...)
		} else {
			out[i] = a
		}
	}
	return out
}

// inside a critical section of the runner (t.m or g.m): never sleep there
var vInsideCS = map[string]bool{"start.run": true, "start.noop": true, "run.finished": true, "gate.enter": true, "gate.exit": true}

type vmeeting struct{ dependents, finishers atomic.Int32 }

func (v *vlog) rendezvous(point string, args []any) {
	var key string
	var mine, other *atomic.Int32
	var patience time.Duration
	switch point {
	case "wait.begin":
		key, _ = args[1].(string)
	case "body.end":
		key, _ = args[0].(string)
	default:
		return
	}
	mv, _ := v.meetings.LoadOrStore(key, &vmeeting{})
	m := mv.(*vmeeting)
	if point == "wait.begin" {
		mine, other, patience = &m.dependents, &m.finishers, 400*time.Microsecond
	} else {
		mine, other, patience = &m.finishers, &m.dependents, 100*time.Microsecond
	}
	mine.Add(1)
	for t0 := time.Now(); other.Load() == 0 && time.Since(t0) < patience; {
		runtime.Gosched()
	}
	// random offset, from a range that is itself random (the width of the window aimed at is unknown)
	span := []uint64{300, 1000, 3000}[v.rnd()%3]
	for t0, d := time.Now(), time.Duration(v.rnd()%span); time.Since(t0) < d; {
	}
}

func (v *vlog) at(point string, args ...any) {
	if v.ctlAt != nil { // controlled scheduler: the fake target's own events are logged (and parked) like the runner's hooks
		v.ctlAt(point, args...)
		return
	}
	gid := vgid()
	if v.prof != nil && v.prof.meet {
		v.rendezvous(point, args)
	}
	switch point {
	case "publish.pre", "walk.pre", "clear.pre":
		v.jitter(point)
		v.mu.Lock()
		v.holder = gid
		v.evs = append(v.evs, vevent{gid, point, vcopyArgs(args)})
		return // keep the mutex until the matching post hook of this goroutine
	case "publish.post", "walk.load", "clear.post":
		if v.holder == gid { // we own the mutex (only the owner can see its own gid here)
			v.evs = append(v.evs, vevent{gid, point, vcopyArgs(args)})
			v.holder = 0
			v.mu.Unlock()
			v.jitter(point)
			return
		}
	}
	v.mu.Lock()
	v.evs = append(v.evs, vevent{gid, point, vcopyArgs(args)})
	switch point {
	case "start.run":
		v.live.Add(1)
	case "run.finished":
		v.fin[gid] = true
	case "gate.exit":
		if v.fin[gid] {
			delete(v.fin, gid)
			v.live.Add(-1)
		}
	case "walk.cycle":
		v.nCyclic.Add(1)
	}
	v.mu.Unlock()
	if !vInsideCS[point] {
		v.jitter(point)
	}
}

// ---------------------------------------------------------------------------------------------------------
// goroutine snapshot (the runtime's own view: used to attribute a hang and by the controlled scheduler)

type vgor struct {
	gid   int64
	state string // running, runnable, sync.Cond.Wait, sync.Mutex.Lock, chan receive, ...
	where string // innermost frame in runner.go: "function file:line"
	inRun bool   // a goroutine of a build: created by (*target).start
}

func vgoroutines() []vgor {
	buf := make([]byte, 1<<18)
	for {
		n := runtime.Stack(buf, true)
		if n < len(buf) {
			buf = buf[:n]
			break
		}
		buf = make([]byte, 2*len(buf))
	}
	var out []vgor
	for _, blk := range strings.Split(string(buf), "\n\n") {
		lines := strings.Split(blk, "\n")
		h := lines[0]
		if !strings.HasPrefix(h, "goroutine ") {
			continue
		}
		h = h[len("goroutine "):]
		i := strings.IndexByte(h, ' ')
		if i < 0 {
			continue
		}
		g := vgor{}
		g.gid, _ = strconv.ParseInt(h[:i], 10, 64)
		st := strings.TrimSuffix(strings.TrimPrefix(h[i+1:], "["), "]:")
		if j := strings.IndexByte(st, ','); j >= 0 {
			st = st[:j]
		}
		g.state = st
		g.inRun = strings.Contains(blk, "created by github.com/pgavlin/dawn/runner.(*target).start")
		for k := 1; k+1 < len(lines); k++ {
			loc := strings.TrimSpace(lines[k+1])
			if !strings.HasPrefix(lines[k], "\t") && strings.HasPrefix(lines[k+1], "\t") && strings.Contains(loc, "/runner/runner.go:") {
				fn := lines[k]
				if p := strings.LastIndexByte(fn, '('); p > 0 {
					fn = fn[:p]
				}
				fn = strings.TrimPrefix(fn, "github.com/pgavlin/dawn/runner.")
				if sp := strings.IndexByte(loc, ' '); sp > 0 {
					loc = loc[:sp]
				}
				if sl := strings.LastIndexByte(loc, '/'); sl >= 0 {
					loc = loc[sl+1:]
				}
				g.where = fn + " " + loc
				break
			}
		}
		out = append(out, g)
	}
	return out
}

func vactiveState(s string) bool {
	return s == "running" || s == "runnable" || s == "syscall" || s == "sleep" || strings.HasPrefix(s, "GC ") || s == "preempted"
}

// vblockedReport lists the goroutines of the build (and the caller of Run) with the runtime's wait reason and the
// runner.go line each one is at.
func vblockedReport() []string {
	var out []string
	for _, g := range vgoroutines() {
		if g.inRun || strings.HasPrefix(g.where, "(*target).wait") || strings.HasPrefix(g.where, "Run ") {
			out = append(out, fmt.Sprintf("goroutine %d [%s] at %s", g.gid, g.state, g.where))
		}
	}
	sort.Strings(out)
	return out
}

// ---------------------------------------------------------------------------------------------------------
// fake Targets / Target

type vErr struct {
	kind  string
	label int
}

func (e *vErr) Error() string { return e.kind + " " + strconv.Itoa(e.label) }

type vworld struct {
	g *vgraph
	k int
	v *vlog

	inside    atomic.Int32
	maxInside atomic.Int32
	load      []atomic.Int32
	eval      []atomic.Int32
	body      []atomic.Int32

	mu       sync.Mutex
	order    []int
	finished []bool
	outcome  []error
	results  map[int][][2]string // dependent -> (dep, kind) in the order handed over
	first    map[int]int         // dependent -> class of its first failed result (0 none, 1 failed, 2 cyclic): what target.go acts on
	oracles  [][2]string
	targets  []*vtarget
}

type vtarget struct {
	w *vworld
	l int
}

func (w *vworld) oracle(name, detail string) {
	w.mu.Lock()
	w.oracles = append(w.oracles, [2]string{name, detail})
	w.mu.Unlock()
}

func (w *vworld) enter() {
	n := w.inside.Add(1)
	for {
		m := w.maxInside.Load()
		if n <= m || w.maxInside.CompareAndSwap(m, n) {
			break
		}
	}
}

func (w *vworld) leave() { w.inside.Add(-1) }

func (w *vworld) finish(l int, err error) {
	w.mu.Lock()
	w.order = append(w.order, l)
	w.finished[l] = true
	w.outcome[l] = err
	w.mu.Unlock()
}

func (w *vworld) LoadTarget(label string) (Target, error) {
	l, _ := strconv.Atoi(label)
	w.load[l].Add(1)
	w.enter()
	defer w.leave()
	w.v.jitter("fake.load")
	if l < 0 || l >= w.g.n || w.g.unknown[l] {
		err := &vErr{"unknown", l}
		if l >= 0 && l < w.g.n {
			w.finish(l, err)
		}
		return nil, err
	}
	return w.targets[l], nil
}

func (t *vtarget) Evaluate(e Engine) (ret error) {
	w, l := t.w, t.l
	w.eval[l].Add(1)
	w.enter()
	defer w.leave()
	defer func() { w.finish(l, ret) }()
	w.v.jitter("fake.eval")

	deps := w.g.deps[l]
	labels := make([]string, len(deps))
	for i, d := range deps {
		labels[i] = strconv.Itoa(d)
	}
	w.leave() // not executing while inside EvaluateTargets
	results := e.EvaluateTargets(labels...)
	w.enter()

	if len(results) != len(deps) {
		w.oracle("result_count", fmt.Sprintf("target %d: %d results for %d deps", l, len(results), len(deps)))
	}
	var rs [][2]string
	cyclic := false
	for _, r := range results {
		if _, ok := r.Error.(CyclicDependencyError); ok {
			cyclic = true
		}
	}
	var failed error
	for i, r := range results {
		if i >= len(deps) {
			break
		}
		d := deps[i]
		kind := "ok"
		if cyclic {
			kind = "cyclic"
			if _, ok := r.Error.(CyclicDependencyError); !ok || r.Target != nil {
				w.oracle("cyclic_results_uniform", fmt.Sprintf("target %d dep %d: a cyclic call returned a non-cyclic result", l, d))
			}
		} else {
			// a dependent continues only after the dependency finished, and is handed its actual outcome
			w.mu.Lock()
			fin, out := w.finished[d], w.outcome[d]
			w.mu.Unlock()
			if !fin {
				w.oracle("continued_before_dep_finished", fmt.Sprintf("target %d continued while dep %d had not finished", l, d))
			} else if r.Error != out {
				w.oracle("result_is_actual", fmt.Sprintf("target %d dep %d: handed %v, actual %v", l, d, r.Error, out))
			} else if out == nil && r.Target != Target(w.targets[d]) {
				w.oracle("result_target", fmt.Sprintf("target %d dep %d: wrong Target in result", l, d))
			}
			if ve, ok := r.Error.(*vErr); ok {
				kind = ve.kind
			} else if r.Error != nil {
				kind = "other"
			}
		}
		rs = append(rs, [2]string{strconv.Itoa(d), kind})
		if r.Error != nil && failed == nil {
			failed = r.Error
		}
	}
	// C05 "a cyclic-dependency error is reported": dawn's target.go walks the results in dependency order and stops at the
	// FIRST failed one; only if that one is a CyclicDependencyError does it report the cycle (Events.TargetFailed).  Each
	// result is classified by its own error (not uniformised as rs above): 0 ok, 1 failed, 2 CyclicDependencyError.
	codes := make([]int, 0, len(results))
	first := 0
	for _, r := range results {
		c := 0
		if _, ok := r.Error.(CyclicDependencyError); ok {
			c = 2
		} else if r.Error != nil {
			c = 1
		}
		if first == 0 {
			first = c
		}
		codes = append(codes, c)
	}
	w.mu.Lock()
	w.results[l] = rs
	if w.first == nil {
		w.first = map[int]int{}
	}
	w.first[l] = first
	w.mu.Unlock()
	w.v.at("eval.results", strconv.Itoa(l), codes)

	if failed != nil {
		// dawn's target.go: "dependency %v failed" is returned before evaluate() is reached
		w.v.at("body.end", strconv.Itoa(l), 2)
		return &vErr{"depfailed", l}
	}
	w.body[l].Add(1)
	w.v.jitter("fake.body")
	if w.g.failing[l] {
		w.v.at("body.end", strconv.Itoa(l), 1)
		return &vErr{"body", l}
	}
	w.v.at("body.end", strconv.Itoa(l), 0)
	return nil
}

// ---------------------------------------------------------------------------------------------------------
// one run

type vrun struct {
	id      int
	g       *vgraph
	k       int
	viaRun  bool // through the exported Run (gate = NumCPU) instead of a runner built with newGate(k)
	profile int
	procs   int
	seed    uint64
	policy  string // "" = free-running with jitter; otherwise a policy of the controlled scheduler (needs zz_verif_c05_ctl_test.go)
}

// vctlNew is set by zz_verif_c05_ctl_test.go: the controlled scheduler.  It returns the hook handler to install and the
// function that drives the run: it releases one parked goroutine at a time until Run has returned and every goroutine has
// ended (ok), or until no goroutine of the build can run any more (a verdict; res.blocked / v.schedule describe it).
var vctlNew func(r *vrun, v *vlog) (handler func(string, ...any), drive func(done chan error, res *vresult) (runErr error, verdict string))

type vresult struct {
	hung        bool
	stuck       bool // Run returned but goroutines never became quiescent
	runErr      string
	capacityEnd int
	verdict     string   // controlled scheduler: why the run was given up ("deadlock: ...", "step budget ...")
	blocked     []string // after a hang: the goroutines of the build and where each is blocked (from the runtime's stack dump)
}

func vkindOf(err error) string {
	switch e := err.(type) {
	case nil:
		return "ok"
	case CyclicDependencyError:
		return "cyclic"
	case *vErr:
		return e.kind
	}
	return "other"
}

func vexec(r *vrun, timeout time.Duration) (*vworld, *vresult) {
	g := r.g
	v := &vlog{fin: map[int64]bool{}, prof: &vprofiles[r.profile], seed: r.seed}
	w := &vworld{g: g, k: r.k, v: v,
		load: make([]atomic.Int32, g.n), eval: make([]atomic.Int32, g.n), body: make([]atomic.Int32, g.n),
		finished: make([]bool, g.n), outcome: make([]error, g.n), results: map[int][][2]string{}}
	for l := 0; l < g.n; l++ {
		w.targets = append(w.targets, &vtarget{w, l})
	}
	res := &vresult{capacityEnd: -1}
	old := runtime.GOMAXPROCS(r.procs)
	defer runtime.GOMAXPROCS(old)
	handler := v.at
	var drive func(done chan error, res *vresult) (error, string)
	if r.policy != "" {
		v.policy = r.policy
		handler, drive = vctlNew(r, v)
		v.ctlAt = handler
	}
	verifhook.SetHandler(handler)
	defer verifhook.SetHandler(nil)

	root := strconv.Itoa(g.root)
	var rn *runner
	done := make(chan error, 1)
	go func() {
		v.mainGid.Store(vgid())
		if r.viaRun {
			done <- Run(w, root)
			return
		}
		// the body of Run with the gate limit chosen by the harness
		rn = &runner{targetLoader: w, gate: newGate(r.k)}
		t := rn.getTarget(root)
		t.start(rn)
		err := t.wait()
		verifhook.At("main.returned", root)
		done <- err
	}()
	var runErr error
	if drive != nil {
		var verdict string
		if runErr, verdict = drive(done, res); verdict != "" {
			res.hung, res.verdict = true, verdict
			return w, res
		}
	} else {
		select {
		case runErr = <-done:
		case <-time.After(timeout):
			res.hung = true
			res.blocked = vblockedReport()
			return w, res
		}
	}
	res.runErr = vkindOf(runErr)
	v.at("main.result", runErr == nil)

	// quiescence: every goroutine spawned by start has done its final gate.exit
	deadline := time.Now().Add(timeout)
	for v.live.Load() != 0 {
		if time.Now().After(deadline) {
			res.stuck = true
			res.blocked = vblockedReport()
			return w, res
		}
		time.Sleep(50 * time.Microsecond)
	}

	// oracles
	w.mu.Lock()
	rootFin, rootOut := w.finished[g.root], w.outcome[g.root]
	w.mu.Unlock()
	if !rootFin || runErr != rootOut {
		w.oracle("run_result_is_root", fmt.Sprintf("Run returned %v, root outcome %v (finished=%v)", runErr, rootOut, rootFin))
	}
	for l := 0; l < g.n; l++ {
		if c := w.load[l].Load(); c > 1 {
			w.oracle("load_at_most_once", fmt.Sprintf("LoadTarget(%d) called %d times", l, c))
		}
		if c := w.eval[l].Load(); c > 1 {
			w.oracle("evaluate_at_most_once", fmt.Sprintf("Evaluate(%d) called %d times", l, c))
		}
		if c := w.body[l].Load(); c > 1 {
			w.oracle("body_at_most_once", fmt.Sprintf("body of %d ran %d times", l, c))
		}
	}
	sawCyclic := v.nCyclic.Load() > 0
	for _, rs := range w.results {
		for _, x := range rs {
			if x[1] == "cyclic" {
				sawCyclic = true
			}
		}
	}
	if g.cyclic() {
		if runErr == nil {
			w.oracle("cyclic_build_fails", "a cycle is reachable from the root but Run returned nil")
		}
		if !sawCyclic {
			w.oracle("cycle_reported", "a cycle is reachable from the root but no CyclicDependencyError was produced")
		}
		// ... and it must reach a consumer the way dawn's target.go reads the results: some target's FIRST failed result
		// is the CyclicDependencyError (that target then reports it through Events.TargetFailed; any other first error is
		// passed on silently as "dependency ... failed")
		reporters := []int{}
		w.mu.Lock()
		for l, c := range w.first {
			if c == 2 {
				reporters = append(reporters, l)
			}
		}
		w.mu.Unlock()
		if sawCyclic && len(reporters) == 0 {
			w.oracle("cycle_reported_first", fmt.Sprintf("a cycle is reachable from the root and a CyclicDependencyError was produced, but for "+
				"no target is it the first failed result (the one target.go reports); first-failed classes by target: %v", w.first))
		}
	} else if sawCyclic || res.runErr == "cyclic" {
		w.oracle("no_false_cycle", "acyclic graph but a CyclicDependencyError was produced")
	}
	limit := r.k
	if int(w.maxInside.Load()) > limit {
		w.oracle("executing_le_limit", fmt.Sprintf("%d targets executing at once, limit %d", w.maxInside.Load(), limit))
	}
	if w.inside.Load() != 0 {
		w.oracle("harness_counter", fmt.Sprintf("inside counter %d at quiescence", w.inside.Load()))
	}
	if rn != nil {
		rn.gate.m.Lock()
		res.capacityEnd = rn.gate.capacity
		rn.gate.m.Unlock()
		if res.capacityEnd != r.k {
			w.oracle("slots_conserved", fmt.Sprintf("gate capacity %d at quiescence, limit %d", res.capacityEnd, r.k))
		}
	}
	return w, res
}

func vjsonRun(r *vrun, w *vworld, res *vresult) []byte {
	g := r.g
	// After a hang the log mutex may be held for ever (a goroutine blocked between a .pre hook and its .post keeps it): try
	// for a while, then read the log as it is (its owner is blocked, nobody appends).
	locked := false
	for i := 0; i < 2000 && !locked; i++ {
		if locked = w.v.mu.TryLock(); !locked {
			time.Sleep(500 * time.Microsecond)
		}
	}
	evs := make([][]any, 0, len(w.v.evs))
	for _, e := range w.v.evs {
		evs = append(evs, append([]any{e.gid, e.point}, e.args...))
	}
	if locked {
		w.v.mu.Unlock()
	}
	cnt := func(a []atomic.Int32) []int {
		out := make([]int, len(a))
		for i := range a {
			out[i] = int(a[i].Load())
		}
		return out
	}
	keys := func(m map[int]bool) []int {
		out := []int{}
		for k := range m {
			out = append(out, k)
		}
		sort.Ints(out)
		return out
	}
	deps := make([][]int, g.n)
	for i := range deps {
		deps[i] = append([]int{}, g.deps[i]...)
	}
	w.mu.Lock()
	results := map[string][][2]string{}
	for l, rs := range w.results {
		results[strconv.Itoa(l)] = rs
	}
	order := append([]int{}, w.order...)
	firstFailed := map[string]int{}
	for l, c := range w.first {
		firstFailed[strconv.Itoa(l)] = c
	}
	outcomes := make([]string, g.n)
	for l := 0; l < g.n; l++ {
		if w.finished[l] {
			outcomes[l] = vkindOf(w.outcome[l])
		} else {
			outcomes[l] = "-"
		}
	}
	w.mu.Unlock()
	limit := r.k
	m := map[string]any{
		"run": r.id, "graph": g.name, "n": g.n, "k": limit, "root": g.root, "deps": deps,
		"unknown": keys(g.unknown), "failing": keys(g.failing), "cyclic": g.cyclic(),
		"profile": vprofiles[r.profile].name, "procs": r.procs, "via_run": r.viaRun,
		"hung": res.hung, "stuck": res.stuck, "run_result": res.runErr, "capacity_end": res.capacityEnd,
		"max_inside": w.maxInside.Load(), "blocked": res.blocked, "log_mutex_held": !locked,
		"schedule": w.v.schedule, "controlled": w.v.policy, "verdict": res.verdict, "ctl_stats": w.v.ctlStats, "seed": strconv.FormatUint(r.seed, 10),
		"events": evs,
		"obs": map[string]any{"load": cnt(w.load), "eval": cnt(w.eval), "body": cnt(w.body), "order": order,
			"outcomes": outcomes, "results": results, "first_failed": firstFailed},
	}
	b, err := json.Marshal(m)
	if err != nil {
		panic(err)
	}
	return b
}

// vextraGraphs is set by a property's own harness file (zz_verif_c05_ctl_test.go: cycles with side dependencies).
var vextraGraphs func() []*vgraph

// vhangDetail says, for a run that did not end, which goroutines of the build are blocked where.
func vhangDetail(w *vworld, res *vresult) string {
	d := "goroutines of the build: " + strings.Join(res.blocked, "; ")
	if w.v.mu.TryLock() {
		w.v.mu.Unlock()
	} else {
		last := ""
		if n := len(w.v.evs); n > 0 {
			last = fmt.Sprintf(" (last logged event: goroutine %d %s %v)", w.v.evs[n-1].gid, w.v.evs[n-1].point, w.v.evs[n-1].args)
		}
		d += "; the goroutine that logged the last event is blocked between that .pre hook and its .post hook and still owns the " +
			"harness's log mutex, so goroutines shown at a hook are waiting for the log, not for the runner" + last
	}
	return d
}

// vprocessWatchdog guards the whole test process: if one run (including writing its record) takes longer than limit, the
// in-run watchdog itself is stuck; the run is then named in <out>.stuck together with a goroutine dump and the process exits,
// so that the check can attribute the hang to that run instead of waiting for go test's timeout.
func vprocessWatchdog(outPath string, cur *atomic.Pointer[vrun], since *atomic.Int64, limit time.Duration) func() {
	stop := make(chan struct{})
	go func() {
		tick := time.NewTicker(200 * time.Millisecond)
		defer tick.Stop()
		for {
			select {
			case <-stop:
				return
			case <-tick.C:
			}
			r := cur.Load()
			if r == nil || time.Since(time.Unix(0, since.Load())) < limit {
				continue
			}
			m := map[string]any{"run": r.id, "graph": r.g.name, "n": r.g.n, "root": r.g.root, "deps": r.g.deps, "k": r.k,
				"profile": vprofiles[r.profile].name, "procs": r.procs, "via_run": r.viaRun, "seed": r.seed,
				"waited_ms": limit.Milliseconds(), "blocked": vblockedReport()}
			b, _ := json.Marshal(m)
			os.WriteFile(outPath+".stuck", b, 0o644)
			os.Exit(7)
		}
	}()
	return func() { close(stop) }
}

func venvInt(name string, def int) int {
	if s := os.Getenv(name); s != "" {
		if n, err := strconv.Atoi(s); err == nil {
			return n
		}
	}
	return def
}

func TestVerifRunner(t *testing.T) {
	outPath := os.Getenv("VERIF_OUT")
	if outPath == "" {
		t.Skip("VERIF_OUT not set")
	}
	f, err := os.Create(outPath)
	if err != nil {
		t.Fatal(err)
	}
	defer f.Close()
	out := bufio.NewWriterSize(f, 1<<20)
	defer out.Flush()

	seed := int64(venvInt("VERIF_SEED", 1))
	nrand := venvInt("VERIF_RUNS", 100)
	repeat := venvInt("VERIF_REPEAT", 1)
	timeout := time.Duration(venvInt("VERIF_TIMEOUT_MS", 4000)) * time.Millisecond
	rng := rand.New(rand.NewSource(seed))

	limits := []int{1, 2, 3, 4, 16}
	procsChoices := []int{1, 2, 4, 16}
	var runs []*vrun
	id := 0
	add := func(g *vgraph, k int, viaRun bool) {
		id++
		runs = append(runs, &vrun{id: id, g: g, k: k, viaRun: viaRun, profile: rng.Intn(len(vprofiles)),
			procs: procsChoices[rng.Intn(len(procsChoices))], seed: rng.Uint64()})
	}
	for rep := 0; rep < repeat; rep++ {
		for _, g := range vcorpus() {
			for _, k := range limits {
				add(g, k, false)
			}
			add(g, runtime.NumCPU(), true)
		}
	}
	// contention stress: the graphs whose threads meet at the same label / at the gate, many times, all CPUs
	stress := venvInt("VERIF_STRESS", 200)
	byName := map[string]*vgraph{}
	for _, g := range vcorpus() {
		byName[g.name] = g
	}
	stressGraphs := []string{"fanin5", "fanin5", "layered", "shared", "fan6"}
	for i := 0; i < stress; i++ {
		g := byName[stressGraphs[i%len(stressGraphs)]]
		id++
		runs = append(runs, &vrun{id: id, g: g, k: []int{16, 4, 2}[i%3], profile: []int{0, 1, 9, 7}[i%4], procs: 16, seed: rng.Uint64()})
	}
	// extra graph families contributed by a property's own harness file (nil when that file is not part of the build)
	if vextraGraphs != nil {
		for i, g := range vextraGraphs() {
			add(g, limits[i%len(limits)], false)
			if i%4 == 0 {
				add(g, runtime.NumCPU(), true)
			} else {
				add(g, 1+(i+2)%3, false)
			}
		}
	}
	for i := 0; i < nrand; i++ {
		g := vrandom(rng, i)
		add(g, limits[rng.Intn(len(limits))], false)
		if i%3 == 0 {
			add(g, 1, false)
		}
	}

	nOracle := 0
	var cur atomic.Pointer[vrun]
	var curSince atomic.Int64
	stopWatch := vprocessWatchdog(outPath, &cur, &curSince, 3*timeout+5*time.Second)
	defer stopWatch()
	for _, r := range runs {
		curSince.Store(time.Now().UnixNano())
		cur.Store(r)
		w, res := vexec(r, timeout)
		if res.hung || res.stuck {
			what := "Run did not return"
			if res.stuck {
				what = "Run returned but spawned goroutines never finished"
			}
			w.oracle("terminates", fmt.Sprintf("%s within %v (graph %s, limit %d, profile %s, GOMAXPROCS %d); %s", what, timeout, r.g.name, r.k,
				vprofiles[r.profile].name, r.procs, vhangDetail(w, res)))
		}
		for _, o := range w.oracles {
			nOracle++
			fmt.Fprintf(out, "ORACLE\t%s\t%d\t%s\n", o[0], r.id, o[1])
		}
		out.Write(vjsonRun(r, w, res))
		out.WriteByte('\n')
		if res.hung || res.stuck {
			// goroutines of this run are still parked (or running); their later hook calls would pollute the next
			// run's log, so stop here: the oracle failure above is the finding.
			fmt.Fprintf(out, "ABORTED\t%d\n", r.id)
			break
		}
	}
	out.Flush()
	t.Logf("runs=%d oracle_failures=%d", len(runs), nOracle)
}
