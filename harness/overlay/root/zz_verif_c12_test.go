package dawn

// Correspondence harness for C12, package-dawn half: repoSourcePath, sourceLabel, targetInfoPath.

import (
	"bufio"
	"encoding/hex"
	"os"
	"path/filepath"
	"strconv"
	"strings"
	"testing"

	"github.com/pgavlin/dawn/label"
)

func c12hx(s string) string {
	if s == "" {
		return "-"
	}
	return hex.EncodeToString([]byte(s))
}

func c12enum(alpha string, maxLen int, f func(string)) {
	var rec func(prefix []byte, n int)
	rec = func(prefix []byte, n int) {
		f(string(prefix))
		if n == maxLen {
			return
		}
		for i := 0; i < len(alpha); i++ {
			rec(append(prefix, alpha[i]), n+1)
		}
	}
	rec(nil, 0)
}

func TestVerifC12Paths(t *testing.T) {
	outPath := os.Getenv("VERIF_OUT")
	if outPath == "" {
		t.Skip("VERIF_OUT not set")
	}
	maxLen, _ := strconv.Atoi(os.Getenv("VERIF_MAXLEN"))
	if maxLen == 0 {
		maxLen = 5
	}
	f, err := os.Create(outPath)
	if err != nil {
		t.Fatal(err)
	}
	defer f.Close()
	w := bufio.NewWriterSize(f, 1<<20)
	defer w.Flush()
	line := func(fields ...string) {
		w.WriteString(strings.Join(fields, "\t"))
		w.WriteByte('\n')
	}

	root := "/R/oot"
	proj := &Project{root: root, work: "/W"}
	seenPath := map[string]string{}
	printed := map[string]label.Label{}

	pkgs := []string{"//", "//a", "//a/b", "//a/../b", "//.."}
	c12enum("a./", maxLen, func(sp string) {
		for _, pkg := range pkgs {
			func() {
				defer func() {
					if x := recover(); x != nil {
						line("rsp", c12hx(pkg), c12hx(sp), "panic")
						line("ORACLE", "repoSourcePath_panics", c12hx(pkg), c12hx(sp))
					}
				}()
				q, err := repoSourcePath(pkg, sp)
				if err != nil {
					line("rsp", c12hx(pkg), c12hx(sp), "err")
					return
				}
				line("rsp", c12hx(pkg), c12hx(sp), "ok", c12hx(q))
				// confinement oracle: exactly what loadFunction/loadSourceFile do with the result
				full := filepath.Join(root, filepath.Join(strings.Split(q, "/")...))
				rel, rerr := filepath.Rel(root, full)
				if rerr != nil || rel == ".." || strings.HasPrefix(rel, "../") {
					line("ORACLE", "path_escapes_root", c12hx(pkg), c12hx(sp))
				}
				l, err := sourceLabel(pkg, sp)
				if err != nil {
					line("slabel", c12hx(pkg), c12hx(sp), "err")
					return
				}
				line("slabel", c12hx(pkg), c12hx(sp), "ok", c12hx(l.Kind), c12hx(l.Project), c12hx(l.Package), c12hx(l.Name))
				// the property's label clauses on the labels dawn manufactures itself: print-then-reparse identity and
				// canonical printing (same eligibility as for parsed labels: a name, or no kind)
				if l.Name != "" || l.Kind == "" {
					str := l.String()
					l2, perr := label.Parse(str)
					if perr != nil || *l2 != *l {
						line("ORACLE", "source_label_roundtrip", c12hx(pkg), c12hx(sp), c12hx(str))
					}
					if prev, ok := printed[str]; ok && prev != *l {
						line("ORACLE", "source_label_print_not_canonical", c12hx(pkg), c12hx(sp), c12hx(str))
					}
					printed[str] = *l
				}
				tp := proj.targetInfoPath(l)
				line("tip", c12hx(l.Kind), c12hx(l.Package), c12hx(l.Name), c12hx(tp[len("/W/"):]))
				if prev, ok := seenPath[tp]; ok && prev != l.String() {
					line("ORACLE", "record_path_collision", c12hx(prev), c12hx(l.String()))
				}
				seenPath[tp] = l.String()
			}()
		}
	})

	// record paths of target labels (kind "", absolute package, name without '/')
	names := []string{"a", "b.c", "x y", "%2F", "a%b", "ü", "a+b", "a&b=c", "~", "BUILD", "a;b", "a,b", "a?b", "\x00", "\xff"}
	tpkgs := []string{"//", "//a", "//a/b", "//a%2Fb", "//a b", "//ü/x"}
	for _, p := range tpkgs {
		for _, n := range names {
			l := &label.Label{Package: p, Name: n}
			tp := proj.targetInfoPath(l)
			line("tip", c12hx(l.Kind), c12hx(l.Package), c12hx(l.Name), c12hx(tp[len("/W/"):]))
			if prev, ok := seenPath[tp]; ok && prev != l.String() {
				line("ORACLE", "record_path_collision", c12hx(prev), c12hx(l.String()))
			}
			seenPath[tp] = l.String()
		}
	}

	// long labels: the record's file name grows with the label (escaped package + "%2F" + escaped name); names that share
	// a prefix of 64 .. 4096 bytes and differ only at the end, or in the middle, must still get records of their own
	// (record_path_injective has no bound on the length).  Lengths bracket 128, 200, 255 (NAME_MAX), 256, 512 (thorough tier: 1024, 4096 too)
	// raw and escaped ("ü" is 2 bytes raw, 6 escaped; '/' in the package is 3 escaped).
	tip := func(p, n string) {
		l := &label.Label{Package: p, Name: n}
		tp := proj.targetInfoPath(l)
		line("tip", c12hx(l.Kind), c12hx(l.Package), c12hx(l.Name), c12hx(tp[len("/W/"):]))
		if prev, ok := seenPath[tp]; ok && prev != l.String() {
			line("ORACLE", "record_path_collision", c12hx(prev), c12hx(l.String()))
		}
		seenPath[tp] = l.String()
	}
	lens := []int{64, 128, 199, 200, 201, 255, 256, 300, 512}
	units := []string{"n", "ü"}
	if maxLen > 6 { // thorough tier
		lens = []int{40, 64, 100, 127, 128, 190, 199, 200, 201, 250, 254, 255, 256, 300, 511, 512, 1023, 1024, 4096}
		units = []string{"n", "ü", "a b", "%"}
	}
	for _, n := range lens {
		for _, unit := range units {
			stem := strings.Repeat(unit, n/len(unit)+1)[:n/len(unit)*len(unit)]
			for _, p := range []string{"//", "//pkg", "//" + strings.TrimSuffix(strings.Repeat("dir/", n/8+1), "/")} {
				tip(p, stem)
				tip(p, stem+"a")
				tip(p, stem+"b")
				tip(p, stem[:len(stem)/2]+"X"+stem[len(stem)/2:])
				tip(p, "a"+stem)
			}
			// the same long text as the package, short names
			tip("//"+stem, "a")
			tip("//"+stem, "b")
			tip("//"+stem+"/x", "a")
			tip("//"+stem+"/y", "a")
		}
	}
}
