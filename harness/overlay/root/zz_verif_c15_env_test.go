package dawn

// Correspondence harness for C15, package-dawn half (added through `go test -overlay`):
//   - decoding arbitrary bytes with the real envUnpickler            (dec lines of $VERIF_IN)
//   - the reason string of diffEnv for every set of differing keys   (reason lines, generated here)
//   - the record layer: corrupt a real target record, re-load and build in a subprocess  (zz_verif_c15_record_test.go)
//
// Input  ($VERIF_IN):  dec \t <id> \t <hex bytes>
// Output ($VERIF_OUT): dec \t <id> \t <ok dump | err | nilnil | panic>
//                      reason \t <mask as 9 chars 0/1> \t <extra key 0/1> \t <hex reason | eq | panic | err>
//                      ORACLE \t <name> \t <id> \t <detail>
// Dump format: see harness/overlay/pickle/zz_verif_c07_test.go.

import (
	"bufio"
	"bytes"
	"encoding/hex"
	"fmt"
	"math"
	"os"
	"reflect"
	"strings"
	"testing"

	"github.com/pgavlin/dawn/pickle"
	"go.starlark.net/starlark"
)

type c15dumper struct {
	b    strings.Builder
	seen map[starlark.Value]int
}

func (d *c15dumper) seq(vs []starlark.Value) {
	for i, v := range vs {
		if i > 0 {
			d.b.WriteByte(',')
		}
		d.dump(v)
	}
}

func (d *c15dumper) visit(x starlark.Value, tag string) bool {
	if id, ok := d.seen[x]; ok {
		fmt.Fprintf(&d.b, "@%d", id)
		return false
	}
	id := len(d.seen)
	d.seen[x] = id
	fmt.Fprintf(&d.b, "%s%d", tag, id)
	return true
}

func (d *c15dumper) dump(x starlark.Value) {
	switch x := x.(type) {
	case nil:
		d.b.WriteString("?nil")
	case starlark.NoneType:
		d.b.WriteByte('N')
	case starlark.Bool:
		if x {
			d.b.WriteByte('T')
		} else {
			d.b.WriteByte('F')
		}
	case starlark.Int:
		d.b.WriteString("I" + x.BigInt().String())
	case starlark.Float:
		fmt.Fprintf(&d.b, "G%016x", math.Float64bits(float64(x)))
	case starlark.String:
		d.b.WriteString("S" + hex.EncodeToString([]byte(x)))
	case starlark.Bytes:
		d.b.WriteString("B" + hex.EncodeToString([]byte(x)))
	case starlark.Tuple:
		d.b.WriteString("t(")
		d.seq(x)
		d.b.WriteByte(')')
	case *starlark.List:
		if d.visit(x, "L") {
			d.b.WriteByte('[')
			vs := make([]starlark.Value, x.Len())
			for i := range vs {
				vs[i] = x.Index(i)
			}
			d.seq(vs)
			d.b.WriteByte(']')
		}
	case *starlark.Dict:
		if d.visit(x, "D") {
			d.b.WriteByte('[')
			var vs []starlark.Value
			for _, kv := range x.Items() {
				vs = append(vs, kv[0], kv[1])
			}
			d.seq(vs)
			d.b.WriteByte(']')
		}
	case *starlark.Set:
		if d.visit(x, "E") {
			d.b.WriteByte('[')
			d.seq(x.Elems())
			d.b.WriteByte(']')
		}
	default:
		switch x.Type() {
		case "mark":
			d.b.WriteByte('M')
		case "global":
			g := reflect.ValueOf(x).Elem()
			fmt.Fprintf(&d.b, "g%s.%s", hex.EncodeToString([]byte(g.FieldByName("module").String())),
				hex.EncodeToString([]byte(g.FieldByName("name").String())))
		default:
			fmt.Fprintf(&d.b, "?%T", x)
		}
	}
}

func c15dump(x starlark.Value) string {
	d := &c15dumper{seen: map[starlark.Value]int{}}
	d.dump(x)
	return d.b.String()
}

// c15decode classifies Decode(bs) with the real envUnpickler: "ok <dump>", "err", "nilnil", "panic".
func c15decode(bs []byte) (out string) {
	defer func() {
		if r := recover(); r != nil {
			out = "panic"
		}
	}()
	v, err := pickle.NewDecoder(bytes.NewReader(bs), pickle.UnpicklerFunc(envUnpickler)).Decode()
	switch {
	case err != nil:
		return "err"
	case v == nil:
		return "nilnil"
	}
	return "ok " + c15dump(v)
}

func c15reason(mask int, extra bool) (out string) {
	defer func() {
		if r := recover(); r != nil {
			out = "panic"
		}
	}()
	oldEnv, newEnv := starlark.NewDict(10), starlark.NewDict(10)
	for i, k := range functionEnvKeys {
		oldEnv.SetKey(k, starlark.String("v"))
		if mask&(1<<i) != 0 {
			newEnv.SetKey(k, starlark.Tuple{starlark.String("w"), starlark.MakeInt(i)})
		} else {
			newEnv.SetKey(k, starlark.String("v"))
		}
	}
	if extra {
		newEnv.SetKey(starlark.String("some other key"), starlark.MakeInt(1))
	}
	f := &function{oldEnv: oldEnv, newEnv: newEnv}
	eq, reason, _, err := f.diffEnv()
	switch {
	case err != nil:
		return "err"
	case eq:
		return "eq"
	}
	return hex.EncodeToString([]byte(reason))
}

func TestVerifC15Env(t *testing.T) {
	inPath, outPath := os.Getenv("VERIF_IN"), os.Getenv("VERIF_OUT")
	if inPath == "" || outPath == "" {
		t.Skip("VERIF_IN / VERIF_OUT not set")
	}
	in, err := os.Open(inPath)
	if err != nil {
		t.Fatal(err)
	}
	defer in.Close()
	f, err := os.Create(outPath)
	if err != nil {
		t.Fatal(err)
	}
	defer f.Close()
	w := bufio.NewWriterSize(f, 1<<20)
	defer w.Flush()

	sc := bufio.NewScanner(in)
	sc.Buffer(make([]byte, 1<<20), 1<<28)
	for sc.Scan() {
		fs := strings.Split(sc.Text(), "\t")
		if fs[0] != "dec" {
			continue
		}
		bs, err := hex.DecodeString(fs[2])
		if err != nil {
			t.Fatal(err)
		}
		fmt.Fprintf(w, "begin\t%s\n", fs[1])
		w.Flush()
		out := c15decode(bs)
		if out == "panic" || out == "nilnil" {
			fmt.Fprintf(w, "ORACLE\tenv-decode-%s\t%s\t%s\n", out, fs[1], fs[2])
		}
		fmt.Fprintf(w, "dec\t%s\t%s\n", fs[1], out)
	}
	if err := sc.Err(); err != nil {
		t.Fatal(err)
	}

	// diffEnv: every subset of the nine environment keys, with and without a key outside the list
	for mask := 0; mask < 1<<len(functionEnvKeys); mask++ {
		for _, extra := range []bool{false, true} {
			ms := ""
			for i := range functionEnvKeys {
				ms += string('0' + byte(mask>>i&1))
			}
			out := c15reason(mask, extra)
			e := "0"
			if extra {
				e = "1"
			}
			if out == "panic" || out == "err" || (out == "eq") != (mask == 0 && !extra) {
				fmt.Fprintf(w, "ORACLE\tdiff-reason-%s\t%s\t%s\n", out, ms, e)
			}
			fmt.Fprintf(w, "reason\t%s\t%s\t%s\n", ms, e, out)
		}
	}
}
