package dawn

// C18, the REPL's event path: `run(label, always=, dry_run=, callback=f)` installs a runEvents as the project's Events for
// the duration of the build; every event of the build is sent over an unbuffered channel to a goroutine that calls the
// Starlark callback.  The statement's protocol is about the events the build DELIVERS, whoever listens: here the listener
// is a callback that records the event and then, depending on the scenario, raises an error (for every event that is not
// a Print, for every event, for the first one only, for every k-th one, for run-done only).  A listener that raises
// errors must not change what is delivered.
//
// Oracles, per run: (1) run(...) returns (a hang is an outcome: 20 s); (2) per label the delivered events are one
// up-to-date | evaluating, the output lines, one completion | a lone failed; (3) run-done exactly once, last; (4) the
// per-label sequences, the output lines and run-done's error are those a plain Events implementation records for the same
// sequence of builds (Project.Run) of a fresh copy of the same project.
//
// Coq side: Build/Pump.v models the channel and the receiving goroutine (callback_receives_the_stream: whatever the
// callback raises it is called with the build's whole stream and no send blocks; stop_at_first_error_refuted); each run
// is also a case for the model ("pump" lines: which of the events sent make the callback raise, how many events the
// callback was called with, how many were never received).  Build/Props_C18.v (per_label_shape, run_done_once_last,
// output_inside_window) state the protocol of the stream the engine emits and transfer through the pump.

import (
	"encoding/json"
	"fmt"
	"io"
	"math/rand"
	"os"
	"path/filepath"
	"sort"
	"strconv"
	"strings"
	"sync"
	"testing"
	"time"

	"github.com/pgavlin/dawn/diff"
	"github.com/pgavlin/dawn/label"
	"go.starlark.net/starlark"
)

type cbEvent struct {
	Kind  string `json:"kind"`
	Label string `json:"label,omitempty"`
	Line  string `json:"line,omitempty"`
	Err   string `json:"err,omitempty"`
}

type cbRecorder struct {
	discardEventsT
	mu  sync.Mutex
	evs []cbEvent
}

func (r *cbRecorder) add(e cbEvent) { r.mu.Lock(); r.evs = append(r.evs, e); r.mu.Unlock() }
func (r *cbRecorder) Print(l *label.Label, line string) {
	r.add(cbEvent{Kind: "Print", Label: l.String(), Line: line})
}
func (r *cbRecorder) TargetUpToDate(l *label.Label) {
	r.add(cbEvent{Kind: "TargetUpToDate", Label: l.String()})
}
func (r *cbRecorder) TargetEvaluating(l *label.Label, reason string, d diff.ValueDiff) {
	r.add(cbEvent{Kind: "TargetEvaluating", Label: l.String()})
}
func (r *cbRecorder) TargetFailed(l *label.Label, err error) {
	r.add(cbEvent{Kind: "TargetFailed", Label: l.String(), Err: err.Error()})
}
func (r *cbRecorder) TargetSucceeded(l *label.Label, changed bool) {
	r.add(cbEvent{Kind: "TargetSucceeded", Label: l.String()})
}
func (r *cbRecorder) RunDone(err error) {
	e := cbEvent{Kind: "RunDone"}
	if err != nil {
		e.Err = err.Error()
	}
	r.add(e)
}

type cbRun struct {
	Target string `json:"target"`
	Always bool   `json:"always"`
	Dry    bool   `json:"dry_run"`
}

type cbScenario struct {
	Name  string  `json:"name"`
	Build string  `json:"build"`
	Style int     `json:"callback_style"`
	K     int     `json:"k,omitempty"`
	Runs  []cbRun `json:"runs"`
}

var cbStyleText = []string{
	"records only",
	"records, then reads event.line (an error for every event that is not a Print)",
	"records, then fails for every event",
	"records, then fails for the first event only",
	"records, then fails for every k-th event",
	"records, then reads event.label (an error for run-done only)",
}

func cbStyleBody(style, k int) string {
	switch style {
	case 1:
		return "    event.line\n"
	case 2:
		return "    fail(\"callback\")\n"
	case 3:
		return "    if cnt[0] == 1:\n        fail(\"first\")\n"
	case 4:
		return fmt.Sprintf("    if cnt[0] %% %d == 0:\n        fail(\"kth\")\n", k)
	case 5:
		return "    event.label\n"
	}
	return "    pass\n"
}

func cbRandomBuild(rng *rand.Rand) (string, int) {
	n := 2 + rng.Intn(7)
	failing := -1
	if rng.Intn(3) == 0 {
		failing = rng.Intn(n)
	}
	var b strings.Builder
	for i := 0; i < n; i++ {
		var deps []string
		for j := 0; j < i; j++ {
			if rng.Intn(3) == 0 || (i == n-1 && j == i-1) {
				deps = append(deps, fmt.Sprintf("%q", ":t"+strconv.Itoa(j)))
			}
		}
		if i > 0 && rng.Intn(6) == 0 {
			deps = append(deps, "\":absent"+strconv.Itoa(i)+"\"")
		}
		fmt.Fprintf(&b, "@target(deps=[%s])\ndef t%d():\n", strings.Join(deps, ", "), i)
		lines := rng.Intn(4)
		for j := 0; j < lines; j++ {
			fmt.Fprintf(&b, "    print(\"t%d line %d\")\n", i, j)
		}
		if i == failing {
			fmt.Fprintf(&b, "    fail(\"t%d fails\")\n", i)
		} else if lines == 0 {
			b.WriteString("    pass\n")
		}
		b.WriteString("\n")
	}
	return b.String(), n
}

func cbWriteProject(dir, build string) error {
	if err := os.WriteFile(filepath.Join(dir, "dawn.toml"), nil, 0o644); err != nil {
		return err
	}
	return os.WriteFile(filepath.Join(dir, "BUILD.dawn"), []byte(build), 0o644)
}

// shape of one label's events: "" when well-formed, else what is wrong
func cbShape(evs []cbEvent) string {
	var ks []string
	for _, e := range evs {
		ks = append(ks, e.Kind)
	}
	s := strings.Join(ks, " ")
	switch {
	case s == "TargetUpToDate", s == "TargetFailed":
		return ""
	}
	if len(ks) >= 2 && ks[0] == "TargetEvaluating" && (ks[len(ks)-1] == "TargetSucceeded" || ks[len(ks)-1] == "TargetFailed") {
		for _, k := range ks[1 : len(ks)-1] {
			if k != "Print" {
				return s
			}
		}
		return ""
	}
	return s
}

func cbByLabel(evs []cbEvent) (map[string][]cbEvent, []string) {
	m := map[string][]cbEvent{}
	for _, e := range evs {
		if e.Kind != "RunDone" {
			m[e.Label] = append(m[e.Label], e)
		}
	}
	var ls []string
	for l := range m {
		ls = append(ls, l)
	}
	sort.Strings(ls)
	return m, ls
}

func TestVerifC18Callback(t *testing.T) {
	outPath := os.Getenv("VERIF_OUT")
	if outPath == "" {
		t.Skip("VERIF_OUT not set")
	}
	seed, _ := strconv.ParseInt(os.Getenv("VERIF_SEED"), 10, 64)
	nRandom := 24
	if os.Getenv("VERIF_TIER") == "thorough" {
		nRandom = 160
	}
	out, err := os.Create(outPath)
	if err != nil {
		t.Fatal(err)
	}
	defer out.Close()
	rng := rand.New(rand.NewSource(seed*7919 + 18))

	const chain = "@target()\ndef dep():\n    print(\"from dep\")\n\n@target(deps=[\":dep\"])\ndef top():\n    print(\"from top\")\n"
	const diamond = "@target()\ndef a():\n    print(\"a1\")\n    print(\"a2\")\n\n@target(deps=[\":a\"])\ndef b():\n    print(\"b1\")\n\n@target(deps=[\":a\"])\ndef c():\n    print(\"c1\")\n    print(\"c2\")\n    print(\"c3\")\n\n@target(deps=[\":b\", \":c\"])\ndef top():\n    print(\"top\")\n"
	const failing = "@target()\ndef a():\n    print(\"a\")\n\n@target(deps=[\":a\"])\ndef b():\n    print(\"b before\")\n    fail(\"b fails\")\n\n@target(deps=[\":b\"])\ndef top():\n    print(\"never\")\n"
	const missing = "@target(deps=[\":nowhere\"])\ndef top():\n    print(\"never\")\n"
	std := []cbRun{{"//:top", false, false}, {"//:top", false, false}, {"//:top", false, true}, {"//:top", true, true}, {"//:top", true, false}}

	var scens []cbScenario
	for style := 0; style <= 5; style++ {
		for _, sh := range []struct{ n, b string }{{"chain", chain}, {"diamond", diamond}, {"failing", failing}, {"missing", missing}} {
			scens = append(scens, cbScenario{Name: sh.n, Build: sh.b, Style: style, K: 2 + style%3, Runs: std})
		}
	}
	for i := 0; i < nRandom; i++ {
		b, n := cbRandomBuild(rng)
		var runs []cbRun
		for j := 0; j < 2+rng.Intn(4); j++ {
			tn := n - 1
			if rng.Intn(4) == 0 {
				tn = rng.Intn(n)
			}
			runs = append(runs, cbRun{"//:t" + strconv.Itoa(tn), rng.Intn(4) == 0, rng.Intn(5) == 0})
		}
		scens = append(scens, cbScenario{Name: "random" + strconv.Itoa(i), Build: b, Style: 1 + rng.Intn(5), K: 2 + rng.Intn(4), Runs: runs})
	}
	only := os.Getenv("VERIF_C18_ONLY")

	hangs := 0
	for _, sc := range scens {
		if only != "" && only != sc.Name {
			continue
		}
		if hangs >= 3 {
			break // three hanging builds are reported; every further one costs 20 s and says nothing new
		}
		start := time.Now()
		scJSON, _ := json.Marshal(sc)
		oracle := func(format string, args ...any) {
			fmt.Fprintf(out, "ORACLE\tcallback\tC18 run(..., callback=) -- %s; callback %s: %s\t%s\n", sc.Name, cbStyleText[sc.Style],
				strings.ReplaceAll(fmt.Sprintf(format, args...), "\n", " | "), scJSON)
		}
		refDir, cbDir := t.TempDir(), t.TempDir()
		if err := cbWriteProject(refDir, sc.Build); err != nil {
			t.Fatal(err)
		}
		if err := cbWriteProject(cbDir, sc.Build); err != nil {
			t.Fatal(err)
		}
		rec := &cbRecorder{}
		refProj, err := Load(refDir, &LoadOptions{Events: rec})
		if err != nil {
			t.Fatalf("%s: load: %v\n%s", sc.Name, err, sc.Build)
		}
		base := &cbRecorder{} // the project's own listener: a run without a callback reports to it
		cbProj, err := Load(cbDir, &LoadOptions{Events: base})
		if err != nil {
			t.Fatalf("%s: load: %v", sc.Name, err)
		}
		thread, globals := cbProj.REPLEnv(io.Discard, &label.Label{Package: "//"})
		recList, cnt := starlark.NewList(nil), starlark.NewList([]starlark.Value{starlark.MakeInt(0)})
		pre := starlark.StringDict{}
		for k, v := range globals {
			pre[k] = v
		}
		pre["rec"], pre["cnt"] = recList, cnt

		events, nruns := 0, 0
		cntBefore := 0
		// which events of a stream the callback raises an error for (position i of this run, cntBefore events before it)
		raisesBits := func(stream []cbEvent) string {
			var b strings.Builder
			for i, e := range stream {
				r := false
				switch sc.Style {
				case 1:
					r = e.Kind != "Print"
				case 2:
					r = true
				case 3:
					r = cntBefore+i+1 == 1
				case 4:
					r = (cntBefore+i+1)%sc.K == 0
				case 5:
					r = e.Kind == "RunDone"
				}
				if r {
					b.WriteByte('1')
				} else {
					b.WriteByte('0')
				}
			}
			return b.String()
		}
		var sessRuns []string // the scenario as a case for the session model: c:<events sent> with a callback, p:<events sent> without
		baseTotal := 0
		// a plain run between or after the runs with a callback: the project's own listener is the one the build reports to
		// again, and it receives the build's stream (per label what the reference project's listener receives)
		plainRun := func(target string, final bool) bool {
			rec.mu.Lock()
			rec.evs = nil
			rec.mu.Unlock()
			l, _ := label.Parse(target)
			refProj.Run(l, &RunOptions{Always: true})
			rec.mu.Lock()
			ref := append([]cbEvent(nil), rec.evs...)
			rec.mu.Unlock()
			done := make(chan error, 1)
			go func() {
				_, err := starlark.ExecFile(thread, "repl.dawn", fmt.Sprintf("run(%q, always=True)\n", target), pre)
				done <- err
			}()
			select {
			case <-done:
				base.mu.Lock()
				got := append([]cbEvent(nil), base.evs...)
				base.evs = nil
				base.mu.Unlock()
				nruns++
				events += len(got)
				sessRuns = append(sessRuns, "p:"+strconv.Itoa(len(ref)))
				baseTotal += len(got)
				if final {
					fmt.Fprintf(out, "session\t%s\t%d\t%s\n", strings.Join(sessRuns, ","), baseTotal, scJSON)
				}
				gm, gl := cbByLabel(got)
				rm, rl := cbByLabel(ref)
				if strings.Join(gl, " ") != strings.Join(rl, " ") {
					oracle("plain run of %s between or after the runs with a callback: the project's listener has events for %v, the reference project's listener for %v", target, gl, rl)
				}
				for _, l := range rl {
					a, _ := json.Marshal(gm[l])
					b, _ := json.Marshal(rm[l])
					if gm[l] != nil && string(a) != string(b) {
						oracle("plain run of %s between or after the runs with a callback: %s received %s, the reference project's listener receives %s", target, l, a, b)
					}
				}
			case <-time.After(20 * time.Second):
				oracle("plain run of %s between or after the runs with a callback did not return within 20 s", target)
				hangs++
				return false
			}
			return true
		}
		for ri, run := range sc.Runs {
			// reference
			rec.mu.Lock()
			rec.evs = nil
			rec.mu.Unlock()
			l, _ := label.Parse(run.Target)
			refErr := refProj.Run(l, &RunOptions{Always: run.Always, DryRun: run.Dry})
			rec.mu.Lock()
			ref := append([]cbEvent(nil), rec.evs...)
			rec.mu.Unlock()

			// through the callback
			recList.Clear()
			b2s := map[bool]string{false: "False", true: "True"}
			script := "def cb(event):\n    cnt[0] += 1\n" +
				"    rec.append((event.kind, getattr(event, \"label\", \"\"), getattr(event, \"line\", \"\"), getattr(event, \"err\", None)))\n" +
				cbStyleBody(sc.Style, sc.K) +
				fmt.Sprintf("\nrun(%q, always=%s, dry_run=%s, callback=cb)\n", run.Target, b2s[run.Always], b2s[run.Dry])
			done := make(chan error, 1)
			go func() {
				_, err := starlark.ExecFile(thread, "repl.dawn", script, pre)
				done <- err
			}()
			var cbErr error
			select {
			case cbErr = <-done:
			case <-time.After(20 * time.Second):
				oracle("run %d (%+v) did not return within 20 s; the callback had received %d events; a plain Events implementation receives %d for the same build",
					ri, run, recList.Len(), len(ref))
				fmt.Fprintf(out, "pump\t%s\t%d\t%d\t%s\n", raisesBits(ref), recList.Len(), len(ref)-recList.Len(), scJSON)
				hangs++
				goto nextScenario
			}
			nruns++
			sessRuns = append(sessRuns, "c:"+strconv.Itoa(len(ref)))
			base.mu.Lock()
			baseTotal += len(base.evs)
			base.evs = nil
			base.mu.Unlock()
			var got []cbEvent
			for i := 0; i < recList.Len(); i++ {
				tup := recList.Index(i).(starlark.Tuple)
				e := cbEvent{Kind: string(tup[0].(starlark.String)), Label: string(tup[1].(starlark.String)), Line: string(tup[2].(starlark.String))}
				if s, ok := tup[3].(starlark.String); ok {
					e.Err = string(s)
				}
				got = append(got, e)
			}
			events += len(got)
			// model correspondence (Build/Pump.v): the events sent, which of them make the callback raise, how many the callback
			// was called with, how many were never received
			fmt.Fprintf(out, "pump\t%s\t%d\t%d\t%s\n", raisesBits(ref), len(got), 0, scJSON)
			cntBefore += len(got)
			if (refErr == nil) != (cbErr == nil) {
				oracle("run %d (%+v): run(...) returned %v, Project.Run of the same build returns %v", ri, run, cbErr, refErr)
			}
			// run-done once and last
			nDone := 0
			for _, e := range got {
				if e.Kind == "RunDone" {
					nDone++
				}
			}
			if nDone != 1 || got[len(got)-1].Kind != "RunDone" {
				oracle("run %d (%+v): %d run-done events among %d delivered, last event %v (run-done must be delivered exactly once, last)", ri, run, nDone, len(got),
					func() any {
						if len(got) == 0 {
							return "none"
						}
						return got[len(got)-1]
					}())
			} else if refLast := ref[len(ref)-1]; refLast.Err != got[len(got)-1].Err {
				oracle("run %d (%+v): run-done carries %q, the build's error is %q", ri, run, got[len(got)-1].Err, refLast.Err)
			}
			gm, gl := cbByLabel(got)
			rm, rl := cbByLabel(ref)
			for _, l := range gl {
				if s := cbShape(gm[l]); s != "" {
					oracle("run %d (%+v): %s received [%s]: neither one up-to-date, nor evaluating / lines / one completion, nor a lone failed", ri, run, l, s)
				}
			}
			if strings.Join(gl, " ") != strings.Join(rl, " ") {
				oracle("run %d (%+v): labels with events %v, a plain Events implementation sees %v", ri, run, gl, rl)
			}
			for _, l := range rl {
				a, _ := json.Marshal(gm[l])
				b, _ := json.Marshal(rm[l])
				if gm[l] != nil && string(a) != string(b) {
					oracle("run %d (%+v): %s received %s, a plain Events implementation receives %s", ri, run, l, a, b)
				}
			}
			if ri == 0 && sc.Style%2 == 0 && len(sc.Runs) > 1 && !plainRun(run.Target, false) {
				goto nextScenario
			}
		}
		plainRun(sc.Runs[len(sc.Runs)-1].Target, true)
	nextScenario:
		info, _ := json.Marshal(map[string]any{"runs": nruns, "events": events, "style": sc.Style})
		fmt.Fprintf(out, "case\t%s/%d\t%d\t%s\n", sc.Name, sc.Style, time.Since(start).Milliseconds(), info)
	}
}
