package dawn

// Correspondence harness for C12, call-site half: where do the paths given to target(sources=..., generates=...)
// END UP on disk?  The helper-level sweep (zz_verif_c12_test.go) checks repoSourcePath/sourceLabel in isolation; this
// file drives the real `target` builtin of a really loaded project whose root is a real directory, and reads the
// resolved OS paths back from the created target (function.gens / function.sources).
//
// Input family: the project root is <tmp>/<P>/<B>.  Paths are all sequences (up to a depth bound) over a component
// vocabulary DERIVED FROM THE ROOT'S OWN LOCATION: "..", ".", "" (repeated separator), an unrelated name, the package
// directory, B itself, names that extend B (B-o, B2), a proper prefix of B, and P; each with and without a leading
// "/", from three packages.  A seeded random stream adds deeper paths over the same vocabulary plus random names.
//
// Direct oracles (independent of the model):
//   generated_path_escapes_root / source_path_escapes_root : an accepted path resolved to a location that is not the
//       root or below it (element-wise, filepath.Rel);
//   escaping_path_accepted : a relative path whose plain resolution <root>/<pkgdir>/<path> lies outside the root was
//       accepted at all;
//   source_dependency_label_unstable : the printed label under which a sources= entry is registered and depended upon
//       does not re-parse and print back to itself (LoadTarget would look up a different key);
//   entry_crashes_generates / entry_crashes_sources : target() or Load panicked on the entry (an entry is either
//       resolved inside the root or rejected with an error, never a crash).  A `begin` line is flushed before every
//       entry, so that a crash the harness cannot recover from (a panic in a goroutine of Load, a fatal error) still
//       names the entry: the check reports the last `begin` without an outcome.
// Every outcome is also written as a `site` case and recomputed by the Coq model (site_gen / site_src).

import (
	"bufio"
	"fmt"
	"math/rand"
	"os"
	"path/filepath"
	"strconv"
	"strings"
	"testing"

	"github.com/pgavlin/dawn/label"
	"go.starlark.net/starlark"
)

type c12site struct {
	proj *Project
	root string
	fn   *starlark.Function
	mods map[string]*c12siteMod
	// dependency strings (printed labels, keys of the target table) recorded by the last sources= call
	lastDeps []string
}

type c12siteMod struct {
	thread *starlark.Thread
	target starlark.Value
}

func c12inside(root, p string) bool {
	if !filepath.IsAbs(p) {
		return false
	}
	rel, err := filepath.Rel(root, p)
	if err != nil {
		return false
	}
	return rel != ".." && !strings.HasPrefix(rel, ".."+string(filepath.Separator))
}

func c12newSite(t *testing.T, root string, pkgs []string) *c12site {
	if err := os.MkdirAll(root, 0755); err != nil {
		t.Fatal(err)
	}
	if err := os.WriteFile(filepath.Join(root, "dawn.toml"), nil, 0644); err != nil {
		t.Fatal(err)
	}
	for _, p := range pkgs {
		if err := os.MkdirAll(filepath.Join(root, filepath.FromSlash(p[2:])), 0755); err != nil {
			t.Fatal(err)
		}
	}
	proj, err := Load(root, &LoadOptions{Events: DiscardEvents})
	if err != nil {
		t.Fatalf("loading empty project %v: %v", root, err)
	}
	// a Starlark function to hang the targets on
	th := &starlark.Thread{Name: "c12"}
	globals, err := starlark.ExecFile(th, "c12.star", "def body():\n    pass\n", nil)
	if err != nil {
		t.Fatal(err)
	}
	s := &c12site{proj: proj, root: root, fn: globals["body"].(*starlark.Function), mods: map[string]*c12siteMod{}}
	for _, p := range pkgs {
		// exactly what Project.loadModule + module.load do before executing a BUILD.dawn file
		l := &label.Label{Kind: "module", Package: p, Name: "BUILD.dawn"}
		m := &module{label: l, out: newLineWriter(l, proj.events)}
		thread, builtins, err := m.env(proj)
		if err != nil {
			t.Fatal(err)
		}
		s.mods[p] = &c12siteMod{thread: thread, target: builtins["target"]}
	}
	return s
}

// call runs target(name="t", <param>=[g], function=body) in package pkg and returns the resolved OS path.
func (s *c12site) call(pkg, param, g string) (res string, outcome string) {
	defer func() {
		if x := recover(); x != nil {
			res, outcome = fmt.Sprint(x), "panic"
		}
	}()
	s.proj.m.Lock()
	s.proj.targets = map[string]*runTarget{}
	s.proj.m.Unlock()
	m := s.mods[pkg]
	kwargs := []starlark.Tuple{
		{starlark.String("name"), starlark.String("t")},
		{starlark.String(param), starlark.NewList([]starlark.Value{starlark.String(g)})},
		{starlark.String("function"), s.fn},
	}
	v, err := starlark.Call(m.thread, m.target, nil, kwargs)
	if err != nil {
		return "", "err"
	}
	f, ok := v.(*function)
	if !ok {
		return fmt.Sprintf("target returned %T", v), "panic"
	}
	var got []string
	if param == "generates" {
		got = f.gens
	} else {
		got = f.sources
		s.lastDeps = append([]string(nil), f.deps...)
	}
	if len(got) != 1 {
		return fmt.Sprintf("%d paths recorded", len(got)), "panic"
	}
	return got[0], "ok"
}

// c12viaLoad resolves the same question end to end: a BUILD.dawn file on disk, Load, Target lookup.
func c12viaLoad(dir, base, pkg, param, g string) (res string, outcome string) {
	defer func() {
		if x := recover(); x != nil {
			res, outcome = fmt.Sprint(x), "panic"
		}
	}()
	root := filepath.Join(dir, base)
	pdir := filepath.Join(root, filepath.FromSlash(pkg[2:]))
	if err := os.MkdirAll(pdir, 0755); err != nil {
		return err.Error(), "panic"
	}
	os.WriteFile(filepath.Join(root, "dawn.toml"), nil, 0644)
	src := "@target(" + param + "=[" + starlark.String(g).String() + "])\ndef t():\n    pass\n"
	if err := os.WriteFile(filepath.Join(pdir, "BUILD.dawn"), []byte(src), 0644); err != nil {
		return err.Error(), "panic"
	}
	proj, err := Load(root, &LoadOptions{Events: DiscardEvents})
	if err != nil {
		return "", "err"
	}
	tgt, err := proj.Target(&label.Label{Package: pkg, Name: "t"})
	if err != nil {
		return "target not found: " + err.Error(), "panic"
	}
	f, ok := tgt.(*function)
	if !ok {
		return fmt.Sprintf("target is %T", tgt), "panic"
	}
	got := f.gens
	if param == "sources" {
		got = f.sources
	}
	if len(got) != 1 {
		return fmt.Sprintf("%d paths recorded", len(got)), "panic"
	}
	return got[0], "ok"
}

func c12vocab(parent, base string) []string {
	v := []string{"..", ".", "", "x", "s", base, base + "-o", base + "2"}
	if len(base) > 1 {
		v = append(v, base[:len(base)-1])
	}
	v = append(v, parent)
	seen := map[string]bool{}
	var out []string
	for _, c := range v {
		if !seen[c] {
			seen[c] = true
			out = append(out, c)
		}
	}
	return out
}

func c12seqs(vocab []string, depth int, f func([]string)) {
	var rec func(cur []string)
	rec = func(cur []string) {
		if len(cur) > 0 {
			f(cur)
		}
		if len(cur) == depth {
			return
		}
		for _, c := range vocab {
			rec(append(cur[:len(cur):len(cur)], c))
		}
	}
	rec(nil)
}

func TestVerifC12Sites(t *testing.T) {
	outPath := os.Getenv("VERIF_OUT_SITES")
	if outPath == "" {
		t.Skip("VERIF_OUT_SITES not set")
	}
	depth, _ := strconv.Atoi(os.Getenv("VERIF_SITE_DEPTH"))
	if depth == 0 {
		depth = 3
	}
	nroots, _ := strconv.Atoi(os.Getenv("VERIF_SITE_ROOTS"))
	if nroots == 0 {
		nroots = 2
	}
	nrand, _ := strconv.Atoi(os.Getenv("VERIF_SITE_NRAND"))
	nload, _ := strconv.Atoi(os.Getenv("VERIF_SITE_NLOAD"))
	seed, _ := strconv.ParseInt(os.Getenv("VERIF_SEED"), 10, 64)
	rng := rand.New(rand.NewSource(seed*7919 + 12))

	of, err := os.Create(outPath)
	if err != nil {
		t.Fatal(err)
	}
	defer of.Close()
	w := bufio.NewWriterSize(of, 1<<20)
	defer w.Flush()
	line := func(fields ...string) {
		w.WriteString(strings.Join(fields, "\t"))
		w.WriteByte('\n')
	}

	// a short scratch directory: every byte of the root is repeated in every case the model re-evaluates
	tmp, err := os.MkdirTemp("", "c12")
	if err != nil {
		t.Fatal(err)
	}
	defer os.RemoveAll(tmp)
	// (parent, base) of the project root: a plain name; a base that is a proper prefix of its parent's name;
	// a base with a dot; parent and base equal
	shapes := [][2]string{{"w", "proj"}, {"ab", "a"}, {"w", "r.d"}, {"p", "p"}}
	if nroots < len(shapes) {
		shapes = shapes[:nroots]
	}
	pkgs := []string{"//", "//s", "//s/t"}

	record := func(kind, root, pkg, g string, resolve func(param string) (string, string)) {
		line("begin", c12hx(root), c12hx(pkg), c12hx(g))
		w.Flush()
		gp, go_ := resolve("generates")
		sp, so := resolve("sources")
		if go_ == "panic" {
			line("ORACLE", "entry_crashes_generates", c12hx(root), c12hx(pkg), c12hx(g), c12hx(gp))
		}
		if so == "panic" {
			line("ORACLE", "entry_crashes_sources", c12hx(root), c12hx(pkg), c12hx(g), c12hx(sp))
		}
		if go_ == "panic" || so == "panic" {
			line("end")
			return
		}
		line(kind, c12hx(root), c12hx(pkg), c12hx(g), go_, c12hx(gp), so, c12hx(sp))
		defer line("end")
		if go_ == "ok" && !c12inside(root, gp) {
			line("ORACLE", "generated_path_escapes_root", c12hx(root), c12hx(pkg), c12hx(g), c12hx(gp))
		}
		if so == "ok" && !c12inside(root, sp) {
			line("ORACLE", "source_path_escapes_root", c12hx(root), c12hx(pkg), c12hx(g), c12hx(sp))
		}
		if g != "" && g[0] != '/' && !c12inside(root, filepath.Join(root, filepath.FromSlash(pkg[2:]), filepath.FromSlash(g))) {
			if go_ == "ok" {
				line("ORACLE", "escaping_path_accepted_generates", c12hx(root), c12hx(pkg), c12hx(g), c12hx(gp))
			}
			if so == "ok" {
				line("ORACLE", "escaping_path_accepted_sources", c12hx(root), c12hx(pkg), c12hx(g), c12hx(sp))
			}
		}
	}

	for si, sh := range shapes {
		root := filepath.Join(tmp, strconv.Itoa(si), sh[0], sh[1])
		site := c12newSite(t, root, pkgs)
		vocab := c12vocab(sh[0], sh[1])
		var all []string
		d := depth // the full depth at the first root, one less at the others
		if si >= 1 && d > 2 {
			d--
		}
		c12seqs(vocab, d, func(comps []string) {
			rel := strings.Join(comps, "/")
			all = append(all, rel, "/"+rel)
		})
		// seeded stream: deeper paths, random names next to the vocabulary
		for i := 0; i < nrand; i++ {
			n := 4 + rng.Intn(5)
			comps := make([]string, n)
			for j := range comps {
				if rng.Intn(6) == 0 {
					b := make([]byte, 1+rng.Intn(3))
					for k := range b {
						b[k] = "abpr.-_ o"[rng.Intn(9)]
					}
					comps[j] = string(b)
				} else {
					comps[j] = vocab[rng.Intn(len(vocab))]
				}
			}
			rel := strings.Join(comps, "/")
			if rng.Intn(4) == 0 {
				rel = "/" + rel
			}
			all = append(all, rel)
		}
		seenG := map[string]bool{}
		for _, g := range all {
			if seenG[g] {
				continue
			}
			seenG[g] = true
			for _, pkg := range pkgs {
				site.lastDeps = nil
				record("site", root, pkg, g, func(param string) (string, string) { return site.call(pkg, param, g) })
				// the source file is registered and depended upon under its PRINTED label; LoadTarget re-parses that
				// string: it must name the same label, and print back to the same key
				// (same eligibility as everywhere in C12: the label has a name, or no kind -- sources=["/"] yields the
				// name-less source://, which the syntax cannot spell and the property excludes)
				for _, dep := range site.lastDeps {
					rt, ok := site.proj.targets[dep]
					if !ok {
						line("ORACLE", "source_dependency_label_unstable", c12hx(root), c12hx(pkg), c12hx(g), c12hx(dep))
						continue
					}
					l := rt.target.Label()
					if l.Name == "" && l.Kind != "" {
						continue
					}
					l2, perr := label.Parse(dep)
					if perr != nil || *l2 != *l || l2.String() != dep {
						line("ORACLE", "source_dependency_label_unstable", c12hx(root), c12hx(pkg), c12hx(g), c12hx(dep))
					}
				}
			}
		}
		// the same question end to end (BUILD.dawn on disk -> Load -> Target): every single-component entry from
		// every package (enumerated: holds the entries that name the root or a package directory itself), then a
		// seeded sample of the rest
		type e2e struct{ pkg, g string }
		var loads []e2e
		c12seqs(vocab, 1, func(comps []string) {
			for _, pkg := range pkgs {
				loads = append(loads, e2e{pkg, comps[0]}, e2e{pkg, "/" + comps[0]})
			}
		})
		for i := 0; i < nload; i++ {
			loads = append(loads, e2e{pkgs[rng.Intn(len(pkgs))], all[rng.Intn(len(all))]})
		}
		for i, l := range loads {
			g, pkg := l.g, l.pkg
			dir := filepath.Join(tmp, "l", strconv.Itoa(si), strconv.Itoa(i), sh[0])
			lroot := filepath.Join(dir, sh[1])
			record("site", lroot, pkg, g, func(param string) (string, string) { return c12viaLoad(dir, sh[1], pkg, param, g) })
			os.RemoveAll(filepath.Join(tmp, "l", strconv.Itoa(si), strconv.Itoa(i)))
		}
	}
}
