package dawn

import (
	"bufio"
	"encoding/json"
	"fmt"
	"math/rand"
	"os"
	"os/exec"
	"path/filepath"
	"sort"
	"strconv"
	"strings"
	"sync"
)

// ---------------------------------------------------------------------------------------------
// generation

func newEngProject(rng *rand.Rand) *engProject {
	p := &engProject{Targets: map[int]*engTarget{}, Sources: map[int]*engSource{}, Paths: map[int]string{}, Pad: map[string]int{},
		nextID: 1, nextPath: 1, nextLit: 1, envIDs: map[string]int{}, HelperVer: 1}
	p.Pkgs = []string{""}
	for _, c := range []string{"p1", "p2", "p1/q"} {
		if rng.Intn(2) == 0 {
			p.Pkgs = append(p.Pkgs, c)
		}
	}
	for _, pkg := range p.Pkgs {
		p.Pad[pkg] = 0
	}
	return p
}

func (p *engProject) newPath(rel string) int {
	id := p.nextPath
	p.nextPath++
	p.Paths[id] = rel
	return id
}

func pkgJoin(pkg, name string) string {
	if pkg == "" {
		return name
	}
	return pkg + "/" + name
}

func (r *engRun) addSource(pkg string) int {
	p := r.p
	id := 1000 + len(p.Sources)
	path := p.newPath(pkgJoin(pkg, fmt.Sprintf("s%d.txt", id)))
	p.Sources[id] = &engSource{ID: id, Path: path}
	return id
}

// a source directory: the model sees its whole state (names and contents) as one literal, interned per state
func (r *engRun) addSourceDir(pkg string) int {
	p := r.p
	id := 1000 + len(p.Sources)
	path := p.newPath(pkgJoin(pkg, fmt.Sprintf("d%d", id)))
	p.Sources[id] = &engSource{ID: id, Path: path, Dir: map[string]int{}}
	os.MkdirAll(filepath.Join(r.root, p.Paths[path]), 0755)
	for i := 0; i < 2; i++ {
		r.dirPut(p.Sources[id], fmt.Sprintf("f%d.c", i))
	}
	if r.rng.Intn(2) == 0 {
		r.dirLink(p.Sources[id], "l0.c", true)
	}
	return id
}

// dirLink makes (or re-points, or edits the file behind) a symbolic link inside a source directory: the entry's content
// is what the link leads to, a file outside the directory. fresh: point the link at a new file; otherwise rewrite the
// file it points at.
func (r *engRun) dirLink(s *engSource, name string, fresh bool) {
	lit := r.p.nextLit
	r.p.nextLit++
	pool := filepath.Join(r.root, ".linkpool")
	os.MkdirAll(pool, 0755)
	link := filepath.Join(r.root, r.p.Paths[s.Path], name)
	if cur, err := os.Readlink(link); err == nil && !fresh {
		os.WriteFile(cur, []byte(fmt.Sprintf("lit-%d\n", lit)), 0644)
	} else {
		target := filepath.Join(pool, fmt.Sprintf("s%d-%d.txt", s.ID, lit))
		os.WriteFile(target, []byte(fmt.Sprintf("lit-%d\n", lit)), 0644)
		os.Remove(link)
		os.Symlink(target, link)
	}
	if s.Links == nil {
		s.Links = map[string]bool{}
	}
	s.Links[name] = true
	s.Dir[name] = lit
}

func (r *engRun) dirPut(s *engSource, name string) {
	lit := r.p.nextLit
	r.p.nextLit++
	s.Dir[name] = lit
	os.WriteFile(filepath.Join(r.root, r.p.Paths[s.Path], name), []byte(fmt.Sprintf("lit-%d\n", lit)), 0644)
}

// dirState returns the literal id that stands for the directory's present state (equal states, equal ids)
func (r *engRun) dirState(s *engSource) int {
	var names []string
	for n := range s.Dir {
		names = append(names, n)
	}
	sort.Strings(names)
	key := ""
	for _, n := range names {
		key += fmt.Sprintf("%s=%d;", n, s.Dir[n])
	}
	if r.dirStates == nil {
		r.dirStates = map[string]int{}
	}
	if id, ok := r.dirStates[key]; ok {
		return id
	}
	id := 1000000 + len(r.dirStates)
	r.dirStates[key] = id
	return id
}

func (r *engRun) emitDir(s *engSource, note string) {
	lit := r.dirState(s)
	r.litOf[s.Path] = lit
	r.emitFile(s.Path, lit, note)
}

func (r *engRun) writeLit(path int) int {
	lit := r.p.nextLit
	r.p.nextLit++
	full := filepath.Join(r.root, r.p.Paths[path])
	os.MkdirAll(filepath.Dir(full), 0755)
	os.WriteFile(full, []byte(fmt.Sprintf("lit-%d\n", lit)), 0644)
	r.litOf[path] = lit
	return lit
}

func (r *engRun) addTarget() *engTarget {
	p, rng := r.p, r.rng
	pkg := p.Pkgs[rng.Intn(len(p.Pkgs))]
	id := p.nextID
	p.nextID++
	t := &engTarget{ID: id, Pkg: pkg, Name: fmt.Sprintf("t%d", id), K: 1 + rng.Intn(5), Style: rng.Intn(5), Helper: rng.Intn(3) == 0}
	if t.Style == 2 {
		t.Helper = true
	}
	// distinct per target (no two equal integer constants in one file), in every pickle width class
	t.K = []int{1, 20, 40, 240, 300, 556, 65520}[rng.Intn(7)] + id
	var earlier []int
	for e := range p.Targets {
		earlier = append(earlier, e)
	}
	sort.Ints(earlier)
	for _, e := range earlier {
		if rng.Intn(3) == 0 && len(t.Deps) < 3 {
			t.Deps = append(t.Deps, e)
		}
	}
	var sids []int
	for s := range p.Sources {
		sids = append(sids, s)
	}
	sort.Ints(sids)
	for _, s := range sids {
		if rng.Intn(3) == 0 && len(t.Srcs) < 3 {
			t.Srcs = append(t.Srcs, s)
		}
	}
	if len(t.Srcs) == 0 && rng.Intn(2) == 0 {
		s := r.addSource(pkg)
		r.writeLit(p.Sources[s].Path)
		t.Srcs = append(t.Srcs, s)
	}
	if rng.Intn(5) == 0 {
		s := r.addSourceDir(pkg)
		r.litOf[p.Sources[s].Path] = r.dirState(p.Sources[s])
		t.Srcs = append(t.Srcs, s)
	}
	// a generated file of an earlier target consumed as a declared source
	if len(earlier) > 0 && rng.Intn(4) == 0 {
		e := p.Targets[earlier[rng.Intn(len(earlier))]]
		if len(e.Gens) > 0 {
			g := e.Gens[rng.Intn(len(e.Gens))]
			sid := -1
			for _, s := range p.Sources {
				if s.Path == g {
					sid = s.ID
				}
			}
			if sid < 0 {
				sid = 1000 + len(p.Sources)
				p.Sources[sid] = &engSource{ID: sid, Path: g}
			}
			has := false
			for _, s := range t.Srcs {
				has = has || s == sid
			}
			if !has {
				t.Srcs = append(t.Srcs, sid)
			}
		}
	}
	ng := rng.Intn(3)
	for i := 0; i < ng; i++ {
		t.Gens = append(t.Gens, p.newPath(pkgJoin(pkg, fmt.Sprintf("t%d.out%d", id, i))))
	}
	t.Always = rng.Intn(12) == 0
	p.Targets[id] = t
	return t
}

func (r *engRun) reaches(from, to int) bool {
	if from == to {
		return true
	}
	t, ok := r.p.Targets[from]
	if !ok {
		return false
	}
	for _, d := range t.Deps {
		if r.reaches(d, to) {
			return true
		}
	}
	// through generated sources
	for _, s := range t.Srcs {
		for _, g := range r.p.Targets {
			for _, gp := range g.Gens {
				if gp == r.p.Sources[s].Path && r.reaches(g.ID, to) {
					return true
				}
			}
		}
	}
	return false
}

func (r *engRun) closure(root int) map[int]bool {
	out := map[int]bool{}
	var walk func(int)
	walk = func(id int) {
		if out[id] {
			return
		}
		t, ok := r.p.Targets[id]
		if !ok {
			return
		}
		out[id] = true
		for _, d := range t.Deps {
			walk(d)
		}
		for _, s := range t.Srcs {
			for _, g := range r.p.Targets {
				for _, gp := range g.Gens {
					if gp == r.p.Sources[s].Path {
						walk(g.ID)
					}
				}
			}
		}
	}
	walk(root)
	return out
}

func (r *engRun) sortedTargets() []int {
	var ids []int
	for id := range r.p.Targets {
		ids = append(ids, id)
	}
	sort.Ints(ids)
	return ids
}

func (r *engRun) emitProj(note string) {
	if err := r.p.render(r.root); err != nil {
		r.t.Fatal(err)
	}
	r.noteLabels()
	r.dirty = true
	r.h.Ops = append(r.h.Ops, mOp{Op: "proj", Proj: r.p.model(), Note: note})
}

func (r *engRun) emitFile(path, lit int, note string) {
	r.h.Ops = append(r.h.Ops, mOp{Op: "file", Path: path, Lit: lit, Note: note})
}

// ---------------------------------------------------------------------------------------------
// builds

func copyTree(src, dst string, withState bool) error {
	args := []string{"-a", src + "/.", dst}
	if err := os.MkdirAll(dst, 0755); err != nil {
		return err
	}
	if out, err := exec.Command("cp", args...).CombinedOutput(); err != nil {
		return fmt.Errorf("cp: %v: %s", err, out)
	}
	os.Remove(filepath.Join(dst, ".exec.log"))
	os.Remove(filepath.Join(dst, ".hooks.log"))
	if !withState {
		os.RemoveAll(filepath.Join(dst, ".dawn"))
	}
	return nil
}

func (r *engRun) eventsByLabel(rep *engReport) (map[string][]string, []engEvent) {
	by := map[string][]string{}
	var run []engEvent
	inRun := false
	for _, e := range rep.Events {
		if e.Kind == "LoadDone" {
			// the events of the (last) run follow the last load of the process (a Reload loads again)
			inRun = true
			by, run = map[string][]string{}, nil
			continue
		}
		if !inRun || strings.HasPrefix(e.Kind, "Module") {
			continue
		}
		run = append(run, e)
		if e.Kind == "Print" || e.Kind == "RunDone" {
			continue
		}
		id := r.labelIDAny(e.Label)
		by[strconv.Itoa(id)] = append(by[strconv.Itoa(id)], e.Kind)
	}
	return by, run
}

// protocol oracle (C18) on one build's run-phase events
func (r *engRun) checkProtocol(run []engEvent, ranIDs []int, mode string, runErr string, lbl string) {
	state := map[string]string{} // label -> "", "evaluating", "done"
	doneAt := -1
	for i, e := range run {
		switch e.Kind {
		case "RunDone":
			if doneAt >= 0 {
				r.oracle("C18 run-done delivered twice")
			}
			doneAt = i
			if e.Text != runErr {
				r.oracle("C18 run-done error %q differs from Run's result %q", e.Text, runErr)
			}
		case "UpToDate":
			if state[e.Label] != "" {
				r.oracle("C18 %s: up-to-date after %s", e.Label, state[e.Label])
			}
			state[e.Label] = "done"
		case "Evaluating":
			if state[e.Label] != "" {
				r.oracle("C18 %s: evaluating after %s", e.Label, state[e.Label])
			}
			state[e.Label] = "evaluating"
		case "Succeeded":
			if state[e.Label] != "evaluating" {
				r.oracle("C18 %s: succeeded without evaluating (state %q)", e.Label, state[e.Label])
			}
			state[e.Label] = "done"
		case "Failed":
			if state[e.Label] == "done" {
				r.oracle("C18 %s: failed after completion", e.Label)
			}
			state[e.Label] = "done"
		case "Print":
			if state[e.Label] != "evaluating" {
				r.oracle("C18 %s: output line %q outside evaluating..completion (state %q)", e.Label, e.Text, state[e.Label])
			}
		}
		if doneAt >= 0 && i > doneAt {
			r.oracle("C18 event %s %s after run-done", e.Kind, e.Label)
		}
	}
	if doneAt < 0 {
		r.oracle("C18 run-done never delivered")
	}
	for l, s := range state {
		if s == "evaluating" {
			r.oracle("C18 %s: evaluating never completed", l)
		}
	}
	// 'evaluating' exactly when the body runs (or would, in a dry run)
	evalFn := map[int]bool{}
	for _, e := range run {
		if e.Kind == "Evaluating" && !strings.HasPrefix(e.Label, "source:") {
			evalFn[r.labelIDAny(e.Label)] = true
		}
	}
	ranSet := map[int]bool{}
	if mode != "dry" {
		for _, id := range ranIDs {
			if ranSet[id] {
				r.oracle("C04 body of %d executed twice in one build", id)
			}
			ranSet[id] = true
		}
		for id := range evalFn {
			if !ranSet[id] {
				r.oracle("C18 %d reported evaluating but its body did not run", id)
			}
		}
		for id := range ranSet {
			if !evalFn[id] {
				r.oracle("C18 body of %d ran without an evaluating event", id)
			}
		}
	} else if len(ranIDs) != 0 {
		r.oracle("C13 dry run executed bodies %v", ranIDs)
	}
	// each executed body prints its command line and one partial line: delivered exactly once, in order
	for id := range evalFn {
		if mode == "dry" {
			continue
		}
		l := r.p.label(id)
		var lines []string
		for _, e := range run {
			if e.Kind == "Print" && e.Label == l {
				lines = append(lines, e.Text)
			}
		}
		failed := false
		for _, e := range run {
			if e.Kind == "Failed" && e.Label == l {
				failed = true
			}
		}
		if !failed {
			if len(lines) != 2 || !strings.HasPrefix(lines[0], "sh ") || lines[1] != "out-"+l {
				r.oracle("C18 %s: output lines %q, want [command, out-%s]", l, lines, l)
			}
		} else if ranSet[id] {
			// a failing body's last words are an unterminated line: delivered too, exactly once, before the failure event
			if len(lines) != 2 || !strings.HasPrefix(lines[0], "sh ") || lines[1] != "body of "+l+" fails" {
				r.oracle("C18 %s (failing body): output lines %q, want [command, body of %s fails]", l, lines, l)
			}
			seenFailed := false
			for _, e := range run {
				if e.Label != l {
					continue
				}
				if e.Kind == "Failed" {
					seenFailed = true
				} else if e.Kind == "Print" && seenFailed {
					r.oracle("C18 %s: output delivered after the failure event", l)
				}
			}
		}
	}
}

func (r *engRun) build(label int, mode string, fail []int, crash string, note string) *mObs {
	lbl := r.p.label(label)
	_, r.execPos = readLines(filepath.Join(r.root, ".exec.log"), 0)
	_, r.hookPos = readLines(filepath.Join(r.root, ".hooks.log"), 0)
	rep, code, hung := r.child(mode, lbl, fail, crash)
	if rep != nil && rep.LoadErr == "" {
		r.dirty = false
	}
	ranLines, _ := readLines(filepath.Join(r.root, ".exec.log"), r.execPos)
	var ran []int
	for _, l := range ranLines {
		ran = append(ran, r.labelIDAny(l))
	}
	sort.Ints(ran)
	obs := &mObs{Ran: ran, Events: map[string][]string{}}
	op := mOp{Op: "build", Label: label, Mode: mode, Fail: fail, Crash: crash, Note: note, Obs: obs}
	if hung {
		r.oracle("C05 build of %s hung (mode %s)", lbl, mode)
	}
	if crash != "" && (code == 137 || (strings.HasPrefix(crash, "partial|") && rep == nil)) {
		obs.Kind = "crash"
		hooks, _ := readLines(filepath.Join(r.root, ".hooks.log"), r.hookPos)
		phase := ""
		renames := map[int]int{}
		for _, h := range hooks {
			f := strings.Split(h, "\t")
			switch {
			case f[0] == "phase":
				phase = f[1]
			case f[0] == "eval.before_body" && phase == "run":
				obs.Started = append(obs.Started, r.labelIDAny(f[1]))
			case f[0] == "save.renamed" && phase == "run":
				// the first rename of a function target's record in the run phase is its re-run mark, the second its
				// final (success or failure) record; a source file's record is renamed once. A record that has been
				// renamed is in place even when the process dies before Evaluate returns.
				id := r.labelIDAny(f[1])
				renames[id]++
				if id < 1000 && renames[id] == 1 {
					obs.Premarked = append(obs.Premarked, id)
				} else if renames[id] == 1 || (id < 1000 && renames[id] == 2) {
					obs.Recorded = append(obs.Recorded, id)
				}
			case f[0] == "eval.recorded" && phase == "run":
				id := r.labelIDAny(f[1])
				have := false
				for _, x := range obs.Recorded {
					have = have || x == id
				}
				if !have {
					obs.Recorded = append(obs.Recorded, id)
				}
			}
		}
		if phase == "load" {
			obs.Kind = "crash-load"
		}
		sort.Ints(obs.Started)
		sort.Ints(obs.Recorded)
		sort.Ints(obs.Premarked)
	} else if rep == nil {
		obs.Kind = "died"
	} else {
		obs.Kind = "build"
		obs.LoadErr = rep.LoadErr != ""
		obs.OK = rep.LoadErr == "" && rep.RunErr == ""
		by, run := r.eventsByLabel(rep)
		if os.Getenv("VERIF_DEBUG") != "" {
			fmt.Fprintf(os.Stderr, "DEBUG %s %s %s: %+v\n", note, mode, lbl, run)
		}
		obs.Events = by
		obs.Reasons = map[string]string{}
		for _, e := range run {
			if e.Kind == "Evaluating" || e.Kind == "Failed" {
				obs.Reasons[strconv.Itoa(r.labelIDAny(e.Label))] = e.Text
			}
		}
		if rep.LoadErr != "" {
			r.oracle("load failed: %s", rep.LoadErr)
		} else {
			r.checkProtocol(run, ran, mode, rep.RunErr, lbl)
			if mode == "dry" && rep.HashBefore != rep.HashAfter {
				r.oracle("C13 dry run of %s changed the tree (files or persisted state)", lbl)
			}
		}
	}
	recs, unknown := r.records()
	obs.Recs = recs
	for _, u := range unknown {
		if strings.HasPrefix(u, "unparsable:") {
			r.oracle("C03 record %s is not loadable JSON", u)
		}
	}
	r.h.Ops = append(r.h.Ops, op)
	return obs
}

// staleness oracle (C01): the generated files of the closure equal those of a from-scratch build of the same tree
func (r *engRun) checkClean(label int) { r.checkCleanAs(label, "") }

// checkCleanAs: class is "" or the name of a class of histories whose staleness is reported apart ("[class]" in the oracle
// text; the python driver turns it into the known-findings key of that class)
func (r *engRun) checkCleanAs(label int, class string) {
	tmp, err := os.MkdirTemp(filepath.Dir(r.root), "clean-")
	if err != nil {
		return
	}
	defer os.RemoveAll(tmp)
	if err := copyTree(r.root, tmp, false); err != nil {
		r.oracle("harness: %v", err)
		return
	}
	// a from-scratch build starts without generated files
	for _, t := range r.p.Targets {
		for _, g := range t.Gens {
			os.Remove(filepath.Join(tmp, r.p.Paths[g]))
		}
	}
	saved := r.root
	r.root = tmp
	rep, _, _ := r.child("build", r.p.label(label), nil, "")
	r.root = saved
	if rep == nil || rep.LoadErr != "" || rep.RunErr != "" {
		// the clean build fails (e.g. a declared source that only exists as a stale generated file): nothing to compare
		return
	}
	for id := range r.closure(label) {
		for _, g := range r.p.Targets[id].Gens {
			a, _ := os.ReadFile(filepath.Join(r.root, r.p.Paths[g]))
			b, _ := os.ReadFile(filepath.Join(tmp, r.p.Paths[g]))
			if string(a) != string(b) {
				if class != "" {
					r.oracle("C01 stale [%s]: %s of %s differs from a from-scratch build", class, r.p.Paths[g], r.p.label(id))
				} else {
					r.oracle("C01 stale: %s of %s differs from a from-scratch build", r.p.Paths[g], r.p.label(id))
				}
			}
		}
	}
}

var _ = bufio.NewReader
var _ = json.Marshal
var _ sync.Mutex
