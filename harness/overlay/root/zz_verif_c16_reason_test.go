package dawn

// Correspondence harness for the reason string of C16 (function.go: diffEnv).  Added through `go test -overlay`.
// Writes to $VERIF_OUT:
//   E \t <class> \t <stamp 0=error 1=equal 2=differs> \t <oldEnv> \t <newEnv> \t <ok|err|panic> \t <uptodate 0/1> \t <hex reason>
//   ORACLE \t <name> \t <oldEnv> \t <newEnv> \t <reason>

import (
	"bufio"
	"encoding/hex"
	"fmt"
	"math/rand"
	"os"
	"runtime"
	"sort"
	"strconv"
	"strings"
	"sync"
	"sync/atomic"
	"testing"
	"time"

	"github.com/pgavlin/dawn/diff"
	"go.starlark.net/starlark"
)

func c16rval(v starlark.Value) string {
	switch v := v.(type) {
	case starlark.NoneType:
		return "vN"
	case starlark.Int:
		n, _ := v.Int64()
		return fmt.Sprintf("(vI %d)", n)
	case starlark.Float:
		if t := 2 * float64(v); t == float64(int64(t)) && t >= 0 && t < 1<<52 && !(t == 0 && 1/t < 0) {
			return fmt.Sprintf("(vF (fH %d))", int64(t)) // the non-negative multiples of one half; others are not generated
		}
		return "<?float>"
	case starlark.String:
		parts := make([]string, len(v))
		for i := 0; i < len(v); i++ {
			parts[i] = strconv.Itoa(int(v[i]))
		}
		return "(vS [" + strings.Join(parts, ";") + "])"
	case starlark.Tuple:
		parts := make([]string, len(v))
		for i, e := range v {
			parts[i] = c16rval(e)
		}
		return "(vT [" + strings.Join(parts, ";") + "])"
	case *starlark.Dict:
		var parts []string
		for _, it := range v.Items() {
			parts = append(parts, "("+c16rval(it[0])+","+c16rval(it[1])+")")
		}
		return "(vM [" + strings.Join(parts, ";") + "])"
	}
	return "<?" + v.Type() + ">"
}

// mode 0: no callable (stamp() fails, as for a hand-built function value); 1: a real callable whose stamp
// differs from the recorded one; 2: a real callable whose stamp equals the recorded one.
func c16mkFunction(o, n starlark.Value, mode int) (f *function, stampState int) {
	f = &function{oldEnv: o, newEnv: n}
	if mode > 0 {
		globals, xerr := starlark.ExecFile(&starlark.Thread{}, "c16.star", "def f(x):\n  return x + 1\n", nil)
		if xerr != nil {
			panic(xerr)
		}
		f.function = globals["f"].(*starlark.Function)
		st, serr := f.stamp()
		if serr != nil {
			panic(serr)
		}
		if mode == 2 {
			f.targetInfo.Data = st
		} else {
			f.targetInfo.Data = st + "x"
		}
	}
	func() {
		defer func() {
			if recover() != nil {
				stampState = 0
			}
		}()
		if st, serr := f.stamp(); serr != nil {
			stampState = 0
		} else if st == f.targetInfo.Data {
			stampState = 1
		} else {
			stampState = 2
		}
	}()
	return
}

// c16diffKeys lists the functionEnvKeys for which the diff returned next to the reason has an edit ("-" = no
// mapping diff was returned).
func c16diffKeys(d diff.ValueDiff) string {
	md, ok := d.(*diff.MappingDiff)
	if !ok || md == nil {
		return "-"
	}
	var ks []string
	for _, k := range functionEnvKeys {
		if md.Has(k) {
			ks = append(ks, string(k))
		}
	}
	return strings.Join(ks, "|")
}

// c16obs is everything diffEnv reports for one target.
type c16obs struct {
	up       bool
	reason   string
	diffKeys string
	st       string // ok | err | panic
	detail   string
	diffText string // the whole diff handed out with the reason, rendered (old/new values, nested edits)
}

func c16diffText(d diff.ValueDiff) (s string) {
	defer func() {
		if x := recover(); x != nil {
			s = fmt.Sprint("rendering the diff panics: ", x)
		}
	}()
	if d == nil {
		return ""
	}
	return d.String()
}

// c16short shows where two renderings part.
func c16short(got, want string) string {
	if got == want {
		return "same nested diff"
	}
	i := 0
	for i < len(got) && i < len(want) && got[i] == want[i] {
		i++
	}
	cut := func(x string) string {
		lo := i - 40
		if lo < 0 {
			lo = 0
		}
		hi := i + 80
		if hi > len(x) {
			hi = len(x)
		}
		return x[lo:hi]
	}
	return fmt.Sprintf("nested diff differs at byte %d: concurrent ...%s... alone ...%s...", i, cut(got), cut(want))
}

func c16callDiffEnv(f *function) (r c16obs) {
	defer func() {
		if x := recover(); x != nil {
			r.st, r.detail = "panic", fmt.Sprint(x)
		}
	}()
	up, reason, d, err := f.diffEnv()
	r = c16obs{up: up, reason: reason, diffKeys: c16diffKeys(d), st: "ok", diffText: c16diffText(d)}
	if err != nil {
		r.st, r.detail = "err", err.Error()
	}
	return
}

// c16reasonParts reads a reason back into the parts it names: "<a> changed", "<a> and <b> changed", "<a>, <b>, and <c>
// changed"; the generic "environment changed" names none.  ok = the text has that form.
func c16reasonParts(reason string) (parts []string, ok bool) {
	if !strings.HasSuffix(reason, " changed") {
		return nil, false
	}
	s := strings.TrimSuffix(reason, " changed")
	switch {
	case s == "environment":
		return nil, true
	case strings.Contains(s, ", and "):
		i := strings.LastIndex(s, ", and ")
		parts = append(strings.Split(s[:i], ", "), s[i+len(", and "):])
	case strings.Contains(s, " and "):
		parts = strings.SplitN(s, " and ", 2)
	default:
		parts = []string{s}
	}
	return parts, true
}

// c16reasonNames: the reason is "<parts> changed" and the parts it names are exactly the keys in want -- every key in
// want (listed in functionEnvKeys or not: a part of the environment that differs and that the reason has no name for
// is a part it does not name), no key outside it, none twice.
func c16reasonNames(reason string, want map[string]bool) bool {
	parts, ok := c16reasonParts(reason)
	if !ok {
		return false
	}
	seen := map[string]bool{}
	for _, p := range parts {
		if !want[p] || seen[p] {
			return false
		}
		seen[p] = true
	}
	for k, w := range want {
		if w && !seen[k] {
			return false
		}
	}
	return true
}

// A c16target is one target of a concurrent schedule: its function value, what a check of it alone reported, and
// the keys at which its two environments differ (nil = not applicable).
type c16target struct {
	name      string
	f         *function
	alone     c16obs
	differing map[string]bool
	check     func(f *function) c16obs
}

// c16siblings checks the targets the way the runner does: every target on a goroutine of its own (runner.target.start
// -> go t.run -> runTarget.Evaluate -> upToDate -> diffEnv), all at the same time.  A schedule is (workers, procs,
// seed): the targets are dealt to `workers` goroutines (no target is ever checked by two goroutines at once, exactly
// as in a build), every goroutine checks its targets in a seeded order of its own, over and over, until `budget` has
// passed, with GOMAXPROCS = procs.  What is reported for a target must be what was reported for it alone.
// Returns (checks made, failures); at most `keep` failures are described through report.
func c16siblings(targets []c16target, workers, procs int, seed int64, budget time.Duration, keep int,
	report func(t *c16target, got c16obs, sched string)) (int64, int64) {

	if workers > len(targets) {
		workers = len(targets)
	}
	if workers < 2 {
		return 0, 0
	}
	prev := runtime.GOMAXPROCS(procs)
	defer runtime.GOMAXPROCS(prev)
	sched := fmt.Sprintf("workers=%d GOMAXPROCS=%d seed=%d", workers, procs, seed)

	var (
		wg              sync.WaitGroup
		start           = make(chan struct{})
		checks, failed  int64
		m               sync.Mutex
		deadline        = time.Now().Add(budget)
	)
	for g := 0; g < workers; g++ {
		var mine []*c16target
		for i := g; i < len(targets); i += workers {
			mine = append(mine, &targets[i])
		}
		rng := rand.New(rand.NewSource(seed*1000 + int64(g)))
		wg.Add(1)
		go func(mine []*c16target, rng *rand.Rand) {
			defer wg.Done()
			<-start
			n := int64(0)
			for time.Now().Before(deadline) && atomic.LoadInt64(&failed) < int64(keep) {
				rng.Shuffle(len(mine), func(i, j int) { mine[i], mine[j] = mine[j], mine[i] })
				for _, t := range mine {
					got := t.check(t.f)
					n++
					if got != t.alone || (t.differing != nil && got.st == "ok" && !got.up && !c16reasonNames(got.reason, t.differing)) {
						if atomic.AddInt64(&failed, 1) <= int64(keep) {
							m.Lock()
							report(t, got, sched)
							m.Unlock()
						}
					}
				}
			}
			atomic.AddInt64(&checks, n)
		}(mine, rng)
	}
	close(start)
	wg.Wait()
	return checks, failed
}

func c16wantKeys(differing map[string]bool) string {
	var ks []string
	listed := map[string]bool{}
	for _, k := range functionEnvKeys {
		listed[string(k)] = true
		if differing[string(k)] {
			ks = append(ks, string(k))
		}
	}
	var others []string
	for k, d := range differing {
		if d && !listed[k] {
			others = append(others, k)
		}
	}
	sort.Strings(others)
	return strings.Join(append(ks, others...), "|")
}

// c16diffKeysAll lists EVERY key for which the diff returned next to the reason has an edit: the keys of
// functionEnvKeys first, in that order, then the others sorted ("-" = no mapping diff was returned).
func c16diffKeysAll(d diff.ValueDiff) string {
	md, ok := d.(*diff.MappingDiff)
	if !ok || md == nil {
		return "-"
	}
	has := map[string]bool{}
	it := md.Edits().Iterate()
	defer it.Done()
	var k starlark.Value
	for it.Next(&k) {
		if s, ok := k.(starlark.String); ok {
			has[string(s)] = true
		} else {
			has[k.String()] = true
		}
	}
	return c16wantKeys(has)
}

func TestVerifC16Reason(t *testing.T) {
	outPath := os.Getenv("VERIF_OUT")
	if outPath == "" {
		t.Skip("VERIF_OUT not set")
	}
	f, err := os.Create(outPath)
	if err != nil {
		t.Fatal(err)
	}
	defer f.Close()
	w := bufio.NewWriter(f)
	defer w.Flush()

	nk := len(functionEnvKeys)
	for _, k := range functionEnvKeys {
		fmt.Fprintf(w, "KEY\t%s\n", hex.EncodeToString([]byte(k)))
	}
	cases, oracles := 0, 0

	mode := 0
	var pool []c16target
	emit := func(class string, o, n starlark.Value, differing map[string]bool, dictCase bool) {
		cases++
		fn, sei := c16mkFunction(o, n, mode)
		obs := c16callDiffEnv(fn)
		up, reason, st, p := obs.up, obs.reason, obs.st, obs.detail
		if dictCase {
			pool = append(pool, c16target{name: class, f: fn, alone: obs, differing: differing, check: c16callDiffEnv})
		} else {
			pool = append(pool, c16target{name: class, f: fn, alone: obs, check: c16callDiffEnv})
		}
		u := 0
		if up {
			u = 1
		}
		fmt.Fprintf(w, "E\t%s\t%d\t%s\t%s\t%s\t%d\t%s\n", class, sei, c16rval(o), c16rval(n), st, u, hex.EncodeToString([]byte(reason)))
		if st != "ok" {
			oracles++
			fmt.Fprintf(w, "ORACLE\t%s\t%s\t%s\t%s\n", st, c16rval(o), c16rval(n), p)
			return
		}
		if !dictCase || sei == 1 {
			return
		}
		// oracle: the reason names exactly the listed keys that differ
		eq, _ := starlark.Equal(o, n)
		if (sei == 0 && up != eq) || (sei == 2 && up) {
			oracles++
			fmt.Fprintf(w, "ORACLE\tup-to-date-iff-equal\t%s\t%s\t%s\n", c16rval(o), c16rval(n), reason)
		}
		if eq {
			return
		}
		if !c16reasonNames(reason, differing) {
			oracles++
			fmt.Fprintf(w, "ORACLE\treason-names-exactly-differing-keys\t%s\t%s\t%s\n", c16rval(o), c16rval(n), reason)
		}
		// the diff handed out with the reason (the two are shown together for one target) has edits at the same keys
		if want := c16wantKeys(differing); obs.diffKeys != want {
			oracles++
			fmt.Fprintf(w, "ORACLE\tdiff-shown-with-reason-has-the-differing-keys\t%s\t%s\t%s\tdiff keys %s\n", c16rval(o), c16rval(n), reason, obs.diffKeys)
		}
	}

	// every subset of functionEnvKeys, with and without a change in a key that is not listed;
	// the way a key differs rotates between: value changed, removed from new, absent from old
	for mask := 0; mask < 1<<nk; mask++ {
		for extra := 0; extra < 2; extra++ {
			mode = (mask / 2) % 2 // no callable / real callable with a different recorded stamp
			o, n := starlark.NewDict(nk+1), starlark.NewDict(nk+1)
			differing := map[string]bool{}
			for i, k := range functionEnvKeys {
				base := starlark.Tuple{starlark.MakeInt(i), starlark.String("v")}
				if mask&(1<<i) == 0 {
					o.SetKey(k, base)
					n.SetKey(k, base)
					continue
				}
				differing[string(k)] = true
				switch (mask + i + extra) % 3 {
				case 0:
					o.SetKey(k, base)
					n.SetKey(k, starlark.Tuple{starlark.MakeInt(i), starlark.String("w")})
				case 1:
					o.SetKey(k, base)
				default:
					n.SetKey(k, base)
				}
			}
			if extra == 1 {
				o.SetKey(starlark.String("not listed"), starlark.MakeInt(1))
				if mask%2 == 0 {
					n.SetKey(starlark.String("not listed"), starlark.MakeInt(2))
				}
			}
			emit(fmt.Sprintf("subset-%d", len(differing)), o, n, differing, true)
		}
	}
	// a part whose numbers change TYPE but not value (i -> float(i): 1 == 1.0) does not differ: alone (the environments
	// are equal), next to each other part that does change, and when the re-typed part also changes elsewhere (then it
	// differs, and the diff shown for it holds an equal pair of two types next to a changed one)
	for i, k := range functionEnvKeys {
		for j := -1; j < nk; j++ {
			mode = (i + j + 1) % 2
			o, n := starlark.NewDict(nk), starlark.NewDict(nk)
			differing := map[string]bool{}
			for x, kx := range functionEnvKeys {
				base := starlark.Tuple{starlark.MakeInt(x), starlark.String("v")}
				o.SetKey(kx, base)
				switch {
				case x == i && j == i:
					n.SetKey(kx, starlark.Tuple{starlark.Float(x), starlark.String("w")})
					differing[string(kx)] = true
				case x == i:
					n.SetKey(kx, starlark.Tuple{starlark.Float(x), starlark.String("v")})
				case x == j:
					n.SetKey(kx, starlark.Tuple{starlark.MakeInt(x), starlark.String("w")})
					differing[string(kx)] = true
				default:
					n.SetKey(kx, base)
				}
			}
			_ = k
			emit(fmt.Sprintf("retyped-%d", len(differing)), o, n, differing, true)
		}
	}
	mode = 0
	// other shapes
	d := starlark.NewDict(1)
	d.SetKey(starlark.String("code"), starlark.MakeInt(1))
	e := starlark.NewDict(0)
	emit("never-run", starlark.None, d, nil, false)
	emit("non-dict", starlark.MakeInt(1), d, nil, false)
	emit("non-dict", d, starlark.Tuple{starlark.MakeInt(1)}, nil, false)
	emit("non-dict", starlark.MakeInt(1), starlark.MakeInt(2), nil, false)
	emit("non-dict-equal", starlark.MakeInt(1), starlark.MakeInt(1), nil, false)
	emit("empty", e, d, map[string]bool{"code": true}, true)
	emit("empty", d, e, map[string]bool{"code": true}, true)
	emit("empty", e, starlark.NewDict(0), map[string]bool{}, true)
	// a real callable: stamp differs from / equals the recorded one
	for mode = 1; mode <= 2; mode++ {
		emit(fmt.Sprintf("stamp-mode-%d", mode), d, e, map[string]bool{"code": true}, true)
		emit(fmt.Sprintf("stamp-mode-%d", mode), d, d, map[string]bool{}, true)
		emit(fmt.Sprintf("stamp-mode-%d", mode), starlark.None, d, nil, false)
		emit(fmt.Sprintf("stamp-mode-%d", mode), starlark.MakeInt(1), d, nil, false)
	}
	mode = 0
	// environments nested around the depth limit of EqualDepth(.., 1000): beyond it the generic reason is given
	for _, k := range []int{996, 997, 998, 999, 1000, 1003} {
		nest := func(leaf starlark.Value) starlark.Value {
			v := leaf
			for i := 0; i < k; i++ {
				v = starlark.Tuple{v}
			}
			return v
		}
		o, n := starlark.NewDict(1), starlark.NewDict(1)
		o.SetKey(starlark.String("code"), nest(starlark.MakeInt(1)))
		n.SetKey(starlark.String("code"), nest(starlark.MakeInt(2)))
		emit("deep", o, n, nil, false)
	}

	// Sibling targets checked at the same time (the runner checks every target on a goroutine of its own): what is
	// reported for a target is a function of ITS environments, whatever its siblings are and whenever they are
	// checked.  All the cases above are the targets; a family of schedules (number of goroutines x GOMAXPROCS x
	// seeded orders) is run, each for a slice of the time budget.
	if os.Getenv("VERIF_C16_CONC") != "0" {
		seed, _ := strconv.ParseInt(os.Getenv("VERIF_SEED"), 10, 64)
		budgetMs, _ := strconv.Atoi(os.Getenv("VERIF_C16_CONC_MS"))
		if budgetMs <= 0 {
			budgetMs = 1500
		}
		ncpu := runtime.NumCPU()
		type sch struct{ workers, procs int }
		scheds := []sch{{2, 2}, {4, 4}, {8, 8}, {16, 16}, {8, 1}, {3, 2}, {16, ncpu}, {64, ncpu}}
		per := time.Duration(budgetMs) * time.Millisecond / time.Duration(len(scheds))
		for i, sc := range scheds {
			checks, failed := c16siblings(pool, sc.workers, sc.procs, seed*100+int64(i), per, 3, func(tg *c16target, got c16obs, sched string) {
				oracles++
				fmt.Fprintf(w, "ORACLE\treason-of-a-target-independent-of-concurrently-checked-siblings\t%s\t%s\tconcurrent: up=%v reason=%q diff keys=%s %s %s\talone: up=%v reason=%q diff keys=%s\t%s\t%s; siblings: the other %d cases of this harness\n",
					c16rval(tg.f.oldEnv), c16rval(tg.f.newEnv), got.up, got.reason, got.diffKeys, got.st, got.detail,
					tg.alone.up, tg.alone.reason, tg.alone.diffKeys, c16short(got.diffText, tg.alone.diffText), sched, len(pool)-1)
			})
			fmt.Fprintf(w, "CONC\thand-built\tworkers=%d GOMAXPROCS=%d\t%d\t%d\n", sc.workers, sc.procs, checks, failed)
		}
	}
	t.Logf("C16 reason: %d cases, %d oracle failures", cases, oracles)
}
