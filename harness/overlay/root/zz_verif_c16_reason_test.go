package dawn

// Correspondence harness for the reason string of C16 (function.go: diffEnv).  Added through `go test -overlay`.
// Writes to $VERIF_OUT:
//   E \t <class> \t <stamp 0=error 1=equal 2=differs> \t <oldEnv> \t <newEnv> \t <ok|err|panic> \t <uptodate 0/1> \t <hex reason>
//   ORACLE \t <name> \t <oldEnv> \t <newEnv> \t <reason>

import (
	"bufio"
	"encoding/hex"
	"fmt"
	"os"
	"strconv"
	"strings"
	"testing"

	"go.starlark.net/starlark"
)

func c16rval(v starlark.Value) string {
	switch v := v.(type) {
	case starlark.NoneType:
		return "vN"
	case starlark.Int:
		n, _ := v.Int64()
		return fmt.Sprintf("(vI %d)", n)
	case starlark.String:
		parts := make([]string, len(v))
		for i := 0; i < len(v); i++ {
			parts[i] = strconv.Itoa(int(v[i]))
		}
		return "(vS [" + strings.Join(parts, ";") + "])"
	case starlark.Tuple:
		parts := make([]string, len(v))
		for i, e := range v {
			parts[i] = c16rval(e)
		}
		return "(vT [" + strings.Join(parts, ";") + "])"
	case *starlark.Dict:
		var parts []string
		for _, it := range v.Items() {
			parts = append(parts, "("+c16rval(it[0])+","+c16rval(it[1])+")")
		}
		return "(vM [" + strings.Join(parts, ";") + "])"
	}
	return "<?" + v.Type() + ">"
}

// mode 0: no callable (stamp() fails, as for a hand-built function value); 1: a real callable whose stamp
// differs from the recorded one; 2: a real callable whose stamp equals the recorded one.
func c16diffEnv(o, n starlark.Value, mode int) (up bool, reason string, err error, panicked string, stampState int) {
	defer func() {
		if x := recover(); x != nil {
			panicked = fmt.Sprint(x)
		}
	}()
	f := &function{oldEnv: o, newEnv: n}
	if mode > 0 {
		globals, xerr := starlark.ExecFile(&starlark.Thread{}, "c16.star", "def f(x):\n  return x + 1\n", nil)
		if xerr != nil {
			panic(xerr)
		}
		f.function = globals["f"].(*starlark.Function)
		st, serr := f.stamp()
		if serr != nil {
			panic(serr)
		}
		if mode == 2 {
			f.targetInfo.Data = st
		} else {
			f.targetInfo.Data = st + "x"
		}
	}
	if st, serr := f.stamp(); serr != nil {
		stampState = 0
	} else if st == f.targetInfo.Data {
		stampState = 1
	} else {
		stampState = 2
	}
	up, reason, _, err = f.diffEnv()
	return
}

func TestVerifC16Reason(t *testing.T) {
	outPath := os.Getenv("VERIF_OUT")
	if outPath == "" {
		t.Skip("VERIF_OUT not set")
	}
	f, err := os.Create(outPath)
	if err != nil {
		t.Fatal(err)
	}
	defer f.Close()
	w := bufio.NewWriter(f)
	defer w.Flush()

	nk := len(functionEnvKeys)
	for _, k := range functionEnvKeys {
		fmt.Fprintf(w, "KEY\t%s\n", hex.EncodeToString([]byte(k)))
	}
	cases, oracles := 0, 0

	mode := 0
	emit := func(class string, o, n starlark.Value, differing map[string]bool, dictCase bool) {
		cases++
		up, reason, err, p, sei := c16diffEnv(o, n, mode)
		st := "ok"
		if p != "" {
			st = "panic"
		} else if err != nil {
			st = "err"
		}
		u := 0
		if up {
			u = 1
		}
		fmt.Fprintf(w, "E\t%s\t%d\t%s\t%s\t%s\t%d\t%s\n", class, sei, c16rval(o), c16rval(n), st, u, hex.EncodeToString([]byte(reason)))
		if st != "ok" {
			oracles++
			fmt.Fprintf(w, "ORACLE\t%s\t%s\t%s\t%s\n", st, c16rval(o), c16rval(n), p)
			return
		}
		if !dictCase || sei == 1 {
			return
		}
		// oracle: the reason names exactly the listed keys that differ
		eq, _ := starlark.Equal(o, n)
		if (sei == 0 && up != eq) || (sei == 2 && up) {
			oracles++
			fmt.Fprintf(w, "ORACLE\tup-to-date-iff-equal\t%s\t%s\t%s\n", c16rval(o), c16rval(n), reason)
		}
		if eq {
			return
		}
		bad := !strings.HasSuffix(reason, " changed")
		for _, k := range functionEnvKeys {
			if strings.Contains(reason, string(k)) != differing[string(k)] {
				bad = true
			}
		}
		if bad {
			oracles++
			fmt.Fprintf(w, "ORACLE\treason-names-exactly-differing-keys\t%s\t%s\t%s\n", c16rval(o), c16rval(n), reason)
		}
	}

	// every subset of functionEnvKeys, with and without a change in a key that is not listed;
	// the way a key differs rotates between: value changed, removed from new, absent from old
	for mask := 0; mask < 1<<nk; mask++ {
		for extra := 0; extra < 2; extra++ {
			mode = (mask / 2) % 2 // no callable / real callable with a different recorded stamp
			o, n := starlark.NewDict(nk+1), starlark.NewDict(nk+1)
			differing := map[string]bool{}
			for i, k := range functionEnvKeys {
				base := starlark.Tuple{starlark.MakeInt(i), starlark.String("v")}
				if mask&(1<<i) == 0 {
					o.SetKey(k, base)
					n.SetKey(k, base)
					continue
				}
				differing[string(k)] = true
				switch (mask + i + extra) % 3 {
				case 0:
					o.SetKey(k, base)
					n.SetKey(k, starlark.Tuple{starlark.MakeInt(i), starlark.String("w")})
				case 1:
					o.SetKey(k, base)
				default:
					n.SetKey(k, base)
				}
			}
			if extra == 1 {
				o.SetKey(starlark.String("not listed"), starlark.MakeInt(1))
				if mask%2 == 0 {
					n.SetKey(starlark.String("not listed"), starlark.MakeInt(2))
				}
			}
			emit(fmt.Sprintf("subset-%d", len(differing)), o, n, differing, true)
		}
	}
	mode = 0
	// other shapes
	d := starlark.NewDict(1)
	d.SetKey(starlark.String("code"), starlark.MakeInt(1))
	e := starlark.NewDict(0)
	emit("never-run", starlark.None, d, nil, false)
	emit("non-dict", starlark.MakeInt(1), d, nil, false)
	emit("non-dict", d, starlark.Tuple{starlark.MakeInt(1)}, nil, false)
	emit("non-dict", starlark.MakeInt(1), starlark.MakeInt(2), nil, false)
	emit("non-dict-equal", starlark.MakeInt(1), starlark.MakeInt(1), nil, false)
	emit("empty", e, d, map[string]bool{"code": true}, true)
	emit("empty", d, e, map[string]bool{"code": true}, true)
	emit("empty", e, starlark.NewDict(0), map[string]bool{}, true)
	// a real callable: stamp differs from / equals the recorded one
	for mode = 1; mode <= 2; mode++ {
		emit(fmt.Sprintf("stamp-mode-%d", mode), d, e, map[string]bool{"code": true}, true)
		emit(fmt.Sprintf("stamp-mode-%d", mode), d, d, map[string]bool{}, true)
		emit(fmt.Sprintf("stamp-mode-%d", mode), starlark.None, d, nil, false)
		emit(fmt.Sprintf("stamp-mode-%d", mode), starlark.MakeInt(1), d, nil, false)
	}
	mode = 0
	// environments nested around the depth limit of EqualDepth(.., 1000): beyond it the generic reason is given
	for _, k := range []int{996, 997, 998, 999, 1000, 1003} {
		nest := func(leaf starlark.Value) starlark.Value {
			v := leaf
			for i := 0; i < k; i++ {
				v = starlark.Tuple{v}
			}
			return v
		}
		o, n := starlark.NewDict(1), starlark.NewDict(1)
		o.SetKey(starlark.String("code"), nest(starlark.MakeInt(1)))
		n.SetKey(starlark.String("code"), nest(starlark.MakeInt(2)))
		emit("deep", o, n, nil, false)
	}
	t.Logf("C16 reason: %d cases, %d oracle failures", cases, oracles)
}
