package dawn

// C15, record layer: "a corrupted record surfaces as a reported load or build error, never as a crash or as a
// target silently treated as up to date".
//
// The parent test builds a tiny project once, then for every corruption of a real record file
// .dawn/build/targets/<file> restores the pristine state, writes the corrupted record and re-loads + builds in a
// SUBPROCESS (this test binary re-executed with VERIF_C15_CHILD_DIR set), under a timeout.  Outcome classes:
//     error      Load or Run returned an error (reported)
//     executed   the target was executed again
//     uptodate   the target was reported up to date -- legitimate only when the corrupted record is, in the fields that
//                decide it, the true record (byte-identical stamp, same dependency stamps, rerun clear)
//     died       the subprocess died (panic escaped, fatal error)
//     hang       the subprocess did not finish within the timeout
// Corruptions of the stamp's base64 text by a character outside the alphabet make the decoder's SOURCE fail with an error
// that is not io.EOF, after it has delivered the bytes before the damaged quantum; the stamps of the project below hold
// every operand-bearing opcode (INT text, 1/2/4-byte ints, floats, short and long strings, bytes), so that the failure
// arrives in the middle of every kind of operand.  Such a stamp is first decoded in process exactly as function.load does,
// from a guarded reader (kind stamp-b64-inprocess: error | hang | panic | nilnil | value-from-failed-source), then (kind
// stamp-b64) loaded and built in the subprocess.
//
// Record STATES.  A record is not always the record of a finished build: before a target's body runs, the record on disk is
// the previous one with the re-run marker set ("rerun": true), and it stays so when the process dies or the body fails.  The
// marker is the one field whose absence means "up to date", so a loader that drops it (a truncated or re-typed field that is
// skipped rather than reported) turns a target that must run again into one that is silently up to date.  Every corruption
// family is therefore applied to both states of every record: "clean" and "marked" (kinds marked-*; the marked record is the
// clean record as saveTargetInfo writes it with the marker set; uncorrupted, it must make the target run: kind marked-none).
// Up to date is legitimate only when an independent strict decoding of the corrupted bytes (c15recordRef: the file is exactly
// one JSON object with the record's keys -- unknown keys, data after the object and every decoding error are errors) is a
// record with the marker clear, the current stamp and the current dependency stamps (class uptodate-valid-unmarked-record when
// the state before the corruption carried the marker: a corruption into a genuinely valid record, undetectable without a
// checksum, accepted and counted).
//
// Corruption families beyond single bytes: "structure" (every byte outside the interior of the long strings deleted /
// replaced by JSON punctuation and literals' letters), "retype" (the file stays well-formed JSON, but a field's value changes
// its JSON type: every field x every kind of JSON value, dependency entries, duplicated / re-cased / unknown keys, the record
// wrapped), "multi" (2-4 substitutions, bursts, duplicated and removed blocks).
//
// Project SHAPES and load SCHEDULES.  A record is read while its module is being loaded, concurrently with the project's other
// modules; a failed read must be reported whatever the others are doing.  Project "multi" has four packages and a shared
// module; the record of one target per package is corrupted (a menu of load-failing and benign corruptions) and the project
// is loaded under three schedules enforced through the module.exec / module.done observation points: free, "first" (the
// victim's module runs to its end -- and fails -- before any other package's module starts executing) and "last" (it starts
// only after all the others have finished).  A load that does not return is a hang.
// Output ($VERIF_OUT): record \t <file> \t <corruption kind> \t <detail> \t <class>
//                      ORACLE \t record-<class> \t <file> \t <kind> \t <detail> \t <hex of the corrupted record>

import (
	"bufio"
	"bytes"
	"context"
	"encoding/base64"
	"encoding/hex"
	"encoding/json"
	"fmt"
	"io"
	"math/rand"
	"os"
	"os/exec"
	"path/filepath"
	"strconv"
	"strings"
	"sync"
	"sync/atomic"
	"testing"
	"time"

	"github.com/pgavlin/dawn/internal/verifhook"
	"github.com/pgavlin/dawn/label"
	"github.com/pgavlin/dawn/pickle"
	"go.starlark.net/starlark"
)

const c15BuildFile = `
K = {"x": [1, 2, 3], "y": "why"}

def helper(n, m=3):
    return n + m + len(K)

@target()
def b():
    print("run b", helper(1))

@target(deps=[":b"], default=True)
def top():
    print("run top")
`

// c15RichBuildFile: the same project with an environment whose stamp holds every operand-bearing opcode.
var c15RichBuildFile = strings.Replace(c15BuildFile, `K = {"x": [1, 2, 3], "y": "why"}`,
	`K = {"x": [1, 2, 3], "y": "why", "big": 1099511627776, "neg": -9223372036854775809, "huge": 1 << 80, "f": 1.5,
     "bytes": b"\x00\xff raw", "long": "0123456789abcdef" * 20, "ints": (255, 256, 65535, 65536, -1, 2147483647, 2147483648),
     "flags": (True, False, None), 300: 70000}`, 1)

// c15MultiFiles: four packages (one nested) and a module shared by three of them.
var c15MultiFiles = map[string]string{
	"lib/defs.dawn": "def greet(n):\n    return \"hello \" + n\n",
	"BUILD.dawn": `load("//lib:defs.dawn", "greet")

@target()
def a():
    print(greet("a"))

@target(deps=[":a", "//p1:t1", "//p1/q:t", "//p2:t2"], default=True)
def top():
    print("run top")
`,
	"p1/BUILD.dawn": `load("//lib:defs.dawn", "greet")

@target()
def t0():
    print(greet("p1 t0"))

@target(deps=[":t0"])
def t1():
    print(greet("p1 t1"))
`,
	"p1/q/BUILD.dawn": `Q = {"k": (1, 2.5, "q")}

@target()
def t():
    print("q t", Q)

@target(deps=[":t"])
def u():
    print("q u")
`,
	"p2/BUILD.dawn": `load("//lib:defs.dawn", "greet")

@target(deps=["//p1:t0"])
def t2():
    print(greet("p2 t2"))

@target()
def t3():
    print("p2 t3")
`,
}

// c15schedule enforces a load schedule ("first|<module>|<n>" or "last|<module>|<n>", n = number of BUILD.dawn modules)
// through the observation points of the module loader.  Only package modules (BUILD.dawn) are held; a module that is
// load()ed runs freely, so that holding never blocks the module it is waiting for.
func c15schedule(spec string) {
	parts := strings.Split(spec, "|")
	if len(parts) != 3 {
		return
	}
	mode, victim := parts[0], parts[1]
	n, _ := strconv.Atoi(parts[2])
	var mu sync.Mutex
	victimDone, othersDone := make(chan struct{}), make(chan struct{})
	var vOnce, oOnce sync.Once
	others := 0
	isPkg := func(l string) bool { return strings.HasSuffix(l, "BUILD.dawn") }
	hold := func(ch chan struct{}, who string) {
		select {
		case <-ch:
		case <-time.After(5 * time.Second):
			fmt.Printf("C15CHILD\tSCHED\tfallback %s\n", who)
		}
	}
	verifhook.SetHandler(func(point string, args ...any) {
		if len(args) == 0 {
			return
		}
		l, ok := args[0].(string)
		if !ok || !isPkg(l) {
			return
		}
		switch point {
		case "module.exec":
			if mode == "first" && l != victim {
				hold(victimDone, l)
			} else if mode == "last" && l == victim {
				hold(othersDone, l)
			}
		case "module.done":
			if l == victim {
				vOnce.Do(func() { close(victimDone) })
				return
			}
			mu.Lock()
			others++
			if others >= n-1 {
				oOnce.Do(func() { close(othersDone) })
			}
			mu.Unlock()
		}
	})
}

// TestVerifC15RecordChild is the subprocess body: load and build, print what happened.
func TestVerifC15RecordChild(t *testing.T) {
	dir := os.Getenv("VERIF_C15_CHILD_DIR")
	if dir == "" {
		t.Skip("not a child")
	}
	// a decoder that hangs while accumulating input must die early, not fill the machine's memory
	go func() {
		for {
			time.Sleep(100 * time.Millisecond)
			var size, resident int64
			if b, err := os.ReadFile("/proc/self/statm"); err == nil {
				fmt.Sscan(string(b), &size, &resident)
			}
			if rss := resident * int64(os.Getpagesize()); rss > 1<<30 {
				fmt.Printf("C15CHILD\tMEMORY\t%d bytes resident: killed\n", rss)
				os.Exit(3)
			}
		}
	}()
	if spec := os.Getenv("VERIF_C15_SCHED"); spec != "" {
		c15schedule(spec)
	}
	ev := &testEvents{}
	report := func(status string) {
		for _, e := range ev.events {
			if l, ok := e["label"].(*label.Label); ok {
				fmt.Printf("C15CHILD\t%v\t%v\n", e["kind"], l)
			}
		}
		fmt.Printf("C15CHILD\tDONE\t%s\n", status)
	}
	// first what `dawn list`, `dawn graph` and `dawn gc` do with the state: a load through the index, then the read-only
	// accessors of every target (a panic in any of them kills this process: class "died")
	if pi, err := Load(dir, &LoadOptions{PreferIndex: true}); err != nil {
		fmt.Printf("C15CHILD\tINDEXLOAD\terror\n")
	} else {
		n := 0
		for _, tg := range pi.Targets() {
			n += len(tg.Dependencies()) + len(tg.Doc()) + len(tg.Label().String()) + len(DocSummary(tg))
		}
		for _, f := range pi.Flags() {
			n += len(f.Name)
		}
		fmt.Printf("C15CHILD\tINDEXLOAD\tok %d\n", n)
	}
	proj, err := Load(dir, &LoadOptions{Events: ev})
	if err != nil {
		report("loaderr")
		return
	}
	def, _ := label.Parse("//:default")
	if err := proj.Run(def, nil); err != nil {
		report("runerr")
		return
	}
	report("ok")
}

func c15copyTree(src, dst string) error {
	return filepath.Walk(src, func(p string, info os.FileInfo, err error) error {
		if err != nil {
			return err
		}
		rel, _ := filepath.Rel(src, p)
		if info.IsDir() {
			return os.MkdirAll(filepath.Join(dst, rel), 0o755)
		}
		b, err := os.ReadFile(p)
		if err != nil {
			return err
		}
		return os.WriteFile(filepath.Join(dst, rel), b, 0o644)
	})
}

type c15corruption struct {
	kind, detail string
	data         []byte
}

func c15decodeStamp(stamp string) (starlark.Value, error) {
	b64 := base64.NewDecoder(base64.StdEncoding, strings.NewReader(stamp))
	return pickle.NewDecoder(b64, pickle.UnpicklerFunc(envUnpickler)).Decode()
}

func c15encodeStamp(v starlark.Value) string {
	var buf bytes.Buffer
	b64 := base64.NewEncoder(base64.StdEncoding, &buf)
	if err := pickle.NewEncoder(b64, nil).Encode(v); err != nil {
		panic(err)
	}
	b64.Close()
	return buf.String()
}

// c15recordRef is the harness's own statement of the record format (the field names are the on-disk format), decoded
// strictly: the reference for what a byte string says as a record does not depend on the loader under test.
type c15recordRef struct {
	Doc          string            `json:"doc,omitempty"`
	Dependencies map[string]string `json:"dependencies,omitempty"`
	Data         string            `json:"stamp,omitempty"`
	Run          string            `json:"run,omitempty"`
	Rerun        bool              `json:"rerun,omitempty"`
}

// c15sameRecord: is the corrupted record semantically the true (clean, current) record, as far as the up-to-date decision
// of its own target is concerned?
func c15sameRecord(trueRec, gotRec []byte) (same bool, why string) {
	defer func() {
		if r := recover(); r != nil {
			same, why = false, "decoding the corrupted record panics"
		}
	}()
	var want, got c15recordRef
	if err := json.NewDecoder(bytes.NewReader(trueRec)).Decode(&want); err != nil {
		return false, "true record unreadable"
	}
	// strictly: the file is exactly one JSON object with the record's keys; every decoding error is an error
	dec := json.NewDecoder(bytes.NewReader(gotRec))
	dec.DisallowUnknownFields()
	if err := dec.Decode(&got); err != nil {
		return false, "not a record: " + err.Error()
	}
	if _, err := dec.Token(); err != io.EOF {
		return false, "not a record: data after the first JSON value"
	}
	if got.Rerun {
		return false, "rerun set"
	}
	for l, s := range want.Dependencies {
		if got.Dependencies[l] != s {
			return false, "dependency stamp of " + l + " differs"
		}
	}
	if got.Data == "" {
		return false, "no stamp"
	}
	// The only stamp that may be accepted as up to date is the exact current stamp (the project is unchanged, so
	// that is the stamp of the true record): a stamp with other bytes -- even one that decodes to an equal
	// environment -- must make the target out of date.
	if got.Data != want.Data {
		return false, "stamp bytes differ from the current stamp"
	}
	return true, ""
}

// ---- the stamp's source: base64 text with a damaged character

type c15hang struct{}

// c15guard observes what the decoder does with its source: the bytes delivered before the first error, the number of
// reads answered with an error; a decoder that goes on reading from a failed source more than c15hangLimit times is hung
// (the guard breaks its loop by panicking with a value that is not an error, which Decode's recover swallows).
type c15guard struct {
	r         io.Reader
	delivered int
	nerr      int
	hung      bool
}

const c15hangLimit = 1 << 16

func (g *c15guard) Read(p []byte) (int, error) {
	n, err := g.r.Read(p)
	if g.nerr == 0 {
		g.delivered += n
	}
	if err != nil {
		g.nerr++
		if g.nerr > c15hangLimit {
			g.hung = true
			panic(c15hang{})
		}
	}
	return n, err
}

// c15decodeDamagedStamp decodes a stamp as function.load does (base64 stream decoder, envUnpickler), through the guard.
func c15decodeDamagedStamp(stamp string) (class string, g *c15guard) {
	g = &c15guard{r: base64.NewDecoder(base64.StdEncoding, strings.NewReader(stamp))}
	defer func() {
		if r := recover(); r != nil {
			class = "panic"
			if _, ok := r.(c15hang); ok {
				class = "hang"
			}
		}
	}()
	v, err := pickle.NewDecoder(g, pickle.UnpicklerFunc(envUnpickler)).Decode()
	switch {
	case g.hung:
		return "hang", g
	case err != nil:
		return "error", g
	case v == nil:
		return "nilnil", g
	case g.nerr > 0:
		return "value-from-failed-source", g
	}
	return "value", g
}

// characters outside the standard alphabet, and '=' where no padding belongs
var c15badChars = []byte{'*', 0, '-', '_', ' ', '=', 0xff, '~'}

func c15damage(stamp string, i int, c byte) string {
	b := []byte(stamp)
	b[i] = c
	return string(b)
}

// c15structural: the positions of a record that are not in the interior of a long string literal (the stamps): the
// braces, colons, commas, quotes, keys, literals, short values and the first and last characters of the long strings.
func c15structural(rec []byte) []int {
	skip := make([]bool, len(rec))
	for i := 0; i < len(rec); i++ {
		if rec[i] != '"' {
			continue
		}
		j := i + 1
		for j < len(rec) && rec[j] != '"' {
			if rec[j] == '\\' {
				j++
			}
			j++
		}
		if j-i-1 > 24 {
			for k := i + 5; k < j-4 && k < len(rec); k++ {
				skip[k] = true
			}
		}
		i = j
	}
	var ps []int
	for i := range rec {
		if !skip[i] {
			ps = append(ps, i)
		}
	}
	return ps
}

var c15recordFields = []string{"doc", "dependencies", "stamp", "run", "rerun"}

// c15build writes a record from raw field values: the known fields in the order the encoder writes them, then the others.
func c15build(fields map[string]json.RawMessage, extra ...string) []byte {
	var parts []string
	seen := map[string]bool{}
	for _, k := range c15recordFields {
		if v, ok := fields[k]; ok {
			parts = append(parts, strconv.Quote(k)+":"+string(v))
			seen[k] = true
		}
	}
	var rest []string
	for k := range fields {
		if !seen[k] {
			rest = append(rest, k)
		}
	}
	for i := range rest { // sorted
		for j := i + 1; j < len(rest); j++ {
			if rest[j] < rest[i] {
				rest[i], rest[j] = rest[j], rest[i]
			}
		}
	}
	for _, k := range rest {
		parts = append(parts, strconv.Quote(k)+":"+string(fields[k]))
	}
	parts = append(parts, extra...)
	return []byte("{" + strings.Join(parts, ",") + "}\n")
}

// every kind of JSON value, and two spellings of the literals as strings
var c15jsonKinds = []string{`null`, `true`, `false`, `0`, `1`, `-1.5e3`, `""`, `"ru"`, `"true"`, `[]`, `[true]`, `{}`, `{"a":true}`}

// c15retypes: the record stays well-formed JSON, but a field's value changes its JSON type or a key its spelling.
func c15retypes(rec []byte, add func(kind, detail string, data []byte)) {
	var fields map[string]json.RawMessage
	if err := json.Unmarshal(rec, &fields); err != nil {
		panic(err)
	}
	with := func(k string, v string) map[string]json.RawMessage {
		m := map[string]json.RawMessage{}
		for k0, v0 := range fields {
			m[k0] = v0
		}
		m[k] = json.RawMessage(v)
		return m
	}
	for _, k := range c15recordFields {
		for _, v := range c15jsonKinds {
			if string(fields[k]) != v {
				add("retype", k+"="+v, c15build(with(k, v)))
			}
		}
	}
	if raw, ok := fields["dependencies"]; ok {
		var deps map[string]json.RawMessage
		if json.Unmarshal(raw, &deps) == nil {
			for d := range deps {
				for _, v := range []string{`null`, `5`, `true`, `["x"]`, `{}`, `""`} {
					m := map[string]json.RawMessage{}
					for k0, v0 := range deps {
						m[k0] = v0
					}
					m[d] = json.RawMessage(v)
					b, _ := json.Marshal(m)
					add("retype", "dependencies["+d+"]="+v, c15build(with("dependencies", string(b))))
				}
				// the KEY is a label: damaged into text that is still a JSON string but no label, or another label
				for _, k2 := range []string{"//:/", "", ":", "/", "//", "no-colon", "//a:b:c", "source://", "//:", d + "/", d + ":x", strings.ToUpper(d), " " + d} {
					if k2 == d {
						continue
					}
					m := map[string]json.RawMessage{}
					for k0, v0 := range deps {
						if k0 != d {
							m[k0] = v0
						}
					}
					m[k2] = deps[d]
					b, _ := json.Marshal(m)
					add("retype", "dependency-key:"+d+"->"+strconv.Quote(k2), c15build(with("dependencies", string(b))))
				}
			}
		}
	}
	// keys: duplicated (the last one counts), re-cased (the decoder matches keys without regard to case), unknown
	for _, k := range c15recordFields {
		cur, ok := fields[k]
		if !ok {
			continue
		}
		for _, v := range []string{`null`, `false`, `"ru"`, `{}`} {
			add("retype", "duplicate-key-after:"+k+"="+v, c15build(fields, strconv.Quote(k)+":"+v))
			add("retype", "duplicate-key-before:"+k+"="+v, c15build(with(k, v), strconv.Quote(k)+":"+string(cur)))
		}
		m := with(strings.ToUpper(k), string(cur))
		delete(m, k)
		add("retype", "upper-case-key:"+k, c15build(m))
		m = with("x"+k, string(cur))
		delete(m, k)
		add("retype", "renamed-key:"+k, c15build(m))
	}
	add("retype", "unknown-field", c15build(with("zz", `{"rerun":true,"stamp":5}`)))
	body := bytes.TrimSpace(rec)
	add("retype", "wrapped-in-array", []byte("["+string(body)+"]\n"))
	add("retype", "wrapped-in-object", []byte(`{"record":`+string(body)+"}\n"))
	add("retype", "two-records", []byte(string(body)+"\n"+string(body)+"\n"))
	add("retype", "re-indented", func() []byte {
		var buf bytes.Buffer
		json.Indent(&buf, body, "", "\t")
		return append(buf.Bytes(), '\n')
	}())
}

// c15structure: every structural byte deleted, and replaced by JSON punctuation, letters of the literals and controls.
func c15structure(rec []byte, rng *rand.Rand, thorough bool, add func(kind, detail string, data []byte)) {
	menu := []byte{'"', ',', ':', '{', '}', '[', ']', ' ', '0', '9', 't', 'f', 'n', 'e', '\\', 0x00, '\n', '-'}
	off := rng.Intn(len(menu))
	for n, i := range c15structural(rec) {
		add("structure", fmt.Sprintf("delete:%d", i), append(append([]byte(nil), rec[:i]...), rec[i+1:]...))
		var subs []byte
		if thorough {
			subs = append(append(subs, menu...), rec[i]^0x20, rec[i]^0x01)
		} else {
			subs = []byte{menu[(off+n)%len(menu)], menu[(off+7*n+5)%len(menu)]}
		}
		for _, c := range subs {
			if c != rec[i] {
				d := append([]byte(nil), rec...)
				d[i] = c
				add("structure", fmt.Sprintf("%d:%02x", i, c), d)
			}
		}
	}
}

// c15multi: corruptions of more than one byte.
func c15multi(rec []byte, rng *rand.Rand, thorough bool, add func(kind, detail string, data []byte)) {
	n := 60
	if thorough {
		n = 400
	}
	st := c15structural(rec)
	for k := 0; k < n; k++ {
		d := append([]byte(nil), rec...)
		detail := ""
		switch k % 5 {
		case 0, 1: // 2-4 substitutions, anywhere / at structural positions
			m := 2 + rng.Intn(3)
			for x := 0; x < m; x++ {
				i := rng.Intn(len(d))
				if k%5 == 1 {
					i = st[rng.Intn(len(st))]
				}
				nb := byte(rng.Intn(256))
				if x%2 == 0 {
					nb = "\"{}[],:0tfn e"[rng.Intn(13)]
				}
				if nb == d[i] {
					nb ^= 1
				}
				d[i] = nb
				detail += fmt.Sprintf("%d:%02x ", i, nb)
			}
			detail = "substitutions " + strings.TrimSpace(detail)
		case 2: // a burst overwritten
			ln := 2 + rng.Intn(7)
			i := rng.Intn(len(d))
			if k%2 == 0 {
				i = st[rng.Intn(len(st))]
			}
			fill := []byte{0, ' ', 0xff, '"', 'A'}[rng.Intn(5)]
			for x := i; x < i+ln && x < len(d); x++ {
				d[x] = fill
				if fill == 'A' {
					d[x] = byte(rng.Intn(256))
				}
			}
			detail = fmt.Sprintf("burst %d+%d:%02x", i, ln, fill)
		case 3: // a block written twice
			ln := 1 + rng.Intn(16)
			i := st[rng.Intn(len(st))]
			if i+ln > len(d) {
				ln = len(d) - i
			}
			d = append(append(append([]byte(nil), rec[:i+ln]...), rec[i:i+ln]...), rec[i+ln:]...)
			detail = fmt.Sprintf("block-twice %d+%d", i, ln)
		case 4: // a block lost
			ln := 2 + rng.Intn(15)
			i := st[rng.Intn(len(st))]
			if i+ln > len(d) {
				ln = len(d) - i
			}
			d = append(append([]byte(nil), rec[:i]...), rec[i+ln:]...)
			detail = fmt.Sprintf("block-lost %d+%d", i, ln)
		}
		if !bytes.Equal(d, rec) {
			add("multi", detail, d)
		}
	}
}

// c15marked: the record as the build leaves it before it runs the target's body (saveTargetInfo's encoding).
func c15marked(rec []byte) []byte {
	var info targetInfo
	if err := json.Unmarshal(rec, &info); err != nil {
		panic(err)
	}
	info.Rerun = true
	var buf bytes.Buffer
	if err := json.NewEncoder(&buf).Encode(&info); err != nil {
		panic(err)
	}
	return buf.Bytes()
}

// c15markedCorruptions: every family over the marked state of a record.
func c15markedCorruptions(rec []byte, rng *rand.Rand, thorough bool) []c15corruption {
	var cs []c15corruption
	add := func(kind, detail string, data []byte) {
		cs = append(cs, c15corruption{"marked-" + kind, detail, append([]byte(nil), data...)})
	}
	m := c15marked(rec)
	add("none", "uncorrupted", m)
	st := map[int]bool{}
	for _, i := range c15structural(m) {
		st[i] = true
	}
	for i := 0; i < len(m); i++ { // truncations: everywhere outside the long strings, every 8th offset inside
		if thorough || st[i] || i%8 == 0 {
			add("truncate", strconv.Itoa(i), m[:i])
		}
	}
	c15structure(m, rng, thorough, add)
	c15retypes(m, add)
	c15multi(m, rng, thorough, add)
	nsub := 60
	if thorough {
		nsub = len(m)
	}
	for k := 0; k < nsub; k++ { // single bytes anywhere (the stamps included)
		i := rng.Intn(len(m))
		d := append([]byte(nil), m...)
		nb := byte(rng.Intn(256))
		if k%2 == 0 {
			nb = d[i] ^ (1 << uint(rng.Intn(8)))
		}
		if nb == d[i] {
			nb ^= 1
		}
		d[i] = nb
		add("substitute", fmt.Sprintf("%d:%02x", i, nb), d)
	}
	return cs
}

// c15menu: a compact menu of load-failing and benign corruptions (project "multi": one per schedule and victim).
func c15menu(rec []byte, rng *rand.Rand) []c15corruption {
	var info targetInfo
	if err := json.Unmarshal(rec, &info); err != nil {
		panic(err)
	}
	var cs []c15corruption
	add := func(kind, detail string, data []byte) {
		cs = append(cs, c15corruption{"mp-" + kind, detail, append([]byte(nil), data...)})
	}
	withStamp := func(s string) []byte {
		i := info
		i.Data = s
		b, _ := json.Marshal(i)
		return append(b, '\n')
	}
	add("none", "uncorrupted", rec)
	add("none", "marked", c15marked(rec))
	add("truncate", strconv.Itoa(len(rec)/2), rec[:len(rec)/2])
	k := 1 + rng.Intn(len(rec)-1)
	add("truncate", strconv.Itoa(k), rec[:k])
	add("truncate", "0", nil)
	add("replace-record", "zeros", []byte("\x00\x00\x00"))
	add("replace-record", "array", []byte("[]\n"))
	var fields map[string]json.RawMessage
	json.Unmarshal(c15marked(rec), &fields)
	fields["rerun"] = json.RawMessage(`"ru"`)
	add("retype", "marked,rerun=\"ru\"", c15build(fields))
	json.Unmarshal(rec, &fields)
	fields["stamp"] = json.RawMessage(`5`)
	add("retype", "stamp=5", c15build(fields))
	add("stamp", "not-base64", withStamp("!!!!"))
	add("stamp", "base64-garbage", withStamp(base64.StdEncoding.EncodeToString([]byte("garbage that is not a pickle"))))
	add("stamp", "truncated-b64", withStamp(info.Data[:len(info.Data)/2]))
	add("stamp", "global", withStamp(base64.StdEncoding.EncodeToString([]byte("\x8c\x01a\x8c\x01b\x93."))))
	add("stamp", "int", withStamp(c15encodeStamp(starlark.MakeInt(42))))
	if len(info.Data) > 8 {
		i := rng.Intn(len(info.Data))
		c := c15badChars[rng.Intn(len(c15badChars))]
		if c != info.Data[i] {
			add("stamp-b64", fmt.Sprintf("%d:%02x", i, c), withStamp(c15damage(info.Data, i, c)))
		}
	}
	st := c15structural(rec)
	i := st[rng.Intn(len(st))]
	add("structure", fmt.Sprintf("delete:%d", i), append(append([]byte(nil), rec[:i]...), rec[i+1:]...))
	return cs
}

// family "classic": everything but the damaged base64 characters; "b64": only those.
func c15corruptions(rec []byte, rng *rand.Rand, thorough bool, family string) []c15corruption {
	var cs []c15corruption
	add := func(kind, detail string, data []byte) {
		if (kind == "stamp-b64") == (family == "b64") {
			cs = append(cs, c15corruption{kind, detail, append([]byte(nil), data...)})
		}
	}
	c15structure(rec, rng, thorough, add)
	c15retypes(rec, add)
	c15multi(rec, rng, thorough, add)
	// truncation at every offset (quick: every offset below 48, then every third)
	for i := 0; i < len(rec); i++ {
		if thorough || i < 48 || i%3 == 0 {
			add("truncate", strconv.Itoa(i), rec[:i])
		}
	}
	// single-byte substitutions and deletions
	nsub := 160
	if thorough {
		nsub = 3 * len(rec)
	}
	for k := 0; k < nsub; k++ {
		i := rng.Intn(len(rec))
		if thorough {
			i = k % len(rec)
		}
		c := append([]byte(nil), rec...)
		var nb byte
		switch k % 3 {
		case 0:
			nb = c[i] ^ (1 << uint(rng.Intn(8)))
		case 1:
			nb = "ABCDEFGHIJKLMNOPQRSTUVWXYZabcdefghijklmnopqrstuvwxyz0123456789+/="[rng.Intn(65)]
		default:
			nb = byte(rng.Intn(256))
		}
		if nb == c[i] {
			nb ^= 1
		}
		c[i] = nb
		add("substitute", fmt.Sprintf("%d:%02x", i, nb), c)
	}
	for k := 0; k < nsub/4; k++ {
		i := rng.Intn(len(rec))
		add("delete", strconv.Itoa(i), append(append([]byte(nil), rec[:i]...), rec[i+1:]...))
	}
	// whole-record and field-level replacements
	var info targetInfo
	if err := json.Unmarshal(rec, &info); err != nil {
		panic(err)
	}
	enc := func(i targetInfo) []byte {
		b, _ := json.Marshal(i)
		return append(b, '\n')
	}
	for _, s := range []string{"", "{}", "null", "[]", "0", `""`, `{"stamp":5}`, `{"stamp":null}`, `{"dependencies":[]}`,
		`{"dependencies":{"//:b":7}}`, `{"rerun":"yes"}`, strings.Repeat("[", 20000), strings.Repeat(`{"a":`, 20000), "\x00\x00\x00"} {
		add("replace-record", fmt.Sprintf("%.20q", s), []byte(s))
	}
	with := func(f func(i *targetInfo)) []byte {
		i := info
		i.Dependencies = map[string]string{}
		for k, v := range info.Dependencies {
			i.Dependencies[k] = v
		}
		f(&i)
		return enc(i)
	}
	add("field", "rerun=true", with(func(i *targetInfo) { i.Rerun = true }))
	add("field", "run=other", with(func(i *targetInfo) { i.Run = "0000000000000000" }))
	add("field", "run=empty", with(func(i *targetInfo) { i.Run = "" }))
	add("field", "doc=other", with(func(i *targetInfo) { i.Doc = "corrupted" }))
	add("field", "no-dependencies", with(func(i *targetInfo) { i.Dependencies = nil }))
	add("field", "dependency-stamp-changed", with(func(i *targetInfo) {
		for k, v := range i.Dependencies {
			i.Dependencies[k] = v + "0"
		}
	}))
	add("field", "dependency-extra", with(func(i *targetInfo) { i.Dependencies["//:nonexistent"] = "x" }))
	add("field", "trailing-garbage", append(append([]byte(nil), rec...), []byte("}}}garbage\x00")...))

	// the stamp replaced by other pickles
	stamps := map[string]string{
		"empty":          "",
		"not-base64":     "!!!!",
		"base64-garbage": base64.StdEncoding.EncodeToString([]byte("garbage that is not a pickle")),
		"base64-empty":   base64.StdEncoding.EncodeToString(nil),
		"truncated-b64":  info.Data[:len(info.Data)/2],
		"none":           c15encodeStamp(starlark.None),
		"int":            c15encodeStamp(starlark.MakeInt(42)),
		"empty-dict":     c15encodeStamp(starlark.NewDict(0)),
		"empty-tuple":    c15encodeStamp(starlark.Tuple{}),
		"stop-only":      base64.StdEncoding.EncodeToString([]byte(".")),
		"mark":           base64.StdEncoding.EncodeToString([]byte("(.")),
		"global":         base64.StdEncoding.EncodeToString([]byte("\x8c\x01a\x8c\x01b\x93.")),
	}
	selfList := starlark.NewList(nil)
	selfList.Append(selfList)
	stamps["cyclic-list"] = c15encodeStamp(selfList)
	if env, err := c15decodeStamp(info.Data); err == nil {
		stamps["same-env-reencoded"] = c15encodeStamp(env)
		if d, ok := env.(*starlark.Dict); ok {
			mod := func(name string, f func(d *starlark.Dict)) {
				e2, _ := c15decodeStamp(info.Data)
				f(e2.(*starlark.Dict))
				stamps[name] = c15encodeStamp(e2)
			}
			mod("env-plus-one-key", func(d *starlark.Dict) { d.SetKey(starlark.String("extra"), starlark.MakeInt(1)) })
			mod("env-self-value", func(d *starlark.Dict) { d.SetKey(starlark.String("extra"), d) })
			mod("env-code-self", func(d *starlark.Dict) { d.SetKey(starlark.String("code"), d) })
			for _, k := range functionEnvKeys {
				k := k
				if _, found, _ := d.Get(k); found {
					mod("env-minus-"+string(k), func(d *starlark.Dict) { d.Delete(k) })
					mod("env-changed-"+string(k), func(d *starlark.Dict) { d.SetKey(k, starlark.String("changed")) })
				}
			}
			mod("env-two-changed", func(d *starlark.Dict) {
				d.SetKey(functionEnvKeys[0], starlark.None)
				d.SetKey(functionEnvKeys[8], starlark.None)
			})
			mod("env-all-changed", func(d *starlark.Dict) {
				for _, k := range functionEnvKeys {
					d.SetKey(k, starlark.None)
				}
			})
		}
	}
	for name, s := range stamps {
		s := s
		add("stamp", name, with(func(i *targetInfo) { i.Data = s }))
	}
	// one damaged character in the stamp's base64 text: every quantum (thorough: every character, two damages each)
	for i := 0; i < len(info.Data); i++ {
		if !thorough && i%4 != (i/4)%4 {
			continue
		}
		for rep := 0; rep < 2; rep++ {
			if rep == 1 && !thorough {
				break
			}
			c := c15badChars[(i/4+i+3*rep)%len(c15badChars)]
			if c == info.Data[i] {
				continue
			}
			d := c15damage(info.Data, i, c)
			add("stamp-b64", fmt.Sprintf("%d:%02x", i, c), with(func(t *targetInfo) { t.Data = d }))
		}
	}
	// outside the property's hypothesis (declared length far beyond the input size): observed, not judged
	add("stamp-oversize", "2GiB-declared-length", with(func(i *targetInfo) {
		i.Data = base64.StdEncoding.EncodeToString([]byte("X\xff\xff\xff\x7fabc."))
	}))
	return cs
}

func TestVerifC15Record(t *testing.T) {
	outPath := os.Getenv("VERIF_OUT")
	if outPath == "" || os.Getenv("VERIF_C15_CHILD_DIR") != "" {
		t.Skip("VERIF_OUT not set")
	}
	thorough := os.Getenv("VERIF_TIER") == "thorough"
	seed, _ := strconv.ParseInt(os.Getenv("VERIF_SEED"), 10, 64)

	base, err := os.MkdirTemp("", "verif-c15-")
	if err != nil {
		t.Fatal(err)
	}
	defer os.RemoveAll(base)
	mkproj := func(dir, buildFile string) {
		os.MkdirAll(dir, 0o755)
		os.WriteFile(filepath.Join(dir, "dawn.toml"), nil, 0o644)
		os.WriteFile(filepath.Join(dir, "BUILD.dawn"), []byte(buildFile), 0o644)
	}

	mkmulti := func(dir string) {
		os.MkdirAll(dir, 0o755)
		os.WriteFile(filepath.Join(dir, "dawn.toml"), nil, 0o644)
		for rel, text := range c15MultiFiles {
			p := filepath.Join(dir, filepath.FromSlash(rel))
			os.MkdirAll(filepath.Dir(p), 0o755)
			os.WriteFile(p, []byte(text), 0o644)
		}
	}

	runChildSched := func(dir, sched string) (status string, events map[string][]string) {
		ctx, cancel := context.WithTimeout(context.Background(), 30*time.Second)
		defer cancel()
		cmd := exec.CommandContext(ctx, os.Args[0], "-test.run=^TestVerifC15RecordChild$", "-test.count=1")
		cmd.Env = append(os.Environ(), "VERIF_C15_CHILD_DIR="+dir, "VERIF_OUT=", "VERIF_C15_SCHED="+sched)
		out, _ := cmd.CombinedOutput()
		events = map[string][]string{}
		status = "died"
		if ctx.Err() != nil {
			status = "hang"
		}
		for _, line := range strings.Split(string(out), "\n") {
			f := strings.Split(line, "\t")
			if len(f) == 3 && f[0] == "C15CHILD" {
				if f[1] == "DONE" {
					status = f[2]
				} else if f[1] == "MEMORY" {
					events["!memory"] = []string{f[2]}
				} else if f[1] == "SCHED" {
					events["!sched"] = append(events["!sched"], f[2])
				} else {
					events[f[2]] = append(events[f[2]], f[1])
				}
			}
		}
		return
	}
	runChild := func(dir string) (string, map[string][]string) { return runChildSched(dir, "") }

	// the pristine builds: the plain project (every family but the damaged base64 characters) and the rich one
	projects := []struct{ name, prefix, buildFile, family, pristine string }{
		{"plain", "", c15BuildFile, "classic", ""},
		{"rich", "rich/", c15RichBuildFile, "b64", ""},
		{"multi", "multi/", "", "menu", ""},
	}
	type job struct {
		proj      int
		file, lbl string
		c         c15corruption
		trueRec   []byte
		sched     string
	}
	var jobs []job
	for pi := range projects {
		pr := &projects[pi]
		p0 := filepath.Join(base, "p0-"+pr.name)
		if pr.family == "menu" {
			mkmulti(p0)
		} else {
			mkproj(p0, pr.buildFile)
		}
		if st, _ := runChild(p0); st != "ok" {
			t.Fatalf("initial build (%s): %s", pr.name, st)
		}
		st, evs := runChild(p0)
		if st != "ok" || (pr.family != "menu" && fmt.Sprint(evs["//:b"]) != "[TargetUpToDate]") || fmt.Sprint(evs["//:top"]) != "[TargetUpToDate]" {
			t.Fatalf("second build (%s) not up to date: %s %v", pr.name, st, evs)
		}
		pr.pristine = filepath.Join(base, "pristine-"+pr.name)
		if err := c15copyTree(filepath.Join(p0, ".dawn"), pr.pristine); err != nil {
			t.Fatal(err)
		}
		if pr.family == "menu" {
			// one victim per package x the three schedules x the menu
			nmod := 0
			for rel := range c15MultiFiles {
				if strings.HasSuffix(rel, "BUILD.dawn") {
					nmod++
				}
			}
			for _, tg := range []struct{ file, lbl, pkg string }{{"%2Fa", "//:a", "//"}, {"p1%2Ft1", "//p1:t1", "//p1"},
				{"p1%2Fq%2Ft", "//p1/q:t", "//p1/q"}, {"p2%2Ft2", "//p2:t2", "//p2"}} {
				rec, err := os.ReadFile(filepath.Join(pr.pristine, "build", "targets", tg.file))
				if err != nil {
					t.Fatal(err)
				}
				if fmt.Sprint(evs[tg.lbl]) != "[TargetUpToDate]" {
					t.Fatalf("second build (%s) not up to date: %s %v", pr.name, tg.lbl, evs)
				}
				module := (&label.Label{Kind: "module", Package: tg.pkg, Name: "BUILD.dawn"}).String()
				for _, mode := range []string{"", "first", "last"} {
					sched := ""
					if mode != "" {
						sched = fmt.Sprintf("%s|%s|%d", mode, module, nmod)
					}
					rng := rand.New(rand.NewSource(seed + int64(len(jobs))))
					for _, c := range c15menu(rec, rng) {
						if mode == "" {
							c.detail = "free:" + c.detail
						} else {
							c.detail = mode + ":" + c.detail
						}
						jobs = append(jobs, job{pi, tg.file, tg.lbl, c, rec, sched})
					}
				}
			}
			continue
		}
		for _, tg := range []struct{ file, lbl string }{{"%2Fb", "//:b"}, {"%2Ftop", "//:top"}, {"%2Fdefault", "//:default"}} {
			rec, err := os.ReadFile(filepath.Join(pr.pristine, "build", "targets", tg.file))
			if err != nil {
				t.Fatal(err)
			}
			rng := rand.New(rand.NewSource(seed + int64(len(jobs))))
			for _, c := range c15corruptions(rec, rng, thorough, pr.family) {
				jobs = append(jobs, job{pi, tg.file, tg.lbl, c, rec, ""})
			}
			if pr.family == "classic" {
				for _, c := range c15markedCorruptions(rec, rng, thorough) {
					jobs = append(jobs, job{pi, tg.file, tg.lbl, c, rec, ""})
				}
			}
		}
	}

	f, err := os.Create(outPath)
	if err != nil {
		t.Fatal(err)
	}
	defer f.Close()
	w := bufio.NewWriterSize(f, 1<<20)
	defer w.Flush()
	var mu sync.Mutex

	tSweep := time.Now()
	// in process: every character of every stamp damaged, decoded as function.load decodes it, from the guarded source
	for _, tg := range []struct {
		proj      int
		file, lbl string
	}{{0, "%2Fb", "//:b"}, {0, "%2Ftop", "//:top"}, {1, "%2Fb", "//:b"}, {1, "%2Ftop", "//:top"}} {
		rec, err := os.ReadFile(filepath.Join(projects[tg.proj].pristine, "build", "targets", tg.file))
		if err != nil {
			t.Fatal(err)
		}
		var info targetInfo
		if err := json.Unmarshal(rec, &info); err != nil {
			t.Fatal(err)
		}
		if class, _ := c15decodeDamagedStamp(info.Data); class != "value" {
			t.Fatalf("the undamaged stamp of %s decodes to %s", tg.lbl, class)
		}
		for i := 0; i < len(info.Data); i++ {
			for rep := 0; rep < len(c15badChars); rep++ {
				if !thorough && rep >= 2 {
					break
				}
				c := c15badChars[(i+rep*3)%len(c15badChars)]
				if c == info.Data[i] {
					continue
				}
				damaged := c15damage(info.Data, i, c)
				class, g := c15decodeDamagedStamp(damaged)
				detail := fmt.Sprintf("%d:%02x", i, c)
				fmt.Fprintf(w, "record\t%s\tstamp-b64-inprocess\t%s\t%s\n", projects[tg.proj].prefix+tg.file, detail, class)
				if class != "error" && class != "value" {
					bad := info
					bad.Data = damaged
					b, _ := json.Marshal(bad)
					fmt.Fprintf(w, "ORACLE\trecord-%s\t%s\tstamp-b64-inprocess\t%s decoding the stamp as function.load does: %d bytes delivered, then %d reads answered with an error\t%s\n",
						class, projects[tg.proj].prefix+tg.file, detail, g.delivered, g.nerr, hex.EncodeToString(append(b, '\n')))
				}
			}
		}
	}
	w.Flush()
	t.Logf("in-process stamp sweep: %v", time.Since(tSweep))

	// after a few dead or hung subprocesses the remaining corruptions are not run (each costs up to the timeout)
	var failures int32
	const maxFailures = 4

	const workers = 8
	ch := make(chan job)
	var wg sync.WaitGroup
	for k := 0; k < workers; k++ {
		var dirs []string
		for _, pr := range projects {
			dirs = append(dirs, filepath.Join(base, fmt.Sprintf("w%d-%s", k, pr.name)))
			if pr.family == "menu" {
				mkmulti(dirs[len(dirs)-1])
			} else {
				mkproj(dirs[len(dirs)-1], pr.buildFile)
			}
		}
		wg.Add(1)
		go func() {
			defer wg.Done()
			for j := range ch {
				if atomic.LoadInt32(&failures) >= maxFailures {
					mu.Lock()
					fmt.Fprintf(w, "record\t%s\t%s\t%s\tnot-run-after-%d-dead-or-hung\n", projects[j.proj].prefix+j.file, j.c.kind, j.c.detail, maxFailures)
					mu.Unlock()
					continue
				}
				dir, prefix := dirs[j.proj], projects[j.proj].prefix
				os.RemoveAll(filepath.Join(dir, ".dawn"))
				if err := c15copyTree(projects[j.proj].pristine, filepath.Join(dir, ".dawn")); err != nil {
					panic(err)
				}
				if err := os.WriteFile(filepath.Join(dir, ".dawn", "build", "targets", j.file), j.c.data, 0o644); err != nil {
					panic(err)
				}
				status, events := runChildSched(dir, j.sched)
				class := ""
				switch status {
				case "died", "hang":
					class = status
					if j.c.kind != "stamp-oversize" {
						atomic.AddInt32(&failures, 1)
					}
				case "loaderr", "runerr":
					class = "error"
				default:
					evs := events[j.lbl]
					has := func(k string) bool {
						for _, e := range evs {
							if e == k {
								return true
							}
						}
						return false
					}
					switch {
					case has("TargetFailed"):
						class = "error"
					case has("TargetEvaluating"):
						class = "executed"
					case has("TargetUpToDate"):
						class = "uptodate"
					default:
						class = "unobserved"
					}
				}
				why := ""
				if m := events["!memory"]; class == "died" && len(m) > 0 {
					why = "(runaway allocation: " + m[0] + ")"
				}
				if j.sched != "" {
					why = "schedule " + j.sched
					if m := events["!sched"]; len(m) > 0 {
						why += " (not enforced: " + strings.Join(m, ", ") + ")"
					}
				}
				if class == "uptodate" {
					same, w := c15sameRecord(j.trueRec, j.c.data)
					if same {
						class = "uptodate-same-record"
						if strings.HasPrefix(j.c.kind, "marked-") || strings.Contains(j.c.detail, "marked") {
							// the state before the corruption demanded a re-run, but the corrupted bytes are, strictly, a
							// current record without the marker: no loader can tell (accepted, counted)
							class = "uptodate-valid-unmarked-record"
						}
					} else {
						class, why = "uptodate-different-record", w
					}
				}
				if m := events["!sched"]; len(m) > 0 {
					mu.Lock()
					fmt.Fprintf(w, "record\t%s\tmp-schedule\t%s\tnot-enforced\n", prefix+j.file, j.c.detail)
					mu.Unlock()
				}
				mu.Lock()
				fmt.Fprintf(w, "record\t%s\t%s\t%s\t%s\n", prefix+j.file, j.c.kind, j.c.detail, class)
				if (class == "died" || class == "hang" || class == "uptodate-different-record" || class == "unobserved") &&
					j.c.kind != "stamp-oversize" {
					fmt.Fprintf(w, "ORACLE\trecord-%s\t%s\t%s\t%s %s\t%s\n", class, prefix+j.file, j.c.kind, j.c.detail, why,
						hex.EncodeToString(j.c.data))
				}
				mu.Unlock()
			}
		}()
	}
	for _, j := range jobs {
		ch <- j
	}
	close(ch)
	wg.Wait()
}
