package dawn

// C16, last clause, on REAL targets: "the rebuild reason shown for a target names exactly the parts of its
// environment that differ".  Added through `go test -overlay`.
//
// A seeded family of projects is generated: N sibling targets, each of which changes between two versions of the
// project in a way drawn from a list of change kinds (constants, universals, globals, predeclared attributes, nested
// functions, default parameters, free variables, code only, several at once, nothing).  Version 1 is built, version 2
// is loaded, and for every target the parts that differ are computed DIRECTLY from its recorded and its new
// environment (key by key, starlark.Equal) -- not through diffEnv.  Then the reason is observed
//   (a) from upToDate, one target at a time,
//   (b) from upToDate, all targets at the same time, over a family of schedules (see c16siblings),
//   (c) from the TargetEvaluating events of the runner itself (dry runs, so the records stay as they are), which
//       checks every target on a goroutine of its own,
// and in all three it must name exactly those parts, and the diff handed out with it must have edits at exactly
// those keys.
//
// Writes to $VERIF_OUT_TARGETS:
//   T \t <project> \t <target> \t <change kind> \t <differing keys> \t <reason alone>
//   CONC \t <family> \t <schedule> \t <checks> \t <failures>
//   ORACLE \t <name> \t <project: hex BUILD.dawn v1> \t <hex BUILD.dawn v2> \t <target, observed, expected, schedule>

import (
	"bufio"
	"encoding/hex"
	"fmt"
	"math/rand"
	"os"
	"path/filepath"
	"runtime"
	"strconv"
	"strings"
	"sync"
	"testing"
	"time"

	"github.com/pgavlin/dawn/diff"
	"github.com/pgavlin/dawn/label"
	starlark_os "github.com/pgavlin/dawn/lib/os"
	"go.starlark.net/starlark"
)

// a change kind: prelude and body of the target before and after (%d = the target's index)
type c16change struct {
	name                       string
	preBefore, preAfter        string
	bodyBefore, bodyAfter      string
	defBefore, defAfter        string // parameter list of a helper H%d defined in the prelude ("" = no helper)
	factoryBefore, factoryAfter string // value captured by the target (free variable) ("" = plain target)
}

var c16changes = []c16change{
	{name: "nothing", bodyBefore: `print("same %d")`, bodyAfter: `print("same %d")`},
	{name: "constant", bodyBefore: `print("old %d")`, bodyAfter: `print("new %d")`},
	{name: "universal", bodyBefore: `print(len("x"))`, bodyAfter: `print(str("x"))`},
	{name: "global-string", preBefore: "G%d = \"old\"\n", preAfter: "G%d = \"new\"\n", bodyBefore: `print(G%d)`, bodyAfter: `print(G%d)`},
	{name: "global-list-longer", preBefore: "G%d = [1, 2]\n", preAfter: "G%d = [1, 2, 3]\n", bodyBefore: `print(G%d)`, bodyAfter: `print(G%d)`},
	{name: "global-dict-value", preBefore: "G%d = {\"k\": (1, 2)}\n", preAfter: "G%d = {\"k\": (1, 3)}\n", bodyBefore: `print(G%d)`, bodyAfter: `print(G%d)`},
	{name: "predeclared-attribute", bodyBefore: `print(os.getcwd)`, bodyAfter: `print(os.exists)`},
	{name: "more-arguments", bodyBefore: `print(1)`, bodyAfter: `print(1, 2)`},
	{name: "constant-and-universal", bodyBefore: `print("six %d", len)`, bodyAfter: `print("SIX %d", dir)`},
	{name: "nested-function", bodyBefore: `print((lambda: 1)())`, bodyAfter: `print((lambda: 2)())`},
	{name: "helper-default-parameter", defBefore: "a=1", defAfter: "a=2", bodyBefore: `print(H%d())`, bodyAfter: `print(H%d())`},
	{name: "helper-body", preBefore: "def H%d():\n    return 1\n", preAfter: "def H%d():\n    return 2\n", bodyBefore: `print(H%d())`, bodyAfter: `print(H%d())`},
	{name: "free-variable", factoryBefore: `"old"`, factoryAfter: `"new"`, bodyBefore: `print(v)`, bodyAfter: `print(v)`},
	{name: "global-to-universal-name", preBefore: "G%d = 1\n", preAfter: "G%d = 1\n", bodyBefore: `print(G%d)`, bodyAfter: `print(len)`},
	{name: "statement-order", bodyBefore: "x = 1\n    y = 2\n    print(x, y)", bodyAfter: "y = 2\n    x = 1\n    print(x, y)"},
}

func c16sub(s string, i int) string {
	if strings.Contains(s, "%d") {
		return strings.ReplaceAll(s, "%d", strconv.Itoa(i))
	}
	return s
}

// c16buildFile renders one version of a project whose target i changes by kinds[i].
func c16buildFile(kinds []int, after bool) string {
	var b strings.Builder
	pick := func(x, y string) string {
		if after {
			return y
		}
		return x
	}
	var deps []string
	for i, k := range kinds {
		c := c16changes[k]
		b.WriteString(c16sub(pick(c.preBefore, c.preAfter), i))
		if c.defBefore != "" {
			fmt.Fprintf(&b, "def H%d(%s):\n    return a\n", i, pick(c.defBefore, c.defAfter))
		}
		body := c16sub(pick(c.bodyBefore, c.bodyAfter), i)
		if c.factoryBefore != "" {
			fmt.Fprintf(&b, "def mk%d(v):\n    @target(name=\"t%d\")\n    def t():\n        %s\n    return t\n\nmk%d(%s)\n\n", i, i, body, i, pick(c.factoryBefore, c.factoryAfter))
		} else {
			fmt.Fprintf(&b, "@target()\ndef t%d():\n    %s\n\n", i, body)
		}
		deps = append(deps, fmt.Sprintf("%q", ":t"+strconv.Itoa(i)))
	}
	fmt.Fprintf(&b, "@target(default=True, deps=[%s])\ndef all():\n    pass\n", strings.Join(deps, ", "))
	return b.String()
}

type c16events struct {
	discardEventsT
	m       sync.Mutex
	reasons map[string]c16obs
	seen    map[string]int
}

func (e *c16events) TargetEvaluating(l *label.Label, reason string, d diff.ValueDiff) {
	e.m.Lock()
	defer e.m.Unlock()
	e.reasons[l.String()] = c16obs{reason: reason, diffKeys: c16diffKeys(d), st: "ok", diffText: c16diffText(d)}
	e.seen[l.String()]++
}

func (e *c16events) TargetUpToDate(l *label.Label) {
	e.m.Lock()
	defer e.m.Unlock()
	e.reasons[l.String()] = c16obs{up: true, diffKeys: "-", st: "ok"}
	e.seen[l.String()]++
}

func (e *c16events) reset() {
	e.m.Lock()
	defer e.m.Unlock()
	e.reasons, e.seen = map[string]c16obs{}, map[string]int{}
}

// c16envDiffers computes, without diffEnv or the diff package, the listed keys at which two environments differ.
func c16envDiffers(o, n starlark.Value) (map[string]bool, bool) {
	od, ok1 := o.(*starlark.Dict)
	nd, ok2 := n.(*starlark.Dict)
	if !ok1 || !ok2 {
		return nil, false
	}
	res := map[string]bool{}
	for _, k := range functionEnvKeys {
		ov, ofound, _ := od.Get(k)
		nv, nfound, _ := nd.Get(k)
		switch {
		case ofound != nfound:
			res[string(k)] = true
		case ofound:
			eq, err := starlark.Equal(ov, nv)
			if err != nil {
				return nil, false
			}
			if !eq {
				res[string(k)] = true
			}
		}
	}
	return res, true
}

func c16upToDate(f *function) (r c16obs) {
	defer func() {
		if x := recover(); x != nil {
			r.st, r.detail = "panic", fmt.Sprint(x)
		}
	}()
	up, reason, d, err := f.upToDate()
	r = c16obs{up: up, reason: reason, diffKeys: c16diffKeys(d), st: "ok", diffText: c16diffText(d)}
	if err != nil {
		r.st, r.detail = "err", err.Error()
	}
	return
}

func TestVerifC16Targets(t *testing.T) {
	outPath := os.Getenv("VERIF_OUT_TARGETS")
	if outPath == "" {
		t.Skip("VERIF_OUT_TARGETS not set")
	}
	of, err := os.Create(outPath)
	if err != nil {
		t.Fatal(err)
	}
	defer of.Close()
	w := bufio.NewWriter(of)
	defer w.Flush()

	seed, _ := strconv.ParseInt(os.Getenv("VERIF_SEED"), 10, 64)
	nproj, _ := strconv.Atoi(os.Getenv("VERIF_C16_PROJECTS"))
	if nproj <= 0 {
		nproj = 3
	}
	ntargets, _ := strconv.Atoi(os.Getenv("VERIF_C16_TARGETS"))
	if ntargets <= 0 {
		ntargets = 16
	}
	budgetMs, _ := strconv.Atoi(os.Getenv("VERIF_C16_CONC_MS"))
	if budgetMs <= 0 {
		budgetMs = 1500
	}
	runnerRounds, _ := strconv.Atoi(os.Getenv("VERIF_C16_RUNS"))
	if runnerRounds <= 0 {
		runnerRounds = 40
	}
	rng := rand.New(rand.NewSource(seed*7919 + 16))
	ncpu := runtime.NumCPU()
	oracles := 0

	for p := 0; p < nproj; p++ {
		// project p: the first project has every change kind once (in seeded order), the others a seeded choice
		kinds := make([]int, 0, ntargets)
		if p == 0 {
			kinds = rng.Perm(len(c16changes))
		} else {
			for i := 0; i < ntargets; i++ {
				kinds = append(kinds, rng.Intn(len(c16changes)))
			}
		}
		v1, v2 := c16buildFile(kinds, false), c16buildFile(kinds, true)
		oracle := func(name, detail string) {
			oracles++
			fmt.Fprintf(w, "ORACLE\t%s\tBUILD.dawn v1 (hex) %s\tBUILD.dawn v2 (hex) %s\t%s\n", name,
				hex.EncodeToString([]byte(v1)), hex.EncodeToString([]byte(v2)), detail)
		}
		dir := t.TempDir()
		write := func(text string) {
			if err := os.WriteFile(filepath.Join(dir, "dawn.toml"), nil, 0o644); err != nil {
				t.Fatal(err)
			}
			if err := os.WriteFile(filepath.Join(dir, "BUILD.dawn"), []byte(text), 0o644); err != nil {
				t.Fatal(err)
			}
		}
		evs := &c16events{}
		evs.reset()
		opts := &LoadOptions{Events: evs, Builtins: starlark.StringDict{"os": starlark_os.Module}}
		def, _ := label.Parse("//:all")

		write(v1)
		proj, err := Load(dir, opts)
		if err != nil {
			t.Fatalf("project %d v1 does not load: %v\n%s", p, err, v1)
		}
		if err := proj.Run(def, nil); err != nil {
			t.Fatalf("project %d v1 does not build: %v", p, err)
		}
		write(v2)
		proj, err = Load(dir, opts)
		if err != nil {
			t.Fatalf("project %d v2 does not load: %v\n%s", p, err, v2)
		}

		// (a) one at a time
		var targets []c16target
		for i, k := range kinds {
			name := "//:t" + strconv.Itoa(i)
			rt, ok := proj.targets[name]
			if !ok {
				t.Fatalf("project %d: no target %s", p, name)
			}
			f := rt.target.(*function)
			alone := c16upToDate(f)
			differing, comparable := c16envDiffers(f.oldEnv, f.newEnv)
			fmt.Fprintf(w, "T\t%d\t%s\t%s\t%s\t%s\n", p, name, c16changes[k].name, c16wantKeys(differing), alone.reason)
			if alone.st != "ok" {
				oracle("up-to-date-check-"+alone.st, fmt.Sprintf("target %s (%s): %s", name, c16changes[k].name, alone.detail))
				continue
			}
			if !comparable {
				oracle("environment-is-a-dict", fmt.Sprintf("target %s (%s): old %s new %s", name, c16changes[k].name, f.oldEnv.Type(), f.newEnv.Type()))
				continue
			}
			if alone.up && len(differing) != 0 {
				oracle("reason-names-exactly-differing-keys", fmt.Sprintf("target %s (%s), checked alone: called up to date; parts that differ: [%s]", name, c16changes[k].name, c16wantKeys(differing)))
				continue
			}
			if !alone.up {
				if !c16reasonNames(alone.reason, differing) {
					oracle("reason-names-exactly-differing-keys", fmt.Sprintf("target %s (%s), checked alone: reason %q; parts that differ: [%s]", name, c16changes[k].name, alone.reason, c16wantKeys(differing)))
					continue
				}
				if alone.diffKeys != "-" && alone.diffKeys != c16wantKeys(differing) {
					oracle("diff-shown-with-reason-has-the-differing-keys", fmt.Sprintf("target %s (%s), checked alone: reason %q, diff has edits at [%s]; parts that differ: [%s]", name, c16changes[k].name, alone.reason, alone.diffKeys, c16wantKeys(differing)))
					continue
				}
			}
			targets = append(targets, c16target{name: name + " (" + c16changes[k].name + ")", f: f, alone: alone, differing: differing, check: c16upToDate})
		}

		// (b) all at the same time, through upToDate
		type sch struct{ workers, procs int }
		scheds := []sch{{len(targets), ncpu}, {2, 2}, {4, 4}, {8, 8}, {len(targets), 2}}
		per := time.Duration(budgetMs) * time.Millisecond / time.Duration(len(scheds)*nproj)
		for i, sc := range scheds {
			checks, failed := c16siblings(targets, sc.workers, sc.procs, seed*100+int64(p*10+i), per, 3, func(tg *c16target, got c16obs, sched string) {
				oracle("reason-of-a-target-independent-of-concurrently-checked-siblings",
					fmt.Sprintf("target %s: checked while its %d siblings are checked (%s): up to date %v reason %q diff edits at [%s] %s %s; checked alone: up to date %v reason %q diff edits at [%s]; %s; parts of ITS environment that differ: [%s]",
						tg.name, len(targets)-1, sched, got.up, got.reason, got.diffKeys, got.st, got.detail,
						tg.alone.up, tg.alone.reason, tg.alone.diffKeys, c16short(got.diffText, tg.alone.diffText), c16wantKeys(tg.differing)))
			})
			fmt.Fprintf(w, "CONC\tupToDate-project-%d\tworkers=%d GOMAXPROCS=%d\t%d\t%d\n", p, sc.workers, sc.procs, checks, failed)
		}

		w.Flush() // a panic on a goroutine of the runner cannot be recovered here: keep what has been seen
		// (c) the runner's own events (dry runs leave the records alone, so every run must show the same reasons)
		want := map[string]c16target{}
		for _, tg := range targets {
			want[strings.SplitN(tg.name, " ", 2)[0]] = tg
		}
		var checks, failed int64
		for r := 0; r < runnerRounds && failed < 3; r++ {
			evs.reset()
			if err := proj.Run(def, &RunOptions{DryRun: true}); err != nil {
				oracle("dry-run-fails", fmt.Sprintf("run %d: %v", r, err))
				failed++
				break
			}
			evs.m.Lock()
			for name, tg := range want {
				got, ok := evs.reasons[name]
				checks++
				bad := !ok || evs.seen[name] != 1 || got.up != tg.alone.up || got.reason != tg.alone.reason
				if !bad && !got.up && (got.diffKeys != tg.alone.diffKeys || got.diffText != tg.alone.diffText) {
					bad = true
				}
				if bad {
					failed++
					oracle("reason-shown-by-the-runner-names-exactly-differing-keys",
						fmt.Sprintf("target %s, dry run %d of //:all: events for it %d, shown: up to date %v reason %q diff edits at [%s]; checked alone: up to date %v reason %q diff edits at [%s]; %s; parts of ITS environment that differ: [%s]",
							tg.name, r, evs.seen[name], got.up, got.reason, got.diffKeys, tg.alone.up, tg.alone.reason, tg.alone.diffKeys, c16short(got.diffText, tg.alone.diffText), c16wantKeys(tg.differing)))
					if failed >= 3 {
						break
					}
				}
			}
			evs.m.Unlock()
		}
		fmt.Fprintf(w, "CONC\trunner-project-%d\tdry runs of //:all (%d targets)\t%d\t%d\n", p, len(targets), checks, failed)
	}
	t.Logf("C16 targets: %d oracle failures", oracles)
}
