package dawn

// C16, last clause, on REAL targets: "the rebuild reason shown for a target names exactly the parts of its
// environment that differ".  Added through `go test -overlay`.
//
// A seeded family of projects is generated: N sibling targets, each of which changes between two versions of the
// project in a way drawn from a list of change kinds (constants, universals, globals, predeclared attributes, nested
// functions, default parameters, free variables, code only, several at once, nothing).  Version 1 is built, version 2
// is loaded, and for every target the parts that differ are computed DIRECTLY from its recorded and its new
// environment (key by key, starlark.Equal) -- not through diffEnv.  Then the reason is observed
//   (a) from upToDate, one target at a time,
//   (b) from upToDate, all targets at the same time, over a family of schedules (see c16siblings),
//   (c) from the TargetEvaluating events of the runner itself (dry runs, so the records stay as they are), which
//       checks every target on a goroutine of its own,
// and in all three it must name exactly those parts, and the diff handed out with it must have edits at exactly
// those keys.
//
// Writes to $VERIF_OUT_TARGETS:
//   T \t <project> \t <target> \t <change kind> \t <differing keys> \t <reason alone>
//   CONC \t <family> \t <schedule> \t <checks> \t <failures>
//   ORACLE \t <name> \t <project: hex BUILD.dawn v1> \t <hex BUILD.dawn v2> \t <target, observed, expected, schedule>

import (
	"bufio"
	"encoding/hex"
	"fmt"
	"math/rand"
	"os"
	"path/filepath"
	"runtime"
	"strconv"
	"strings"
	"sync"
	"testing"
	"time"

	"github.com/pgavlin/dawn/diff"
	"github.com/pgavlin/dawn/label"
	starlark_os "github.com/pgavlin/dawn/lib/os"
	"go.starlark.net/starlark"
)

// a change kind: prelude and body of the target before and after (%d = the target's index)
type c16change struct {
	name                       string
	preBefore, preAfter        string
	bodyBefore, bodyAfter      string
	defBefore, defAfter        string // parameter list of a helper H%d defined in the prelude ("" = no helper)
	factoryBefore, factoryAfter string // argument v of the factory whose locals v and w = (v, "!") the target can capture ("" = plain target)
	paramsBefore, paramsAfter   string // parameter list of the target itself
}

// kinds that change the tables of the whole module (names, universals, predeclared): the operands of every function's
// bytecode move with them, so "code" differs for every sibling.  The second project leaves them out, so that there a
// part that differs is the ONLY part that differs.
var c16moduleWide = map[string]bool{"universal": true, "constant-and-universal": true, "predeclared-attribute": true,
	"global-to-universal-name": true, "predeclared-module": true, "predeclared-module-dropped": true}

var c16changes = []c16change{
	{name: "nothing", bodyBefore: `print("same %d")`, bodyAfter: `print("same %d")`},
	{name: "constant", bodyBefore: `print("old %d")`, bodyAfter: `print("new %d")`},
	{name: "universal", bodyBefore: `print(len("x"))`, bodyAfter: `print(str("x"))`},
	{name: "global-string", preBefore: "G%d = \"old\"\n", preAfter: "G%d = \"new\"\n", bodyBefore: `print(G%d)`, bodyAfter: `print(G%d)`},
	{name: "global-list-longer", preBefore: "G%d = [1, 2]\n", preAfter: "G%d = [1, 2, 3]\n", bodyBefore: `print(G%d)`, bodyAfter: `print(G%d)`},
	{name: "global-dict-value", preBefore: "G%d = {\"k\": (1, 2)}\n", preAfter: "G%d = {\"k\": (1, 3)}\n", bodyBefore: `print(G%d)`, bodyAfter: `print(G%d)`},
	{name: "predeclared-attribute", bodyBefore: `print(os.getcwd)`, bodyAfter: `print(os.exists)`},
	{name: "more-arguments", bodyBefore: `print(1)`, bodyAfter: `print(1, 2)`},
	{name: "constant-and-universal", bodyBefore: `print("six %d", len)`, bodyAfter: `print("SIX %d", dir)`},
	{name: "nested-function", bodyBefore: `print((lambda: 1)())`, bodyAfter: `print((lambda: 2)())`},
	{name: "helper-default-parameter", defBefore: "a=1", defAfter: "a=2", bodyBefore: `print(H%d())`, bodyAfter: `print(H%d())`},
	{name: "helper-body", preBefore: "def H%d():\n    return 1\n", preAfter: "def H%d():\n    return 2\n", bodyBefore: `print(H%d())`, bodyAfter: `print(H%d())`},
	{name: "free-variable", factoryBefore: `"old"`, factoryAfter: `"new"`, bodyBefore: `print(v)`, bodyAfter: `print(v)`},
	{name: "global-to-universal-name", preBefore: "G%d = 1\n", preAfter: "G%d = 1\n", bodyBefore: `print(G%d)`, bodyAfter: `print(len)`},
	{name: "statement-order", bodyBefore: "x = 1\n    y = 2\n    print(x, y)", bodyAfter: "y = 2\n    x = 1\n    print(x, y)"},
	// every part of the environment that the unpickler builds, as far as possible as the ONLY part that differs, ...
	{name: "default-parameter", paramsBefore: `self, mode="old"`, paramsAfter: `self, mode="new"`, bodyBefore: `print(mode)`, bodyAfter: `print(mode)`},
	{name: "default-parameter-added", paramsBefore: `self, a=1`, paramsAfter: `self, a=1, b=2`, bodyBefore: `print(a)`, bodyAfter: `print(a)`},
	{name: "default-parameter-of-closure", factoryBefore: `"same"`, factoryAfter: `"same"`, paramsBefore: `self, a=(1, 2)`, paramsAfter: `self, a=(1, 3)`, bodyBefore: `print(a, v)`, bodyAfter: `print(a, v)`},
	{name: "free-variable-local", factoryBefore: `"old"`, factoryAfter: `"new"`, bodyBefore: `print(w)`, bodyAfter: `print(w)`},
	{name: "free-variable-and-constant", factoryBefore: `"old"`, factoryAfter: `"new"`, bodyBefore: `print(v, "a %d")`, bodyAfter: `print(v, "b %d")`},
	{name: "free-variable-one-more-captured", factoryBefore: `"same"`, factoryAfter: `"same"`, bodyBefore: `print(v)`, bodyAfter: `print(v, w)`},
	{name: "free-variable-and-default", factoryBefore: `1`, factoryAfter: `2`, paramsBefore: `self, a=1`, paramsAfter: `self, a=2`, bodyBefore: `print(a, v)`, bodyAfter: `print(a, v)`},
	{name: "predeclared-module", bodyBefore: `print(len)`, bodyAfter: `print(os)`},
	{name: "predeclared-module-dropped", bodyBefore: `print(os, len)`, bodyAfter: `print(len, len)`},
	// ... and values that read as "nothing" (None is what a look-up of a missing key hands back) inside those parts
	{name: "global-none-to-value", preBefore: "G%d = None\n", preAfter: "G%d = \"x\"\n", bodyBefore: `print(G%d)`, bodyAfter: `print(G%d)`},
	{name: "global-value-to-none", preBefore: "G%d = \"x\"\n", preAfter: "G%d = None\n", bodyBefore: `print(G%d)`, bodyAfter: `print(G%d)`},
	{name: "global-none-kept", preBefore: "G%d = None\nK%d = 1\n", preAfter: "G%d = None\nK%d = 2\n", bodyBefore: `print(G%d, K%d)`, bodyAfter: `print(G%d, K%d)`},
	{name: "global-none-newly-used", preBefore: "G%d = None\nK%d = 1\n", preAfter: "G%d = None\nK%d = 1\n", bodyBefore: `print(K%d, K%d)`, bodyAfter: `print(K%d, G%d)`},
	{name: "global-dict-with-none", preBefore: "G%d = {\"a\": None, \"b\": 1, \"c\": 0}\n", preAfter: "G%d = {\"a\": None, \"b\": None, \"c\": 1}\n", bodyBefore: `print(G%d)`, bodyAfter: `print(G%d)`},
	{name: "free-variable-none-to-value", factoryBefore: `None`, factoryAfter: `"x"`, bodyBefore: `print(v)`, bodyAfter: `print(v)`},
	{name: "free-variable-value-to-none", factoryBefore: `0`, factoryAfter: `None`, bodyBefore: `print(v, w)`, bodyAfter: `print(v, w)`},
	{name: "default-parameter-none-to-value", paramsBefore: `self, a=None, b=1`, paramsAfter: `self, a=1, b=1`, bodyBefore: `print(a, b)`, bodyAfter: `print(a, b)`},
	// ... and numbers that change type without changing value (1 == 1.0: such an element is kept, not changed), alone and
	// next to an element that does change
	{name: "constant-retyped", bodyBefore: `print(1, 2, "k %d")`, bodyAfter: `print(1.0, 2, "k %d")`},
	{name: "constant-retyped-and-constant", bodyBefore: `print(1, "a %d")`, bodyAfter: `print(1.0, "b %d")`},
	{name: "global-tuple-retyped-and-changed", preBefore: "G%d = (1, 2, \"x\", 3)\n", preAfter: "G%d = (1.0, 2, \"y\", 3.0)\n", bodyBefore: `print(G%d)`, bodyAfter: `print(G%d)`},
	{name: "global-list-retyped-shorter", preBefore: "G%d = [1, \"x\", 2]\n", preAfter: "G%d = [1.0, \"y\"]\n", bodyBefore: `print(G%d)`, bodyAfter: `print(G%d)`},
	{name: "default-parameter-retyped-and-changed", paramsBefore: `self, a=(0, 1, "p")`, paramsAfter: `self, a=(0.0, 1.0, "q")`, bodyBefore: `print(a)`, bodyAfter: `print(a)`},
	{name: "default-parameter-none-kept", paramsBefore: `self, a=None, b=1`, paramsAfter: `self, a=None, b=2`, bodyBefore: `print(a, b)`, bodyAfter: `print(a, b)`},
}

func c16sub(s string, i int) string {
	if strings.Contains(s, "%d") {
		return strings.ReplaceAll(s, "%d", strconv.Itoa(i))
	}
	return s
}

// c16buildFile renders one version of a project whose target i changes by kinds[i].
func c16buildFile(kinds []int, after bool) string {
	var b strings.Builder
	pick := func(x, y string) string {
		if after {
			return y
		}
		return x
	}
	var deps []string
	for i, k := range kinds {
		c := c16changes[k]
		b.WriteString(c16sub(pick(c.preBefore, c.preAfter), i))
		if c.defBefore != "" {
			fmt.Fprintf(&b, "def H%d(%s):\n    return a\n", i, pick(c.defBefore, c.defAfter))
		}
		body := c16sub(pick(c.bodyBefore, c.bodyAfter), i)
		params := pick(c.paramsBefore, c.paramsAfter)
		if c.factoryBefore != "" {
			fmt.Fprintf(&b, "def mk%d(v):\n    w = (v, \"!\")\n    @target(name=\"t%d\")\n    def t(%s):\n        %s\n    return t\n\nmk%d(%s)\n\n", i, i, params, body, i, pick(c.factoryBefore, c.factoryAfter))
		} else {
			fmt.Fprintf(&b, "@target()\ndef t%d(%s):\n    %s\n\n", i, params, body)
		}
		deps = append(deps, fmt.Sprintf("%q", ":t"+strconv.Itoa(i)))
	}
	fmt.Fprintf(&b, "@target(default=True, deps=[%s])\ndef all():\n    pass\n", strings.Join(deps, ", "))
	return b.String()
}

type c16events struct {
	discardEventsT
	m       sync.Mutex
	reasons map[string]c16obs
	seen    map[string]int
}

func (e *c16events) TargetEvaluating(l *label.Label, reason string, d diff.ValueDiff) {
	e.m.Lock()
	defer e.m.Unlock()
	e.reasons[l.String()] = c16obs{reason: reason, diffKeys: c16diffKeysAll(d), st: "ok", diffText: c16diffText(d)}
	e.seen[l.String()]++
}

func (e *c16events) TargetUpToDate(l *label.Label) {
	e.m.Lock()
	defer e.m.Unlock()
	e.reasons[l.String()] = c16obs{up: true, diffKeys: "-", st: "ok"}
	e.seen[l.String()]++
}

func (e *c16events) reset() {
	e.m.Lock()
	defer e.m.Unlock()
	e.reasons, e.seen = map[string]c16obs{}, map[string]int{}
}

// c16envKeys lists the keys of an environment in insertion order (strings as they are, anything else rendered).
func c16envKeys(d *starlark.Dict) []string {
	var ks []string
	for _, k := range d.Keys() {
		if s, ok := k.(starlark.String); ok {
			ks = append(ks, string(s))
		} else {
			ks = append(ks, k.String())
		}
	}
	return ks
}

// c16envDiffers computes, without diffEnv or the diff package, the parts at which two environments differ: EVERY key
// of either environment (not just the keys diffEnv has a name for) that is bound in one only or bound to unequal values.
func c16envDiffers(o, n starlark.Value) (map[string]bool, bool) {
	od, ok1 := o.(*starlark.Dict)
	nd, ok2 := n.(*starlark.Dict)
	if !ok1 || !ok2 {
		return nil, false
	}
	res := map[string]bool{}
	done := map[string]bool{}
	for _, d := range []*starlark.Dict{od, nd} {
		for _, k := range d.Keys() {
			name := k.String()
			if s, ok := k.(starlark.String); ok {
				name = string(s)
			}
			if done[name] {
				continue
			}
			done[name] = true
			ov, ofound, _ := od.Get(k)
			nv, nfound, _ := nd.Get(k)
			switch {
			case ofound != nfound:
				res[name] = true
			case ofound:
				eq, err := starlark.Equal(ov, nv)
				if err != nil {
					return nil, false
				}
				if !eq {
					res[name] = true
				}
			}
		}
	}
	return res, true
}

// c16shownDiffFaithful walks the diff handed out with the reason (what `--diff` prints for the target) next to the two
// values it is a diff of, and checks the mapping clause on every mapping diff in it -- the one of the environment
// itself and those nested in it (global values, default parameter values, free variables, dicts bound to globals,
// function values): an edit for exactly the keys removed / added / changed, of that kind, carrying that value, with
// "bound" decided by the look-up's found flag, never by the value.  Returns descriptions of what is wrong.
func c16shownDiffFaithful(d diff.ValueDiff, o, n starlark.Value, path string, depth int) (fails []string) {
	defer func() {
		if x := recover(); x != nil {
			fails = append(fails, fmt.Sprintf("%s: walking the diff panics: %v", path, x))
		}
	}()
	if d == nil || depth > 40 {
		return nil
	}
	same := func(x, y starlark.Value) bool {
		eq, err := starlark.Equal(x, y)
		return err != nil || eq
	}
	if !same(d.Old(), o) || c16type(d.Old()) != c16type(o) {
		fails = append(fails, fmt.Sprintf("%s: old side of the diff is %.80s, the old value is %.80s", path, d.Old().String(), o.String()))
	}
	if !same(d.New(), n) || c16type(d.New()) != c16type(n) {
		fails = append(fails, fmt.Sprintf("%s: new side of the diff is %.80s, the new value is %.80s", path, d.New().String(), n.String()))
	}
	switch d := d.(type) {
	case *diff.MappingDiff:
		om, ok1 := o.(starlark.IterableMapping)
		nm, ok2 := n.(starlark.IterableMapping)
		if !ok1 || !ok2 {
			return append(fails, path+": mapping diff of values that are not both mappings")
		}
		want, seen := 0, map[string]bool{}
		for _, m := range []starlark.IterableMapping{om, nm} {
			it := m.Iterate()
			var k starlark.Value
			for it.Next(&k) {
				if seen[k.String()] {
					continue
				}
				seen[k.String()] = true
				ov, inO, _ := om.Get(k)
				nv, inN, _ := nm.Get(k)
				ev, has, _ := d.Edits().Get(k)
				var e *diff.Edit
				if has {
					e, _ = ev.(*diff.Edit)
				}
				at := path + "[" + k.String() + "]"
				switch {
				case inO && !inN:
					want++
					if e == nil || e.Kind() != diff.EditKindDelete || e.Len() != 1 || !same(e.Index(0), ov) {
						fails = append(fails, fmt.Sprintf("%s: key removed (was %.60s): edit %v", at, ov.String(), c16editText(ev)))
					}
				case !inO && inN:
					want++
					if e == nil || e.Kind() != diff.EditKindAdd || e.Len() != 1 || !same(e.Index(0), nv) {
						fails = append(fails, fmt.Sprintf("%s: key added (now %.60s): edit %v", at, nv.String(), c16editText(ev)))
					}
				case same(ov, nv):
					if has {
						fails = append(fails, fmt.Sprintf("%s: key bound to %.60s in both, unchanged: edit %v", at, ov.String(), c16editText(ev)))
					}
				default:
					want++
					if e == nil || e.Kind() != diff.EditKindReplace || e.Len() != 1 {
						fails = append(fails, fmt.Sprintf("%s: key bound in both, changed from %.60s to %.60s: edit %v", at, ov.String(), nv.String(), c16editText(ev)))
						continue
					}
					inner, ok := e.Index(0).(diff.ValueDiff)
					if !ok {
						fails = append(fails, fmt.Sprintf("%s: replace edit without a diff: %v", at, c16editText(ev)))
						continue
					}
					fails = append(fails, c16shownDiffFaithful(inner, ov, nv, at, depth+1)...)
				}
			}
			it.Done()
		}
		if got := d.Edits().(interface{ Len() int }).Len(); got != want {
			fails = append(fails, fmt.Sprintf("%s: %d edits, %d keys removed, added or changed", path, got, want))
		}
	case *diff.SliceableDiff:
		// the sequence clause: kept + deleted + old sides of replacements are the old value's elements, kept + added +
		// new sides the new value's, in order (up to Starlark's equality, which is not "same type": 1 == 1.0)
		os, ok1 := o.(starlark.Sliceable)
		ns, ok2 := n.(starlark.Sliceable)
		if !ok1 || !ok2 {
			return append(fails, path+": sequence diff of values that are not both sequences")
		}
		elems := func(v starlark.Value) (r []starlark.Value) {
			if s, ok := v.(starlark.Sliceable); ok {
				for i := 0; i < s.Len(); i++ {
					r = append(r, s.Index(i))
				}
			}
			return r
		}
		stringlike := func(v starlark.Value) bool {
			switch v.(type) {
			case starlark.String, starlark.Bytes:
				return true
			}
			return false
		}
		oStr, nStr := stringlike(o), stringlike(n)
		var olds, news []starlark.Value
		for _, ev := range d.Edits() {
			e, ok := ev.(*diff.Edit)
			if !ok {
				fails = append(fails, path+": an edit that is not an Edit")
				continue
			}
			switch e.Kind() {
			case diff.EditKindCommon:
				olds = append(olds, elems(e.Sliceable)...)
				news = append(news, elems(e.Sliceable)...)
			case diff.EditKindDelete:
				olds = append(olds, elems(e.Sliceable)...)
			case diff.EditKindAdd:
				news = append(news, elems(e.Sliceable)...)
			case diff.EditKindReplace:
				for i := 0; i < e.Len(); i++ {
					inner, ok := e.Index(i).(diff.ValueDiff)
					if !ok {
						fails = append(fails, fmt.Sprintf("%s: entry %d of a replace edit is %s: it has neither an old nor a new side", path, i, e.Index(i).String()))
						continue
					}
					if oStr && nStr {
						olds = append(olds, elems(inner.Old())...)
						news = append(news, elems(inner.New())...)
					} else {
						olds = append(olds, inner.Old())
						news = append(news, inner.New())
						fails = append(fails, c16shownDiffFaithful(inner, inner.Old(), inner.New(), path+"(..)", depth+1)...)
					}
				}
			}
		}
		sameSeq := func(got []starlark.Value, want starlark.Sliceable) bool {
			if len(got) != want.Len() {
				return false
			}
			for i, g := range got {
				if !same(g, want.Index(i)) {
					return false
				}
			}
			return true
		}
		if !sameSeq(olds, os) {
			fails = append(fails, fmt.Sprintf("%s: kept + deleted + old sides of the edits are %d elements %.80s, the old value is %.80s", path, len(olds), starlark.Tuple(olds).String(), o.String()))
		}
		if !sameSeq(news, ns) {
			fails = append(fails, fmt.Sprintf("%s: kept + added + new sides of the edits are %d elements %.80s, the new value is %.80s", path, len(news), starlark.Tuple(news).String(), n.String()))
		}
	}
	return fails
}

func c16type(v starlark.Value) string { return v.Type() }

func c16editText(ev starlark.Value) string {
	if ev == nil {
		return "none"
	}
	s := ev.String()
	if len(s) > 120 {
		s = s[:120] + "..."
	}
	return s
}

func c16upToDate(f *function) (r c16obs) {
	defer func() {
		if x := recover(); x != nil {
			r.st, r.detail = "panic", fmt.Sprint(x)
		}
	}()
	up, reason, d, err := f.upToDate()
	r = c16obs{up: up, reason: reason, diffKeys: c16diffKeysAll(d), st: "ok", diffText: c16diffText(d)}
	if err != nil {
		r.st, r.detail = "err", err.Error()
	}
	return
}

func TestVerifC16Targets(t *testing.T) {
	outPath := os.Getenv("VERIF_OUT_TARGETS")
	if outPath == "" {
		t.Skip("VERIF_OUT_TARGETS not set")
	}
	of, err := os.Create(outPath)
	if err != nil {
		t.Fatal(err)
	}
	defer of.Close()
	w := bufio.NewWriter(of)
	defer w.Flush()

	seed, _ := strconv.ParseInt(os.Getenv("VERIF_SEED"), 10, 64)
	nproj, _ := strconv.Atoi(os.Getenv("VERIF_C16_PROJECTS"))
	if nproj <= 0 {
		nproj = 3
	}
	ntargets, _ := strconv.Atoi(os.Getenv("VERIF_C16_TARGETS"))
	if ntargets <= 0 {
		ntargets = 16
	}
	budgetMs, _ := strconv.Atoi(os.Getenv("VERIF_C16_CONC_MS"))
	if budgetMs <= 0 {
		budgetMs = 1500
	}
	runnerRounds, _ := strconv.Atoi(os.Getenv("VERIF_C16_RUNS"))
	if runnerRounds <= 0 {
		runnerRounds = 40
	}
	rng := rand.New(rand.NewSource(seed*7919 + 16))
	ncpu := runtime.NumCPU()
	oracles := 0
	envKeysSeen := map[string]bool{}

	for p := 0; p < nproj; p++ {
		// project p: the first project has every change kind once (in seeded order), the second every kind that leaves the
		// module's tables alone, the others a seeded choice
		kinds := make([]int, 0, ntargets)
		if p == 0 {
			kinds = rng.Perm(len(c16changes))
		} else if p == 1 {
			for _, k := range rng.Perm(len(c16changes)) {
				if !c16moduleWide[c16changes[k].name] {
					kinds = append(kinds, k)
				}
			}
		} else {
			for i := 0; i < ntargets; i++ {
				kinds = append(kinds, rng.Intn(len(c16changes)))
			}
		}
		v1, v2 := c16buildFile(kinds, false), c16buildFile(kinds, true)
		oracle := func(name, detail string) {
			oracles++
			fmt.Fprintf(w, "ORACLE\t%s\tBUILD.dawn v1 (hex) %s\tBUILD.dawn v2 (hex) %s\t%s\n", name,
				hex.EncodeToString([]byte(v1)), hex.EncodeToString([]byte(v2)), detail)
		}
		dir := t.TempDir()
		write := func(text string) {
			if err := os.WriteFile(filepath.Join(dir, "dawn.toml"), nil, 0o644); err != nil {
				t.Fatal(err)
			}
			if err := os.WriteFile(filepath.Join(dir, "BUILD.dawn"), []byte(text), 0o644); err != nil {
				t.Fatal(err)
			}
		}
		evs := &c16events{}
		evs.reset()
		opts := &LoadOptions{Events: evs, Builtins: starlark.StringDict{"os": starlark_os.Module}}
		def, _ := label.Parse("//:all")

		write(v1)
		proj, err := Load(dir, opts)
		if err != nil {
			t.Fatalf("project %d v1 does not load: %v\n%s", p, err, v1)
		}
		if err := proj.Run(def, nil); err != nil {
			t.Fatalf("project %d v1 does not build: %v", p, err)
		}
		write(v2)
		proj, err = Load(dir, opts)
		if err != nil {
			t.Fatalf("project %d v2 does not load: %v\n%s", p, err, v2)
		}

		// (a) one at a time
		var targets []c16target
		for i, k := range kinds {
			name := "//:t" + strconv.Itoa(i)
			rt, ok := proj.targets[name]
			if !ok {
				t.Fatalf("project %d: no target %s", p, name)
			}
			f := rt.target.(*function)
			alone := c16upToDate(f)
			differing, comparable := c16envDiffers(f.oldEnv, f.newEnv)
			for _, e := range []starlark.Value{f.oldEnv, f.newEnv} {
				if ed, ok := e.(*starlark.Dict); ok {
					if ks := strings.Join(c16envKeys(ed), "|"); !envKeysSeen[ks] {
						envKeysSeen[ks] = true
						fmt.Fprintf(w, "ENVKEYS\t%s\t%s\n", hex.EncodeToString([]byte(ks)), name+" of project "+strconv.Itoa(p))
					}
				}
			}
			fmt.Fprintf(w, "T\t%d\t%s\t%s\t%s\t%s\n", p, name, c16changes[k].name, c16wantKeys(differing), alone.reason)
			if alone.st != "ok" {
				oracle("up-to-date-check-"+alone.st, fmt.Sprintf("target %s (%s): %s", name, c16changes[k].name, alone.detail))
				continue
			}
			if !comparable {
				oracle("environment-is-a-dict", fmt.Sprintf("target %s (%s): old %s new %s", name, c16changes[k].name, f.oldEnv.Type(), f.newEnv.Type()))
				continue
			}
			if alone.up && len(differing) != 0 {
				oracle("reason-names-exactly-differing-keys", fmt.Sprintf("target %s (%s), checked alone: called up to date; parts that differ: [%s]", name, c16changes[k].name, c16wantKeys(differing)))
				continue
			}
			if !alone.up {
				if !c16reasonNames(alone.reason, differing) {
					oracle("reason-names-exactly-differing-keys", fmt.Sprintf("target %s (%s), checked alone: reason %q; parts that differ: [%s]", name, c16changes[k].name, alone.reason, c16wantKeys(differing)))
					continue
				}
				if alone.diffKeys != "-" && alone.diffKeys != c16wantKeys(differing) {
					oracle("diff-shown-with-reason-has-the-differing-keys", fmt.Sprintf("target %s (%s), checked alone: reason %q, diff has edits at [%s]; parts that differ: [%s]", name, c16changes[k].name, alone.reason, alone.diffKeys, c16wantKeys(differing)))
					continue
				}
				if _, _, shown, serr := f.upToDate(); serr == nil && shown != nil {
					if fails := c16shownDiffFaithful(shown, f.oldEnv, f.newEnv, "env", 0); len(fails) != 0 {
						if len(fails) > 4 {
							fails = fails[:4]
						}
						oracle("mapping-edits-of-the-diff-shown-for-a-target", fmt.Sprintf("target %s (%s), checked alone: reason %q; in the diff shown with it: %s", name, c16changes[k].name, alone.reason, strings.Join(fails, " ;; ")))
						continue
					}
				}
			}
			targets = append(targets, c16target{name: name + " (" + c16changes[k].name + ")", f: f, alone: alone, differing: differing, check: c16upToDate})
		}

		// (b) all at the same time, through upToDate
		type sch struct{ workers, procs int }
		scheds := []sch{{len(targets), ncpu}, {2, 2}, {4, 4}, {8, 8}, {len(targets), 2}}
		per := time.Duration(budgetMs) * time.Millisecond / time.Duration(len(scheds)*nproj)
		for i, sc := range scheds {
			checks, failed := c16siblings(targets, sc.workers, sc.procs, seed*100+int64(p*10+i), per, 3, func(tg *c16target, got c16obs, sched string) {
				oracle("reason-of-a-target-independent-of-concurrently-checked-siblings",
					fmt.Sprintf("target %s: checked while its %d siblings are checked (%s): up to date %v reason %q diff edits at [%s] %s %s; checked alone: up to date %v reason %q diff edits at [%s]; %s; parts of ITS environment that differ: [%s]",
						tg.name, len(targets)-1, sched, got.up, got.reason, got.diffKeys, got.st, got.detail,
						tg.alone.up, tg.alone.reason, tg.alone.diffKeys, c16short(got.diffText, tg.alone.diffText), c16wantKeys(tg.differing)))
			})
			fmt.Fprintf(w, "CONC\tupToDate-project-%d\tworkers=%d GOMAXPROCS=%d\t%d\t%d\n", p, sc.workers, sc.procs, checks, failed)
		}

		w.Flush() // a panic on a goroutine of the runner cannot be recovered here: keep what has been seen
		// (c) the runner's own events (dry runs leave the records alone, so every run must show the same reasons)
		want := map[string]c16target{}
		for _, tg := range targets {
			want[strings.SplitN(tg.name, " ", 2)[0]] = tg
		}
		var checks, failed int64
		for r := 0; r < runnerRounds && failed < 3; r++ {
			evs.reset()
			if err := proj.Run(def, &RunOptions{DryRun: true}); err != nil {
				oracle("dry-run-fails", fmt.Sprintf("run %d: %v", r, err))
				failed++
				break
			}
			evs.m.Lock()
			for name, tg := range want {
				got, ok := evs.reasons[name]
				checks++
				bad := !ok || evs.seen[name] != 1 || got.up != tg.alone.up || got.reason != tg.alone.reason
				if !bad && !got.up && (got.diffKeys != tg.alone.diffKeys || got.diffText != tg.alone.diffText) {
					bad = true
				}
				if bad {
					failed++
					oracle("reason-shown-by-the-runner-names-exactly-differing-keys",
						fmt.Sprintf("target %s, dry run %d of //:all: events for it %d, shown: up to date %v reason %q diff edits at [%s]; checked alone: up to date %v reason %q diff edits at [%s]; %s; parts of ITS environment that differ: [%s]",
							tg.name, r, evs.seen[name], got.up, got.reason, got.diffKeys, tg.alone.up, tg.alone.reason, tg.alone.diffKeys, c16short(got.diffText, tg.alone.diffText), c16wantKeys(tg.differing)))
					if failed >= 3 {
						break
					}
				}
			}
			evs.m.Unlock()
		}
		fmt.Fprintf(w, "CONC\trunner-project-%d\tdry runs of //:all (%d targets)\t%d\t%d\n", p, len(targets), checks, failed)
	}
	t.Logf("C16 targets: %d oracle failures", oracles)
}
