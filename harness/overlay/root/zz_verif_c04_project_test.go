package dawn

// C04 at project level: the two halves of the statement that only exist where labels are written down and where a target's own
// work is more than its body.
//
//  1. "every target reachable from the requested one is loaded and evaluated at most once HOWEVER MANY DEPENDENTS REQUEST IT".
//     The runner keeps one record per label *string*; which strings reach it is decided where dependencies are declared
//     (target(deps=, sources=, generates=)), where a generated file is linked to its generator, and in Project.LoadTarget.
//     A dependent may write the label of a target in every way dawn accepts: canonical, relative to its package (":n",
//     "sub:n"), with empty path elements ("//lib/:n", "//lib//sub:n", "///lib:n", "sub/:n"), as the target object itself; a
//     source or generated file as "f", "./f", "x/../f", "/pkg/f", "../pkg/f", ".//f".  This harness generates projects in which
//     one target (file) is requested by several dependents under every pair of spellings (and all at once), builds them through
//     dawn.Load / Project.Run and counts, per *target object* (the raw labels seen by the runner are resolved through
//     Project.LoadTarget afterwards) and per source file: goroutines started, LoadTarget calls, Evaluating / final events,
//     body executions (counted by the body itself).
//
//  2. "a target continues past its dependency request only after every requested dependency has finished; the outcome it is
//     handed for each dependency is that dependency's actual outcome".  What a target does with its dependencies' results is
//     its up-to-date test, its body and what it records.  For a function target the work that looks at the dependencies' outputs
//     is the body; for a SOURCE-FILE target it is hashing the file, and a generated source file has its generator as its one
//     dependency.  The bodies here are a Go builtin (`probe`) so that the harness sees exactly when each runs and what it sees:
//     every generator writes fresh contents on every execution, the harness snapshots a target's outputs when its final event
//     arrives (in the target's own goroutine, before the runner publishes its status), and checks that
//       - a body starts only when each declared dependency has had its final event, and reads, for every source, the
//         contents snapshotted when that source's generator finished (body_saw_finished_deps);
//       - the stamp a source-file target ends the build with (in memory and in its record) is the hash of the file as its
//         generator left it (source_hashed_after_generator);
//       - a target's Evaluating / UpToDate event comes after the final event of each dependency (events_after_deps);
//       - the stamp recorded for each dependency is the dependency's stamp at the end of the build (handed_actual_outcome);
//       - Run's error is nil iff the requested target had a successful final event, and iff no failing target is reachable
//         (build_result_is_roots).
//     Family: generator -> file -> consumer chains (same / other package, several outputs, two stages, consumer also depending
//     on the generator, always-generators, generators with their own sources, fan-in) x generated file initially absent / stale
//     x slow / fast generator x histories build, build, edit / delete, build, build -- every build from a fresh Load.
//
// Plus seeded random projects mixing all of it.  Output ($VERIF_OUT): `PROJECT \t json` once per project, one JSON line per
// build, `ORACLE \t name \t build \t detail`, a final END line.

import (
	"bufio"
	"crypto/sha256"
	"encoding/hex"
	"encoding/json"
	"fmt"
	"math/rand"
	"os"
	"path"
	"path/filepath"
	"sort"
	"strings"
	"sync"
	"testing"
	"time"

	"github.com/pgavlin/dawn/diff"
	"github.com/pgavlin/dawn/internal/verifhook"
	"github.com/pgavlin/dawn/label"
	"go.starlark.net/starlark"
)

// ---------------------------------------------------------------------------------------------------------------- spec

type c04pRef struct {
	T     int    `json:"t"`     // index of the target referred to
	Def   bool   `json:"def"`   // refers to the package's synthesized default target of T (T has default=True)
	Kind  string `json:"kind"`  // spelling class
	Spell string `json:"spell"` // what is written (a Starlark expression)
}

type c04pPath struct {
	F     int    `json:"f"`
	Kind  string `json:"kind"`
	Spell string `json:"spell"` // the path as written
}

type c04pTarget struct {
	Pkg     string     `json:"pkg"`
	Name    string     `json:"name"`
	Deps    []c04pRef  `json:"deps,omitempty"`
	Srcs    []c04pPath `json:"srcs,omitempty"`
	Gens    []c04pPath `json:"gens,omitempty"`
	Fail    bool       `json:"fail,omitempty"`
	Always  bool       `json:"always,omitempty"`
	Default bool       `json:"default,omitempty"`
	DelayUS int        `json:"delay_us,omitempty"`
}

func (t *c04pTarget) canon() string { return t.Pkg + ":" + t.Name }

type c04pFile struct {
	Path       string `json:"path"` // slash path relative to the project root
	HasInitial bool   `json:"has_initial"`
	Initial    string `json:"initial,omitempty"`
	Generator  int    `json:"generator"` // -1: a plain source
}

type c04pStep struct {
	Op   string `json:"op"` // build | edit | delete
	File int    `json:"file,omitempty"`
}

type c04pProject struct {
	Name    string       `json:"name"`
	Family  string       `json:"family"`
	Targets []c04pTarget `json:"targets"`
	Files   []c04pFile   `json:"files"`
	Steps   []c04pStep   `json:"steps"`
	Root    int          `json:"root"`
}

func c04pPkgDir(pkg string) string { return strings.TrimPrefix(pkg, "//") }

// c04pUnder: the path of pkg relative to from when pkg is from or below it.
func c04pUnder(from, pkg string) (string, bool) {
	f, p := c04pPkgDir(from), c04pPkgDir(pkg)
	switch {
	case f == p:
		return "", true
	case f == "":
		return p, true
	case strings.HasPrefix(p, f+"/"):
		return p[len(f)+1:], true
	}
	return "", false
}

// (a relative label with a doubled inner slash is NOT a spelling of the same target: "lib//sub:n" names package //sub of project "lib")
var c04pLabelKinds = []string{"canon", "rel", "abs-trailing-slash", "abs-inner-slashes", "abs-leading-slashes", "rel-trailing-slash", "object"}

// c04pSpellLabel: how a dependent in package `from` may write the label pkg:name in the given class ("" if the class does not
// apply there).  "object" is decided by the caller (same file, defined earlier).
func c04pSpellLabel(kind, from, pkg, name string) string {
	rel, under := c04pUnder(from, pkg)
	q := func(s string) string { return fmt.Sprintf("%q", s) }
	switch kind {
	case "canon":
		return q(pkg + ":" + name)
	case "rel":
		if under {
			return q(rel + ":" + name)
		}
	case "abs-trailing-slash":
		return q(pkg + "/:" + name)
	case "abs-inner-slashes":
		if d := c04pPkgDir(pkg); strings.Contains(d, "/") {
			return q("//" + strings.Replace(d, "/", "//", 1) + ":" + name)
		}
	case "abs-leading-slashes":
		return q("/" + pkg + ":" + name)
	case "rel-trailing-slash":
		if under && rel != "" {
			return q(rel + "/:" + name)
		}
	}
	return ""
}

var c04pPathKinds = []string{"plain", "dot", "updown", "abs", "parent", "dslash"}

// c04pSpellPath: how a target in package `from` may write the path of the file p (relative to the root).
func c04pSpellPath(kind, from, p string) string {
	f := c04pPkgDir(from)
	plain := ""
	if f == "" {
		plain = p
	} else if strings.HasPrefix(p, f+"/") {
		plain = p[len(f)+1:]
	}
	switch kind {
	case "plain":
		if plain != "" {
			return plain
		}
		return "/" + p
	case "dot":
		if plain != "" {
			return "./" + plain
		}
	case "updown":
		if plain != "" {
			return "zz/../" + plain
		}
	case "abs":
		return "/" + p
	case "parent":
		if f != "" {
			return strings.Repeat("../", strings.Count(f, "/")+1) + p
		}
	case "dslash":
		if plain != "" {
			if strings.Contains(plain, "/") {
				return strings.Replace(plain, "/", "//", 1)
			}
			return ".//" + plain
		}
	}
	return ""
}

func c04pSourceLabel(p string) string {
	dir, base := path.Split(p)
	return "source://" + strings.TrimSuffix(dir, "/") + ":" + base
}

// buildFiles renders one BUILD.dawn per package.  Targets are written in descending index order (dependencies point to higher
// indices), so that a dependency passed as an object is defined before its dependent.
func (p *c04pProject) buildFiles() map[string]string {
	out := map[string]string{"//": ""}
	for i := len(p.Targets) - 1; i >= 0; i-- {
		t := &p.Targets[i]
		var args []string
		if len(t.Deps) > 0 {
			var xs []string
			for _, d := range t.Deps {
				xs = append(xs, d.Spell)
			}
			args = append(args, "deps=["+strings.Join(xs, ", ")+"]")
		}
		paths := func(name string, ps []c04pPath) {
			if len(ps) == 0 {
				return
			}
			var xs []string
			for _, s := range ps {
				xs = append(xs, fmt.Sprintf("%q", s.Spell))
			}
			args = append(args, name+"=["+strings.Join(xs, ", ")+"]")
		}
		paths("sources", t.Srcs)
		paths("generates", t.Gens)
		if t.Default {
			args = append(args, "default=True")
		}
		if t.Always {
			args = append(args, "always=True")
		}
		out[t.Pkg] += fmt.Sprintf("@target(%s)\ndef %s():\n    probe(%q)\n\n", strings.Join(args, ", "), t.Name, t.canon())
	}
	return out
}

// ------------------------------------------------------------------------------------------------------------- families

type c04pBuilder struct {
	p *c04pProject
}

func c04pNew(family, name string) *c04pBuilder {
	return &c04pBuilder{p: &c04pProject{Name: name, Family: family}}
}

func (b *c04pBuilder) target(pkg, name string) int {
	b.p.Targets = append(b.p.Targets, c04pTarget{Pkg: pkg, Name: name})
	return len(b.p.Targets) - 1
}

func (b *c04pBuilder) file(p string, generator int, initial *string) int {
	f := c04pFile{Path: p, Generator: generator}
	if initial != nil {
		f.HasInitial, f.Initial = true, *initial
	}
	b.p.Files = append(b.p.Files, f)
	return len(b.p.Files) - 1
}

// dep adds "from depends on to" spelled in the given class; falls back to the canonical spelling where the class does not apply.
func (b *c04pBuilder) dep(from, to int, kind string, def bool) string {
	f, t := &b.p.Targets[from], &b.p.Targets[to]
	name := t.Name
	if def {
		name = "default"
	}
	spell := ""
	if kind == "object" {
		if f.Pkg == t.Pkg && to > from && !def {
			spell = t.Name
		}
	} else {
		spell = c04pSpellLabel(kind, f.Pkg, t.Pkg, name)
	}
	if spell == "" {
		kind, spell = "canon", c04pSpellLabel("canon", f.Pkg, t.Pkg, name)
	}
	f.Deps = append(f.Deps, c04pRef{T: to, Def: def, Kind: kind, Spell: spell})
	return kind
}

func (b *c04pBuilder) pathRef(from, file int, kind string) c04pPath {
	spell := c04pSpellPath(kind, b.p.Targets[from].Pkg, b.p.Files[file].Path)
	if spell == "" {
		kind, spell = "abs", c04pSpellPath("abs", b.p.Targets[from].Pkg, b.p.Files[file].Path)
	}
	return c04pPath{F: file, Kind: kind, Spell: spell}
}

func (b *c04pBuilder) src(from, file int, kind string) {
	b.p.Targets[from].Srcs = append(b.p.Targets[from].Srcs, b.pathRef(from, file, kind))
}

func (b *c04pBuilder) gen(from, file int, kind string) {
	b.p.Targets[from].Gens = append(b.p.Targets[from].Gens, b.pathRef(from, file, kind))
	b.p.Files[file].Generator = from
}

func (b *c04pBuilder) builds(n int) *c04pBuilder {
	for i := 0; i < n; i++ {
		b.p.Steps = append(b.p.Steps, c04pStep{Op: "build"})
	}
	return b
}

func (b *c04pBuilder) step(op string, file int) *c04pBuilder {
	b.p.Steps = append(b.p.Steps, c04pStep{Op: op, File: file})
	return b
}

type c04pOpt struct{ kind, from string }

// labelOptions: every (spelling class, dependent's package) that writes pkg:name differently.
func c04pLabelOptions(pkg string) []c04pOpt {
	var out []c04pOpt
	seen := map[string]bool{}
	for _, from := range []string{"//app", pkg, "//", "//lib"} {
		for _, k := range c04pLabelKinds {
			s := ""
			if k == "object" {
				if from == pkg {
					s = "<object>"
				}
			} else {
				s = c04pSpellLabel(k, from, pkg, "g")
			}
			if s == "" || seen[s] {
				continue
			}
			seen[s] = true
			out = append(out, c04pOpt{k, from})
		}
	}
	return out
}

func c04pSpellFamily() []*c04pProject {
	var out []*c04pProject
	for _, pkg := range []string{"//", "//lib", "//lib/sub"} {
		opts := c04pLabelOptions(pkg)
		mk := func(name string, use []c04pOpt, variant string) {
			b := c04pNew("label-spellings", name)
			all := b.target("//", "all")
			var ds []int
			for i, o := range use {
				d := b.target(o.from, fmt.Sprintf("d%d", i))
				ds = append(ds, d)
				b.dep(all, d, "canon", false)
			}
			g := b.target(pkg, "g")
			switch variant {
			case "fail":
				b.p.Targets[g].Fail = true
			case "default":
				b.p.Targets[g].Default = true
			case "slow":
				b.p.Targets[g].DelayUS = 1500
			case "generator":
				f := b.file(path.Join(c04pPkgDir(pkg), "g.out"), g, nil)
				b.gen(g, f, "plain")
				b.src(all, f, "abs")
			}
			for i, o := range use {
				b.dep(ds[i], g, o.kind, variant == "default")
			}
			out = append(out, b.builds(1).p)
		}
		for i := 0; i < len(opts); i++ {
			for j := i + 1; j < len(opts); j++ {
				mk(fmt.Sprintf("spell%s_%s@%s_%s@%s", strings.ReplaceAll(pkg, "/", "-"), opts[i].kind, opts[i].from, opts[j].kind, opts[j].from),
					[]c04pOpt{opts[i], opts[j]}, "ok")
			}
		}
		for _, v := range []string{"ok", "fail", "default", "slow", "generator"} {
			mk(fmt.Sprintf("spell%s_all_%s", strings.ReplaceAll(pkg, "/", "-"), v), opts, v)
		}
	}
	return out
}

func c04pPathFamily() []*c04pProject {
	var out []*c04pProject
	type popt struct{ kind, from string }
	for _, fp := range []string{"in.txt", "lib/in.txt", "lib/data/in.txt"} {
		var opts []popt
		seen := map[string]bool{}
		for _, from := range []string{"//", "//lib", "//app"} {
			for _, k := range c04pPathKinds {
				s := c04pSpellPath(k, from, fp)
				if s == "" || seen[from+"\x00"+s] {
					continue
				}
				seen[from+"\x00"+s] = true
				opts = append(opts, popt{k, from})
			}
		}
		// plain source under every pair of spellings; generated source: generator's spelling x consumers' spellings
		for i := 0; i < len(opts); i++ {
			j := (i*7 + 3) % len(opts)
			k := (i*5 + 1) % len(opts)
			for _, generated := range []bool{false, true} {
				b := c04pNew("path-spellings", fmt.Sprintf("path_%s_%s@%s_%s@%s_%s@%s_gen=%v", strings.ReplaceAll(fp, "/", "-"),
					opts[i].kind, opts[i].from, opts[j].kind, opts[j].from, opts[k].kind, opts[k].from, generated))
				all := b.target("//", "all")
				c1, c2 := b.target(opts[i].from, "c1"), b.target(opts[j].from, "c2")
				b.dep(all, c1, "canon", false)
				b.dep(all, c2, "rel", false)
				init := "initial contents\n"
				var f int
				if generated {
					mkr := b.target(opts[k].from, "mk")
					f = b.file(fp, mkr, nil)
					b.gen(mkr, f, opts[k].kind)
				} else {
					f = b.file(fp, -1, &init)
					b.src(all, f, opts[k].kind)
				}
				b.src(c1, f, opts[i].kind)
				b.src(c2, f, opts[j].kind)
				b.builds(1)
				if generated {
					b.builds(1)
				}
				out = append(out, b.p)
			}
		}
	}
	return out
}

func c04pOrderFamily() []*c04pProject {
	var out []*c04pProject
	stale := "stale contents left by an earlier build\n"
	in0 := "input v0\n"
	for _, pre := range []*string{nil, &stale} {
		for _, delay := range []int{0, 1200} {
			tag := fmt.Sprintf("pre=%v_delay=%d", pre != nil, delay)
			add := func(b *c04pBuilder, editable, deletable int) {
				for i := range b.p.Targets {
					if len(b.p.Targets[i].Gens) > 0 {
						b.p.Targets[i].DelayUS = delay
					}
				}
				b.builds(2)
				if editable >= 0 {
					b.step("edit", editable).builds(2)
				}
				if deletable >= 0 {
					b.step("delete", deletable).builds(2)
				}
				b.p.Name += "_" + tag
				out = append(out, b.p)
			}
			// 1. chain in one package
			{
				b := c04pNew("generated-sources", "chain")
				use := b.target("//", "use")
				mk := b.target("//", "mk")
				f := b.file("out.txt", mk, pre)
				b.gen(mk, f, "plain")
				b.src(use, f, "plain")
				add(b, -1, f)
			}
			// 2. generator and consumer in different packages
			{
				b := c04pNew("generated-sources", "cross-package")
				all := b.target("//", "all")
				use := b.target("//app", "use")
				mk := b.target("//lib", "mk")
				b.dep(all, use, "rel", false)
				f := b.file("lib/out.txt", mk, pre)
				b.gen(mk, f, "dot")
				b.src(use, f, "parent")
				add(b, -1, f)
			}
			// 3. several outputs, several consumers
			{
				b := c04pNew("generated-sources", "multi-output")
				all := b.target("//", "all")
				u1, u2, u3 := b.target("//", "u1"), b.target("//lib", "u2"), b.target("//", "u3")
				mk := b.target("//lib", "mk")
				for _, u := range []int{u1, u2, u3} {
					b.dep(all, u, "canon", false)
				}
				fa, fb := b.file("lib/a.txt", mk, pre), b.file("lib/gen/b.txt", mk, nil)
				b.gen(mk, fa, "plain")
				b.gen(mk, fb, "plain")
				b.src(u1, fa, "plain")
				b.src(u2, fb, "plain")
				b.src(u3, fa, "abs")
				b.src(u3, fb, "plain")
				add(b, -1, fb)
			}
			// 4. two stages, first generator has a plain source
			{
				b := c04pNew("generated-sources", "two-stage")
				use := b.target("//", "use")
				mk2 := b.target("//", "mk2")
				mk1 := b.target("//lib", "mk1")
				in := b.file("lib/in.txt", -1, &in0)
				fa, fb := b.file("lib/a.txt", mk1, pre), b.file("b.txt", mk2, pre)
				b.src(mk1, in, "plain")
				b.gen(mk1, fa, "plain")
				b.src(mk2, fa, "plain")
				b.gen(mk2, fb, "plain")
				b.src(use, fb, "plain")
				add(b, in, fa)
			}
			// 5. consumer also depends on the generator itself (before / after the source in the request)
			{
				b := c04pNew("generated-sources", "dep-and-source")
				use := b.target("//", "use")
				mk := b.target("//", "mk")
				f := b.file("out.txt", mk, pre)
				b.gen(mk, f, "plain")
				b.dep(use, mk, "object", false)
				b.src(use, f, "dot")
				add(b, -1, f)
			}
			// 6. generator that always runs
			{
				b := c04pNew("generated-sources", "always-generator")
				use := b.target("//", "use")
				mk := b.target("//", "mk")
				b.p.Targets[mk].Always = true
				f := b.file("out.txt", mk, pre)
				b.gen(mk, f, "plain")
				b.src(use, f, "plain")
				add(b, -1, -1)
			}
			// 7. fan-in on one generated file, generator with its own source
			{
				b := c04pNew("generated-sources", "fan-in")
				all := b.target("//", "all")
				var us []int
				for i := 0; i < 4; i++ {
					u := b.target([]string{"//", "//app", "//lib", "//lib/sub"}[i], fmt.Sprintf("u%d", i))
					us = append(us, u)
					b.dep(all, u, "canon", false)
				}
				mk := b.target("//lib", "mk")
				in := b.file("in.txt", -1, &in0)
				f := b.file("lib/out.txt", mk, pre)
				b.src(mk, in, "abs")
				b.gen(mk, f, "plain")
				for i, u := range us {
					b.src(u, f, c04pPathKinds[i%len(c04pPathKinds)])
				}
				add(b, in, f)
			}
			// 8. the requested target is the source's only consumer and the default target of its package
			{
				b := c04pNew("generated-sources", "default-consumer")
				all := b.target("//", "all")
				use := b.target("//lib", "use")
				b.p.Targets[use].Default = true
				mk := b.target("//lib/sub", "mk")
				b.dep(all, use, "rel", true)
				f := b.file("lib/sub/out.txt", mk, pre)
				b.gen(mk, f, "plain")
				b.src(use, f, "plain")
				add(b, -1, f)
			}
		}
	}
	return out
}

func c04pRandom(rng *rand.Rand, n int) *c04pProject {
	pkgs := []string{"//", "//lib", "//lib/sub", "//app"}
	b := c04pNew("random", fmt.Sprintf("rand%d", n))
	nt := 3 + rng.Intn(7)
	defaults := map[string]bool{}
	for i := 0; i < nt; i++ {
		pkg := pkgs[rng.Intn(len(pkgs))]
		if i == 0 {
			pkg = "//"
		}
		t := b.target(pkg, fmt.Sprintf("t%d", i))
		if i > 0 && !defaults[pkg] && rng.Intn(5) == 0 {
			b.p.Targets[t].Default = true
			defaults[pkg] = true
		}
		if i > 0 && rng.Intn(12) == 0 {
			b.p.Targets[t].Fail = true
		}
		if i > 0 && rng.Intn(10) == 0 {
			b.p.Targets[t].Always = true
		}
		if rng.Intn(3) == 0 {
			b.p.Targets[t].DelayUS = 200 + rng.Intn(1500)
		}
	}
	// files: plain ones and generated ones (a generated file's consumers have lower indices than its generator)
	var plain []int
	nplain := 1 + rng.Intn(3)
	for i := 0; i < nplain; i++ {
		dir := []string{"", "lib", "lib/data", "app"}[rng.Intn(4)]
		init := fmt.Sprintf("plain %d v0\n", i)
		plain = append(plain, b.file(path.Join(dir, fmt.Sprintf("p%d.txt", i)), -1, &init))
	}
	for i := 1; i < nt; i++ {
		if rng.Intn(2) == 0 {
			continue
		}
		for k := 0; k <= rng.Intn(2); k++ {
			dir := c04pPkgDir(b.p.Targets[i].Pkg)
			if rng.Intn(3) == 0 {
				dir = path.Join(dir, "gen")
			}
			var init *string
			if rng.Intn(2) == 0 {
				s := "stale\n"
				init = &s
			}
			f := b.file(path.Join(dir, fmt.Sprintf("g%d_%d.txt", i, k)), i, init)
			b.gen(i, f, c04pPathKinds[rng.Intn(len(c04pPathKinds))])
			// consumers
			for c := 0; c < i; c++ {
				if rng.Intn(3) == 0 {
					b.src(c, f, c04pPathKinds[rng.Intn(len(c04pPathKinds))])
				}
			}
		}
	}
	for i := 0; i < nt; i++ {
		for _, pf := range plain {
			if rng.Intn(4) == 0 {
				b.src(i, pf, c04pPathKinds[rng.Intn(len(c04pPathKinds))])
			}
		}
		for j := i + 1; j < nt; j++ {
			if rng.Intn(3) != 0 && !(i == 0 && rng.Intn(2) == 0) {
				continue
			}
			def := b.p.Targets[j].Default && rng.Intn(2) == 0
			b.dep(i, j, c04pLabelKinds[rng.Intn(len(c04pLabelKinds))], def)
			if rng.Intn(6) == 0 { // the same dependency a second time, under another spelling
				b.dep(i, j, c04pLabelKinds[rng.Intn(len(c04pLabelKinds))], def)
			}
		}
	}
	b.builds(1)
	for s := 0; s < 1+rng.Intn(2); s++ {
		switch rng.Intn(3) {
		case 0:
			b.step("edit", plain[rng.Intn(len(plain))])
		case 1:
			var gens []int
			for i, f := range b.p.Files {
				if f.Generator >= 0 {
					gens = append(gens, i)
				}
			}
			if len(gens) > 0 {
				b.step("delete", gens[rng.Intn(len(gens))])
			}
		}
		b.builds(1)
	}
	return b.p
}

// ------------------------------------------------------------------------------------------------------------ recorder

type c04pEvent struct {
	Kind  string `json:"k"`
	Label string `json:"l"`
}

type c04pRec struct {
	discardEventsT
	mu      sync.Mutex
	p       *c04pProject
	root    string
	byLabel map[string]*c04pTarget
	deps    map[string][]string // canonical label -> canonical labels of its declared dependencies (from the spec)
	gensOf  map[string][]int    // canonical label -> files it generates
	seq     []c04pEvent
	final   map[string]string // canonical label -> "ok" | "failed"
	first   map[string]bool   // own first event seen
	bodies  map[string]int
	nEval   map[string]int
	nFinal  map[string]int
	started []string // raw labels at start.run
	loaded  []string // raw labels at run.loaded
	before  map[string]int
	snap    map[string]string // file path -> hash when its generator had its final event
	start   map[string]string // file path -> hash when the build started
	oracles [][2]string
	execs   *int
}

func c04pAbbrev(s string) string {
	if len(s) <= 30 {
		return s
	}
	return s[:10] + "..." + s[len(s)-18:]
}

func c04pHash(p string) string {
	b, err := os.ReadFile(p)
	if err != nil {
		return ""
	}
	s := sha256.Sum256(b)
	return hex.EncodeToString(s[:])
}

func (r *c04pRec) abs(f int) string { return filepath.Join(r.root, filepath.FromSlash(r.p.Files[f].Path)) }

func (r *c04pRec) oracle(name, detail string) { r.oracles = append(r.oracles, [2]string{name, detail}) }

// expected contents (hash) of file f for anyone entitled to look at it now; ok=false: its generator has not finished
func (r *c04pRec) expected(f int) (string, bool) {
	g := r.p.Files[f].Generator
	if g < 0 {
		return r.start[r.abs(f)], true
	}
	if r.final[r.p.Targets[g].canon()] != "ok" {
		return "", false
	}
	return r.snap[r.abs(f)], true
}

func (r *c04pRec) own(kind string, l *label.Label) {
	name := l.String()
	r.mu.Lock()
	defer r.mu.Unlock()
	r.seq = append(r.seq, c04pEvent{kind, name})
	if kind == "Evaluating" {
		r.nEval[name]++
	}
	if (kind == "Evaluating" || kind == "UpToDate") && !r.first[name] {
		r.first[name] = true
		for _, d := range r.deps[name] {
			if r.final[d] != "ok" {
				r.oracle("events_after_deps", fmt.Sprintf("%s reported %s while its dependency %s had no successful final event yet (state %q)",
					name, kind, d, r.final[d]))
			}
		}
	}
	switch kind {
	case "UpToDate", "Succeeded":
		r.nFinal[name]++
		for _, f := range r.gensOf[name] {
			r.snap[r.abs(f)] = c04pHash(r.abs(f))
		}
		r.final[name] = "ok"
	case "Failed":
		r.nFinal[name]++
		r.final[name] = "failed"
	}
}

func (r *c04pRec) TargetUpToDate(l *label.Label)                                { r.own("UpToDate", l) }
func (r *c04pRec) TargetEvaluating(l *label.Label, _ string, _ diff.ValueDiff) { r.own("Evaluating", l) }
func (r *c04pRec) TargetFailed(l *label.Label, _ error)                        { r.own("Failed", l) }
func (r *c04pRec) TargetSucceeded(l *label.Label, _ bool)                      { r.own("Succeeded", l) }

func (r *c04pRec) hook(point string, args ...any) {
	switch point {
	case "start.run", "run.loaded", "eval.before_body":
		r.mu.Lock()
		l, _ := args[0].(string)
		switch point {
		case "start.run":
			r.started = append(r.started, l)
		case "run.loaded":
			r.loaded = append(r.loaded, l)
		default:
			r.before[l]++
		}
		r.mu.Unlock()
	}
}

// probe is the body of every target.
func (r *c04pRec) probe(_ *starlark.Thread, _ *starlark.Builtin, args starlark.Tuple, _ []starlark.Tuple) (starlark.Value, error) {
	name, _ := starlark.AsString(args[0])
	r.mu.Lock()
	t := r.byLabel[name]
	r.bodies[name]++
	r.seq = append(r.seq, c04pEvent{"body", name})
	for _, d := range r.deps[name] {
		if strings.HasPrefix(d, "source:") {
			continue
		}
		if r.final[d] != "ok" {
			r.oracle("body_saw_finished_deps", fmt.Sprintf("the body of %s started while its dependency %s had no successful final event (state %q)",
				name, d, r.final[d]))
		}
	}
	for _, s := range t.Srcs {
		want, ok := r.expected(s.F)
		got := c04pHash(r.abs(s.F))
		switch {
		case !ok:
			r.oracle("body_saw_finished_deps", fmt.Sprintf("the body of %s started before %s, the generator of its source %s, finished",
				name, r.p.Targets[r.p.Files[s.F].Generator].canon(), r.p.Files[s.F].Path))
		case got != want:
			r.oracle("body_saw_finished_deps", fmt.Sprintf("the body of %s read %s with hash %.12q, but the file had hash %.12q when its generator finished",
				name, r.p.Files[s.F].Path, got, want))
		}
	}
	*r.execs++
	n := *r.execs
	r.mu.Unlock()
	if t.DelayUS > 0 {
		time.Sleep(time.Duration(t.DelayUS) * time.Microsecond)
	}
	if t.Fail {
		return nil, fmt.Errorf("body fails")
	}
	for _, g := range t.Gens {
		p := r.abs(g.F)
		if err := os.MkdirAll(filepath.Dir(p), 0o755); err != nil {
			return nil, err
		}
		if err := os.WriteFile(p, []byte(fmt.Sprintf("%s execution %d\n", name, n)), 0o644); err != nil {
			return nil, err
		}
	}
	return starlark.None, nil
}

func c04pNewRec(p *c04pProject, root string, execs *int) *c04pRec {
	r := &c04pRec{p: p, root: root, byLabel: map[string]*c04pTarget{}, deps: map[string][]string{}, gensOf: map[string][]int{},
		final: map[string]string{}, first: map[string]bool{}, bodies: map[string]int{}, nEval: map[string]int{}, nFinal: map[string]int{},
		before: map[string]int{}, snap: map[string]string{}, start: map[string]string{}, execs: execs}
	for i := range p.Targets {
		t := &p.Targets[i]
		c := t.canon()
		r.byLabel[c] = t
		for _, d := range t.Deps {
			dl := p.Targets[d.T].canon()
			if d.Def {
				dl = p.Targets[d.T].Pkg + ":default"
			}
			r.deps[c] = append(r.deps[c], dl)
		}
		for _, s := range t.Srcs {
			r.deps[c] = append(r.deps[c], c04pSourceLabel(p.Files[s.F].Path))
		}
		for _, g := range t.Gens {
			r.gensOf[c] = append(r.gensOf[c], g.F)
		}
		if t.Default {
			r.deps[t.Pkg+":default"] = []string{c}
		}
	}
	for i, f := range p.Files {
		if f.Generator >= 0 {
			r.deps[c04pSourceLabel(f.Path)] = []string{p.Targets[f.Generator].canon()}
		}
		r.start[r.abs(i)] = c04pHash(r.abs(i))
	}
	return r
}

// reachable: canonical labels reachable from the requested one, and whether a failing body is among them
func (r *c04pRec) reachable(from string) (map[string]bool, bool) {
	seen, failing := map[string]bool{}, false
	var walk func(l string)
	walk = func(l string) {
		if seen[l] {
			return
		}
		seen[l] = true
		if t := r.byLabel[l]; t != nil && t.Fail {
			failing = true
		}
		for _, d := range r.deps[l] {
			walk(d)
		}
	}
	walk(from)
	return seen, failing
}

// ---------------------------------------------------------------------------------------------------------------- test

func TestVerifC04Project(t *testing.T) {
	outPath := os.Getenv("VERIF_OUT")
	if outPath == "" {
		t.Skip("VERIF_OUT not set")
	}
	fo, err := os.Create(outPath)
	if err != nil {
		t.Fatal(err)
	}
	defer fo.Close()
	out := bufio.NewWriter(fo)
	defer out.Flush()
	var seed int64 = 1
	fmt.Sscan(os.Getenv("VERIF_SEED"), &seed)
	nrand := 30
	fmt.Sscan(os.Getenv("VERIF_C04P_RANDOM"), &nrand)
	t.Setenv("HOME", t.TempDir())

	projects := append(append(c04pSpellFamily(), c04pPathFamily()...), c04pOrderFamily()...)
	if os.Getenv("VERIF_C04P_FIXED") == "0" {
		projects = nil
	}
	rng := rand.New(rand.NewSource(seed))
	for i := 0; i < nrand; i++ {
		projects = append(projects, c04pRandom(rng, i))
	}

	build, execs := 0, 0
	for pi, p := range projects {
		root := t.TempDir()
		write := func(rel, content string) {
			full := filepath.Join(root, filepath.FromSlash(rel))
			if err := os.MkdirAll(filepath.Dir(full), 0o755); err != nil {
				t.Fatal(err)
			}
			if err := os.WriteFile(full, []byte(content), 0o644); err != nil {
				t.Fatal(err)
			}
		}
		write("dawn.toml", "")
		bfs := p.buildFiles()
		for pkg, text := range bfs {
			write(path.Join(c04pPkgDir(pkg), "BUILD.dawn"), text)
		}
		for _, f := range p.Files {
			if f.HasInitial {
				write(f.Path, f.Initial)
			}
		}
		pj, _ := json.Marshal(map[string]any{"index": pi, "spec": p, "build_files": bfs})
		fmt.Fprintf(out, "PROJECT\t%s\n", pj)

		rootLabel := p.Targets[p.Root].canon()
		edits := 0
		for si, st := range p.Steps {
			switch st.Op {
			case "edit":
				edits++
				write(p.Files[st.File].Path, fmt.Sprintf("edited %d\n", edits))
				continue
			case "delete":
				os.Remove(filepath.Join(root, filepath.FromSlash(p.Files[st.File].Path)))
				continue
			}
			build++
			rec := c04pNewRec(p, root, &execs)
			line := map[string]any{"build": build, "project": pi, "name": p.Name, "family": p.Family, "step": si, "requested": rootLabel}
			emit := func() {
				sort.Slice(rec.oracles, func(i, j int) bool { return rec.oracles[i][0] < rec.oracles[j][0] })
				bj, _ := json.Marshal(line)
				out.Write(append(bj, '\n'))
				seen := map[string]bool{}
				for _, o := range rec.oracles {
					if !seen[o[0]+o[1]] {
						seen[o[0]+o[1]] = true
						fmt.Fprintf(out, "ORACLE\t%s\t%d\t%s\n", o[0], build, o[1])
					}
				}
			}
			proj, err := Load(root, &LoadOptions{Events: rec, Builtins: starlark.StringDict{"probe": starlark.NewBuiltin("probe", rec.probe)}})
			if err != nil {
				line["load_error"] = err.Error()
				rec.oracle("harness_load", "the generated project does not load: "+err.Error())
				emit()
				break
			}
			lbl, err := label.Parse(rootLabel)
			if err != nil {
				t.Fatal(err)
			}
			verifhook.SetHandler(rec.hook)
			done := make(chan error, 1)
			go func() { done <- proj.Run(lbl, &RunOptions{}) }()
			var runErr error
			select {
			case runErr = <-done:
			case <-time.After(30 * time.Second):
				verifhook.SetHandler(nil)
				line["hung"] = true
				rec.mu.Lock()
				rec.oracle("terminates", "Project.Run("+rootLabel+") did not return within 30 s")
				emit()
				rec.mu.Unlock()
				fmt.Fprintf(out, "END\taborted\n")
				return
			}
			verifhook.SetHandler(nil)
			rec.mu.Lock()
			line["run_error"] = fmt.Sprint(runErr)
			line["events"] = rec.seq
			line["runner_labels"] = rec.started

			// 1. at most once per target object / per source file
			type ident struct {
				what string
				n    int
				raw  []string
			}
			count := func(raws []string, what string) {
				by := map[any]*ident{}
				var keys []any
				for _, raw := range raws {
					rt, err := proj.LoadTarget(raw)
					if err != nil {
						continue // not a target: nothing can be loaded twice
					}
					var key any = rt
					name := rt.(*runTarget).target.Label().String()
					if sf, ok := rt.(*runTarget).target.(*sourceFile); ok {
						key, name = filepath.Clean(sf.path), "the source file "+sf.path
					}
					if by[key] == nil {
						by[key] = &ident{what: name}
						keys = append(keys, key)
					}
					by[key].n++
					by[key].raw = append(by[key].raw, raw)
				}
				for _, k := range keys {
					if id := by[k]; id.n > 1 {
						rec.oracle("target_once", fmt.Sprintf("%s: %s %d times in one build, under the labels %q", id.what, what, id.n, id.raw))
					}
				}
			}
			count(rec.started, "a goroutine was started for it")
			count(rec.loaded, "it was loaded (LoadTarget)")
			for _, m := range []struct {
				m    map[string]int
				what string
			}{{rec.bodies, "its body ran"}, {rec.nEval, "it reported Evaluating"}, {rec.nFinal, "it reported a final event (UpToDate/Succeeded/Failed)"},
				{rec.before, "it reached its body"}} {
				var ls []string
				for l := range m.m {
					ls = append(ls, l)
				}
				sort.Strings(ls)
				for _, l := range ls {
					if m.m[l] > 1 {
						rec.oracle("target_once", fmt.Sprintf("%s: %s %d times in one build", l, m.what, m.m[l]))
					}
				}
			}

			// 2. a source file's stamp is the hash of the file as its generator left it
			for fi, f := range p.Files {
				sl := c04pSourceLabel(f.Path)
				if rec.final[sl] != "ok" {
					continue
				}
				want, ok := rec.expected(fi)
				if !ok {
					rec.oracle("events_after_deps", fmt.Sprintf("%s finished although its generator %s has no successful final event",
						sl, p.Targets[f.Generator].canon()))
					continue
				}
				rt, err := proj.LoadTarget(sl)
				if err != nil {
					rec.oracle("harness_sanity", fmt.Sprintf("%s has events but does not resolve: %v", sl, err))
					continue
				}
				who := "at the start of the build (nothing generates it)"
				if f.Generator >= 0 {
					who = "when its generator " + p.Targets[f.Generator].canon() + " finished"
				}
				if got := rt.(*runTarget).data; got != want {
					rec.oracle("source_hashed_after_generator", fmt.Sprintf("%s ended the build with stamp %.12q, but the file had hash %.12q %s",
						sl, got, want, who))
				}
				if info, err := proj.loadTargetInfo(rt.(*runTarget).target.Label()); err == nil && info.Data != want {
					rec.oracle("source_hashed_after_generator", fmt.Sprintf("the record of %s holds stamp %.12q, but the file had hash %.12q %s",
						sl, info.Data, want, who))
				}
			}

			// 3. the stamps recorded for the dependencies are the dependencies' own
			var finals []string
			for l := range rec.final {
				finals = append(finals, l)
			}
			sort.Strings(finals)
			for _, l := range finals {
				if rec.final[l] != "ok" {
					continue
				}
				rt, err := proj.LoadTarget(l)
				if err != nil {
					continue
				}
				info, err := proj.loadTargetInfo(rt.(*runTarget).target.Label())
				if err != nil {
					continue
				}
				for raw, stamp := range info.Dependencies {
					drt, err := proj.LoadTarget(raw)
					if err != nil {
						continue
					}
					if actual := drt.(*runTarget).stamp(); actual != stamp {
						rec.oracle("handed_actual_outcome", fmt.Sprintf("the record of %s holds stamp %q for its dependency %s, whose stamp at the end of the build is %q",
							l, c04pAbbrev(stamp), raw, c04pAbbrev(actual)))
					}
				}
			}

			// 4. the build's result is the requested target's
			reach, failing := rec.reachable(rootLabel)
			if (runErr == nil) != (rec.final[rootLabel] == "ok") {
				rec.oracle("build_result_is_roots", fmt.Sprintf("Project.Run returned %v, but the requested target %s ended in state %q",
					runErr, rootLabel, rec.final[rootLabel]))
			}
			if (runErr != nil) != failing {
				rec.oracle("build_result_is_roots", fmt.Sprintf("Project.Run returned %v, but a failing target is reachable from %s: %v",
					runErr, rootLabel, failing))
			}
			if runErr == nil {
				var missing []string
				for l := range reach {
					if rec.final[l] != "ok" {
						missing = append(missing, l)
					}
				}
				sort.Strings(missing)
				if len(missing) > 0 {
					rec.oracle("build_result_is_roots", fmt.Sprintf("Project.Run returned nil, but these targets reachable from %s have no successful final event: %v",
						rootLabel, missing))
				}
			}
			line["bodies"] = len(rec.bodies)
			line["labels_for_shared"] = len(rec.started)
			emit()
			rec.mu.Unlock()
		}
	}
	fmt.Fprintf(out, "END\t%d\n", build)
}
