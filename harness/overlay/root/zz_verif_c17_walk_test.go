package dawn

// C17 harness, package dawn, part 2: the two directory walks that APPLY compiled glob sets, swept systematically.
//
//   ignore sweep  one fixed project tree (packages at depth 0..3, one directory without BUILD.dawn on the way to a
//                 package) loaded under a family of ignore lists: every single pattern of length <= L over
//                 {a b / * ?} (this contains the patterns that match the EMPTY path, i.e. the root package:
//                 "", *, **, ***, ...), every pair of patterns of length <= 1, for every directory d of the tree
//                 the patterns derived from d (d itself, each character replaced by ?, each infix replaced by * and
//                 by **), an enumerated escape class (valid and invalid), and sampled lists of 2-4 patterns.
//                 Expected: a package is loaded iff no directory on the way to it, the root ("") and itself
//                 included, is matched by some pattern; an invalid escape fails the load.
//   ignore sweep 2  (tree "ignore2") WHICH STRINGS the ignore set is asked about.  In the first tree every name is one
//                 letter of the pattern alphabet, so a pattern that matches a string that is NOT the path of a directory
//                 on the way ("." for the root or for the parent of a one-component path, "/", "./d", "/d", "d/", "//d",
//                 the absolute path, the base name, d/BUILD.dawn, ...) nearly always matches a real depth-1 directory as
//                 well and the extra question goes unnoticed.  The second tree has names of two and three characters
//                 over {a b .} (hidden directories included, packages at depth 0..3) and is loaded under: every single
//                 pattern of length <= L over {a b . / * ?}, every pair of length <= 1, for every directory d and every
//                 PSEUDO-PATH s of d (the spellings listed above; see c17wPseudoPaths) the generalisations of s that do
//                 not match the empty path, and sampled lists mixing the three sources.  Expected: as above -- the
//                 outcome depends on the list only through what it matches among the root-relative, slash-separated
//                 paths of the directories of the tree.
//   glob sweep    one fixed file tree (files at depth 0..3 whose relative paths are short words over {a x / .}) with
//                 a module at the root and one in a/; each module calls glob() and os.glob() with: every single
//                 include pattern of length <= L over {a x / * ?}, for every file f below the module the patterns
//                 derived from f (each character -- the separators too -- replaced by ?, each infix by * and by **)
//                 once as the include list and once as the exclude list against include=["**"], and sampled
//                 include/exclude lists; and, for the same reason as ignore sweep 2, the generalisations of the
//                 pseudo-paths of every file (./f, /f, the project-relative and the absolute path, the base name, the
//                 label, f/) as include and as exclude.  Expected: exactly the files (os.glob: files and directories)
//                 below the module's directory, at every depth, whose relative path matches some include and no exclude.
//
// Lines written to $VERIF_OUT_WALK (lists: comma separated hex, "-" = empty string, "nil" = empty list):
//   wtree \t id \t dirs \t files
//   wload \t treeid \t ignore \t ok|err \t loaded packages (relative paths) \t depth of the shallowest matched directory
//   wglob \t treeid \t glob|osglob \t module dir \t include \t exclude \t ok \t result
//   ORACLE \t name \t patterns \t hex(path) \t extra          (same layout as part 1)

import (
	"bufio"
	"encoding/hex"
	"fmt"
	"math/rand"
	"os"
	"path/filepath"
	"sort"
	"strconv"
	"strings"
	"testing"

	starlark_os "github.com/pgavlin/dawn/lib/os"
	"go.starlark.net/starlark"
)

func c17wList(gs []string) string {
	if len(gs) == 0 {
		return "nil"
	}
	hs := make([]string, len(gs))
	for i, g := range gs {
		if g == "" {
			hs[i] = "-"
		} else {
			hs[i] = hex.EncodeToString([]byte(g))
		}
	}
	return strings.Join(hs, ",")
}

// all strings of length <= n over alpha, by increasing length
func c17wEnum(alpha string, n int) []string {
	all, lvl := []string{""}, []string{""}
	for i := 0; i < n; i++ {
		var next []string
		for _, s := range lvl {
			for _, c := range alpha {
				next = append(next, s+string(c))
			}
		}
		all = append(all, next...)
		lvl = next
	}
	return all
}

func c17wWellEscaped(g string) bool {
	for i := 0; i < len(g); i++ {
		if g[i] == '\\' {
			if i+1 >= len(g) || !strings.ContainsRune("\\*?[]", rune(g[i+1])) {
				return false
			}
			i++
		}
	}
	return true
}

// the patterns obtained from a concrete path by generalising it: the path itself, each character replaced by ?,
// each infix (the empty one too) replaced by * and by **
func c17wDerived(p string) []string {
	out := []string{p}
	for i := 0; i < len(p); i++ {
		out = append(out, p[:i]+"?"+p[i+1:])
	}
	for i := 0; i <= len(p); i++ {
		for j := i; j <= len(p); j++ {
			out = append(out, p[:i]+"*"+p[j:], p[:i]+"**"+p[j:])
		}
	}
	return out
}

// the spellings under which an implementation might ask a glob set about the entry with the relative path rel (""
// = the start directory itself) other than rel: cleaned ("." for the empty path), dotted, rooted, with a trailing
// separator, as a label, absolute, parent, base name, a file inside it.  abs = absolute path of the start directory,
// outer = path of the start directory relative to the project root ("" if it is the root).
func c17wPseudoPaths(abs, outer, rel string, isDir bool) []string {
	out := []string{".", "./", "/", "//", "..", abs, abs + "/"}
	if rel != "" {
		out = append(out, "./"+rel, "/"+rel, "//"+rel, rel+"/", rel+"/.", rel+"/..", "../"+rel, abs+"/"+rel,
			filepath.Base(rel), filepath.Dir(rel), filepath.Dir(rel)+"/", ":"+rel, "//"+outer+":"+rel)
		if outer != "" {
			out = append(out, outer+"/"+rel, "//"+outer+"/"+rel)
		}
	}
	if isDir {
		out = append(out, "BUILD.dawn", strings.TrimPrefix(rel+"/BUILD.dawn", "/"), "//"+rel+":BUILD.dawn")
	}
	return out
}

// generalisations of a pseudo-path: short ones as c17wDerived, long ones (absolute paths) component-wise: each
// component replaced by *, each run of components replaced by **
func c17wDerivedPseudo(s string) []string {
	if strings.ContainsAny(s, "\\*?[]'") {
		return nil
	}
	if len(s) <= 6 {
		return c17wDerived(s)
	}
	out := []string{s}
	comps := strings.Split(s, "/")
	for i := range comps {
		if comps[i] != "" {
			c := append([]string(nil), comps...)
			c[i] = "*"
			out = append(out, strings.Join(c, "/"))
		}
		for j := i + 1; j <= len(comps); j++ {
			c := append(append(append([]string(nil), comps[:i]...), "**"), comps[j:]...)
			out = append(out, strings.Join(c, "/"))
		}
	}
	return out
}

func c17wDedup(in []string) []string {
	seen := map[string]bool{}
	var out []string
	for _, s := range in {
		if !seen[s] {
			seen[s] = true
			out = append(out, s)
		}
	}
	return out
}

func c17wRandPattern(rng *rand.Rand, alpha string, short []string) string {
	if rng.Intn(2) == 0 {
		return short[rng.Intn(len(short))]
	}
	n := 4 + rng.Intn(3)
	b := make([]byte, n)
	for i := range b {
		b[i] = alpha[rng.Intn(len(alpha))]
	}
	return string(b)
}

// first element of the symmetric difference of two sorted string sets
func c17wFirstDiff(got, want []string) (string, string) {
	g := map[string]bool{}
	w := map[string]bool{}
	for _, s := range got {
		g[s] = true
	}
	for _, s := range want {
		w[s] = true
	}
	for _, s := range want {
		if !g[s] {
			return s, "missing"
		}
	}
	for _, s := range got {
		if !w[s] {
			return s, "unexpected"
		}
	}
	return "", "duplicate"
}

func c17wToml(ignore []string) string {
	var toml strings.Builder
	toml.WriteString("name = \"t\"\n")
	if ignore != nil {
		qs := make([]string, len(ignore))
		for i, g := range ignore {
			qs[i] = "'" + g + "'"
		}
		toml.WriteString("ignore = [" + strings.Join(qs, ", ") + "]\n")
	}
	return toml.String()
}

func TestVerifC17Walk(t *testing.T) {
	out := os.Getenv("VERIF_OUT_WALK")
	if out == "" {
		t.Skip("VERIF_OUT_WALK not set")
	}
	f, err := os.Create(out)
	if err != nil {
		t.Fatal(err)
	}
	defer f.Close()
	w := bufio.NewWriter(f)
	defer w.Flush()
	line := func(fields ...string) {
		w.WriteString(strings.Join(fields, "\t"))
		w.WriteByte('\n')
	}
	seed, _ := strconv.Atoi(os.Getenv("VERIF_SEED"))
	maxLen, _ := strconv.Atoi(os.Getenv("VERIF_WALK_MAXLEN"))
	if maxLen == 0 {
		maxLen = 3
	}
	nSampled, _ := strconv.Atoi(os.Getenv("VERIF_WALK_NSAMPLED"))
	if nSampled == 0 {
		nSampled = 60
	}
	rng := rand.New(rand.NewSource(int64(seed)*104729 + 1717))

	// ---------------------------------------------------------------- ignore sweeps
	// one tree (packages = the directories not in noBuild), loaded once per ignore list
	ignoreSweep := func(id string, dirs []string, noBuild map[string]bool, mkLists func(root string) [][]string) {
		root := t.TempDir()
		var files []string
		for _, d := range dirs {
			if err := os.MkdirAll(filepath.Join(root, d), 0o755); err != nil {
				t.Fatal(err)
			}
			if !noBuild[d] {
				files = append(files, filepath.ToSlash(filepath.Join(d, "BUILD.dawn")))
				os.WriteFile(filepath.Join(root, d, "BUILD.dawn"), []byte("x = 1\n"), 0o644)
			}
		}
		line("wtree", id, c17wList(dirs[1:]), c17wList(files))

		for _, ignore := range mkLists(root) {
			os.WriteFile(filepath.Join(root, "dawn.toml"), []byte(c17wToml(ignore)), 0o644)
			evs := &c17events{printed: map[string][]string{}}
			_, lerr := Load(root, &LoadOptions{Events: evs})
			wantErr := false
			for _, g := range ignore {
				wantErr = wantErr || !c17wWellEscaped(g)
			}
			if lerr != nil {
				line("wload", id, c17wList(ignore), "err", "nil")
				if !wantErr {
					line("ORACLE", "ignore-list-load-fails-only-on-invalid-escape", c17wList(ignore), "", "load error: "+lerr.Error())
				}
				continue
			}
			var got []string
			for _, p := range evs.loaded {
				got = append(got, strings.TrimPrefix(p, "//"))
			}
			sort.Strings(got)
			cut := "none" // depth of the shallowest directory of the tree that the list matches (0 = the root)
			for _, d := range dirs {
				if len(ignore) > 0 && c17gAny(ignore, d) {
					depth := 0
					if d != "" {
						depth = 1 + strings.Count(d, "/")
					}
					if cut == "none" || depth < int(cut[0]-'0') {
						cut = strconv.Itoa(depth)
					}
				}
			}
			line("wload", id, c17wList(ignore), "ok", c17wList(got), cut)
			if wantErr {
				line("ORACLE", "ignore-list-load-fails-only-on-invalid-escape", c17wList(ignore), "", "load succeeded with an invalid escape")
				continue
			}
			var want []string
			for _, d := range dirs {
				if noBuild[d] {
					continue
				}
				ok := !c17gAny(ignore, "")
				if d != "" {
					parts := strings.Split(d, "/")
					for i := 1; i <= len(parts); i++ {
						ok = ok && !c17gAny(ignore, strings.Join(parts[:i], "/"))
					}
				}
				if ok {
					want = append(want, d)
				}
			}
			sort.Strings(want)
			if strings.Join(got, "\x00") != strings.Join(want, "\x00") || len(got) != len(want) {
				p, how := c17wFirstDiff(got, want)
				line("ORACLE", "ignore-list-selects-packages", c17wList(ignore), hex.EncodeToString([]byte(p)),
					fmt.Sprintf("package %q %s; packages of the tree (relative paths, \"\" = root): %q; loaded=%q expected=%q", p, how, dirs, got, want))
			}
		}
	}

	{
		dirs := []string{"", "a", "b", "a/a", "a/b", "b/a", "a/a/a", "a/a/b"}
		ignoreSweep("ignore", dirs, map[string]bool{"b": true}, func(string) [][]string {
			const alpha = "ab/*?"
			short := c17wEnum(alpha, 3)
			var lists [][]string
			for _, g := range c17wEnum(alpha, maxLen) {
				lists = append(lists, []string{g})
			}
			for _, g := range c17wEnum(alpha, 1) {
				for _, h := range c17wEnum(alpha, 1) {
					lists = append(lists, []string{g, h})
				}
			}
			var derived []string
			for _, d := range dirs {
				derived = append(derived, c17wDerived(d)...)
			}
			for _, g := range c17wDedup(derived) {
				if len(g) > maxLen {
					lists = append(lists, []string{g})
				}
			}
			lists = append(lists, []string{"\\"}, []string{"a", "a\\"}, []string{"\\a", "b"}, []string{"b", "\\/"}, []string{"\\*"},
				[]string{"\\?", "a"}, []string{"a/\\*", "b"}, []string{"\\\\"}, []string{"a\\"}, []string{"[", "a/[b]"})
			for i := 0; i < nSampled; i++ {
				l := make([]string, 2+rng.Intn(3))
				for j := range l {
					l[j] = c17wRandPattern(rng, alpha, short)
				}
				lists = append(lists, l)
			}
			return append([][]string{nil}, lists...)
		})
	}

	// ignore sweep 2: no name of the tree is a single letter, "." occurs in names and in patterns, so that a pattern can
	// match a pseudo-path (".", "/", "./ab", "ab/", the absolute path, ...) without matching any directory of the tree
	{
		dirs := []string{"", "ab", "ba", ".a", "ab/ab", "ab/.b", "ba/ab", ".a/ba", "ab/ab/ba", "ab/.b/a.b"}
		ignoreSweep("ignore2", dirs, map[string]bool{"ba": true}, func(root string) [][]string {
			const alpha = "ab./*?"
			short := c17wEnum(alpha, 2)
			inAlpha := func(g string) bool { return strings.Trim(g, alpha) == "" }
			var lists [][]string
			for _, g := range c17wEnum(alpha, maxLen) {
				lists = append(lists, []string{g})
			}
			for _, g := range c17wEnum(alpha, 1) {
				for _, h := range c17wEnum(alpha, 1) {
					lists = append(lists, []string{g, h})
				}
			}
			var real, pseudo []string
			for _, d := range dirs {
				for _, g := range c17wDerived(d) {
					if !c17gSpec(g, "") {
						real = append(real, g)
					}
				}
				for _, s := range c17wPseudoPaths(root, "", d, true) {
					for _, g := range c17wDerivedPseudo(s) {
						if !c17gSpec(g, "") {
							pseudo = append(pseudo, g)
						}
					}
				}
			}
			real, pseudo = c17wDedup(real), c17wDedup(pseudo)
			for _, g := range c17wDedup(append(append([]string(nil), real...), pseudo...)) {
				if len(g) > maxLen || !inAlpha(g) {
					lists = append(lists, []string{g})
				}
			}
			for i := 0; i < nSampled; i++ {
				l := make([]string, 2+rng.Intn(2))
				for j := range l {
					switch rng.Intn(3) {
					case 0:
						l[j] = short[rng.Intn(len(short))]
					case 1:
						l[j] = real[rng.Intn(len(real))]
					default:
						l[j] = pseudo[rng.Intn(len(pseudo))]
					}
				}
				lists = append(lists, l)
			}
			return lists
		})
	}

	// ---------------------------------------------------------------- glob sweep
	{
		root := t.TempDir()
		dirs := []string{"a", "b", ".a", "a/a", "a/x", "a/a/a"}
		plain := []string{"x", "ax", "aax", ".x", "a/ax", "a/xa", "a/a/x", "a/a/ax", "a/x/a", "a/a/a/x", "b/x", "b/a", ".a/x"}
		mods := []string{"", "a"}
		for _, d := range dirs {
			os.MkdirAll(filepath.Join(root, d), 0o755)
		}
		for _, p := range plain {
			os.WriteFile(filepath.Join(root, p), []byte("x"), 0o644)
		}
		files := append([]string{"dawn.toml"}, plain...)
		for _, m := range mods {
			files = append(files, filepath.ToSlash(filepath.Join(m, "BUILD.dawn")))
		}
		line("wtree", "glob", c17wList(dirs), c17wList(files))
		os.WriteFile(filepath.Join(root, "dawn.toml"), []byte(c17wToml(nil)), 0o644)

		below := func(m string, list []string) []string {
			var out []string
			for _, p := range list {
				if m == "" {
					out = append(out, p)
				} else if strings.HasPrefix(p, m+"/") {
					out = append(out, p[len(m)+1:])
				}
			}
			return out
		}

		const alpha = "ax/*?"
		short := c17wEnum(alpha, 3)
		type query struct {
			inc, exc []string
			os       bool
		}
		queries := map[string][]query{}
		for _, m := range mods {
			var qs []query
			for _, g := range c17wEnum(alpha, maxLen) {
				qs = append(qs, query{inc: []string{g}}, query{inc: []string{g}, os: true})
			}
			var derived []string
			for _, p := range below(m, files) {
				if !strings.HasSuffix(p, "BUILD.dawn") {
					derived = append(derived, c17wDerived(p)...)
				}
			}
			for _, g := range c17wDedup(derived) {
				if len(g) > maxLen {
					qs = append(qs, query{inc: []string{g}})
				}
				qs = append(qs, query{inc: []string{"**"}, exc: []string{g}})
			}
			// pseudo-paths of every entry below the module: a pattern that matches one of them and not the entry's
			// relative path must neither select nor exclude it
			issued := map[string]bool{}
			for _, g := range derived {
				issued[g] = true
			}
			var pseudo []string
			for _, p := range below(m, files) {
				for _, s := range c17wPseudoPaths(filepath.Join(root, m), m, p, false) {
					for _, g := range c17wDerivedPseudo(s) {
						if !issued[g] && (len(g) > maxLen || strings.Trim(g, alpha) != "") {
							issued[g] = true
							pseudo = append(pseudo, g)
						}
					}
				}
			}
			for i, g := range pseudo {
				qs = append(qs, query{inc: []string{g}, os: i%4 == 3}, query{inc: []string{"**"}, exc: []string{g}, os: i%4 == 1})
			}
			for i := 0; i < 3*nSampled; i++ {
				q := query{inc: make([]string, 1+rng.Intn(3)), exc: make([]string, rng.Intn(3)), os: i%3 == 2}
				for j := range q.inc {
					q.inc[j] = c17wRandPattern(rng, alpha, short)
				}
				for j := range q.exc {
					q.exc[j] = c17wRandPattern(rng, alpha, short)
				}
				if i%4 == 1 && len(pseudo) > 0 { // a list in which one pattern matches a pseudo-path
					if g := pseudo[rng.Intn(len(pseudo))]; len(q.exc) > 0 && rng.Intn(2) == 0 {
						q.exc[rng.Intn(len(q.exc))] = g
					} else {
						q.inc[rng.Intn(len(q.inc))] = g
					}
				}
				qs = append(qs, q)
			}
			queries[m] = qs
			var b strings.Builder
			for i, q := range qs {
				fn := "glob"
				if q.os {
					fn = "os.glob"
				}
				fmt.Fprintf(&b, "for p in %s(%s, exclude=%s):\n    print(\"Q%d\\t\" + p)\n", fn, c17starlist(q.inc), c17starlist(q.exc), i)
			}
			b.WriteString("print(\"END\")\n")
			os.WriteFile(filepath.Join(root, m, "BUILD.dawn"), []byte(b.String()), 0o644)
		}

		evs := &c17events{printed: map[string][]string{}}
		_, lerr := Load(root, &LoadOptions{Events: evs, Builtins: starlark.StringDict{"os": starlark_os.Module}})
		if lerr != nil {
			line("ORACLE", "tree-load-failed", "nil", "", "glob sweep: "+lerr.Error())
			return
		}
		for _, m := range mods {
			gotQ := map[int][]string{}
			ended := false
			for _, l := range evs.printed["//"+m] {
				if l == "END" {
					ended = true
					continue
				}
				tag, p, ok := strings.Cut(l, "\t")
				if !ok || p == ".dawn" || strings.HasPrefix(p, ".dawn/") {
					continue
				}
				i, _ := strconv.Atoi(tag[1:])
				gotQ[i] = append(gotQ[i], p)
			}
			if !ended {
				line("ORACLE", "tree-load-failed", "nil", hex.EncodeToString([]byte(m)), "glob sweep: module //"+m+":BUILD.dawn did not run to its end")
				continue
			}
			candF := below(m, files)
			candAll := append(below(m, dirs), candF...)
			for i, q := range queries[m] {
				cands, kind, name := candF, "glob", "glob-selects-include-minus-exclude"
				if q.os {
					cands, kind, name = candAll, "osglob", "os-glob-selects-include-minus-exclude"
				}
				var want []string
				for _, p := range cands {
					if c17gAny(q.inc, p) && !c17gAny(q.exc, p) {
						want = append(want, p)
					}
				}
				got := gotQ[i]
				sort.Strings(got)
				sort.Strings(want)
				line("wglob", "glob", kind, c17wList(strings.FieldsFunc(m, func(r rune) bool { return r == '/' })), c17wList(q.inc), c17wList(q.exc), "ok", c17wList(got))
				if strings.Join(got, "\x00") != strings.Join(want, "\x00") || len(got) != len(want) {
					p, how := c17wFirstDiff(got, want)
					line("ORACLE", name, c17wList(q.inc)+";"+c17wList(q.exc), hex.EncodeToString([]byte(p)),
						fmt.Sprintf("path %q %s in %s(include=%q, exclude=%q) called from module //%s:BUILD.dawn; entries below the module: %q; got=%q expected=%q",
							p, how, kind, q.inc, q.exc, m, cands, got, want))
				}
			}
		}
	}
}
