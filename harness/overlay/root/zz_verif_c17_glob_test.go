package dawn

// C17 harness, package dawn: glob() and the ignore list on generated trees, compared with the recursive
// specification matcher (written independently below; characters = bytes here, all names are ASCII).
// Lines written to $VERIF_OUT:
//   tree \t n \t kind \t detail...            one line per comparison made
//   ORACLE \t name \t hex patterns \t hex(path) \t extra

import (
	"bufio"
	"encoding/hex"
	"fmt"
	"io/fs"
	"math/rand"
	"os"
	"path/filepath"
	"sort"
	"strconv"
	"strings"
	"sync"
	"testing"

	"github.com/pgavlin/dawn/label"
)

func c17gSpec(g, p string) bool {
	if g == "" {
		return p == ""
	}
	switch g[0] {
	case '\\':
		if len(g) < 2 || !strings.ContainsRune("\\*?[]", rune(g[1])) {
			return false
		}
		return p != "" && p[0] == g[1] && c17gSpec(g[2:], p[1:])
	case '*':
		if len(g) > 1 && g[1] == '*' {
			for k := 0; k <= len(p); k++ {
				if c17gSpec(g[2:], p[k:]) {
					return true
				}
			}
			return false
		}
		for k := 0; ; k++ {
			if c17gSpec(g[1:], p[k:]) {
				return true
			}
			if k >= len(p) || p[k] == '/' {
				return false
			}
		}
	case '?':
		return p != "" && c17gSpec(g[1:], p[1:])
	default:
		return p != "" && p[0] == g[0] && c17gSpec(g[1:], p[1:])
	}
}

func c17gAny(gs []string, p string) bool {
	for _, g := range gs {
		if c17gSpec(g, p) {
			return true
		}
	}
	return false
}

type c17events struct {
	discardEventsT
	m       sync.Mutex
	loaded  []string
	printed map[string][]string
}

func (e *c17events) ModuleLoading(l *label.Label) {
	e.m.Lock()
	e.loaded = append(e.loaded, l.Package)
	e.m.Unlock()
}

func (e *c17events) Print(l *label.Label, line string) {
	e.m.Lock()
	e.printed[l.Package] = append(e.printed[l.Package], line)
	e.m.Unlock()
}

func c17hexlist(gs []string) string {
	if len(gs) == 0 {
		return "nil"
	}
	hs := make([]string, len(gs))
	for i, g := range gs {
		hs[i] = hex.EncodeToString([]byte(g))
	}
	return strings.Join(hs, ",")
}

func c17starlist(gs []string) string {
	qs := make([]string, len(gs))
	for i, g := range gs {
		qs[i] = "\"" + strings.NewReplacer("\\", "\\\\", "\"", "\\\"").Replace(g) + "\""
	}
	return "[" + strings.Join(qs, ", ") + "]"
}

func TestVerifC17Glob(t *testing.T) {
	out := os.Getenv("VERIF_OUT")
	if out == "" {
		t.Skip("VERIF_OUT not set")
	}
	f, err := os.Create(out)
	if err != nil {
		t.Fatal(err)
	}
	defer f.Close()
	w := bufio.NewWriter(f)
	defer w.Flush()
	line := func(fields ...string) {
		w.WriteString(strings.Join(fields, "\t"))
		w.WriteByte('\n')
	}
	seed, _ := strconv.Atoi(os.Getenv("VERIF_SEED"))
	ntrees, _ := strconv.Atoi(os.Getenv("VERIF_NTREES"))
	if ntrees == 0 {
		ntrees = 6
	}
	rng := rand.New(rand.NewSource(int64(seed)*7919 + 17))

	dirNames := []string{"a", "b", "a.b", "src", "x[1]", ".h", "go", "a+b"}
	fileNames := []string{"x.go", "y.go", "x.go.bak", "x.md", "a", "README", ".hidden", "a.b", "x[1].c", "main(1).go", "x$y", "a|b", "{z}", "^c", "q?"}
	pool := []string{"*", "**", "*.go", "*.md", "**/*.go", "a/**", "a/*", "?", "??", "x.*", "*.go.bak", "a.b", "a.b/**", "src", "src/**", "**/a",
		"*/*", "*/x.go", "**.md", "x\\[1\\]", "x[1]", "x[1]/**", "**/x[1].c", ".*", "**/.*", "a+b", "a+b/*", "main(1).go", "**/x$y", "**/a|b",
		"**/{z}", "**/^c", "**/q\\?", "**/q?", "BUILD.dawn", "**/BUILD.dawn", "dawn.toml", "", "go", "go/**", "*/a.b/*", "**/a.b/**", ".h/**", "x.go", "y.*"}
	pick := func(max int) []string {
		n := rng.Intn(max + 1)
		gs := make([]string, n)
		for i := range gs {
			gs[i] = pool[rng.Intn(len(pool))]
		}
		return gs
	}

	for n := 0; n < ntrees; n++ {
		root := t.TempDir()
		// directories: a random tree of depth <= 3
		dirs := []string{""}
		for i := 0; i < 12; i++ {
			parent := dirs[rng.Intn(len(dirs))]
			if strings.Count(parent, "/") >= 2 {
				continue
			}
			d := filepath.ToSlash(filepath.Join(parent, dirNames[rng.Intn(len(dirNames))]))
			dup := false
			for _, e := range dirs {
				dup = dup || e == d
			}
			if !dup {
				dirs = append(dirs, d)
			}
		}
		ipool := []string{"a", "*.b", "src/*", "**/a", "go/**", "x[1]", "x\\[1\\]", "a+b", "*/b", ".h", "?", "*/?", "**/a.b", "src", "b", "*/*/*", "x.go", "go", "**/go"}
		ignore := make([]string, 1+rng.Intn(3))
		for i := range ignore {
			ignore[i] = ipool[rng.Intn(len(ipool))]
		}
		if n == 0 {
			ignore = nil
		}
		if n == 1 {
			ignore = []string{"a", "*.b"}
		}
		type query struct{ inc, exc []string }
		queries := map[string][]query{}
		for _, d := range dirs {
			if err := os.MkdirAll(filepath.Join(root, d), 0o755); err != nil {
				t.Fatal(err)
			}
		}
		for _, d := range dirs {
			for i := 0; i < 4; i++ {
				fn := filepath.Join(root, d, fileNames[rng.Intn(len(fileNames))])
				if st, err := os.Stat(fn); err != nil || !st.IsDir() {
					os.WriteFile(fn, []byte("x"), 0o644)
				}
			}
			var b strings.Builder
			for q := 0; q < 4; q++ {
				qu := query{pick(3), pick(2)}
				if q == 0 {
					qu = query{[]string{"*.go", "*.md"}, []string{"y.*", "x.md"}}
				}
				queries[d] = append(queries[d], qu)
				fmt.Fprintf(&b, "for p in glob(%s, exclude=%s):\n    print(\"Q%d\\t\" + p)\n", c17starlist(qu.inc), c17starlist(qu.exc), q)
			}
			os.WriteFile(filepath.Join(root, d, "BUILD.dawn"), []byte(b.String()), 0o644)
		}
		var toml strings.Builder
		toml.WriteString("name = \"t\"\n")
		if ignore != nil {
			qs := make([]string, len(ignore))
			for i, g := range ignore {
				qs[i] = "'" + g + "'"
			}
			toml.WriteString("ignore = [" + strings.Join(qs, ", ") + "]\n")
		}
		os.WriteFile(filepath.Join(root, "dawn.toml"), []byte(toml.String()), 0o644)

		evs := &c17events{printed: map[string][]string{}}
		_, lerr := Load(root, &LoadOptions{Events: evs})
		if lerr != nil {
			line("tree", strconv.Itoa(n), "load-error", lerr.Error())
			line("ORACLE", "tree-load-failed", c17hexlist(ignore), "-", lerr.Error())
			continue
		}

		// expected set of loaded packages: no directory on the way down (root included) is ignored
		var wantLoaded []string
		for _, d := range dirs {
			ok := !c17gAny(ignore, "")
			if d != "" {
				parts := strings.Split(d, "/")
				for i := 1; i <= len(parts); i++ {
					if c17gAny(ignore, strings.Join(parts[:i], "/")) {
						ok = false
					}
				}
			}
			if len(ignore) == 0 {
				ok = true
			}
			if ok {
				wantLoaded = append(wantLoaded, "//"+d)
			}
		}
		got := append([]string(nil), evs.loaded...)
		sort.Strings(got)
		sort.Strings(wantLoaded)
		line("tree", strconv.Itoa(n), "ignore", c17hexlist(ignore), strings.Join(got, ","), strings.Join(wantLoaded, ","))
		if strings.Join(got, ",") != strings.Join(wantLoaded, ",") {
			line("ORACLE", "ignore-list-selects-packages", c17hexlist(ignore), hex.EncodeToString([]byte(strings.Join(dirs, ","))),
				"loaded="+strings.Join(got, ",")+" expected="+strings.Join(wantLoaded, ","))
		}

		// glob(): every regular file below the module's directory
		for _, pkg := range got {
			d := pkg[2:]
			var files []string
			base := filepath.Join(root, d)
			filepath.WalkDir(base, func(p string, e fs.DirEntry, err error) error {
				if err != nil || e.IsDir() {
					return nil
				}
				rel := filepath.ToSlash(p[len(base)+1:])
				if !strings.HasPrefix(rel, ".dawn/") {
					files = append(files, rel)
				}
				return nil
			})
			gotQ := map[string][]string{}
			for _, l := range evs.printed[pkg] {
				if tag, p, ok := strings.Cut(l, "\t"); ok && !strings.HasPrefix(p, ".dawn/") {
					gotQ[tag] = append(gotQ[tag], p)
				}
			}
			for q, qu := range queries[d] {
				var want []string
				for _, p := range files {
					if c17gAny(qu.inc, p) && !c17gAny(qu.exc, p) {
						want = append(want, p)
					}
				}
				g := gotQ["Q"+strconv.Itoa(q)]
				sort.Strings(g)
				sort.Strings(want)
				line("tree", strconv.Itoa(n), "glob", pkg, c17hexlist(qu.inc), c17hexlist(qu.exc), strconv.Itoa(len(files)), strconv.Itoa(len(g)))
				if strings.Join(g, "\x00") != strings.Join(want, "\x00") {
					line("ORACLE", "glob-selects-include-minus-exclude", c17hexlist(qu.inc)+";"+c17hexlist(qu.exc),
						hex.EncodeToString([]byte(strings.Join(files, ","))), "got="+strings.Join(g, ",")+" expected="+strings.Join(want, ","))
				}
			}
		}
	}
}
