package dawn

// Engine harness, orchestrator half (C01, C02, C03, C13, C14, C18): generates random projects and histories,
// runs every build in a fresh child process (VERIF_CHILD=1 re-exec of this test binary), records what the
// implementation did, evaluates the properties' direct oracles, and writes one JSON line per history to
// $VERIF_OUT for the Coq model to recompute.

import (
	"bufio"
	"encoding/json"
	"fmt"
	"math/rand"
	"net/url"
	"os"
	"os/exec"
	"path/filepath"
	"sort"
	"strconv"
	"strings"
	"testing"
	"time"
)

// ---------------------------------------------------------------------------------------------
// project state

type engTarget struct {
	ID       int
	Pkg      string // "" = root package
	Name     string
	Deps     []int // target ids
	Srcs     []int // source ids
	Gens     []int // path ids
	K        int
	Helper   bool
	Always   bool
	Style    int // 0 plain def, 1 closure, 2 default argument, 3 two closures of one definition, 4 plain def whose body reads its lists from a manifest
	Cosmetic int
}

type engSource struct {
	ID    int
	Path  int             // path id
	Dir   map[string]int  // a source DIRECTORY: file name -> literal id of its content (nil for a plain file)
	Links map[string]bool // entries of Dir that are symbolic links to files outside the directory
}

type engProject struct {
	Pkgs        []string
	Targets     map[int]*engTarget
	Sources     map[int]*engSource
	Paths       map[int]string // path id -> path relative to the root
	HelperVer   int
	HelperOrder int            // parity: which of the two entries of the helper's ordered dict HO comes first
	Pad         map[string]int // per package: an unrelated global
	Unknown     map[int]string // ids of labels that do not exist (missing dependencies)
	nextID      int
	nextPath    int
	nextLit     int
	envIDs      map[string]int
}

func (p *engProject) label(id int) string {
	if u, ok := p.Unknown[id]; ok {
		return u
	}
	if t, ok := p.Targets[id]; ok {
		return "//" + t.Pkg + ":" + t.Name
	}
	s := p.Sources[id]
	rel := p.Paths[s.Path]
	dir, base := filepath.Split(rel)
	return "source://" + strings.TrimSuffix(dir, "/") + ":" + base
}

func relTo(pkg, path string) string {
	// path relative to the package directory
	if pkg == "" {
		return path
	}
	up := strings.Repeat("../", strings.Count(pkg, "/")+1)
	return up + path
}

// inputs of t's body, in the order the model uses: sources, then generated files of dependencies
func (p *engProject) inputs(t *engTarget) []int {
	var in []int
	for _, s := range t.Srcs {
		in = append(in, p.Sources[s].Path)
	}
	for _, d := range t.Deps {
		if dt, ok := p.Targets[d]; ok {
			in = append(in, dt.Gens...)
		}
	}
	return in
}

func (p *engProject) kval(t *engTarget) int {
	if t.Helper {
		return t.K*100 + p.HelperVer + 7*(p.HelperOrder%2)
	}
	return t.K * 100
}

func (p *engProject) command(t *engTarget) string {
	in := p.inputs(t)
	if t.Style == 4 {
		// the body finds its outputs and inputs in a manifest that is not part of the function's environment (a body
		// that works on "whatever is declared", as one using self.sources / self.dependencies or a directory listing
		// does): an edit of the dependency, source or output LISTS then changes no function environment
		return strings.Join([]string{"sh", relTo(t.Pkg, "body.sh"), relTo(t.Pkg, "."), p.label(t.ID), "%d", "@" + t.Name}, " ")
	}
	parts := []string{"sh", relTo(t.Pkg, "body.sh"), relTo(t.Pkg, "."), p.label(t.ID), "%d", strconv.Itoa(len(t.Gens))}
	for _, g := range t.Gens {
		parts = append(parts, relTo(t.Pkg, p.Paths[g]))
	}
	for _, i := range in {
		parts = append(parts, relTo(t.Pkg, p.Paths[i]))
	}
	return strings.Join(parts, " ")
}

// manifest lists what a style-4 body works on: the number of outputs, the outputs, the inputs (relative to the package)
func (p *engProject) manifest(t *engTarget) string {
	lines := []string{strconv.Itoa(len(t.Gens))}
	for _, g := range t.Gens {
		lines = append(lines, relTo(t.Pkg, p.Paths[g]))
	}
	for _, i := range p.inputs(t) {
		lines = append(lines, relTo(t.Pkg, p.Paths[i]))
	}
	return strings.Join(lines, "\n") + "\n"
}

// envKey is the semantic text of t's function environment: equal keys <=> same model environment number.
func (p *engProject) envKey(t *engTarget) string {
	// the unrelated global PAD of the target's own BUILD file is part of the key: C02 only promises that edits to OTHER
	// packages' build files are invisible, and the implementation does re-execute on this one
	k := fmt.Sprintf("%s|K=%d|style=%d|name=%s", p.command(t), t.K, t.Style, t.Name)
	if t.Helper {
		k += fmt.Sprintf("|helper=%d|order=%d", p.HelperVer, p.HelperOrder%2)
	}
	// Every target's function lives in a module file of its own (see render): nothing another target does can shift the
	// constant, name or global indices its bytecode uses.
	return k
}

func (p *engProject) envID(t *engTarget) int {
	k := p.envKey(t)
	if id, ok := p.envIDs[k]; ok {
		return id
	}
	id := len(p.envIDs) + 1
	p.envIDs[k] = id
	return id
}

func (p *engProject) render(root string) error {
	byPkg := map[string][]*engTarget{}
	for _, t := range p.Targets {
		byPkg[t.Pkg] = append(byPkg[t.Pkg], t)
	}
	for _, pkg := range p.Pkgs {
		ts := byPkg[pkg]
		sort.Slice(ts, func(i, j int) bool { return ts[i].ID < ts[j].ID })
		// Layout: every target's function lives in a module file of its own, fn_<name>.dawn (a Starlark module has one
		// constant pool, one name table and one global table, so functions sharing a file would shift each other's bytecode
		// indices whenever one of them is added, removed or changes style); the BUILD file loads them, holds an unrelated
		// global and one target() call per target whose dependency/source/output lists come from //:cfg.dawn.
		dir := filepath.Join(root, pkg)
		if err := os.MkdirAll(dir, 0755); err != nil {
			return err
		}
		keep := map[string]bool{}
		var b strings.Builder
		b.WriteString("load(\"//:cfg.dawn\", \"CFG\")\n")
		for _, t := range ts {
			var m strings.Builder
			m.WriteString("load(\"//:helpers.dawn\", \"helper\")\n\n")
			// a closure factory (style 3 uses two closures made by it)
			m.WriteString("def pair(x):\n    def get():\n        return x\n    return get\n\n")
			kexpr := fmt.Sprintf("K_%s", t.Name)
			for i := 0; i < t.Cosmetic%3; i++ {
				m.WriteString("\n")
			}
			fmt.Fprintf(&m, "# cosmetic %d\n", t.Cosmetic)
			cmd := strconv.Quote(p.command(t))
			val := kexpr + " * 100"
			if t.Helper {
				val = kexpr + " * 100 + helper()"
			}
			switch t.Style {
			case 0, 4:
				// references a self-recursive function defined further down the file
				fmt.Fprintf(&m, "def %s_fn():\n    sh.exec(%s %% (%s + rec(2)))   # c%d\n\n", t.Name, cmd, val, t.Cosmetic)
			case 1:
				// a closure over a mutable cell; references a pair of mutually recursive functions
				fmt.Fprintf(&m, "def mk_%s():\n    v = [0]\n    def inner():\n        sh.exec(%s %% (%s + v[0] + ping(3)))\n    return inner\n\n%s_fn = mk_%s()\n\n", t.Name, cmd, val, t.Name, t.Name)
			case 3:
				// two closures made by ONE definition; only the second captures the target's constant
				fmt.Fprintf(&m, "def %s_fn():\n    sh.exec(%s %% (ZA_%s() + ZB_%s()))\n\n", t.Name, cmd, t.Name, t.Name)
			default:
				// a default parameter value computed from the helper module (style 2 always uses the helper)
				fmt.Fprintf(&m, "def %s_fn(self, hv=helper()):\n    sh.exec(%s %% (%s * 100 + hv))\n\n", t.Name, cmd, kexpr)
			}
			// recursive functions, below the cosmetic edits of the file (their positions move, their meaning does not)
			m.WriteString("def rec(n):\n    if n <= 0:\n        return 0\n    return rec(n - 1)\n\n")
			m.WriteString("def ping(n):\n    if n <= 0:\n        return 0\n    return pong(n - 1)\n\ndef pong(n):\n    if n <= 0:\n        return 0\n    return ping(n - 1)\n\n")
			fmt.Fprintf(&m, "K_%s = %d\n", t.Name, t.K)
			if t.Style == 3 {
				fmt.Fprintf(&m, "ZA_%s = pair(0)\nZB_%s = pair(%s)\n", t.Name, t.Name, val)
			}
			file := "fn_" + t.Name + ".dawn"
			keep[file] = true
			if err := os.WriteFile(filepath.Join(dir, file), []byte(m.String()), 0644); err != nil {
				return err
			}
			fmt.Fprintf(&b, "load(\"//%s:%s\", \"%s_fn\")\n", pkg, file, t.Name)
		}
		if old, _ := filepath.Glob(filepath.Join(dir, "fn_*.dawn")); old != nil {
			for _, f := range old {
				if !keep[filepath.Base(f)] {
					os.Remove(f)
				}
			}
		}
		b.WriteString("\n")
		fmt.Fprintf(&b, "PAD = \"pad-%d\"\n\n", p.Pad[pkg])
		for _, t := range ts {
			fmt.Fprintf(&b, "target(name=%q, function=%s_fn, deps=CFG[%q][0], sources=CFG[%q][1], generates=CFG[%q][2], always=CFG[%q][3])\n",
				t.Name, t.Name, p.label(t.ID), p.label(t.ID), p.label(t.ID), p.label(t.ID))
		}
		if err := os.WriteFile(filepath.Join(dir, "BUILD.dawn"), []byte(b.String()), 0644); err != nil {
			return err
		}
	}
	var cfg strings.Builder
	cfg.WriteString("CFG = {\n")
	var ids []int
	for id := range p.Targets {
		ids = append(ids, id)
	}
	sort.Ints(ids)
	for _, id := range ids {
		t := p.Targets[id]
		var deps, srcs, gens []string
		for _, d := range t.Deps {
			deps = append(deps, strconv.Quote(p.label(d)))
		}
		for _, s := range t.Srcs {
			srcs = append(srcs, strconv.Quote("/"+p.Paths[p.Sources[s].Path]))
		}
		for _, g := range t.Gens {
			gens = append(gens, strconv.Quote("/"+p.Paths[g]))
		}
		always := "False"
		if t.Always {
			always = "True"
		}
		fmt.Fprintf(&cfg, "    %q: ([%s], [%s], [%s], %s),\n", p.label(id), strings.Join(deps, ", "), strings.Join(srcs, ", "), strings.Join(gens, ", "), always)
	}
	cfg.WriteString("}\n")
	if err := os.WriteFile(filepath.Join(root, "cfg.dawn"), []byte(cfg.String()), 0644); err != nil {
		return err
	}
	os.RemoveAll(filepath.Join(root, ".manifest"))
	for _, id := range ids {
		if t := p.Targets[id]; t.Style == 4 {
			os.MkdirAll(filepath.Join(root, ".manifest"), 0755)
			if err := os.WriteFile(filepath.Join(root, ".manifest", t.Name), []byte(p.manifest(t)), 0644); err != nil {
				return err
			}
		}
	}
	// the helper's environment holds a set and a dict of long strings (hash-ordered containers must be pickled in a
	// process-independent order)
	// ... and a dict whose ENTRY ORDER matters to the helper (a reordering is an edit of what the function references)
	// (the keys are named before the dict so that swapping the entries moves no constant of the module's pool: only the
	// order of the dict's entries differs between the two texts)
	ho := "KA = \"first\"\nKB = \"second\"\nHO = {KA: 1, KB: 2}"
	if p.HelperOrder%2 == 1 {
		ho = "KA = \"first\"\nKB = \"second\"\nHO = {KB: 2, KA: 1}"
	}
	helpers := fmt.Sprintf("HV = %d\nHS = set([\"include/alpha/first_header.h\", \"include/beta/second_header.h\", \"include/gamma/third_header.h\", \"include/delta/fourth_header.h\"])\nHD = {\"a-rather-long-key-number-one\": 0, \"a-rather-long-key-number-two\": 0}\n%s\n\ndef helper():\n    return HV + len(HS) - 4 + HD[\"a-rather-long-key-number-one\"] + (0 if HO.keys()[0] == KA else 7)\n", p.HelperVer, ho)
	return os.WriteFile(filepath.Join(root, "helpers.dawn"), []byte(helpers), 0644)
}

const engBodySh = `#!/bin/sh
# usage: body.sh <root> <label> <k> <noutputs> outputs... inputs...
root=$1; label=$2; k=$3; n=$4; shift 4
case "$n" in @*)
  # outputs and inputs come from a manifest: first line the number of outputs, then one path per line
  mf="$root/.manifest/${n#@}"; n=$(head -n 1 "$mf"); set -- $(tail -n +2 "$mf");;
esac
echo "$label" >> "$root/.exec.log"
case ",$VERIF_FAILRM," in *",$label,"*) rm -rf "$root/.dawn/build/temp"; printf 'body of %s fails' "$label" >&2; exit 1;; esac
case ",$VERIF_FAIL," in *",$label,"*) printf 'body of %s fails' "$label" >&2; exit 1;; esac
case ",$VERIF_PARTIAL," in *",$label,"*)
  # the process is killed in the middle of this body: outputs exist but are incomplete
  for o in "$@"; do :; done
  i=0; for o in "$@"; do if [ $i -lt $n ]; then mkdir -p "$(dirname "$o")"; echo partial > "$o"; fi; i=$((i+1)); done
  kill -9 $PPID; exit 0;;
esac
outs=""
i=0
while [ $i -lt $n ]; do outs="$outs $1"; shift; i=$((i+1)); done
tmp="$root/.tmpout.$$"
{
  echo "$label $k"
  for f in "$@"; do
    if [ -d "$f" ]; then echo D; (cd "$f" && find -L . -type f | LC_ALL=C sort | while read g; do echo "$g"; cat "$g"; done)
    elif [ -e "$f" ]; then echo F; cat "$f"
    else echo M; fi
  done
} | sha256sum > "$tmp"
for o in $outs; do mkdir -p "$(dirname "$o")"; cp "$tmp" "$o"; done
rm -f "$tmp"
printf 'out-%s' "$label"
`

// ---------------------------------------------------------------------------------------------
// model-level descriptions (rendered to Coq by the python driver)

type mTarget struct {
	ID     int   `json:"id"`
	Fn     bool  `json:"fn"`
	Deps   []int `json:"deps"`
	Srcs   []int `json:"srcs"`
	Gens   []int `json:"gens"`
	Env    int   `json:"env"`
	K      int   `json:"k"`
	Always bool  `json:"always"`
	Path   int   `json:"path"`
}

func (p *engProject) model() []mTarget {
	var out []mTarget
	used := map[int]bool{}
	var ids []int
	for id := range p.Targets {
		ids = append(ids, id)
	}
	sort.Ints(ids)
	for _, id := range ids {
		t := p.Targets[id]
		out = append(out, mTarget{ID: id, Fn: true, Deps: append([]int{}, t.Deps...), Srcs: append([]int{}, t.Srcs...), Gens: append([]int{}, t.Gens...), Env: p.envID(t), K: p.kval(t), Always: t.Always})
		for _, s := range t.Srcs {
			used[s] = true
		}
	}
	var sids []int
	for s := range used {
		sids = append(sids, s)
	}
	sort.Ints(sids)
	for _, s := range sids {
		out = append(out, mTarget{ID: s, Path: p.Sources[s].Path})
	}
	return out
}

type mObs struct {
	Kind      string              `json:"kind"` // build | crash | gc | edit
	OK        bool                `json:"ok"`
	LoadErr   bool                `json:"load_err"`
	Ran       []int               `json:"ran"`
	Events    map[string][]string `json:"events"`    // label id -> kinds in order
	Recs      [][3]int            `json:"recs"`      // (label id, rerun, hasdata), sorted
	Started   []int               `json:"started"`   // crash: bodies started
	Recorded  []int               `json:"recorded"`  // crash: records renamed during the run phase
	Premarked []int               `json:"premarked"` // crash: function targets whose re-run mark was written
	Reasons   map[string]string   `json:"reasons,omitempty"`
}

type mOp struct {
	Op    string    `json:"op"` // proj | file | build | gc
	Proj  []mTarget `json:"proj,omitempty"`
	Path  int       `json:"path,omitempty"`
	Lit   int       `json:"lit,omitempty"` // 0 = delete
	Label int       `json:"label,omitempty"`
	Mode  string    `json:"mode,omitempty"` // build | dry | always
	Fail  []int     `json:"fail,omitempty"`
	Crash string    `json:"crash,omitempty"`
	Index bool      `json:"index,omitempty"`
	Note  string    `json:"note,omitempty"`
	Obs   *mObs     `json:"obs,omitempty"`
}

type engHistory struct {
	Seed    int64    `json:"seed"`
	Index   int      `json:"index"`
	Ops     []mOp    `json:"ops"`
	Oracles []string `json:"oracles"`
}

// ---------------------------------------------------------------------------------------------

type engRun struct {
	extraEnv  []string // additional environment of the next child processes
	t         *testing.T
	rng       *rand.Rand
	root      string
	p         *engProject
	h         *engHistory
	litOf     map[int]int // path id -> literal id currently in the file (0 = absent / generated)
	self      string
	allLabels map[string]int
	dirStates map[string]int
	dirty     bool
	execPos   int
	hookPos   int
}

func (r *engRun) oracle(format string, args ...any) {
	r.h.Oracles = append(r.h.Oracles, fmt.Sprintf(format, args...))
}

func (r *engRun) labelID(s string) int {
	for id := range r.p.Targets {
		if r.p.label(id) == s {
			return id
		}
	}
	for id := range r.p.Sources {
		if r.p.label(id) == s {
			return id
		}
	}
	return -1
}

func (r *engRun) child(mode, lbl string, fail []int, crash string) (*engReport, int, bool) {
	reportPath := filepath.Join(r.root, ".report.json")
	os.Remove(reportPath)
	cmd := exec.Command(r.self, "-test.run", "^TestVerifEngineChild$", "-test.count=1")
	if crash != "" {
		// one slot: when the process exits at a hook no other body is in flight (no orphaned shell keeps writing)
		cmd = exec.Command("taskset", "-c", "0", r.self, "-test.run", "^TestVerifEngineChild$", "-test.count=1")
	}
	var fl []string
	for _, f := range fail {
		fl = append(fl, r.p.label(f))
	}
	partial := ""
	if strings.HasPrefix(crash, "partial|") {
		partial = strings.TrimPrefix(crash, "partial|")
	}
	cmd.Env = append(os.Environ(), "VERIF_CHILD=1", "VERIF_ROOT="+r.root, "VERIF_MODE="+mode, "VERIF_LABEL="+lbl,
		"VERIF_REPORT="+reportPath, "VERIF_FAIL="+strings.Join(fl, ","), "VERIF_CRASH="+crash, "VERIF_PARTIAL="+partial)
	cmd.Env = append(cmd.Env, r.extraEnv...)
	done := make(chan error, 1)
	var out []byte
	go func() {
		var err error
		out, err = cmd.CombinedOutput()
		done <- err
	}()
	var err error
	hung := false
	select {
	case err = <-done:
	case <-time.After(60 * time.Second):
		cmd.Process.Kill()
		err = <-done
		hung = true
	}
	code := 0
	if err != nil {
		code = 1
		if ee, ok := err.(*exec.ExitError); ok {
			code = ee.ExitCode()
		}
	}
	var rep engReport
	b, rerr := os.ReadFile(reportPath)
	if rerr != nil {
		if code != 137 && !hung && partial == "" {
			tail := string(out)
			if len(tail) > 600 {
				tail = tail[len(tail)-600:]
			}
			r.oracle("child-died mode=%s label=%s exit=%d output=%q", mode, lbl, code, tail)
		}
		return nil, code, hung
	}
	json.Unmarshal(b, &rep)
	os.Remove(reportPath)
	return &rep, code, hung
}

func readLines(path string, from int) ([]string, int) {
	b, err := os.ReadFile(path)
	if err != nil {
		return nil, from
	}
	lines := strings.Split(strings.TrimRight(string(b), "\n"), "\n")
	if len(b) == 0 {
		lines = nil
	}
	if from > len(lines) {
		from = len(lines)
	}
	return lines[from:], len(lines)
}

// records lists the persisted records as (label id, rerun, hasdata)
func (r *engRun) records() ([][3]int, []string) {
	var out [][3]int
	var unknown []string
	for _, kind := range []string{"targets", "sources"} {
		dir := filepath.Join(r.root, ".dawn", "build", kind)
		entries, _ := os.ReadDir(dir)
		for _, e := range entries {
			name, err := url.PathUnescape(e.Name())
			if err != nil {
				unknown = append(unknown, e.Name())
				continue
			}
			slash := strings.LastIndexByte(name, '/')
			pkg, tn := name[:slash], name[slash+1:]
			lbl := "//" + pkg + ":" + tn
			if kind == "sources" {
				lbl = "source:" + lbl
			}
			id := r.labelIDAny(lbl)
			b, _ := os.ReadFile(filepath.Join(dir, e.Name()))
			var info struct {
				Stamp string `json:"stamp"`
				Rerun bool   `json:"rerun"`
			}
			if err := json.Unmarshal(b, &info); err != nil {
				unknown = append(unknown, "unparsable:"+lbl)
				continue
			}
			if id < 0 {
				unknown = append(unknown, lbl)
				continue
			}
			rr, hd := 0, 0
			if info.Rerun {
				rr = 1
			}
			if info.Stamp != "" {
				hd = 1
			}
			out = append(out, [3]int{id, rr, hd})
		}
	}
	sort.Slice(out, func(i, j int) bool { return out[i][0] < out[j][0] })
	return out, unknown
}

// labelIDAny also resolves labels of removed targets/sources (ids are never reused)
func (r *engRun) labelIDAny(s string) int {
	if id, ok := r.allLabels[s]; ok {
		return id
	}
	return -1
}

var _ = bufio.NewReader

func (r *engRun) noteLabels() {
	for id, l := range r.p.Unknown {
		r.allLabels[l] = id
	}
	for id := range r.p.Targets {
		r.allLabels[r.p.label(id)] = id
	}
	for id := range r.p.Sources {
		r.allLabels[r.p.label(id)] = id
	}
}
