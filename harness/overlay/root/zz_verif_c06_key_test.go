package dawn

// C06, registry keys: module.go's loadModule turns the text of a load statement into the label under which the module
// is registered, waited for and executed; fetchModule turns that label into the file that is executed.  This harness
// calls the real loadModule for many (loading module, label text) pairs on one loaded project (requirements served
// from a download cache) and records, per pair, the registered key (module.dependencies, the registry) and the file
// (module.path of the registered module).  checks/C06.py compares both with Loader/KeyModel.v (module_key,
// module_file) and evaluates the direct oracle "one file, one key" over all pairs.

import (
	"bufio"
	"encoding/json"
	"fmt"
	"math/rand"
	"os"
	"path/filepath"
	"strconv"
	"strings"
	"sync"
	"testing"

	"github.com/mitchellh/go-homedir"
	"github.com/pgavlin/dawn/label"
)

type c06KeyCase struct {
	ID      int               `json:"id"`
	Family  string            `json:"family"`
	LProj   string            `json:"loader_project"`
	LPkg    string            `json:"loader_package"`
	LName   string            `json:"loader_name"`
	Reqs    map[string]string `json:"loader_requirements"`
	Raw     string            `json:"raw"`
	Outcome string            `json:"outcome"` // err | panic | key
	Detail  string            `json:"detail,omitempty"`
	Key     string            `json:"key,omitempty"`
	HasFile bool              `json:"has_file"`
	FProj   string            `json:"file_project,omitempty"`
	FRel    string            `json:"file_rel,omitempty"`
	// spelling family: the file the text was written for (by construction of the text, none of dawn's label code)
	WantProj string `json:"want_project,omitempty"`
	WantRel  string `json:"want_rel,omitempty"`
	WantKey  string `json:"want_key,omitempty"`
}

func TestVerifC06Key(t *testing.T) {
	outPath := os.Getenv("VERIF_OUT_KEY")
	if outPath == "" {
		t.Skip("VERIF_OUT_KEY not set")
	}
	seed, _ := strconv.ParseInt(os.Getenv("VERIF_SEED"), 10, 64)
	nrand, _ := strconv.Atoi(os.Getenv("VERIF_NKEY"))
	if nrand == 0 {
		nrand = 1500
	}
	top, err := os.MkdirTemp("", "verif-c06k-")
	if err != nil {
		t.Fatal(err)
	}
	defer os.RemoveAll(top)
	dir, home := filepath.Join(top, "proj"), filepath.Join(top, "home")
	cache := filepath.Join(home, ".dawn", "modules", "cache")
	libDir := filepath.Join(cache, "example.com", "lib@"+c06ReqVersion)
	otherDir := filepath.Join(cache, "example.com", "other@"+c06ReqVersion)
	for _, d := range []string{dir, libDir, otherDir} {
		if err := os.MkdirAll(d, 0o755); err != nil {
			t.Fatal(err)
		}
	}
	rootReqs := map[string]string{"lib": "example.com/lib", "lib2": "example.com/lib", "other": "example.com/other"}
	libReqs := map[string]string{"dep": "example.com/other"} // the required project has an alias of its own
	write := func(p, s string) {
		if err := os.WriteFile(p, []byte(s), 0o644); err != nil {
			t.Fatal(err)
		}
	}
	req := func(a, p string) string { return fmt.Sprintf("%s = { path = %q, version = %q }\n", a, p, c06ReqVersion) }
	write(filepath.Join(dir, "dawn.toml"), "[requirements]\n"+req("lib", "example.com/lib")+req("lib2", "example.com/lib")+req("other", "example.com/other"))
	write(filepath.Join(libDir, "dawn.toml"), "[requirements]\n"+req("dep", "example.com/other"))
	write(filepath.Join(otherDir, "dawn.toml"), "")

	homedir.DisableCache = true
	defer func() { homedir.DisableCache = false; homedir.Reset() }()
	old := os.Getenv("HOME")
	os.Setenv("HOME", home)
	defer os.Setenv("HOME", old)

	proj, err := Load(dir, &LoadOptions{Events: &c06Events{loading: map[string]int{}, ran: map[string]int{}}})
	if err != nil {
		t.Fatalf("loading the empty project: %v", err)
	}
	bases := map[string]string{"": dir, "example.com/lib": libDir, "example.com/other": otherDir}

	type loader struct {
		proj, pkg, name string
		reqs            map[string]string
	}
	loaders := []loader{
		{"", "//", "BUILD.dawn", rootReqs}, {"", "//lib", "BUILD.dawn", rootReqs}, {"", "//lib/sub", "x.dawn", rootReqs},
		{"", "//p1", "BUILD.dawn", rootReqs},
		{"example.com/lib", "//", "h.dawn", libReqs}, {"example.com/lib", "//sub", "BUILD.dawn", libReqs},
	}

	type input struct {
		family string
		ld     loader
		raw    string
		want   [3]string // project, path below its root, registry key (spelling family)
	}
	var inputs []input

	// (A) every spelling (c06Spellings) of files in several directories and projects, from every loader
	sc := &c06Scenario{
		Mods: map[string][]string{"h0": nil, "h1": nil, "h2": nil, "h3": nil, "r0": nil, "r1": nil, "o0": nil},
		Dirs: map[string]string{"h0": "", "h1": "lib", "h2": "lib/sub", "h3": "p1/deep/er", "r0": "", "r1": "sub", "o0": "x"},
		Proj: map[string]string{"r0": "example.com/lib", "r1": "example.com/lib", "o0": "example.com/other"},
		Reqs: rootReqs,
	}
	files := []string{"h0", "h1", "h2", "h3", "r0", "r1", "o0", "@", "@lib", "@lib/sub", "@p1"}
	for _, ld := range loaders {
		lsc := *sc
		lsc.Reqs = ld.reqs
		for _, f := range files {
			tproj, tdir, tfile := c06Place(&lsc, f)
			want := [3]string{tproj, strings.TrimPrefix(tdir+"/"+tfile, "/"), "module:" + tproj + "//" + tdir + ":" + tfile}
			for _, raw := range c06Spellings(&lsc, ld.proj, strings.TrimPrefix(ld.pkg, "//"), f) {
				inputs = append(inputs, input{"spelling", ld, raw, want})
			}
		}
	}
	// (B) boundary texts
	boundary := []string{"", ":", "//", "///", "::", ":::", "a:b:c", "k:", "k::", "k:://", "k://", "k:a", "k:a:", ".", "..", ":.", ":..",
		"//a:..", "//a:.", "//./a", "//../a", "//a/./b:x", "a/../b:x", "./a:x", "//a:b/c", "a:b/c", "/a:x", "/:x", "lib//", "lib//:x",
		"lib2//:x", "lib//sub:", "lib//sub", "k:lib//sub:x", "unknown//:x", "dep//:x", "dep//y:x", "other//:x", "example.com/lib//:x",
		"example.com/nothere//:x", "example.com/lib//sub:BUILD.dawn", "example.com/lib//sub", "example.com//x:y", "a/b//c:d", "a//b//c:d",
		"lib:x", "lib/:x", "lib/sub:x", "sub:x", "sub:", "sub", "sub/", ":BUILD.dawn", ":x.dawn", "module::x.dawn", "module:", "module",
		"//lib:BUILD.dawn", "//lib:", "//lib", "//lib/", "//lib//", "///lib", "////lib", "//lib///sub", " ", "// :x", "//a b:x", "//a:x y",
		"\t", "//a:\n", "k:p//a:b", "k:p/q//a:b", "p/q//a", "p/q//:", "p/q//", "//:", "//::", "//a::", "//a:b:", "a:b:", ":a:b"}
	for _, ld := range loaders {
		for _, raw := range boundary {
			inputs = append(inputs, input{"boundary", ld, raw, [3]string{}})
		}
	}
	// (C) random texts over the alphabet of labels
	rng := rand.New(rand.NewSource(seed*2750159 + 3))
	toks := []string{"/", "//", ":", ".", "..", "a", "b", "lib", "sub", "lib2", "dep", "other", "example.com/lib", "k", "module", "source",
		"x.dawn", "BUILD.dawn", "p1", "", "-", "_"}
	for i := 0; i < nrand; i++ {
		var b strings.Builder
		for n := 1 + rng.Intn(7); n > 0; n-- {
			b.WriteString(toks[rng.Intn(len(toks))])
		}
		inputs = append(inputs, input{"random", loaders[rng.Intn(len(loaders))], b.String(), [3]string{}})
	}

	f, err := os.Create(outPath)
	if err != nil {
		t.Fatal(err)
	}
	defer f.Close()
	w := bufio.NewWriterSize(f, 1<<20)
	defer w.Flush()
	enc := json.NewEncoder(w)
	enc.SetEscapeHTML(false)

	for id, in := range inputs {
		c := c06KeyCase{ID: id, Family: in.family, LProj: in.ld.proj, LPkg: in.ld.pkg, LName: in.ld.name, Reqs: in.ld.reqs, Raw: in.raw,
			WantProj: in.want[0], WantRel: in.want[1], WantKey: in.want[2]}
		lbl := &label.Label{Kind: "module", Project: in.ld.proj, Package: in.ld.pkg, Name: in.ld.name}
		m := &module{label: lbl, requirements: in.ld.reqs, out: newLineWriter(lbl, proj.events)}
		m.cond = sync.NewCond(&m.m)
		var lerr error
		func() {
			defer func() {
				if x := recover(); x != nil {
					c.Outcome, c.Detail = "panic", fmt.Sprint(x)
				}
			}()
			_, lerr = m.loadModule(proj, in.raw)
		}()
		switch {
		case c.Outcome == "panic":
		case len(m.dependencies) == 0:
			c.Outcome = "err"
			if lerr == nil {
				c.Outcome, c.Detail = "panic", "loadModule returned no error and registered nothing"
			} else {
				c.Detail = lerr.Error()
			}
		default:
			c.Outcome, c.Key = "key", m.dependencies[0]
			proj.m.Lock()
			reg := proj.modules[c.Key]
			proj.m.Unlock()
			if reg == nil {
				c.Outcome, c.Detail = "panic", "the label in module.dependencies is not a key of the registry"
			} else if reg.path != "" {
				for p, base := range bases {
					if rel, err := filepath.Rel(base, reg.path); err == nil && !strings.HasPrefix(rel, "..") && strings.HasPrefix(reg.path, base+string(filepath.Separator)) {
						c.HasFile, c.FProj, c.FRel = true, p, filepath.ToSlash(rel)
					}
				}
			}
		}
		if len(c.Detail) > 160 {
			c.Detail = c.Detail[:160]
		}
		if err := enc.Encode(&c); err != nil {
			t.Fatal(err)
		}
	}
}
