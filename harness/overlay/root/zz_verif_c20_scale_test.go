package dawn

// C20, scale family: the lifetime of a cache (see also the header of zz_verif_c20_test.go).
//
// The property is stated for ALL numbers of callers and keys, and "at most once per key" / "every caller
// receives the same value" are claims about the whole life of a cache, not about a burst of a few dozen
// calls on 1-3 keys.  The model (Cache/Model.v) has entries that only grow, for any number of keys
// (theorems cache_invariant, stored_key_is_never_recomputed); the families of zz_verif_c20_test.go never
// take the real cache beyond 3 entries and ~50 calls, so nothing showed that cache.go has this behaviour
// when a cache holds many entries, has served many calls, or has seen many failures.  This family does.
//
// A scenario has K distinct keys (a ladder of sizes 5 .. 10^5 in the quick tier, .. 2^20+1 in the
// thorough tier: powers of two and of ten plus one, and random sizes in between), G goroutines, and a
// list of phases; in a phase every goroutine performs its list of calls, phases are separated by a
// barrier.  Every call has its own value (a fresh positive int) or fails.  Access patterns:
//   fill_revisit   every key is computed (some by two goroutines at once, some after a failed first
//                  attempt), then every key is asked for again (forward / reverse / shuffled), then more
//                  new keys are added, each followed by a request for a random older key
//   sliding_lags   key i is computed and then keys i-1, i-2, i-7, i-33, ... i-20011, i/2 and 0 are asked for
//   hot_cold       a few hot keys are asked for between the computations of the cold ones; then all cold
//                  keys are asked for again in reverse
//   fail_storm     per key 0 .. ~1000 failing calls (spread over the goroutines) before the succeeding
//                  ones, then failing and succeeding callables offered for the stored keys
//   random         no barrier: each goroutine draws keys (uniform / near its last key / hot) and outcomes
//
// Oracles are evaluated ONLINE with O(1) state per key (so they work for millions of calls):
//   invoke_after_store                    a callable runs for a key that already had a successful invocation
//   multiple_successful_invocations       (a) of the property
//   invocations_overlap                   two callables of one cache run at the same time
//   return_differs_from_successful_invocation   a caller got a value that is not THE value computed for the key
//   return_differs_from_own_invocation / failed_invocation_returned_value / error_without_failed_invocation /
//   return_neither_value_nor_error
//   entries_differ_from_successful_invocations   at the end, entries != {key -> value of its successful invocation}
// The complete history is kept (12 bytes per event).  When an oracle fails the harness writes the events of
// the offending key (each with the number of keys stored at that moment), re-executes the calls up to the
// failure from ONE goroutine in their observed order on a fresh cache, and if that fails too, reduces the
// call list by delta debugging (time-boxed); the reduced list is the concrete failing input of the replay.
// Scenarios whose history is short enough (<= $VERIF_C20_SCALE_REPLAY events) are also written as ordinary
// S lines (ids 700000+j) and replayed by the Coq model like those of the other families.

import (
	"encoding/json"
	"fmt"
	"math/rand"
	"runtime"
	"sort"
	"strconv"
	"strings"
	"sync"
	"sync/atomic"
	"time"

	"go.starlark.net/starlark"
)

const c20ScaleBase = 700000

type c20SOp struct {
	key int32
	val int32 // >= 1: the value the callable returns; -1: the callable fails
}

type c20SEvent struct {
	key    int32
	val    int32 // 'e': value or -1; 'r': value, -1 error, -2 neither
	stored int32 // number of successful invocations logged so far (= keys a correct cache holds)
	g      uint8
	kind   byte
}

type c20Scale struct {
	j        int
	pattern  string
	builtin  bool
	K        int // number of distinct keys
	G        int
	keyStyle int // 0 "k<i>", 1 100-byte common prefix, 2 decimal numbers
	gosched  bool
	phases   [][][]c20SOp // phase -> goroutine -> calls
	nops     int
	params   string
}

var c20ScaleLadder = []int{5, 17, 65, 101, 257, 1001, 1025, 4097, 10001, 16385, 65537, 100001, 262145, 1000001, 1048577}

var c20ScalePatterns = []string{"sliding_lags", "hot_cold", "fail_storm", "random"}

var c20ScalePrefix = strings.Repeat("p", 100)

func (sc *c20Scale) keyString(i int) string {
	switch sc.keyStyle {
	case 1:
		return c20ScalePrefix + strconv.Itoa(i)
	case 2:
		return strconv.Itoa(i)
	}
	return "k" + strconv.Itoa(i)
}

func (sc *c20Scale) keyName(i int) string {
	switch sc.keyStyle {
	case 1:
		return "<p*100>" + strconv.Itoa(i)
	case 2:
		return strconv.Quote(strconv.Itoa(i))
	}
	return "k" + strconv.Itoa(i)
}

// c20GenScale: scenario j of the scale family.  maxK bounds the ladder, budget the number of calls of the
// patterns that make several calls per key.
func c20GenScale(seed int64, j int, maxK, budget int) *c20Scale {
	rng := rand.New(rand.NewSource(seed*1000003 + int64(j)*15485863 + 29))
	var ladder []int
	for _, k := range c20ScaleLadder {
		if k <= maxK {
			ladder = append(ladder, k)
		}
	}
	sc := &c20Scale{j: j, builtin: (j+int(seed))%2 == 1}
	sc.G = []int{1, 2, 3, 4, 8, 16}[rng.Intn(6)]
	sc.keyStyle = []int{0, 0, 1, 2}[rng.Intn(4)]
	uid := int32(0)
	ok := func(key int) c20SOp { uid++; return c20SOp{int32(key), uid} }
	bad := func(key int) c20SOp { return c20SOp{int32(key), -1} }
	newPhase := func() [][]c20SOp { return make([][]c20SOp, sc.G) }
	if j < len(ladder) {
		sc.pattern, sc.K = "fill_revisit", ladder[j]
	} else {
		q := j - len(ladder)
		sc.pattern = c20ScalePatterns[q%len(c20ScalePatterns)]
		sc.K = ladder[(q/len(c20ScalePatterns)*3+q+int(seed))%len(ladder)]
		if q >= 2*len(c20ScalePatterns) && rng.Intn(2) == 0 {
			// a size between two steps of the ladder
			a := rng.Intn(len(ladder))
			hi := ladder[a]
			lo := 2
			if a > 0 {
				lo = ladder[a-1]
			}
			sc.K = lo + rng.Intn(hi-lo+1)
		}
	}
	G := sc.G
	switch sc.pattern {
	case "fill_revisit":
		order := rng.Intn(3)
		K := sc.K
		E := K/8 + 2
		p0, p1, p2 := newPhase(), newPhase(), newPhase()
		for i := 0; i < K; i++ {
			g := i % G
			if rng.Intn(16) == 0 {
				p0[g] = append(p0[g], bad(i))
			}
			p0[g] = append(p0[g], ok(i))
			if rng.Intn(8) == 0 {
				g2 := (i*7 + 3) % G
				p0[g2] = append(p0[g2], ok(i))
			}
		}
		idx := make([]int, K)
		for i := range idx {
			idx[i] = i
			if order == 1 {
				idx[i] = K - 1 - i
			}
		}
		if order == 2 {
			rng.Shuffle(K, func(a, b int) { idx[a], idx[b] = idx[b], idx[a] })
		}
		for n, i := range idx {
			g := (n + 1) % G
			p1[g] = append(p1[g], ok(i))
		}
		for e := 0; e < E; e++ {
			g := e % G
			p2[g] = append(p2[g], ok(K+e), ok(rng.Intn(K+e)))
		}
		sc.K = K + E
		sc.phases = [][][]c20SOp{p0, p1, p2}
		sc.params = fmt.Sprintf("fill %d keys, revisit all (%s), then %d more keys each followed by a request for a random older key",
			K, []string{"forward", "reverse", "shuffled"}[order], E)
	case "sliding_lags":
		lags := []int{1, 2, 7, 33, 129, 1000, 4097, 20011}
		if sc.K > budget/8 {
			sc.K = budget/8 + rng.Intn(budget/64+1)
		}
		K := sc.K
		p0 := newPhase()
		for i := 0; i < K; i++ {
			g := i % G
			p0[g] = append(p0[g], ok(i))
			for n, l := range lags {
				if l <= i && (i+n)%2 == 0 {
					p0[g] = append(p0[g], ok(i-l))
				}
			}
			if i%16 == 5 {
				p0[g] = append(p0[g], ok(0), ok(i/2))
			}
		}
		sc.phases = [][][]c20SOp{p0}
		sc.params = fmt.Sprintf("compute key i, then ask for i-l for l in %v, every 16th i also for 0 and i/2", lags)
	case "hot_cold":
		if sc.K > budget/3 {
			sc.K = budget/3 + rng.Intn(budget/24+1)
		}
		if sc.K < 5 {
			sc.K = 5
		}
		K := sc.K
		H := 3
		p0, p1 := newPhase(), newPhase()
		for i := H; i < K; i++ {
			g := i % G
			p0[g] = append(p0[g], ok(i), ok(i%H))
		}
		for i := K - 1; i >= H; i-- {
			g := (i + 1) % G
			p1[g] = append(p1[g], ok(i))
		}
		sc.phases = [][][]c20SOp{p0, p1}
		sc.params = fmt.Sprintf("%d hot keys asked for after every computation of one of the %d cold keys, then all cold keys again in reverse", H, K-H)
	case "fail_storm":
		fl := []int{0, 1, 2, 5, 17, 130, 1030}
		if sc.K > budget/8 {
			sc.K = budget/8 + rng.Intn(budget/64+1)
		}
		K := sc.K
		fmax := (budget/K - 4) * 3
		if fmax < 1 {
			fmax = 1
		}
		p0, p1, p2 := newPhase(), newPhase(), newPhase()
		n, maxF := 0, 0
		for i := 0; i < K; i++ {
			f := fl[(i+j)%len(fl)]
			if f > fmax {
				f = fmax
			}
			if f > maxF {
				maxF = f
			}
			for x := 0; x < f; x++ {
				p0[n%G] = append(p0[n%G], bad(i))
				n++
			}
			p1[i%G] = append(p1[i%G], ok(i))
			p1[(i+1)%G] = append(p1[(i+1)%G], ok(i))
			p2[(i+2)%G] = append(p2[(i+2)%G], bad(i), ok(i))
		}
		sc.phases = [][][]c20SOp{p0, p1, p2}
		sc.params = fmt.Sprintf("per key 0..%d failing calls spread over the goroutines, then two succeeding calls, then a failing and a succeeding callable for the stored key", maxF)
	case "random":
		if sc.K > budget/4 {
			sc.K = budget/4 + rng.Intn(budget/32+1)
		}
		K := sc.K
		nops := 6*K + 50
		if nops > budget {
			nops = budget
		}
		pf := []float64{0, 0.2, 0.5}[rng.Intn(3)]
		sc.gosched = true
		p0 := newPhase()
		for g := 0; g < G; g++ {
			last := rng.Intn(K)
			for x := 0; x < nops/G+1; x++ {
				var k int
				switch r := rng.Intn(10); {
				case r < 5:
					k = rng.Intn(K)
				case r < 8:
					k = (last + rng.Intn(9) - 4 + K) % K
				default:
					k = rng.Intn(4) % K
				}
				last = k
				if rng.Float64() < pf {
					p0[g] = append(p0[g], bad(k))
				} else {
					p0[g] = append(p0[g], ok(k))
				}
			}
		}
		sc.phases = [][][]c20SOp{p0}
		sc.params = fmt.Sprintf("no barrier; keys drawn uniform / near the goroutine's last key / from 4 hot keys; failure probability %.1f", pf)
	}
	for _, ph := range sc.phases {
		for _, ops := range ph {
			sc.nops += len(ops)
		}
	}
	return sc
}

func (sc *c20Scale) describe() string {
	mode := "direct (*cache).once"
	if sc.builtin {
		mode = "Cache() and .once through starlark.Call"
	}
	return fmt.Sprintf("scale scenario %d: pattern %s (%s); %d distinct keys %s..%s, %d goroutines, %d phases, %d calls, every call with its own value; %s",
		sc.j, sc.pattern, sc.params, sc.K, sc.keyName(0), sc.keyName(sc.K-1), sc.G, len(sc.phases), sc.nops, mode)
}

type c20SViolation struct {
	name string
	key  int
	at   int // number of events logged when it was noticed
}

// c20ScaleState: the online oracles.
type c20ScaleState struct {
	succ, inv []int32
	first     []int32
	inCall    int32
	stored    int32
	mu        sync.Mutex
	viol      []c20SViolation
	nviol     map[string]int
	hist      []c20SEvent
	keep      bool
}

func c20NewScaleState(K int, keep bool, capHint int) *c20ScaleState {
	st := &c20ScaleState{succ: make([]int32, K), inv: make([]int32, K), first: make([]int32, K), nviol: map[string]int{}, keep: keep}
	if keep {
		st.hist = make([]c20SEvent, 0, capHint)
	}
	return st
}

func (st *c20ScaleState) flag(name string, key int) {
	st.mu.Lock()
	st.nviol[name]++
	if len(st.viol) < 64 {
		st.viol = append(st.viol, c20SViolation{name, key, len(st.hist)})
	}
	st.mu.Unlock()
}

func (st *c20ScaleState) log(kind byte, g int, key int32, val int32) {
	if !st.keep {
		return
	}
	st.mu.Lock()
	st.hist = append(st.hist, c20SEvent{key: key, val: val, stored: atomic.LoadInt32(&st.stored), g: uint8(g), kind: kind})
	st.mu.Unlock()
}

type c20ScaleCache struct {
	c      *cache
	onceFn starlark.Value
}

func c20NewScaleCache(builtin bool) (*c20ScaleCache, error) {
	if builtin {
		v, err := starlark.Call(&starlark.Thread{Name: "mk"}, builtin_cache, nil, nil)
		if err != nil {
			return nil, err
		}
		c := v.(*cache)
		f, _ := c.Attr("once")
		return &c20ScaleCache{c, f}, nil
	}
	c := &cache{entries: map[string]starlark.Value{}}
	c.onceM = c.newOnce()
	return &c20ScaleCache{c, nil}, nil
}

func c20ScaleDecode(v starlark.Value, err error) int32 {
	if err != nil {
		return -1
	}
	if i, ok := v.(starlark.Int); ok {
		if n, ok := i.Int64(); ok && n >= 1 && n < 1<<31 {
			return int32(n)
		}
	}
	return -2
}

// c20ScaleCall performs one call of once and evaluates the per-call oracles.
func c20ScaleCall(cc *c20ScaleCache, st *c20ScaleState, thread *starlark.Thread, g int, op c20SOp, key string) {
	var ownOk, ownFail bool
	k := int(op.key)
	callable := starlark.NewBuiltin("h", func(_ *starlark.Thread, _ *starlark.Builtin, _ starlark.Tuple, _ []starlark.Tuple) (starlark.Value, error) {
		if atomic.AddInt32(&st.inCall, 1) != 1 {
			st.flag("invocations_overlap", k)
		}
		st.log('b', g, op.key, 0)
		atomic.AddInt32(&st.inv[k], 1)
		if atomic.LoadInt32(&st.succ[k]) > 0 {
			st.flag("invoke_after_store", k)
		}
		if op.val >= 0 {
			if atomic.AddInt32(&st.succ[k], 1) == 1 {
				atomic.StoreInt32(&st.first[k], op.val)
				atomic.AddInt32(&st.stored, 1)
			} else {
				st.flag("multiple_successful_invocations", k)
			}
			ownOk = true
		} else {
			ownFail = true
		}
		st.log('e', g, op.key, op.val)
		atomic.AddInt32(&st.inCall, -1)
		if op.val >= 0 {
			return starlark.MakeInt64(int64(op.val)), nil
		}
		return nil, fmt.Errorf("planned failure")
	})
	st.log('c', g, op.key, 0)
	var v starlark.Value
	var err error
	if cc.onceFn != nil {
		v, err = starlark.Call(thread, cc.onceFn, starlark.Tuple{starlark.String(key), callable}, nil)
	} else {
		v, err = cc.c.once(thread, nil, key, callable)
	}
	rv := c20ScaleDecode(v, err)
	st.log('r', g, op.key, rv)
	switch {
	case rv == -2:
		st.flag("return_neither_value_nor_error", k)
	case rv == -1:
		if !ownFail {
			st.flag("error_without_failed_invocation", k)
		}
	default:
		if ownFail {
			st.flag("failed_invocation_returned_value", k)
		}
		if ownOk && rv != op.val {
			st.flag("return_differs_from_own_invocation", k)
		}
		if atomic.LoadInt32(&st.succ[k]) == 0 || atomic.LoadInt32(&st.first[k]) != rv {
			st.flag("return_differs_from_successful_invocation", k)
		}
	}
}

// c20ScaleFinal compares entries with {key -> value of its (first) successful invocation}.
func c20ScaleFinal(cc *c20ScaleCache, st *c20ScaleState, keys []string) (entriesLen, storedKeys int) {
	cc.c.m.Lock()
	defer cc.c.m.Unlock()
	entriesLen = len(cc.c.entries)
	for k, ks := range keys {
		v, ok := cc.c.entries[ks]
		if st.succ[k] > 0 {
			storedKeys++
			if !ok || c20ScaleDecode(v, nil) != st.first[k] {
				st.flag("entries_differ_from_successful_invocations", k)
			}
		} else if ok {
			st.flag("entry_without_successful_invocation", k)
		}
	}
	if entriesLen != storedKeys && st.nviol["entries_differ_from_successful_invocations"]+st.nviol["entry_without_successful_invocation"] == 0 {
		st.flag("entries_has_keys_outside_the_plan", -1)
	}
	return
}

func (sc *c20Scale) allKeys() []string {
	keys := make([]string, sc.K)
	for i := range keys {
		keys[i] = sc.keyString(i)
	}
	return keys
}

type c20ScaleResult struct {
	st         *c20ScaleState
	panics     []string
	entriesLen int
	storedKeys int
	elapsed    time.Duration
}

func c20RunScale(sc *c20Scale) (res c20ScaleResult) {
	t0 := time.Now()
	keys := sc.allKeys()
	st := c20NewScaleState(sc.K, true, 3*sc.nops+16)
	res.st = st
	cc, err := c20NewScaleCache(sc.builtin)
	if err != nil {
		res.panics = append(res.panics, "builtin_cache: "+err.Error())
		return
	}
	var pmu sync.Mutex
	for _, ph := range sc.phases {
		var wg sync.WaitGroup
		start := make(chan struct{})
		for g := range ph {
			if len(ph[g]) == 0 {
				continue
			}
			wg.Add(1)
			go func(g int, ops []c20SOp) {
				defer wg.Done()
				defer func() {
					if x := recover(); x != nil {
						pmu.Lock()
						res.panics = append(res.panics, fmt.Sprint(x))
						pmu.Unlock()
					}
				}()
				thread := &starlark.Thread{Name: "g" + strconv.Itoa(g)}
				<-start
				for n, op := range ops {
					if sc.gosched && (n+g)%7 == 0 {
						runtime.Gosched()
					}
					c20ScaleCall(cc, st, thread, g, op, keys[op.key])
				}
			}(g, ph[g])
		}
		close(start)
		wg.Wait()
	}
	res.entriesLen, res.storedKeys = c20ScaleFinal(cc, st, keys)
	res.elapsed = time.Since(t0)
	return
}

// c20ScaleSeq runs a list of calls from one goroutine on a fresh cache; returns the first oracle that fails.
func c20ScaleSeq(sc *c20Scale, keys []string, ops []c20SOp) (string, int) {
	st := c20NewScaleState(sc.K, false, 0)
	cc, err := c20NewScaleCache(sc.builtin)
	if err != nil {
		return "", -1
	}
	var name string
	key := -1
	func() {
		defer func() {
			if x := recover(); x != nil {
				name = "panic"
			}
		}()
		thread := &starlark.Thread{Name: "seq"}
		for _, op := range ops {
			c20ScaleCall(cc, st, thread, 0, op, keys[op.key])
			if len(st.viol) > 0 {
				return
			}
		}
		c20ScaleFinal(cc, st, keys)
	}()
	if name == "" && len(st.viol) > 0 {
		name, key = st.viol[0].name, st.viol[0].key
	}
	return name, key
}

// c20ScaleReduce: delta debugging (complement removal) of a failing sequential call list, time-boxed.
func c20ScaleReduce(sc *c20Scale, keys []string, ops []c20SOp, want string, box time.Duration) ([]c20SOp, int) {
	deadline := time.Now().Add(box)
	tests := 0
	fails := func(o []c20SOp) bool {
		tests++
		n, _ := c20ScaleSeq(sc, keys, o)
		return n == want
	}
	// two cheap passes first: without the failing calls; with only the first call on every key (and the last call)
	if len(ops) > 2 {
		var cand []c20SOp
		for i, o := range ops {
			if o.val >= 0 || i == len(ops)-1 {
				cand = append(cand, o)
			}
		}
		if len(cand) < len(ops) && fails(cand) {
			ops = cand
		}
		seen := map[int32]bool{}
		cand = nil
		for i, o := range ops {
			if !seen[o.key] || i == len(ops)-1 {
				cand = append(cand, o)
			}
			seen[o.key] = true
		}
		if len(cand) < len(ops) && fails(cand) {
			ops = cand
		}
	}
	n := 2
	for len(ops) >= 2 && time.Now().Before(deadline) {
		chunk := (len(ops) + n - 1) / n
		reduced := false
		for i := 0; i*chunk < len(ops) && time.Now().Before(deadline); i++ {
			lo, hi := i*chunk, (i+1)*chunk
			if hi > len(ops) {
				hi = len(ops)
			}
			cand := append(append(make([]c20SOp, 0, len(ops)-(hi-lo)), ops[:lo]...), ops[hi:]...)
			if fails(cand) {
				ops = cand
				if n > 2 {
					n--
				}
				reduced = true
				break
			}
		}
		if !reduced {
			if chunk == 1 {
				break
			}
			n *= 2
			if n > len(ops) {
				n = len(ops)
			}
		}
	}
	// a canonical order reads (and compresses) better: all calls but the last sorted by key, if that still fails
	// (second candidate: the earlier calls on the last call's key first, the rest sorted)
	if len(ops) > 2 {
		last := ops[len(ops)-1].key
		for _, front := range []bool{false, true} {
			cand := append([]c20SOp{}, ops...)
			sort.SliceStable(cand[:len(cand)-1], func(a, b int) bool {
				if front && (cand[a].key == last) != (cand[b].key == last) {
					return cand[a].key == last
				}
				return cand[a].key < cand[b].key
			})
			if fails(cand) {
				ops = cand
				break
			}
		}
	}
	return ops, tests
}

// c20ScaleOps renders a call list with runs of consecutive keys compressed.
func c20ScaleOps(sc *c20Scale, ops []c20SOp, maxGroups int) string {
	var out []string
	for i := 0; i < len(ops); {
		j := i + 1
		d := int32(0)
		if j < len(ops) && ops[j].key == ops[i].key && (ops[j].val < 0) == (ops[i].val < 0) {
			// the same call repeated
			for j < len(ops) && ops[j].key == ops[i].key && (ops[j].val < 0) == (ops[i].val < 0) {
				j++
			}
			what := "callable fails"
			if ops[i].val >= 0 {
				what = fmt.Sprintf("callables return %d..%d, one value per call", ops[i].val, ops[j-1].val)
			}
			out = append(out, fmt.Sprintf("%d times once(%s; %s)", j-i, sc.keyName(int(ops[i].key)), what))
			i = j
			continue
		}
		if j < len(ops) && (ops[j].val < 0) == (ops[i].val < 0) && (ops[j].key-ops[i].key == 1 || ops[j].key-ops[i].key == -1) {
			d = ops[j].key - ops[i].key
			for j < len(ops) && (ops[j].val < 0) == (ops[i].val < 0) && ops[j].key-ops[j-1].key == d {
				j++
			}
		}
		what := "callable fails"
		if ops[i].val >= 0 {
			what = "callable returns " + strconv.Itoa(int(ops[i].val))
			if j-i > 1 {
				what = fmt.Sprintf("callables return %d..%d, one value per call", ops[i].val, ops[j-1].val)
			}
		}
		if j-i > 1 {
			out = append(out, fmt.Sprintf("once(%s .. %s in turn [%d calls]; %s)", sc.keyName(int(ops[i].key)), sc.keyName(int(ops[j-1].key)), j-i, what))
		} else {
			out = append(out, fmt.Sprintf("once(%s; %s)", sc.keyName(int(ops[i].key)), what))
		}
		i = j
	}
	if len(out) > maxGroups {
		h := maxGroups / 2
		out = append(append(append([]string{}, out[:h]...), fmt.Sprintf("... %d more groups ...", len(out)-2*h)), out[len(out)-h:]...)
	}
	return strings.Join(out, "; ")
}

func c20ScaleTrail(sc *c20Scale, hist []c20SEvent, key int, max int) string {
	var out []string
	for _, e := range hist {
		if int(e.key) != key {
			continue
		}
		s := fmt.Sprintf("%c%d", e.kind, e.g)
		switch e.kind {
		case 'c':
			s += fmt.Sprintf("[%d keys stored]", e.stored)
		case 'e', 'r':
			s += "=" + strconv.Itoa(int(e.val))
		}
		out = append(out, s)
	}
	if len(out) > max {
		h := max / 2
		out = append(append(append([]string{}, out[:h]...), fmt.Sprintf("... %d more ...", len(out)-2*h)), out[len(out)-h:]...)
	}
	return strings.Join(out, " ")
}

// c20ScaleSLine renders a (short) scale history as an ordinary S line for the Coq replay.
func c20ScaleSLine(sc *c20Scale, r c20ScaleResult, cc map[int]int32) string {
	plan := make([]string, sc.G)
	for g := 0; g < sc.G; g++ {
		var cs []string
		for _, ph := range sc.phases {
			for _, op := range ph[g] {
				o := "f"
				if op.val >= 0 {
					o = strconv.Itoa(int(op.val))
				}
				cs = append(cs, strconv.Itoa(int(op.key))+":"+o)
			}
		}
		plan[g] = strings.Join(cs, ",")
	}
	hs := make([]string, 0, len(r.st.hist))
	for _, e := range r.st.hist {
		switch e.kind {
		case 'c', 'b':
			hs = append(hs, fmt.Sprintf("%c%d:%d", e.kind, e.g, e.key))
		default:
			hs = append(hs, fmt.Sprintf("%c%d:%d:%d", e.kind, e.g, e.key, e.val))
		}
	}
	fs := make([]string, 0, sc.K)
	for k := 0; k < sc.K; k++ {
		if v, ok := cc[k]; ok {
			fs = append(fs, fmt.Sprintf("%d=%d", k, v))
		} else {
			fs = append(fs, fmt.Sprintf("%d=-", k))
		}
	}
	return strings.Join([]string{"S", strconv.Itoa(c20ScaleBase + sc.j), "scale-" + sc.pattern, strconv.Itoa(sc.G), strconv.Itoa(sc.K),
		strings.Join(plan, "|"), strings.Join(hs, " "), strings.Join(fs, ","),
		sc.keyName(0) + ".." + sc.keyName(sc.K-1), sc.describe(), "", "scale", "", ""}, "\t")
}

var c20ScaleReduced int

func c20JSON(v interface{}) string {
	var b strings.Builder
	enc := json.NewEncoder(&b)
	enc.SetEscapeHTML(false)
	enc.Encode(v)
	return strings.TrimSpace(b.String())
}

// c20ScaleLines runs the oracles' bookkeeping for one finished scale scenario and returns its output lines.
func c20ScaleLines(sc *c20Scale, rawID int, r c20ScaleResult, replayEvents int) []string {
	var lines []string
	id := strconv.Itoa(rawID)
	for _, p := range r.panics {
		lines = append(lines, "ORACLE\tpanic\t"+id+"\t"+strings.ReplaceAll(p, "\n", " "))
	}
	st := r.st
	if st == nil {
		return lines
	}
	maxCalls, maxFails := 0, 0
	{
		calls := make([]int32, sc.K)
		failsBefore := make([]int32, sc.K)
		for _, e := range st.hist {
			switch {
			case e.kind == 'c':
				calls[e.key]++
			case e.kind == 'e' && e.val < 0:
				failsBefore[e.key]++
			}
		}
		for k := 0; k < sc.K; k++ {
			if int(calls[k]) > maxCalls {
				maxCalls = int(calls[k])
			}
			if int(failsBefore[k]) > maxFails {
				maxFails = int(failsBefore[k])
			}
		}
	}
	replayed := false
	if len(st.hist) <= replayEvents && len(r.panics) == 0 {
		// entries as read by c20ScaleFinal are not kept; the oracle has compared them with first[]; the S
		// line's final column must be what the cache holds, so read it from the oracle state only when the
		// oracle found entries equal to it, otherwise leave the Coq replay out (the oracle line reports it).
		if st.nviol["entries_differ_from_successful_invocations"]+st.nviol["entry_without_successful_invocation"]+st.nviol["entries_has_keys_outside_the_plan"] == 0 {
			fin := map[int]int32{}
			for k := 0; k < sc.K; k++ {
				if st.succ[k] > 0 {
					fin[k] = st.first[k]
				}
			}
			lines = append(lines, c20ScaleSLine(sc, r, fin))
			replayed = true
		}
	}
	stats := map[string]interface{}{
		"pattern": sc.pattern, "keys": sc.K, "goroutines": sc.G, "calls": sc.nops, "events": len(st.hist),
		"keys_stored": r.storedKeys, "entries_len": r.entriesLen, "max_calls_on_one_key": maxCalls,
		"max_failed_invocations_on_one_key": maxFails, "builtin": sc.builtin, "key_style": sc.keyStyle,
		"replayed_in_coq": replayed, "ms": r.elapsed.Milliseconds(),
	}
	lines = append(lines, "SC\t"+id+"\t"+c20JSON(stats))
	if len(st.viol) == 0 {
		return lines
	}
	names := make([]string, 0, len(st.nviol))
	for n := range st.nviol {
		names = append(names, n)
	}
	sort.Strings(names)
	first := st.viol[0]
	detail := map[string]interface{}{
		"input":             sc.describe(),
		"oracle_failures":   st.nviol,
		"first_failure":     first.name,
		"first_failure_key": sc.keyName(first.key),
	}
	if first.key >= 0 {
		detail["events_of_that_key"] = c20ScaleTrail(sc, st.hist, first.key, 40) +
			"   (c<g> call by goroutine g, b/e callable begin/end with its value or -1, r return)"
	}
	// sequential re-execution of the calls started before the failure was noticed, in their observed order
	if c20ScaleReduced < 2 {
		c20ScaleReduced++
		next := make([]int, sc.G)
		flat := make([][]c20SOp, sc.G)
		for g := 0; g < sc.G; g++ {
			for _, ph := range sc.phases {
				flat[g] = append(flat[g], ph[g]...)
			}
		}
		var ops []c20SOp
		upto := first.at
		if first.key < 0 || upto > len(st.hist) {
			upto = len(st.hist)
		}
		for _, e := range st.hist[:upto] {
			if e.kind == 'c' {
				ops = append(ops, flat[e.g][next[e.g]])
				next[e.g]++
			}
		}
		keys := sc.allKeys()
		if name, key := c20ScaleSeq(sc, keys, ops); name != "" {
			red, tests := c20ScaleReduce(sc, keys, ops, name, 4*time.Second)
			n2, k2 := c20ScaleSeq(sc, keys, red)
			if n2 == "" {
				red, n2, k2 = ops, name, key
			}
			detail["sequential_reproducer"] = fmt.Sprintf("on a fresh cache, from one thread, %d calls (reduced from %d by %d re-executions): %s  => oracle %s on %s",
				len(red), len(ops), tests, c20ScaleOps(sc, red, 24), n2, sc.keyName(k2))
			distinct := map[int32]bool{}
			for _, o := range red {
				distinct[o.key] = true
			}
			detail["sequential_reproducer_distinct_keys"] = len(distinct)
		} else {
			detail["sequential_reproducer"] = "the calls made before the failure, re-executed from one thread in the observed order, do not fail: the failure depends on the interleaving"
		}
	}
	db := c20JSON(detail)
	for _, n := range names {
		lines = append(lines, "ORACLE\t"+n+"\t"+id+"\t"+db)
	}
	return lines
}
