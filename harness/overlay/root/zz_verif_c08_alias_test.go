package dawn

// C08 harness, part 6: "changing any ... value the function references produces an unequal fingerprint" when the function
// references SEVERAL values that are RELATED to each other.  The other families vary one value per function; whatever
// the encoder decides about a value from what it has written BEFORE (its memo: "this is the object written earlier,
// emit a back-reference") is then never exercised on values, only on functions.  Here every function references a pair
// (x, y) of values derived from one base value A of every collection kind by a menu of derivations: A itself, prefix
// slices A[:k] for every interesting k (Go slices of the SAME storage for tuples, strings and bytes), suffix and inner
// slices, stepped and reversed slices, the full slice, A + empty, A * 1, a rebuilt equal copy, a constructor copy, a
// copy with the numerically equal elements of another kind, a copy with one element changed, elements of A and
// slices of elements of A, views (keys / values / items), and host values next to each other.  So the pair is, in
// turn: the same object twice, two objects sharing storage from the start / up to the end / in the middle, equal
// objects that do not share, objects equal by == but of another kind, and unrelated ones -- in both orders.
//
// Two families, all loads in this one child process (VERIF_C08_CHILD=alias):
//
//	pairs   ONE load: per route (both captured, both defaults, in one captured list) and base A, a target for every
//	        ordered pair (d1, d2) of derivations whose function is the SAME code referencing (d1(A), d2(A)), all
//	        derivations evaluated on the one object A.  Two targets of a route that reference different values (decided
//	        structurally on the LIVE objects, c08Ident) are the two sides of an edit of the project text: their stamps
//	        must differ.  Targets referencing structurally equal values are recorded, not judged (whether an alias and
//	        an equal copy of an immutable value have equal fingerprints is not stated by the property).
//	edits   one load per (A, d): the project `A = <base>; B = <d(A)>` with targets that reference A and B as globals in
//	        both orders, as defaults, through a global list and through load() of another file.  Any two loads of one
//	        base are an edit confined to module-level code outside every function (the derivation); per route the
//	        stamps must be pairwise different whenever the live B differs.  The engine's own verdict (diffEnv against
//	        the other stamp) is reported for the failing pair, with both project texts.

import (
	"encoding/base64"
	"fmt"
	"math/rand"
	"os"
	"path/filepath"
	"sort"
	"strconv"
	"strings"
	"testing"
	"time"

	starlark_os "github.com/pgavlin/dawn/lib/os"
	starlark_sh "github.com/pgavlin/dawn/lib/sh"
	starlark_json "go.starlark.net/lib/json"
	"go.starlark.net/starlark"
)

type c08AliasBase struct {
	name   string
	expr   string   // Starlark expression of A
	derivs []string // expressions in terms of $ (= A)
}

func c08AliasDedupe(ds []string) []string {
	seen := map[string]bool{}
	var out []string
	for _, d := range ds {
		if !seen[d] {
			seen[d] = true
			out = append(out, d)
		}
	}
	return out
}

// c08AliasSeqDerivs: the derivations of a sequence of n >= 4 elements (tuple, list, string, bytes, range).
func c08AliasSeqDerivs(rng *rand.Rand, thorough bool, n int, concat bool, extra ...string) []string {
	ds := []string{"$", "$[:0]", "$[:1]", "$[:2]", fmt.Sprintf("$[:%d]", n-1), "$[:]", "$[1:]", "$[1:2]", fmt.Sprintf("$[%d:]", n-1), fmt.Sprintf("$[1:%d]", n-1), "$[::2]", "$[::-1]"}
	if thorough {
		ds = append(ds, fmt.Sprintf("$[:%d]", n/2), fmt.Sprintf("$[:%d]", n), fmt.Sprintf("$[0:%d:1]", n-1), "$[2:]", "$[1::2]")
	}
	for k := 0; k < 1 || (thorough && k < 3); k++ {
		i := rng.Intn(n)
		j := i + 1 + rng.Intn(n-i)
		ds = append(ds, fmt.Sprintf("$[%d:%d]", i, j))
	}
	if concat {
		ds = append(ds, "$ + $[:0]", "$[:2] + $[2:]", "$[:1] + $[:1]")
		if thorough {
			ds = append(ds, "$ * 1", "$[:2] + $[:1]")
		}
	}
	return c08AliasDedupe(append(ds, extra...))
}

// c08AliasBases: deterministic in (seed, thorough).
func c08AliasBases(rng *rand.Rand, thorough bool) []c08AliasBase {
	var out []c08AliasBase
	out = append(out, c08AliasBase{"tuple-of-strings", "(\"1.0\", \"1.1\", \"2.0\", \"2.1\")", c08AliasSeqDerivs(rng, thorough, 4, true, "tuple($)", "tuple(list($))", "($[0],)", "($[0], $[1])")})
	out = append(out, c08AliasBase{"tuple-of-ints", "(1, 2, 3, 4, 5, 6)", c08AliasSeqDerivs(rng, thorough, 6, true, "tuple($)", "tuple([float(x) for x in $])", "tuple([float(x) for x in $[:2]])",
		"$[:2] + ($[2] + 1,) + $[3:]", "(1, 2)", "(1, 2, 3, 4, 5, 6)", "list($)", "list($[:2])")})
	out = append(out, c08AliasBase{"tuple-of-equal-elements", "(7, 7, 7, 7, 7)", c08AliasSeqDerivs(rng, thorough, 5, true, "(7,) * 5", "(7,) * 6", "(7.0,) * 5")})
	out = append(out, c08AliasBase{"nested", "((1, 2, 3), (1, 2, 3), [4, 5, 6], \"abcdef\", ((8, 9), (8, 9, 10)))",
		c08AliasDedupe([]string{"$", "$[:1]", "$[:2]", "$[1:]", "$[1:2]", "$[0]", "$[1]", "$[0][:2]", "$[1][:2]", "$[0][1:]", "$[2]", "$[2][:2]", "$[3]", "$[3][:3]", "$[3][3:]", "$[4]", "$[4][0]", "$[4][1]",
			"$[4][1][:2]", "$[4][:1]", "($[0], $[0])", "($[0], $[1])", "($[0], $[0][:2])", "($[0][:2], $[0])", "[$[2], $[2]]", "[$[2], list($[2])]"})})
	// seeded random tuples: random length, elements drawn from a small alphabet so that equal elements and equal slices occur
	nr := 2
	if thorough {
		nr = 12
	}
	for r := 0; r < nr; r++ {
		n := 4 + rng.Intn(9)
		alphabet := []string{"0", "1", "2", "\"a\"", "\"b\"", "None", "True", "1.0", "(1,)", "(1, 2)", "\"\"", "b\"a\""}
		var el []string
		for i := 0; i < n; i++ {
			el = append(el, alphabet[rng.Intn(len(alphabet))])
		}
		out = append(out, c08AliasBase{fmt.Sprintf("tuple-random-%d", r), "(" + strings.Join(el, ", ") + ")", c08AliasSeqDerivs(rng, thorough, n, true, "tuple($)")})
	}
	out = append(out, c08AliasBase{"string", "\"abcdefgh\"", c08AliasSeqDerivs(rng, thorough, 8, true, "\"\".join($.elems())", "\"abc\"", "$.upper().lower()", "$[:3] + \"\"", "$.elems()", "$[:3].elems()", "$.codepoints()",
		"$[:3].codepoints()", "b\"abc\"", "bytes($)", "bytes($[:3])")})
	out = append(out, c08AliasBase{"string-unicode", "\"a\\u00e9\\u20ac\\U0001f600xyz\"", c08AliasSeqDerivs(rng, thorough, 13, true)})
	out = append(out, c08AliasBase{"bytes", "b\"abcdefgh\"", c08AliasSeqDerivs(rng, thorough, 8, false, "bytes($)", "str($[:3])", "b\"abc\"", "$.elems()", "$[:3].elems()")})
	out = append(out, c08AliasBase{"list", "[1, 2, 3, 4, 5, 6]", c08AliasSeqDerivs(rng, thorough, 6, true, "list($)", "tuple($)", "tuple($)[:2]", "[float(x) for x in $]")})
	out = append(out, c08AliasBase{"range", "range(10)", c08AliasSeqDerivs(rng, thorough, 10, false, "range(10)", "range(5)", "range(0, 10, 1)", "list($)", "tuple($)", "tuple($)[:5]", "list($[:5])")})
	out = append(out, c08AliasBase{"dict", "{\"a\": (1, 2, 3), \"b\": (1, 2, 3), \"c\": [4], \"d\": \"abc\"}",
		c08AliasDedupe([]string{"$", "dict($)", "dict($.items()[:2])", "dict($.items()[:3])", "$.keys()", "$.keys()[:2]", "$.values()", "$.values()[:2]", "$.items()", "$.items()[:2]", "$.items()[0]", "$.items()[1]",
			"$[\"a\"]", "$[\"b\"]", "$[\"a\"][:2]", "$[\"b\"][:2]", "$[\"c\"]", "$[\"d\"]", "$[\"d\"][:2]", "tuple($.keys())", "tuple($.keys())[:2]", "set($.keys())", "{\"a\": $[\"a\"][:2]}"})})
	out = append(out, c08AliasBase{"host", "(len, str, \"abc\".upper, \"abd\".upper, range(3), range(4), \"abc\".elems(), \"abd\".elems(), \"abc\".codepoints(), label(\"a/x\"), label(\"a/y\"), path(\":b\"))",
		[]string{"$", "$[:2]", "$[:1]", "$[1:2]", "$[0]", "$[1]", "$[2]", "$[3]", "$[2:4]", "$[:4]", "$[4]", "$[5]", "$[4:6]", "$[6]", "$[7]", "$[8]", "$[6:8]", "$[9]", "$[10]", "$[11]", "$[9:]", "$[:9]"}})
	// memo ids beyond one byte: 300 distinct lists written (and memoized) before the second value
	out = append(out, c08AliasBase{"list-of-300-lists", "[[i] for i in range(300)]",
		[]string{"$", "$[0]", "$[1]", "$[253]", "$[254]", "$[255]", "$[256]", "$[257]", "$[299]", "$[:255]", "$[:256]", "$[:257]", "[$[0], $[256]]", "[$[256], $[0]]"}})
	// batches of 1000
	long := []string{"$", "$[:1]", "$[:999]", "$[:1000]", "$[:1001]", "$[:1002]", "$[1:]", "$[1000:]", "$[1001:]"}
	if thorough {
		long = append(long, "$[:2000]", "$[:2001]", "$[:2003]", "$[2000:]", "$[1:2001]")
	}
	out = append(out, c08AliasBase{"tuple-of-2003", "tuple([i for i in range(2003)])", long})
	return out
}

var c08AliasRoutes = []struct {
	name, call string
	thorough   bool // (quick tier: defaults are a route of the edits family)
}{
	{"captured-pair", "mk2(D[p], D[q])", false},
	{"default-pair", "mkd2(D[p], D[q])", false},
	{"in-list", "mk1([D[p], D[q]])", false},
}

func c08AliasSubst(d, a string) string { return strings.ReplaceAll(d, "$", a) }

// c08AliasPoolText: per base i, route r and ordered pair (p, q) of derivations the target a<r>_<i>_<p>_<q>.
func c08AliasPoolText(bases []c08AliasBase, thorough bool) string {
	var b strings.Builder
	b.WriteString("def mk1(c):\n    def f():\n        return c\n    return f\n\n")
	b.WriteString("def mk2(a, b):\n    def f():\n        return (a, b)\n    return f\n\n")
	b.WriteString("def mkd2(a, b):\n    def f(self, x=a, y=b):\n        return (x, y)\n    return f\n\n")
	b.WriteString("FS = {}\n\ndef reg(i, D):\n    for p in range(len(D)):\n        for q in range(len(D)):\n")
	for ri, r := range c08AliasRoutes {
		if r.thorough && !thorough {
			continue
		}
		fmt.Fprintf(&b, "            FS[\"a%d_%%d_%%d_%%d\" %% (i, p, q)] = %s\n", ri, r.call)
	}
	b.WriteString("\n")
	for i, base := range bases {
		var ds []string
		for _, d := range base.derivs {
			ds = append(ds, c08AliasSubst(d, "a"))
		}
		fmt.Fprintf(&b, "reg(%d, (lambda a: [%s])(%s))\n", i, strings.Join(ds, ", "), base.expr)
	}
	b.WriteString("\n@target()\ndef holder():\n    return FS\n")
	return b.String()
}

var c08AliasEditRoutes = []string{"t_ab", "t_ba", "t_default", "t_inlist", "t_loaded", "t_loaded_ba"}

// c08AliasEditText: the project of the edits family for base A and derivation d.
func c08AliasEditText(base c08AliasBase, d string) map[string]string {
	build := "load(\"//:vals.dawn\", \"LA\", \"LB\")\n\nA = " + base.expr + "\nB = " + c08AliasSubst(d, "A") + "\nGL = [A, B]\n\n" +
		"@target()\ndef t_ab():\n    print(A, B)\n\n" +
		"@target()\ndef t_ba():\n    print(B, A)\n\n" +
		"@target()\ndef t_default(self, x=A, y=B):\n    print(x, y)\n\n" +
		"@target()\ndef t_inlist():\n    print(GL)\n\n" +
		"@target()\ndef t_loaded():\n    print(LA, LB)\n\n" +
		"@target()\ndef t_loaded_ba():\n    print(LB, LA)\n"
	return map[string]string{"BUILD.dawn": build, "vals.dawn": "LA = " + base.expr + "\nLB = " + c08AliasSubst(d, "LA") + "\n"}
}

// c08AliasLoad loads the pairs project and fingerprints every function of its global dict FS exactly as a target with
// that function is fingerprinted (function.stamp: the pickle of the function through newEnvPickler); the functions are
// not registered as targets because a Load with tens of thousands of targets spends seconds in the project's
// bookkeeping.  functionEnv (the decoded environment) is taken for one function in `every` and, through c08EngineSame,
// for every colliding pair.
func c08AliasLoad(root string, files map[string]string, every int) (map[string]*c08ValueTarget, *Project, string, time.Duration) {
	os.RemoveAll(filepath.Join(root, ".dawn"))
	for n, c := range files {
		os.WriteFile(filepath.Join(root, n), []byte(c), 0644)
	}
	t0 := time.Now()
	proj, err := Load(root, &LoadOptions{Builtins: starlark.StringDict{"os": starlark_os.Module, "sh": starlark_sh.Module, "json": starlark_json.Module}})
	lt := time.Since(t0)
	if err != nil {
		return nil, nil, "load: " + err.Error(), lt
	}
	var fs *starlark.Dict
	for _, tg := range proj.Targets() {
		if f, ok := tg.(*function); ok && f.label.Name == "holder" {
			if _, err := f.stamp(); err != nil {
				return nil, nil, "stamp(holder): " + err.Error(), lt
			}
			if fn, ok := f.function.(*starlark.Function); ok {
				fs, _ = fn.Globals()["FS"].(*starlark.Dict)
			}
		}
	}
	if fs == nil {
		return nil, nil, "harness: no global FS", lt
	}
	res := map[string]*c08ValueTarget{}
	for k, item := range fs.Items() {
		name, _ := starlark.AsString(item[0])
		fn, ok := item[1].(*starlark.Function)
		if !ok {
			return nil, nil, "harness: FS[" + name + "] is not a function", lt
		}
		stamp, err := (&function{proj: proj, function: fn}).stamp()
		if err != nil {
			return nil, nil, fmt.Sprintf("stamp(%s): %v", name, err), lt
		}
		if k%every == 0 {
			if env, err := functionEnv(fn); err != nil || env == nil {
				return nil, nil, fmt.Sprintf("functionEnv(%s): %v", name, err), lt
			}
		}
		var sb strings.Builder
		defaults, freevars := fn.Env()
		c08Ident(defaults, &sb, 0)
		c08Ident(freevars, &sb, 0)
		res[name] = &c08ValueTarget{name: name, stamp: stamp, fn: fn, label: "//:" + name, ident: sb.String()}
	}
	return res, proj, "", lt
}

func TestVerifC08Alias(t *testing.T) {
	if os.Getenv("VERIF_C08_CHILD") != "alias" {
		t.Skip("not the alias child")
	}
	outf, err := os.Create(os.Getenv("VERIF_REPORT"))
	if err != nil {
		t.Fatal(err)
	}
	defer outf.Close()
	line := func(parts ...string) {
		for i := range parts {
			parts[i] = strings.NewReplacer("\t", "\\t", "\n", "\\n").Replace(parts[i])
		}
		outf.WriteString(strings.Join(parts, "\t") + "\n")
	}
	seed, _ := strconv.ParseInt(os.Getenv("VERIF_SEED"), 10, 64)
	rng := rand.New(rand.NewSource(seed*15485863 + 8))
	thorough := os.Getenv("VERIF_C08_THOROUGH") == "1"
	root := os.Getenv("VERIF_ROOT")
	// (hundreds of loads, each writing the project and its .dawn directory: in memory where possible -- the disk of a
	// busy machine makes the wall time of this child vary between 1 s and a minute)
	if shm, err := os.MkdirTemp("/dev/shm", "verif-c08-alias-"); err == nil {
		defer os.RemoveAll(shm)
		root = shm
	}
	os.Setenv("HOME", filepath.Join(root, ".home"))
	os.MkdirAll(filepath.Join(root, ".home"), 0755)
	os.WriteFile(filepath.Join(root, "dawn.toml"), nil, 0644)

	bases := c08AliasBases(rng, thorough)
	// the first failing input of each family, as project text
	failTexts := map[string]string{}
	failText := func(fam, s string) {
		if failTexts[fam] == "" {
			failTexts[fam] = s
		}
	}

	// ---- pairs: one load, one target per (route, base, ordered pair of derivations)
	t0 := time.Now()
	text := c08AliasPoolText(bases, thorough)
	head := text[:strings.Index(text, "FS = {}")]
	first, proj, lerr, loadTime := c08AliasLoad(root, map[string]string{"BUILD.dawn": text}, 7)
	line("aliastime", "pairs-load", loadTime.String())
	nPairs, nCollide, nUnjudged := 0, 0, 0
	if lerr != "" {
		line("ORACLE", "terminates", "alias/pairs", lerr)
	} else {
		var again map[string]*c08ValueTarget
		lerr2 := ""
		if thorough {
			again, _, lerr2, _ = c08AliasLoad(root, map[string]string{"BUILD.dawn": text}, 1)
		}
		for ri, r := range c08AliasRoutes {
			if r.thorough && !thorough {
				continue
			}
			type seenT struct {
				base, p, q int
				tg         *c08ValueTarget
			}
			byStamp := map[string]seenT{}
			idents := map[string]bool{}
			n := 0
			for bi, base := range bases {
				for p := range base.derivs {
					for q := range base.derivs {
						name := fmt.Sprintf("a%d_%d_%d_%d", ri, bi, p, q)
						tg := first[name]
						what := fmt.Sprintf("%s: A = %s; (%s, %s)", base.name, c08Short(base.expr), c08AliasSubst(base.derivs[p], "A"), c08AliasSubst(base.derivs[q], "A"))
						if tg == nil {
							line("ORACLE", "harness", "alias/"+r.name, "no target for "+what)
							continue
						}
						n++
						nPairs++
						idents[tg.ident] = true
						if thorough && (lerr2 != "" || again[name] == nil || again[name].stamp != tg.stamp) {
							line("ORACLE", "deterministic", "alias/"+r.name+"/"+what, "two loads of identical text gave different fingerprints "+lerr2)
						}
						prev, dup := byStamp[tg.stamp]
						if !dup {
							byStamp[tg.stamp] = seenT{bi, p, q, tg}
							line("case", "alias/"+r.name, what, "true", "true")
							continue
						}
						if prev.tg.ident == tg.ident {
							nUnjudged++
							line("case", "alias/"+r.name, what, "true", "same-value")
							continue
						}
						nCollide++
						pb := bases[prev.base]
						same := c08EngineSame(proj, prev.tg, tg)
						prevWhat := fmt.Sprintf("(%s, %s)", c08AliasSubst(pb.derivs[prev.p], "A"), c08AliasSubst(pb.derivs[prev.q], "A"))
						if prev.base != bi {
							prevWhat = fmt.Sprintf("%s: A = %s; %s", pb.name, c08Short(pb.expr), prevWhat)
						}
						detail := fmt.Sprintf("the function references %s instead of %s, all evaluated on the one object A (route %s: function=%s with D = the derivations of A) and its fingerprint is the same; "+
							"the live values differ: %s vs %s; diffEnv says up to date: %v", what, prevWhat, r.name, r.call, c08Short(tg.ident), c08Short(prev.tg.ident), same)
						line("ORACLE", "sensitive:related-values", "alias/"+r.name+"/"+what+" <- "+prevWhat, detail)
						line("case", "alias/"+r.name, what, "true", "false")
						failText("pairs", head+fmt.Sprintf("D = (lambda a: [%s, %s, %s, %s])(%s)\ntarget(name=\"before\", function=%s)\ntarget(name=\"after\", function=%s)\n",
							c08AliasSubst(pb.derivs[prev.p], "a"), c08AliasSubst(pb.derivs[prev.q], "a"), c08AliasSubst(base.derivs[p], "a"), c08AliasSubst(base.derivs[q], "a"), base.expr,
							strings.NewReplacer("[p]", "[0]", "[q]", "[1]").Replace(r.call), strings.NewReplacer("[p]", "[2]", "[q]", "[3]").Replace(r.call)))
					}
				}
			}
			line("aliasroute", r.name, strconv.Itoa(n), strconv.Itoa(len(idents)), strconv.Itoa(len(byStamp)))
		}
	}
	line("aliastime", "pairs", time.Since(t0).String())

	// ---- edits: one load per (base, derivation); any two loads of one base are an edit of module-level code only
	t0 = time.Now()
	type loaded struct {
		d       string
		files   map[string]string
		targets map[string]*c08ValueTarget
	}
	nEdits := 0
	for _, base := range bases {
		byRoute := map[string]map[string]*loaded{}
		for _, d := range base.derivs {
			files := c08AliasEditText(base, d)
			tgs, eproj, lerr := c08ValuesLoad(root, files, "B")
			what := fmt.Sprintf("%s: A = %s; B = %s", base.name, c08Short(base.expr), c08AliasSubst(d, "A"))
			if lerr != "" {
				line("ORACLE", "terminates", "alias/edits/"+what, lerr)
				continue
			}
			nEdits++
			cur := &loaded{d, files, tgs}
			for _, rn := range c08AliasEditRoutes {
				tg := tgs[rn]
				if tg == nil || tgs["t_ab"] == nil {
					line("ORACLE", "harness", "alias/edits/"+rn, "no target for "+what)
					continue
				}
				m := byRoute[rn]
				if m == nil {
					m = map[string]*loaded{}
					byRoute[rn] = m
				}
				prev, dup := m[tg.stamp]
				if !dup {
					m[tg.stamp] = cur
					line("case", "alias/edits/"+rn, what, "true", "true")
					continue
				}
				if prev.targets["t_ab"].ident == tgs["t_ab"].ident {
					line("case", "alias/edits/"+rn, what, "true", "same-value")
					continue
				}
				same := c08EngineSame(eproj, prev.targets[rn], tg)
				line("ORACLE", "sensitive:related-values", "alias/edits/"+rn+"/"+what+" <- B = "+c08AliasSubst(prev.d, "A"),
					fmt.Sprintf("the project text was edited outside every function (B = %s replaced by B = %s, in vals.dawn likewise) and the fingerprint of //:%s is the same; the live values of B differ: %s vs %s; diffEnv says up to date: %v",
						c08AliasSubst(prev.d, "A"), c08AliasSubst(d, "A"), rn, c08Short(prev.targets["t_ab"].ident), c08Short(tgs["t_ab"].ident), same))
				line("case", "alias/edits/"+rn, what, "true", "false")
				var names []string
				for n := range files {
					names = append(names, n)
				}
				sort.Strings(names)
				var sb strings.Builder
				for _, n := range names {
					sb.WriteString("# ---- " + n + " (before)\n" + prev.files[n] + "# ---- " + n + " (after)\n" + files[n])
				}
				failText("edits", sb.String())
			}
		}
	}
	line("aliastime", "edits", time.Since(t0).String())
	if len(failTexts) > 0 {
		line("text", "alias", base64.StdEncoding.EncodeToString([]byte(failTexts["edits"]+"# ==== pairs family, BUILD.dawn: the targets `before` and `after`\n"+failTexts["pairs"])))
	}
	line("aliasstats", strconv.Itoa(len(bases)), strconv.Itoa(nPairs), strconv.Itoa(nCollide), strconv.Itoa(nUnjudged), strconv.Itoa(nEdits))
	line("aliasdone", strconv.Itoa(nPairs), strconv.Itoa(nEdits))
}
