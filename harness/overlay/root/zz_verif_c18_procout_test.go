package dawn

// C18, output of processes: "its output is delivered as lines exactly once, in order, between evaluating and completion,
// whatever the chunking of the writes".  The line-writer family (zz_verif_linewriter_test.go) feeds a lineWriter from ONE
// caller; the engine family's bodies write two short lines.  Here the producers are what real bodies use: processes started
// by os.exec / sh.exec / os.output / sh.output that write numbered lines to standard output and to standard error -- one
// stream, both in turn from one thread, both AT THE SAME TIME from two threads -- in blocks of whole lines of at most
// PIPE_BUF bytes (each write(2) is atomic, so whatever the two descriptors are connected to no line is ever torn by the
// producer), in volumes from a few lines to megabytes, with a consumer (the Events implementation) that is fast or slow
// (a slow one fills the pipes, so every read of the copying side ends in the middle of a line), with several processes per
// body, failing processes, and several such targets built in parallel.
//
// Oracle (the statement, per label and per stream of every process): every delivered line is the NEXT line of the stream it
// belongs to -- intact, once, in that stream's order --, every stream is delivered completely, the streams of one process
// follow those of the process the body ran before it, and everything lies between the label's evaluating event and its one
// completion event.  Two more oracles say WHAT went wrong when that fails: byte conservation (standard-output lines are
// written in [a-z0-9.], standard-error lines in [A-Z:]: the delivered bytes of each alphabet are exactly the bytes written
// by the producers of that kind, in order, no other byte, as many lines as newlines) and "one delivery at a time" (Events.Print
// for a label is never entered while another Print for that label has not returned -- what an unsynchronised writer shows).
// A failure is of class "shell-glued" only when the body is ONE shell command with two processes running at the same time
// (pipeline, background job), conservation and one-at-a-time hold and nothing else is wrong; every other failure -- any
// failure of os.exec, of a single command, of alternating or consecutive producers -- is of class "process".
// Coq side: Output/Props_C18.v (one_channel_each_stream_in_order, separate_copiers_refuted, writer_per_copier_delivers_its_stream).
//
// Every scenario runs in a process of its own (a torn line buffer can crash the process); a crash or a hang is an outcome.

import (
	"bufio"
	"bytes"
	"encoding/json"
	"fmt"
	"math/rand"
	"os"
	"os/exec"
	"path/filepath"
	"strconv"
	"strings"
	"sync"
	"testing"
	"time"

	"github.com/pgavlin/dawn/diff"
	"github.com/pgavlin/dawn/label"
	starlark_os "github.com/pgavlin/dawn/lib/os"
	starlark_sh "github.com/pgavlin/dawn/lib/sh"
	"go.starlark.net/starlark"
)

// ---------------------------------------------------------------------------------------------------------------------
// the tool: `<test binary> verif-c18-tool <spec>`

type poProc struct {
	Builtin string `json:"builtin"` // os.exec | sh.exec | os.output | sh.output | sh.pipe | sh.bg
	Mode    string `json:"mode"`    // out | err | alt | conc
	NOut    int    `json:"n_out"`
	NErr    int    `json:"n_err"`
	Blk     int    `json:"block_bytes"` // a write(2) is a block of whole lines of at most this many bytes (<= 4000)
	Cut     int    `json:"cut_bytes"`   // > 0 (one-stream modes only): raw writes of this many bytes, wherever they fall
	Tail    bool   `json:"unterminated_last_line"`
	Fail    bool   `json:"exits_nonzero"`
}

func (p poProc) spec(tag string) string {
	b := func(x bool) string {
		if x {
			return "1"
		}
		return "0"
	}
	return strings.Join([]string{tag, p.Mode, strconv.Itoa(p.NOut), strconv.Itoa(p.NErr), strconv.Itoa(p.Blk), strconv.Itoa(p.Cut), b(p.Tail), b(p.Fail)}, ":")
}

// The lines of a standard-output stream are written in [a-z0-9.], those of a standard-error stream in [A-Z:], so every
// delivered byte can be attributed to the kind of producer it came from, also inside a line that is not a line of any stream.
func poLine(tag, s string, i int) string {
	l := fmt.Sprintf("%s%s.%07d.%s", tag, s, i, strings.Repeat(s, (i*7)%53))
	if s == "e" {
		return poUpper(l)
	}
	return l
}

func poUpper(l string) string {
	b := []byte(l)
	for i, c := range b {
		switch {
		case c >= 'a' && c <= 'z':
			b[i] = c - 'a' + 'A'
		case c >= '0' && c <= '9':
			b[i] = "QRSTUVWXYZ"[c-'0']
		case c == '.':
			b[i] = ':'
		}
	}
	return string(b)
}

func poKey(tag, s string) string {
	if s == "e" {
		return poUpper(tag + s)
	}
	return tag + s
}

// 'o' for a byte of the standard-output alphabet, 'e' for one of the standard-error alphabet, 0 for anything else
func poClass(c byte) byte {
	switch {
	case c >= 'a' && c <= 'z', c >= '0' && c <= '9', c == '.':
		return 'o'
	case c >= 'A' && c <= 'Z', c == ':':
		return 'e'
	}
	return 0
}

func poEmit(f *os.File, tag, s string, n, blk, cut int, tail bool) {
	if n == 0 {
		return
	}
	if cut > 0 {
		var all bytes.Buffer
		for i := 0; i < n; i++ {
			all.WriteString(poLine(tag, s, i))
			if i < n-1 || !tail {
				all.WriteByte('\n')
			}
		}
		b := all.Bytes()
		for len(b) > 0 {
			k := cut
			if k > len(b) {
				k = len(b)
			}
			f.Write(b[:k])
			b = b[k:]
		}
		return
	}
	for _, b := range poBlocks(tag, s, n, blk) {
		f.Write(b)
	}
}

func poBlocks(tag, s string, n, blk int) [][]byte {
	var out [][]byte
	var block bytes.Buffer
	for i := 0; i < n; i++ {
		line := poLine(tag, s, i) + "\n"
		if block.Len() > 0 && block.Len()+len(line) > blk {
			out = append(out, append([]byte{}, block.Bytes()...))
			block.Reset()
		}
		block.WriteString(line)
	}
	if block.Len() > 0 {
		out = append(out, append([]byte{}, block.Bytes()...))
	}
	return out
}

func init() {
	if len(os.Args) < 3 || os.Args[1] != "verif-c18-tool" {
		return
	}
	f := strings.Split(os.Args[2], ":")
	tag, mode := f[0], f[1]
	nout, _ := strconv.Atoi(f[2])
	nerr, _ := strconv.Atoi(f[3])
	blk, _ := strconv.Atoi(f[4])
	cut, _ := strconv.Atoi(f[5])
	tail, fail := f[6] == "1", f[7] == "1"
	switch mode {
	case "out":
		poEmit(os.Stdout, tag, "o", nout, blk, cut, tail)
	case "err":
		poEmit(os.Stderr, tag, "e", nerr, blk, cut, tail)
	case "alt": // one thread, a block to one stream, then a block to the other
		bo, be := poBlocks(tag, "o", nout, blk), poBlocks(tag, "e", nerr, blk)
		for i := 0; i < len(bo) || i < len(be); i++ {
			if i < len(bo) {
				os.Stdout.Write(bo[i])
			}
			if i < len(be) {
				os.Stderr.Write(be[i])
			}
		}
	case "conc": // two threads at the same time
		var wg sync.WaitGroup
		wg.Add(2)
		go func() { defer wg.Done(); poEmit(os.Stdout, tag, "o", nout, blk, 0, false) }()
		go func() { defer wg.Done(); poEmit(os.Stderr, tag, "e", nerr, blk, 0, false) }()
		wg.Wait()
	}
	if fail {
		os.Exit(3)
	}
	os.Exit(0)
}

// ---------------------------------------------------------------------------------------------------------------------
// scenarios

type poTarget struct {
	Name  string   `json:"name"`
	Procs []poProc `json:"processes"`
}

type poScen struct {
	Name     string     `json:"name"`
	Targets  []poTarget `json:"targets"` // more than one: dependencies of //:all, built in parallel
	DelayUS  int        `json:"consumer_sleep_us"`
	Every    int        `json:"consumer_sleeps_every_lines"`
	BuildTxt string     `json:"build_file,omitempty"`
}

type poResult struct {
	Oracles []string       `json:"oracles"`
	Stats   map[string]int `json:"stats"`
}

func poQuoteSh(s string) string { return "'" + s + "'" }

// the body of one target and what it must deliver: the streams, in the order in which the body starts them, literal lines
// (an echoed command line, a print), and for each stream/literal the keys that must be complete before its first line
type poStream struct {
	key, tag, s string
	n           int
}

type poExpect struct {
	streams []poStream
	count   map[string]int      // stream key -> lines
	byKey   map[string]poStream // stream key -> stream
	lits    map[string]int      // literal line -> times
	before  map[string][]string // key or literal -> keys/literals that must be complete first
	fails   bool
}

func poBody(self string, t poTarget) (string, *poExpect) {
	ex := &poExpect{count: map[string]int{}, byKey: map[string]poStream{}, lits: map[string]int{}, before: map[string][]string{}}
	var b strings.Builder
	fmt.Fprintf(&b, "@target()\ndef %s():\n", t.Name)
	var done []string // everything the body has completed so far
	for k, p := range t.Procs {
		tag := fmt.Sprintf("%sp%d", t.Name, k)
		argv := fmt.Sprintf("[%q, \"verif-c18-tool\", %q]", self, p.spec(tag))
		shcmd := poQuoteSh(self) + " verif-c18-tool " + poQuoteSh(p.spec(tag))
		var mine []string
		add := func(tag, s string, n int) {
			if n > 0 {
				st := poStream{poKey(tag, s), tag, s, n}
				ex.streams = append(ex.streams, st)
				ex.count[st.key] = n
				ex.byKey[st.key] = st
				ex.before[st.key] = append([]string{}, done...)
				mine = append(mine, st.key)
			}
		}
		lit := func(s string, after []string) {
			ex.lits[s]++
			ex.before[s] = append(append([]string{}, done...), after...)
			mine = append(mine, s)
		}
		nout, nerr := p.NOut, p.NErr
		if p.Mode == "out" {
			nerr = 0
		}
		if p.Mode == "err" {
			nout = 0
		}
		captured := fmt.Sprintf("%s captured %d bytes %d newlines", tag, poStreamBytes(tag, "o", nout), nout)
		switch p.Builtin {
		case "os.exec":
			fmt.Fprintf(&b, "    os.exec(%s)\n", argv)
			add(tag, "o", nout)
			add(tag, "e", nerr)
		case "sh.exec":
			fmt.Fprintf(&b, "    sh.exec(%q)\n", shcmd)
			lit(shcmd, nil) // sh.exec echoes the command line first
			done = append(done, shcmd)
			add(tag, "o", nout)
			add(tag, "e", nerr)
		case "os.output": // standard output is captured and returned, standard error is the target's output
			fmt.Fprintf(&b, "    r%d = os.output(%s)\n    print(\"%s captured %%d bytes %%d newlines\" %% (len(r%d), r%d.count(\"\\n\")))\n", k, argv, tag, k, k)
			add(tag, "e", nerr)
			lit(captured, []string{poKey(tag, "e")})
		case "sh.output":
			fmt.Fprintf(&b, "    r%d = sh.output(%q)\n    print(\"%s captured %%d bytes %%d newlines\" %% (len(r%d), r%d.count(\"\\n\")))\n", k, shcmd, tag, k, k)
			lit(shcmd, nil)
			done = append(done, shcmd)
			add(tag, "e", nerr)
			lit(captured, []string{poKey(tag, "e")})
		case "sh.pipe", "sh.bg": // two processes of ONE shell command at the same time: one writes standard error, the other standard output
			pa := poProc{Mode: "err", NErr: p.NErr, Blk: p.Blk}
			pb := poProc{Mode: "out", NOut: p.NOut, Blk: p.Blk}
			ca := poQuoteSh(self) + " verif-c18-tool " + poQuoteSh(pa.spec(tag+"a"))
			cb := poQuoteSh(self) + " verif-c18-tool " + poQuoteSh(pb.spec(tag+"b"))
			c := ca + " | " + cb
			if p.Builtin == "sh.bg" {
				c = ca + " & " + cb + "; wait"
			}
			fmt.Fprintf(&b, "    sh.exec(%q)\n", c)
			lit(c, nil)
			done = append(done, c)
			add(tag+"a", "e", p.NErr)
			add(tag+"b", "o", p.NOut)
		}
		done = append(done, mine...)
		if p.Fail {
			ex.fails = true
			break // the body stops here
		}
	}
	b.WriteString("\n")
	return b.String(), ex
}

func poStreamBytes(tag, s string, n int) int {
	t := 0
	for i := 0; i < n; i++ {
		t += len(poLine(tag, s, i)) + 1
	}
	return t
}

type poEvent struct {
	kind, label, text string
}

type poRecorder struct {
	discardEventsT
	m        sync.Mutex
	events   []poEvent
	delay    time.Duration
	every    int
	printed  int
	inflight map[string]int // label -> Print calls that have not returned
	overlap  map[string]int // label -> times a Print was entered while another one for the same label had not returned
}

func (r *poRecorder) add(kind string, l *label.Label, text string) {
	r.m.Lock()
	s := ""
	if l != nil {
		s = l.String()
	}
	r.events = append(r.events, poEvent{kind, s, text})
	r.m.Unlock()
}

func (r *poRecorder) Print(l *label.Label, line string) {
	s := l.String()
	r.m.Lock()
	r.events = append(r.events, poEvent{"Print", s, line})
	if r.inflight[s] > 0 {
		r.overlap[s]++
	}
	r.inflight[s]++
	r.printed++
	sleep := r.every > 0 && r.printed%r.every == 0
	r.m.Unlock()
	if sleep {
		time.Sleep(r.delay) // a consumer that takes its time (a terminal, a log shipper)
	}
	r.m.Lock()
	r.inflight[s]--
	r.m.Unlock()
}
func (r *poRecorder) TargetUpToDate(l *label.Label) { r.add("UpToDate", l, "") }
func (r *poRecorder) TargetEvaluating(l *label.Label, reason string, d diff.ValueDiff) {
	r.add("Evaluating", l, "")
}
func (r *poRecorder) TargetFailed(l *label.Label, err error)       { r.add("Failed", l, err.Error()) }
func (r *poRecorder) TargetSucceeded(l *label.Label, changed bool) { r.add("Succeeded", l, "") }
func (r *poRecorder) RunDone(err error)                            { r.add("RunDone", nil, "") }

// TestVerifC18ProcoutChild plays one scenario (VERIF_C18_SCEN) and writes its verdict to VERIF_C18_RESULT.
func TestVerifC18ProcoutChild(t *testing.T) {
	scenJSON, resPath := os.Getenv("VERIF_C18_SCEN"), os.Getenv("VERIF_C18_RESULT")
	if scenJSON == "" || resPath == "" {
		t.Skip("not a scenario process")
	}
	var sc poScen
	if err := json.Unmarshal([]byte(scenJSON), &sc); err != nil {
		t.Fatal(err)
	}
	self, err := os.Executable()
	if err != nil {
		t.Fatal(err)
	}
	dir := os.Getenv("VERIF_C18_DIR")
	res := poResult{Stats: map[string]int{}}
	var build strings.Builder
	expects := map[string]*poExpect{}
	var deps, labels []string
	for _, tg := range sc.Targets {
		body, ex := poBody(self, tg)
		build.WriteString(body)
		expects["//:"+tg.Name] = ex
		labels = append(labels, "//:"+tg.Name)
		deps = append(deps, fmt.Sprintf("%q", ":"+tg.Name))
	}
	fmt.Fprintf(&build, "@target(deps=[%s])\ndef all():\n    pass\n", strings.Join(deps, ", "))
	os.WriteFile(filepath.Join(dir, "dawn.toml"), nil, 0644)
	os.WriteFile(filepath.Join(dir, "BUILD.dawn"), []byte(build.String()), 0644)

	rec := &poRecorder{delay: time.Duration(sc.DelayUS) * time.Microsecond, every: sc.Every, inflight: map[string]int{}, overlap: map[string]int{}}
	proj, err := Load(dir, &LoadOptions{Events: rec, Builtins: starlark.StringDict{"os": starlark_os.Module, "sh": starlark_sh.Module}})
	if err != nil {
		t.Fatalf("load: %v", err)
	}
	l, _ := label.Parse("//:all")
	runErr := proj.Run(l, nil)

	rec.m.Lock()
	events := rec.events
	rec.m.Unlock()
	// Kind "glued": the only thing wrong is that pieces of two producers' output are joined into one line at the boundaries
	// of the pieces -- every byte of every producer is there once and in order, there are as many lines as newlines, and no
	// two deliveries were ever in flight together.  Everything else (bytes lost, repeated, foreign; lines outside the window;
	// streams out of order; concurrent deliveries; a wrong completion) is kind "broken".
	say := func(kind, format string, a ...interface{}) {
		if len(res.Oracles) < 14 {
			res.Oracles = append(res.Oracles, kind+"|"+fmt.Sprintf(format, a...))
		}
	}
	anyFails := false
	for _, lbl := range labels {
		ex := expects[lbl]
		poJudge(lbl, ex, events, rec.overlap[lbl], say, res.Stats)
		anyFails = anyFails || ex.fails
	}
	if (runErr != nil) != anyFails {
		say("broken", "the build's result is %v but a failing process was %v", runErr, anyFails)
	}
	out, _ := json.Marshal(res)
	if err := os.WriteFile(resPath, out, 0644); err != nil {
		t.Fatal(err)
	}
}

func poJudge(lbl string, ex *poExpect, events []poEvent, overlaps int, say func(string, string, ...interface{}), stats map[string]int) {
	// the label's own events
	var mine []poEvent
	for _, e := range events {
		if e.label == lbl {
			mine = append(mine, e)
		}
	}
	if len(mine) < 2 || mine[0].kind != "Evaluating" {
		say("broken", "%s: the first event is not 'evaluating' (%d events)", lbl, len(mine))
		return
	}
	last := mine[len(mine)-1]
	want := "Succeeded"
	if ex.fails {
		want = "Failed"
	}
	if last.kind != want {
		say("broken", "%s: the last event is %s, want %s (%s)", lbl, last.kind, want, last.text)
	}
	if overlaps > 0 {
		say("broken", "%s: %d times a line was handed to Events.Print while the delivery of another line of the same target had not returned: the target's writer is entered by two goroutines at once, the order of its lines is undefined", lbl, overlaps)
	}

	// (1) conservation: take away the literal lines (each as often as expected); of what remains, the bytes of the
	// standard-output alphabet are exactly what the standard-output streams wrote, in order, likewise standard error,
	// there is no other byte, and there are as many lines as the streams wrote newlines (or unterminated last lines)
	var restO, restE []byte
	restLines, foreign := 0, 0
	litLeft := map[string]int{}
	for s, n := range ex.lits {
		litLeft[s] = n
	}
	var inner []poEvent
	for i, e := range mine[1 : len(mine)-1] {
		if e.kind != "Print" {
			say("broken", "%s: event %d between evaluating and completion is %s", lbl, i+1, e.kind)
			continue
		}
		inner = append(inner, e)
		if litLeft[e.text] > 0 {
			litLeft[e.text]--
			continue
		}
		restLines++
		for j := 0; j < len(e.text); j++ {
			switch poClass(e.text[j]) {
			case 'o':
				restO = append(restO, e.text[j])
			case 'e':
				restE = append(restE, e.text[j])
			default:
				foreign++
			}
		}
	}
	var wantO, wantE []byte
	wantLines := 0
	for _, st := range ex.streams {
		for i := 0; i < st.n; i++ {
			if st.s == "o" {
				wantO = append(wantO, poLine(st.tag, st.s, i)...)
			} else {
				wantE = append(wantE, poLine(st.tag, st.s, i)...)
			}
		}
		wantLines += st.n
	}
	conserved := true
	differ := func(what string, got, want []byte) {
		if bytes.Equal(got, want) {
			return
		}
		conserved = false
		k := 0
		for k < len(got) && k < len(want) && got[k] == want[k] {
			k++
		}
		ctx := func(b []byte) string {
			lo, hi := k-30, k+30
			if lo < 0 {
				lo = 0
			}
			if hi > len(b) {
				hi = len(b)
			}
			if lo > hi {
				lo = hi
			}
			return string(b[lo:hi])
		}
		say("broken", "%s: the bytes delivered for %s are not the bytes written: %d delivered, %d written, first difference at byte %d (delivered ...%q..., written ...%q...): output is lost, repeated or reordered", lbl, what, len(got), len(want), k, ctx(got), ctx(want))
	}
	differ("standard output", restO, wantO)
	differ("standard error", restE, wantE)
	if foreign > 0 {
		conserved = false
		say("broken", "%s: %d delivered bytes are not in the alphabet of any producer (an echoed command line or a print joined to other output)", lbl, foreign)
	}
	for s, n := range litLeft {
		if n > 0 {
			conserved = false
			say("broken", "%s: line %q was not delivered as a line of its own (%d missing)", lbl, poShort(s), n)
		}
	}
	if restLines != wantLines {
		conserved = false
		say("broken", "%s: %d lines delivered for %d newlines (and unterminated last lines) written", lbl, restLines, wantLines)
	}
	kind := "broken"
	if conserved && overlaps == 0 {
		kind = "glued"
	}

	// (2) the statement itself: every delivered line is the next line of its stream; streams in the body's order
	next := map[string]int{}
	litSeen := map[string]int{}
	complete := func(k string) bool {
		if n, ok := ex.count[k]; ok {
			return next[k] == n
		}
		return litSeen[k] == ex.lits[k]
	}
	started := map[string]bool{}
	bad, order := 0, 0
	for i, e := range inner {
		line := e.text
		key := ""
		if _, ok := ex.lits[line]; ok {
			key = line
			litSeen[line]++
			if litSeen[line] > ex.lits[line] {
				bad++
				say(kind, "%s: line %q delivered %d times", lbl, poShort(line), litSeen[line])
			}
		} else {
			k := line
			if sp := strings.IndexAny(line, ".:"); sp >= 0 {
				k = line[:sp]
			}
			st, ok := ex.byKey[k]
			if ok && next[k] < st.n && line == poLine(st.tag, st.s, next[k]) {
				key = k
				next[k]++
			} else {
				bad++
				if bad <= 3 {
					exp := "no such stream"
					if ok {
						exp = fmt.Sprintf("the next line of stream %s is %q, number %d of %d", k, poShort(poLine(st.tag, st.s, next[k]%st.n)), next[k], st.n)
					}
					say(kind, "%s: delivered line %d, %q, is not the next line of any stream the body wrote (%s)", lbl, i, poShort(line), exp)
				}
				// resynchronise on the line's own number
				if ok && len(line) >= len(k)+8 {
					num := []byte(line[len(k)+1 : len(k)+8])
					for j, c := range num {
						if c >= 'Q' && c <= 'Z' {
							num[j] = c - 'Q' + '0'
						}
					}
					if v, err := strconv.Atoi(string(num)); err == nil && v+1 <= st.n {
						next[k] = v + 1
					}
				}
				continue
			}
		}
		if !started[key] {
			started[key] = true
			for _, b := range ex.before[key] {
				if !complete(b) {
					order++
					if order <= 2 {
						say("broken", "%s: output %q begins before %q, which the body wrote earlier, is complete", lbl, poShort(key), poShort(b))
					}
				}
			}
		}
	}
	if bad > 0 {
		if kind == "glued" {
			say(kind, "%s: %d delivered lines in all are not lines any producer wrote; every byte of every producer is delivered once and in order and there are as many lines as newlines: pieces of two producers' output were joined into one line where the pieces end", lbl, bad)
		} else {
			say(kind, "%s: %d delivered lines in all are torn, spliced, repeated or out of order", lbl, bad)
		}
	}
	if bad == 0 && conserved {
		for k, n := range ex.count {
			if next[k] != n {
				say("broken", "%s: stream %s: %d of %d lines delivered before the completion event", lbl, k, next[k], n)
			}
		}
	}
	stats["lines"] += wantLines
	stats["streams"] += len(ex.streams)
	stats["bad_lines"] += bad
	// how the streams were interleaved in what was delivered (coverage only): switches between streams
	sw, prev := 0, ""
	for _, e := range inner {
		k := e.text
		if sp := strings.IndexAny(k, ".:"); sp >= 0 {
			k = k[:sp]
		}
		if _, ok := ex.count[k]; ok {
			if prev != "" && prev != k {
				sw++
			}
			prev = k
		}
	}
	stats["stream_switches"] += sw
}

func poShort(s string) string {
	if len(s) > 150 {
		return s[:100] + "..." + s[len(s)-40:]
	}
	return s
}

// ---------------------------------------------------------------------------------------------------------------------
// the family

func poScenarios(rng *rand.Rand, thorough bool) []poScen {
	var scs []poScen
	big := func() int { return 12000 + rng.Intn(8000) }
	small := func() int { return 1 + rng.Intn(300) }
	blk := func() int { return []int{1, 100, 512, 1500, 4000}[rng.Intn(5)] }
	slow := func(sc *poScen) { sc.DelayUS, sc.Every = 100+rng.Intn(300), 64<<rng.Intn(4) }
	one := func(name string, p ...poProc) poScen {
		return poScen{Name: name, Targets: []poTarget{{Name: "t", Procs: p}}}
	}
	reps := 1
	if thorough {
		reps = 4
	}
	for rep := 0; rep < reps; rep++ {
		// every builtin that hands the target's writer to a process x every way of using the two streams x consumer speed
		for _, bi := range []string{"os.exec", "sh.exec"} {
			for _, mode := range []string{"out", "err", "alt", "conc"} {
				for _, cons := range []string{"fast", "slow"} {
					n1, n2 := big(), big()
					if mode != "conc" && rng.Intn(2) == 0 {
						n1, n2 = small(), small()
					}
					sc := one(fmt.Sprintf("%s/%s/%s consumer", bi, mode, cons), poProc{Builtin: bi, Mode: mode, NOut: n1, NErr: n2, Blk: blk()})
					if cons == "slow" {
						slow(&sc)
					}
					scs = append(scs, sc)
				}
			}
		}
		// captured standard output: standard error is still the target's output
		for _, bi := range []string{"os.output", "sh.output"} {
			for _, mode := range []string{"err", "conc"} {
				sc := one(bi+"/"+mode, poProc{Builtin: bi, Mode: mode, NOut: small(), NErr: big(), Blk: blk()})
				slow(&sc)
				scs = append(scs, sc)
			}
		}
		// one stream written in raw pieces that ignore line boundaries, with an unterminated last line; also a failing process
		for _, cut := range []int{1, 7, 4096, 65536, 1 << 20} {
			n := big()
			if cut == 1 {
				n = small()
			}
			scs = append(scs, one(fmt.Sprintf("raw pieces of %d bytes", cut),
				poProc{Builtin: []string{"os.exec", "sh.exec"}[rng.Intn(2)], Mode: []string{"out", "err"}[rng.Intn(2)], NOut: n, NErr: n, Cut: cut, Tail: rng.Intn(2) == 0, Fail: rng.Intn(3) == 0}))
		}
		// several processes in one body, the last one failing with both streams busy
		sc := one("three processes in one body",
			poProc{Builtin: "os.exec", Mode: "conc", NOut: big() / 3, NErr: big() / 3, Blk: blk()},
			poProc{Builtin: "sh.exec", Mode: "alt", NOut: small(), NErr: small(), Blk: blk()},
			poProc{Builtin: "os.exec", Mode: "conc", NOut: big() / 3, NErr: big() / 3, Blk: blk(), Fail: true})
		slow(&sc)
		scs = append(scs, sc)
		// parallel targets, each with its own processes
		par := poScen{Name: "four chatty targets in parallel"}
		for i := 0; i < 4; i++ {
			par.Targets = append(par.Targets, poTarget{Name: fmt.Sprintf("t%d", i), Procs: []poProc{
				{Builtin: []string{"os.exec", "sh.exec"}[i%2], Mode: "conc", NOut: big() / 2, NErr: big() / 2, Blk: blk()}}})
		}
		slow(&par)
		scs = append(scs, par)
		// two processes of one shell command at the same time
		for _, bi := range []string{"sh.pipe", "sh.bg"} {
			sc := one(bi+": two processes of one shell command at the same time", poProc{Builtin: bi, NOut: big(), NErr: big(), Blk: blk()})
			slow(&sc)
			scs = append(scs, sc)
		}
	}
	return scs
}

func TestVerifC18Procout(t *testing.T) {
	outPath := os.Getenv("VERIF_OUT")
	if outPath == "" || os.Getenv("VERIF_C18_SCEN") != "" {
		t.Skip("VERIF_OUT not set")
	}
	seed, _ := strconv.ParseInt(os.Getenv("VERIF_SEED"), 10, 64)
	rng := rand.New(rand.NewSource(seed*7919 + 18))
	scs := poScenarios(rng, os.Getenv("VERIF_TIER") == "thorough")
	if only := os.Getenv("VERIF_C18_ONLY"); only != "" {
		var keep []poScen
		for _, sc := range scs {
			if strings.Contains(sc.Name, only) {
				keep = append(keep, sc)
			}
		}
		scs = keep
	}
	self, err := os.Executable()
	if err != nil {
		t.Fatal(err)
	}
	base, err := os.MkdirTemp("", "c18po-")
	if err != nil {
		t.Fatal(err)
	}
	defer os.RemoveAll(base)

	type verdict struct {
		sc      poScen
		res     poResult
		died    string
		wallMS  int64
		retried bool
	}
	verdicts := make([]verdict, len(scs))
	play := func(i int) {
		sc := scs[i]
		dir := filepath.Join(base, fmt.Sprintf("s%d", i))
		os.MkdirAll(dir, 0755)
		resPath := filepath.Join(dir, ".result.json")
		js, _ := json.Marshal(sc)
		cmd := exec.Command(self, "-test.run", "^TestVerifC18ProcoutChild$", "-test.count=1")
		cmd.Env = append(os.Environ(), "VERIF_C18_SCEN="+string(js), "VERIF_C18_RESULT="+resPath, "VERIF_C18_DIR="+dir, "HOME="+dir)
		var out bytes.Buffer
		cmd.Stdout, cmd.Stderr = &out, &out
		t0 := time.Now()
		done := make(chan error, 1)
		if err := cmd.Start(); err != nil {
			verdicts[i] = verdict{sc: sc, died: "could not start: " + err.Error()}
			return
		}
		go func() { done <- cmd.Wait() }()
		v := verdict{sc: sc}
		select {
		case err = <-done:
		case <-time.After(120 * time.Second):
			cmd.Process.Kill()
			<-done
			v.died = "the build did not finish within 120 s"
		}
		v.wallMS = time.Since(t0).Milliseconds()
		if b, rerr := os.ReadFile(resPath); rerr == nil {
			json.Unmarshal(b, &v.res)
		} else if v.died == "" {
			o := out.String()
			if len(o) > 1500 {
				o = o[:900] + " ... " + o[len(o)-500:]
			}
			v.died = "the process died before the build returned: " + strings.Join(strings.Fields(o), " ")
		}
		body := ""
		for _, tg := range sc.Targets {
			s, _ := poBody("TOOL", tg)
			body += s
		}
		v.sc.BuildTxt = body
		verdicts[i] = v
	}
	// a few scenarios at a time
	var wg sync.WaitGroup
	sem := make(chan bool, 3)
	for i := range scs {
		wg.Add(1)
		sem <- true
		go func(i int) { defer wg.Done(); play(i); <-sem }(i)
	}
	wg.Wait()

	f, err := os.Create(outPath)
	if err != nil {
		t.Fatal(err)
	}
	defer f.Close()
	w := bufio.NewWriter(f)
	defer w.Flush()
	for _, v := range verdicts {
		js, _ := json.Marshal(v.sc)
		shell := false
		for _, tg := range v.sc.Targets {
			for _, p := range tg.Procs {
				if p.Builtin == "sh.pipe" || p.Builtin == "sh.bg" {
					shell = true
				}
			}
		}
		// class "shell-glued": a shell command with two processes running at the same time, and the only thing wrong is
		// that pieces of the two processes' output are joined at piece boundaries; everything else is class "process"
		class := "process"
		if shell && v.died == "" && len(v.res.Oracles) > 0 {
			class = "shell-glued"
			for _, o := range v.res.Oracles {
				if !strings.HasPrefix(o, "glued|") {
					class = "process"
				}
			}
		}
		for _, o := range v.res.Oracles {
			text := o
			if i := strings.IndexByte(o, '|'); i >= 0 {
				text = o[i+1:]
			}
			fmt.Fprintf(w, "ORACLE\t%s\tC18 output of processes, scenario %q: %s\t%s\n", class, v.sc.Name, text, js)
		}
		if v.died != "" {
			fmt.Fprintf(w, "ORACLE\t%s\tC18 output of processes, scenario %q: %s\t%s\n", class, v.sc.Name, v.died, js)
		}
		st, _ := json.Marshal(v.res.Stats)
		fmt.Fprintf(w, "case\t%s\t%d\t%s\n", v.sc.Name, v.wallMS, st)
	}
}
