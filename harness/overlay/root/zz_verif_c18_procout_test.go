package dawn

// C18, output of processes: "its output is delivered as lines exactly once, in order, between evaluating and completion,
// whatever the chunking of the writes".  The line-writer family (zz_verif_linewriter_test.go) feeds a lineWriter from ONE
// caller; the engine family's bodies write two short lines.  Here the producers are what real bodies use: processes started
// by os.exec / sh.exec / os.output / sh.output that write numbered lines to standard output and to standard error -- one
// stream, both in turn from one thread, both AT THE SAME TIME from two threads -- in blocks of whole lines of at most
// PIPE_BUF bytes (each write(2) is atomic, so whatever the two descriptors are connected to no line is ever torn by the
// producer), in volumes from a few lines to megabytes, with a consumer (the Events implementation) that is fast or slow
// (a slow one fills the pipes, so every read of the copying side ends in the middle of a line), with several processes per
// body, failing processes, and several such targets built in parallel.
//
// Oracle (the statement, per label and per stream of every process): every delivered line is the NEXT line of the stream it
// belongs to -- intact, once, in that stream's order --, every stream is delivered completely, the streams of one process
// follow those of the process the body ran before it, and everything lies between the label's evaluating event and its one
// completion event.  Coq side: Output/Producers.v (one_channel_each_stream_in_order, separate_copiers_refuted).
//
// Every scenario runs in a process of its own (a torn line buffer can crash the process); a crash or a hang is an outcome.

import (
	"bufio"
	"bytes"
	"encoding/json"
	"fmt"
	"math/rand"
	"os"
	"os/exec"
	"path/filepath"
	"strconv"
	"strings"
	"sync"
	"testing"
	"time"

	"github.com/pgavlin/dawn/diff"
	"github.com/pgavlin/dawn/label"
	starlark_os "github.com/pgavlin/dawn/lib/os"
	starlark_sh "github.com/pgavlin/dawn/lib/sh"
	"go.starlark.net/starlark"
)

// ---------------------------------------------------------------------------------------------------------------------
// the tool: `<test binary> verif-c18-tool <spec>`

type poProc struct {
	Builtin string `json:"builtin"` // os.exec | sh.exec | os.output | sh.output | sh.pipe | sh.bg
	Mode    string `json:"mode"`    // out | err | alt | conc
	NOut    int    `json:"n_out"`
	NErr    int    `json:"n_err"`
	Blk     int    `json:"block_bytes"` // a write(2) is a block of whole lines of at most this many bytes (<= 4000)
	Cut     int    `json:"cut_bytes"`   // > 0 (one-stream modes only): raw writes of this many bytes, wherever they fall
	Tail    bool   `json:"unterminated_last_line"`
	Fail    bool   `json:"exits_nonzero"`
}

func (p poProc) spec(tag string) string {
	b := func(x bool) string {
		if x {
			return "1"
		}
		return "0"
	}
	return strings.Join([]string{tag, p.Mode, strconv.Itoa(p.NOut), strconv.Itoa(p.NErr), strconv.Itoa(p.Blk), strconv.Itoa(p.Cut), b(p.Tail), b(p.Fail)}, ":")
}

func poLine(tag, s string, i int) string {
	return fmt.Sprintf("%s%s %07d %s", tag, s, i, strings.Repeat(s, (i*7)%53))
}

func poEmit(f *os.File, tag, s string, n, blk, cut int, tail bool) {
	if n == 0 {
		return
	}
	if cut > 0 {
		var all bytes.Buffer
		for i := 0; i < n; i++ {
			all.WriteString(poLine(tag, s, i))
			if i < n-1 || !tail {
				all.WriteByte('\n')
			}
		}
		b := all.Bytes()
		for len(b) > 0 {
			k := cut
			if k > len(b) {
				k = len(b)
			}
			f.Write(b[:k])
			b = b[k:]
		}
		return
	}
	for _, b := range poBlocks(tag, s, n, blk) {
		f.Write(b)
	}
}

func poBlocks(tag, s string, n, blk int) [][]byte {
	var out [][]byte
	var block bytes.Buffer
	for i := 0; i < n; i++ {
		line := poLine(tag, s, i) + "\n"
		if block.Len() > 0 && block.Len()+len(line) > blk {
			out = append(out, append([]byte{}, block.Bytes()...))
			block.Reset()
		}
		block.WriteString(line)
	}
	if block.Len() > 0 {
		out = append(out, append([]byte{}, block.Bytes()...))
	}
	return out
}

func init() {
	if len(os.Args) < 3 || os.Args[1] != "verif-c18-tool" {
		return
	}
	f := strings.Split(os.Args[2], ":")
	tag, mode := f[0], f[1]
	nout, _ := strconv.Atoi(f[2])
	nerr, _ := strconv.Atoi(f[3])
	blk, _ := strconv.Atoi(f[4])
	cut, _ := strconv.Atoi(f[5])
	tail, fail := f[6] == "1", f[7] == "1"
	switch mode {
	case "out":
		poEmit(os.Stdout, tag, "o", nout, blk, cut, tail)
	case "err":
		poEmit(os.Stderr, tag, "e", nerr, blk, cut, tail)
	case "alt": // one thread, a block to one stream, then a block to the other
		bo, be := poBlocks(tag, "o", nout, blk), poBlocks(tag, "e", nerr, blk)
		for i := 0; i < len(bo) || i < len(be); i++ {
			if i < len(bo) {
				os.Stdout.Write(bo[i])
			}
			if i < len(be) {
				os.Stderr.Write(be[i])
			}
		}
	case "conc": // two threads at the same time
		var wg sync.WaitGroup
		wg.Add(2)
		go func() { defer wg.Done(); poEmit(os.Stdout, tag, "o", nout, blk, 0, false) }()
		go func() { defer wg.Done(); poEmit(os.Stderr, tag, "e", nerr, blk, 0, false) }()
		wg.Wait()
	}
	if fail {
		os.Exit(3)
	}
	os.Exit(0)
}

// ---------------------------------------------------------------------------------------------------------------------
// scenarios

type poTarget struct {
	Name  string   `json:"name"`
	Procs []poProc `json:"processes"`
}

type poScen struct {
	Name     string     `json:"name"`
	Targets  []poTarget `json:"targets"` // more than one: dependencies of //:all, built in parallel
	DelayUS  int        `json:"consumer_sleep_us"`
	Every    int        `json:"consumer_sleeps_every_lines"`
	BuildTxt string     `json:"build_file,omitempty"`
}

type poResult struct {
	Oracles []string       `json:"oracles"`
	Stats   map[string]int `json:"stats"`
}

func poQuoteSh(s string) string { return "'" + s + "'" }

// the body of one target and what it must deliver: the streams (key -> number of lines), literal lines, and for each
// stream/literal the keys that must be complete before its first line
type poExpect struct {
	count  map[string]int      // stream key -> lines
	tail   map[string]bool     // stream key -> last line has no newline (same content)
	lits   map[string]int      // literal line -> times
	before map[string][]string // key or literal -> keys/literals that must be complete first
	fails  bool
}

func poBody(self string, t poTarget) (string, *poExpect) {
	ex := &poExpect{count: map[string]int{}, tail: map[string]bool{}, lits: map[string]int{}, before: map[string][]string{}}
	var b strings.Builder
	fmt.Fprintf(&b, "@target()\ndef %s():\n", t.Name)
	var done []string // everything the body has completed so far
	for k, p := range t.Procs {
		tag := fmt.Sprintf("%sp%d", t.Name, k)
		argv := fmt.Sprintf("[%q, \"verif-c18-tool\", %q]", self, p.spec(tag))
		shcmd := poQuoteSh(self) + " verif-c18-tool " + poQuoteSh(p.spec(tag))
		var mine []string
		add := func(key string, n int, tail bool) {
			if n > 0 {
				ex.count[key] = n
				ex.tail[key] = tail
				ex.before[key] = append([]string{}, done...)
				mine = append(mine, key)
			}
		}
		lit := func(s string, after []string) {
			ex.lits[s]++
			ex.before[s] = append(append([]string{}, done...), after...)
			mine = append(mine, s)
		}
		nout, nerr := p.NOut, p.NErr
		if p.Mode == "out" {
			nerr = 0
		}
		if p.Mode == "err" {
			nout = 0
		}
		switch p.Builtin {
		case "os.exec":
			fmt.Fprintf(&b, "    os.exec(%s)\n", argv)
			add(tag+"o", nout, p.Tail)
			add(tag+"e", nerr, p.Tail)
		case "sh.exec":
			fmt.Fprintf(&b, "    sh.exec(%q)\n", shcmd)
			lit(shcmd, nil) // sh.exec echoes the command line first
			done = append(done, shcmd)
			add(tag+"o", nout, p.Tail)
			add(tag+"e", nerr, p.Tail)
		case "os.output": // standard output is captured and returned, standard error is the target's output
			fmt.Fprintf(&b, "    r%d = os.output(%s)\n    print(\"%s captured %%d bytes %%d newlines\" %% (len(r%d), r%d.count(\"\\n\")))\n", k, argv, tag, k, k)
			add(tag+"e", nerr, false)
			lit(fmt.Sprintf("%s captured %d bytes %d newlines", tag, poStreamBytes(tag, "o", nout), nout), []string{tag + "e"})
		case "sh.output":
			fmt.Fprintf(&b, "    r%d = sh.output(%q)\n    print(\"%s captured %%d bytes %%d newlines\" %% (len(r%d), r%d.count(\"\\n\")))\n", k, shcmd, tag, k, k)
			lit(shcmd, nil)
			done = append(done, shcmd)
			add(tag+"e", nerr, false)
			lit(fmt.Sprintf("%s captured %d bytes %d newlines", tag, poStreamBytes(tag, "o", nout), nout), []string{tag + "e"})
		case "sh.pipe", "sh.bg": // two processes of ONE shell command at the same time: one writes standard error, the other standard output
			pa := poProc{Mode: "err", NErr: p.NErr, Blk: p.Blk}
			pb := poProc{Mode: "out", NOut: p.NOut, Blk: p.Blk}
			ca := poQuoteSh(self) + " verif-c18-tool " + poQuoteSh(pa.spec(tag+"a"))
			cb := poQuoteSh(self) + " verif-c18-tool " + poQuoteSh(pb.spec(tag+"b"))
			c := ca + " | " + cb
			if p.Builtin == "sh.bg" {
				c = ca + " & " + cb + "; wait"
			}
			fmt.Fprintf(&b, "    sh.exec(%q)\n", c)
			lit(c, nil)
			done = append(done, c)
			add(tag+"ae", p.NErr, false)
			add(tag+"bo", p.NOut, false)
		}
		done = append(done, mine...)
		if p.Fail {
			ex.fails = true
			break // the body stops here
		}
	}
	b.WriteString("\n")
	return b.String(), ex
}

func poStreamBytes(tag, s string, n int) int {
	t := 0
	for i := 0; i < n; i++ {
		t += len(poLine(tag, s, i)) + 1
	}
	return t
}

type poEvent struct {
	kind, label, text string
}

type poRecorder struct {
	discardEventsT
	m       sync.Mutex
	events  []poEvent
	delay   time.Duration
	every   int
	printed int
}

func (r *poRecorder) add(kind string, l *label.Label, text string) {
	r.m.Lock()
	s := ""
	if l != nil {
		s = l.String()
	}
	r.events = append(r.events, poEvent{kind, s, text})
	sleep := false
	if kind == "Print" {
		r.printed++
		sleep = r.every > 0 && r.printed%r.every == 0
	}
	r.m.Unlock()
	if sleep {
		time.Sleep(r.delay) // a consumer that takes its time (a terminal, a log shipper)
	}
}

func (r *poRecorder) Print(l *label.Label, line string) { r.add("Print", l, line) }
func (r *poRecorder) TargetUpToDate(l *label.Label)     { r.add("UpToDate", l, "") }
func (r *poRecorder) TargetEvaluating(l *label.Label, reason string, d diff.ValueDiff) {
	r.add("Evaluating", l, "")
}
func (r *poRecorder) TargetFailed(l *label.Label, err error)       { r.add("Failed", l, err.Error()) }
func (r *poRecorder) TargetSucceeded(l *label.Label, changed bool) { r.add("Succeeded", l, "") }
func (r *poRecorder) RunDone(err error)                            { r.add("RunDone", nil, "") }

// TestVerifC18ProcoutChild plays one scenario (VERIF_C18_SCEN) and writes its verdict to VERIF_C18_RESULT.
func TestVerifC18ProcoutChild(t *testing.T) {
	scenJSON, resPath := os.Getenv("VERIF_C18_SCEN"), os.Getenv("VERIF_C18_RESULT")
	if scenJSON == "" || resPath == "" {
		t.Skip("not a scenario process")
	}
	var sc poScen
	if err := json.Unmarshal([]byte(scenJSON), &sc); err != nil {
		t.Fatal(err)
	}
	self, err := os.Executable()
	if err != nil {
		t.Fatal(err)
	}
	dir := os.Getenv("VERIF_C18_DIR")
	res := poResult{Stats: map[string]int{}}
	var build strings.Builder
	expects := map[string]*poExpect{}
	var deps []string
	for _, tg := range sc.Targets {
		body, ex := poBody(self, tg)
		build.WriteString(body)
		expects["//:"+tg.Name] = ex
		deps = append(deps, fmt.Sprintf("%q", ":"+tg.Name))
	}
	fmt.Fprintf(&build, "@target(deps=[%s])\ndef all():\n    pass\n", strings.Join(deps, ", "))
	os.WriteFile(filepath.Join(dir, "dawn.toml"), nil, 0644)
	os.WriteFile(filepath.Join(dir, "BUILD.dawn"), []byte(build.String()), 0644)

	rec := &poRecorder{delay: time.Duration(sc.DelayUS) * time.Microsecond, every: sc.Every}
	proj, err := Load(dir, &LoadOptions{Events: rec, Builtins: starlark.StringDict{"os": starlark_os.Module, "sh": starlark_sh.Module}})
	if err != nil {
		t.Fatalf("load: %v", err)
	}
	l, _ := label.Parse("//:all")
	runErr := proj.Run(l, nil)

	rec.m.Lock()
	events := rec.events
	rec.m.Unlock()
	say := func(format string, a ...interface{}) {
		if len(res.Oracles) < 12 {
			res.Oracles = append(res.Oracles, fmt.Sprintf(format, a...))
		}
	}
	anyFails := false
	for lbl, ex := range expects {
		poJudge(lbl, ex, events, say, res.Stats)
		anyFails = anyFails || ex.fails
	}
	if (runErr != nil) != anyFails {
		say("the build's result is %v but a failing process was %v", runErr, anyFails)
	}
	out, _ := json.Marshal(res)
	if err := os.WriteFile(resPath, out, 0644); err != nil {
		t.Fatal(err)
	}
}

func poJudge(lbl string, ex *poExpect, events []poEvent, say func(string, ...interface{}), stats map[string]int) {
	// the label's own events
	var mine []poEvent
	for _, e := range events {
		if e.label == lbl {
			mine = append(mine, e)
		}
	}
	if len(mine) < 2 || mine[0].kind != "Evaluating" {
		say("%s: the first event is not 'evaluating' (%d events)", lbl, len(mine))
		return
	}
	last := mine[len(mine)-1]
	want := "Succeeded"
	if ex.fails {
		want = "Failed"
	}
	if last.kind != want {
		say("%s: the last event is %s, want %s (%s)", lbl, last.kind, want, last.text)
	}
	next := map[string]int{}
	litSeen := map[string]int{}
	complete := func(k string) bool {
		if n, ok := ex.count[k]; ok {
			return next[k] == n
		}
		return litSeen[k] == ex.lits[k]
	}
	started := map[string]bool{}
	bad := 0
	order := 0
	for i, e := range mine[1 : len(mine)-1] {
		if e.kind != "Print" {
			say("%s: event %d between evaluating and completion is %s", lbl, i+1, e.kind)
			continue
		}
		line := e.text
		key := ""
		if _, ok := ex.lits[line]; ok {
			key = line
			litSeen[line]++
			if litSeen[line] > ex.lits[line] {
				bad++
				say("%s: line %q delivered %d times", lbl, poShort(line), litSeen[line])
			}
		} else {
			k := line
			if sp := strings.IndexByte(line, ' '); sp >= 0 {
				k = line[:sp]
			}
			n, ok := ex.count[k]
			if ok && next[k] < n && line == poLine(k[:len(k)-1], k[len(k)-1:], next[k]) {
				key = k
				next[k]++
			} else {
				bad++
				if bad <= 3 {
					exp := "no such stream"
					if ok {
						exp = fmt.Sprintf("the next line of stream %s is number %d of %d", k, next[k], n)
					}
					say("%s: delivered line %d, %q, is not the next line of any stream the body wrote (%s)", lbl, i, poShort(line), exp)
				}
				// resynchronise on the line's own number
				if ok && len(line) > len(k)+8 {
					if v, err := strconv.Atoi(line[len(k)+1 : len(k)+8]); err == nil && v+1 <= n {
						next[k] = v + 1
					}
				}
				continue
			}
		}
		if !started[key] {
			started[key] = true
			for _, b := range ex.before[key] {
				if !complete(b) {
					order++
					if order <= 2 {
						say("%s: output %q begins before %q, which the body wrote earlier, is complete", lbl, poShort(key), poShort(b))
					}
				}
			}
		}
	}
	if bad > 3 {
		say("%s: ... %d lines in all that are torn, spliced, repeated or out of order", lbl, bad)
	}
	if bad == 0 {
		for k, n := range ex.count {
			if next[k] != n {
				say("%s: stream %s: %d of %d lines delivered before the completion event", lbl, k, next[k], n)
			}
		}
		for s, n := range ex.lits {
			if litSeen[s] != n {
				say("%s: line %q delivered %d times, want %d", lbl, poShort(s), litSeen[s], n)
			}
		}
	}
	for _, n := range ex.count {
		stats["lines"] += n
	}
	stats["streams"] += len(ex.count)
	stats["bad_lines"] += bad
	// how the two streams of one process were interleaved in what was delivered (coverage only): switches between streams
	sw, prev := 0, ""
	for _, e := range mine {
		if e.kind == "Print" {
			k := e.text
			if sp := strings.IndexByte(k, ' '); sp >= 0 {
				k = k[:sp]
			}
			if _, ok := ex.count[k]; ok {
				if prev != "" && prev != k {
					sw++
				}
				prev = k
			}
		}
	}
	stats["stream_switches"] += sw
}

func poShort(s string) string {
	if len(s) > 150 {
		return s[:100] + "..." + s[len(s)-40:]
	}
	return s
}

// ---------------------------------------------------------------------------------------------------------------------
// the family

func poScenarios(rng *rand.Rand, thorough bool) []poScen {
	var scs []poScen
	big := func() int { return 12000 + rng.Intn(8000) }
	small := func() int { return 1 + rng.Intn(300) }
	blk := func() int { return []int{1, 100, 512, 1500, 4000}[rng.Intn(5)] }
	slow := func(sc *poScen) { sc.DelayUS, sc.Every = 100+rng.Intn(300), 64<<rng.Intn(4) }
	one := func(name string, p ...poProc) poScen {
		return poScen{Name: name, Targets: []poTarget{{Name: "t", Procs: p}}}
	}
	reps := 1
	if thorough {
		reps = 4
	}
	for rep := 0; rep < reps; rep++ {
		// every builtin that hands the target's writer to a process x every way of using the two streams x consumer speed
		for _, bi := range []string{"os.exec", "sh.exec"} {
			for _, mode := range []string{"out", "err", "alt", "conc"} {
				for _, cons := range []string{"fast", "slow"} {
					n1, n2 := big(), big()
					if mode != "conc" && rng.Intn(2) == 0 {
						n1, n2 = small(), small()
					}
					sc := one(fmt.Sprintf("%s/%s/%s consumer", bi, mode, cons), poProc{Builtin: bi, Mode: mode, NOut: n1, NErr: n2, Blk: blk()})
					if cons == "slow" {
						slow(&sc)
					}
					scs = append(scs, sc)
				}
			}
		}
		// captured standard output: standard error is still the target's output
		for _, bi := range []string{"os.output", "sh.output"} {
			for _, mode := range []string{"err", "conc"} {
				sc := one(bi+"/"+mode, poProc{Builtin: bi, Mode: mode, NOut: small(), NErr: big(), Blk: blk()})
				slow(&sc)
				scs = append(scs, sc)
			}
		}
		// one stream written in raw pieces that ignore line boundaries, with an unterminated last line; also a failing process
		for _, cut := range []int{1, 7, 4096, 65536, 1 << 20} {
			n := big()
			if cut == 1 {
				n = small()
			}
			scs = append(scs, one(fmt.Sprintf("raw pieces of %d bytes", cut),
				poProc{Builtin: []string{"os.exec", "sh.exec"}[rng.Intn(2)], Mode: []string{"out", "err"}[rng.Intn(2)], NOut: n, NErr: n, Cut: cut, Tail: rng.Intn(2) == 0, Fail: rng.Intn(3) == 0}))
		}
		// several processes in one body, the last one failing with both streams busy
		sc := one("three processes in one body",
			poProc{Builtin: "os.exec", Mode: "conc", NOut: big() / 3, NErr: big() / 3, Blk: blk()},
			poProc{Builtin: "sh.exec", Mode: "alt", NOut: small(), NErr: small(), Blk: blk()},
			poProc{Builtin: "os.exec", Mode: "conc", NOut: big() / 3, NErr: big() / 3, Blk: blk(), Fail: true})
		slow(&sc)
		scs = append(scs, sc)
		// parallel targets, each with its own processes
		par := poScen{Name: "four chatty targets in parallel"}
		for i := 0; i < 4; i++ {
			par.Targets = append(par.Targets, poTarget{Name: fmt.Sprintf("t%d", i), Procs: []poProc{
				{Builtin: []string{"os.exec", "sh.exec"}[i%2], Mode: "conc", NOut: big() / 2, NErr: big() / 2, Blk: blk()}}})
		}
		slow(&par)
		scs = append(scs, par)
		// two processes of one shell command at the same time
		for _, bi := range []string{"sh.pipe", "sh.bg"} {
			sc := one(bi+": two processes of one shell command at the same time", poProc{Builtin: bi, NOut: big(), NErr: big(), Blk: blk()})
			slow(&sc)
			scs = append(scs, sc)
		}
	}
	return scs
}

func TestVerifC18Procout(t *testing.T) {
	outPath := os.Getenv("VERIF_OUT")
	if outPath == "" || os.Getenv("VERIF_C18_SCEN") != "" {
		t.Skip("VERIF_OUT not set")
	}
	seed, _ := strconv.ParseInt(os.Getenv("VERIF_SEED"), 10, 64)
	rng := rand.New(rand.NewSource(seed*7919 + 18))
	scs := poScenarios(rng, os.Getenv("VERIF_TIER") == "thorough")
	if only := os.Getenv("VERIF_C18_ONLY"); only != "" {
		var keep []poScen
		for _, sc := range scs {
			if strings.Contains(sc.Name, only) {
				keep = append(keep, sc)
			}
		}
		scs = keep
	}
	self, err := os.Executable()
	if err != nil {
		t.Fatal(err)
	}
	base, err := os.MkdirTemp("", "c18po-")
	if err != nil {
		t.Fatal(err)
	}
	defer os.RemoveAll(base)

	type verdict struct {
		sc      poScen
		res     poResult
		died    string
		wallMS  int64
		retried bool
	}
	verdicts := make([]verdict, len(scs))
	play := func(i int) {
		sc := scs[i]
		dir := filepath.Join(base, fmt.Sprintf("s%d", i))
		os.MkdirAll(dir, 0755)
		resPath := filepath.Join(dir, ".result.json")
		js, _ := json.Marshal(sc)
		cmd := exec.Command(self, "-test.run", "^TestVerifC18ProcoutChild$", "-test.count=1")
		cmd.Env = append(os.Environ(), "VERIF_C18_SCEN="+string(js), "VERIF_C18_RESULT="+resPath, "VERIF_C18_DIR="+dir, "HOME="+dir)
		var out bytes.Buffer
		cmd.Stdout, cmd.Stderr = &out, &out
		t0 := time.Now()
		done := make(chan error, 1)
		if err := cmd.Start(); err != nil {
			verdicts[i] = verdict{sc: sc, died: "could not start: " + err.Error()}
			return
		}
		go func() { done <- cmd.Wait() }()
		v := verdict{sc: sc}
		select {
		case err = <-done:
		case <-time.After(120 * time.Second):
			cmd.Process.Kill()
			<-done
			v.died = "the build did not finish within 120 s"
		}
		v.wallMS = time.Since(t0).Milliseconds()
		if b, rerr := os.ReadFile(resPath); rerr == nil {
			json.Unmarshal(b, &v.res)
		} else if v.died == "" {
			o := out.String()
			if len(o) > 1500 {
				o = o[:900] + " ... " + o[len(o)-500:]
			}
			v.died = "the process died before the build returned: " + strings.Join(strings.Fields(o), " ")
		}
		body := ""
		for _, tg := range sc.Targets {
			s, _ := poBody("TOOL", tg)
			body += s
		}
		v.sc.BuildTxt = body
		verdicts[i] = v
	}
	// a few scenarios at a time
	var wg sync.WaitGroup
	sem := make(chan bool, 3)
	for i := range scs {
		wg.Add(1)
		sem <- true
		go func(i int) { defer wg.Done(); play(i); <-sem }(i)
	}
	wg.Wait()

	f, err := os.Create(outPath)
	if err != nil {
		t.Fatal(err)
	}
	defer f.Close()
	w := bufio.NewWriter(f)
	defer w.Flush()
	for _, v := range verdicts {
		js, _ := json.Marshal(v.sc)
		class := "process"
		for _, tg := range v.sc.Targets {
			for _, p := range tg.Procs {
				if p.Builtin == "sh.pipe" || p.Builtin == "sh.bg" {
					class = "shell"
				}
			}
		}
		for _, o := range v.res.Oracles {
			fmt.Fprintf(w, "ORACLE\t%s\tC18 output of processes, scenario %q: %s\t%s\n", class, v.sc.Name, o, js)
		}
		if v.died != "" {
			fmt.Fprintf(w, "ORACLE\t%s\tC18 output of processes, scenario %q: %s\t%s\n", class, v.sc.Name, v.died, js)
		}
		st, _ := json.Marshal(v.res.Stats)
		fmt.Fprintf(w, "case\t%s\t%d\t%s\n", v.sc.Name, v.wallMS, st)
	}
}
