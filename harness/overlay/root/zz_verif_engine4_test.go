package dawn

// Mechanism-directed scenarios: deterministic histories that run first in every tier (history indexes 0..n-1), one per
// line of the skip logic / protocol that random histories reach only rarely.

import (
	"fmt"
	"os"
	"path/filepath"
	"sort"
	"strconv"
	"strings"
)

func (r *engRun) mkSource(pkg string) int {
	s := r.addSource(pkg)
	lit := r.writeLit(r.p.Sources[s].Path)
	r.emitFile(r.p.Sources[s].Path, lit, "initial")
	return s
}

func (r *engRun) mkTarget(pkg string, deps, srcs []int, ngens int, always bool, style int) *engTarget {
	p := r.p
	id := p.nextID
	p.nextID++
	t := &engTarget{ID: id, Pkg: pkg, Name: fmt.Sprintf("t%d", id), K: 20 + id, Style: style, Helper: style == 2, Deps: deps, Srcs: srcs, Always: always}
	for i := 0; i < ngens; i++ {
		t.Gens = append(t.Gens, p.newPath(pkgJoin(pkg, fmt.Sprintf("t%d.out%d", id, i))))
	}
	p.Targets[id] = t
	return t
}

func (r *engRun) editSource(s int) {
	lit := r.writeLit(r.p.Sources[s].Path)
	r.emitFile(r.p.Sources[s].Path, lit, "edit")
}

// dry run then real build of the same label; C13 prediction oracle
func (r *engRun) dryThenBuild(label int) {
	d := r.build(label, "dry", nil, "", "scenario")
	o := r.build(label, "build", nil, "", "scenario")
	if d.Kind == "build" && o.Kind == "build" && o.OK {
		if want, got := evaluatingSet(o), evaluatingSet(d); want != got {
			r.oracle("C13 dry run of %d predicted %s but the real build attempted %s", label, got, want)
		}
	}
	if o.Kind == "build" && o.OK {
		r.checkClean(label)
	}
}

// one process: Load, Run(dry), Reload, Run(nil) -- what watch mode does after a dry run; recorded as two operations
func (r *engRun) dryReloadRunInProcess(label int) {
	lbl := r.p.label(label)
	_, r.execPos = readLines(filepath.Join(r.root, ".exec.log"), 0)
	rep, _, hung := r.child("dry+reload+run", lbl, nil, "")
	if hung || rep == nil || rep.LoadErr != "" {
		r.oracle("C13 in-process dry run + reload + run failed (hung=%v)", hung)
		return
	}
	ranLines, _ := readLines(filepath.Join(r.root, ".exec.log"), r.execPos)
	// split events at the second LoadDone
	var first, second []engEvent
	loads := 0
	for _, e := range rep.Events {
		if e.Kind == "LoadDone" {
			loads++
			continue
		}
		if strings.HasPrefix(e.Kind, "Module") {
			continue
		}
		if loads == 1 {
			first = append(first, e)
		} else if loads >= 2 {
			second = append(second, e)
		}
	}
	mk := func(evs []engEvent, ran []int, mode string) *mObs {
		obs := &mObs{Kind: "build", Ran: ran, Events: map[string][]string{}, OK: true}
		for _, e := range evs {
			if e.Kind == "RunDone" {
				obs.OK = e.Text == ""
				continue
			}
			if e.Kind == "Print" {
				continue
			}
			id := strconv.Itoa(r.labelIDAny(e.Label))
			obs.Events[id] = append(obs.Events[id], e.Kind)
		}
		return obs
	}
	var ran []int
	for _, l := range ranLines {
		ran = append(ran, r.labelIDAny(l))
	}
	sort.Ints(ran)
	recs, _ := r.records()
	d := mk(first, nil, "dry")
	o := mk(second, ran, "build")
	// the records listing is only observable after the whole process: attach it to the second operation and give the
	// dry operation the listing the model predicts for it (a dry run writes nothing: the listing before = after load)
	o.Recs = recs
	d.Recs = nil
	r.h.Ops = append(r.h.Ops, mOp{Op: "build", Label: label, Mode: "dry", Note: "in-process, before reload", Obs: &mObs{Kind: "skip-recs", OK: d.OK, Events: d.Events}})
	r.h.Ops = append(r.h.Ops, mOp{Op: "build", Label: label, Mode: "build", Note: "in-process, after reload, nil options", Obs: o})
	if o.OK {
		if want, got := evaluatingSet(o), evaluatingSet(d); want != got {
			r.oracle("C13 dry run of %d predicted %s but the next real build (same process, nil options) attempted %s", label, got, want)
		}
		if evaluatingSet(o) != "" && len(ran) == 0 {
			r.oracle("C13 a dry run changed what the next real build does: the build that followed it (same process, reloaded, nil options) reported evaluating %s but executed no body", evaluatingSet(o))
		}
		r.checkClean(label)
	}
}

var engScenarios = []func(r *engRun){
	// an always-target with dependents: the dry run must report the dependents too
	func(r *engRun) {
		s := r.mkSource("")
		a := r.mkTarget("", nil, []int{s}, 1, true, 0)
		m := r.mkTarget("", []int{a.ID}, nil, 1, false, 0)
		top := r.mkTarget("", []int{m.ID}, nil, 1, false, 1)
		r.emitProj("scenario: always-target with dependents")
		r.build(top.ID, "build", nil, "", "scenario")
		r.dryThenBuild(top.ID)
		r.dryThenBuild(top.ID)
	},
	// watch-mode sequence: dry run, reload, Run(nil) in one process after an edit
	func(r *engRun) {
		s := r.mkSource("")
		a := r.mkTarget("", nil, []int{s}, 1, false, 0)
		top := r.mkTarget("", []int{a.ID}, nil, 1, false, 0)
		r.emitProj("scenario: in-process dry run then real build")
		r.build(top.ID, "build", nil, "", "scenario")
		r.editSource(s)
		r.dryReloadRunInProcess(top.ID)
		r.build(top.ID, "build", nil, "", "noop-rebuild")
	},
	// missing dependencies: one, two, and two plus a real one; lone failed events
	func(r *engRun) {
		s := r.mkSource("")
		a := r.mkTarget("", nil, []int{s}, 0, false, 0)
		one := r.mkTarget("", []int{900}, nil, 0, false, 0)
		two := r.mkTarget("", []int{900, 901}, nil, 0, false, 0)
		mix := r.mkTarget("", []int{a.ID, 901, 900}, nil, 0, false, 0)
		top := r.mkTarget("", []int{two.ID}, nil, 0, false, 0)
		r.p.Unknown = map[int]string{900: "//:nope0", 901: "//:nope1"}
		r.emitProj("scenario: missing dependencies")
		for _, id := range []int{one.ID, two.ID, mix.ID, top.ID} {
			r.build(id, "build", nil, "", "scenario")
		}
		r.build(two.ID, "dry", nil, "", "scenario")
	},
	// sub-target built on its own between an edit and the full build; failing body then no-edit rebuild; deleted output
	func(r *engRun) {
		s := r.mkSource("p1")
		r.p.Pkgs = append(r.p.Pkgs, "p1")
		r.p.Pad["p1"] = 0
		a := r.mkTarget("p1", nil, []int{s}, 1, false, 0)
		b := r.mkTarget("", []int{a.ID}, nil, 1, false, 2)
		c := r.mkTarget("", []int{b.ID}, nil, 1, false, 0)
		r.emitProj("scenario: partial builds")
		r.build(c.ID, "build", nil, "", "scenario")
		r.editSource(s)
		r.build(a.ID, "build", nil, "", "sub-target after edit")
		o := r.build(c.ID, "build", nil, "", "full build after sub-target build")
		if o.OK {
			r.checkClean(c.ID)
		}
		r.editSource(s)
		r.build(c.ID, "build", []int{b.ID}, "", "failing body")
		o = r.build(c.ID, "build", nil, "", "rebuild after failure, no edit")
		if o.OK {
			r.checkClean(c.ID)
		}
		os.Remove(filepath.Join(r.root, r.p.Paths[a.Gens[0]]))
		r.emitFile(a.Gens[0], 0, "delete output")
		o = r.build(c.ID, "build", nil, "", "after deleting an output")
		if o.OK {
			r.checkClean(c.ID)
		}
	},
}

// write an earlier content back (the model sees the earlier literal again)
func (r *engRun) revertSource(s int, lit int) {
	path := r.p.Sources[s].Path
	os.WriteFile(filepath.Join(r.root, r.p.Paths[path]), []byte(fmt.Sprintf("lit-%d\n", lit)), 0644)
	r.litOf[path] = lit
	r.emitFile(path, lit, "revert to an earlier content")
}

func init() {
	// a build is killed after a body ran with edited inputs but before its record was written; the edit is then
	// reverted: the record still describes the old inputs, the outputs on disk come from the edited ones
	engScenarios = append(engScenarios, func(r *engRun) {
		s := r.mkSource("")
		a := r.mkTarget("", nil, []int{s}, 1, false, 0)
		top := r.mkTarget("", []int{a.ID}, nil, 1, false, 0)
		r.emitProj("scenario: killed after the body, edit reverted")
		r.build(top.ID, "build", nil, "", "scenario")
		first := r.litOf[r.p.Sources[s].Path]
		r.editSource(s)
		r.build(top.ID, "build", nil, "eval.after_body|"+r.p.label(a.ID)+"|1", "killed after the body of the leaf")
		r.revertSource(s, first)
		o := r.build(top.ID, "build", nil, "", "recovery after the edit was reverted")
		if o.Kind == "build" && o.OK {
			r.checkClean(top.ID)
		}
		// an always-run killed in the MIDDLE of the leaf's body: nothing was edited, the record is untouched, the
		// output exists but is incomplete -- the unfinished target must run again
		r.build(top.ID, "always", nil, "partial|"+r.p.label(a.ID), "always-run killed inside the body of the leaf")
		o = r.build(top.ID, "build", nil, "", "recovery")
		if o.Kind == "build" && o.OK {
			r.checkClean(top.ID)
		}
		// the same after a deleted output: the rebuild that re-creates it is killed inside the body
		os.Remove(filepath.Join(r.root, r.p.Paths[a.Gens[0]]))
		r.emitFile(a.Gens[0], 0, "delete output")
		r.build(top.ID, "build", nil, "partial|"+r.p.label(a.ID), "rebuild of a deleted output killed inside the body")
		o = r.build(top.ID, "build", nil, "", "recovery")
		if o.Kind == "build" && o.OK {
			r.checkClean(top.ID)
		}
	})
}

var _ = strings.Join

func init() {
	// an always-target is killed inside its body and then made an ordinary target (its environment is unchanged): the
	// half-written output must not be taken for a finished one
	engScenarios = append(engScenarios, func(r *engRun) {
		s := r.mkSource("")
		a := r.mkTarget("", nil, []int{s}, 1, true, 0)
		top := r.mkTarget("", []int{a.ID}, nil, 1, false, 0)
		r.emitProj("scenario: always-target killed inside its body, then made ordinary")
		r.build(top.ID, "build", nil, "", "scenario")
		r.build(top.ID, "build", nil, "partial|"+r.p.label(a.ID), "killed inside the body of the always-target")
		a.Always = false
		r.emitProj("always removed from the killed target")
		o := r.build(top.ID, "build", nil, "", "recovery")
		if o.Kind == "build" && o.OK {
			r.checkClean(top.ID)
		}
	})
	// a collection while a declared source file is absent from the tree; the file then comes back unchanged
	engScenarios = append(engScenarios, func(r *engRun) {
		s := r.mkSource("")
		a := r.mkTarget("", nil, []int{s}, 1, false, 0)
		top := r.mkTarget("", []int{a.ID}, nil, 1, false, 0)
		r.emitProj("scenario: collection while a declared source is absent")
		r.build(top.ID, "build", nil, "", "scenario")
		path := r.p.Sources[s].Path
		lit := r.litOf[path]
		os.Remove(filepath.Join(r.root, r.p.Paths[path]))
		r.litOf[path] = 0
		r.emitFile(path, 0, "delete source")
		r.gc(false)
		r.revertSource(s, lit)
		o := r.build(top.ID, "build", nil, "", "after the source came back unchanged")
		if o.Kind == "build" && o.OK && len(o.Ran) != 0 {
			r.oracle("C14 a collection changed what the next build executes: %v ran although nothing changed", o.Ran)
		}
		// and a collection of a tree some of whose outputs were deleted
		os.Remove(filepath.Join(r.root, r.p.Paths[a.Gens[0]]))
		r.emitFile(a.Gens[0], 0, "delete output")
		r.gc(false)
		o = r.build(top.ID, "build", nil, "", "after collecting with a deleted output")
		if o.Kind == "build" && o.OK {
			r.checkClean(top.ID)
		}
	})
	// the project is reached through a symbolic link: build, collect, build
	engScenarios = append(engScenarios, func(r *engRun) {
		real := r.root
		link := real + "-lnk"
		if err := os.Symlink(real, link); err != nil {
			return
		}
		r.root = link
		defer func() { r.root = real; os.Remove(link) }()
		s := r.mkSource("")
		a := r.mkTarget("", nil, []int{s}, 1, false, 0)
		top := r.mkTarget("", []int{a.ID}, nil, 1, false, 2)
		r.emitProj("scenario: project root behind a symbolic link")
		r.build(top.ID, "build", nil, "", "scenario")
		r.gc(false)
		o := r.build(top.ID, "build", nil, "", "after a collection through the link")
		if o.Kind == "build" && o.OK && len(o.Ran) != 0 {
			r.oracle("C14 a collection changed what the next build executes: %v ran although nothing changed", o.Ran)
		}
		r.editSource(s)
		r.gc(true)
		o = r.build(top.ID, "build", nil, "", "after an edit and an index-preferring collection")
		if o.Kind == "build" && o.OK {
			r.checkClean(top.ID)
		}
	})
	// one target requested under two spellings in one build: the package-only spelling of a package's default target
	// beside the full one. Whatever a spelling resolves to, no body runs twice.
	engScenarios = append(engScenarios, func(r *engRun) {
		r.p.Pkgs = append(r.p.Pkgs, "p1")
		r.p.Pad["p1"] = 0
		s := r.mkSource("p1")
		d := r.mkTarget("p1", nil, []int{s}, 1, false, 0)
		d.Name = "default"
		left := r.mkTarget("", []int{900}, nil, 1, false, 0)
		right := r.mkTarget("", []int{d.ID}, nil, 1, false, 0)
		top := r.mkTarget("", []int{left.ID, right.ID}, nil, 1, false, 0)
		r.p.Unknown = map[int]string{900: "//p1"}
		r.emitProj("scenario: a default target requested under two spellings")
		r.build(top.ID, "build", nil, "", "scenario")
		r.build(top.ID, "build", nil, "", "again")
		r.build(right.ID, "build", nil, "", "the correctly spelled half")
	})
	// a dry run over a dependency cycle returns its error while a sibling of the cycle is still being evaluated: what
	// the sibling does after Run has returned still belongs to the dry run (no body, no state change)
	engScenarios = append(engScenarios, func(r *engRun) {
		s := r.mkSource("")
		slow := r.mkTarget("", nil, []int{s}, 1, false, 0)
		x := r.mkTarget("", nil, nil, 1, false, 0)
		root := r.mkTarget("", []int{x.ID}, nil, 1, false, 0)
		x.Deps = []int{root.ID, slow.ID}
		self := r.mkTarget("", nil, nil, 1, false, 1)
		self.Deps = []int{self.ID, slow.ID}
		c1 := r.mkTarget("", nil, nil, 1, false, 0)
		c2 := r.mkTarget("", []int{c1.ID}, nil, 1, false, 0)
		c3 := r.mkTarget("", []int{c2.ID, slow.ID}, nil, 1, false, 0)
		c1.Deps = []int{c3.ID}
		r.emitProj("scenario: dry run over a dependency cycle with a sibling still evaluating")
		for _, start := range []int{root.ID, self.ID, c1.ID, c3.ID} {
			_, r.execPos = readLines(filepath.Join(r.root, ".exec.log"), 0)
			r.extraEnv = []string{"VERIF_STRAGGLER=" + r.p.label(slow.ID)}
			rep, _, hung := r.child("dry+straggler", r.p.label(start), nil, "")
			r.extraEnv = nil
			if hung || rep == nil || rep.LoadErr != "" {
				r.oracle("C13 dry run over a cycle from %s: no report (hung=%v)", r.p.label(start), hung)
				continue
			}
			if strings.Contains(rep.RunErr, "straggler never finished") {
				r.oracle("C13 dry run over a cycle from %s: a target was still being evaluated 20s after Run returned", r.p.label(start))
			}
			ran, _ := readLines(filepath.Join(r.root, ".exec.log"), r.execPos)
			if len(ran) != 0 {
				r.oracle("C13 dry run executed bodies %v after Run returned (cycle from %s)", ran, r.p.label(start))
			}
			if rep.HashBefore != rep.HashAfter {
				r.oracle("C13 dry run of %s changed the tree (files or persisted state) after Run returned", r.p.label(start))
			}
		}
	})
}

func init() {
	// the constant a function references is edited through every integer width class of the codec, incl. values that
	// share their low byte(s) with the previous one: each edit must re-execute the target and its dependent
	engScenarios = append(engScenarios, func(r *engRun) {
		s := r.mkSource("")
		a := r.mkTarget("", nil, []int{s}, 1, false, 0)
		b := r.mkTarget("", []int{a.ID}, nil, 1, false, 3)
		r.emitProj("scenario: a referenced constant across the codec's integer width classes")
		r.build(b.ID, "build", nil, "", "scenario")
		for _, k := range []int{1, 255, 256, 300, 556, 812, 65535, 65536, 65580, 65836, 131116, 70000, 16777216 + 70000, 1 << 31, (1 << 31) + 256, 1 << 40} {
			for _, t := range []*engTarget{a, b} {
				old := t.K
				t.K = k + t.ID
				r.emitProj(fmt.Sprintf("constant of %d: %d -> %d", t.ID, old, t.K))
				o := r.build(b.ID, "build", nil, "", "after the constant edit")
				if o.Kind == "build" && o.OK {
					r.checkClean(b.ID)
				}
			}
		}
	})
}

func init() {
	// a collection with several collectable items in each state directory: the records of two removed targets, the record
	// of a removed source, and the temporaries of two killed builds
	engScenarios = append(engScenarios, func(r *engRun) {
		s1, s2 := r.mkSource(""), r.mkSource("")
		a := r.mkTarget("", nil, []int{s1}, 1, false, 0)
		x := r.mkTarget("", nil, []int{s2}, 1, false, 0)
		y := r.mkTarget("", []int{x.ID}, nil, 1, false, 1)
		top := r.mkTarget("", []int{a.ID, y.ID}, nil, 1, false, 0)
		r.emitProj("scenario: a collection with several collectable items per directory")
		r.build(top.ID, "build", nil, "", "scenario")
		for i := 0; i < 2; i++ {
			r.editSource(s1)
			r.editSource(s2)
			r.build(top.ID, "build", nil, "save.written|*|"+strconv.Itoa(5+i), "killed while a record was being written")
		}
		delete(r.p.Targets, x.ID)
		delete(r.p.Targets, y.ID)
		top.Deps = []int{a.ID}
		delete(r.p.Sources, s2)
		r.emitProj("remove two targets and a source")
		r.gc(false)
		o := r.build(top.ID, "build", nil, "", "after the collection")
		if o.Kind == "build" && o.OK {
			r.checkClean(top.ID)
		}
		r.gc(true)
		r.build(top.ID, "build", nil, "", "after an index-preferring collection")
	})
}

func init() {
	// a source DIRECTORY that holds a symbolic link to a file outside it: pointing the link at another file, and editing
	// the file behind it, change what the target reads
	engScenarios = append(engScenarios, func(r *engRun) {
		d := r.addSourceDir("")
		sd := r.p.Sources[d]
		if !sd.Links["l0.c"] {
			r.dirLink(sd, "l0.c", true)
		}
		r.emitDir(sd, "initial")
		a := r.mkTarget("", nil, []int{d}, 1, false, 0)
		top := r.mkTarget("", []int{a.ID}, nil, 1, false, 0)
		r.emitProj("scenario: a symbolic link inside a source directory")
		r.build(top.ID, "build", nil, "", "scenario")
		for _, fresh := range []bool{true, false, true} {
			r.dirLink(sd, "l0.c", fresh)
			if fresh {
				r.emitDir(sd, "link inside a source directory points to another file")
			} else {
				r.emitDir(sd, "edit of the file behind a link inside a source directory")
			}
			o := r.build(top.ID, "build", nil, "", "after the link change")
			if o.Kind == "build" && o.OK {
				r.checkClean(top.ID)
			}
		}
	})
}

func init() {
	// missing dependencies whose labels are near-misses of existing targets (the loader then suggests a name): still one
	// lone failed event for the dependent
	engScenarios = append(engScenarios, func(r *engRun) {
		s := r.mkSource("")
		a := r.mkTarget("", nil, []int{s}, 1, false, 0)
		one := r.mkTarget("", []int{902}, nil, 0, false, 0)
		mix := r.mkTarget("", []int{a.ID, 903}, nil, 0, false, 0)
		top := r.mkTarget("", []int{one.ID}, nil, 0, false, 0)
		r.p.Unknown = map[int]string{902: r.p.label(a.ID) + "x", 903: strings.Replace(r.p.label(one.ID), ":t", ":tt", 1)}
		r.emitProj("scenario: misspelled dependencies")
		for _, id := range []int{one.ID, mix.ID, top.ID} {
			r.build(id, "build", nil, "", "scenario")
		}
		r.build(mix.ID, "dry", nil, "", "scenario")
	})
	// oracle-only scenarios (states the sequential model does not express): (1) the directory that holds a generated file
	// is replaced by a regular file, so the up-to-date check of its generator fails: a dry run of that tree still changes
	// nothing; (2) a body deletes the state directory's temp directory and fails, so the failure cannot be recorded: the
	// target still produces exactly one failed event
	engScenarios = append(engScenarios, func(r *engRun) {
		s := r.mkSource("")
		g := r.mkTarget("", nil, []int{s}, 1, false, 0)
		g.Gens = []int{r.p.newPath("gendir/sub/g.out0")} // an output in a directory of its own (not a package)
		top := r.mkTarget("", []int{g.ID}, nil, 1, false, 0)
		r.emitProj("scenario: faults around the up-to-date check and the failure record")
		r.build(top.ID, "build", nil, "", "scenario")
		// (2) first: the tree is intact
		_, r.execPos = readLines(filepath.Join(r.root, ".exec.log"), 0)
		r.editSource(s)
		r.extraEnv = []string{"VERIF_FAILRM=" + r.p.label(g.ID)}
		rep, _, hung := r.child("build", r.p.label(top.ID), nil, "")
		r.extraEnv = nil
		if hung || rep == nil || rep.LoadErr != "" {
			r.oracle("C18 build with an unrecordable failure: no report (hung=%v)", hung)
		} else {
			ranLines, _ := readLines(filepath.Join(r.root, ".exec.log"), r.execPos)
			var ran []int
			for _, l := range ranLines {
				ran = append(ran, r.labelIDAny(l))
			}
			_, run := r.eventsByLabel(rep)
			r.checkProtocol(run, ran, "build", rep.RunErr, r.p.label(top.ID))
			if rep.RunErr == "" {
				r.oracle("C18 a build whose body failed reported success")
			}
		}
		// to the model this is a build cut short: the source was recorded, the body of g ran (and failed) after its re-run
		// mark, and no further record was written
		recs, _ := r.records()
		r.h.Ops = append(r.h.Ops, mOp{Op: "build", Label: top.ID, Mode: "build", Fail: []int{g.ID}, Note: "failure that cannot be recorded",
			Obs: &mObs{Kind: "crash", Ran: []int{g.ID}, Started: []int{g.ID}, Recorded: []int{s}, Premarked: []int{g.ID}, Recs: recs, Events: map[string][]string{}}})
		r.build(top.ID, "build", nil, "", "recovery")
		// (1) the package directory of the generator becomes a file
		gen := filepath.Join(r.root, r.p.Paths[g.Gens[0]])
		dir := filepath.Dir(gen)
		saved := dir + ".saved"
		if err := os.Rename(dir, saved); err == nil {
			os.WriteFile(dir, []byte("not a directory\n"), 0644)
			rep, _, hung := r.child("dry", r.p.label(top.ID), nil, "")
			if hung || rep == nil {
				r.oracle("C13 dry run with an unreadable output directory: no report (hung=%v)", hung)
			} else if rep.LoadErr == "" && rep.HashBefore != rep.HashAfter {
				r.oracle("C13 dry run of %s changed the tree (files or persisted state) although it only failed to check a target", r.p.label(top.ID))
			}
			os.Remove(dir)
			os.Rename(saved, dir)
			o := r.build(top.ID, "build", nil, "", "after the directory came back")
			if o.Kind == "build" && o.OK && len(o.Ran) != 0 {
				r.oracle("C13 a dry run changed what the next build does: %v ran although the tree is what was built", o.Ran)
			}
		}
	})
}

func init() {
	// two collections in one long-lived process with a Reload between them: build; then, in ONE process, collect, a target
	// and a source are added, Reload, Run, collect again -- the second collection keeps the records of the labels that
	// exist then
	engScenarios = append(engScenarios, func(r *engRun) {
		s := r.mkSource("")
		a := r.mkTarget("", nil, []int{s}, 1, false, 0)
		top := r.mkTarget("", []int{a.ID}, nil, 1, false, 0)
		r.emitProj("scenario: two collections around a Reload in one process")
		r.build(top.ID, "build", nil, "", "scenario")
		// the next state of the tree, rendered aside
		stage, err := os.MkdirTemp(filepath.Dir(r.root), "stage-")
		if err != nil {
			return
		}
		defer os.RemoveAll(stage)
		s2 := r.addSource("")
		lit := r.p.nextLit
		r.p.nextLit++
		r.litOf[r.p.Sources[s2].Path] = lit
		os.WriteFile(filepath.Join(stage, r.p.Paths[r.p.Sources[s2].Path]), []byte(fmt.Sprintf("lit-%d\n", lit)), 0644)
		b := r.mkTarget("", nil, []int{s2}, 1, false, 1)
		top.Deps = []int{a.ID, b.ID}
		if err := r.p.render(stage); err != nil {
			return
		}
		_, r.execPos = readLines(filepath.Join(r.root, ".exec.log"), 0)
		r.extraEnv = []string{"VERIF_STAGE=" + stage}
		rep, _, hung := r.child("gc+reload+run+gc", r.p.label(top.ID), nil, "")
		r.extraEnv = nil
		if hung || rep == nil || rep.LoadErr != "" {
			r.oracle("C14 collect, reload, run, collect in one process: no report (hung=%v)", hung)
			return
		}
		// the same history for the model: gc; the tree changes; build (in process); gc
		r.h.Ops = append(r.h.Ops, mOp{Op: "gc", Obs: &mObs{Kind: "gc-noobs"}})
		r.emitFile(r.p.Sources[s2].Path, lit, "initial")
		r.emitProj("add a target and a source (staged, then Reload)")
		ranLines, _ := readLines(filepath.Join(r.root, ".exec.log"), r.execPos)
		var ran []int
		for _, l := range ranLines {
			ran = append(ran, r.labelIDAny(l))
		}
		sort.Ints(ran)
		by, run := r.eventsByLabel(rep)
		r.checkProtocol(run, ran, "build", rep.RunErr, r.p.label(top.ID))
		r.h.Ops = append(r.h.Ops, mOp{Op: "build", Label: top.ID, Mode: "build", Note: "in process, after Reload", Obs: &mObs{Kind: "skip-recs", OK: rep.RunErr == "", Ran: ran, Events: by}})
		recs, _ := r.records()
		r.h.Ops = append(r.h.Ops, mOp{Op: "gc", Obs: &mObs{Kind: "gc", Recs: recs}})
		liveIDs := map[int]bool{}
		for _, m := range r.p.model() {
			liveIDs[m.ID] = true
		}
		for _, n := range rep.Notes {
			if strings.HasPrefix(n, "removed:") {
				if id := r.recordFileLabel(strings.TrimPrefix(n, "removed:")); liveIDs[id] {
					r.oracle("C14 gc removed the record %s of existing label %d (second collection of one process, after a Reload)", strings.TrimPrefix(n, "removed:"), id)
				}
			}
		}
		// ... and a collection the way `dawn gc` does it -- a fresh process that loads through the INDEX the long-lived
		// process left behind: the index must list the labels that exist since the Reload
		r.gc(true)
		o := r.build(top.ID, "build", nil, "", "fresh process after the collections")
		if o.Kind == "build" && o.OK && len(o.Ran) != 0 {
			r.oracle("C14 a collection changed what the next build executes: %v ran although nothing changed", o.Ran)
		}
	})
}

func init() {
	// the entries of an ordered dict the helper iterates are swapped: an edit of what the function references
	engScenarios = append(engScenarios, func(r *engRun) {
		s := r.mkSource("")
		a := r.mkTarget("", nil, []int{s}, 1, false, 0)
		a.Helper = true // the body calls helper() at run time: the helper and the dict it iterates are in a's environment
		top := r.mkTarget("", []int{a.ID}, nil, 1, false, 3)
		top.Helper = true
		r.emitProj("scenario: reordering the entries of a dict the function reads in order")
		r.build(top.ID, "build", nil, "", "scenario")
		for i := 0; i < 2; i++ {
			r.p.HelperOrder++
			r.emitProj("helper: entries of an ordered dict swapped")
			o := r.build(top.ID, "build", nil, "", "after the swap")
			if o.Kind == "build" && o.OK {
				r.checkClean(top.ID)
			}
		}
	})
	// a kill between the write and the rename of a target's FINAL record (longer than the mark on disk), then builds of
	// another target (whose loads refresh the first one's shorter record) and further loads: the state stays loadable
	engScenarios = append(engScenarios, func(r *engRun) {
		s := r.mkSource("")
		t := r.mkTarget("", nil, []int{s}, 1, false, 1)
		u := r.mkTarget("", nil, []int{s}, 1, false, 0)
		r.emitProj("scenario: a kill between write and rename of a final record, then other builds")
		for _, point := range []string{"save.written", "save.closed"} {
			obs := r.build(t.ID, "build", nil, point+"|"+r.p.label(t.ID)+"|2", "killed while the final record was being put in place")
			if obs.Kind == "crash" || obs.Kind == "crash-load" {
				r.loadAfterCrash(point)
			}
			r.build(u.ID, "build", nil, "", "another target")
			r.loadAfterCrash(point + " (after building another target)")
			o := r.build(t.ID, "build", nil, "", "recovery")
			if o.Kind == "build" && o.OK {
				r.checkClean(t.ID)
			}
			r.editSource(s)
		}
	})
	// a kill inside the index write leaves an empty index; the next thing is an index-preferring collection (as
	// `dawn gc` does), before any full load has rewritten the index
	engScenarios = append(engScenarios, func(r *engRun) {
		s := r.mkSource("")
		a := r.mkTarget("", nil, []int{s}, 1, false, 0)
		top := r.mkTarget("", []int{a.ID}, nil, 1, false, 0)
		r.emitProj("scenario: collection through an index a killed load left empty")
		r.build(top.ID, "build", nil, "", "scenario")
		r.editSource(s)
		obs := r.build(top.ID, "build", nil, "index.created|*|1", "killed inside the index write")
		if obs.Kind == "crash" || obs.Kind == "crash-load" {
			r.gc(true)
		}
		o := r.build(top.ID, "build", nil, "", "after the collection")
		if o.Kind == "build" && o.OK {
			r.checkClean(top.ID)
		}
		o = r.build(top.ID, "build", nil, "", "again")
		if o.Kind == "build" && o.OK && len(o.Ran) != 0 {
			r.oracle("C14 a collection changed what the next build executes: %v ran although nothing changed", o.Ran)
		}
	})
	// labels whose names are prefixes of one another: the shorter ones are removed and collected, the longer ones stay
	engScenarios = append(engScenarios, func(r *engRun) {
		s1, s2 := r.mkSource(""), r.mkSource("")
		docs := r.mkTarget("", nil, []int{s1}, 1, false, 0)
		docs.Name = "docs"
		html := r.mkTarget("", nil, []int{s2}, 1, false, 0)
		html.Name = "docs_html"
		d2 := r.mkTarget("", nil, []int{s2}, 1, false, 1)
		d2.Name = "doc"
		top := r.mkTarget("", []int{docs.ID, html.ID, d2.ID}, nil, 1, false, 0)
		// sources main.c / main.cc
		for _, sid := range []int{s1, s2} {
			_ = sid
		}
		r.emitProj("scenario: labels that are prefixes of one another")
		r.build(top.ID, "build", nil, "", "scenario")
		delete(r.p.Targets, docs.ID)
		delete(r.p.Targets, d2.ID)
		top.Deps = []int{html.ID}
		r.emitProj("remove the targets with the shorter names")
		r.gc(false)
		r.build(top.ID, "build", nil, "", "after the collection")
		r.gc(true)
	})
	// the requested label itself does not exist; and a dry run of a tree one of whose outputs was deleted
	engScenarios = append(engScenarios, func(r *engRun) {
		s := r.mkSource("")
		a := r.mkTarget("", nil, []int{s}, 1, false, 0)
		top := r.mkTarget("", []int{a.ID}, nil, 1, false, 0)
		r.p.Unknown = map[int]string{904: "//:no-such-target", 905: "//nopkg:x"}
		r.emitProj("scenario: unknown requested label; dry run after a deleted output")
		r.build(top.ID, "build", nil, "", "scenario")
		r.build(904, "build", nil, "", "the requested label does not exist")
		r.build(905, "build", nil, "", "the requested package does not exist")
		r.build(904, "dry", nil, "", "dry run of a label that does not exist")
		os.Remove(filepath.Join(r.root, r.p.Paths[a.Gens[0]]))
		r.emitFile(a.Gens[0], 0, "delete output")
		r.dryThenBuild(top.ID)
	})
	// one Project, a preview and then the build with no Reload in between, in a tree where a target is stale only
	// because its dependency was rebuilt on its own earlier
	engScenarios = append(engScenarios, func(r *engRun) {
		s := r.mkSource("")
		lib := r.mkTarget("", nil, []int{s}, 1, false, 0)
		app := r.mkTarget("", []int{lib.ID}, nil, 1, false, 1)
		r.emitProj("scenario: dry run then build in one process without a reload")
		r.build(app.ID, "build", nil, "", "scenario")
		r.editSource(s)
		r.build(lib.ID, "build", nil, "", "the dependency alone")
		lbl := r.p.label(app.ID)
		_, r.execPos = readLines(filepath.Join(r.root, ".exec.log"), 0)
		rep, _, hung := r.child("dry+run", lbl, nil, "")
		if hung || rep == nil || rep.LoadErr != "" {
			r.oracle("C13 dry run then build in one process: no report (hung=%v)", hung)
			return
		}
		if strings.Contains(rep.RunErr, "dry run changed the tree") {
			r.oracle("C13 dry run of %s changed the tree (files or persisted state)", lbl)
		}
		ranLines, _ := readLines(filepath.Join(r.root, ".exec.log"), r.execPos)
		var ran []int
		for _, l := range ranLines {
			ran = append(ran, r.labelIDAny(l))
		}
		sort.Ints(ran)
		by, run := r.eventsByLabel(rep) // events of the second run (after the marker)
		r.checkProtocol(run, ran, "build", rep.RunErr, lbl)
		recs, _ := r.records()
		r.h.Ops = append(r.h.Ops, mOp{Op: "build", Label: app.ID, Mode: "build", Note: "in process, after a dry run, no reload",
			Obs: &mObs{Kind: "build", OK: rep.RunErr == "", Ran: ran, Events: by, Recs: recs}})
		if len(ran) == 0 {
			r.oracle("C13 a dry run changed what the next build does: after a preview in the same process the stale target %s was not executed", lbl)
		}
		o := r.build(app.ID, "build", nil, "", "fresh process afterwards")
		if o.Kind == "build" && o.OK {
			r.checkClean(app.ID)
		}
	})
}

func init() {
	// a record write that FAILS while the process lives on (disk full, quota, file-size limit): once on the re-run mark
	// written before the body, once on the final record.  "The persisted build state stays loadable", and what was not
	// recorded is executed again.  To the model each is a build cut short at that save.
	engScenarios = append(engScenarios, func(r *engRun) {
		s := r.mkSource("")
		g := r.mkTarget("", nil, []int{s}, 1, false, 0)
		top := r.mkTarget("", []int{g.ID}, nil, 1, false, 0)
		r.emitProj("scenario: a record write that fails while the process lives on")
		r.build(top.ID, "build", nil, "", "scenario")
		// the saves of g's record in one process: the refresh at load time, the re-run mark before the body, the final record
		for nth := 1; nth <= 3; nth++ {
			_, r.execPos = readLines(filepath.Join(r.root, ".exec.log"), 0)
			r.editSource(s)
			r.extraEnv = []string{"VERIF_WRITEFAULT=" + r.p.label(g.ID) + "|" + strconv.Itoa(nth)}
			rep, _, hung := r.child("build", r.p.label(top.ID), nil, "")
			r.extraEnv = nil
			if hung || rep == nil {
				r.oracle("C03 build in which write number %d of the record of %s fails: no report (hung=%v)", nth, r.p.label(g.ID), hung)
				return
			}
			armed := false
			for _, n := range rep.Notes {
				armed = armed || strings.HasPrefix(n, "write-fault-armed:")
			}
			if !armed {
				// fewer saves than that, or no file-size limits on this machine: nothing was injected, and nothing is claimed
				// about this build
				return
			}
			ranLines, _ := readLines(filepath.Join(r.root, ".exec.log"), r.execPos)
			var ran []int
			gRan := false
			for _, l := range ranLines {
				ran = append(ran, r.labelIDAny(l))
				gRan = gRan || r.labelIDAny(l) == g.ID
			}
			what := "re-run mark"
			switch {
			case rep.LoadErr != "":
				what = "record refreshed at load time"
			case gRan:
				what = "final record"
			}
			r.loadAfter(fmt.Sprintf("a build in which the write of the %s of %s failed (file-size limit; the process went on)", what, r.p.label(g.ID)))
			if rep.LoadErr == "" {
				if rep.RunErr == "" {
					r.oracle("C03 a build in which the %s of %s could not be written reported success", what, r.p.label(g.ID))
				}
				recs, _ := r.records()
				var started, premarked []int
				if gRan {
					started, premarked = []int{g.ID}, []int{g.ID}
				}
				r.h.Ops = append(r.h.Ops, mOp{Op: "build", Label: top.ID, Mode: "build", Note: "the write of the " + what + " failed",
					Obs: &mObs{Kind: "crash", Ran: ran, Started: started, Recorded: []int{s}, Premarked: premarked, Recs: recs, Events: map[string][]string{}}})
			}
			r.build(top.ID, "build", nil, "", "recovery")
		}
	})
}
