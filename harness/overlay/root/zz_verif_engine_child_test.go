package dawn

// Engine harness, child half: one process = one fresh load (+ one run / gc), exactly as the CLI does.
// Selected by VERIF_CHILD=1; reads its instructions from the environment, writes a JSON report.

import (
	"crypto/sha256"
	"encoding/hex"
	"encoding/json"
	"fmt"
	"io/fs"
	"os"
	"os/signal"
	"path/filepath"
	"sort"
	"strconv"
	"strings"
	"sync"
	"syscall"
	"testing"
	"time"

	"github.com/pgavlin/dawn/diff"
	"github.com/pgavlin/dawn/internal/verifhook"
	"github.com/pgavlin/dawn/label"
	starlark_os "github.com/pgavlin/dawn/lib/os"
	starlark_sh "github.com/pgavlin/dawn/lib/sh"
	starlark_json "go.starlark.net/lib/json"
	"go.starlark.net/starlark"
)

type engEvent struct {
	Kind  string `json:"k"`
	Label string `json:"l,omitempty"`
	Text  string `json:"t,omitempty"`
}

type engRecorder struct {
	m      sync.Mutex
	events []engEvent
}

func (r *engRecorder) add(kind string, l *label.Label, text string) {
	r.m.Lock()
	defer r.m.Unlock()
	s := ""
	if l != nil {
		s = l.String()
	}
	r.events = append(r.events, engEvent{Kind: kind, Label: s, Text: text})
}

func (r *engRecorder) Print(l *label.Label, line string)                       { r.add("Print", l, line) }
func (r *engRecorder) RequirementLoading(l *label.Label, version string)       {}
func (r *engRecorder) RequirementLoaded(l *label.Label, version string)        {}
func (r *engRecorder) RequirementLoadFailed(l *label.Label, v string, e error) {}
func (r *engRecorder) ModuleLoading(l *label.Label)                            { r.add("ModuleLoading", l, "") }
func (r *engRecorder) ModuleLoaded(l *label.Label)                             { r.add("ModuleLoaded", l, "") }
func (r *engRecorder) ModuleLoadFailed(l *label.Label, err error) {
	r.add("ModuleLoadFailed", l, err.Error())
}
func (r *engRecorder) LoadDone(err error)            { r.add("LoadDone", nil, errText(err)) }
func (r *engRecorder) TargetUpToDate(l *label.Label) { r.add("UpToDate", l, "") }
func (r *engRecorder) TargetEvaluating(l *label.Label, reason string, d diff.ValueDiff) {
	r.add("Evaluating", l, reason)
}
func (r *engRecorder) TargetFailed(l *label.Label, err error) { r.add("Failed", l, errText(err)) }
func (r *engRecorder) TargetSucceeded(l *label.Label, changed bool) {
	r.add("Succeeded", l, strconv.FormatBool(changed))
}
func (r *engRecorder) RunDone(err error)          { r.add("RunDone", nil, errText(err)) }
func (r *engRecorder) FileChanged(l *label.Label) {}

func errText(err error) string {
	if err == nil {
		return ""
	}
	return err.Error()
}

type engReport struct {
	LoadErr    string     `json:"load_err"`
	RunErr     string     `json:"run_err"`
	Ran        bool       `json:"ran"`
	Events     []engEvent `json:"events"`
	HashBefore string     `json:"hash_before"`
	HashAfter  string     `json:"hash_after"`
	Targets    []string   `json:"targets"`
	Flags      []string   `json:"flags"`
	Notes      []string   `json:"notes"`
}

// treeHash hashes every file (path, mode bits that matter, content) under root.
func treeHash(root string) string {
	h := sha256.New()
	filepath.WalkDir(root, func(p string, d fs.DirEntry, err error) error {
		if err != nil {
			return nil
		}
		rel, _ := filepath.Rel(root, p)
		if rel == ".exec.log" || rel == ".hooks.log" {
			return nil
		}
		if d.IsDir() {
			fmt.Fprintf(h, "D %s\n", rel)
			return nil
		}
		b, _ := os.ReadFile(p)
		fmt.Fprintf(h, "F %s %d\n", rel, len(b))
		h.Write(b)
		return nil
	})
	return hex.EncodeToString(h.Sum(nil))
}

var wfNotes []string

func TestVerifEngineChild(t *testing.T) {
	if os.Getenv("VERIF_CHILD") != "1" {
		t.Skip("not a child")
	}
	root := os.Getenv("VERIF_ROOT")
	mode := os.Getenv("VERIF_MODE") // build | dry | always | gc | gcindex | load
	rawLabel := os.Getenv("VERIF_LABEL")
	reportPath := os.Getenv("VERIF_REPORT")
	os.Setenv("HOME", filepath.Join(root, ".home"))

	// hook log + crash injection
	hookLog, _ := os.OpenFile(filepath.Join(root, ".hooks.log"), os.O_CREATE|os.O_WRONLY|os.O_APPEND, 0644)
	var hm sync.Mutex
	crash := strings.Split(os.Getenv("VERIF_CRASH"), "|") // point|label|nth
	seen := 0
	// a straggler: this target is held after it was loaded until the Run call has returned (mode dry+straggler)
	straggler := os.Getenv("VERIF_STRAGGLER")
	release, held, finished := make(chan struct{}), make(chan struct{}), make(chan struct{})
	var heldOnce, finOnce sync.Once
	// a record write that FAILS while the process lives on: from the nth "save.created" of a label until the next hook
	// point the file-size limit of the process is a few bytes, so the write of that record's temporary file is cut
	// short with EFBIG (the shape of ENOSPC / EDQUOT / EIO); VERIF_WRITEFAULT=label|nth
	wfault := strings.Split(os.Getenv("VERIF_WRITEFAULT"), "|")
	var wfm sync.Mutex
	wfSeen, wfOn := 0, false
	var wfSaved syscall.Rlimit
	if len(wfault) == 2 {
		signal.Ignore(syscall.SIGXFSZ)
	}
	wfRestore := func() {
		wfm.Lock()
		if wfOn {
			syscall.Setrlimit(syscall.RLIMIT_FSIZE, &wfSaved)
			wfOn = false
		}
		wfm.Unlock()
	}
	verifhook.SetHandler(func(point string, args ...any) {
		if len(wfault) == 2 {
			// the limit ends at the next hook point of the SAME label (save.written when the write went through,
			// run.finished when it failed and the target with it); hook points of other goroutines (module loading,
			// other targets) must not end it early.  A load that fails has no further hook point: wfRestore() below.
			if len(args) > 0 && fmt.Sprint(args[0]) == wfault[0] {
				wfRestore()
			}
			defer func() {
				// after this hook's own log line has been written
				if point == "save.created" && len(args) > 0 && fmt.Sprint(args[0]) == wfault[0] {
					wfm.Lock()
					wfSeen++
					if n, _ := strconv.Atoi(wfault[1]); wfSeen == n && syscall.Getrlimit(syscall.RLIMIT_FSIZE, &wfSaved) == nil {
						lim := syscall.Rlimit{Cur: 24, Max: wfSaved.Max}
						if syscall.Setrlimit(syscall.RLIMIT_FSIZE, &lim) == nil {
							wfOn = true
							rep0 := "write-fault-armed:" + wfault[0]
							wfNotes = append(wfNotes, rep0)
						}
					}
					wfm.Unlock()
				}
			}()
		}
		if straggler != "" && len(args) > 0 && fmt.Sprint(args[0]) == straggler {
			switch point {
			case "run.loaded":
				heldOnce.Do(func() { close(held) })
				select {
				case <-release:
				case <-time.After(1500 * time.Millisecond):
					// Run is itself waiting for this target (the cycle was noticed by a target that goes on to wait
					// for its other dependencies): nothing to observe in this interleaving
				}
			case "run.finished":
				finOnce.Do(func() { close(finished) })
			}
		}
		if !(strings.HasPrefix(point, "eval.") || strings.HasPrefix(point, "save.") || strings.HasPrefix(point, "index.") || point == "phase") {
			return
		}
		hm.Lock()
		defer hm.Unlock()
		parts := []string{point}
		for _, a := range args {
			parts = append(parts, fmt.Sprint(a))
		}
		hookLog.WriteString(strings.Join(parts, "\t") + "\n")
		if len(crash) == 3 && crash[0] == point && (crash[1] == "*" || (len(args) > 0 && fmt.Sprint(args[0]) == crash[1])) {
			seen++
			if n, _ := strconv.Atoi(crash[2]); seen == n {
				hookLog.WriteString("CRASH\n")
				os.Exit(137)
			}
		}
	})

	rec := &engRecorder{}
	rep := engReport{}
	write := func() {
		rec.m.Lock()
		rep.Events = rec.events
		rec.m.Unlock()
		b, _ := json.Marshal(rep)
		os.WriteFile(reportPath, b, 0644)
	}

	verifhook.At("phase", "load")
	proj, err := Load(root, &LoadOptions{
		Events:      rec,
		Builtins:    starlark.StringDict{"os": starlark_os.Module, "sh": starlark_sh.Module, "json": starlark_json.Module},
		PreferIndex: mode == "gcindex" || mode == "loadindex",
	})
	wfRestore()
	if err != nil {
		rep.LoadErr = err.Error()
		rep.Notes = append(rep.Notes, wfNotes...)
		write()
		return
	}
	for _, tg := range proj.Targets() {
		rep.Targets = append(rep.Targets, tg.Label().String())
	}
	sort.Strings(rep.Targets)
	for _, f := range proj.Flags() {
		rep.Flags = append(rep.Flags, f.Name)
	}
	sort.Strings(rep.Flags)

	verifhook.At("phase", "run")
	switch mode {
	case "load", "loadindex":
	case "gc", "gcindex":
		if err := proj.GC(); err != nil {
			rep.RunErr = err.Error()
		}
		rep.Ran = true
	case "gc+reload+run+gc":
		// one long-lived Project: collect, the tree changes (staged files are copied in), Reload, Run, collect again.
		// The second collection works on the labels that exist THEN.
		l, err := label.Parse(rawLabel)
		if err != nil {
			rep.RunErr = "bad label: " + err.Error()
			break
		}
		if err := proj.GC(); err != nil {
			rep.RunErr = "first gc: " + err.Error()
			break
		}
		stage := os.Getenv("VERIF_STAGE")
		filepath.WalkDir(stage, func(p string, d fs.DirEntry, err error) error {
			if err != nil || d.IsDir() {
				return nil
			}
			rel, _ := filepath.Rel(stage, p)
			b, _ := os.ReadFile(p)
			os.MkdirAll(filepath.Dir(filepath.Join(root, rel)), 0755)
			os.WriteFile(filepath.Join(root, rel), b, 0644)
			return nil
		})
		if err := proj.Reload(); err != nil {
			rep.LoadErr = "reload: " + err.Error()
			break
		}
		rep.Targets = nil
		for _, tg := range proj.Targets() {
			rep.Targets = append(rep.Targets, tg.Label().String())
		}
		sort.Strings(rep.Targets)
		rep.RunErr = errText(proj.Run(l, nil))
		before := readRecordFiles(root)
		if err := proj.GC(); err != nil {
			rep.RunErr += " | second gc: " + err.Error()
		}
		after := readRecordFiles(root)
		for name := range before {
			if _, ok := after[name]; !ok {
				rep.Notes = append(rep.Notes, "removed:"+name)
			}
		}
		sort.Strings(rep.Notes)
		rep.Ran = true
	case "session":
		// several runs on this one Project, edits in between, no fresh load (zz_verif_engine5_test.go)
		if msg := sessionChild(proj, root, rec); msg != "" {
			rep.RunErr = msg
		}
		rep.Ran = true
	case "dry+straggler":
		// a dry run whose Run call returns (with an error) while another target is still being evaluated: whatever that
		// target does afterwards still belongs to the dry run
		l, err := label.Parse(rawLabel)
		if err != nil {
			rep.RunErr = "bad label: " + err.Error()
			break
		}
		rep.HashBefore = treeHash(root)
		err = proj.Run(l, &RunOptions{DryRun: true})
		rep.RunErr = errText(err)
		close(release)
		select {
		case <-held:
			select {
			case <-finished:
				rep.Notes = append(rep.Notes, "straggler-finished-after-run-returned")
			case <-time.After(20 * time.Second):
				rep.RunErr += " | straggler never finished"
			}
		default:
			rep.Notes = append(rep.Notes, "straggler-not-held")
		}
		time.Sleep(100 * time.Millisecond)
		rep.HashAfter = treeHash(root)
		rep.Ran = true
	case "dry+run":
		// one Project, no Reload in between: a preview and then the build (what the REPL does with run(x, dry_run=True)
		// followed by run(x))
		l, err := label.Parse(rawLabel)
		if err != nil {
			rep.RunErr = "bad label: " + err.Error()
			break
		}
		rep.HashBefore = treeHash(root)
		proj.Run(l, &RunOptions{DryRun: true})
		rep.HashAfter = treeHash(root)
		if rep.HashBefore != rep.HashAfter {
			rep.RunErr = "dry run changed the tree"
		}
		rec.add("LoadDone", nil, "") // marks the start of the second run for the parent's event parser
		err = proj.Run(l, &RunOptions{})
		if rep.RunErr == "" {
			rep.RunErr = errText(err)
		}
		rep.Ran = true
	case "dry+reload+run":
		l, err := label.Parse(rawLabel)
		if err != nil {
			rep.RunErr = "bad label: " + err.Error()
			break
		}
		rep.HashBefore = treeHash(root)
		proj.Run(l, &RunOptions{DryRun: true})
		rep.HashAfter = treeHash(root)
		if rep.HashBefore != rep.HashAfter {
			rep.RunErr = "dry run changed the tree"
		}
		if err := proj.Reload(); err != nil {
			rep.LoadErr = "reload: " + err.Error()
			break
		}
		err = proj.Run(l, nil) // nil options, as Project.Watch does after a reload
		if rep.RunErr == "" {
			rep.RunErr = errText(err)
		}
		rep.Ran = true
	default:
		l, err := label.Parse(rawLabel)
		if err != nil {
			rep.RunErr = "bad label: " + err.Error()
			break
		}
		rep.HashBefore = treeHash(root)
		err = proj.Run(l, &RunOptions{Always: mode == "always", DryRun: mode == "dry"})
		rep.HashAfter = treeHash(root)
		rep.RunErr = errText(err)
		rep.Ran = true
	}
	wfRestore()
	verifhook.At("phase", "done")
	rep.Notes = append(rep.Notes, wfNotes...)
	write()
}
