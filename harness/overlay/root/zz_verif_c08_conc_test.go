package dawn

// C08 harness, part 3: the fingerprint of a target is a function of the project text alone -- "for all schedules".  The
// runner evaluates independent targets on separate goroutines, each of which computes functionEnv and stamp(); so the
// fingerprint of one target must not depend on which other targets are being fingerprinted at the same moment.
//
// One project with K independent targets, each referencing one value of EVERY kind the codec has a case for (floats,
// ints of every width, big ints, strings short and long, bytes, list, tuple, dict, set, a recursive helper, a closure,
// defaults), all values different per target.  Reference: every target fingerprinted alone, one after the other.
//
//	schedules (controlled)   target A is pickled -- same encoder, same pickler as stamp()/functionEnv() -- into a
//	                         destination that is descheduled inside EVERY write, before it has consumed the bytes, while
//	                         another goroutine fingerprints target B (stamp + functionEnv) from start to finish.  That is
//	                         every interleaving "B runs entirely between two steps of A" at the granularity of writes;
//	                         A's bytes, B's stamp and B's environment must be the ones computed alone.
//	schedules (free)         G goroutines fingerprint all targets over and over, each in its own order.
//	schedules (the engine's) the real runner builds a target that depends on all K (its own goroutines and gate), then
//	                         the records it persisted must carry the stamps computed alone and a fresh Load of the same
//	                         text must find every target up to date.
//
// Run as a child of TestVerifC08 (VERIF_C08_CHILD=conc); the check also runs it under the race detector.

import (
	"bytes"
	"encoding/base64"
	"fmt"
	"math/rand"
	"os"
	"path/filepath"
	"strconv"
	"strings"
	"sync"
	"testing"
	"time"

	"github.com/pgavlin/dawn/label"
	starlark_os "github.com/pgavlin/dawn/lib/os"
	starlark_sh "github.com/pgavlin/dawn/lib/sh"
	"github.com/pgavlin/dawn/pickle"
	starlark_json "go.starlark.net/lib/json"
	"go.starlark.net/starlark"
)

func c08ConcText(k int, rng *rand.Rand) string {
	var b strings.Builder
	var deps []string
	for i := 0; i < k; i++ {
		r := rng.Intn(1000)
		fmt.Fprintf(&b, "F_%d = %d.5\nG_%d = -%d.25e10\n", i, i*7+r, i, i+1)
		fmt.Fprintf(&b, "I1_%d = %d\nI2_%d = %d\nI4_%d = %d\nNEG_%d = -%d\nBIG_%d = (1 << 70) + %d\n", i, i+1, i, 300+i, i, 70000+i+r, i, i+1, i, i+r)
		fmt.Fprintf(&b, "S_%d = \"s-%d\"\nLS_%d = \"%s-%d\"\nB_%d = b\"by-%d\"\n", i, i, i, strings.Repeat("x", 300), i, i, i)
		fmt.Fprintf(&b, "L_%d = [%d, %d.75, \"l-%d\", [%d]]\nT_%d = (%d, %d.125, \"t\", %d, %d)\n", i, i, i, i, i, i, i, i, i, i+1)
		fmt.Fprintf(&b, "D_%d = {\"k-%d\": %d.5, %d: \"v\"}\nSET_%d = set([%d, \"e-%d\"])\n", i, i, i+100, i, i, i, i)
		fmt.Fprintf(&b, "def h_%d(n):\n    return n if n <= 0 else h_%d(n - 1) + F_%d\n\n", i, i, i)
		fmt.Fprintf(&b, "def mk_%d(c):\n    def inner():\n        return (c, G_%d)\n    return inner\n\nC_%d = mk_%d(%d.375)\n\n", i, i, i, i, i)
		fmt.Fprintf(&b, "@target()\ndef t_%d(self, d=%d.625, e=[%d]):\n    print(F_%d, I1_%d, I2_%d, I4_%d, NEG_%d, BIG_%d, S_%d, LS_%d, B_%d, L_%d, T_%d, D_%d, SET_%d, h_%d(2), C_%d(), d, e, None, True)\n\n",
			i, i, i, i, i, i, i, i, i, i, i, i, i, i, i, i, i, i)
		deps = append(deps, fmt.Sprintf("\":t_%d\"", i))
	}
	fmt.Fprintf(&b, "@target(deps=[%s])\ndef all():\n    pass\n", strings.Join(deps, ", "))
	return b.String()
}

// c08YieldWriter hands the processor to `other` inside every write (or inside write number `at` only), before the
// bytes are consumed -- what a slow or blocked destination does.
type c08YieldWriter struct {
	buf   bytes.Buffer
	n     int
	at    int
	other func(write int)
}

func (w *c08YieldWriter) Write(p []byte) (int, error) {
	if w.at < 0 || w.at == w.n {
		done := make(chan struct{})
		go func() {
			defer close(done)
			w.other(w.n)
		}()
		<-done
	}
	w.n++
	return w.buf.Write(p)
}

type c08ConcRef struct {
	f     *function
	name  string
	raw   []byte
	stamp string
	env   starlark.Value
}

func c08ConcLoad(root string) (*Project, []*c08ConcRef, error) {
	proj, err := Load(root, &LoadOptions{Builtins: starlark.StringDict{"os": starlark_os.Module, "sh": starlark_sh.Module, "json": starlark_json.Module}})
	if err != nil {
		return nil, nil, err
	}
	var refs []*c08ConcRef
	for _, tg := range proj.Targets() {
		f, ok := tg.(*function)
		if !ok || !strings.HasPrefix(f.label.Name, "t_") {
			continue
		}
		refs = append(refs, &c08ConcRef{f: f, name: f.label.String()})
	}
	return proj, refs, nil
}

func TestVerifC08Conc(t *testing.T) {
	if os.Getenv("VERIF_C08_CHILD") != "conc" {
		t.Skip("not the concurrency child")
	}
	outf, err := os.Create(os.Getenv("VERIF_REPORT"))
	if err != nil {
		t.Fatal(err)
	}
	defer outf.Close()
	var outm sync.Mutex
	line := func(parts ...string) {
		outm.Lock()
		outf.WriteString(strings.Join(parts, "\t") + "\n")
		outm.Unlock()
	}
	seed, _ := strconv.ParseInt(os.Getenv("VERIF_SEED"), 10, 64)
	rng := rand.New(rand.NewSource(seed*104729 + 5))
	thorough := os.Getenv("VERIF_C08_THOROUGH") == "1"
	root := os.Getenv("VERIF_ROOT")
	os.Setenv("HOME", filepath.Join(root, ".home"))
	os.MkdirAll(filepath.Join(root, ".home"), 0755)
	os.WriteFile(filepath.Join(root, "dawn.toml"), nil, 0644)
	k := 6
	if thorough {
		k = 12
	}
	text := c08ConcText(k, rng)
	os.WriteFile(filepath.Join(root, "BUILD.dawn"), []byte(text), 0644)
	line("text", "concurrent", base64.StdEncoding.EncodeToString([]byte(text)))

	proj, refs, err := c08ConcLoad(root)
	if err != nil || len(refs) != k {
		line("ORACLE", "terminates", "concurrent", fmt.Sprintf("load: %v (%d targets)", err, len(refs)))
		return
	}
	_ = proj
	// reference: alone, one after the other
	for _, r := range refs {
		var buf bytes.Buffer
		if err := pickle.NewEncoder(&buf, newEnvPickler()).Encode(r.f.function); err != nil {
			line("ORACLE", "terminates", "concurrent/"+r.name, "encode: "+err.Error())
			return
		}
		r.raw = append([]byte{}, buf.Bytes()...)
		if r.stamp, err = r.f.stamp(); err != nil {
			line("ORACLE", "terminates", "concurrent/"+r.name, "stamp: "+err.Error())
			return
		}
		if r.env, err = functionEnv(r.f.function); err != nil {
			line("ORACLE", "terminates", "concurrent/"+r.name, "functionEnv: "+err.Error())
			return
		}
		if base64.StdEncoding.EncodeToString(r.raw) != r.stamp {
			line("ORACLE", "harness", "concurrent/"+r.name, "stamp() is not the base64 of the pickle made with newEnvPickler")
			return
		}
	}
	sameEnv := func(a, b starlark.Value) bool {
		eq, err := starlark.EqualDepth(a, b, 1000)
		return err == nil && eq
	}

	// (1) controlled schedules: B entirely inside every write of A
	for i, a := range refs {
		var partners []*c08ConcRef
		if thorough {
			for j, b := range refs {
				if j != i {
					partners = append(partners, b)
				}
			}
		} else {
			partners = []*c08ConcRef{refs[(i+1)%k], refs[(i+1+rng.Intn(k-1))%k]}
		}
		for _, b := range partners {
			if b == a {
				continue
			}
			badOther := ""
			w := &c08YieldWriter{at: -1}
			w.other = func(write int) {
				s, err := b.f.stamp()
				if (err != nil || s != b.stamp) && badOther == "" {
					badOther = fmt.Sprintf("stamp of %s computed inside write %d of %s differs from the one computed alone (err=%v)", b.name, write, a.name, err)
				}
				e, err := functionEnv(b.f.function)
				if (err != nil || !sameEnv(e, b.env)) && badOther == "" {
					badOther = fmt.Sprintf("environment of %s computed inside write %d of %s differs from the one computed alone (err=%v)", b.name, write, a.name, err)
				}
			}
			err := pickle.NewEncoder(w, newEnvPickler()).Encode(a.f.function)
			ok := err == nil && bytes.Equal(w.buf.Bytes(), a.raw) && badOther == ""
			sched := fmt.Sprintf("%s fingerprinted inside each of the %d writes of %s", b.name, w.n, a.name)
			line("case", "concurrent/"+a.name, sched, "true", strconv.FormatBool(ok))
			if err != nil {
				line("ORACLE", "schedule", "concurrent/"+a.name+"/"+sched, "encode: "+err.Error())
			} else if !bytes.Equal(w.buf.Bytes(), a.raw) {
				got := w.buf.Bytes()
				at := 0
				for at < len(got) && at < len(a.raw) && got[at] == a.raw[at] {
					at++
				}
				hi := at + 12
				lo := at - 12
				if lo < 0 {
					lo = 0
				}
				cut := func(x []byte) string {
					h := hi
					if h > len(x) {
						h = len(x)
					}
					if lo > h {
						return ""
					}
					return fmt.Sprintf("%q", x[lo:h])
				}
				line("ORACLE", "schedule", "concurrent/"+a.name+"/"+sched,
					fmt.Sprintf("the pickled environment of %s depends on the concurrent fingerprinting of %s: first difference at byte %d, alone %s, interleaved %s", a.name, b.name, at, cut(a.raw), cut(got)))
			} else if badOther != "" {
				line("ORACLE", "schedule", "concurrent/"+a.name+"/"+sched, badOther)
			}
		}
	}

	// (2) free schedules: one goroutine per target, each fingerprinting its own target over and over, all at once (as in
	// the runner, no target is fingerprinted by two goroutines at a time, and the targets share no mutable value)
	g, rounds := k, 60
	if thorough {
		rounds = 300
	}
	var wg sync.WaitGroup
	var badm sync.Mutex
	bad := map[string]string{}
	deadline := time.Now().Add(5 * time.Second)
	start := make(chan struct{})
	for gi := 0; gi < g; gi++ {
		wg.Add(1)
		go func(ref *c08ConcRef) {
			defer wg.Done()
			<-start
			for r := 0; r < rounds && time.Now().Before(deadline); r++ {
				s, err := ref.f.stamp()
				msg := ""
				if err != nil || s != ref.stamp {
					msg = fmt.Sprintf("stamp computed while %d other goroutines fingerprint other targets differs from the one computed alone (err=%v)", g-1, err)
				} else if r%4 == 0 {
					if e, err := functionEnv(ref.f.function); err != nil || !sameEnv(e, ref.env) {
						msg = fmt.Sprintf("environment computed while %d other goroutines fingerprint other targets differs from the one computed alone (err=%v)", g-1, err)
					}
				}
				if msg != "" {
					badm.Lock()
					if _, ok := bad[ref.name]; !ok {
						bad[ref.name] = msg
					}
					badm.Unlock()
				}
			}
		}(refs[gi])
	}
	close(start)
	wg.Wait()
	for _, r := range refs {
		sched := fmt.Sprintf("%d goroutines (one per target) x %d rounds", g, rounds)
		_, isBad := bad[r.name]
		line("case", "concurrent/"+r.name, sched, "true", strconv.FormatBool(!isBad))
		if isBad {
			line("ORACLE", "schedule", "concurrent/"+r.name+"/"+sched, bad[r.name])
		}
	}

	// (3) the engine's own schedules: the runner builds //:all, whose K dependencies are independent
	runs := 3
	if thorough {
		runs = 10
	}
	all, _ := label.Parse("//:all")
	for run := 0; run < runs; run++ {
		os.RemoveAll(filepath.Join(root, ".dawn"))
		p1, _, err := c08ConcLoad(root)
		if err != nil {
			line("ORACLE", "terminates", "concurrent/run", "load: "+err.Error())
			break
		}
		if err := p1.Run(all, nil); err != nil {
			line("ORACLE", "terminates", "concurrent/run", "run //:all: "+err.Error())
			break
		}
		p2, refs2, err := c08ConcLoad(root)
		if err != nil {
			line("ORACLE", "terminates", "concurrent/run", "second load: "+err.Error())
			break
		}
		_ = p2
		for _, r2 := range refs2 {
			var ref *c08ConcRef
			for _, r := range refs {
				if r.name == r2.name {
					ref = r
				}
			}
			if ref == nil {
				continue
			}
			sched := fmt.Sprintf("runner build %d of //:all (%d independent dependencies)", run, k)
			okRec := r2.f.targetInfo.Data == ref.stamp
			up, reason, _, err := r2.f.upToDate()
			ok := okRec && err == nil && up
			line("case", "concurrent/"+r2.name, sched, "true", strconv.FormatBool(ok))
			if !okRec {
				line("ORACLE", "schedule", "concurrent/"+r2.name+"/"+sched, "the fingerprint the runner recorded differs from the fingerprint of the same text computed alone")
			} else if !ok {
				line("ORACLE", "schedule", "concurrent/"+r2.name+"/"+sched, fmt.Sprintf("a fresh load of the identical text finds the target out of date: %s (err=%v)", reason, err))
			}
		}
	}
	line("concdone", strconv.Itoa(k))
}
