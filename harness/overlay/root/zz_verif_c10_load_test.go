package dawn

// C10 harness, third family: the build list as the PROJECT resolves it.  Load -> loadConfig -> loadConfigFile ->
// mvs.BuildList -> Project.buildList is the list every label into another project is resolved with
// (module_fetch.go); the other two families call mvs.BuildList themselves and never pass through it.
//
// The inputs are the cases of the second family (internal/mvs/zz_verif_c10_cache_test.go): for each exported case
// the complete download cache that the real resolver filled from the generated repositories, the root requirement
// set and the reference build list (reachability/max on the generated tables).  The cache becomes
// $HOME/.dawn/modules/cache, the root requirements a project's dawn.toml / .dawnconfig, and the project is loaded
// (or its dawn.toml next to a left-over .dawnconfig with other requirements), and the project is loaded with the
// package's own Load:
//
//   - intact cache: Load succeeds and Project.buildList is the reference;
//   - states of the cache in which the requirement graph cannot be walked -- an entry whose configuration file is
//     torn (every kind of prefix dawn's parser rejects), is not a configuration, is gone; an entry that is a file; an
//     entry that is missing while its repository cannot be reached (the machine is offline) --: Load fails, or it
//     answers with the reference.  An answer that is not the minimal-version-selection solution is never acceptable.

import (
	"bufio"
	"encoding/json"
	"fmt"
	"math/rand"
	"os"
	"path/filepath"
	"sort"
	"strconv"
	"strings"
	"testing"
	"time"

	"github.com/mitchellh/go-homedir"
	"github.com/pgavlin/dawn/internal/project"
)

type c10lCase struct {
	Case int         `json:"case"`
	U    int         `json:"u"`
	Root [][3]string `json:"root"`
	Want [][2]string `json:"want"`
}

type c10lResult struct {
	St string      `json:"st"` // ok | err | panic | hang
	M  [][2]string `json:"m"`
}

func c10lLoad(root string) (c10lResult, string) {
	type res struct {
		r   c10lResult
		msg string
	}
	ch := make(chan res, 1)
	go func() {
		defer func() {
			if x := recover(); x != nil {
				ch <- res{c10lResult{St: "panic", M: [][2]string{}}, fmt.Sprint(x)}
			}
		}()
		proj, err := Load(root, &LoadOptions{})
		if err != nil {
			ch <- res{c10lResult{St: "err", M: [][2]string{}}, err.Error()}
			return
		}
		keys := make([]string, 0, len(proj.buildList))
		for k := range proj.buildList {
			keys = append(keys, k)
		}
		sort.Strings(keys)
		m := make([][2]string, 0, len(keys))
		for _, k := range keys {
			m = append(m, [2]string{k, proj.buildList[k]})
		}
		ch <- res{c10lResult{St: "ok", M: m}, ""}
	}()
	select {
	case r := <-ch:
		return r.r, r.msg
	case <-time.After(30 * time.Second):
		return c10lResult{St: "hang", M: [][2]string{}}, ""
	}
}

func c10lSame(r c10lResult, want [][2]string) bool {
	if r.St != "ok" || len(r.M) != len(want) {
		return false
	}
	for i := range want {
		if r.M[i] != want[i] {
			return false
		}
	}
	return true
}

// c10lEntries: the cache entries below dir (relative paths): the directories named <path>@<version>.
func c10lEntries(dir, rel string) []string {
	ents, err := os.ReadDir(filepath.Join(dir, rel))
	if err != nil {
		return nil
	}
	var out []string
	for _, e := range ents {
		if !e.IsDir() {
			continue
		}
		r := filepath.Join(rel, e.Name())
		if strings.Contains(e.Name(), "@") {
			out = append(out, r)
		} else {
			out = append(out, c10lEntries(dir, r)...)
		}
	}
	return out
}

// c10lTorn: the cut points of a configuration file that leave something dawn's parser rejects: the longest such
// prefix, the shortest, and one in between (a torn write; a prefix that still parses is a different, well-formed
// configuration, which nothing can tell from the real one, and is not used).
func c10lTorn(cfg []byte) []int {
	var bad []int
	for n := len(cfg) - 1; n >= 1; n-- {
		if _, err := project.LoadConfigBytes(cfg[:n]); err != nil {
			bad = append(bad, n)
		}
	}
	switch len(bad) {
	case 0, 1, 2:
		return bad
	}
	return []int{bad[0], bad[len(bad)/2], bad[len(bad)-1]}
}

type c10lFault struct {
	Entry  string `json:"cache_entry"`
	Kind   string `json:"kind"`
	Detail string `json:"detail"`
	apply  func() error
	undo   func() error
}

func TestVerifC10Load(t *testing.T) {
	exportDir, outPath := os.Getenv("VERIF_C10_EXPORT"), os.Getenv("VERIF_OUT_LOAD")
	if exportDir == "" || outPath == "" {
		t.Skip("VERIF_C10_EXPORT / VERIF_OUT_LOAD not set")
	}
	f, err := os.Create(outPath)
	if err != nil {
		t.Fatal(err)
	}
	defer f.Close()
	w := bufio.NewWriter(f)
	emit := func(v any) {
		b, err := json.Marshal(v)
		if err != nil {
			panic(err)
		}
		w.Write(b)
		w.WriteByte('\n')
		w.Flush()
	}
	seed := int64(1)
	if n, err := strconv.Atoi(os.Getenv("VERIF_SEED")); err == nil {
		seed = int64(n)
	}
	maxEntries := 3
	if n, err := strconv.Atoi(os.Getenv("VERIF_C10_LOAD_ENTRIES")); err == nil {
		maxEntries = n
	}
	rng := rand.New(rand.NewSource(seed*7919 + 1020))

	// the home directory is looked up through go-homedir, which caches its answer
	homedir.DisableCache = true
	defer func() { homedir.DisableCache = false; homedir.Reset() }()
	oldHome := os.Getenv("HOME")
	defer os.Setenv("HOME", oldHome)

	ents, err := os.ReadDir(exportDir)
	if err != nil {
		t.Fatal(err)
	}
	var ids []int
	for _, e := range ents {
		if n, err := strconv.Atoi(strings.TrimPrefix(e.Name(), "case")); err == nil && e.IsDir() {
			ids = append(ids, n)
		}
	}
	sort.Ints(ids)
	base := t.TempDir()
	nloads, nscen, both := 0, 0, 0
	kinds := map[string]int{}
	for _, id := range ids {
		cdir := filepath.Join(exportDir, "case"+strconv.Itoa(id))
		b, err := os.ReadFile(filepath.Join(cdir, "case.json"))
		if err != nil {
			t.Fatal(err)
		}
		var c c10lCase
		if err := json.Unmarshal(b, &c); err != nil {
			t.Fatal(err)
		}
		emit(map[string]any{"t": "START", "case": c.Case})
		home := filepath.Join(base, "home"+strconv.Itoa(id))
		cache := filepath.Join(home, ".dawn", "modules", "cache")
		if err := os.MkdirAll(filepath.Dir(cache), 0o700); err != nil {
			t.Fatal(err)
		}
		if err := os.Rename(filepath.Join(cdir, "cache"), cache); err != nil {
			t.Fatal(err)
		}
		os.Setenv("HOME", home)

		// the root project: the requirements in dawn.toml or in .dawnconfig, written by the project's own writer
		rootDir := filepath.Join(base, "root"+strconv.Itoa(id))
		if err := os.MkdirAll(rootDir, 0o700); err != nil {
			t.Fatal(err)
		}
		reqs := map[string]project.RequirementConfig{}
		for _, r := range c.Root {
			reqs[r[0]] = project.RequirementConfig{Path: r[1], Version: r[2]}
		}
		cfgName := []string{"dawn.toml", ".dawnconfig"}[rng.Intn(2)]
		if err := project.WriteConfigFile(filepath.Join(rootDir, cfgName), &project.Config{Name: "root", Requirements: reqs}); err != nil {
			t.Fatal(err)
		}
		// a root project that moved to dawn.toml and left its old .dawnconfig behind: the requirements it had then
		// (all but one of today's; none at all; or bytes that are no configuration).  dawn.toml is the configuration.
		rootFile := cfgName
		var leftOver any // nil: none; else what the left-over .dawnconfig holds
		if cfgName == "dawn.toml" && rng.Intn(2) == 0 {
			cfgName = "dawn.toml next to a left-over .dawnconfig"
			old := map[string]project.RequirementConfig{}
			oldList := [][3]string{}
			for i, r := range c.Root {
				if i > 0 {
					old[r[0]] = project.RequirementConfig{Path: r[1], Version: r[2]}
					oldList = append(oldList, r)
				}
			}
			var err error
			switch rng.Intn(3) {
			case 0:
				err = project.WriteConfigFile(filepath.Join(rootDir, ".dawnconfig"), &project.Config{Name: "root", Requirements: old})
				leftOver = map[string]any{"holds": "all but one of the requirements", "root": oldList}
			case 1:
				err = project.WriteConfigFile(filepath.Join(rootDir, ".dawnconfig"), &project.Config{Name: "old"})
				leftOver = map[string]any{"holds": "no requirements", "root": [][3]string{}}
			default:
				err = os.WriteFile(filepath.Join(rootDir, ".dawnconfig"), []byte("\x00\x01 = = [not toml\n"), 0o600)
				leftOver = map[string]any{"holds": "not a configuration"}
			}
			if err != nil {
				t.Fatal(err)
			}
		}
		if err := os.WriteFile(filepath.Join(rootDir, "BUILD.dawn"), nil, 0o600); err != nil {
			t.Fatal(err)
		}

		oracle := func(name string, fl *c10lFault, got c10lResult, msg string) {
			rec := map[string]any{"t": "ORACLE", "name": name, "case": c.Case, "u": c.U, "root": c.Root, "root_config_file": cfgName,
				"left_over_dawnconfig": leftOver, "got": got, "want": c10lResult{St: "ok", M: c.Want}, "error_text": msg}
			if fl != nil {
				rec["fault"] = fl
			}
			emit(rec)
		}

		intact, intactMsg := c10lLoad(rootDir)
		nloads++
		if !c10lSame(intact, c.Want) {
			oracle("load:intact-cache-vs-reference", nil, intact, intactMsg)
		}

		entries := c10lEntries(cache, "")
		sort.Strings(entries)
		rng.Shuffle(len(entries), func(i, j int) { entries[i], entries[j] = entries[j], entries[i] })
		if len(entries) > maxEntries {
			entries = entries[:maxEntries]
		}
		outcomes := map[string]int{}
		for _, e := range entries {
			edir := filepath.Join(cache, e)
			cfgPath := filepath.Join(edir, "dawn.toml")
			cfg, err := os.ReadFile(cfgPath)
			if err != nil {
				cfgPath = filepath.Join(edir, ".dawnconfig")
				if cfg, err = os.ReadFile(cfgPath); err != nil {
					t.Fatalf("case %d: entry %s has no configuration file", c.Case, e)
				}
			}
			restoreCfg := func() error { return os.WriteFile(cfgPath, cfg, 0o600) }
			aside := edir + ".aside"
			// an entry with dawn.toml AND a left-over .dawnconfig: without its dawn.toml it would still be a well-formed
			// project -- another one, which nothing can tell from a real one; "no configuration file left" removes both
			other := filepath.Join(edir, ".dawnconfig")
			otherBytes, otherErr := os.ReadFile(other)
			hasOther := otherErr == nil && cfgPath != other
			if hasOther {
				both++
			}
			var faults []*c10lFault
			for _, n := range c10lTorn(cfg) {
				n := n
				faults = append(faults, &c10lFault{Entry: e, Kind: "configuration file torn",
					Detail: fmt.Sprintf("%s holds the first %d of its %d bytes", filepath.Base(cfgPath), n, len(cfg)),
					apply:  func() error { return os.WriteFile(cfgPath, cfg[:n], 0o600) }, undo: restoreCfg})
			}
			faults = append(faults,
				&c10lFault{Entry: e, Kind: "configuration file is not a configuration", Detail: filepath.Base(cfgPath) + " holds other bytes",
					apply: func() error { return os.WriteFile(cfgPath, []byte("\x00\x01 = = [not toml\n"), 0o600) }, undo: restoreCfg},
				&c10lFault{Entry: e, Kind: "configuration file gone", Detail: filepath.Base(cfgPath) + " removed from the entry (and the left-over .dawnconfig, if any)",
					apply: func() error {
						if hasOther {
							if err := os.Remove(other); err != nil {
								return err
							}
						}
						return os.Remove(cfgPath)
					},
					undo: func() error {
						if hasOther {
							if err := os.WriteFile(other, otherBytes, 0o600); err != nil {
								return err
							}
						}
						return restoreCfg()
					}},
				&c10lFault{Entry: e, Kind: "entry is a file", Detail: "a regular file where the entry's directory should be",
					apply: func() error {
						if err := os.Rename(edir, aside); err != nil {
							return err
						}
						return os.WriteFile(edir, []byte("x"), 0o600)
					},
					undo: func() error {
						if err := os.Remove(edir); err != nil {
							return err
						}
						return os.Rename(aside, edir)
					}},
				&c10lFault{Entry: e, Kind: "entry missing, repository unreachable", Detail: "the entry removed; no repository can be dialed (offline)",
					apply: func() error { return os.Rename(edir, aside) }, undo: func() error { return os.Rename(aside, edir) }})
			for _, fl := range faults {
				if err := fl.apply(); err != nil {
					t.Fatal(err)
				}
				got, msg := c10lLoad(rootDir)
				nloads++
				nscen++
				kinds[fl.Kind]++
				if err := fl.undo(); err != nil {
					t.Fatal(err)
				}
				// not_exist: the failure of the damaged entry is a "does not exist" (project_config.go loadConfig asks)
				emit(map[string]any{"t": "LS", "case": c.Case, "u": c.U, "entry": filepath.ToSlash(e), "kind": fl.Kind, "res": got,
					"not_exist": fl.Kind == "configuration file gone"})
				switch {
				case got.St == "err":
					outcomes["fails"]++
				case c10lSame(got, c.Want):
					outcomes["answers with the reference"]++
				default:
					outcomes["WRONG"]++
					if leftOver != nil && fl.Kind == "configuration file gone" {
						// its own name: the root's loadConfig takes the missing file BELOW the cache for a missing dawn.toml
						oracle("load:failure-below-dawn.toml-answered-from-the-left-over-dawnconfig", fl, got, msg)
					} else {
						oracle("load:unwalkable-graph-answered-with-a-list-that-is-not-the-solution", fl, got, msg)
					}
				}
			}
		}
		// everything restored: the same answer again
		again, againMsg := c10lLoad(rootDir)
		nloads++
		if !c10lSame(again, c.Want) {
			oracle("load:restored-cache-vs-reference", nil, again, againMsg)
		}
		emit(map[string]any{"t": "LC", "case": c.Case, "u": c.U, "intact": intact, "entries": len(entries), "outcomes": outcomes,
			"root_config_file": cfgName, "root_file": rootFile, "left_over": leftOver})
		os.RemoveAll(home)
		os.RemoveAll(rootDir)
	}
	emit(map[string]any{"t": "END", "cases": len(ids), "loads": nloads, "scenarios": nscen, "kinds": kinds,
		"damaged_entries_with_both_configuration_files": both})
}
