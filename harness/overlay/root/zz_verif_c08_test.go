package dawn

// C08 harness: every target function can be fingerprinted, deterministically, and the fingerprint is sensitive to every
// code or value the function references.  One child process per load (a fatal stack overflow is an observation).

import (
	"bytes"
	"encoding/base64"
	"encoding/json"
	"fmt"
	"math/rand"
	"os"
	"os/exec"
	"path/filepath"
	"sort"
	"strconv"
	"strings"
	"testing"
	"time"

	starlark_os "github.com/pgavlin/dawn/lib/os"
	starlark_sh "github.com/pgavlin/dawn/lib/sh"
	"github.com/pgavlin/dawn/pickle"
	starlark_json "go.starlark.net/lib/json"
	"go.starlark.net/starlark"
)

type c08Mut struct {
	Name     string
	File     string
	Old, New string
	Relevant bool // true: the fingerprint of the target must change; false: it must not
}

type c08Prog struct {
	Name   string
	Files  map[string]string
	Target string
	Muts   []c08Mut
}

type c08Report struct {
	LoadErr string            `json:"load_err"`
	Stamps  map[string]string `json:"stamps"`
	Errs    map[string]string `json:"errs"`
	Shapes  map[string]string `json:"shapes"`
	Same    map[string]bool   `json:"same"`  // engine-style comparison with the base stamp given in .base_stamp
	Skel    map[string]string `json:"skel"`  // expansion tree of function environments in the decoded fingerprint
	Graph   map[string]string `json:"graph"` // reified function graph: "root;id:label:m1,m2;..."
}

// shape dumps the decoded environment as a canonical string (types and structure; dict keys in insertion order)
func c08Shape(v starlark.Value, depth int, b *strings.Builder) {
	if depth > 60 {
		b.WriteString("…")
		return
	}
	switch v := v.(type) {
	case starlark.String:
		fmt.Fprintf(b, "%q", string(v))
	case starlark.Bytes:
		fmt.Fprintf(b, "b%d", len(v))
	case starlark.Tuple:
		b.WriteString("(")
		for i, e := range v {
			if i > 0 {
				b.WriteString(",")
			}
			c08Shape(e, depth+1, b)
		}
		b.WriteString(")")
	case *starlark.List:
		b.WriteString("[")
		for i := 0; i < v.Len(); i++ {
			if i > 0 {
				b.WriteString(",")
			}
			if v.Len() > 20 && i == 3 {
				fmt.Fprintf(b, "…%d", v.Len())
				break
			}
			c08Shape(v.Index(i), depth+1, b)
		}
		b.WriteString("]")
	case *starlark.Dict:
		b.WriteString("{")
		for i, kv := range v.Items() {
			if i > 0 {
				b.WriteString(",")
			}
			c08Shape(kv[0], depth+1, b)
			b.WriteString(":")
			c08Shape(kv[1], depth+1, b)
		}
		b.WriteString("}")
	default:
		b.WriteString(v.String())
	}
}

func TestVerifC08Child(t *testing.T) {
	if os.Getenv("VERIF_C08_CHILD") != "1" {
		t.Skip("not a child")
	}
	root := os.Getenv("VERIF_ROOT")
	os.Setenv("HOME", filepath.Join(root, ".home"))
	rep := c08Report{Stamps: map[string]string{}, Errs: map[string]string{}, Shapes: map[string]string{}, Same: map[string]bool{}, Skel: map[string]string{}, Graph: map[string]string{}}
	baseStamp, _ := os.ReadFile(filepath.Join(root, ".base_stamp"))
	baseLabel := os.Getenv("VERIF_BASE_LABEL")
	defer func() {
		b, _ := json.Marshal(rep)
		os.WriteFile(os.Getenv("VERIF_REPORT"), b, 0644)
	}()
	proj, err := Load(root, &LoadOptions{Builtins: starlark.StringDict{"os": starlark_os.Module, "sh": starlark_sh.Module, "json": starlark_json.Module}})
	if err != nil {
		rep.LoadErr = err.Error()
		return
	}
	for _, tg := range proj.Targets() {
		f, ok := tg.(*function)
		if !ok {
			continue
		}
		l := f.label.String()
		env, err := functionEnv(f.function)
		if err != nil {
			rep.Errs[l] = err.Error()
			continue
		}
		if env == nil {
			rep.Errs[l] = "nil environment without error"
			continue
		}
		var buf bytes.Buffer
		b64 := base64.NewEncoder(base64.StdEncoding, &buf)
		if err := pickle.NewEncoder(b64, newEnvPickler()).Encode(f.function); err != nil {
			rep.Errs[l] = "stamp: " + err.Error()
			continue
		}
		b64.Close()
		rep.Stamps[l] = buf.String()
		var sb strings.Builder
		c08Shape(env, 0, &sb)
		rep.Shapes[l] = sb.String()
		if fn, ok := f.function.(*starlark.Function); ok {
			sk := &c08SkState{seen: map[any]bool{}, ord: map[*starlark.Dict]int{}}
			c08Skeleton(env, sk)
			rep.Skel[l] = sk.b.String()
			rep.Graph[l] = c08Reify(fn)
		}
		// the decoded stamp equals the environment computed directly (what function.load + upToDate compare)
		dec, err := pickle.NewDecoder(base64.NewDecoder(base64.StdEncoding, strings.NewReader(buf.String())), pickle.UnpicklerFunc(envUnpickler)).Decode()
		if err != nil {
			rep.Errs[l] = "decode stamp: " + err.Error()
			continue
		}
		if l == baseLabel && len(baseStamp) > 0 {
			// what function.load + diffEnv do with a persisted stamp: a function target with this record is up to date
			// (as far as its environment goes) exactly when diffEnv says so
			ft := &function{proj: proj, label: f.label, function: f.function, targetInfo: targetInfo{Data: string(baseStamp)}}
			old, derr := pickle.NewDecoder(base64.NewDecoder(base64.StdEncoding, bytes.NewReader(baseStamp)), pickle.UnpicklerFunc(envUnpickler)).Decode()
			same := false
			if derr == nil {
				ft.oldEnv, ft.newEnv = old, env
				eq, _, _, err := ft.diffEnv()
				same = err == nil && eq
			}
			rep.Same[l] = same
		}
		// (cyclic data cannot be compared structurally: EqualDepth reports an error, which is not a property violation)
		if eq, err := starlark.EqualDepth(dec, env, 1000); err == nil && !eq {
			rep.Errs[l] = "decoded stamp differs from the environment"
		}
	}
}

func c08Child(self, root string, procs int, base ...string) (*c08Report, string) {
	if len(base) == 2 {
		os.WriteFile(filepath.Join(root, ".base_stamp"), []byte(base[1]), 0644)
		os.Setenv("VERIF_BASE_LABEL", base[0])
		defer os.Unsetenv("VERIF_BASE_LABEL")
	}
	reportPath := filepath.Join(root, ".report.json")
	os.Remove(reportPath)
	cmd := exec.Command(self, "-test.run", "^TestVerifC08Child$", "-test.count=1")
	cmd.Env = append(os.Environ(), "VERIF_C08_CHILD=1", "VERIF_ROOT="+root, "VERIF_REPORT="+reportPath, "GOMAXPROCS="+strconv.Itoa(procs))
	done := make(chan error, 1)
	var out []byte
	go func() {
		var err error
		out, err = cmd.CombinedOutput()
		done <- err
	}()
	select {
	case <-done:
	case <-time.After(60 * time.Second):
		cmd.Process.Kill()
		<-done
		return nil, "hung"
	}
	b, err := os.ReadFile(reportPath)
	if err != nil {
		tail := string(out)
		if i := strings.Index(tail, "fatal error"); i >= 0 {
			tail = tail[i:]
		}
		if len(tail) > 300 {
			tail = tail[:300]
		}
		return nil, "died: " + tail
	}
	var rep c08Report
	json.Unmarshal(b, &rep)
	return &rep, ""
}

func c08Write(root string, files map[string]string, order []string) {
	for _, n := range order {
		p := filepath.Join(root, n)
		os.MkdirAll(filepath.Dir(p), 0755)
		os.WriteFile(p, []byte(files[n]), 0644)
	}
}

func c08Programs() []c08Prog {
	helper := "HV = 7\n\ndef helper(x):\n    return x + HV\n"
	big := func(n int) string {
		var b strings.Builder
		b.WriteString("[")
		for i := 0; i < n; i++ {
			if i > 0 {
				b.WriteString(", ")
			}
			b.WriteString(strconv.Itoa(i))
		}
		b.WriteString("]")
		return b.String()
	}
	progs := []c08Prog{
		{Name: "plain", Target: "//:t", Files: map[string]string{"BUILD.dawn": "K = 300\n\n@target()\ndef t():\n    print(K)\n"},
			Muts: []c08Mut{
				{"constant 300->65580 (BININT2 class)", "BUILD.dawn", "K = 300", "K = 65580", true},
				{"constant 300->301", "BUILD.dawn", "K = 300", "K = 301", true},
				{"constant 300->255", "BUILD.dawn", "K = 300", "K = 255", true},
				{"code", "BUILD.dawn", "print(K)", "print(K + 1)", true},
				{"comment", "BUILD.dawn", "def t():", "# a comment\ndef t():", false},
				{"whitespace", "BUILD.dawn", "    print(K)", "    print(K)   ", false},
				{"docstring added", "BUILD.dawn", "def t():\n", "def t():\n    \"\"\"doc\"\"\"\n", false},
			}},
		{Name: "recursion", Target: "//:t", Files: map[string]string{"BUILD.dawn": "def fact(n):\n    return 1 if n <= 1 else n * fact(n - 1)\n\n@target()\ndef t():\n    print(fact(5))\n"},
			Muts: []c08Mut{
				{"recursive helper body", "BUILD.dawn", "n * fact(n - 1)", "n * fact(n - 2)", true},
				{"recursive helper base", "BUILD.dawn", "1 if n <= 1", "2 if n <= 1", true},
			}},
		{Name: "mutual", Target: "//:t", Files: map[string]string{"BUILD.dawn": "def even(n):\n    return True if n == 0 else odd(n - 1)\n\ndef odd(n):\n    return False if n == 0 else even(n - 1)\n\ndef third(n):\n    return even(n) or third(n - 1)\n\n@target()\ndef t():\n    print(third(4))\n"},
			Muts: []c08Mut{
				{"odd body", "BUILD.dawn", "False if n == 0", "(not True) if n == 0", true},
				{"even body", "BUILD.dawn", "True if n == 0 else odd", "(n == 0) or odd", true},
				{"third body", "BUILD.dawn", "third(n - 1)", "third(n - 2)", true},
			}},
		{Name: "self-target-recursion", Target: "//:t", Files: map[string]string{"BUILD.dawn": "@target()\ndef t(self=None, n=0):\n    if n > 0:\n        t(self, n - 1)\n    print(n)\n"},
			Muts: []c08Mut{{"body", "BUILD.dawn", "print(n)", "print(n + 1)", true}, {"default", "BUILD.dawn", "n=0", "n=1", true}}},
		{Name: "closure", Target: "//:t", Files: map[string]string{"BUILD.dawn": "def mk(a, b):\n    c = [a, b]\n    def inner():\n        print(a, c)\n    return inner\n\ntarget(name=\"t\", function=mk(1, 2))\n"},
			Muts: []c08Mut{
				{"free variable value", "BUILD.dawn", "mk(1, 2)", "mk(3, 2)", true},
				{"captured list content", "BUILD.dawn", "mk(1, 2)", "mk(1, 4)", true},
				{"inner code", "BUILD.dawn", "print(a, c)", "print(c, a)", true},
			}},
		{Name: "defaults", Target: "//:t", Files: map[string]string{"BUILD.dawn": "D = {\"a\": (1, 2.5, \"s\", b\"x\", None, True)}\n\n@target()\ndef t(self, x=D, y=[1, 2], *, z=\"kw\"):\n    print(x, y, z)\n"},
			Muts: []c08Mut{
				{"default dict value", "BUILD.dawn", "2.5", "2.75", true},
				{"default list", "BUILD.dawn", "y=[1, 2]", "y=[1, 3]", true},
				{"kwonly default", "BUILD.dawn", "z=\"kw\"", "z=\"kw2\"", true},
				{"bytes", "BUILD.dawn", "b\"x\"", "b\"y\"", true},
				{"bool", "BUILD.dawn", "None, True", "None, False", true},
			}},
		{Name: "nested-and-lambda", Target: "//:t", Files: map[string]string{"BUILD.dawn": "F = lambda v: v * 2\n\n@target()\ndef t():\n    def a(q):\n        def b(r):\n            return F(r) + q\n        return b(q)\n    print(a(3), [w for w in range(3)])\n"},
			Muts: []c08Mut{
				{"lambda body", "BUILD.dawn", "v * 2", "v * 3", true},
				{"doubly nested body", "BUILD.dawn", "F(r) + q", "F(r) - q", true},
				{"comprehension", "BUILD.dawn", "range(3)", "range(4)", true},
			}},
		{Name: "helper-module", Target: "//pkg:t", Files: map[string]string{"BUILD.dawn": "PAD = 1\n", "helpers.dawn": helper, "pkg/BUILD.dawn": "load(\"//:helpers.dawn\", \"helper\")\n\n@target()\ndef t():\n    print(helper(1))\n", "other/BUILD.dawn": "X = 1\n\n@target()\ndef o():\n    print(X)\n"},
			Muts: []c08Mut{
				{"helper global", "helpers.dawn", "HV = 7", "HV = 8", true},
				{"helper code", "helpers.dawn", "x + HV", "x - HV", true},
				{"other package's build file", "other/BUILD.dawn", "X = 1", "X = 2", false},
				{"root build file", "BUILD.dawn", "PAD = 1", "PAD = 2", false},
				{"comment in helper", "helpers.dawn", "def helper(x):", "# c\ndef helper(x):", false},
			}},
		{Name: "big-and-cyclic-data", Target: "//:t", Files: map[string]string{"BUILD.dawn": "BIG = " + big(2500) + "\nNEST = (BIG, {\"k\": BIG}, [BIG])\nCYC = [1]\nCYC.append(CYC)\nDD = {\"self\": None}\nDD[\"self\"] = DD\nS = set([1, 2, 3])\n\n@target()\ndef t():\n    print(len(NEST[0]), CYC[0], DD.keys(), S)\n"},
			Muts: []c08Mut{
				{"element 1500 of a 2500-element list", "BUILD.dawn", " 1500,", " 1501000,", true},
				{"element 999", "BUILD.dawn", " 999,", " 999000,", true},
				{"cyclic list head", "BUILD.dawn", "CYC = [1]", "CYC = [2]", true},
				{"set element", "BUILD.dawn", "set([1, 2, 3])", "set([1, 2, 4])", true},
			}},
		{Name: "predeclared", Target: "//:t", Files: map[string]string{"BUILD.dawn": "C = Cache()\nL = label(\"a/x\")\nP = path(\":b\")\nG = glob([\"*.none\"])\nFL = parse_flag(\"flg\", default=\"dv\")\n\n@target()\ndef t():\n    print(host, package, C, L, P, G, FL, contains, parse_flag, target, glob, fail, Cache, path, label, os, sh, json, len, str, dict)\n"},
			Muts: []c08Mut{
				{"path value", "BUILD.dawn", "path(\":b\")", "path(\":c\")", true},
				{"label value", "BUILD.dawn", "label(\"a/x\")", "label(\"a/y\")", true},
				{"flag default", "BUILD.dawn", "default=\"dv\"", "default=\"dw\"", true},
			}},
		{Name: "target-reference", Target: "//:t", Files: map[string]string{"BUILD.dawn": "@target()\ndef a():\n    print(1)\n\n@target(deps=[a])\ndef t():\n    print(a)\n"},
			Muts: []c08Mut{{"own code", "BUILD.dawn", "print(a)", "print(a, 1)", true}}},
		{Name: "two-lambdas", Target: "//:t", Files: map[string]string{"BUILD.dawn": "A = lambda v: v + 10\nB = lambda v: v + 20\n\ndef mk(q):\n    def inner(v):\n        return v + q\n    return inner\n\nC1 = mk(30)\nC2 = mk(40)\n\n@target()\ndef t():\n    print(A(1), B(1), C1(1), C2(1))\n"},
			Muts: []c08Mut{
				{"second of two same-named functions (lambda)", "BUILD.dawn", "v + 20", "v + 21", true},
				{"first lambda", "BUILD.dawn", "v + 10", "v + 11", true},
				{"free variable of the second closure of one factory", "BUILD.dawn", "mk(40)", "mk(41)", true},
			}},
		{Name: "alias-after-recursion", Target: "//:t", Files: map[string]string{"BUILD.dawn": "def walk(n):\n    if n == 0:\n        return 0\n    return walk(n - 1)\n\nlimits = {\"depth\": 3}\n\ncurrent = limits\n\ndef pick():\n    return current\n\n@target()\ndef t():\n    print(walk(limits[\"depth\"]), pick())\n"},
			Muts: []c08Mut{
				{"alias re-pointed from a dict to the recursive function", "BUILD.dawn", "current = limits", "current = walk", true},
				{"dict content", "BUILD.dawn", "{\"depth\": 3}", "{\"depth\": 4}", true},
			}},
		{Name: "hash-ordered-containers", Target: "//:t", Files: map[string]string{"BUILD.dawn": "S = set([\"include/alpha/first_header.h\", \"include/beta/second_header.h\", \"include/gamma/third_header.h\", \"include/delta/fourth_header.h\"])\nD = {\"a-rather-long-key-number-one\": 1, \"a-rather-long-key-number-two\": 2, \"a-rather-long-key-number-three\": 3}\n\n@target()\ndef t():\n    print(S, D, os, sh)\n"},
			Muts: []c08Mut{
				{"set element", "BUILD.dawn", "third_header.h", "third_header.hpp", true},
				{"dict value", "BUILD.dawn", "number-two\": 2", "number-two\": 22", true},
			}},
		{Name: "function-keyed-dict", Target: "//:t", Files: map[string]string{"BUILD.dawn": "def f():\n    pass\n\nD = {f: 1}\n\n@target()\ndef t():\n    print(D)\n"},
			Muts: []c08Mut{{"value under a function key", "BUILD.dawn", "{f: 1}", "{f: 2}", true}}},
	}
	// two (three) different functions of one name that are in progress at the same time: closures called h made by
	// different factories, lambdas; the edit re-points a reference from one of them to another (F24, fixed 7738be5)
	progs = append(progs,
		c08Prog{Name: "same-named-in-progress", Target: "//:t", Files: map[string]string{"BUILD.dawn": "def mkA(box):\n    def h(n):\n        return 0 if n == 0 else box[0](n - 1)\n    return h\n\ndef mkB(box):\n    def h(n):\n        return 0 if n == 0 else 1 + box[0](n - 1)\n    return h\n\nboxA = [None]\nboxB = [None]\nha = mkA(boxA)\nhb = mkB(boxB)\nboxA[0] = hb\nboxB[0] = ha\n\n@target()\ndef t():\n    print(ha(5))\n"},
			Muts: []c08Mut{
				{"second h calls itself instead of the first h", "BUILD.dawn", "boxB[0] = ha", "boxB[0] = hb", true},
				{"body of the second h", "BUILD.dawn", "1 + box[0]", "2 + box[0]", true},
			}},
		c08Prog{Name: "three-same-named-in-progress", Target: "//:t", Files: map[string]string{"BUILD.dawn": "def mkA(box):\n    def h(n):\n        return 0 if n == 0 else box[0](n - 1)\n    return h\n\ndef mkB(box):\n    def h(n):\n        return 0 if n == 0 else 1 + box[0](n - 1)\n    return h\n\ndef mkC(box):\n    def h(n):\n        return 0 if n == 0 else 2 + box[0](n - 1)\n    return h\n\nboxA = [None]\nboxB = [None]\nboxC = [None]\nha = mkA(boxA)\nhb = mkB(boxB)\nhc = mkC(boxC)\nboxA[0] = hb\nboxB[0] = hc\nboxC[0] = ha\n\n@target()\ndef t():\n    print(ha(5))\n"},
			Muts: []c08Mut{
				{"third h calls the second h instead of the first", "BUILD.dawn", "boxC[0] = ha", "boxC[0] = hb", true},
				{"third h calls itself instead of the first", "BUILD.dawn", "boxC[0] = ha", "boxC[0] = hc", true},
				{"second h calls the first h instead of the third", "BUILD.dawn", "boxB[0] = hc", "boxB[0] = ha", true},
			}},
		c08Prog{Name: "lambdas-in-progress", Target: "//:t", Files: map[string]string{"BUILD.dawn": "boxA = [None]\nboxB = [None]\nla = lambda n: 0 if n == 0 else boxA[0](n - 1)\nlb = lambda n: 0 if n == 0 else 1 + boxB[0](n - 1)\nboxA[0] = lb\nboxB[0] = la\n\n@target()\ndef t():\n    print(la(5))\n"},
			Muts: []c08Mut{
				{"second lambda calls itself instead of the first lambda", "BUILD.dawn", "boxB[0] = la", "boxB[0] = lb", true},
			}},
		c08Prog{Name: "shared-container-and-helper", Target: "//:t", Files: map[string]string{"BUILD.dawn": "def helper(x):\n    return x + 1\n\nL = [helper]\n\ndef a():\n    return L[0](1)\n\ndef b():\n    return L[0](2) + helper(3)\n\ndef c():\n    return helper(4)\n\n@target()\ndef t():\n    print(a(), b(), c())\n"},
			Muts: []c08Mut{
				{"helper reached through a shared list and directly", "BUILD.dawn", "return x + 1", "return x + 2", true},
				{"comment", "BUILD.dawn", "L = [helper]", "L = [helper]  # shared", false},
			}})
	// host values referenced as VALUES: builtins (of the interpreter, of a module, bound methods with their receiver) and
	// ranges; re-pointing one to another of its kind must show (fixed 6cdac65, d823318).  A bound method of a container
	// that holds a function reaches that function (the receiver is pickled by value).
	progs = append(progs,
		c08Prog{Name: "builtins-as-values", Target: "//:t", Files: map[string]string{"BUILD.dawn": "F = len\nOPS = {\"op\": min}\nRUN = sh.exec\nUP = \"abc\".upper\n\ndef mk(g):\n    def inner(x):\n        return g(x)\n    return inner\n\nC = mk(sorted)\n\n@target()\ndef t(self, d=str):\n    print(F(\"ab\"), OPS[\"op\"](1, 2), RUN, UP(), C([2, 1]), d(1))\n"},
			Muts: []c08Mut{
				{"global alias of a builtin re-pointed", "BUILD.dawn", "F = len", "F = str", true},
				{"builtin in a dict", "BUILD.dawn", "{\"op\": min}", "{\"op\": max}", true},
				{"module function alias", "BUILD.dawn", "RUN = sh.exec", "RUN = sh.output", true},
				{"receiver of a bound method", "BUILD.dawn", "\"abc\".upper", "\"xyz\".upper", true},
				{"method of the same receiver", "BUILD.dawn", "\"abc\".upper", "\"abc\".lower", true},
				{"captured builtin", "BUILD.dawn", "mk(sorted)", "mk(reversed)", true},
				{"builtin as default", "BUILD.dawn", "d=str", "d=repr", true},
				{"comment", "BUILD.dawn", "F = len", "F = len  # alias", false},
			}},
		c08Prog{Name: "bound-methods-reaching-functions", Target: "//:t", Files: map[string]string{"BUILD.dawn": "def helper(x):\n    return x + 1\n\ndef second(x):\n    return x + 10\n\nL = [helper, 1]\nIDX = L.index\nD = {\"h\": second}\nGET = D.get\nAGAIN = [IDX, IDX, GET]\n\ndef other():\n    return helper(2)\n\n@target()\ndef t():\n    print(IDX, GET(\"h\")(1), AGAIN, other())\n"},
			Muts: []c08Mut{
				{"function reached through the receiver of a bound method and directly", "BUILD.dawn", "return x + 1\n", "return x + 2\n", true},
				{"function reached only through the receiver of a bound method", "BUILD.dawn", "return x + 10\n", "return x + 20\n", true},
				{"other method of the same dict", "BUILD.dawn", "GET = D.get", "GET = D.setdefault", true},
				{"element of the receiver", "BUILD.dawn", "L = [helper, 1]", "L = [helper, 2]", true},
				{"comment", "BUILD.dawn", "IDX = L.index", "IDX = L.index  # bound", false},
			}},
		c08Prog{Name: "ranges", Target: "//:t", Files: map[string]string{"BUILD.dawn": "R = range(3)\n\ndef mk(c):\n    def f():\n        return c\n    return f\n\nC = mk(range(1, 4))\n\n@target()\ndef t(self, d=range(0, 6, 2)):\n    print(R, C(), d)\n"},
			Muts: []c08Mut{
				{"global range bound", "BUILD.dawn", "R = range(3)", "R = range(4)", true},
				{"global range replaced by the list of its elements", "BUILD.dawn", "R = range(3)", "R = [0, 1, 2]", true},
				{"captured range replaced by the list of its elements", "BUILD.dawn", "mk(range(1, 4))", "mk([1, 2, 3])", true},
				{"captured range start", "BUILD.dawn", "mk(range(1, 4))", "mk(range(0, 4))", true},
				{"default range bound", "BUILD.dawn", "d=range(0, 6, 2)", "d=range(0, 8, 2)", true},
				{"default range step", "BUILD.dawn", "d=range(0, 6, 2)", "d=range(0, 6, 3)", true},
				{"comment", "BUILD.dawn", "R = range(3)", "R = range(3)  # r", false},
			}},
		// the views of a string / of bytes: values that are neither data nor callables nor attribute holders (two of them
		// are sequences, three only iterables; could not be fingerprinted before beffa21).  A view is not the list of its
		// elements, and the two views of each pair differ even when they have no elements.
		c08Prog{Name: "string-views", Target: "//:t", Files: map[string]string{"BUILD.dawn": "CP = \"abc\".codepoints()\nEL = \"xyz\".elems()\nEMPTY = \"\".codepoints()\n\ndef helper(v):\n    return [c for c in v]\n\ndef mk(c):\n    def f():\n        return helper(c)\n    return f\n\nC = mk(b\"ab\".elems())\n\n@target()\ndef t(self, d=\"abc\".codepoint_ords(), e=\"abc\".elem_ords()):\n    print(helper(CP), EL, EMPTY, C(), d, e)\n"},
			Muts: []c08Mut{
				{"string under a global codepoints view", "BUILD.dawn", "CP = \"abc\".codepoints()", "CP = \"abd\".codepoints()", true},
				{"global codepoints view replaced by the ordinals view", "BUILD.dawn", "CP = \"abc\".codepoints()", "CP = \"abc\".codepoint_ords()", true},
				{"global codepoints view replaced by the list of its elements", "BUILD.dawn", "CP = \"abc\".codepoints()", "CP = [\"a\", \"b\", \"c\"]", true},
				{"global elems view replaced by the list of its elements", "BUILD.dawn", "EL = \"xyz\".elems()", "EL = [\"x\", \"y\", \"z\"]", true},
				{"view of the empty string replaced by its other view", "BUILD.dawn", "EMPTY = \"\".codepoints()", "EMPTY = \"\".codepoint_ords()", true},
				{"captured bytes view", "BUILD.dawn", "mk(b\"ab\".elems())", "mk(b\"ac\".elems())", true},
				{"default ordinals view replaced by the list of its elements", "BUILD.dawn", "e=\"abc\".elem_ords()", "e=[97, 98, 99]", true},
				{"default ordinals view of another string", "BUILD.dawn", "d=\"abc\".codepoint_ords()", "d=\"abC\".codepoint_ords()", true},
				{"comment", "BUILD.dawn", "CP = \"abc\".codepoints()", "CP = \"abc\".codepoints()  # view", false},
			}})
	progs = append(progs, c08ShapePrograms()...)
	return progs
}

// c08ShapePrograms: every parameter shape of a function the target calls (positional, defaults, *args, keyword-only
// parameters with and without defaults in every order, **kwargs) and every capture shape of a closure it calls (0..3
// captured variables; one never assigned, one assigned after the closure was made, one shared by two closures).  The
// interpreter's placeholders for "no default" and "no value" are payload of the function that has them (F25/F26, fixed
// 06af877).  Each program has an edit that must change the fingerprint and a cosmetic one that must not.
func c08ShapePrograms() []c08Prog {
	var out []c08Prog
	cosmetic := c08Mut{"comment before the target", "BUILD.dawn", "@target()", "# cosmetic\n@target()", false}
	params := []struct{ name, sig, call, sig2, what string }{
		{"positional", "a", "1", "a=1", "give the positional parameter a default"},
		{"defaults", "a, b=2", "1", "a, b=3", "default value"},
		{"varargs", "a, *args", "1, 2, 3", "a=0, *args", "give the parameter before *args a default"},
		{"kwonly-mandatory", "a, *, b", "1, b=2", "a, *, b=7", "give the mandatory keyword-only parameter a default"},
		{"kwonly-default", "a, *, b=1", "1", "a, *, b=2", "keyword-only default value"},
		{"kwonly-mandatory-then-default", "a, *, b, c=1", "1, b=2", "a, *, b=7, c=1", "give the mandatory keyword-only parameter a default"},
		{"kwonly-default-then-mandatory", "a, *, c=1, b", "1, b=2", "a, *, c=1, b=7", "give the mandatory keyword-only parameter a default"},
		{"kwonly-mandatory-default-mandatory", "a, *, b, c=1, d", "1, b=2, d=3", "a, *, b, c=1, d=9", "give the last mandatory keyword-only parameter a default"},
		{"kwonly-two-mandatory", "*, b, c", "b=1, c=2", "*, b, c=5", "give one of two mandatory keyword-only parameters a default"},
		{"varargs-then-kwonly", "a, *args, b, c=1", "1, 2, b=3", "a, *args, b, c=2", "default after a mandatory keyword-only parameter"},
		{"kwargs", "**kwargs", "x=1", "z=1, **kwargs", "add an optional parameter before **kwargs"},
		{"kwonly-and-kwargs", "*, b, c=1, **kw", "b=1, z=2", "*, b=0, c=1, **kw", "give the mandatory keyword-only parameter a default"},
		{"everything", "a, b=2, *args, c, d=4, **kwargs", "1, 2, 3, c=4, z=5", "a, b=2, *args, c=0, d=4, **kwargs", "give the mandatory keyword-only parameter a default"},
	}
	for _, p := range params {
		src := "def h(" + p.sig + "):\n    return 1\n\n@target()\ndef t():\n    print(h(" + p.call + "))\n"
		out = append(out, c08Prog{Name: "params-" + p.name, Target: "//:t", Files: map[string]string{"BUILD.dawn": src},
			Muts: []c08Mut{
				{p.what, "BUILD.dawn", "def h(" + p.sig + "):", "def h(" + p.sig2 + "):", true},
				{"body of the called function", "BUILD.dawn", "return 1", "return 2", true},
				cosmetic,
			}})
	}
	tail := "\n@target()\ndef t():\n    print(g)\n"
	captures := []struct {
		name, src string
		muts      []c08Mut
	}{
		{"none", "def mk():\n    def f():\n        return 1\n    return f\n\ng = mk()\n", []c08Mut{
			{"closure body", "BUILD.dawn", "return 1", "return 2", true}}},
		{"one", "def mk(x):\n    def f():\n        return x\n    return f\n\ng = mk(10)\n", []c08Mut{
			{"captured value", "BUILD.dawn", "mk(10)", "mk(11)", true}}},
		{"two", "def mk(x, y):\n    def f():\n        return (x, y)\n    return f\n\ng = mk(10, 20)\n", []c08Mut{
			{"second captured value", "BUILD.dawn", "mk(10, 20)", "mk(10, 21)", true}}},
		{"three", "def mk(x, y, z):\n    def f():\n        return (x, y, z)\n    return f\n\ng = mk(10, 20, 30)\n", []c08Mut{
			{"third captured value", "BUILD.dawn", "mk(10, 20, 30)", "mk(10, 20, 31)", true},
			{"first captured value", "BUILD.dawn", "mk(10, 20, 30)", "mk(11, 20, 30)", true}}},
		{"never-assigned", "def mk(flag):\n    def f():\n        return x\n    if flag:\n        x = 1\n    return f\n\ng = mk(False)\n", []c08Mut{
			{"assign the unassigned captured variable", "BUILD.dawn", "mk(False)", "mk(True)", true}}},
		{"assigned-later", "def mk():\n    def f():\n        return x\n    x = 5\n    return f\n\ng = mk()\n", []c08Mut{
			{"value assigned after the closure was made", "BUILD.dawn", "x = 5", "x = 6", true}}},
		{"shared-by-two", "def mk(v):\n    shared = [v]\n    def get():\n        return shared[0]\n    def put():\n        return shared\n    return (get, put)\n\ng = mk(3)\n", []c08Mut{
			{"content of the variable two closures share", "BUILD.dawn", "mk(3)", "mk(4)", true},
			{"body of the second closure", "BUILD.dawn", "return shared\n", "return shared + []\n", true}}},
		{"never-later-shared", "def mk(flag, v):\n    shared = [v]\n    def f():\n        return (shared, later, never)\n    def h():\n        return (shared, never)\n    later = 7\n    if flag:\n        never = 1\n    return (f, h)\n\ng = mk(False, 3)\n", []c08Mut{
			{"assign the unassigned captured variable", "BUILD.dawn", "mk(False, 3)", "mk(True, 3)", true},
			{"value assigned after the closures were made", "BUILD.dawn", "later = 7", "later = 8", true},
			{"content of the shared variable", "BUILD.dawn", "mk(False, 3)", "mk(False, 4)", true}}},
	}
	for _, c := range captures {
		out = append(out, c08Prog{Name: "captures-" + c.name, Target: "//:t", Files: map[string]string{"BUILD.dawn": c.src + tail},
			Muts: append(append([]c08Mut{}, c.muts...), cosmetic)})
	}
	return out
}

func TestVerifC08(t *testing.T) {
	outPath := os.Getenv("VERIF_OUT")
	if outPath == "" || os.Getenv("VERIF_C08_CHILD") == "1" {
		t.Skip("VERIF_OUT not set")
	}
	seed, _ := strconv.ParseInt(os.Getenv("VERIF_SEED"), 10, 64)
	rng := rand.New(rand.NewSource(seed))
	self, _ := os.Executable()
	base, _ := os.MkdirTemp("", "verif-c08-")
	defer os.RemoveAll(base)
	f, err := os.Create(outPath)
	if err != nil {
		t.Fatal(err)
	}
	defer f.Close()
	line := func(parts ...string) { f.WriteString(strings.Join(parts, "\t") + "\n") }

	// the collection sweep (zz_verif_c08_sweep_test.go), the value-space families (zz_verif_c08_values_test.go) and the
	// related-values families (zz_verif_c08_alias_test.go), the schedule families (zz_verif_c08_conc_test.go) and the process-history family (zz_verif_c08_hist_test.go), each in one
	// child process of its own; their lines are copied
	for _, mode := range []string{"sweep", "values", "alias", "conc", "hist"} {
		if only := os.Getenv("VERIF_C08_ONLY"); only != "" && only != mode {
			continue
		}
		root, _ := os.MkdirTemp(base, mode+"-")
		report := filepath.Join(base, mode+".tsv")
		run := map[string]string{"sweep": "^TestVerifC08Sweep$", "values": "^TestVerifC08Values$", "alias": "^TestVerifC08Alias$", "conc": "^TestVerifC08Conc$", "hist": "^TestVerifC08Hist$"}[mode]
		cmd := exec.Command(self, "-test.run", run, "-test.count=1")
		cmd.Env = append(os.Environ(), "VERIF_C08_CHILD="+mode, "VERIF_ROOT="+root, "VERIF_REPORT="+report, "GOMAXPROCS=8")
		done := make(chan error, 1)
		var out []byte
		go func() {
			var err error
			out, err = cmd.CombinedOutput()
			done <- err
		}()
		died := ""
		select {
		case err := <-done:
			if err != nil {
				died = "died: " + err.Error()
			}
		case <-time.After(600 * time.Second):
			cmd.Process.Kill()
			<-done
			died = "hung"
		}
		b, _ := os.ReadFile(report)
		f.Write(b)
		if !strings.Contains("\n"+string(b), "\n"+mode+"done\t") {
			tail := string(out)
			if i := strings.Index(tail, "fatal error"); i >= 0 {
				tail = tail[i:]
			} else if i := strings.Index(tail, "panic:"); i >= 0 {
				tail = tail[i:]
			}
			if len(tail) > 400 {
				tail = tail[:400]
			}
			last := ""
			if ls := strings.Split(strings.TrimSpace(string(b)), "\n"); len(ls) > 0 {
				last = ls[len(ls)-1]
			}
			line("ORACLE", "terminates", mode, "the "+mode+" child did not finish ("+died+"); last line: "+strings.ReplaceAll(last, "\t", " ")+"; output: "+strings.ReplaceAll(strings.ReplaceAll(tail, "\n", " | "), "\t", " "))
		}
		os.RemoveAll(root)
	}
	if os.Getenv("VERIF_C08_ONLY") != "" {
		return
	}

	nrand, _ := strconv.Atoi(os.Getenv("VERIF_NRAND"))
	progs := append(c08Programs(), c08RandomPrograms(rng, nrand)...)
	for pi, p := range progs {
		names := make([]string, 0, len(p.Files))
		for n := range p.Files {
			names = append(names, n)
		}
		sort.Strings(names)
		mk := func(files map[string]string, shuffle bool) string {
			root, _ := os.MkdirTemp(base, fmt.Sprintf("p%d-", pi))
			os.WriteFile(filepath.Join(root, "dawn.toml"), nil, 0644)
			os.MkdirAll(filepath.Join(root, ".home"), 0755)
			order := append([]string{}, names...)
			if shuffle {
				rng.Shuffle(len(order), func(i, j int) { order[i], order[j] = order[j], order[i] })
			}
			c08Write(root, files, order)
			return root
		}
		root1 := mk(p.Files, false)
		rep1, died := c08Child(self, root1, 16)
		if rep1 == nil {
			line("ORACLE", "terminates", p.Name, "fingerprinting "+died)
			continue
		}
		if rep1.LoadErr != "" {
			line("ORACLE", "terminates", p.Name, "load error: "+rep1.LoadErr)
			continue
		}
		if e, ok := rep1.Errs[p.Target]; ok {
			line("ORACLE", "terminates", p.Name, "fingerprint error: "+e)
			continue
		}
		s1 := rep1.Stamps[p.Target]
		line("case", p.Name, "base", strconv.Itoa(len(s1)), rep1.Shapes[p.Target])
		if g, ok := rep1.Graph[p.Target]; ok && p.Name != "function-keyed-dict" {
			// (a function used as a dict key is dropped from the DECODED environment -- the stamp still has it, and stamps are
			// what the engine compares since a7d2e7f -- so the decoded skeleton is not comparable for that program)
			line("graph", p.Name, g, rep1.Skel[p.Target])
		}
		// determinism: the same text, another process, another creation order, another GOMAXPROCS
		for k := 0; k < 2; k++ {
			// the same location (path() and label() values mention it), files re-created in another order
			for _, n := range names {
				os.Remove(filepath.Join(root1, n))
			}
			os.RemoveAll(filepath.Join(root1, ".dawn"))
			order := append([]string{}, names...)
			rng.Shuffle(len(order), func(i, j int) { order[i], order[j] = order[j], order[i] })
			c08Write(root1, p.Files, order)
			rep2, died := c08Child(self, root1, 1+k*3, p.Target, s1)
			if rep2 == nil || rep2.Stamps[p.Target] != s1 || !rep2.Same[p.Target] {
				line("ORACLE", "deterministic", p.Name, "two loads of identical text gave different fingerprints "+died)
			}
		}
		for _, m := range p.Muts {
			files := map[string]string{}
			for n, c := range p.Files {
				files[n] = c
			}
			if !strings.Contains(files[m.File], m.Old) {
				line("ORACLE", "harness", p.Name, "mutation "+m.Name+" does not apply")
				continue
			}
			files[m.File] = strings.Replace(files[m.File], m.Old, m.New, 1)
			for _, n := range names {
				os.Remove(filepath.Join(root1, n))
			}
			os.RemoveAll(filepath.Join(root1, ".dawn"))
			c08Write(root1, files, names)
			rep3, died := c08Child(self, root1, 16, p.Target, s1)
			if rep3 == nil || rep3.LoadErr != "" || rep3.Errs[p.Target] != "" {
				msg := died
				if rep3 != nil {
					msg = rep3.LoadErr + rep3.Errs[p.Target]
				}
				line("ORACLE", "terminates", p.Name+"/"+m.Name, msg)
				continue
			}
			changed := !rep3.Same[p.Target]
			line("case", p.Name, m.Name, strconv.FormatBool(m.Relevant), strconv.FormatBool(changed))
			if m.Relevant && !changed {
				line("ORACLE", "sensitive", p.Name+"/"+m.Name, "a referenced code/value changed but the fingerprint did not")
			}
			if !m.Relevant && changed {
				line("ORACLE", "spurious", p.Name+"/"+m.Name, "an irrelevant edit changed the fingerprint")
			}
		}
		os.RemoveAll(root1)
	}
}

// ---------------------------------------------------------------------------------------------
// skeleton of the decoded fingerprint and reified function graph (tie to coq/Fingerprint/Model.v)

func c08Label(code []byte) int {
	h := 0
	for _, b := range code {
		h = (h*131 + int(b)) % 1000003
	}
	return h + 1
}

var c08FnKeys = []string{"default parameter values", "free variables", "constant values", "predeclared values", "universal values", "function values", "global values"}

// c08Skeleton prints, in pickling order, the tokens of the decoded value that concern function environments:
//
//	F<label>( ... )  a function environment (a dict with "default parameter values") met for the first time, with the
//	                 tokens of its parts inside;
//	R<ordinal>       a placeholder ("recursive function", name, ordinal) for a function in progress;
//	M<ordinal>       another occurrence of an already decoded function environment (a memo reference in the stamp);
//	                 the ordinal is the number of function environments whose expansion started before that one.
type c08SkState struct {
	seen map[any]bool
	ord  map[*starlark.Dict]int
	b    strings.Builder
}

func c08Skeleton(v starlark.Value, st *c08SkState) {
	seen, b := st.seen, &st.b
	switch v := v.(type) {
	case starlark.Tuple:
		if len(v) >= 2 && len(v) <= 3 && v[0] == starlark.String("recursive function") {
			ord := 999999
			if len(v) == 3 {
				if i, ok := v[2].(starlark.Int); ok {
					if i64, ok := i.Int64(); ok {
						ord = int(i64)
					}
				}
			}
			fmt.Fprintf(b, "R%d", ord)
			return
		}
		// (a builtin decodes to the tuple (name[, receiver]) since 6cdac65; a receiver that can hold functions is a list,
		// dict or set, i.e. a container the encoder memoizes and this walk expands once)
		for _, e := range v {
			c08Skeleton(e, st)
		}
	case *starlark.List:
		if seen[v] {
			return
		}
		seen[v] = true
		for i := 0; i < v.Len(); i++ {
			c08Skeleton(v.Index(i), st)
		}
	case *starlark.Set:
		if seen[v] {
			return
		}
		seen[v] = true
		it := v.Iterate()
		var e starlark.Value
		for it.Next(&e) {
			c08Skeleton(e, st)
		}
		it.Done()
	case *starlark.Dict:
		if seen[v] {
			if o, isFn := st.ord[v]; isFn {
				fmt.Fprintf(b, "M%d", o)
			}
			return
		}
		seen[v] = true
		if _, isFn, _ := v.Get(starlark.String("default parameter values")); isFn {
			code, _, _ := v.Get(starlark.String("code"))
			cb, _ := code.(starlark.Bytes)
			st.ord[v] = len(st.ord)
			fmt.Fprintf(b, "F%d(", c08Label([]byte(cb)))
			for _, k := range c08FnKeys {
				if x, ok, _ := v.Get(starlark.String(k)); ok {
					c08Skeleton(x, st)
				}
			}
			b.WriteString(")")
			return
		}
		if _, isCode, _ := v.Get(starlark.String("code")); isCode {
			if _, hasNames, _ := v.Get(starlark.String("names")); hasNames {
				for _, k := range c08FnKeys[2:] {
					if x, ok, _ := v.Get(starlark.String(k)); ok {
						c08Skeleton(x, st)
					}
				}
				return
			}
		}
		for _, kv := range v.Items() {
			c08Skeleton(kv[0], st)
			c08Skeleton(kv[1], st)
		}
	}
}

// c08Reify replays the encoder's traversal over the live objects, exactly as envPickler exposes them, and returns the
// function graph: per function, the functions the encoder asks the pickler (or its memo) about while that function's
// parts are pickled, in order.  Like the encoder it expands a list, dict or set only the first time it meets it (the
// container is memoized before its elements), a code object only until it has been pickled once (memoized afterwards),
// tuples every time (not memoized); every occurrence of a function is a mention, and a function's own parts are walked
// when it is mentioned for the first time; a bound method is walked through its receiver (a list, dict, set or tuple)
// until it has been pickled once.  Identities are 1 + the order of first mention (= recursionPickler's ordinal).
func c08Reify(root *starlark.Function) string {
	type node struct {
		id, label int
		ms        []int
	}
	ids := map[*starlark.Function]int{}
	var nodes []*node
	memo := map[any]bool{}
	var mentions func(v starlark.Value, out *[]int)
	var codeMentions func(c *starlark.FunctionCode, out *[]int)
	var fnID func(f *starlark.Function) int
	fnID = func(f *starlark.Function) int {
		if id, ok := ids[f]; ok {
			return id
		}
		n := &node{id: len(ids) + 1, label: c08Label(f.Code().Bytecode())}
		ids[f] = n.id
		nodes = append(nodes, n)
		defaults, freevars := f.Env()
		mentions(defaults, &n.ms)
		mentions(freevars, &n.ms)
		codeMentions(f.Code(), &n.ms)
		return n.id
	}
	codeMentions = func(c *starlark.FunctionCode, out *[]int) {
		if memo[c] {
			return
		}
		module, globals := c.ModuleEnv()
		// module = (names, constants, predeclared, universals, functions)
		mentions(module[1], out)
		mentions(module[2], out)
		mentions(module[3], out)
		for _, nested := range module[4].(starlark.Tuple) {
			codeMentions(nested.(*starlark.FunctionCode), out)
		}
		mentions(globals, out)
		memo[c] = true
	}
	mentions = func(v starlark.Value, out *[]int) {
		switch v := v.(type) {
		case *starlark.Function:
			id := fnID(v)
			*out = append(*out, id)
		case *starlark.FunctionCode:
			codeMentions(v, out)
		case *starlark.Builtin:
			// ("dawn","Builtin",(name[, receiver])): the receiver of a bound method is pickled by value when it is plain
			// data (function.go since 6cdac65); the builtin is memoized once its arguments have been pickled
			if memo[v] {
				return
			}
			switch recv := v.Receiver().(type) {
			case starlark.Tuple, *starlark.List, *starlark.Dict, *starlark.Set:
				mentions(recv, out)
			}
			memo[v] = true
		case starlark.Tuple:
			for _, e := range v {
				mentions(e, out)
			}
		case *starlark.List:
			if memo[v] {
				return
			}
			memo[v] = true
			for i := 0; i < v.Len(); i++ {
				mentions(v.Index(i), out)
			}
		case *starlark.Dict:
			if memo[v] {
				return
			}
			memo[v] = true
			for _, kv := range v.Items() {
				mentions(kv[0], out)
				mentions(kv[1], out)
			}
		case *starlark.Set:
			if memo[v] {
				return
			}
			memo[v] = true
			it := v.Iterate()
			var e starlark.Value
			for it.Next(&e) {
				mentions(e, out)
			}
			it.Done()
		}
	}
	rootID := fnID(root)
	var parts []string
	for _, n := range nodes {
		strs := make([]string, len(n.ms))
		for j, m := range n.ms {
			strs[j] = strconv.Itoa(m)
		}
		parts = append(parts, fmt.Sprintf("%d:%d:%s", n.id, n.label, strings.Join(strs, ",")))
	}
	return strconv.Itoa(rootID) + ";" + strings.Join(parts, ";")
}

// c08RandomPrograms: random call graphs among helper functions (self loops, mutual recursion, shared helpers, a helper
// stored in a global list, one passed as a default argument); every helper reachable from the target is edited in turn.
func c08RandomPrograms(rng *rand.Rand, n int) []c08Prog {
	var out []c08Prog
	for i := 0; i < n; i++ {
		nf := 2 + rng.Intn(6)
		calls := make([][]int, nf)
		for a := 0; a < nf; a++ {
			for b := 0; b < nf; b++ {
				if rng.Intn(3) == 0 {
					calls[a] = append(calls[a], b)
				}
			}
		}
		var b strings.Builder
		for a := 0; a < nf; a++ {
			fmt.Fprintf(&b, "def h%d(n):\n    if n <= 0:\n        return %d\n", a, 100+a)
			for _, c := range calls[a] {
				fmt.Fprintf(&b, "    h%d(n - 1)\n", c)
			}
			fmt.Fprintf(&b, "    return n + %d\n\n", 200+a)
		}
		inList := rng.Intn(nf)
		asDefault := rng.Intn(nf)
		direct := rng.Intn(nf)
		fmt.Fprintf(&b, "HL = [h%d, 1]\n\n@target()\ndef t(self, d=h%d):\n    print(h%d(2), HL[0](1), d(1))\n", inList, asDefault, direct)
		// reachable helpers
		reach := map[int]bool{}
		var visit func(int)
		visit = func(a int) {
			if reach[a] {
				return
			}
			reach[a] = true
			for _, c := range calls[a] {
				visit(c)
			}
		}
		visit(inList)
		visit(asDefault)
		visit(direct)
		p := c08Prog{Name: fmt.Sprintf("random-%d", i), Target: "//:t", Files: map[string]string{"BUILD.dawn": b.String()}}
		for a := 0; a < nf; a++ {
			p.Muts = append(p.Muts, c08Mut{fmt.Sprintf("body of h%d (reachable=%v)", a, reach[a]), "BUILD.dawn",
				fmt.Sprintf("return n + %d\n", 200+a), fmt.Sprintf("return n - %d\n", 200+a), reach[a]})
		}
		out = append(out, p)
	}
	return out
}
