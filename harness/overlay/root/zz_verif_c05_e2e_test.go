package dawn

// C05 end to end: "the build fails and a cyclic-dependency error is reported" observed where a user of dawn observes it.
//
// The runner hands results to dawn's own consumer (target.go, runTarget.Evaluate), which walks them in dependency order, stops
// at the first failed one and reports through Events.TargetFailed only an unknown target or a runner.CyclicDependencyError.
// Whether a cycle is reported is therefore a property of the two sites together.  This harness writes real projects (dawn.toml +
// BUILD.dawn generated from a dependency graph), loads them with dawn.Load and builds the root with Project.Run under a recording
// Events implementation, and checks the C05 oracles on what comes out:
//
//	terminates            Run returns (watchdog)
//	cyclic_build_fails    a cycle is reachable from the requested target            => Run returns an error
//	cycle_reported_e2e    a cycle is reachable from the requested target            => some TargetFailed event carries a
//	                                                                                   runner.CyclicDependencyError
//	no_false_cycle_e2e    no cycle is reachable                                     => no such event, and Run's error is none
//
// Graph family (enumerated): cycles of length 1..4 whose members list other dependencies (a target that succeeds, one whose
// body fails, one that does not exist, one shared by all members, a chain) before / after / around the edge that closes the
// cycle; cycles behind a root that is not part of them; cycles with chords; and the same graphs with the closing edge removed
// (acyclic controls).  Every graph is built VERIF_E2E_ROUNDS times (the member that finds the cycle depends on the schedule).
//
// Output ($VERIF_E2E_OUT): one JSON line per build, `ORACLE \t name \t build \t detail` lines, a final END line.

import (
	"bufio"
	"encoding/json"
	"errors"
	"fmt"
	"os"
	"path/filepath"
	"sort"
	"strings"
	"sync"
	"testing"
	"time"

	"github.com/pgavlin/dawn/label"
	starlark_os "github.com/pgavlin/dawn/lib/os"
	starlark_sh "github.com/pgavlin/dawn/lib/sh"
	"github.com/pgavlin/dawn/runner"
	"go.starlark.net/starlark"
)

type c05graph struct {
	name    string
	n       int
	deps    map[int][]int
	failing map[int]bool
	unknown map[int]bool
}

func (g *c05graph) edeps(l int) []int {
	if g.unknown[l] {
		return nil
	}
	return g.deps[l]
}

// cyclic: a dependency cycle is reachable from target 0 (a target that does not exist has no dependencies).
func (g *c05graph) cyclic() bool {
	color := make([]int, g.n)
	var dfs func(l int) bool
	dfs = func(l int) bool {
		color[l] = 1
		for _, d := range g.edeps(l) {
			if color[d] == 1 || (color[d] == 0 && dfs(d)) {
				return true
			}
		}
		color[l] = 2
		return false
	}
	return dfs(0)
}

func c05family() []*c05graph {
	var out []*c05graph
	for c := 1; c <= 4; c++ {
		for _, side := range []string{"ok", "fail", "unknown", "shared", "chain"} {
			for _, pos := range []string{"before", "after", "around"} {
				for _, closed := range []bool{true, false} {
					g := &c05graph{deps: map[int][]int{}, failing: map[int]bool{}, unknown: map[int]bool{}}
					n := c
					shared := -1
					mk := func() int {
						switch side {
						case "shared":
							if shared < 0 {
								shared = n
								n++
							}
							return shared
						case "chain":
							a, b := n, n+1
							n += 2
							g.deps[a] = []int{b}
							return a
						}
						s := n
						n++
						if side == "fail" {
							g.failing[s] = true
						} else if side == "unknown" {
							g.unknown[s] = true
						}
						return s
					}
					for i := 0; i < c; i++ {
						var mid []int
						if closed || i < c-1 {
							mid = []int{(i + 1) % c}
						}
						switch pos {
						case "before":
							g.deps[i] = append([]int{mk()}, mid...)
						case "after":
							g.deps[i] = append(mid, mk())
						default:
							g.deps[i] = append(append([]int{mk()}, mid...), mk())
						}
					}
					g.n = n
					g.name = fmt.Sprintf("side_c%d_%s_%s", c, side, pos)
					if !closed {
						g.name += "_open"
					}
					out = append(out, g)
				}
			}
		}
	}
	fixed := []*c05graph{
		{name: "selfloop", n: 1, deps: map[int][]int{0: {0}}},
		{name: "cycle2", n: 2, deps: map[int][]int{0: {1}, 1: {0}}},
		{name: "cycle3", n: 3, deps: map[int][]int{0: {1}, 1: {2}, 2: {0}}},
		{name: "cycle5", n: 5, deps: map[int][]int{0: {1}, 1: {2}, 2: {3}, 3: {4}, 4: {0}}},
		{name: "tail_c2", n: 5, deps: map[int][]int{0: {3, 1}, 1: {4, 2}, 2: {4, 1}}},
		{name: "tail_c3_fail", n: 6, deps: map[int][]int{0: {4, 1}, 1: {5, 2}, 2: {3}, 3: {4, 1}}, failing: map[int]bool{5: true}},
		{name: "cycle4_chords", n: 4, deps: map[int][]int{0: {1, 2}, 1: {2, 3}, 2: {3, 0}, 3: {0, 1}}},
		{name: "two_cycles_shared_member", n: 5, deps: map[int][]int{0: {1, 3}, 1: {2}, 2: {0}, 3: {4}, 4: {0}}},
		{name: "overlap_cycles", n: 4, deps: map[int][]int{0: {1}, 1: {2, 0}, 2: {0, 3}, 3: {1}}},
		{name: "cycle_through_unknown_is_none", n: 3, deps: map[int][]int{0: {1}, 1: {2}}, unknown: map[int]bool{2: true}},
		{name: "diamond", n: 4, deps: map[int][]int{0: {1, 2}, 1: {3}, 2: {3}}},
		{name: "diamond_fail_leaf", n: 4, deps: map[int][]int{0: {1, 2}, 1: {3}, 2: {3}}, failing: map[int]bool{3: true}},
		{name: "layered", n: 8, deps: map[int][]int{0: {1, 2}, 1: {3, 4}, 2: {3, 4}, 3: {5, 6}, 4: {5, 6}, 5: {7}, 6: {7}}},
		{name: "single", n: 1, deps: map[int][]int{}},
	}
	for _, g := range fixed {
		if g.failing == nil {
			g.failing = map[int]bool{}
		}
		if g.unknown == nil {
			g.unknown = map[int]bool{}
		}
	}
	return append(out, fixed...)
}

func (g *c05graph) buildFile() string {
	var b strings.Builder
	for l := 0; l < g.n; l++ {
		if g.unknown[l] {
			continue // referenced, never defined
		}
		var ds []string
		for _, d := range g.deps[l] {
			ds = append(ds, fmt.Sprintf("%q", fmt.Sprintf(":t%d", d)))
		}
		fmt.Fprintf(&b, "@target(deps=[%s])\ndef t%d():\n", strings.Join(ds, ", "), l)
		if g.failing[l] {
			b.WriteString("    fail(\"body fails\")\n\n")
		} else {
			b.WriteString("    pass\n\n")
		}
	}
	return b.String()
}

type c05events struct {
	discardEventsT
	m      sync.Mutex
	cyclic []string // labels whose TargetFailed carried a CyclicDependencyError
	failed []string // label: error text of every TargetFailed
}

func (e *c05events) TargetFailed(l *label.Label, err error) {
	e.m.Lock()
	defer e.m.Unlock()
	e.failed = append(e.failed, l.String()+": "+err.Error())
	var cyc runner.CyclicDependencyError
	if errors.As(err, &cyc) {
		e.cyclic = append(e.cyclic, l.String())
	}
}

func TestVerifC05EndToEnd(t *testing.T) {
	outPath := os.Getenv("VERIF_E2E_OUT")
	if outPath == "" {
		t.Skip("VERIF_E2E_OUT not set")
	}
	f, err := os.Create(outPath)
	if err != nil {
		t.Fatal(err)
	}
	defer f.Close()
	out := bufio.NewWriter(f)
	defer out.Flush()
	rounds := 2
	if s := os.Getenv("VERIF_E2E_ROUNDS"); s != "" {
		fmt.Sscan(s, &rounds)
	}
	t.Setenv("HOME", t.TempDir()) // dawn.Load looks at $HOME/.dawn

	build := 0
	oracle := func(name, detail string) {
		fmt.Fprintf(out, "ORACLE\t%s\t%d\t%s\n", name, build, detail)
	}
	for _, g := range c05family() {
		for round := 0; round < rounds; round++ {
			build++
			root := t.TempDir()
			if err := os.WriteFile(filepath.Join(root, "dawn.toml"), nil, 0o600); err != nil {
				t.Fatal(err)
			}
			src := g.buildFile()
			if err := os.WriteFile(filepath.Join(root, "BUILD.dawn"), []byte(src), 0o600); err != nil {
				t.Fatal(err)
			}
			ev := &c05events{}
			rec := map[string]any{"build": build, "graph": g.name, "round": round, "cyclic": g.cyclic(), "build_file": src}
			proj, err := Load(root, &LoadOptions{Events: ev, Builtins: starlark.StringDict{"os": starlark_os.Module, "sh": starlark_sh.Module}})
			if err != nil {
				rec["load_error"] = err.Error()
				b, _ := json.Marshal(rec)
				out.Write(append(b, '\n'))
				oracle("harness_load", "the generated project does not load: "+err.Error())
				continue
			}
			lbl, err := label.Parse("//:t0")
			if err != nil {
				t.Fatal(err)
			}
			done := make(chan error, 1)
			go func() { done <- proj.Run(lbl, &RunOptions{}) }()
			var runErr error
			select {
			case runErr = <-done:
			case <-time.After(20 * time.Second):
				rec["hung"] = true
				b, _ := json.Marshal(rec)
				out.Write(append(b, '\n'))
				oracle("terminates", fmt.Sprintf("Project.Run(//:t0) did not return within 20 s (graph %s)", g.name))
				fmt.Fprintf(out, "END\taborted\n")
				out.Flush()
				return
			}
			ev.m.Lock()
			cyc := append([]string{}, ev.cyclic...)
			failed := append([]string{}, ev.failed...)
			ev.m.Unlock()
			sort.Strings(cyc)
			sort.Strings(failed)
			rec["run_error"] = fmt.Sprint(runErr)
			rec["cyclic_reports"] = cyc
			rec["target_failed"] = failed
			b, _ := json.Marshal(rec)
			out.Write(append(b, '\n'))
			if g.cyclic() {
				if runErr == nil {
					oracle("cyclic_build_fails", "a cycle is reachable from //:t0 but Project.Run returned nil")
				}
				if len(cyc) == 0 {
					oracle("cycle_reported_e2e", fmt.Sprintf("a cycle is reachable from //:t0, the build ended with %q, but no TargetFailed event "+
						"carries a CyclicDependencyError; TargetFailed events: %q", fmt.Sprint(runErr), failed))
				}
			} else {
				if len(cyc) != 0 {
					oracle("no_false_cycle_e2e", fmt.Sprintf("no cycle is reachable from //:t0 but a cyclic-dependency error was reported for %v", cyc))
				}
				var ce runner.CyclicDependencyError
				if errors.As(runErr, &ce) {
					oracle("no_false_cycle_e2e", "no cycle is reachable from //:t0 but Project.Run returned a CyclicDependencyError")
				}
				anyBad := len(g.failing) > 0 || len(g.unknown) > 0
				if !anyBad && runErr != nil {
					oracle("harness_sanity", fmt.Sprintf("all targets exist and succeed, no cycle, but Project.Run returned %v", runErr))
				}
			}
		}
	}
	fmt.Fprintf(out, "END\t%d\n", build)
}
