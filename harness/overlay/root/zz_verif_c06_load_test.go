package dawn

// Correspondence harness for C06 (module loading): generates projects from load graphs in temp dirs, loads
// them with Load under a watchdog and seeded jitter, records the verifhook log, the ModuleLoading events,
// Load's error and the resulting targets/flags.  One JSON line per run goes to $VERIF_OUT; the check
// (checks/C06.py) evaluates the direct oracles and has the Coq model replay every hook log.

import (
	"bufio"
	"encoding/json"
	"fmt"
	"math/rand"
	"os"
	"path/filepath"
	"runtime"
	"sort"
	"strconv"
	"strings"
	"sync"
	"testing"
	"time"

	"github.com/pgavlin/dawn/internal/verifhook"
	"github.com/pgavlin/dawn/label"
)

type c06Pkg struct {
	Dir   string   `json:"dir"` // "" = project root
	Loads []string `json:"loads"`
	Flag  bool     `json:"flag"`
}

type c06Scenario struct {
	Class string              `json:"class"`
	Mods  map[string][]string `json:"mods"` // module name -> names it loads (file //:<name>.dawn)
	Pkgs  []c06Pkg            `json:"pkgs"`
}

type c06Run struct {
	ID       int                 `json:"id"`
	Class    string              `json:"class"`
	Mods     map[string][]string `json:"mods"`
	Pkgs     []c06Pkg            `json:"pkgs"`
	JSeed    int64               `json:"jseed"`
	Hang     bool                `json:"hang"`
	Panic    string              `json:"panic,omitempty"`
	Err      string              `json:"err"`
	Loading  map[string]int      `json:"loading"`
	Targets  []string            `json:"targets"`
	Flags    []string            `json:"flags"`
	Log      [][]string          `json:"log"`
	Millis   int64               `json:"ms"`
	MaxProcs int                 `json:"procs"`
}

// ---------------------------------------------------------------------------------------------------------
// events recorder

type c06Events struct {
	discardEventsT
	mu      sync.Mutex
	loading map[string]int
}

func (e *c06Events) ModuleLoading(l *label.Label) {
	e.mu.Lock()
	e.loading[l.String()]++
	e.mu.Unlock()
}

// ---------------------------------------------------------------------------------------------------------
// hook log + jitter

func c06gid() string {
	var buf [64]byte
	n := runtime.Stack(buf[:], false)
	f := strings.Fields(string(buf[:n]))
	if len(f) >= 2 {
		return f[1]
	}
	return "?"
}

type c06Log struct {
	mu     sync.Mutex
	rng    *rand.Rand
	events [][]string
	jitter bool
	stop   bool
}

var c06OutOfLock = map[string]bool{"chain.hop": true, "chain.cycle": true, "module.wait": true, "module.exec": true}

func (l *c06Log) handle(point string, args ...any) {
	if !strings.HasPrefix(point, "registry.") && !strings.HasPrefix(point, "edge.") &&
		!strings.HasPrefix(point, "chain.") && !strings.HasPrefix(point, "module.") {
		return
	}
	g := c06gid()
	ev := make([]string, 0, 2+len(args))
	ev = append(ev, g, point)
	for _, a := range args {
		ev = append(ev, fmt.Sprint(a))
	}
	l.mu.Lock()
	if l.stop {
		l.mu.Unlock()
		return
	}
	if len(l.events) < 200000 {
		l.events = append(l.events, ev)
	}
	action, dur := 0, 0
	if l.jitter {
		r := l.rng.Intn(100)
		if c06OutOfLock[point] {
			switch {
			case point == "chain.hop" && len(ev) >= 5 && ev[2] == ev[4] && r < 50:
				// the walker is about to report a cycle: hold the complete cycle for a while
				action, dur = 2, 200+l.rng.Intn(1500)
			case r < 35:
				action = 1
			case r < 70:
				action, dur = 2, 1+l.rng.Intn(120)
			case r < 75:
				action, dur = 2, 200+l.rng.Intn(800)
			}
		} else if r < 12 {
			action = 1
		} else if r < 18 {
			action, dur = 2, 1+l.rng.Intn(60)
		}
	}
	l.mu.Unlock()
	switch action {
	case 1:
		runtime.Gosched()
	case 2:
		time.Sleep(time.Duration(dur) * time.Microsecond)
	}
}

// ---------------------------------------------------------------------------------------------------------
// project generation

func c06Write(dir string, sc *c06Scenario) error {
	if err := os.WriteFile(filepath.Join(dir, "dawn.toml"), nil, 0o644); err != nil {
		return err
	}
	names := make([]string, 0, len(sc.Mods))
	for n := range sc.Mods {
		names = append(names, n)
	}
	sort.Strings(names)
	for _, n := range names {
		var b strings.Builder
		for i, d := range sc.Mods[n] {
			fmt.Fprintf(&b, "load(\"//:%s.dawn\", x%d=\"f_%s\")\n", d, i, d)
		}
		fmt.Fprintf(&b, "\ndef f_%s():\n    pass\n", n)
		if err := os.WriteFile(filepath.Join(dir, n+".dawn"), []byte(b.String()), 0o644); err != nil {
			return err
		}
	}
	for i, p := range sc.Pkgs {
		d := filepath.Join(dir, filepath.FromSlash(p.Dir))
		if err := os.MkdirAll(d, 0o755); err != nil {
			return err
		}
		var b strings.Builder
		for j, l := range p.Loads {
			fmt.Fprintf(&b, "load(\"//:%s.dawn\", x%d=\"f_%s\")\n", l, j, l)
		}
		fmt.Fprintf(&b, "\n@target()\ndef t%d():\n    pass\n", i)
		if p.Flag {
			fmt.Fprintf(&b, "\nfl%d = parse_flag(\"fl%d\")\n", i, i)
		}
		if err := os.WriteFile(filepath.Join(d, "BUILD.dawn"), []byte(b.String()), 0o644); err != nil {
			return err
		}
	}
	return nil
}

// ---------------------------------------------------------------------------------------------------------
// scenario generators

func c06Names(n int) []string {
	r := make([]string, n)
	for i := range r {
		r[i] = "m" + strconv.Itoa(i)
	}
	return r
}

func c06PkgsFor(entries [][]string, rootPkg bool) []c06Pkg {
	var ps []c06Pkg
	for i, e := range entries {
		dir := "p" + strconv.Itoa(i)
		if i == 0 && rootPkg {
			dir = ""
		}
		if i%3 == 2 {
			dir = "q/p" + strconv.Itoa(i) // nested package directory
		}
		ps = append(ps, c06Pkg{Dir: dir, Loads: e, Flag: i%2 == 0})
	}
	return ps
}

func c06Fixed() []c06Scenario {
	var out []c06Scenario
	add := func(class string, mods map[string][]string, entries [][]string) {
		out = append(out, c06Scenario{Class: class, Mods: mods, Pkgs: c06PkgsFor(entries, len(out)%2 == 0)})
	}
	// chains m0 -> m1 -> ... entered at several points by 1..3 packages
	for n := 1; n <= 5; n++ {
		mods := map[string][]string{}
		nm := c06Names(n)
		for i := 0; i < n; i++ {
			if i+1 < n {
				mods[nm[i]] = []string{nm[i+1]}
			} else {
				mods[nm[i]] = nil
			}
		}
		add("chain", mods, [][]string{{nm[0]}})
		if n >= 2 {
			add("chain", mods, [][]string{{nm[0]}, {nm[n-1]}})
			add("chain", mods, [][]string{{nm[0]}, {nm[n/2]}, {nm[n-1], nm[0]}})
		}
	}
	// diamonds
	dia := map[string][]string{"m0": {"m1", "m2"}, "m1": {"m3"}, "m2": {"m3"}, "m3": nil}
	add("diamond", dia, [][]string{{"m0"}})
	add("diamond", dia, [][]string{{"m0"}, {"m0"}})
	add("diamond", dia, [][]string{{"m1"}, {"m2"}, {"m0"}})
	add("diamond", dia, [][]string{{"m1", "m2"}, {"m2", "m1"}})
	// shared helper that itself loads other modules (the acyclic F4 witness)
	hlp := map[string][]string{"m0": {"m1", "m2"}, "m1": {"m2"}, "m2": nil}
	add("helper", hlp, [][]string{{"m0"}, {"m0"}})
	add("helper", hlp, [][]string{{"m0"}, {"m0"}, {"m0"}, {"m0"}})
	add("helper", hlp, [][]string{{"m0"}, {"m1"}, {"m2"}, {"m0", "m1", "m2"}})
	hlp2 := map[string][]string{"m0": {"m1"}, "m1": {"m2", "m3"}, "m2": {"m3"}, "m3": nil, "m4": {"m0", "m3"}}
	add("helper", hlp2, [][]string{{"m4"}, {"m0"}, {"m1"}})
	add("helper", hlp2, [][]string{{"m4", "m0"}, {"m0", "m4"}, {"m3"}, {"m2"}})
	// a module loaded twice by the same file
	add("twice", map[string][]string{"m0": {"m1", "m1"}, "m1": nil}, [][]string{{"m0", "m0"}, {"m1", "m0"}})
	// self loads
	add("self", map[string][]string{"m0": {"m0"}}, [][]string{{"m0"}})
	add("self", map[string][]string{"m0": {"m0"}}, [][]string{{"m0"}, {"m0"}})
	add("self", map[string][]string{"m0": {"m1"}, "m1": {"m1"}}, [][]string{{"m0"}, {"m1"}})
	// k-cycles entered from 1..k packages, with and without a tail
	for k := 2; k <= 4; k++ {
		nm := c06Names(k)
		mods := map[string][]string{}
		for i := 0; i < k; i++ {
			mods[nm[i]] = []string{nm[(i+1)%k]}
		}
		add("cycle"+strconv.Itoa(k), mods, [][]string{{nm[0]}})
		var all [][]string
		for i := 0; i < k; i++ {
			all = append(all, []string{nm[i]})
			add("cycle"+strconv.Itoa(k), mods, append([][]string{}, all...))
		}
		// tail: x -> m0, entered also from a package of its own
		tail := map[string][]string{"x": {nm[0]}}
		for a, b := range mods {
			tail[a] = b
		}
		add("cycle"+strconv.Itoa(k)+"tail", tail, append([][]string{{"x"}}, all...))
		add("cycle"+strconv.Itoa(k)+"tail", tail, [][]string{{"x"}, {"x"}, {nm[k-1]}})
		// a cycle plus an unrelated acyclic part
		mix := map[string][]string{"y": {"z"}, "z": nil}
		for a, b := range mods {
			mix[a] = b
		}
		add("cycle"+strconv.Itoa(k)+"mix", mix, [][]string{{"y"}, {nm[0]}, {"z", nm[1]}})
	}
	// a cyclic part that no package reaches (must load fine)
	add("unreached", map[string][]string{"m0": {"m1"}, "m1": nil, "m2": {"m3"}, "m3": {"m2"}}, [][]string{{"m0"}, {"m1"}})
	// two cycles sharing a node
	add("twocycles", map[string][]string{"m0": {"m1", "m2"}, "m1": {"m0"}, "m2": {"m0"}}, [][]string{{"m0"}, {"m1"}, {"m2"}})
	return out
}

func c06Random(rng *rand.Rand, acyclic bool) c06Scenario {
	n := 2 + rng.Intn(6)
	nm := c06Names(n)
	mods := map[string][]string{}
	for i := 0; i < n; i++ {
		var ls []string
		k := rng.Intn(4)
		for j := 0; j < k; j++ {
			var t int
			if acyclic {
				if i+1 >= n {
					break
				}
				t = i + 1 + rng.Intn(n-i-1)
			} else {
				t = rng.Intn(n)
			}
			ls = append(ls, nm[t])
		}
		mods[nm[i]] = ls
	}
	np := 1 + rng.Intn(4)
	var entries [][]string
	for p := 0; p < np; p++ {
		k := 1 + rng.Intn(3)
		var e []string
		for j := 0; j < k; j++ {
			e = append(e, nm[rng.Intn(n)])
		}
		entries = append(entries, e)
	}
	class := "random"
	if acyclic {
		class = "randomdag"
	}
	return c06Scenario{Class: class, Mods: mods, Pkgs: c06PkgsFor(entries, rng.Intn(2) == 0)}
}

// ---------------------------------------------------------------------------------------------------------

func c06RunOne(id int, sc *c06Scenario, jseed int64, watchdog time.Duration) *c06Run {
	res := &c06Run{ID: id, Class: sc.Class, Mods: sc.Mods, Pkgs: sc.Pkgs, JSeed: jseed, MaxProcs: runtime.GOMAXPROCS(0)}
	dir, err := os.MkdirTemp("", "verif-c06-")
	if err != nil {
		res.Panic = "mkdtemp: " + err.Error()
		return res
	}
	defer os.RemoveAll(dir)
	if err := c06Write(dir, sc); err != nil {
		res.Panic = "write: " + err.Error()
		return res
	}

	lg := &c06Log{rng: rand.New(rand.NewSource(jseed)), jitter: jseed != 0}
	evs := &c06Events{loading: map[string]int{}}
	verifhook.SetHandler(lg.handle)
	defer verifhook.SetHandler(nil)

	type outcome struct {
		proj *Project
		err  error
		pan  string
	}
	ch := make(chan outcome, 1)
	t0 := time.Now()
	go func() {
		var o outcome
		defer func() {
			if x := recover(); x != nil {
				o.pan = fmt.Sprint(x)
			}
			ch <- o
		}()
		o.proj, o.err = Load(dir, &LoadOptions{Events: evs})
	}()
	var o outcome
	select {
	case o = <-ch:
	case <-time.After(watchdog):
		res.Hang = true
	}
	res.Millis = time.Since(t0).Milliseconds()

	lg.mu.Lock()
	lg.stop = true
	res.Log = lg.events
	lg.mu.Unlock()
	evs.mu.Lock()
	res.Loading = map[string]int{}
	for k, v := range evs.loading {
		res.Loading[k] = v
	}
	evs.mu.Unlock()
	res.Panic = o.pan
	if o.err != nil {
		res.Err = o.err.Error()
	}
	res.Targets, res.Flags = []string{}, []string{}
	if !res.Hang && o.err == nil && o.proj != nil {
		for _, t := range o.proj.Targets() {
			res.Targets = append(res.Targets, t.Label().String())
		}
		for _, f := range o.proj.Flags() {
			res.Flags = append(res.Flags, f.Name)
		}
	}
	return res
}

func TestVerifC06(t *testing.T) {
	outPath := os.Getenv("VERIF_OUT")
	if outPath == "" {
		t.Skip("VERIF_OUT not set")
	}
	seed, _ := strconv.ParseInt(os.Getenv("VERIF_SEED"), 10, 64)
	nrand, _ := strconv.Atoi(os.Getenv("VERIF_NRAND"))
	reps, _ := strconv.Atoi(os.Getenv("VERIF_REPS"))
	if reps == 0 {
		reps = 3
	}
	wd, _ := strconv.Atoi(os.Getenv("VERIF_WATCHDOG_MS"))
	if wd == 0 {
		wd = 8000
	}
	f, err := os.Create(outPath)
	if err != nil {
		t.Fatal(err)
	}
	defer f.Close()
	w := bufio.NewWriterSize(f, 1<<20)
	defer w.Flush()
	enc := json.NewEncoder(w)

	rng := rand.New(rand.NewSource(seed*7919 + 17))
	scs := c06Fixed()
	for i := 0; i < nrand; i++ {
		scs = append(scs, c06Random(rng, i%2 == 0))
	}
	id := 0
	hangs := 0
	for i := range scs {
		for r := 0; r < reps; r++ {
			js := int64(0) // first repetition: no jitter
			if r > 0 {
				js = seed*1000003 + int64(i)*131 + int64(r)
			}
			res := c06RunOne(id, &scs[i], js, time.Duration(wd)*time.Millisecond)
			id++
			if err := enc.Encode(res); err != nil {
				t.Fatal(err)
			}
			if res.Hang {
				hangs++
				if hangs >= 6 { // every hang costs a watchdog period: stop early, the check reports them
					return
				}
				break
			}
		}
	}
}
