package dawn

// Correspondence harness for C06 (module loading): generates projects from load graphs in temp dirs, loads
// them with Load under a watchdog and seeded jitter, records the verifhook log, the ModuleLoading events,
// Load's error and the resulting targets/flags.  One JSON line per run goes to $VERIF_OUT; the check
// (checks/C06.py) evaluates the direct oracles and has the Coq model replay every hook log.

import (
	"bufio"
	"encoding/json"
	"fmt"
	"math/rand"
	"os"
	"path/filepath"
	"runtime"
	"sort"
	"strconv"
	"strings"
	"sync"
	"testing"
	"time"

	"github.com/mitchellh/go-homedir"
	"github.com/pgavlin/dawn/internal/verifhook"
	"github.com/pgavlin/dawn/label"
)

// c06Fault makes a module file fail by itself (not because of a load cycle):
//
//	missing      the file does not exist                       (ExecFile cannot open it)
//	dir          a directory stands where the file should be   (ExecFile cannot read it)
//	syntax       the file does not parse                       (none of its load statements runs)
//	unknownproj  the module lives in a project that is not in the build list: every load statement names it as
//	             example.com/lib//:<name>.dawn and module.env fails before ExecFile
//	fail         fail("...") after the first At load statements
//	badsym       load statement number At (1-based) asks for a name its module does not define
type c06Fault struct {
	Kind string `json:"kind"`
	At   int    `json:"at"`
}

type c06Pkg struct {
	Dir   string    `json:"dir"` // "" = project root
	Loads []string  `json:"loads"`
	Raw   []string  `json:"raw,omitempty"` // the label text of each load statement (default: c06Ref)
	Flag  bool      `json:"flag"`
	Fault *c06Fault `json:"fault,omitempty"` // syntax / fail / badsym only
}

// A load statement is described by the FILE it names: a module name (file <Dirs[name]>/<name>.dawn of the project
// Proj[name], the project under test when empty) or "@<dir>" (the package file <dir>/BUILD.dawn of the project under
// test).  Raw holds the label text that the statement spells it with (the spelling family: explicit kinds, relative
// labels, redundant slashes, omitted names, requirement aliases); without Raw the text is c06Ref's plain form.
type c06Scenario struct {
	Class  string              `json:"class"`
	Mods   map[string][]string `json:"mods"` // module name -> files it loads
	Pkgs   []c06Pkg            `json:"pkgs"`
	Dirs   map[string]string   `json:"dirs,omitempty"` // module name -> package directory of its file ("" = root)
	Proj   map[string]string   `json:"proj,omitempty"` // module name -> path of the (required, cached) project it lives in
	Raw    map[string][]string `json:"raw,omitempty"`  // module name -> label text of each of its load statements
	Reqs   map[string]string   `json:"reqs,omitempty"` // requirements of the project under test: alias -> project path
	Faults map[string]c06Fault `json:"faults,omitempty"`
	RvMods []string            `json:"rvmods,omitempty"` // second rendezvous: every one of these modules is executing
	Reps   int                 `json:"-"`                // 0 = the default number of repetitions
}

type c06Run struct {
	ID       int                 `json:"id"`
	Class    string              `json:"class"`
	Mods     map[string][]string `json:"mods"`
	Pkgs     []c06Pkg            `json:"pkgs"`
	Dirs     map[string]string   `json:"dirs,omitempty"`
	Proj     map[string]string   `json:"proj,omitempty"`
	Raw      map[string][]string `json:"raw,omitempty"`
	Reqs     map[string]string   `json:"reqs,omitempty"`
	Faults   map[string]c06Fault `json:"faults,omitempty"`
	RvMods   []string            `json:"rvmods,omitempty"`
	Rv       bool                `json:"rendezvous"`
	RvLate   int                 `json:"rv_timeouts"`
	JSeed    int64               `json:"jseed"`
	Hang     bool                `json:"hang"`
	Panic    string              `json:"panic,omitempty"`
	Err      string              `json:"err"`
	Loading  map[string]int      `json:"loading"`
	Ran      map[string]int      `json:"ran"` // file (module name or @dir) -> number of times its first statement ran
	Targets  []string            `json:"targets"`
	Flags    []string            `json:"flags"`
	Log      [][]string          `json:"log"`
	Millis   int64               `json:"ms"`
	MaxProcs int                 `json:"procs"`
}

// ---------------------------------------------------------------------------------------------------------
// events recorder

type c06Events struct {
	discardEventsT
	mu      sync.Mutex
	loading map[string]int
	ran     map[string]int
}

func (e *c06Events) ModuleLoading(l *label.Label) {
	e.mu.Lock()
	e.loading[l.String()]++
	e.mu.Unlock()
}

// Print: every generated file starts with print("x:<file>"), so that an execution of the FILE is observed whatever
// label the loader knows it by.
func (e *c06Events) Print(l *label.Label, msg string) {
	if strings.HasPrefix(msg, "x:") {
		e.mu.Lock()
		e.ran[msg[2:]]++
		e.mu.Unlock()
	}
}

// ---------------------------------------------------------------------------------------------------------
// hook log + jitter

func c06gid() string {
	var buf [64]byte
	n := runtime.Stack(buf[:], false)
	f := strings.Fields(string(buf[:n]))
	if len(f) >= 2 {
		return f[1]
	}
	return "?"
}

// c06Rendezvous is a directed schedule: the goroutines that enter module.load of one of the labels in want block
// there until every label in want is being executed (or the timeout passes: the loader serialised them).  With
// want = all package files, every package is mid-execution before any of them reaches its first load statement.
type c06Rendezvous struct {
	mu      sync.Mutex
	want    map[string]bool
	arrived int
	ch      chan struct{}
	late    int
}

func c06NewRendezvous(labels []string) *c06Rendezvous {
	rv := &c06Rendezvous{want: map[string]bool{}, ch: make(chan struct{})}
	for _, l := range labels {
		rv.want[l] = true
	}
	return rv
}

func (rv *c06Rendezvous) arrive(label string) {
	rv.mu.Lock()
	if !rv.want[label] {
		rv.mu.Unlock()
		return
	}
	delete(rv.want, label)
	rv.arrived++
	if len(rv.want) == 0 {
		close(rv.ch)
	}
	rv.mu.Unlock()
	select {
	case <-rv.ch:
	case <-time.After(150 * time.Millisecond):
		rv.mu.Lock()
		rv.late++
		rv.mu.Unlock()
	}
}

type c06Log struct {
	mu     sync.Mutex
	rng    *rand.Rand
	events [][]string
	jitter bool
	stop   bool
	rvs    []*c06Rendezvous
}

var c06OutOfLock = map[string]bool{"chain.hop": true, "chain.cycle": true, "module.wait": true, "module.exec": true}

func (l *c06Log) handle(point string, args ...any) {
	if !strings.HasPrefix(point, "registry.") && !strings.HasPrefix(point, "edge.") &&
		!strings.HasPrefix(point, "chain.") && !strings.HasPrefix(point, "module.") {
		return
	}
	g := c06gid()
	ev := make([]string, 0, 2+len(args))
	ev = append(ev, g, point)
	for _, a := range args {
		ev = append(ev, fmt.Sprint(a))
	}
	l.mu.Lock()
	if l.stop {
		l.mu.Unlock()
		return
	}
	if len(l.events) < 200000 {
		l.events = append(l.events, ev)
	}
	action, dur := 0, 0
	if l.jitter {
		r := l.rng.Intn(100)
		if c06OutOfLock[point] {
			switch {
			case point == "chain.hop" && len(ev) >= 5 && ev[2] == ev[4] && r < 50:
				// the walker is about to report a cycle: hold the complete cycle for a while
				action, dur = 2, 200+l.rng.Intn(1500)
			case r < 35:
				action = 1
			case r < 70:
				action, dur = 2, 1+l.rng.Intn(120)
			case r < 75:
				action, dur = 2, 200+l.rng.Intn(800)
			}
		} else if r < 12 {
			action = 1
		} else if r < 18 {
			action, dur = 2, 1+l.rng.Intn(60)
		}
	}
	l.mu.Unlock()
	if point == "module.exec" && len(ev) >= 3 {
		for _, rv := range l.rvs {
			rv.arrive(ev[2])
		}
	}
	switch action {
	case 1:
		runtime.Gosched()
	case 2:
		time.Sleep(time.Duration(dur) * time.Microsecond)
	}
}

// ---------------------------------------------------------------------------------------------------------
// project generation

const c06UnknownProject = "example.com/lib"

const c06ReqVersion = "v1.0.0" // every requirement of a generated project is at this version

// c06IsPkg: the load entry names a package file ("@<dir>") rather than a module.
func c06IsPkg(d string) bool { return strings.HasPrefix(d, "@") }

// c06Ref is the plain label text for file d: [project]//<dir>:<file>.
func c06Ref(sc *c06Scenario, d string) string {
	if c06IsPkg(d) {
		return "//" + d[1:] + ":BUILD.dawn"
	}
	if f, ok := sc.Faults[d]; ok && f.Kind == "unknownproj" {
		return c06UnknownProject + "//:" + d + ".dawn"
	}
	return sc.Proj[d] + "//" + sc.Dirs[d] + ":" + d + ".dawn"
}

// c06ModLabel / c06PkgLabel: the String() of the module's label, as the hooks report it.
func c06ModLabel(sc *c06Scenario, d string) string {
	if c06IsPkg(d) {
		return c06PkgLabel(d[1:])
	}
	return "module:" + c06Ref(sc, d)
}

func c06PkgLabel(dir string) string { return "module://" + dir + ":BUILD.dawn" }

// c06Sym: the name a load statement imports from file d.
func c06Sym(d string) string {
	if c06IsPkg(d) {
		return "f_pkg"
	}
	return "f_" + d
}

// c06Body renders the first statement of file self (the execution marker), its load statements (raw[i], when given,
// is the label text of statement i) and the fault, if any, at its place among them.
func c06Body(sc *c06Scenario, self string, loads []string, raw []string, f *c06Fault) string {
	var b strings.Builder
	fmt.Fprintf(&b, "print(%q)\n", "x:"+self)
	for i, d := range loads {
		if f != nil && f.Kind == "fail" && f.At == i {
			b.WriteString("fail(\"boom\")\n")
		}
		sym := c06Sym(d)
		if f != nil && f.Kind == "badsym" && f.At == i+1 {
			sym = "no_such_name"
		}
		ref := c06Ref(sc, d)
		if i < len(raw) {
			ref = raw[i]
		}
		fmt.Fprintf(&b, "load(%q, x%d=%q)\n", ref, i, sym)
	}
	if f != nil && f.Kind == "fail" && f.At >= len(loads) {
		b.WriteString("fail(\"boom\")\n")
	}
	if f != nil && f.Kind == "syntax" {
		b.WriteString("def (:\n")
	}
	return b.String()
}

// c06Write writes the project under test into dir and, for a scenario with requirements, the download cache
// home/.dawn/modules/cache with one entry per required project (so that nothing is fetched).
func c06Write(dir, home string, sc *c06Scenario) error {
	var toml strings.Builder
	if len(sc.Reqs) > 0 {
		toml.WriteString("[requirements]\n")
		aliases := make([]string, 0, len(sc.Reqs))
		for a := range sc.Reqs {
			aliases = append(aliases, a)
		}
		sort.Strings(aliases)
		for _, a := range aliases {
			fmt.Fprintf(&toml, "%s = { path = %q, version = %q }\n", a, sc.Reqs[a], c06ReqVersion)
			entry := filepath.Join(home, ".dawn", "modules", "cache", filepath.FromSlash(sc.Reqs[a])+"@"+c06ReqVersion)
			if err := os.MkdirAll(entry, 0o755); err != nil {
				return err
			}
			if err := os.WriteFile(filepath.Join(entry, "dawn.toml"), nil, 0o644); err != nil {
				return err
			}
		}
	}
	if err := os.WriteFile(filepath.Join(dir, "dawn.toml"), []byte(toml.String()), 0o644); err != nil {
		return err
	}
	names := make([]string, 0, len(sc.Mods))
	for n := range sc.Mods {
		names = append(names, n)
	}
	sort.Strings(names)
	for _, n := range names {
		base := dir
		if p := sc.Proj[n]; p != "" {
			base = filepath.Join(home, ".dawn", "modules", "cache", filepath.FromSlash(p)+"@"+c06ReqVersion)
		}
		mdir := filepath.Join(base, filepath.FromSlash(sc.Dirs[n]))
		if err := os.MkdirAll(mdir, 0o755); err != nil {
			return err
		}
		var f *c06Fault
		if ff, ok := sc.Faults[n]; ok {
			f = &ff
			switch ff.Kind {
			case "missing", "unknownproj":
				continue
			case "dir":
				if err := os.MkdirAll(filepath.Join(mdir, n+".dawn"), 0o755); err != nil {
					return err
				}
				continue
			}
		}
		body := c06Body(sc, n, sc.Mods[n], sc.Raw[n], f) + fmt.Sprintf("\ndef f_%s():\n    pass\n", n)
		if err := os.WriteFile(filepath.Join(mdir, n+".dawn"), []byte(body), 0o644); err != nil {
			return err
		}
	}
	for i, p := range sc.Pkgs {
		d := filepath.Join(dir, filepath.FromSlash(p.Dir))
		if err := os.MkdirAll(d, 0o755); err != nil {
			return err
		}
		var b strings.Builder
		b.WriteString(c06Body(sc, "@"+p.Dir, p.Loads, p.Raw, p.Fault))
		fmt.Fprintf(&b, "\n@target()\ndef t%d():\n    pass\n\ndef f_pkg():\n    pass\n", i)
		if p.Flag {
			fmt.Fprintf(&b, "\nfl%d = parse_flag(\"fl%d\")\n", i, i)
		}
		if err := os.WriteFile(filepath.Join(d, "BUILD.dawn"), []byte(b.String()), 0o644); err != nil {
			return err
		}
	}
	return nil
}

// ---------------------------------------------------------------------------------------------------------
// scenario generators

func c06Names(n int) []string {
	r := make([]string, n)
	for i := range r {
		r[i] = "m" + strconv.Itoa(i)
	}
	return r
}

func c06PkgsFor(entries [][]string, rootPkg bool) []c06Pkg {
	var ps []c06Pkg
	for i, e := range entries {
		dir := "p" + strconv.Itoa(i)
		if i == 0 && rootPkg {
			dir = ""
		}
		if i%3 == 2 {
			dir = "q/p" + strconv.Itoa(i) // nested package directory
		}
		ps = append(ps, c06Pkg{Dir: dir, Loads: e, Flag: i%2 == 0})
	}
	return ps
}

func c06Fixed() []c06Scenario {
	var out []c06Scenario
	add := func(class string, mods map[string][]string, entries [][]string) {
		out = append(out, c06Scenario{Class: class, Mods: mods, Pkgs: c06PkgsFor(entries, len(out)%2 == 0)})
	}
	// chains m0 -> m1 -> ... entered at several points by 1..3 packages
	for n := 1; n <= 5; n++ {
		mods := map[string][]string{}
		nm := c06Names(n)
		for i := 0; i < n; i++ {
			if i+1 < n {
				mods[nm[i]] = []string{nm[i+1]}
			} else {
				mods[nm[i]] = nil
			}
		}
		add("chain", mods, [][]string{{nm[0]}})
		if n >= 2 {
			add("chain", mods, [][]string{{nm[0]}, {nm[n-1]}})
			add("chain", mods, [][]string{{nm[0]}, {nm[n/2]}, {nm[n-1], nm[0]}})
		}
	}
	// diamonds
	dia := map[string][]string{"m0": {"m1", "m2"}, "m1": {"m3"}, "m2": {"m3"}, "m3": nil}
	add("diamond", dia, [][]string{{"m0"}})
	add("diamond", dia, [][]string{{"m0"}, {"m0"}})
	add("diamond", dia, [][]string{{"m1"}, {"m2"}, {"m0"}})
	add("diamond", dia, [][]string{{"m1", "m2"}, {"m2", "m1"}})
	// shared helper that itself loads other modules (the acyclic F4 witness)
	hlp := map[string][]string{"m0": {"m1", "m2"}, "m1": {"m2"}, "m2": nil}
	add("helper", hlp, [][]string{{"m0"}, {"m0"}})
	add("helper", hlp, [][]string{{"m0"}, {"m0"}, {"m0"}, {"m0"}})
	add("helper", hlp, [][]string{{"m0"}, {"m1"}, {"m2"}, {"m0", "m1", "m2"}})
	hlp2 := map[string][]string{"m0": {"m1"}, "m1": {"m2", "m3"}, "m2": {"m3"}, "m3": nil, "m4": {"m0", "m3"}}
	add("helper", hlp2, [][]string{{"m4"}, {"m0"}, {"m1"}})
	add("helper", hlp2, [][]string{{"m4", "m0"}, {"m0", "m4"}, {"m3"}, {"m2"}})
	// a module loaded twice by the same file
	add("twice", map[string][]string{"m0": {"m1", "m1"}, "m1": nil}, [][]string{{"m0", "m0"}, {"m1", "m0"}})
	// self loads
	add("self", map[string][]string{"m0": {"m0"}}, [][]string{{"m0"}})
	add("self", map[string][]string{"m0": {"m0"}}, [][]string{{"m0"}, {"m0"}})
	add("self", map[string][]string{"m0": {"m1"}, "m1": {"m1"}}, [][]string{{"m0"}, {"m1"}})
	// k-cycles entered from 1..k packages, with and without a tail
	for k := 2; k <= 4; k++ {
		nm := c06Names(k)
		mods := map[string][]string{}
		for i := 0; i < k; i++ {
			mods[nm[i]] = []string{nm[(i+1)%k]}
		}
		add("cycle"+strconv.Itoa(k), mods, [][]string{{nm[0]}})
		var all [][]string
		for i := 0; i < k; i++ {
			all = append(all, []string{nm[i]})
			add("cycle"+strconv.Itoa(k), mods, append([][]string{}, all...))
		}
		// tail: x -> m0, entered also from a package of its own
		tail := map[string][]string{"x": {nm[0]}}
		for a, b := range mods {
			tail[a] = b
		}
		add("cycle"+strconv.Itoa(k)+"tail", tail, append([][]string{{"x"}}, all...))
		add("cycle"+strconv.Itoa(k)+"tail", tail, [][]string{{"x"}, {"x"}, {nm[k-1]}})
		// a cycle plus an unrelated acyclic part
		mix := map[string][]string{"y": {"z"}, "z": nil}
		for a, b := range mods {
			mix[a] = b
		}
		add("cycle"+strconv.Itoa(k)+"mix", mix, [][]string{{"y"}, {nm[0]}, {"z", nm[1]}})
	}
	// a cyclic part that no package reaches (must load fine)
	add("unreached", map[string][]string{"m0": {"m1"}, "m1": nil, "m2": {"m3"}, "m3": {"m2"}}, [][]string{{"m0"}, {"m1"}})
	// two cycles sharing a node
	add("twocycles", map[string][]string{"m0": {"m1", "m2"}, "m1": {"m0"}, "m2": {"m0"}}, [][]string{{"m0"}, {"m1"}, {"m2"}})
	return out
}

func c06Random(rng *rand.Rand, acyclic bool) c06Scenario {
	n := 2 + rng.Intn(6)
	nm := c06Names(n)
	mods := map[string][]string{}
	for i := 0; i < n; i++ {
		var ls []string
		k := rng.Intn(4)
		for j := 0; j < k; j++ {
			var t int
			if acyclic {
				if i+1 >= n {
					break
				}
				t = i + 1 + rng.Intn(n-i-1)
			} else {
				t = rng.Intn(n)
			}
			ls = append(ls, nm[t])
		}
		mods[nm[i]] = ls
	}
	np := 1 + rng.Intn(4)
	var entries [][]string
	for p := 0; p < np; p++ {
		k := 1 + rng.Intn(3)
		var e []string
		for j := 0; j < k; j++ {
			e = append(e, nm[rng.Intn(n)])
		}
		entries = append(entries, e)
	}
	class := "random"
	if acyclic {
		class = "randomdag"
	}
	return c06Scenario{Class: class, Mods: mods, Pkgs: c06PkgsFor(entries, rng.Intn(2) == 0)}
}

// c06Faulty: the fault family.  Every fault kind is put on a module that several loaders share (directly, through
// intermediate modules, below a chain, at the bottom of a diamond, next to and inside a cycle) and on a package file.
func c06Faulty() []c06Scenario {
	var out []c06Scenario
	add := func(class string, mods map[string][]string, entries [][]string, faults map[string]c06Fault) *c06Scenario {
		out = append(out, c06Scenario{Class: class, Mods: mods, Pkgs: c06PkgsFor(entries, len(out)%2 == 0), Faults: faults, Reps: 4})
		return &out[len(out)-1]
	}
	cp := func(m map[string][]string) map[string][]string {
		r := map[string][]string{}
		for k, v := range m {
			r[k] = append([]string(nil), v...)
		}
		return r
	}
	kinds := []c06Fault{{"missing", 0}, {"dir", 0}, {"syntax", 0}, {"unknownproj", 0}, {"fail", 0}, {"fail", 1}, {"fail", 2}, {"badsym", 1}, {"badsym", 2}}
	for _, f := range kinds {
		c := "fault-" + f.Kind
		// h loads two good leaves (run-time faults stop between / after them); shared directly by 2 and by 4 packages
		leaf := map[string][]string{"h": {"a", "b"}, "a": nil, "b": nil}
		add(c+"-shared", cp(leaf), [][]string{{"h"}, {"h"}}, map[string]c06Fault{"h": f})
		add(c+"-shared", cp(leaf), [][]string{{"h"}, {"h"}, {"a", "h"}, {"h", "b"}}, map[string]c06Fault{"h": f})
		// reached through intermediate modules, and by a package that loads good modules first
		via := map[string][]string{"u": {"h"}, "v": {"a", "h"}, "h": {"a", "b"}, "a": nil, "b": nil}
		add(c+"-via", cp(via), [][]string{{"u"}, {"v"}, {"a", "b", "u"}}, map[string]c06Fault{"h": f})
		// at the end of a chain entered at three points
		chain := map[string][]string{"m0": {"m1"}, "m1": {"m2"}, "m2": {"m3", "m4"}, "m3": nil, "m4": nil}
		add(c+"-chain", cp(chain), [][]string{{"m0"}, {"m1"}, {"m2"}}, map[string]c06Fault{"m2": f})
		// at the bottom of a diamond
		dia := map[string][]string{"m0": {"m1", "m2"}, "m1": {"m3"}, "m2": {"m3"}, "m3": {"a", "b"}, "a": nil, "b": nil}
		add(c+"-diamond", cp(dia), [][]string{{"m1"}, {"m2"}, {"m0"}}, map[string]c06Fault{"m3": f})
		// next to a cycle (loaded before the cycle is entered) and inside one (a module of the cycle fails before or
		// after it closes the cycle)
		cyc := map[string][]string{"m0": {"h", "m1"}, "m1": {"m2"}, "m2": {"m0"}, "h": {"a", "b"}, "a": nil, "b": nil}
		add(c+"-cycle", cp(cyc), [][]string{{"m0"}, {"m1"}, {"h", "m2"}}, map[string]c06Fault{"h": f})
		cyc2 := map[string][]string{"m0": {"a", "m1"}, "m1": {"m2"}, "m2": {"b", "m0"}, "a": nil, "b": nil}
		add(c+"-incycle", cp(cyc2), [][]string{{"m0"}, {"m1"}, {"m2"}}, map[string]c06Fault{"m2": f})
		// two failing modules
		two := map[string][]string{"h": {"a", "b"}, "g": {"b", "a"}, "a": nil, "b": nil}
		add(c+"-two", cp(two), [][]string{{"h", "g"}, {"g", "h"}, {"a", "g"}}, map[string]c06Fault{"h": f, "g": {"missing", 0}})
		// a package file that fails by itself after (or before) loading what the others are waiting for
		if f.Kind == "syntax" || f.Kind == "fail" || f.Kind == "badsym" {
			sc := add(c+"-pkg", cp(leaf), [][]string{{"h", "a"}, {"h"}, {"b", "h"}}, nil)
			ff := f
			sc.Pkgs[0].Fault = &ff
		}
	}
	return out
}

func c06RandomFaulty(rng *rand.Rand) c06Scenario {
	sc := c06Random(rng, rng.Intn(3) != 0)
	sc.Class += "-faulty"
	kinds := []string{"missing", "dir", "syntax", "unknownproj", "fail", "fail", "badsym"}
	names := make([]string, 0, len(sc.Mods))
	for n := range sc.Mods {
		names = append(names, n)
	}
	sort.Strings(names)
	sc.Faults = map[string]c06Fault{}
	for k := 1 + rng.Intn(2); k > 0; k-- {
		n := names[rng.Intn(len(names))]
		f := c06Fault{Kind: kinds[rng.Intn(len(kinds))]}
		switch f.Kind {
		case "fail":
			f.At = rng.Intn(len(sc.Mods[n]) + 1)
		case "badsym":
			if len(sc.Mods[n]) == 0 {
				f.Kind = "fail"
			} else {
				f.At = 1 + rng.Intn(len(sc.Mods[n]))
			}
		}
		sc.Faults[n] = f
	}
	if rng.Intn(4) == 0 {
		p := &sc.Pkgs[rng.Intn(len(sc.Pkgs))]
		p.Fault = &c06Fault{Kind: "fail", At: rng.Intn(len(p.Loads) + 1)}
	}
	return sc
}

// c06Scale: the size family.  The same shapes as c06Fixed at sizes from a handful to a few hundred modules or
// packages (sizes = $VERIF_SIZES, around powers of two), so that any fixed capacity in the loader (a pool, a
// semaphore, a depth or fan-out limit, a buffer) is crossed: chains and cycles n deep, n packages side by side,
// n packages each w modules deep in private chains, a module with n load statements, a chain of n modules that all
// load one helper.  RvMods adds a second rendezvous with every private chain at its deepest module.
func c06Scale(sizes []int, wideMax int) []c06Scenario {
	var out []c06Scenario
	add := func(class string, mods map[string][]string, pkgs []c06Pkg, rv []string) {
		reps := 3
		if len(pkgs) == 1 { // one goroutine: one schedule
			reps = 1
		}
		out = append(out, c06Scenario{Class: class, Mods: mods, Pkgs: pkgs, RvMods: rv, Reps: reps})
	}
	flat := func(entries [][]string) []c06Pkg {
		var ps []c06Pkg
		for i, e := range entries {
			ps = append(ps, c06Pkg{Dir: "p" + strconv.Itoa(i), Loads: e, Flag: i%16 == 0})
		}
		return ps
	}
	for _, n := range sizes {
		nm := c06Names(n)
		// chain of n modules: one package at the top; three packages at top, middle and bottom
		chain := map[string][]string{}
		for i := 0; i < n; i++ {
			if i+1 < n {
				chain[nm[i]] = []string{nm[i+1]}
			} else {
				chain[nm[i]] = nil
			}
		}
		add("deepchain", chain, flat([][]string{{nm[0]}}), nil)
		add("deepchain", chain, flat([][]string{{nm[0]}, {nm[n/2]}, {nm[n-1], nm[0]}}), nil)
		// cycle of n modules entered at one and at three points
		cyc := map[string][]string{}
		for i := 0; i < n; i++ {
			cyc[nm[i]] = []string{nm[(i+1)%n]}
		}
		add("deepcycle", cyc, flat([][]string{{nm[0]}}), nil)
		add("deepcycle", cyc, flat([][]string{{nm[0]}, {nm[n/3]}, {nm[2*n/3]}}), nil)
		// n packages side by side, each loading a module of its own and then one shared helper (the replay of these
		// logs is the expensive part of the check: the quick tier stops at wideMax)
		if n <= wideMax {
			wide := map[string][]string{"z": {"y"}, "y": nil}
			var entries [][]string
			for i := 0; i < n; i++ {
				wide[nm[i]] = []string{"z"}
				entries = append(entries, []string{nm[i], "z"})
			}
			add("wide", wide, flat(entries), nil)
		}
		// one module with n load statements, loaded by two packages
		fan := map[string][]string{"hub": append([]string(nil), nm...)}
		for i := 0; i < n; i++ {
			fan[nm[i]] = nil
		}
		add("fanout", fan, flat([][]string{{"hub"}, {nm[n-1], "hub"}}), nil)
		// chain of n modules that all load one helper first
		comb := map[string][]string{"z": nil}
		for i := 0; i < n; i++ {
			if i+1 < n {
				comb[nm[i]] = []string{"z", nm[i+1]}
			} else {
				comb[nm[i]] = []string{"z"}
			}
		}
		if n <= wideMax {
			add("comb", comb, flat([][]string{{nm[0]}, {nm[n/2]}}), nil)
		}
		// w packages, each d deep in a private chain that ends in a shared helper: w*(d+1) modules executing at once
		for _, w := range []int{4, 8} {
			d := n / w
			if d < 2 {
				continue
			}
			wd := map[string][]string{"z": nil}
			var es [][]string
			var rv []string
			for i := 0; i < w; i++ {
				for j := 0; j < d; j++ {
					me := fmt.Sprintf("c%d_%d", i, j)
					if j+1 < d {
						wd[me] = []string{fmt.Sprintf("c%d_%d", i, j+1)}
					} else {
						wd[me] = []string{"z"}
						rv = append(rv, me)
					}
				}
				es = append(es, []string{fmt.Sprintf("c%d_0", i)})
			}
			add("widedeep", wd, flat(es), rv)
		}
	}
	return out
}

// ---------------------------------------------------------------------------------------------------------

func c06RunOne(id int, sc *c06Scenario, jseed int64, rendezvous bool, watchdog time.Duration) *c06Run {
	res := &c06Run{ID: id, Class: sc.Class, Mods: sc.Mods, Pkgs: sc.Pkgs, Dirs: sc.Dirs, Proj: sc.Proj, Raw: sc.Raw, Reqs: sc.Reqs,
		Faults: sc.Faults, RvMods: sc.RvMods, Rv: rendezvous, JSeed: jseed, MaxProcs: runtime.GOMAXPROCS(0)}
	top, err := os.MkdirTemp("", "verif-c06-")
	if err != nil {
		res.Panic = "mkdtemp: " + err.Error()
		return res
	}
	defer os.RemoveAll(top)
	dir, home := filepath.Join(top, "proj"), filepath.Join(top, "home")
	if err := os.MkdirAll(dir, 0o755); err != nil {
		res.Panic = "mkdir: " + err.Error()
		return res
	}
	if err := c06Write(dir, home, sc); err != nil {
		res.Panic = "write: " + err.Error()
		return res
	}
	if len(sc.Reqs) > 0 {
		// the download cache is $HOME/.dawn/modules/cache (TestVerifC06 turned go-homedir's memory off)
		old := os.Getenv("HOME")
		os.Setenv("HOME", home)
		defer os.Setenv("HOME", old)
	}

	lg := &c06Log{rng: rand.New(rand.NewSource(jseed)), jitter: jseed != 0}
	if rendezvous {
		var roots, deep []string
		for _, p := range sc.Pkgs {
			roots = append(roots, c06PkgLabel(p.Dir))
		}
		for _, m := range sc.RvMods {
			deep = append(deep, c06ModLabel(sc, m))
		}
		lg.rvs = append(lg.rvs, c06NewRendezvous(roots))
		if len(deep) > 0 {
			lg.rvs = append(lg.rvs, c06NewRendezvous(deep))
		}
	}
	evs := &c06Events{loading: map[string]int{}, ran: map[string]int{}}
	verifhook.SetHandler(lg.handle)
	defer verifhook.SetHandler(nil)

	type outcome struct {
		proj *Project
		err  error
		pan  string
	}
	ch := make(chan outcome, 1)
	t0 := time.Now()
	go func() {
		var o outcome
		defer func() {
			if x := recover(); x != nil {
				o.pan = fmt.Sprint(x)
			}
			ch <- o
		}()
		o.proj, o.err = Load(dir, &LoadOptions{Events: evs})
	}()
	var o outcome
	select {
	case o = <-ch:
	case <-time.After(watchdog):
		res.Hang = true
	}
	res.Millis = time.Since(t0).Milliseconds()

	lg.mu.Lock()
	lg.stop = true
	res.Log = lg.events
	lg.mu.Unlock()
	for _, rv := range lg.rvs {
		rv.mu.Lock()
		res.RvLate += rv.late
		rv.mu.Unlock()
	}
	evs.mu.Lock()
	res.Loading = map[string]int{}
	for k, v := range evs.loading {
		res.Loading[k] = v
	}
	res.Ran = map[string]int{}
	for k, v := range evs.ran {
		res.Ran[k] = v
	}
	evs.mu.Unlock()
	res.Panic = o.pan
	if o.err != nil {
		res.Err = o.err.Error()
	}
	res.Targets, res.Flags = []string{}, []string{}
	if !res.Hang && o.err == nil && o.proj != nil {
		for _, t := range o.proj.Targets() {
			res.Targets = append(res.Targets, t.Label().String())
		}
		for _, f := range o.proj.Flags() {
			res.Flags = append(res.Flags, f.Name)
		}
	}
	return res
}

func TestVerifC06(t *testing.T) {
	outPath := os.Getenv("VERIF_OUT")
	if outPath == "" {
		t.Skip("VERIF_OUT not set")
	}
	homedir.DisableCache = true
	defer func() { homedir.DisableCache = false; homedir.Reset() }()
	seed, _ := strconv.ParseInt(os.Getenv("VERIF_SEED"), 10, 64)
	nrand, _ := strconv.Atoi(os.Getenv("VERIF_NRAND"))
	reps, _ := strconv.Atoi(os.Getenv("VERIF_REPS"))
	if reps == 0 {
		reps = 3
	}
	wd, _ := strconv.Atoi(os.Getenv("VERIF_WATCHDOG_MS"))
	if wd == 0 {
		wd = 8000
	}
	f, err := os.Create(outPath)
	if err != nil {
		t.Fatal(err)
	}
	defer f.Close()
	w := bufio.NewWriterSize(f, 1<<20)
	defer w.Flush()
	enc := json.NewEncoder(w)

	rng := rand.New(rand.NewSource(seed*7919 + 17))
	scs := c06Fixed()
	srng := rand.New(rand.NewSource(seed*15485863 + 11))
	for i := 0; i < nrand; i++ {
		sc := c06Random(rng, i%2 == 0)
		if (i/2)%2 == 1 { // half of the random graphs: files spread over directories, every load statement spelled at random
			sc = c06RandomSpelled(srng, sc)
		}
		scs = append(scs, sc)
	}
	scs = append(scs, c06Faulty()...)
	frng := rand.New(rand.NewSource(seed*104729 + 5))
	for i := 0; i < nrand/8; i++ {
		scs = append(scs, c06RandomFaulty(frng))
	}
	var sizes []int
	for _, f := range strings.Split(os.Getenv("VERIF_SIZES"), ",") {
		if n, err := strconv.Atoi(strings.TrimSpace(f)); err == nil && n >= 2 {
			sizes = append(sizes, n)
		}
	}
	wideMax, _ := strconv.Atoi(os.Getenv("VERIF_WIDE_MAX"))
	scs = append(scs, c06Scale(sizes, wideMax)...)
	scs = append(scs, c06Spelled()...)
	id := 0
	hangs := 0
	for i := range scs {
		nr := reps
		if scs[i].Reps > 0 {
			nr = scs[i].Reps
		}
		for r := 0; r < nr; r++ {
			js := int64(0) // first repetition: no jitter
			if r > 0 {
				js = seed*1000003 + int64(i)*131 + int64(r)
			}
			// second repetition: rendezvous (every package file executing before any goes on), then jitter
			res := c06RunOne(id, &scs[i], js, r == 1, time.Duration(wd)*time.Millisecond)
			id++
			if err := enc.Encode(res); err != nil {
				t.Fatal(err)
			}
			if res.Hang {
				hangs++
				if hangs >= 6 { // every hang costs a watchdog period: stop early, the check reports them
					return
				}
				break
			}
		}
	}
}
