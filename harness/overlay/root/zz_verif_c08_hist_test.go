package dawn

// C08 harness, part 4: the fingerprint of a target is a function of the project text alone -- not of what the process
// did before.  "Two loads of identical project text produce equal fingerprints" quantifies over processes; one long-lived
// process (a multi-target build, `dawn watch`, the REPL) fingerprints many targets one after the other, and some of
// those computations FAIL part-way (a value that cannot be pickled, a host value whose attribute cannot be read, an
// environment whose pickle cannot be decoded).  A failed computation must stay its own: whatever was fingerprinted, or
// failed to be, earlier in the same process, every other target's stamp / environment / up-to-date verdict must be the
// one computed ALONE, FIRST THING IN A FRESH PROCESS.
//
//	project        good targets g_* (recursion sharing a builtin, mutual recursion, aliased lists, defaults, closures,
//	               cyclic data, a 1203-element list, modules, target references, two targets made from same-named closures
//	               of one factory: every one but g_plain has back-references in its pickle), fault targets f_* and kind
//	               targets b_*.
//	fault sources  (a) FUSE_i: values the embedding program predeclares (LoadOptions.Builtins, how cmd/dawn passes os/sh/
//	               json) whose j-th attribute read fails when the harness arms (i, j): the encoder stops after having
//	               written a prefix of the pickle; i selects WHERE in the environment (default, captured variable,
//	               predeclared, nested in a global list, inside a helper reached late), j how much of the value is out.
//	               (b) OPAQUE: a predeclared value of a type nobody can pickle.  (c) every value of BUILD text whose
//	               fingerprint fails in the reference run (see kinds).  (No legitimate environment fails to DECODE: the
//	               decoder has no error for a pickle its own encoder wrote -- BADMAP, a predeclared mapping with an unhashable
//	               key, is in the stamp and merely absent from the decoded environment; f_badmap is an ordinary victim.)
//	kinds          b_*: the value kinds an expression of BUILD text can yield that are neither data, callables nor
//	               attribute holders: the string / bytes iterables.  Their targets load, so they must fingerprint.
//	reference      one fresh process per target: stamp, functionEnv (sharing-aware dump), upToDate against the records of
//	               a build of the PREVIOUS text (v0; v1 edits a few referenced values, so diffEnv walks both environments).
//	histories      H0 every target once in a random order; H1 sweep: every fault source (one or two in a row) before
//	               every good target; H2 seeded random histories (fail, fingerprint, re-Load, GC, goroutine hop, a
//	               failing goroutine next to a fingerprinting one); H3 the engine: Run(failing target) then Run(good), the
//	               record must carry the reference stamp and a fresh Load finds the target up to date.
//
// Run as a child of TestVerifC08 (VERIF_C08_CHILD=hist); the per-target reference is VERIF_C08_CHILD=histref.

import (
	"crypto/sha256"
	"encoding/base64"
	"errors"
	"fmt"
	"math/rand"
	"os"
	"os/exec"
	"path/filepath"
	"runtime"
	"sort"
	"strconv"
	"strings"
	"sync"
	"sync/atomic"
	"testing"
	"time"

	starlark_os "github.com/pgavlin/dawn/lib/os"
	starlark_sh "github.com/pgavlin/dawn/lib/sh"
	starlark_json "go.starlark.net/lib/json"
	"go.starlark.net/starlark"
)

// ---- fault sources supplied by the embedding program --------------------------------------------------------------

var c08FuseAttrs = []string{"a", "b", "c", "d"}

// c08Armed: fuse id*16 + attribute index whose read fails; -1 = none.
var c08Armed int64 = -1

var c08FuseShared = starlark.NewList([]starlark.Value{starlark.String("shared-by-all-fuses"), starlark.MakeInt(7)})

type c08Fuse struct{ id int }

func (f *c08Fuse) String() string        { return fmt.Sprintf("<fuse %d>", f.id) }
func (f *c08Fuse) Type() string          { return "fuse" }
func (f *c08Fuse) Freeze()               {}
func (f *c08Fuse) Truth() starlark.Bool  { return starlark.True }
func (f *c08Fuse) Hash() (uint32, error) { return uint32(f.id), nil }
func (f *c08Fuse) AttrNames() []string   { return c08FuseAttrs }
func (f *c08Fuse) Attr(name string) (starlark.Value, error) {
	for j, n := range c08FuseAttrs {
		if n != name {
			continue
		}
		if atomic.LoadInt64(&c08Armed) == int64(f.id*16+j) {
			return nil, fmt.Errorf("injected fault: attribute %s of fuse %d cannot be read", name, f.id)
		}
		switch j {
		case 0:
			return starlark.String(fmt.Sprintf("fuse-%d", f.id)), nil
		case 1:
			return c08FuseShared, nil
		case 2:
			return starlark.NewList([]starlark.Value{starlark.MakeInt(f.id), c08FuseShared}), nil
		default:
			return starlark.Tuple{starlark.MakeInt(f.id), starlark.String("end")}, nil
		}
	}
	return nil, nil
}

type c08Opaque struct{}

func (c08Opaque) String() string        { return "<opaque>" }
func (c08Opaque) Type() string          { return "opaque" }
func (c08Opaque) Freeze()               {}
func (c08Opaque) Truth() starlark.Bool  { return starlark.True }
func (c08Opaque) Hash() (uint32, error) { return 1, nil }

// c08BadMap pickles as a dict (it is an IterableMapping) but its second key is a list: the decoder drops that entry.
type c08BadMap struct{}

func (*c08BadMap) String() string        { return "<badmap>" }
func (*c08BadMap) Type() string          { return "badmap" }
func (*c08BadMap) Freeze()               {}
func (*c08BadMap) Truth() starlark.Bool  { return starlark.True }
func (*c08BadMap) Hash() (uint32, error) { return 2, nil }
func (*c08BadMap) Get(starlark.Value) (starlark.Value, bool, error) {
	return nil, false, nil
}
func (m *c08BadMap) Iterate() starlark.Iterator {
	return starlark.NewList([]starlark.Value{starlark.String("k")}).Iterate()
}
func (*c08BadMap) Items() []starlark.Tuple {
	return []starlark.Tuple{
		{starlark.String("k"), c08FuseShared},
		{starlark.NewList([]starlark.Value{starlark.MakeInt(1)}), starlark.String("under an unhashable key")},
		{starlark.String("after"), c08FuseShared},
	}
}

const c08NFuses = 5

func c08HistBuiltins() starlark.StringDict {
	d := starlark.StringDict{"os": starlark_os.Module, "sh": starlark_sh.Module, "json": starlark_json.Module,
		"OPAQUE": c08Opaque{}, "BADMAP": &c08BadMap{}}
	for i := 0; i < c08NFuses; i++ {
		d[fmt.Sprintf("FUSE_%d", i)] = &c08Fuse{id: i}
	}
	return d
}

// the kinds of value an expression can yield that are neither plain data, callables nor attribute holders
var c08HistKinds = []string{`"abc".codepoints()`, `"abc".codepoint_ords()`, `"abc".elems()`, `"abc".elem_ords()`, `b"ab".elems()`, `"".codepoints()`}

// c08HistText: the project; edited = the text after the edit (v1), else the text that was built before (v0).
func c08HistText(seed int64, edited bool) string {
	rng := rand.New(rand.NewSource(seed*7919 + 3))
	r := func() int { return 10 + rng.Intn(100000) }
	e := func(v0 int) int {
		if edited {
			return v0 + 1
		}
		return v0
	}
	var b strings.Builder
	fmt.Fprintf(&b, "SHARED = [1, 2, %d]\nALIAS = SHARED\nTABLE = {\"a\": SHARED, \"b\": [SHARED, ALIAS], \"n\": %d}\n", r(), r())
	fmt.Fprintf(&b, "CYC = [%d]\nCYC.append(CYC)\nCYD = [%d]\nCYD.append(CYD)\nBIG = [i * %d for i in range(1203)]\n\n", r(), e(r()), 2+rng.Intn(50))
	fmt.Fprintf(&b, "def helper(n):\n    if n > 0:\n        helper(n - 1)\n    print(\"helper\", n, SHARED, %d)\n\n", e(r()))
	b.WriteString("def even(n):\n    return True if n == 0 else odd(n - 1)\n\ndef odd(n):\n    return False if n == 0 else even(n - 1)\n\n")
	b.WriteString("def mk(c):\n    def inner():\n        print(c, SHARED, len(SHARED))\n        return helper\n    return inner\n\n")
	fmt.Fprintf(&b, "CLO = mk([SHARED, %d])\n\n", r())
	// good targets
	fmt.Fprintf(&b, "@target()\ndef g_plain():\n    print(\"plain\", %d)\n\n", r())
	b.WriteString("@target()\ndef g_rec():\n    print(\"good\")\n    helper(2)\n\n")
	b.WriteString("@target()\ndef g_mut():\n    print(even(4), odd(3), len(SHARED))\n\n")
	fmt.Fprintf(&b, "@target()\ndef g_alias(self, d=SHARED, e=[ALIAS, %d]):\n    print(SHARED, ALIAS, TABLE, d, e)\n\n", e(r()))
	b.WriteString("@target()\ndef g_cyc():\n    print(CYC[0], len(CYC), CYC)\n\n")
	b.WriteString("@target()\ndef g_cyd():\n    print(CYD[0], SHARED, ALIAS)\n\n")
	b.WriteString("@target()\ndef g_big():\n    print(len(BIG), BIG[7], SHARED, len, ALIAS)\n\n")
	b.WriteString("@target()\ndef g_clo():\n    print(CLO(), helper, str, len)\n\n")
	b.WriteString("@target()\ndef g_mod():\n    print(os, sh, json, host, package, path, label, len, str, SHARED, helper)\n\n")
	b.WriteString("@target()\ndef g_tref():\n    print(g_rec, g_plain, helper, g_rec)\n\n")
	// two targets whose functions have the same name and the same code (closures of one factory)
	fmt.Fprintf(&b, "def mkt(c):\n    def same(self, d=[SHARED, ALIAS]):\n        print(c, d, len(c), helper)\n    return same\n\ntarget(name=\"g_same1\", function=mkt([SHARED, %d]))\ntarget(name=\"g_same2\", function=mkt([ALIAS, %d, SHARED]))\n\n", r(), r())
	// fault targets: where in the environment the fuse sits
	b.WriteString("@target()\ndef f_default(self, d=FUSE_0, e=SHARED):\n    print(\"f\", SHARED, d, e)\n    helper(1)\n\n")
	b.WriteString("FCLO = mk(FUSE_1)\n\n@target()\ndef f_captured():\n    print(FCLO(), SHARED, len)\n\n")
	b.WriteString("@target()\ndef f_predeclared():\n    print(len, SHARED, FUSE_2, helper, ALIAS)\n\n")
	b.WriteString("FLIST = [SHARED, helper, {\"k\": [ALIAS, FUSE_3]}, SHARED]\n\n@target()\ndef f_nested():\n    print(len, str, FLIST, SHARED)\n\n")
	b.WriteString("def fhelp(n):\n    if n > 0:\n        fhelp(n - 1)\n    print(FUSE_4, SHARED, len)\n\n@target()\ndef f_inhelper():\n    print(even(2), helper, BIG[1], fhelp(1), len)\n\n")
	b.WriteString("@target()\ndef f_opaque():\n    print(len, SHARED, helper, OPAQUE, ALIAS)\n\n")
	b.WriteString("@target()\ndef f_badmap():\n    print(len, SHARED, helper, BADMAP, ALIAS)\n\n")
	// kind targets
	for i, k := range c08HistKinds {
		fmt.Fprintf(&b, "K%d = %s\n\n@target()\ndef b_global_%d():\n    print(len, SHARED, helper, K%d, ALIAS)\n\n", i, k, i, i)
		fmt.Fprintf(&b, "@target()\ndef b_default_%d(self, d=%s, e=SHARED):\n    print(SHARED, d, e)\n\n", i, k)
	}
	return b.String()
}

// ---- observations -------------------------------------------------------------------------------------------------

// c08HistDump: canonical text of a decoded environment, sharing included (a container met again is "#n").
func c08HistDump(v starlark.Value, ids map[starlark.Value]int, b *strings.Builder) {
	switch v := v.(type) {
	case nil:
		b.WriteString("<nil>")
	case starlark.String:
		fmt.Fprintf(b, "%q", string(v))
	case starlark.Bytes:
		fmt.Fprintf(b, "b%q", string(v))
	case starlark.Tuple:
		b.WriteString("(")
		for _, e := range v {
			c08HistDump(e, ids, b)
			b.WriteString(",")
		}
		b.WriteString(")")
	case *starlark.List:
		if id, ok := ids[v]; ok {
			fmt.Fprintf(b, "#%d", id)
			return
		}
		ids[v] = len(ids)
		fmt.Fprintf(b, "[%d:", ids[v])
		for i := 0; i < v.Len(); i++ {
			c08HistDump(v.Index(i), ids, b)
			b.WriteString(",")
		}
		b.WriteString("]")
	case *starlark.Dict:
		if id, ok := ids[v]; ok {
			fmt.Fprintf(b, "#%d", id)
			return
		}
		ids[v] = len(ids)
		fmt.Fprintf(b, "{%d:", ids[v])
		for _, kv := range v.Items() {
			c08HistDump(kv[0], ids, b)
			b.WriteString(":")
			c08HistDump(kv[1], ids, b)
			b.WriteString(",")
		}
		b.WriteString("}")
	case *starlark.Set:
		if id, ok := ids[v]; ok {
			fmt.Fprintf(b, "#%d", id)
			return
		}
		ids[v] = len(ids)
		fmt.Fprintf(b, "set(%d:", ids[v])
		it := v.Iterate()
		var e starlark.Value
		for it.Next(&e) {
			c08HistDump(e, ids, b)
			b.WriteString(",")
		}
		it.Done()
		b.WriteString(")")
	default:
		b.WriteString(v.Type() + ":" + v.String())
	}
}

func c08HistHash(s string) string {
	h := sha256.Sum256([]byte(s))
	return fmt.Sprintf("%x", h[:10])
}

// c08HistObs: what one fingerprint computation gave.  Each piece is "ERR", "NIL", "PANIC" or a hash / verdict.
type c08HistObs struct {
	stamp, env, up string
	stampText      string // the stamp itself
	dump           string // the dump itself
	errs           string // messages, for the report only
}

func c08HistGuard(what string, errs *string, f func() string) (res string) {
	defer func() {
		if x := recover(); x != nil {
			res = "PANIC"
			*errs += fmt.Sprintf(" %s panicked: %v;", what, x)
		}
	}()
	return f()
}

func c08HistStamp(f *function, o *c08HistObs) {
	o.stamp = c08HistGuard("stamp", &o.errs, func() string {
		s, err := f.stamp()
		if err != nil {
			o.errs += " stamp: " + err.Error() + ";"
			return "ERR"
		}
		o.stampText = s
		return c08HistHash(s)
	})
}

func c08HistEnv(f *function, o *c08HistObs) {
	o.env = c08HistGuard("functionEnv", &o.errs, func() string {
		v, err := functionEnv(f.function)
		if err != nil {
			o.errs += " functionEnv: " + err.Error() + ";"
			return "ERR"
		}
		if v == nil {
			o.errs += " functionEnv returned neither a value nor an error;"
			return "NIL"
		}
		var b strings.Builder
		c08HistDump(v, map[starlark.Value]int{}, &b)
		o.dump = b.String()
		return c08HistHash(o.dump)
	})
}

func c08HistUp(f *function, o *c08HistObs) {
	o.up = c08HistGuard("upToDate", &o.errs, func() string {
		up, reason, _, err := f.upToDate()
		if err != nil {
			o.errs += " upToDate: " + err.Error() + ";"
			return "ERR"
		}
		return fmt.Sprintf("%v/%s", up, reason)
	})
}

func c08HistLoad(root string) (*Project, map[string]*function, error) {
	proj, err := Load(root, &LoadOptions{Builtins: c08HistBuiltins()})
	if err != nil {
		return nil, nil, err
	}
	fs := map[string]*function{}
	for _, tg := range proj.Targets() {
		if f, ok := tg.(*function); ok {
			fs[f.label.Name] = f
		}
	}
	return proj, fs, nil
}

// TestVerifC08HistRef: the reference -- ONE target, first thing in this process.
func TestVerifC08HistRef(t *testing.T) {
	if os.Getenv("VERIF_C08_CHILD") != "histref" {
		t.Skip("not the reference child")
	}
	root := os.Getenv("VERIF_ROOT")
	os.Setenv("HOME", filepath.Join(root, ".home"))
	var res []string
	_, fs, lerr := c08HistLoad(root)
	// (a list of targets: only the first is computed first thing; used for the kind targets, whose reference says whether
	// they can be fingerprinted at all)
	for _, name := range strings.Split(os.Getenv("VERIF_C08_HIST_TARGET"), ",") {
		if lerr != nil {
			res = append(res, name+"\tLOADERR\t\t\t"+strings.ReplaceAll(lerr.Error(), "\n", " | "))
		} else if f := fs[name]; f == nil {
			res = append(res, name+"\tLOADERR\t\t\tno such target")
		} else {
			var o c08HistObs
			c08HistEnv(f, &o) // the computation the engine does first
			c08HistStamp(f, &o)
			c08HistUp(f, &o)
			res = append(res, strings.Join([]string{name, o.stamp, o.env, o.up, strings.ReplaceAll(o.errs, "\n", " | ")}, "\t"))
		}
	}
	os.WriteFile(os.Getenv("VERIF_REPORT"), []byte(strings.Join(res, "\n")+"\n"), 0644)
}

type c08HistFault struct {
	target string // the target whose fingerprint fails
	arm    int64  // value of c08Armed while it is computed (-1: fails by itself)
	desc   string
}

func TestVerifC08Hist(t *testing.T) {
	if os.Getenv("VERIF_C08_CHILD") != "hist" {
		t.Skip("not the history child")
	}
	outf, err := os.Create(os.Getenv("VERIF_REPORT"))
	if err != nil {
		t.Fatal(err)
	}
	defer outf.Close()
	var outm sync.Mutex
	line := func(parts ...string) {
		for i := range parts {
			parts[i] = strings.NewReplacer("\t", "\\t", "\n", "\\n").Replace(parts[i])
		}
		outm.Lock()
		outf.WriteString(strings.Join(parts, "\t") + "\n")
		outm.Unlock()
	}
	seed, _ := strconv.ParseInt(os.Getenv("VERIF_SEED"), 10, 64)
	rng := rand.New(rand.NewSource(seed*104729 + 11))
	thorough := os.Getenv("VERIF_C08_THOROUGH") == "1"
	root := os.Getenv("VERIF_ROOT")
	os.Setenv("HOME", filepath.Join(root, ".home"))
	os.MkdirAll(filepath.Join(root, ".home"), 0755)
	os.WriteFile(filepath.Join(root, "dawn.toml"), nil, 0644)
	self, _ := os.Executable()

	// ---- v0 is built (every target that can be), then the text is edited to v1
	os.WriteFile(filepath.Join(root, "BUILD.dawn"), []byte(c08HistText(seed, false)), 0644)
	proj0, fs0, err := c08HistLoad(root)
	if err != nil {
		line("ORACLE", "terminates", "history/load", "load of the previous text: "+err.Error())
		return
	}
	var names []string
	for n := range fs0 {
		names = append(names, n)
	}
	sort.Strings(names)
	for _, n := range names {
		func() {
			defer func() { recover() }()
			proj0.Run(fs0[n].label, nil) // a target that cannot be fingerprinted has no record: "never been run"
		}()
	}
	text := c08HistText(seed, true)
	os.WriteFile(filepath.Join(root, "BUILD.dawn"), []byte(text), 0644)
	line("text", "history", base64.StdEncoding.EncodeToString([]byte(text)))

	// ---- reference: one fresh process per target
	ref := map[string]*c08HistObs{}
	refPath := filepath.Join(root, ".histref.tsv")
	var groups [][]string
	var kinds []string
	for _, n := range names {
		if strings.HasPrefix(n, "b_") {
			kinds = append(kinds, n)
		} else {
			groups = append(groups, []string{n})
		}
	}
	groups = append(groups, kinds)
	for _, grp := range groups {
		os.Remove(refPath)
		cmd := exec.Command(self, "-test.run", "^TestVerifC08HistRef$", "-test.count=1")
		cmd.Env = append(os.Environ(), "VERIF_C08_CHILD=histref", "VERIF_ROOT="+root, "VERIF_REPORT="+refPath, "VERIF_C08_HIST_TARGET="+strings.Join(grp, ","))
		done := make(chan error, 1)
		var out []byte
		go func() {
			var err error
			out, err = cmd.CombinedOutput()
			done <- err
		}()
		died := ""
		select {
		case <-done:
		case <-time.After(60 * time.Second):
			cmd.Process.Kill()
			<-done
			died = "hung"
		}
		b, _ := os.ReadFile(refPath)
		for _, l := range strings.Split(strings.TrimRight(string(b), "\n"), "\n") {
			if f := strings.Split(l, "\t"); len(f) >= 5 && f[1] != "LOADERR" {
				ref[f[0]] = &c08HistObs{stamp: f[1], env: f[2], up: f[3], errs: f[4]}
			}
		}
		for _, n := range grp {
			if ref[n] == nil {
				tail := string(out)
				if i := strings.Index(tail, "fatal error"); i >= 0 {
					tail = tail[i:]
				} else if i := strings.Index(tail, "panic:"); i >= 0 {
					tail = tail[i:]
				}
				if len(tail) > 300 {
					tail = tail[:300]
				}
				line("ORACLE", "terminates", "history/"+n, "fingerprinting //:"+n+" alone in a fresh process did not finish: "+died+" "+strings.ReplaceAll(string(b), "\t", " ")+" "+tail)
			}
		}
	}
	if len(ref) != len(names) {
		return
	}
	good := func(n string) bool { return strings.HasPrefix(n, "g_") }
	failing := func(o *c08HistObs) bool { return o.stamp == "ERR" || o.env == "ERR" }
	// kinds: a target that loads must fingerprint
	for i, k := range c08HistKinds {
		for _, route := range []string{"global", "default"} {
			n := fmt.Sprintf("b_%s_%d", route, i)
			o := ref[n]
			ok := o.stamp != "ERR" && o.stamp != "PANIC" && o.env != "ERR" && o.env != "NIL" && o.env != "PANIC" && o.up != "ERR" && o.up != "PANIC"
			line("case", "history/kinds", k+" as a "+route, "true", strconv.FormatBool(ok))
			if !ok {
				line("ORACLE", "terminates:kind", "history/kinds/"+k+" referenced as a "+route+" (//:"+n+")",
					"the target loads but its fingerprint cannot be computed (stamp "+o.stamp+", functionEnv "+o.env+", upToDate "+o.up+"):"+o.errs)
			}
		}
	}
	// good targets and disarmed fault targets fingerprint without error
	for _, n := range names {
		if strings.HasPrefix(n, "b_") || n == "f_opaque" {
			continue
		}
		if o := ref[n]; failing(o) || o.env == "NIL" || strings.Contains(o.stamp+o.env+o.up, "PANIC") || o.up == "ERR" {
			line("ORACLE", "terminates", "history/"+n, "alone in a fresh process: stamp "+o.stamp+", functionEnv "+o.env+", upToDate "+o.up+":"+o.errs)
		}
	}

	// ---- fault sources
	var faults []c08HistFault
	fuseTargets := []string{"f_default", "f_captured", "f_predeclared", "f_nested", "f_inhelper"}
	for i, n := range fuseTargets {
		for j := range c08FuseAttrs {
			faults = append(faults, c08HistFault{n, int64(i*16 + j), fmt.Sprintf("//:%s with attribute %s of FUSE_%d unreadable", n, c08FuseAttrs[j], i)})
		}
	}
	for _, n := range names {
		if !good(n) && !strings.HasPrefix(n, "f_") && failing(ref[n]) || n == "f_opaque" {
			faults = append(faults, c08HistFault{n, -1, "//:" + n})
		}
	}

	// ---- the process under test
	proj, fs, err := c08HistLoad(root)
	if err != nil {
		line("ORACLE", "terminates", "history/load", "load: "+err.Error())
		return
	}
	_ = proj
	firstDump := map[string]string{}
	var dumpm sync.Mutex
	nOps, nBad := 0, 0
	var cntm sync.Mutex
	reported := map[string]bool{}
	// check compares one observation of target n with the reference; history describes what came before
	check := func(n string, o *c08HistObs, history string) bool {
		r := ref[n]
		var bad []string
		if o.stamp != "" && o.stamp != r.stamp {
			bad = append(bad, fmt.Sprintf("stamp() is %s, alone in a fresh process it is %s", o.stamp, r.stamp))
		}
		if o.env != "" && o.env != r.env {
			d := fmt.Sprintf("functionEnv() is %s, alone in a fresh process it is %s", o.env, r.env)
			dumpm.Lock()
			if fd, ok := firstDump[n]; ok && o.dump != "" {
				at := 0
				for at < len(fd) && at < len(o.dump) && fd[at] == o.dump[at] {
					at++
				}
				cut := func(s string) string {
					lo, hi := at-30, at+40
					if lo < 0 {
						lo = 0
					}
					if hi > len(s) {
						hi = len(s)
					}
					if lo > hi {
						return ""
					}
					return s[lo:hi]
				}
				d += fmt.Sprintf("; first difference at offset %d of the dump: reference ...%s... now ...%s...", at, cut(fd), cut(o.dump))
			}
			dumpm.Unlock()
			bad = append(bad, d)
		} else if o.env != "" && o.dump != "" {
			dumpm.Lock()
			if _, ok := firstDump[n]; !ok {
				firstDump[n] = o.dump
			}
			dumpm.Unlock()
		}
		if o.up != "" && o.up != r.up {
			bad = append(bad, fmt.Sprintf("upToDate() is %q, alone in a fresh process it is %q", o.up, r.up))
		}
		cntm.Lock()
		defer cntm.Unlock()
		nOps++
		if len(bad) == 0 {
			return true
		}
		nBad++
		key := n + "|" + history
		if !reported[key] && len(reported) < 40 {
			reported[key] = true
			line("ORACLE", "history", "history/"+history+", then //:"+n, strings.Join(bad, "; ")+";"+o.errs)
		}
		return false
	}
	all := func(f *function) *c08HistObs {
		var o c08HistObs
		c08HistEnv(f, &o)
		c08HistStamp(f, &o)
		c08HistUp(f, &o)
		return &o
	}
	// fail runs a fault source; its own outcome must be an error (never a crash, never a value out of nothing)
	fail := func(fsm map[string]*function, ft c08HistFault, history string) {
		atomic.StoreInt64(&c08Armed, ft.arm)
		var o c08HistObs
		c08HistEnv(fsm[ft.target], &o)
		if rng.Intn(3) == 0 {
			c08HistStamp(fsm[ft.target], &o)
		}
		atomic.StoreInt64(&c08Armed, -1)
		if ft.arm >= 0 {
			if o.env != "ERR" || (o.stamp != "" && o.stamp != "ERR") {
				cntm.Lock()
				k := "armed|" + ft.desc
				first := !reported[k]
				reported[k] = true
				cntm.Unlock()
				if first {
					line("ORACLE", "history", "history/"+history+", then "+ft.desc, "a fingerprint computation that cannot read a value must return an error; functionEnv "+o.env+", stamp "+o.stamp+":"+o.errs)
				}
			}
		} else {
			check(ft.target, &o, history)
		}
	}

	// H0: every target once, in a random order (successes and the targets that fail by themselves)
	order := append([]string{}, names...)
	rng.Shuffle(len(order), func(i, j int) { order[i], order[j] = order[j], order[i] })
	for i, n := range order {
		ok := check(n, all(fs[n]), fmt.Sprintf("H0: the previous text built and this text loaded by the same process, %d other targets fingerprinted in the order [%s]", i, strings.Join(order[:i], " ")))
		line("case", "history/H0", n, "true", strconv.FormatBool(ok))
	}
	var goods []string
	for _, n := range names {
		if good(n) {
			goods = append(goods, n)
		}
	}

	// H1: every fault source (alone, and after another one) before every good target and every disarmed fault target
	for fi, ft := range faults {
		var victims []string
		victims = append(victims, goods...)
		victims = append(victims, fuseTargets...)
		victims = append(victims, "f_badmap")
		okAll := true
		for _, n := range victims {
			h := "H1: failed fingerprint of " + ft.desc
			if rng.Intn(2) == 0 {
				ft2 := faults[(fi+1+rng.Intn(len(faults)-1))%len(faults)]
				h = "H1: failed fingerprints of " + ft2.desc + " and of " + ft.desc
				fail(fs, ft2, "H1")
			}
			fail(fs, ft, "H1")
			if !check(n, all(fs[n]), h) {
				okAll = false
			}
		}
		line("case", "history/H1", ft.desc, "true", strconv.FormatBool(okAll))
	}

	// H2: seeded random histories
	steps := 1500
	if thorough {
		steps = 20000
	}
	cur := fs
	var recent []string
	note := func(s string) {
		recent = append(recent, s)
		if len(recent) > 6 {
			recent = recent[1:]
		}
	}
	h2ok := true
	for s := 0; s < steps; s++ {
		switch k := rng.Intn(20); {
		case k < 6:
			ft := faults[rng.Intn(len(faults))]
			fail(cur, ft, "H2: "+strings.Join(recent, "; "))
			note("fail " + ft.desc)
		case k < 16:
			n := names[rng.Intn(len(names))]
			var o c08HistObs
			hop := rng.Intn(4) == 0
			op := rng.Intn(4)
			run := func() {
				switch op {
				case 0:
					c08HistEnv(cur[n], &o)
				case 1:
					c08HistStamp(cur[n], &o)
				case 2:
					c08HistUp(cur[n], &o)
				default:
					o = *all(cur[n])
				}
			}
			if hop {
				done := make(chan struct{})
				go func() { defer close(done); run() }()
				<-done
			} else {
				run()
			}
			if !check(n, &o, "H2: "+strings.Join(recent, "; ")) {
				h2ok = false
			}
			note([]string{"functionEnv ", "stamp ", "upToDate ", "fingerprint "}[op] + "//:" + n)
		case k < 17:
			runtime.GC()
			note("GC")
		case k < 18:
			if _, nfs, err := c08HistLoad(root); err == nil {
				cur = nfs
				note("Load again")
			} else {
				line("ORACLE", "history", "history/H2: "+strings.Join(recent, "; ")+", then Load", err.Error())
				h2ok = false
			}
		default:
			// a goroutine that keeps failing next to one that fingerprints (the armed fuse is not in the victim's environment)
			ft := faults[rng.Intn(len(faults))]
			n := goods[rng.Intn(len(goods))]
			stop := make(chan struct{})
			var wg sync.WaitGroup
			wg.Add(1)
			atomic.StoreInt64(&c08Armed, ft.arm)
			go func() {
				defer wg.Done()
				for {
					select {
					case <-stop:
						return
					default:
					}
					var o c08HistObs
					c08HistEnv(cur[ft.target], &o)
				}
			}()
			for q := 0; q < 8; q++ {
				var o c08HistObs
				c08HistEnv(cur[n], &o)
				c08HistStamp(cur[n], &o)
				if !check(n, &o, "H2: "+strings.Join(recent, "; ")+"; a goroutine failing on "+ft.desc+" at the same time") {
					h2ok = false
				}
			}
			close(stop)
			wg.Wait()
			atomic.StoreInt64(&c08Armed, -1)
			note("concurrent fail " + ft.desc + " / fingerprint //:" + n)
		}
	}
	line("case", "history/H2", fmt.Sprintf("%d random steps", steps), "true", strconv.FormatBool(h2ok))

	// H3: the engine -- Run(failing target) fails, Run(good) builds it; its record carries the reference stamp and a fresh
	// Load finds it up to date
	rounds := 6
	if thorough {
		rounds = 30
	}
	for q := 0; q < rounds; q++ {
		ft := faults[rng.Intn(len(faults))]
		n := goods[rng.Intn(len(goods))]
		h := fmt.Sprintf("H3: Run(%s) fails", ft.desc)
		p1, fs1, err := c08HistLoad(root)
		if err != nil {
			line("ORACLE", "history", "history/"+h, "load: "+err.Error())
			continue
		}
		atomic.StoreInt64(&c08Armed, ft.arm)
		ferr := c08HistRun(p1, fs1[ft.target])
		atomic.StoreInt64(&c08Armed, -1)
		gerr := c08HistRun(p1, fs1[n])
		ok := true
		if ferr == nil && ft.arm >= 0 {
			line("ORACLE", "history", "history/"+h, "building a target whose fingerprint cannot be computed succeeded")
			ok = false
		}
		if gerr != nil {
			line("ORACLE", "history", "history/"+h+", then Run(//:"+n+")", "the build of //:"+n+" fails: "+gerr.Error())
			ok = false
		} else {
			_, fs2, err := c08HistLoad(root)
			if err != nil {
				line("ORACLE", "history", "history/"+h+", then Run(//:"+n+"), then Load", err.Error())
				ok = false
			} else {
				var o c08HistObs
				c08HistStamp(fs2[n], &o)
				c08HistUp(fs2[n], &o)
				if c08HistHash(fs2[n].targetInfo.Data) != ref[n].stamp || o.up != "true/" {
					line("ORACLE", "history", "history/"+h+", then Run(//:"+n+"), then Load",
						fmt.Sprintf("the record written by the build holds stamp %s, the reference is %s; a fresh load says upToDate = %q:%s", c08HistHash(fs2[n].targetInfo.Data), ref[n].stamp, o.up, o.errs))
					ok = false
				}
				// from now on //:n is up to date in every process
				ref[n].up = "true/"
			}
		}
		line("case", "history/H3", h+", then Run(//:"+n+")", "true", strconv.FormatBool(ok))
	}
	line("histstats", strconv.Itoa(len(names)), strconv.Itoa(len(faults)), strconv.Itoa(nOps), strconv.Itoa(nBad))
	line("histdone", strconv.Itoa(len(names)))
}

func c08HistRun(p *Project, f *function) (err error) {
	defer func() {
		if x := recover(); x != nil {
			err = errors.New(fmt.Sprint("panic: ", x))
		}
	}()
	return p.Run(f.label, nil)
}
