package dawn

// C18: lineWriter chunking — random byte streams through the real lineWriter in random chunkings,
// two write+flush rounds per writer.

import (
	"bufio"
	"encoding/hex"
	"math/rand"
	"os"
	"strconv"
	"strings"
	"testing"

	"github.com/pgavlin/dawn/label"
)

type lwRecorder struct {
	discardEventsT
	lines []string
}

func (r *lwRecorder) Print(l *label.Label, line string) { r.lines = append(r.lines, line) }

func lwHexList(xs []string) string {
	hs := make([]string, len(xs))
	for i, x := range xs {
		hs[i] = "x" + hex.EncodeToString([]byte(x))
	}
	return strings.Join(hs, ",")
}

func lwExpected(stream string) []string {
	parts := strings.Split(stream, "\n")
	out := parts[:len(parts)-1]
	if last := parts[len(parts)-1]; last != "" {
		out = append(out, last)
	}
	return out
}

func TestVerifLineWriter(t *testing.T) {
	outPath := os.Getenv("VERIF_OUT")
	if outPath == "" || os.Getenv("VERIF_CHILD") == "1" {
		t.Skip("VERIF_OUT not set")
	}
	seed, _ := strconv.ParseInt(os.Getenv("VERIF_SEED"), 10, 64)
	n, _ := strconv.Atoi(os.Getenv("VERIF_CASES"))
	rng := rand.New(rand.NewSource(seed))
	f, err := os.Create(outPath)
	if err != nil {
		t.Fatal(err)
	}
	defer f.Close()
	w := bufio.NewWriter(f)
	defer w.Flush()
	l, _ := label.Parse("//:t")
	gen := func() (string, []string) {
		n := rng.Intn(14)
		b := make([]byte, n)
		for i := range b {
			b[i] = "ab\n\n\r"[rng.Intn(5)]
		}
		s := string(b)
		var chunks []string
		for len(s) > 0 {
			k := 1 + rng.Intn(len(s))
			if rng.Intn(4) == 0 {
				chunks = append(chunks, "") // an empty write
			}
			chunks = append(chunks, s[:k])
			s = s[k:]
		}
		return string(b), chunks
	}
	for i := 0; i < n; i++ {
		rec := &lwRecorder{}
		lw := newLineWriter(l, rec)
		var rounds []string
		for round := 0; round < 2; round++ {
			stream, chunks := gen()
			rec.lines = nil
			// how the producer owns the bytes it hands over (io.Writer: "Write must not modify the slice data, even
			// temporarily. Implementations must not retain p."): a fresh slice per write; ONE buffer reused for every
			// write (what io.Copy does for a child's pipe); the same, overwritten as soon as Write has returned; windows
			// of one backing array whose capacity reaches over the bytes that follow
			style := (i + round) % 4
			buf := make([]byte, 16)
			backing := append([]byte(strings.Join(chunks, "")), "0123456789abcdef"...)
			orig := string(backing)
			off := 0
			for _, c := range chunks {
				var p []byte
				switch style {
				case 0:
					p = []byte(c)
				case 1, 2:
					copy(buf, c)
					p = buf[:len(c)]
				case 3:
					p = backing[off : off+len(c)]
					off += len(c)
				}
				if n, err := lw.Write(p); n != len(c) || err != nil {
					w.WriteString("ORACLE\tshort-write\n")
				}
				if style == 2 {
					for j := range buf {
						buf[j] = 'Z'
					}
				}
			}
			lw.Flush()
			got := append([]string{}, rec.lines...)
			want := lwExpected(stream)
			styles := []string{"a fresh slice per write", "one buffer reused for every write", "one buffer, overwritten after each write", "windows of one backing array"}
			if strings.Join(got, "\x00") != strings.Join(want, "\x00") || len(got) != len(want) {
				w.WriteString("ORACLE\tC18 lineWriter delivered " + strconv.Quote(strings.Join(got, "|")) + " for chunks " + strconv.Quote(strings.Join(chunks, "|")) + " (round " + strconv.Itoa(round) + ", producer hands over " + styles[style] + ")\n")
			}
			if style == 3 && string(backing) != orig {
				w.WriteString("ORACLE\tC18 lineWriter modified the producer's bytes: " + strconv.Quote(orig) + " became " + strconv.Quote(string(backing)) + " after chunks " + strconv.Quote(strings.Join(chunks, "|")) + "\n")
			}
			rounds = append(rounds, lwHexList(chunks)+"\t"+lwHexList(got))
		}
		w.WriteString("case\t" + strings.Join(rounds, "\t") + "\n")
	}
}
