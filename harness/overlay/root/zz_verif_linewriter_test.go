package dawn

// C18: lineWriter chunking — random byte streams through the real lineWriter in random chunkings,
// two write+flush rounds per writer.

import (
	"bufio"
	"encoding/hex"
	"math/rand"
	"os"
	"strconv"
	"strings"
	"testing"

	"github.com/pgavlin/dawn/label"
)

type lwRecorder struct {
	discardEventsT
	lines []string
}

func (r *lwRecorder) Print(l *label.Label, line string) { r.lines = append(r.lines, line) }

func lwHexList(xs []string) string {
	hs := make([]string, len(xs))
	for i, x := range xs {
		hs[i] = "x" + hex.EncodeToString([]byte(x))
	}
	return strings.Join(hs, ",")
}

func lwExpected(stream string) []string {
	parts := strings.Split(stream, "\n")
	out := parts[:len(parts)-1]
	if last := parts[len(parts)-1]; last != "" {
		out = append(out, last)
	}
	return out
}

func TestVerifLineWriter(t *testing.T) {
	outPath := os.Getenv("VERIF_OUT")
	if outPath == "" || os.Getenv("VERIF_CHILD") == "1" {
		t.Skip("VERIF_OUT not set")
	}
	seed, _ := strconv.ParseInt(os.Getenv("VERIF_SEED"), 10, 64)
	n, _ := strconv.Atoi(os.Getenv("VERIF_CASES"))
	rng := rand.New(rand.NewSource(seed))
	f, err := os.Create(outPath)
	if err != nil {
		t.Fatal(err)
	}
	defer f.Close()
	w := bufio.NewWriter(f)
	defer w.Flush()
	l, _ := label.Parse("//:t")
	gen := func() (string, []string) {
		n := rng.Intn(14)
		b := make([]byte, n)
		for i := range b {
			b[i] = "ab\n\n\r"[rng.Intn(5)]
		}
		s := string(b)
		var chunks []string
		for len(s) > 0 {
			k := 1 + rng.Intn(len(s))
			if rng.Intn(4) == 0 {
				chunks = append(chunks, "") // an empty write
			}
			chunks = append(chunks, s[:k])
			s = s[k:]
		}
		return string(b), chunks
	}
	for i := 0; i < n; i++ {
		rec := &lwRecorder{}
		lw := newLineWriter(l, rec)
		var rounds []string
		for round := 0; round < 2; round++ {
			stream, chunks := gen()
			rec.lines = nil
			for _, c := range chunks {
				if n, err := lw.Write([]byte(c)); n != len(c) || err != nil {
					w.WriteString("ORACLE\tshort-write\n")
				}
			}
			lw.Flush()
			got := append([]string{}, rec.lines...)
			want := lwExpected(stream)
			if strings.Join(got, "\x00") != strings.Join(want, "\x00") || len(got) != len(want) {
				w.WriteString("ORACLE\tC18 lineWriter delivered " + strconv.Quote(strings.Join(got, "|")) + " for chunks " + strconv.Quote(strings.Join(chunks, "|")) + " (round " + strconv.Itoa(round) + ")\n")
			}
			rounds = append(rounds, lwHexList(chunks)+"\t"+lwHexList(got))
		}
		w.WriteString("case\t" + strings.Join(rounds, "\t") + "\n")
	}
}
