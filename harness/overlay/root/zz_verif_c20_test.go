package dawn

// Correspondence + direct-oracle harness for C20 (cache.once computes each key at most once).
//
// Parent mode (default): truncates $VERIF_OUT, then re-executes this test binary as a child for the
// scenario range [from, n); when the child dies (e.g. Go's unrecoverable "concurrent map writes")
// or hangs, the parent records `ORACLE\tprocess_died\t<scenario>` for the scenario that was running
// and restarts the child after it.  A crash is therefore an observed outcome, not a missing verdict.
//
// Child mode ($VERIF_C20_CHILD=1): runs the scenarios; per scenario one line
//   S <id> <mode> <ngoroutines> <nkeys> <plan> <history> <final entries>
// plus ORACLE lines for every direct oracle that fails.  Every random choice derives from
// $VERIF_SEED and the scenario id.

import (
	"context"
	"fmt"
	"math/rand"
	"os"
	"os/exec"
	"runtime"
	"sort"
	"strconv"
	"strings"
	"sync"
	"sync/atomic"
	"testing"
	"time"

	"go.starlark.net/starlark"
)

type c20Call struct {
	key int
	val int64 // >= 1: the callable returns MakeInt(val); -1: the callable fails
}

type c20Event struct {
	kind byte // 'c' call, 'b' invoke begin, 'e' invoke end, 'r' return
	g    int
	key  int
	val  int64 // 'e': value or -1 (fail); 'r': value, -1 (error) or -2 (neither an int nor an error)
}

type c20Scenario struct {
	id      int
	builtin bool
	nkeys   int
	plan    [][]c20Call
	jitter  [][]int // per goroutine per call: 0 none, 1 gosched, 2.. sleep microseconds
}

func c20Env(name string, def int) int {
	if v, err := strconv.Atoi(os.Getenv(name)); err == nil {
		return v
	}
	return def
}

func c20Key(k int) string { return "key" + strconv.Itoa(k) }

func c20Gen(seed int64, id int) *c20Scenario {
	rng := rand.New(rand.NewSource(seed*1000003 + int64(id)*7919 + 17))
	sc := &c20Scenario{id: id, builtin: id%2 == 1}
	uid := int64(0)
	next := func(fail bool) int64 {
		if fail {
			return -1
		}
		uid++
		return uid
	}
	// enumerated boundary classes first
	fixed := map[int][][]c20Call{
		0: {{{0, 1}}, {{0, 2}}},                                     // two callers, one key, both would succeed
		1: {{{0, -1}}, {{0, -1}}},                                   // both fail
		2: {{{0, -1}, {0, 1}}, {{0, 2}}},                            // fail then retry
		3: {{{0, -1}, {0, -1}, {0, 1}}, {{0, -1}, {0, 2}}},          // several failures, then success
		4: {{{0, 1}, {0, 2}, {0, 3}}, {{0, 4}, {0, 5}, {0, 6}}},     // repeated calls on a cached key
		5: {{{0, 1}}, {{1, 2}}, {{2, 3}}, {{0, 4}}, {{1, 5}}, {{2, 6}}}, // three keys
	}
	if p, ok := fixed[id/2]; ok && id < 12 {
		sc.plan = p
		sc.nkeys = 1
		for _, g := range p {
			for _, c := range g {
				if c.key+1 > sc.nkeys {
					sc.nkeys = c.key + 1
				}
			}
		}
	} else {
		ng := 2 + rng.Intn(15) // 2..16
		switch rng.Intn(4) {
		case 0:
			ng = 2 + rng.Intn(3)
		case 1:
			ng = 16
		}
		sc.nkeys = 1 + rng.Intn(3)
		pf := []float64{0, 0.3, 0.6, 0.9, 1}[rng.Intn(5)]
		for g := 0; g < ng; g++ {
			nc := 1 + rng.Intn(3)
			var calls []c20Call
			for i := 0; i < nc; i++ {
				calls = append(calls, c20Call{key: rng.Intn(sc.nkeys), val: next(rng.Float64() < pf)})
			}
			sc.plan = append(sc.plan, calls)
		}
	}
	for _, g := range sc.plan {
		var js []int
		for range g {
			js = append(js, rng.Intn(3), rng.Intn(3)*rng.Intn(12))
		}
		sc.jitter = append(sc.jitter, js)
	}
	return sc
}

func c20Delay(j int) {
	switch {
	case j == 0:
	case j == 1:
		runtime.Gosched()
	default:
		time.Sleep(time.Duration(j) * time.Microsecond)
	}
}

func c20Val(v starlark.Value, err error) int64 {
	if err != nil {
		return -1
	}
	if i, ok := v.(starlark.Int); ok {
		if n, ok := i.Int64(); ok && n >= 1 {
			return n
		}
	}
	return -2
}

// c20RunScenario drives the real cache and returns the history, the final entries and panics.
func c20RunScenario(sc *c20Scenario) (hist []c20Event, final map[int]int64, panics []string, invocations []int64) {
	var c *cache
	var onceFn starlark.Value
	if sc.builtin {
		v, err := starlark.Call(&starlark.Thread{Name: "mk"}, builtin_cache, nil, nil)
		if err != nil {
			return nil, nil, []string{"builtin_cache: " + err.Error()}, nil
		}
		c = v.(*cache)
		onceFn, _ = c.Attr("once")
	} else {
		c = &cache{entries: map[string]starlark.Value{}}
		c.onceM = c.newOnce()
	}

	var mu sync.Mutex
	logEv := func(e c20Event) {
		mu.Lock()
		hist = append(hist, e)
		mu.Unlock()
	}
	invocations = make([]int64, sc.nkeys)
	start := make(chan struct{})
	var wg sync.WaitGroup
	for g := range sc.plan {
		wg.Add(1)
		go func(g int) {
			defer wg.Done()
			defer func() {
				if x := recover(); x != nil {
					mu.Lock()
					panics = append(panics, fmt.Sprint(x))
					mu.Unlock()
				}
			}()
			thread := &starlark.Thread{Name: "g" + strconv.Itoa(g)}
			<-start
			for i, call := range sc.plan[g] {
				call := call
				jpre, jin := sc.jitter[g][2*i], sc.jitter[g][2*i+1]
				callable := starlark.NewBuiltin("f", func(_ *starlark.Thread, _ *starlark.Builtin, _ starlark.Tuple, _ []starlark.Tuple) (starlark.Value, error) {
					atomic.AddInt64(&invocations[call.key], 1)
					logEv(c20Event{'b', g, call.key, 0})
					c20Delay(jin)
					logEv(c20Event{'e', g, call.key, call.val})
					if call.val < 0 {
						return nil, fmt.Errorf("planned failure")
					}
					return starlark.MakeInt64(call.val), nil
				})
				c20Delay(jpre)
				logEv(c20Event{'c', g, call.key, 0})
				var v starlark.Value
				var err error
				if sc.builtin {
					v, err = starlark.Call(thread, onceFn, starlark.Tuple{starlark.String(c20Key(call.key)), callable}, nil)
				} else {
					v, err = c.once(thread, nil, c20Key(call.key), callable)
				}
				logEv(c20Event{'r', g, call.key, c20Val(v, err)})
			}
		}(g)
	}
	close(start)
	wg.Wait()

	final = map[int]int64{}
	c.m.Lock()
	for k := 0; k < sc.nkeys; k++ {
		if v, ok := c.entries[c20Key(k)]; ok {
			final[k] = c20Val(v, nil)
		}
	}
	extra := len(c.entries) - len(final)
	c.m.Unlock()
	if extra != 0 {
		panics = append(panics, "entries has keys outside the plan")
	}
	return
}

// c20Oracles evaluates the direct oracles of C20 on one observed history.
func c20Oracles(sc *c20Scenario, hist []c20Event, final map[int]int64, invocations []int64) []string {
	var bad []string
	fail := func(name string) {
		for _, b := range bad {
			if b == name {
				return
			}
		}
		bad = append(bad, name)
	}
	succ := make([]int, sc.nkeys)
	ninv := make([]int64, sc.nkeys)
	stored := make([]bool, sc.nkeys) // a successful invoke_end for the key has been logged
	open := -1                       // goroutine inside a callable, by the log
	pendingFail := map[int]bool{}    // goroutine whose current call's callable failed
	invokedOk := map[int]int64{}     // goroutine whose current call's callable succeeded -> value
	for _, e := range hist {
		switch e.kind {
		case 'c':
			delete(pendingFail, e.g)
			delete(invokedOk, e.g)
		case 'b':
			ninv[e.key]++
			if open != -1 {
				fail("invocations_overlap") // (d)
			}
			open = e.g
			if stored[e.key] {
				fail("invoke_after_store") // (e)
			}
		case 'e':
			if open != e.g {
				fail("invocations_overlap")
			}
			open = -1
			if e.val >= 0 {
				succ[e.key]++
				stored[e.key] = true
				invokedOk[e.g] = e.val
			} else {
				pendingFail[e.g] = true
			}
		case 'r':
			switch {
			case e.val == -2:
				fail("return_neither_value_nor_error")
			case e.val == -1:
				if !pendingFail[e.g] {
					fail("error_without_failed_invocation")
				}
			default:
				if pendingFail[e.g] {
					fail("failed_invocation_returned_value") // (c)
				}
				if v, ok := invokedOk[e.g]; ok && v != e.val {
					fail("return_differs_from_own_invocation")
				}
				fv, ok := final[e.key]
				if !ok || fv != e.val {
					fail("return_differs_from_entries") // (b)
				}
			}
		}
	}
	for k := 0; k < sc.nkeys; k++ {
		if succ[k] > 1 {
			fail("multiple_successful_invocations") // (a)
		}
		if succ[k] == 0 {
			if _, ok := final[k]; ok {
				fail("entry_without_successful_invocation") // (c)
			}
		}
		if ninv[k] != atomic.LoadInt64(&invocations[k]) {
			fail("harness_counter_disagrees_with_log")
		}
	}
	return bad
}

func c20Render(sc *c20Scenario, hist []c20Event, final map[int]int64) string {
	var plan []string
	for _, g := range sc.plan {
		var cs []string
		for _, c := range g {
			o := "f"
			if c.val >= 0 {
				o = strconv.FormatInt(c.val, 10)
			}
			cs = append(cs, fmt.Sprintf("%d:%s", c.key, o))
		}
		plan = append(plan, strings.Join(cs, ","))
	}
	var hs []string
	for _, e := range hist {
		switch e.kind {
		case 'c', 'b':
			hs = append(hs, fmt.Sprintf("%c%d:%d", e.kind, e.g, e.key))
		default:
			hs = append(hs, fmt.Sprintf("%c%d:%d:%d", e.kind, e.g, e.key, e.val))
		}
	}
	var fs []string
	for k := 0; k < sc.nkeys; k++ {
		if v, ok := final[k]; ok {
			fs = append(fs, fmt.Sprintf("%d=%d", k, v))
		} else {
			fs = append(fs, fmt.Sprintf("%d=-", k))
		}
	}
	sort.Strings(fs)
	mode := "direct"
	if sc.builtin {
		mode = "builtin"
	}
	return strings.Join([]string{"S", strconv.Itoa(sc.id), mode, strconv.Itoa(len(sc.plan)), strconv.Itoa(sc.nkeys),
		strings.Join(plan, "|"), strings.Join(hs, " "), strings.Join(fs, ",")}, "\t")
}

func c20Child(t *testing.T, outPath string) {
	seed := int64(c20Env("VERIF_SEED", 1))
	from, to := c20Env("VERIF_C20_FROM", 0), c20Env("VERIF_C20_TO", 0)
	f, err := os.OpenFile(outPath, os.O_APPEND|os.O_WRONLY|os.O_CREATE, 0o644)
	if err != nil {
		t.Fatal(err)
	}
	defer f.Close()
	line := func(s string) { f.WriteString(s + "\n") }
	for id := from; id < to; id++ {
		sc := c20Gen(seed, id)
		line("BEGIN\t" + strconv.Itoa(id))
		type res struct {
			hist   []c20Event
			final  map[int]int64
			panics []string
			inv    []int64
		}
		done := make(chan res, 1)
		go func() {
			h, fin, p, inv := c20RunScenario(sc)
			done <- res{h, fin, p, inv}
		}()
		select {
		case r := <-done:
			line(c20Render(sc, r.hist, r.final))
			for _, p := range r.panics {
				line("ORACLE\tpanic\t" + strconv.Itoa(id) + "\t" + strings.ReplaceAll(p, "\n", " "))
			}
			for _, o := range c20Oracles(sc, r.hist, r.final, r.inv) {
				line("ORACLE\t" + o + "\t" + strconv.Itoa(id))
			}
			line("END\t" + strconv.Itoa(id))
		case <-time.After(20 * time.Second):
			line("ORACLE\thang\t" + strconv.Itoa(id))
			f.Close()
			os.Exit(3)
		}
	}
}

func TestVerifC20(t *testing.T) {
	outPath := os.Getenv("VERIF_OUT")
	if outPath == "" {
		t.Skip("VERIF_OUT not set")
	}
	if os.Getenv("VERIF_C20_CHILD") != "" {
		c20Child(t, outPath)
		return
	}
	n := c20Env("VERIF_N", 400)
	if err := os.WriteFile(outPath, nil, 0o644); err != nil {
		t.Fatal(err)
	}
	from, deaths := 0, 0
	for from < n && deaths < 6 {
		ctx, cancel := context.WithTimeout(context.Background(), 10*time.Minute)
		cmd := exec.CommandContext(ctx, os.Args[0], "-test.run", "^TestVerifC20$", "-test.timeout", "15m")
		cmd.Env = append(os.Environ(), "VERIF_C20_CHILD=1", "VERIF_C20_FROM="+strconv.Itoa(from), "VERIF_C20_TO="+strconv.Itoa(n))
		out, err := cmd.CombinedOutput()
		cancel()
		if err == nil {
			break
		}
		deaths++
		// which scenario was running?
		data, _ := os.ReadFile(outPath)
		last, ended := -1, true
		for _, l := range strings.Split(string(data), "\n") {
			if strings.HasPrefix(l, "BEGIN\t") {
				last, _ = strconv.Atoi(l[6:])
				ended = false
			} else if strings.HasPrefix(l, "END\t") {
				ended = true
			}
		}
		msg := string(out)
		if i := strings.Index(msg, "fatal error"); i >= 0 {
			msg = msg[i:]
		}
		if len(msg) > 160 {
			msg = msg[:160]
		}
		msg = strings.ReplaceAll(strings.ReplaceAll(msg, "\n", " "), "\t", " ")
		f, _ := os.OpenFile(outPath, os.O_APPEND|os.O_WRONLY, 0o644)
		if ended || last < 0 {
			fmt.Fprintf(f, "ORACLE\tprocess_died\t-1\t%v: %s\n", err, msg)
			f.Close()
			break
		}
		fmt.Fprintf(f, "ORACLE\tprocess_died\t%d\t%v: %s\n", last, err, msg)
		fmt.Fprintf(f, "END\t%d\n", last)
		f.Close()
		from = last + 1
	}
}
