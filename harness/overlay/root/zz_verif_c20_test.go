package dawn

// Correspondence + direct-oracle harness for C20 (cache.once computes each key at most once).
//
// Parent mode (default): truncates $VERIF_OUT, then re-executes this test binary as a child for the
// scenario range [from, n); when the child dies (e.g. Go's unrecoverable "concurrent map writes")
// or hangs, the parent records `ORACLE\tprocess_died\t<scenario>` for the scenario that was running
// and restarts the child after it.  A crash is therefore an observed outcome, not a missing verdict.
//
// Child mode ($VERIF_C20_CHILD=1): runs the scenarios; per scenario one line
//   S <id> <mode> <ngoroutines> <nkeys> <plan> <history> <final entries>
// plus ORACLE lines for every direct oracle that fails.  Every random choice derives from
// $VERIF_SEED and the scenario id.
//
// Data independence.  The model treats keys and values as opaque numbers (its theorems hold for EVERY
// key and value), so the correspondence must show that cache.go treats them as opaque too.  A call of
// the plan therefore carries a value CODE = kind*1e6 + payload: kind 0 is the plain positive int (code =
// payload), the other kinds are the Starlark value classes of c20Kinds (None, False, 0, "", (), fresh [] and
// {}, frozen list, set, NaN, a function value, ... each with and without a payload).  The callable
// builds the Starlark value of its code; whatever once returns or stores is decoded back to a code by
// content (by pointer identity for the mutable kinds, so a copy is not "the same value").  Keys are
// drawn from c20KeyStyles (empty, blank, NUL, case variants, 4 KiB common prefix, label-like,
// NFC/NFD/invalid UTF-8, number-like).  The callable itself is a Go builtin, a Starlark def, a lambda or
// a def WITHOUT return (implicit None); it fails by returning an error, by fail(), or by returning
// (nil, nil).  Extra columns of the S line: quoted keys, readable plan, kinds, key style, shapes.
//
// Callers in context (nested family, scenario ids >= $VERIF_N).  The property quantifies over EVERY caller
// of a cache's once; a caller need not be a fresh thread at top level.  In this family a scenario has 2-3
// caches that use the SAME key strings, and a call's callable may itself call once on a cache of higher
// rank with the thread it was given (a memoised function that uses another memoised function), so a
// caller of cache i may be inside the callable of cache j<i, holding j's lock and carrying whatever the
// outer once left on its thread, while other goroutines call cache i directly.  A callable either returns
// its planned value or passes on what its last nested call returned (value or error).  A gated callable
// waits (bounded) until another goroutine has a call on the same cache and key in flight, so the
// interleaving "a second caller arrives while the first one's callable runs" is forced, not hoped for.
// Each cache's events are projected out and written as an ordinary S line (id 500000+4*j+cache, mode
// nested-*), with the plan derived from the calls that were actually made; the per-cache oracles and the
// Coq replay are those of the single-cache family (justified by Cache/Nested.v: the projection of a run
// of the multi-cache system onto one cache is a run of the single-cache model).  Ranks make the lock
// order acyclic, so the unchanged code cannot deadlock here; same-cache re-entrancy stays excluded.

import (
	"context"
	"fmt"
	"math"
	"math/big"
	"math/rand"
	"os"
	"os/exec"
	"runtime"
	"sort"
	"strconv"
	"strings"
	"sync"
	"sync/atomic"
	"testing"
	"time"

	"go.starlark.net/starlark"
)

type c20Call struct {
	key   int
	val   int64 // >= 1: code of the value the callable returns (see c20Make); -1: the callable fails
	shape int   // what the callable is, see c20Shapes
}

const c20KindBase = 1000000

// value kinds; code = kind*c20KindBase + payload (payload 0 for the kinds that have only one value)
var c20Kinds = []string{"int", "None", "False", "True", "int0", "negint", "bigint", "float0", "float", "nan",
	"str_empty", "str", "bytes_empty", "tuple_empty", "tuple", "list_empty", "list", "list_frozen", "dict_empty", "dict",
	"set_empty", "function"}

var c20KindHasPayload = map[string]bool{"int": true, "negint": true, "bigint": true, "float": true, "str": true, "tuple": true,
	"list_empty": true, "list": true, "list_frozen": true, "dict_empty": true, "dict": true, "set_empty": true}

// callable shapes.  0-3 succeed (3 only ever returns None), 0-2 and 4-5 can fail.
var c20Shapes = []string{"builtin", "def_return", "lambda", "def_no_return", "def_fail", "builtin_nil_nil"}

var c20ShapeSrc = map[int]string{
	1: "def f():\n    return h()\n",
	2: "f = lambda: h()\n",
	3: "def f():\n    h()\n",
	4: "def f():\n    h()\n    fail('planned failure')\n",
}

var c20KeyStyles = []string{"plain", "empty_blank_nul", "case_space", "long_common_prefix", "label_like", "unicode", "number_like"}

func c20Keys(style int) []string {
	switch style {
	case 1:
		return []string{"", " ", "\x00"}
	case 2:
		return []string{"a", "A", "a "}
	case 3:
		p := strings.Repeat("k", 4096)
		return []string{p + "0", p + "1", p}
	case 4:
		return []string{"//pkg:t", "//pkg:T", "//pkg/:t"}
	case 5:
		return []string{"\u00e9", "e\u0301", "\xff"}
	case 6:
		return []string{"0", "00", "None"}
	}
	return []string{"key0", "key1", "key2"}
}

func c20Code(kind string, uid int64) int64 {
	for i, k := range c20Kinds {
		if k == kind {
			if !c20KindHasPayload[k] {
				return int64(i) * c20KindBase
			}
			return int64(i)*c20KindBase + uid
		}
	}
	panic("unknown kind " + kind)
}

var c20Big = new(big.Int).Lsh(big.NewInt(1), 70)

// c20Make builds the Starlark value of a code.  Mutable values are fresh objects, registered by pointer.
func c20Make(code int64, reg *sync.Map) starlark.Value {
	kind, p := c20Kinds[code/c20KindBase], code%c20KindBase
	var v starlark.Value
	switch kind {
	case "int":
		return starlark.MakeInt64(p)
	case "None":
		return starlark.None
	case "False":
		return starlark.False
	case "True":
		return starlark.True
	case "int0":
		return starlark.MakeInt(0)
	case "negint":
		return starlark.MakeInt64(-p)
	case "bigint":
		return starlark.MakeBigInt(new(big.Int).Add(c20Big, big.NewInt(p)))
	case "float0":
		return starlark.Float(0)
	case "float":
		return starlark.Float(float64(p) + 0.5)
	case "nan":
		return starlark.Float(math.NaN())
	case "str_empty":
		return starlark.String("")
	case "str":
		return starlark.String("v" + strconv.FormatInt(p, 10))
	case "bytes_empty":
		return starlark.Bytes("")
	case "tuple_empty":
		return starlark.Tuple{}
	case "tuple":
		return starlark.Tuple{starlark.MakeInt64(p)}
	case "list_empty":
		v = starlark.NewList(nil)
	case "list":
		v = starlark.NewList([]starlark.Value{starlark.MakeInt64(p)})
	case "list_frozen":
		l := starlark.NewList([]starlark.Value{starlark.MakeInt64(p)})
		l.Freeze()
		v = l
	case "dict_empty":
		v = starlark.NewDict(0)
	case "dict":
		d := starlark.NewDict(1)
		d.SetKey(starlark.MakeInt64(p), starlark.None)
		v = d
	case "set_empty":
		v = starlark.NewSet(0)
	case "function":
		return starlark.Universe["len"]
	default:
		panic("c20Make: " + kind)
	}
	reg.Store(v, code)
	return v
}

// c20Val decodes what once returned (or what is stored in entries) to a code; -1 error, -2 anything that
// is not a value of the scenario.
func c20Val(v starlark.Value, err error, reg *sync.Map) int64 {
	if err != nil {
		return -1
	}
	switch x := v.(type) {
	case starlark.NoneType:
		return c20Code("None", 0)
	case starlark.Bool:
		if x {
			return c20Code("True", 0)
		}
		return c20Code("False", 0)
	case starlark.Int:
		if n, ok := x.Int64(); ok {
			switch {
			case n == 0:
				return c20Code("int0", 0)
			case n > 0 && n < c20KindBase:
				return n
			case n < 0 && n > -c20KindBase:
				return c20Code("negint", -n)
			}
			return -2
		}
		d := new(big.Int).Sub(x.BigInt(), c20Big)
		if d.IsInt64() && d.Int64() > 0 && d.Int64() < c20KindBase {
			return c20Code("bigint", d.Int64())
		}
	case starlark.Float:
		f := float64(x)
		switch {
		case math.IsNaN(f):
			return c20Code("nan", 0)
		case f == 0:
			return c20Code("float0", 0)
		case f > 0 && f < c20KindBase && f-math.Floor(f) == 0.5:
			return c20Code("float", int64(math.Floor(f)))
		}
	case starlark.String:
		if x == "" {
			return c20Code("str_empty", 0)
		}
		if n, e := strconv.ParseInt(strings.TrimPrefix(string(x), "v"), 10, 64); e == nil && strings.HasPrefix(string(x), "v") && n > 0 && n < c20KindBase {
			return c20Code("str", n)
		}
	case starlark.Bytes:
		if x == "" {
			return c20Code("bytes_empty", 0)
		}
	case starlark.Tuple:
		if len(x) == 0 {
			return c20Code("tuple_empty", 0)
		}
		if len(x) == 1 {
			if i, ok := x[0].(starlark.Int); ok {
				if n, ok := i.Int64(); ok && n > 0 && n < c20KindBase {
					return c20Code("tuple", n)
				}
			}
		}
	case *starlark.List, *starlark.Dict, *starlark.Set:
		// mutable: "the same value" is the same object
		if code, ok := reg.Load(v); ok {
			return code.(int64)
		}
	case *starlark.Builtin:
		if x == starlark.Universe["len"] {
			return c20Code("function", 0)
		}
	}
	return -2
}

func c20Repr(code int64) string {
	if code < 0 {
		return "fail"
	}
	var reg sync.Map
	return c20Make(code, &reg).String()
}

type c20Event struct {
	kind byte // 'c' call, 'b' invoke begin, 'e' invoke end, 'r' return
	g    int
	key  int
	val  int64 // 'e': value or -1 (fail); 'r': value, -1 (error) or -2 (neither an int nor an error)

	cache int       // nested family only: which cache
	call  *c20NCall // nested family only: the planned call this event belongs to
}

type c20Scenario struct {
	id      int
	builtin bool
	nkeys   int
	style   int      // key style, index into c20KeyStyles
	keys    []string // the key strings, by key number
	plan    [][]c20Call
	jitter  [][]int // per goroutine per call: 0 none, 1 gosched, 2.. sleep microseconds

	mode  string // overrides "direct"/"builtin" in the S line (projections of the nested family)
	extra string // extra last column of the S line (the whole nested scenario, readable)
}

func c20Env(name string, def int) int {
	if v, err := strconv.Atoi(os.Getenv(name)); err == nil {
		return v
	}
	return def
}

func c20Gen(seed int64, id int) *c20Scenario {
	rng := rand.New(rand.NewSource(seed*1000003 + int64(id)*7919 + 17))
	sc := &c20Scenario{id: id, builtin: id%2 == 1}
	uid := int64(0)
	next := func(fail bool) int64 {
		if fail {
			return -1
		}
		uid++
		return uid
	}
	// enumerated boundary classes first
	fixed := map[int][][]c20Call{
		0: {{{0, 1, 0}}, {{0, 2, 0}}},                                                     // two callers, one key, both would succeed
		1: {{{0, -1, 0}}, {{0, -1, 0}}},                                                   // both fail
		2: {{{0, -1, 0}, {0, 1, 0}}, {{0, 2, 0}}},                                         // fail then retry
		3: {{{0, -1, 0}, {0, -1, 0}, {0, 1, 0}}, {{0, -1, 0}, {0, 2, 0}}},                 // several failures, then success
		4: {{{0, 1, 0}, {0, 2, 0}, {0, 3, 0}}, {{0, 4, 0}, {0, 5, 0}, {0, 6, 0}}},         // repeated calls on a cached key
		5: {{{0, 1, 0}}, {{1, 2, 0}}, {{2, 3, 0}}, {{0, 4, 0}}, {{1, 5, 0}}, {{2, 6, 0}}}, // three keys
	}
	okShapes := func(code int64) []int {
		if code < 0 {
			return []int{0, 1, 2, 4, 5}
		}
		if code == c20Code("None", 0) {
			return []int{0, 1, 2, 3}
		}
		return []int{0, 1, 2}
	}
	nKinds, nStyles := len(c20Kinds), len(c20KeyStyles)
	failShapes := []int{1, 2, 4, 5}
	e0 := 12                     // value-kind family: every kind but the plain int, both modes
	e1 := e0 + 2*(nKinds-1)      // key-style family: every style but the plain one, both modes
	e2 := e1 + 2*(nStyles-1)     // failing-callable family: every way of failing but the builtin error
	e3 := e2 + 2*len(failShapes) // random plans from here
	var p [][]c20Call
	switch {
	case id < e0:
		p = fixed[id/2]
	case id < e1:
		// every call on key 0 would return a value of this one kind; repeated sequential and concurrent
		// calls on the cached key; the callable shapes rotate (incl. the def without return for None)
		kind := c20Kinds[1+(id-e0)/2]
		n := 0
		mk := func(key int) c20Call {
			code := c20Code(kind, next(false))
			sh := okShapes(code)
			n++
			return c20Call{key: key, val: code, shape: sh[(n+id/2)%len(sh)]}
		}
		p = [][]c20Call{{mk(0), mk(0), mk(0)}, {mk(0), mk(0)}, {mk(1), mk(0)}, {{key: 1, val: next(false)}}}
	case id < e2:
		sc.style = 1 + (id-e1)/2
		mk := func(key int) c20Call { return c20Call{key: key, val: next(false)} }
		p = [][]c20Call{{mk(0), mk(1), mk(2)}, {mk(2), mk(1), mk(0)}, {mk(0)}, {mk(1)}, {mk(2)}}
	case id < e3:
		fs := failShapes[(id-e2)/2]
		p = [][]c20Call{{{0, -1, fs}, {0, next(false), 1}}, {{0, -1, fs}, {0, next(false), 0}}, {{0, -1, fs}}}
	}
	if p != nil {
		sc.plan = p
		sc.nkeys = 1
		for _, g := range p {
			for _, c := range g {
				if c.key+1 > sc.nkeys {
					sc.nkeys = c.key + 1
				}
			}
		}
	} else {
		ng := 2 + rng.Intn(15) // 2..16
		switch rng.Intn(4) {
		case 0:
			ng = 2 + rng.Intn(3)
		case 1:
			ng = 16
		}
		sc.nkeys = 1 + rng.Intn(3)
		pf := []float64{0, 0.3, 0.6, 0.9, 1}[rng.Intn(5)]
		// drawn AFTER the structural choices so that the plans' structure is the same as before
		type pc struct {
			fail bool
			key  int
		}
		var shapeOf [][]pc
		for g := 0; g < ng; g++ {
			nc := 1 + rng.Intn(3)
			var calls []pc
			for i := 0; i < nc; i++ {
				calls = append(calls, pc{key: rng.Intn(sc.nkeys), fail: rng.Float64() < pf})
			}
			shapeOf = append(shapeOf, calls)
		}
		if rng.Intn(2) == 1 {
			sc.style = rng.Intn(nStyles)
		}
		valueMode := rng.Intn(10) // 0-2 plain ints; 3-5 one kind for the whole scenario; 6-9 a kind per call
		oneKind := c20Kinds[rng.Intn(nKinds)]
		mixShapes := rng.Intn(2) == 1
		for _, cs := range shapeOf {
			var calls []c20Call
			for _, c := range cs {
				kind := "int"
				switch {
				case valueMode >= 6:
					kind = c20Kinds[rng.Intn(nKinds)]
				case valueMode >= 3:
					kind = oneKind
				}
				call := c20Call{key: c.key, val: -1}
				if uid := next(c.fail); uid > 0 {
					call.val = c20Code(kind, uid)
				}
				if mixShapes {
					sh := okShapes(call.val)
					call.shape = sh[rng.Intn(len(sh))]
				}
				calls = append(calls, call)
			}
			sc.plan = append(sc.plan, calls)
		}
	}
	sc.keys = c20Keys(sc.style)[:sc.nkeys]
	for _, g := range sc.plan {
		var js []int
		for range g {
			js = append(js, rng.Intn(3), rng.Intn(3)*rng.Intn(12))
		}
		sc.jitter = append(sc.jitter, js)
	}
	return sc
}

func c20Delay(j int) {
	switch {
	case j == 0:
	case j == 1:
		runtime.Gosched()
	default:
		time.Sleep(time.Duration(j) * time.Microsecond)
	}
}

// c20RunScenario drives the real cache and returns the history, the final entries and panics.
func c20RunScenario(sc *c20Scenario) (hist []c20Event, final map[int]int64, panics []string, invocations []int64) {
	var reg sync.Map // mutable values produced by the callables, by pointer
	var c *cache
	var onceFn starlark.Value
	if sc.builtin {
		v, err := starlark.Call(&starlark.Thread{Name: "mk"}, builtin_cache, nil, nil)
		if err != nil {
			return nil, nil, []string{"builtin_cache: " + err.Error()}, nil
		}
		c = v.(*cache)
		onceFn, _ = c.Attr("once")
	} else {
		c = &cache{entries: map[string]starlark.Value{}}
		c.onceM = c.newOnce()
	}

	var mu sync.Mutex
	logEv := func(e c20Event) {
		mu.Lock()
		hist = append(hist, e)
		mu.Unlock()
	}
	invocations = make([]int64, sc.nkeys)
	start := make(chan struct{})
	var wg sync.WaitGroup
	for g := range sc.plan {
		wg.Add(1)
		go func(g int) {
			defer wg.Done()
			defer func() {
				if x := recover(); x != nil {
					mu.Lock()
					panics = append(panics, fmt.Sprint(x))
					mu.Unlock()
				}
			}()
			thread := &starlark.Thread{Name: "g" + strconv.Itoa(g)}
			<-start
			for i, call := range sc.plan[g] {
				call := call
				jpre, jin := sc.jitter[g][2*i], sc.jitter[g][2*i+1]
				var callable starlark.Callable = starlark.NewBuiltin("h", func(_ *starlark.Thread, _ *starlark.Builtin, _ starlark.Tuple, _ []starlark.Tuple) (starlark.Value, error) {
					atomic.AddInt64(&invocations[call.key], 1)
					logEv(c20Event{kind: 'b', g: g, key: call.key, val: 0})
					c20Delay(jin)
					var v starlark.Value
					if call.val >= 0 {
						v = c20Make(call.val, &reg)
					}
					logEv(c20Event{kind: 'e', g: g, key: call.key, val: call.val})
					switch {
					case call.val >= 0:
						return v, nil
					case call.shape == 4:
						return starlark.None, nil // the def calls fail() next
					case call.shape == 5:
						return nil, nil // starlark.Call turns this into an error
					}
					return nil, fmt.Errorf("planned failure")
				})
				if src, ok := c20ShapeSrc[call.shape]; ok {
					globals, err := starlark.ExecFile(&starlark.Thread{Name: "def"}, "c20.star", src, starlark.StringDict{"h": callable})
					if err != nil {
						panic("c20 harness: " + err.Error())
					}
					callable = globals["f"].(starlark.Callable)
				}
				c20Delay(jpre)
				logEv(c20Event{kind: 'c', g: g, key: call.key, val: 0})
				var v starlark.Value
				var err error
				if sc.builtin {
					v, err = starlark.Call(thread, onceFn, starlark.Tuple{starlark.String(sc.keys[call.key]), callable}, nil)
				} else {
					v, err = c.once(thread, nil, sc.keys[call.key], callable)
				}
				logEv(c20Event{kind: 'r', g: g, key: call.key, val: c20Val(v, err, &reg)})
			}
		}(g)
	}
	close(start)
	wg.Wait()

	final = map[int]int64{}
	c.m.Lock()
	for k := 0; k < sc.nkeys; k++ {
		if v, ok := c.entries[sc.keys[k]]; ok {
			final[k] = c20Val(v, nil, &reg)
		}
	}
	extra := len(c.entries) - len(final)
	c.m.Unlock()
	if extra != 0 {
		panics = append(panics, "entries has keys outside the plan")
	}
	return
}

// c20Oracles evaluates the direct oracles of C20 on one observed history.
func c20Oracles(sc *c20Scenario, hist []c20Event, final map[int]int64, invocations []int64) []string {
	var bad []string
	fail := func(name string) {
		for _, b := range bad {
			if b == name {
				return
			}
		}
		bad = append(bad, name)
	}
	succ := make([]int, sc.nkeys)
	ninv := make([]int64, sc.nkeys)
	stored := make([]bool, sc.nkeys) // a successful invoke_end for the key has been logged
	open := -1                       // goroutine inside a callable, by the log
	pendingFail := map[int]bool{}    // goroutine whose current call's callable failed
	invokedOk := map[int]int64{}     // goroutine whose current call's callable succeeded -> value
	for _, e := range hist {
		switch e.kind {
		case 'c':
			delete(pendingFail, e.g)
			delete(invokedOk, e.g)
		case 'b':
			ninv[e.key]++
			if open != -1 {
				fail("invocations_overlap") // (d)
			}
			open = e.g
			if stored[e.key] {
				fail("invoke_after_store") // (e)
			}
		case 'e':
			if open != e.g {
				fail("invocations_overlap")
			}
			open = -1
			if e.val >= 0 {
				succ[e.key]++
				stored[e.key] = true
				invokedOk[e.g] = e.val
			} else {
				pendingFail[e.g] = true
			}
		case 'r':
			switch {
			case e.val == -2:
				fail("return_neither_value_nor_error")
			case e.val == -1:
				if !pendingFail[e.g] {
					fail("error_without_failed_invocation")
				}
			default:
				if pendingFail[e.g] {
					fail("failed_invocation_returned_value") // (c)
				}
				if v, ok := invokedOk[e.g]; ok && v != e.val {
					fail("return_differs_from_own_invocation")
				}
				fv, ok := final[e.key]
				if !ok || fv != e.val {
					fail("return_differs_from_entries") // (b)
				}
			}
		}
	}
	for k := 0; k < sc.nkeys; k++ {
		if succ[k] > 1 {
			fail("multiple_successful_invocations") // (a)
		}
		if succ[k] == 0 {
			if _, ok := final[k]; ok {
				fail("entry_without_successful_invocation") // (c)
			}
		}
		if ninv[k] != atomic.LoadInt64(&invocations[k]) {
			fail("harness_counter_disagrees_with_log")
		}
	}
	return bad
}

func c20Render(sc *c20Scenario, hist []c20Event, final map[int]int64) string {
	var plan []string
	for _, g := range sc.plan {
		var cs []string
		for _, c := range g {
			o := "f"
			if c.val >= 0 {
				o = strconv.FormatInt(c.val, 10)
			}
			cs = append(cs, fmt.Sprintf("%d:%s", c.key, o))
		}
		plan = append(plan, strings.Join(cs, ","))
	}
	var hs []string
	for _, e := range hist {
		switch e.kind {
		case 'c', 'b':
			hs = append(hs, fmt.Sprintf("%c%d:%d", e.kind, e.g, e.key))
		default:
			hs = append(hs, fmt.Sprintf("%c%d:%d:%d", e.kind, e.g, e.key, e.val))
		}
	}
	var fs []string
	for k := 0; k < sc.nkeys; k++ {
		if v, ok := final[k]; ok {
			fs = append(fs, fmt.Sprintf("%d=%d", k, v))
		} else {
			fs = append(fs, fmt.Sprintf("%d=-", k))
		}
	}
	sort.Strings(fs)
	mode := "direct"
	if sc.builtin {
		mode = "builtin"
	}
	if sc.mode != "" {
		mode = sc.mode
	}
	// readable description of the input (for the replay file) and the classes it belongs to (for the distribution)
	var keys, rplan, kinds, shapes []string
	for _, k := range sc.keys {
		q := strconv.QuoteToASCII(k)
		if len(q) > 40 {
			q = fmt.Sprintf("%s...(%d bytes)...%s", q[:12], len(k), q[len(q)-6:])
		}
		keys = append(keys, q)
	}
	for _, g := range sc.plan {
		var cs []string
		for _, c := range g {
			cs = append(cs, fmt.Sprintf("once(%s, %s -> %s)", keys[c.key], c20Shapes[c.shape], c20Repr(c.val)))
			if c.val >= 0 {
				kinds = append(kinds, c20Kinds[c.val/c20KindBase])
			} else {
				kinds = append(kinds, "fail")
			}
			shapes = append(shapes, c20Shapes[c.shape])
		}
		rplan = append(rplan, strings.Join(cs, "; "))
	}
	return strings.Join([]string{"S", strconv.Itoa(sc.id), mode, strconv.Itoa(len(sc.plan)), strconv.Itoa(sc.nkeys),
		strings.Join(plan, "|"), strings.Join(hs, " "), strings.Join(fs, ","),
		strings.Join(keys, " "), strings.Join(rplan, " | "), strings.Join(kinds, ","), c20KeyStyles[sc.style],
		strings.Join(shapes, ","), sc.extra}, "\t")
}

func c20Child(t *testing.T, outPath string) {
	seed := int64(c20Env("VERIF_SEED", 1))
	from, to := c20Env("VERIF_C20_FROM", 0), c20Env("VERIF_C20_TO", 0)
	f, err := os.OpenFile(outPath, os.O_APPEND|os.O_WRONLY|os.O_CREATE, 0o644)
	if err != nil {
		t.Fatal(err)
	}
	defer f.Close()
	line := func(s string) { f.WriteString(s + "\n") }
	nBase := c20Env("VERIF_N", 400)
	nNested := c20Env("VERIF_C20_NESTED", nBase/3)
	for id := from; id < to; id++ {
		if id >= nBase+nNested {
			// scale family (zz_verif_c20_scale_test.go)
			sc := c20GenScale(seed, id-nBase-nNested, c20Env("VERIF_C20_SCALE_MAXK", 100001), c20Env("VERIF_C20_SCALE_BUDGET", 40000))
			line("BEGIN\t" + strconv.Itoa(id))
			line("SCIN\t" + strconv.Itoa(id) + "\t" + sc.describe())
			done := make(chan c20ScaleResult, 1)
			go func() { done <- c20RunScale(sc) }()
			select {
			case r := <-done:
				for _, l := range c20ScaleLines(sc, id, r, c20Env("VERIF_C20_SCALE_REPLAY", 9000)) {
					line(l)
				}
				line("END\t" + strconv.Itoa(id))
			case <-time.After(120 * time.Second):
				line("ORACLE\thang\t" + strconv.Itoa(id) + "\t" + sc.describe())
				f.Close()
				os.Exit(3)
			}
			continue
		}
		if id >= nBase {
			// nested family (zz_verif_c20_nested_test.go)
			ns := c20GenNested(seed, id-nBase)
			line("BEGIN\t" + strconv.Itoa(id))
			line("N\t" + strconv.Itoa(id) + "\t" + c20DescribeNested(ns))
			done := make(chan c20NestedResult, 1)
			go func() { done <- c20RunNested(ns) }()
			select {
			case r := <-done:
				for _, l := range c20NestedLines(ns, id, r) {
					line(l)
				}
				line("END\t" + strconv.Itoa(id))
			case <-time.After(20 * time.Second):
				line("ORACLE\thang\t" + strconv.Itoa(id))
				f.Close()
				os.Exit(3)
			}
			continue
		}
		sc := c20Gen(seed, id)
		line("BEGIN\t" + strconv.Itoa(id))
		type res struct {
			hist   []c20Event
			final  map[int]int64
			panics []string
			inv    []int64
		}
		done := make(chan res, 1)
		go func() {
			h, fin, p, inv := c20RunScenario(sc)
			done <- res{h, fin, p, inv}
		}()
		select {
		case r := <-done:
			line(c20Render(sc, r.hist, r.final))
			for _, p := range r.panics {
				line("ORACLE\tpanic\t" + strconv.Itoa(id) + "\t" + strings.ReplaceAll(p, "\n", " "))
			}
			for _, o := range c20Oracles(sc, r.hist, r.final, r.inv) {
				line("ORACLE\t" + o + "\t" + strconv.Itoa(id))
			}
			line("END\t" + strconv.Itoa(id))
		case <-time.After(20 * time.Second):
			line("ORACLE\thang\t" + strconv.Itoa(id))
			f.Close()
			os.Exit(3)
		}
	}
}

func TestVerifC20(t *testing.T) {
	outPath := os.Getenv("VERIF_OUT")
	if outPath == "" {
		t.Skip("VERIF_OUT not set")
	}
	if os.Getenv("VERIF_C20_CHILD") != "" {
		c20Child(t, outPath)
		return
	}
	n := c20Env("VERIF_N", 400)
	n += c20Env("VERIF_C20_NESTED", n/3) // ids >= VERIF_N: the nested family
	n += c20Env("VERIF_C20_SCALE", 0)    // ids >= VERIF_N + VERIF_C20_NESTED: the scale family
	if err := os.WriteFile(outPath, nil, 0o644); err != nil {
		t.Fatal(err)
	}
	from, deaths := 0, 0
	for from < n && deaths < 6 {
		ctx, cancel := context.WithTimeout(context.Background(), 10*time.Minute)
		cmd := exec.CommandContext(ctx, os.Args[0], "-test.run", "^TestVerifC20$", "-test.timeout", "15m")
		cmd.Env = append(os.Environ(), "VERIF_C20_CHILD=1", "VERIF_C20_FROM="+strconv.Itoa(from), "VERIF_C20_TO="+strconv.Itoa(n))
		out, err := cmd.CombinedOutput()
		cancel()
		if err == nil {
			break
		}
		deaths++
		// which scenario was running?
		data, _ := os.ReadFile(outPath)
		last, ended := -1, true
		for _, l := range strings.Split(string(data), "\n") {
			if strings.HasPrefix(l, "BEGIN\t") {
				last, _ = strconv.Atoi(l[6:])
				ended = false
			} else if strings.HasPrefix(l, "END\t") {
				ended = true
			}
		}
		msg := string(out)
		if i := strings.Index(msg, "fatal error"); i >= 0 {
			msg = msg[i:]
		}
		if len(msg) > 160 {
			msg = msg[:160]
		}
		msg = strings.ReplaceAll(strings.ReplaceAll(msg, "\n", " "), "\t", " ")
		f, _ := os.OpenFile(outPath, os.O_APPEND|os.O_WRONLY, 0o644)
		if ended || last < 0 {
			fmt.Fprintf(f, "ORACLE\tprocess_died\t-1\t%v: %s\n", err, msg)
			f.Close()
			break
		}
		fmt.Fprintf(f, "ORACLE\tprocess_died\t%d\t%v: %s\n", last, err, msg)
		fmt.Fprintf(f, "END\t%d\n", last)
		f.Close()
		from = last + 1
	}
}
