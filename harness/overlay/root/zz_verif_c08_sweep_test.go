package dawn

// C08 harness, part 2: "changing any ... value the function references produces an unequal fingerprint", for EVERY
// element of a referenced collection of EVERY size -- in particular sizes around the encoder's batches of 1000 and
// positions around the batch boundaries and at the tail.  A family of programs indexed by (size n, edit): each has one
// target per way of referencing an n-element collection (list / tuple / dict / set / range global, a list nested in a
// dict, a list as a default parameter value, a list captured by a closure, a long string and long bytes) and a target
// that references none of them.  Edits: "replace element p" (dict: the value under key p; a second dict: key p itself;
// string/bytes: character p) and "append one element".  Every target that references the edited collection must come
// out changed (as the engine compares: diffEnv against the base stamp), the unrelated target must not.
//
// All loads of the sweep happen in ONE child process (TestVerifC08Sweep), one Load per (n, edit); the parent
// (TestVerifC08) starts it and copies its lines.

import (
	"bytes"
	"encoding/base64"
	"fmt"
	"math/rand"
	"os"
	"path/filepath"
	"sort"
	"strconv"
	"strings"
	"testing"

	starlark_os "github.com/pgavlin/dawn/lib/os"
	starlark_sh "github.com/pgavlin/dawn/lib/sh"
	"github.com/pgavlin/dawn/pickle"
	starlark_json "go.starlark.net/lib/json"
	"go.starlark.net/starlark"
)

const c08Bump = 1000000

// c08SweepText renders the program of size n.  repl >= 0: element repl of every collection is replaced; grow: every
// collection has one more element.  literal: the collections are written out element by element (a generated source
// list); otherwise they are built by comprehensions from the two globals P and N, which no target references.
func c08SweepText(n, repl int, grow, literal bool) string {
	var b strings.Builder
	m := n
	if grow {
		m = n + 1
	}
	val := func(i int) int {
		if i == repl {
			return i + c08Bump
		}
		return i
	}
	seq := func(open, close string, f func(i int) string) string {
		var s strings.Builder
		s.WriteString(open)
		for i := 0; i < m; i++ {
			if i > 0 {
				s.WriteString(", ")
			}
			s.WriteString(f(i))
		}
		if m == 1 && open == "(" {
			s.WriteString(",")
		}
		s.WriteString(close)
		return s.String()
	}
	if literal {
		ints := func(i int) string { return strconv.Itoa(val(i)) }
		fmt.Fprintf(&b, "L = %s\n", seq("[", "]", ints))
		fmt.Fprintf(&b, "T = %s\n", seq("(", ")", ints))
		fmt.Fprintf(&b, "D = %s\n", seq("{", "}", func(i int) string { return fmt.Sprintf("%d: %d", i, val(i)) }))
		fmt.Fprintf(&b, "K = %s\n", seq("{", "}", func(i int) string { return fmt.Sprintf("%d: %d", val(i), i) }))
		fmt.Fprintf(&b, "S = set(%s)\n", seq("[", "]", ints))
		fmt.Fprintf(&b, "NL = {\"k\": (1, %s)}\n", seq("[", "]", ints))
		fmt.Fprintf(&b, "DL = %s\n", seq("[", "]", ints))
		fmt.Fprintf(&b, "FL = %s\n", seq("[", "]", ints))
	} else {
		fmt.Fprintf(&b, "P = %d\nN = %d\n", repl, m)
		b.WriteString("def v(i):\n    return i + 1000000 if i == P else i\n\n")
		b.WriteString("L = [v(i) for i in range(N)]\n")
		b.WriteString("T = tuple([v(i) for i in range(N)])\n")
		b.WriteString("D = {i: v(i) for i in range(N)}\n")
		b.WriteString("K = {v(i): i for i in range(N)}\n")
		b.WriteString("S = set([v(i) for i in range(N)])\n")
		b.WriteString("NL = {\"k\": (1, [v(i) for i in range(N)])}\n")
		b.WriteString("DL = [v(i) for i in range(N)]\n")
		b.WriteString("FL = [v(i) for i in range(N)]\n")
	}
	// a long string / long bytes: character p replaced (length classes of the codec: 255/256, 65535/65536)
	str := func() string {
		bs := make([]byte, m)
		for i := range bs {
			bs[i] = byte('a' + i%23)
			if i == repl {
				bs[i] = 'Z'
			}
		}
		return string(bs)
	}()
	fmt.Fprintf(&b, "STR = \"%s\"\nBYT = b\"%s\"\n", str, str)
	fmt.Fprintf(&b, "R = range(%d)\n", m)
	b.WriteString(`
def mk(c):
    def f():
        return c
    return f

@target()
def t_list():
    print(L)

@target()
def t_tuple():
    print(T)

@target()
def t_dict():
    print(D)

@target()
def t_dictkey():
    print(K)

@target()
def t_set():
    print(S)

@target()
def t_nested():
    print(NL)

@target()
def t_default(self, x=DL):
    print(x)

target(name="t_free", function=mk(FL))

@target()
def t_str():
    print(STR)

@target()
def t_bytes():
    print(BYT)

@target()
def t_range():
    print(R)

@target()
def t_none():
    print(1)
`)
	return b.String()
}

var c08SweepTargets = []string{"t_list", "t_tuple", "t_dict", "t_dictkey", "t_set", "t_nested", "t_default", "t_free", "t_str", "t_bytes", "t_range", "t_none"}

// c08SweepSizes: every size next to a multiple of the batch size (and the small sizes that have opcodes of their own),
// plus seeded random ones.
func c08SweepSizes(rng *rand.Rand, thorough bool) []int {
	set := map[int]bool{}
	for _, n := range []int{1, 2, 3, 4, 5, 255, 256, 257} {
		set[n] = true
	}
	maxK := 2
	if thorough {
		maxK = 4
	}
	for k := 1; k <= maxK; k++ {
		for d := -2; d <= 3; d++ {
			set[k*1000+d] = true
		}
	}
	nr := 3
	if thorough {
		nr = 12
		for _, n := range []int{65535, 65536, 65537} {
			set[n] = true
		}
	}
	for i := 0; i < nr; i++ {
		set[6+rng.Intn(3600)] = true
	}
	var out []int
	for n := range set {
		out = append(out, n)
	}
	sort.Ints(out)
	return out
}

// c08SweepPositions: head, tail, both sides of every batch boundary, a few random ones.
func c08SweepPositions(rng *rand.Rand, n int, thorough bool) []int {
	set := map[int]bool{}
	add := func(p int) {
		if p >= 0 && p < n {
			set[p] = true
		}
	}
	add(0)
	add(n - 1)
	add(n - 2)
	if thorough {
		add(1)
		add(n - 3)
	}
	for k := 1000; k <= n+1; k += 1000 {
		add(k - 1)
		add(k)
		if thorough {
			add(k - 2)
			add(k + 1)
		}
	}
	nr := 1
	if thorough {
		nr = 3
	}
	for i := 0; i < nr; i++ {
		add(rng.Intn(n))
	}
	var out []int
	for p := range set {
		out = append(out, p)
	}
	sort.Ints(out)
	return out
}

type c08SweepLoad struct {
	stamps map[string]string
	same   map[string]bool
	err    string
}

// c08SweepDo loads the text and fingerprints every target.  With a base: same[t] is what the engine would conclude from
// the record of the base load.  diffEnv answers "same" exactly when the stamps are equal (its first branch) or when the
// decoded environments are equal and no stamp can be computed; so the stamps are compared first and diffEnv itself is
// asked only where they are equal or full is set (the base load, where functionEnv's termination is observed too).
func c08SweepDo(root, text string, base map[string]string, full bool) c08SweepLoad {
	res := c08SweepLoad{stamps: map[string]string{}, same: map[string]bool{}}
	os.RemoveAll(filepath.Join(root, ".dawn"))
	os.WriteFile(filepath.Join(root, "BUILD.dawn"), []byte(text), 0644)
	proj, err := Load(root, &LoadOptions{Builtins: starlark.StringDict{"os": starlark_os.Module, "sh": starlark_sh.Module, "json": starlark_json.Module}})
	if err != nil {
		res.err = "load: " + err.Error()
		return res
	}
	for _, tg := range proj.Targets() {
		f, ok := tg.(*function)
		if !ok {
			continue
		}
		name := f.label.Name
		stamp, err := f.stamp()
		if err != nil {
			res.err = fmt.Sprintf("stamp(%s): %v", name, err)
			return res
		}
		res.stamps[name] = stamp
		if base == nil || full {
			if env, err := functionEnv(f.function); err != nil || env == nil {
				res.err = fmt.Sprintf("functionEnv(%s): %v", name, err)
				return res
			}
		}
		if base != nil {
			if stamp != base[name] && !full {
				res.same[name] = false
				continue
			}
			// what function.load + upToDate do with the record of the base load
			env, err := functionEnv(f.function)
			if err != nil || env == nil {
				res.err = fmt.Sprintf("functionEnv(%s): %v", name, err)
				return res
			}
			ft := &function{proj: proj, label: f.label, function: f.function, targetInfo: targetInfo{Data: base[name]}}
			old, derr := pickle.NewDecoder(base64.NewDecoder(base64.StdEncoding, bytes.NewReader([]byte(base[name]))), pickle.UnpicklerFunc(envUnpickler)).Decode()
			same := false
			if derr == nil {
				ft.oldEnv, ft.newEnv = old, env
				eq, _, _, err := ft.diffEnv()
				same = err == nil && eq
			}
			res.same[name] = same
		}
	}
	return res
}

func TestVerifC08Sweep(t *testing.T) {
	if os.Getenv("VERIF_C08_CHILD") != "sweep" {
		t.Skip("not the sweep child")
	}
	outf, err := os.Create(os.Getenv("VERIF_REPORT"))
	if err != nil {
		t.Fatal(err)
	}
	defer outf.Close()
	line := func(parts ...string) { outf.WriteString(strings.Join(parts, "\t") + "\n") }
	seed, _ := strconv.ParseInt(os.Getenv("VERIF_SEED"), 10, 64)
	rng := rand.New(rand.NewSource(seed*7919 + 17))
	thorough := os.Getenv("VERIF_C08_THOROUGH") == "1"
	root := os.Getenv("VERIF_ROOT")
	os.Setenv("HOME", filepath.Join(root, ".home"))
	os.MkdirAll(filepath.Join(root, ".home"), 0755)
	os.WriteFile(filepath.Join(root, "dawn.toml"), nil, 0644)

	sizes := c08SweepSizes(rng, thorough)
	for si, n := range sizes {
		// literal text for the boundary sizes up to 2003 and every third other size; comprehensions otherwise
		literal := n <= 2003 || si%3 == 0
		if n > 60000 {
			literal = false
		}
		prog := fmt.Sprintf("collections-n%d", n)
		base := c08SweepDo(root, c08SweepText(n, -1, false, literal), nil, true)
		if base.err != "" {
			line("ORACLE", "terminates", prog, base.err)
			continue
		}
		again := c08SweepDo(root, c08SweepText(n, -1, false, literal), base.stamps, true)
		for _, tn := range c08SweepTargets {
			if again.err != "" || again.stamps[tn] != base.stamps[tn] || !again.same[tn] {
				line("ORACLE", "deterministic", prog+"/"+tn, "two loads of identical text gave different fingerprints "+again.err)
			}
		}
		type edit struct {
			name string
			text string
			repl bool
		}
		var edits []edit
		if n <= 60000 {
			for _, p := range c08SweepPositions(rng, n, thorough) {
				edits = append(edits, edit{fmt.Sprintf("replace element %d of %d", p, n), c08SweepText(n, p, false, literal), true})
			}
		} else {
			for _, p := range []int{0, n - 1} {
				edits = append(edits, edit{fmt.Sprintf("replace element %d of %d", p, n), c08SweepText(n, p, false, literal), true})
			}
		}
		edits = append(edits, edit{fmt.Sprintf("append element %d", n), c08SweepText(n, -1, true, literal), false})
		for _, e := range edits {
			r := c08SweepDo(root, e.text, base.stamps, false)
			if r.err != "" {
				line("ORACLE", "terminates", prog+"/"+e.name, r.err)
				continue
			}
			for _, tn := range c08SweepTargets {
				// (t_none and, for a replacement, t_range reference nothing that changed; the edit can still move entries of the
				// file's constant table, which the bytecode of every function of the file indexes, so nothing is demanded of them)
				relevant := tn != "t_none" && !(tn == "t_range" && e.repl)
				changed := !r.same[tn]
				line("case", prog+"/"+tn, e.name, strconv.FormatBool(relevant), strconv.FormatBool(changed))
				if relevant && !changed {
					line("ORACLE", "sensitive", prog+"/"+tn+"/"+e.name, "an element of a referenced collection changed but the fingerprint did not")
				}
			}
		}
	}
	line("sweepdone", strconv.Itoa(len(sizes)))
}
