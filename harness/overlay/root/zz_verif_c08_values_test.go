package dawn

// C08 harness, part 4: "changing any ... value the function references produces an unequal fingerprint", over the VALUE
// SPACE of every scalar kind and over kinds and shapes that are easy to confuse.  The codec chooses a representation
// per magnitude class (integers: one byte, two bytes, four bytes, decimal text beyond 32 bits -- and the interpreter
// itself switches from machine integers to big integers), per length class (strings, bytes) and per kind, so the pool
// enumerates (not samples) every value next to a class boundary -- +-(2^k - 1), +-2^k, +-(2^k + 1) for every k at which
// some layer changes representation (7, 8, 15, 16, 31, 32, 53, 62, 63, 64, 65, 127, 128, 255, 256, ...) -- and, for
// seeded random integers of 1..260 bits, the relatives that a lossy representation would identify with them: the
// successor, the negation, the value with the same low 64 (32) bits, the same leading decimal digits (x/10, x*10), the
// top bit cleared.  Floats: signed zeros, the denormal/normal/overflow borders, neighbours one ulp apart, infinities,
// NaN, integers that are exactly representable next to the Int of the same numeric value.  Strings and bytes: empty,
// NUL/newline/quote/backslash, text that looks like the codec's own opcodes, 1-4 byte UTF-8, proper prefixes and
// one-byte extensions of each other, lengths 255/256/257 (65535/65536 thorough) differing in the last byte, seeded
// random ones with a one-bit flip, a truncation and a NUL extension each.  Kinds and shapes: None/False/0/0.0/""/b""/
// ()/[]/{}/set(), True/1/1.0/"1", (1, 2)/[1, 2]/[[1], 2]/[1, [2]]/[[1, 2]]/{1: 2}/[(1, 2)], ...
//
// Two families, all loads in this one child process:
//
//	pool    ONE load of a project with, per route and pool value v, a target whose function is the SAME code referencing
//	        v: captured (mk(v)), default parameter value, element of a captured list / tuple, value and key of a captured
//	        dict, element of a captured set, nested.  Targets of one route differ in nothing but v, so two of them with
//	        different v are the two sides of the edit v -> v' of `target(function=mk(v))`: their stamps must differ (the
//	        engine's comparison, diffEnv, says "same" exactly when the stamps are equal; checked on the failing pair).
//	        "Different v" is decided on the LIVE objects the function references (exact identity: big-integer text, float
//	        bits, string bytes, kind, shape), not on the spelling.  The same text loaded again must give the same stamps,
//	        and functionEnv must succeed for every target.
//	edits   one load per value v of a selection (every class boundary, the random relatives): a project whose targets
//	        reference v as a global, as a literal in the body (the code's constant table), as a literal default, as a
//	        global of a helper file reached through load(), inside a global list, as a dict key.  Any two loads are an
//	        edit of the project text that replaces one value by another; per route the stamps must be pairwise different.
//
// Run as a child of TestVerifC08 (VERIF_C08_CHILD=values).

import (
	"bytes"
	"encoding/base64"
	"encoding/hex"
	"fmt"
	"math"
	"math/big"
	"math/rand"
	"os"
	"path/filepath"
	"sort"
	"strconv"
	"strings"
	"testing"
	"time"
	"unicode/utf8"

	starlark_os "github.com/pgavlin/dawn/lib/os"
	starlark_sh "github.com/pgavlin/dawn/lib/sh"
	"github.com/pgavlin/dawn/pickle"
	starlark_json "go.starlark.net/lib/json"
	"go.starlark.net/starlark"
)

type c08Val struct {
	src      string // Starlark expression
	class    string // generator class, for the distribution
	hashable bool
	edit     bool // member of the selection of the edits family
}

// c08Ident: exact identity of a live value (what "another value" means).
func c08Ident(v starlark.Value, b *strings.Builder, depth int) {
	if depth > 40 {
		b.WriteString("…")
		return
	}
	switch v := v.(type) {
	case nil:
		b.WriteString("<nil>")
	case starlark.NoneType:
		b.WriteString("None")
	case starlark.Bool:
		fmt.Fprintf(b, "bool:%v", bool(v))
	case starlark.Int:
		b.WriteString("int:" + v.BigInt().String())
	case starlark.Float:
		fmt.Fprintf(b, "float:%016x", math.Float64bits(float64(v)))
	case starlark.String:
		b.WriteString("str:" + hex.EncodeToString([]byte(string(v))))
	case starlark.Bytes:
		b.WriteString("bytes:" + hex.EncodeToString([]byte(string(v))))
	case starlark.Tuple:
		b.WriteString("(")
		for _, e := range v {
			c08Ident(e, b, depth+1)
			b.WriteString(",")
		}
		b.WriteString(")")
	case *starlark.List:
		b.WriteString("[")
		for i := 0; i < v.Len(); i++ {
			c08Ident(v.Index(i), b, depth+1)
			b.WriteString(",")
		}
		b.WriteString("]")
	case *starlark.Dict:
		b.WriteString("{")
		for _, kv := range v.Items() {
			c08Ident(kv[0], b, depth+1)
			b.WriteString(":")
			c08Ident(kv[1], b, depth+1)
			b.WriteString(",")
		}
		b.WriteString("}")
	case *starlark.Set:
		b.WriteString("set(")
		it := v.Iterate()
		var e starlark.Value
		for it.Next(&e) {
			c08Ident(e, b, depth+1)
			b.WriteString(",")
		}
		it.Done()
		b.WriteString(")")
	case *starlark.Builtin:
		b.WriteString("builtin:" + v.Name() + "@")
		c08Ident(v.Receiver(), b, depth+1)
	default:
		b.WriteString(v.Type() + ":" + v.String())
	}
}

// c08ValueOracle names the oracle of a colliding pair: builtins that differ only in which builtin they are, and a
// range next to the list of its elements, are classes of their own (one defect each, whatever the route).
func c08ValueOracle(a, b c08Val) string {
	switch {
	case a.class == "host-builtin" && b.class == "host-builtin":
		return "sensitive:builtin-identity"
	case a.class == "host-range" && b.class == "host-range", a.class == "host-range" && b.class == "shape", a.class == "shape" && b.class == "host-range":
		return "sensitive:range-as-list"
	case a.class == "host-iterable" || b.class == "host-iterable":
		return "sensitive:string-iterable"
	}
	return "sensitive"
}

func c08StrLit(prefix string, s []byte, isBytes bool) string {
	var b strings.Builder
	b.WriteString(prefix + "\"")
	for len(s) > 0 {
		c := s[0]
		switch {
		case c == '"' || c == '\\':
			b.WriteByte('\\')
			b.WriteByte(c)
			s = s[1:]
		case c >= 0x20 && c < 0x7f:
			b.WriteByte(c)
			s = s[1:]
		case c < 0x80 || isBytes:
			fmt.Fprintf(&b, "\\x%02x", c)
			s = s[1:]
		default:
			r, n := utf8.DecodeRune(s)
			fmt.Fprintf(&b, "\\U%08x", r)
			s = s[n:]
		}
	}
	b.WriteString("\"")
	return b.String()
}

// c08ValuePool: the pool described at the top.  Deterministic in (seed, thorough).
func c08ValuePool(rng *rand.Rand, thorough bool) []c08Val {
	var out []c08Val
	seen := map[string]bool{}
	add := func(src, class string, hashable, edit bool) {
		if seen[src] {
			return
		}
		seen[src] = true
		out = append(out, c08Val{src, class, hashable, edit})
	}
	nth := 0
	addInt := func(x *big.Int, class string, edit bool) {
		// decimal mostly, hexadecimal for every third one
		nth++
		s := x.String()
		if nth%3 == 0 {
			s = "0x" + new(big.Int).Abs(x).Text(16)
			if x.Sign() < 0 {
				s = "-" + s
			}
		}
		if x.Sign() < 0 {
			s = "(" + s + ")"
		}
		if seen["int:"+x.String()] {
			return
		}
		seen["int:"+x.String()] = true
		add(s, class, true, edit)
	}
	one := big.NewInt(1)
	// integers: every representation boundary of the codec, of the interpreter and of the usual machine widths
	ks := []uint{7, 8, 15, 16, 24, 31, 32, 33, 53, 62, 63, 64, 65, 96, 127, 128, 129, 255, 256}
	if thorough {
		ks = append(ks, 511, 512, 1023, 1024, 4096, 20000)
	}
	addInt(big.NewInt(0), "int-boundary", true)
	for _, k := range ks {
		p := new(big.Int).Lsh(one, k)
		// (quick tier: the edits family takes the boundaries of the codec and of the interpreter's integers only)
		ed := thorough || k == 8 || k == 16 || k == 31 || k == 32 || k == 63 || k == 64 || k == 128
		for _, d := range []int64{-1, 0, 1} {
			x := new(big.Int).Add(p, big.NewInt(d))
			addInt(x, "int-boundary", ed)
			addInt(new(big.Int).Neg(x), "int-boundary", ed)
		}
	}
	nInt := 24
	if thorough {
		nInt = 300
	}
	for i := 0; i < nInt; i++ {
		bits := 1 + rng.Intn(260)
		x := new(big.Int).Rand(rng, new(big.Int).Lsh(one, uint(bits)))
		x.SetBit(x, bits-1, 1)
		ed := i < 5 || (thorough && i < 40)
		addInt(x, "int-random", ed)
		addInt(new(big.Int).Add(x, one), "int-relative", ed)
		addInt(new(big.Int).Neg(x), "int-relative", ed)
		addInt(new(big.Int).Add(x, new(big.Int).Lsh(one, 64)), "int-relative", ed) // same low 64 bits
		addInt(new(big.Int).Add(x, new(big.Int).Lsh(one, 32)), "int-relative", ed) // same low 32 bits
		addInt(new(big.Int).Quo(x, big.NewInt(10)), "int-relative", ed)            // decimal text: a proper prefix
		addInt(new(big.Int).Mul(x, big.NewInt(10)), "int-relative", ed)            // decimal text: one more digit
		addInt(new(big.Int).SetBit(new(big.Int).Set(x), bits-1, 0), "int-relative", ed)
		addInt(new(big.Int).And(x, new(big.Int).SetUint64(math.MaxUint64)), "int-relative", ed) // the low 64 bits alone
	}
	// floats
	fl := func(f float64, class string, edit bool) {
		var s string
		switch {
		case math.IsNaN(f):
			s = "float(\"nan\")"
		case math.IsInf(f, 1):
			s = "float(\"inf\")"
		case math.IsInf(f, -1):
			s = "float(\"-inf\")"
		default:
			s = "float(\"" + strconv.FormatFloat(f, 'g', -1, 64) + "\")"
		}
		add(s, class, true, edit)
	}
	specials := []float64{0, math.Copysign(0, -1), 1, -1, 0.5, 0.1, 1.0 / 3, math.SmallestNonzeroFloat64, -math.SmallestNonzeroFloat64,
		math.Float64frombits(0x000fffffffffffff), math.Float64frombits(0x0010000000000000), math.MaxFloat64, -math.MaxFloat64,
		math.Inf(1), math.Inf(-1), math.NaN(), 255, 256, 65535, 65536, 2147483647, 2147483648, 4294967296,
		9007199254740992, 9007199254740994, 9223372036854775808, 18446744073709551616, 1e22, 1e23, 1e100, 1e-100}
	for _, f := range specials {
		fl(f, "float-boundary", true)
		if !math.IsNaN(f) && !math.IsInf(f, 0) {
			fl(math.Nextafter(f, math.Inf(1)), "float-boundary", thorough)
		}
	}
	nFloat := 12
	if thorough {
		nFloat = 150
	}
	for i := 0; i < nFloat; i++ {
		bits := rng.Uint64()
		f := math.Float64frombits(bits)
		if math.IsNaN(f) || math.IsInf(f, 0) {
			continue
		}
		fl(f, "float-random", i < 4 || (thorough && i < 25))
		fl(math.Float64frombits(bits^1), "float-relative", i < 4 || (thorough && i < 25))     // one ulp
		fl(math.Float64frombits(bits^(1<<63)), "float-relative", i < 4 || (thorough && i < 25)) // the sign
		fl(math.Float64frombits(bits^(1<<32)), "float-relative", i < 4 || (thorough && i < 25)) // a bit of the upper half
	}
	// strings and bytes
	strs := [][]byte{{}, []byte(" "), []byte("0"), []byte("1"), []byte("I0\n"), []byte("a"), []byte("A"), []byte("ab"), []byte("abc"), []byte("ab\x00"),
		[]byte("ab "), []byte("ab\n"), []byte("\nab"), []byte("."), []byte("\\"), []byte("\""), []byte("'"), []byte("\x00"), []byte("\x00\x00"),
		[]byte("\x7f"), []byte("None"), []byte("True"), []byte("N"), []byte("]"), []byte("(\n"), []byte("\r\n"), []byte("\t")}
	for _, s := range strs {
		add(c08StrLit("", s, false), "string-boundary", true, true)
		add(c08StrLit("b", s, true), "bytes-boundary", true, thorough)
	}
	for _, s := range []string{"é", "e\u0301", "\u0080", "\u00ff", "\u0100", "€", "\uffff", "😀", "\U0010ffff", "ß", "SS", "ı", "i"} {
		add(c08StrLit("", []byte(s), false), "string-unicode", true, true)
		add(c08StrLit("b", []byte(s), true), "bytes-boundary", true, thorough)
	}
	for _, b := range []byte{0x80, 0xff, 0xc3, 0xfe} {
		add(c08StrLit("b", []byte{b}, true), "bytes-boundary", true, true)
		add(c08StrLit("b", []byte{b, 0}, true), "bytes-boundary", true, true)
	}
	lens := []int{254, 255, 256, 257}
	if thorough {
		lens = append(lens, 65535, 65536, 65537)
	}
	for _, n := range lens {
		base := bytes.Repeat([]byte("x"), n)
		last := append(bytes.Repeat([]byte("x"), n-1), 'y')
		first := append([]byte("y"), bytes.Repeat([]byte("x"), n-1)...)
		for _, s := range [][]byte{base, last, first} {
			add(c08StrLit("", s, false), "string-length", true, n < 1000)
			add(c08StrLit("b", s, true), "bytes-length", true, n < 1000)
		}
	}
	nStr := 10
	if thorough {
		nStr = 120
	}
	for i := 0; i < nStr; i++ {
		n := 1 + rng.Intn(40)
		raw := make([]byte, n)
		rng.Read(raw)
		ed := i < 3 || (thorough && i < 20)
		rel := [][]byte{raw, append(append([]byte{}, raw...), 0), raw[:n-1]}
		flip := append([]byte{}, raw...)
		flip[rng.Intn(n)] ^= 1 << uint(rng.Intn(8))
		rel = append(rel, flip)
		for j, s := range rel {
			cl := "bytes-random"
			if j > 0 {
				cl = "bytes-relative"
			}
			add(c08StrLit("b", s, true), cl, true, ed)
		}
		// a text string of random runes of every UTF-8 width, and its relatives
		var rs []rune
		for j := 0; j < 1+rng.Intn(12); j++ {
			switch rng.Intn(4) {
			case 0:
				rs = append(rs, rune(rng.Intn(0x80)))
			case 1:
				rs = append(rs, rune(0x80+rng.Intn(0x780)))
			case 2:
				rs = append(rs, rune(0x800+rng.Intn(0xd000)))
			default:
				rs = append(rs, rune(0x10000+rng.Intn(0x100000)))
			}
		}
		t := []byte(string(rs))
		add(c08StrLit("", t, false), "string-random", true, ed)
		add(c08StrLit("", []byte(string(rs[:len(rs)-1])), false), "string-relative", true, ed)
		add(c08StrLit("", []byte(string(append(append([]rune{}, rs...), 0))), false), "string-relative", true, ed)
		rs2 := append([]rune{}, rs...)
		rs2[rng.Intn(len(rs2))] ^= 1
		add(c08StrLit("", []byte(string(rs2)), false), "string-relative", true, ed)
	}
	// kinds and shapes that a lossy or ambiguous representation would identify
	for _, s := range []string{"None", "True", "False"} {
		add(s, "kind", true, true)
	}
	for _, s := range []string{"()", "(0,)", "(None,)", "((),)", "(1, 2)", "(1, 2, 3)", "(1, 2, 3, 4)", "((1, 2),)", "((1,), 2)", "(1, (2,))",
		"(\"a\", \"b\")", "(\"ab\",)", "(\"a\", \"b\", \"\")", "(0, 0)", "(0.0,)", "(False,)", "(1, 2, 3, 4, 5)"} {
		add(s, "shape", true, true)
	}
	for _, s := range []string{"[]", "{}", "set()", "[0]", "{0: 0}", "set([0])", "[None]", "[[]]", "[[], []]", "[()]", "([],)", "[1, 2]", "[[1], 2]",
		"[1, [2]]", "[[1, 2]]", "{1: 2}", "[(1, 2)]", "{1: {2: 3}}", "{1: 2, 2: 3}", "{(1, 2): 3}", "{1: (2, 3)}", "[\"ab\"]", "[\"a\", \"b\"]",
		"{\"a\": None}", "{\"a\": {}}", "{\"a\": []}", "[{}]", "[set()]", "set([1, 2])", "set([(1, 2)])", "{1: None, 2: None}", "[1, 2, 3]", "[[1, 2], 3]", "[1, [2, 3]]"} {
		add(s, "shape", false, true)
	}
	// host kinds: builtins of the interpreter, of dawn and of the modules, bound methods (the receiver is part of the
	// value), modules, dawn's own value types, ranges (next to the lists and tuples of the same elements above)
	for _, s := range []string{"len", "str", "min", "max", "contains", "fail", "glob", "sh.exec", "sh.output", "os.exec", "Cache", "json.encode", "json.decode",
		"\"abc\".upper", "\"xyz\".upper", "\"abc\".lower", "[1].index", "[2].index"} {
		add(s, "host-builtin", false, true)
	}
	for _, s := range []string{"range(0)", "range(1)", "range(3)", "range(1, 3)", "range(0, 3, 2)", "range(0, -3, -1)", "[0, 1, 2]", "(0, 1, 2)", "[0, 2]", "[0, -1, -2]"} {
		add(s, "host-range", false, true)
	}
	for _, s := range []string{"os", "sh", "json", "host", "label(\"a/x\")", "label(\"a/y\")", "label(\"b/x\")", "path(\":b\")", "path(\":c\")", "\"//a:x\"", "\"a/x\"",
		"\":b\""} {
		add(s, "host-value", false, true)
	}
	// iterables of a string or of bytes (values that are neither data nor callables nor attribute holders; the two
	// .elems() of a string are sequences), next to the lists and tuples of the same elements, each of the four views of
	// the same string next to the others, of the empty string, and of strings that differ in one character
	for _, s := range []string{"\"abc\".codepoints()", "\"abd\".codepoints()", "\"abc\".codepoint_ords()", "\"abd\".codepoint_ords()", "\"abc\".elems()", "\"abd\".elems()",
		"\"abc\".elem_ords()", "\"abd\".elem_ords()", "b\"abc\".elems()", "b\"abd\".elems()", "\"\".codepoints()", "\"\".codepoint_ords()", "\"\".elems()", "\"\".elem_ords()", "b\"\".elems()",
		"\"\\u00e9\".codepoints()", "\"\\u00e9\".codepoint_ords()", "\"\\u00e9\".elems()", "\"\\u00e9\".elem_ords()", "\"ab\".codepoints()", "\"abcd\".codepoints()",
		"[\"a\", \"b\", \"c\"]", "(\"a\", \"b\", \"c\")", "[97, 98, 99]", "(97, 98, 99)", "[\"\\u00e9\"]", "[233]", "[195, 169]"} {
		add(s, "host-iterable", false, true)
	}
	return out
}

var c08ValueRoutes = []struct {
	name     string
	wrap     string // expression in terms of v passed to the factory
	factory  string
	hashable bool // route needs a hashable value
}{
	{"captured", "v", "mk", false},
	{"default", "v", "mkd", false},
	{"in-list", "[v]", "mk", false},
	{"in-tuple", "(v,)", "mk", false},
	{"dict-value", "{\"k\": v}", "mk", false},
	{"dict-key", "{v: 0}", "mk", true},
	{"in-set", "set([v])", "mk", true},
	{"nested", "{\"k\": ([1, v], v)}", "mkd", false},
}

// c08ValuePoolText: one target per (route, value), all functions of a route being the same code.
func c08ValuePoolText(pool []c08Val) string {
	var b strings.Builder
	b.WriteString("def mk(c):\n    def f():\n        return c\n    return f\n\ndef mkd(c):\n    def f(self, x=c):\n        return x\n    return f\n\n")
	b.WriteString("def reg(i, v, h):\n")
	for ri, r := range c08ValueRoutes {
		ind := "    "
		if r.hashable {
			fmt.Fprintf(&b, "    if h:\n")
			ind = "        "
		}
		fmt.Fprintf(&b, "%starget(name=\"r%d_%%d\" %% i, function=%s(%s))\n", ind, ri, r.factory, r.wrap)
	}
	b.WriteString("\n")
	for i, v := range pool {
		h := "False"
		if v.hashable {
			h = "True"
		}
		fmt.Fprintf(&b, "reg(%d, %s, %s)\n", i, v.src, h)
	}
	return b.String()
}

var c08EditRoutes = []string{"t_global", "t_literal", "t_default", "t_loaded", "t_inlist", "t_dictkey"}

// c08ValueEditText: the project of the edits family for the value expression e.
func c08ValueEditText(v c08Val) map[string]string {
	key := "\"k\""
	if v.hashable {
		key = v.src
	}
	build := "load(\"//:vals.dawn\", \"HV\", \"get\")\n\nG = " + v.src + "\nGL = [0, " + v.src + ", 0]\nGK = {" + key + ": 0}\n\n" +
		"@target()\ndef t_global():\n    print(G)\n\n" +
		"@target()\ndef t_literal():\n    print(" + v.src + ")\n\n" +
		"@target()\ndef t_default(self, x=" + v.src + "):\n    print(x)\n\n" +
		"@target()\ndef t_loaded():\n    print(get())\n\n" +
		"@target()\ndef t_inlist():\n    print(GL)\n\n" +
		"@target()\ndef t_dictkey():\n    print(GK)\n"
	return map[string]string{"BUILD.dawn": build, "vals.dawn": "HV = " + v.src + "\n\ndef get():\n    return HV\n"}
}

type c08ValueTarget struct {
	name, stamp, ident string
	fn                 starlark.Callable
	label              string
}

// c08ValuesLoad loads the files and fingerprints every function target: stamp (as persisted), functionEnv (must
// succeed), identity of what varies (defaults and captured values; with global != "" the live global of that name).
func c08ValuesLoad(root string, files map[string]string, global string) (map[string]*c08ValueTarget, *Project, string) {
	os.RemoveAll(filepath.Join(root, ".dawn"))
	for n, c := range files {
		os.WriteFile(filepath.Join(root, n), []byte(c), 0644)
	}
	proj, err := Load(root, &LoadOptions{Builtins: starlark.StringDict{"os": starlark_os.Module, "sh": starlark_sh.Module, "json": starlark_json.Module}})
	if err != nil {
		return nil, nil, "load: " + err.Error()
	}
	res := map[string]*c08ValueTarget{}
	for _, tg := range proj.Targets() {
		f, ok := tg.(*function)
		if !ok {
			continue
		}
		name := f.label.Name
		stamp, err := f.stamp()
		if err != nil {
			return nil, nil, fmt.Sprintf("stamp(%s): %v", name, err)
		}
		if env, err := functionEnv(f.function); err != nil || env == nil {
			return nil, nil, fmt.Sprintf("functionEnv(%s): %v", name, err)
		}
		t := &c08ValueTarget{name: name, stamp: stamp, fn: f.function, label: f.label.String()}
		if fn, ok := f.function.(*starlark.Function); ok {
			var sb strings.Builder
			if global != "" {
				c08Ident(fn.Globals()[global], &sb, 0)
			} else {
				defaults, freevars := fn.Env()
				c08Ident(defaults, &sb, 0)
				c08Ident(freevars, &sb, 0)
			}
			t.ident = sb.String()
		}
		res[name] = t
	}
	return res, proj, ""
}

// c08EngineSame: what function.load + upToDate conclude for target `now` from a record holding `then`'s stamp.
func c08EngineSame(proj *Project, then, now *c08ValueTarget) bool {
	env, err := functionEnv(now.fn)
	if err != nil {
		return false
	}
	old, derr := pickle.NewDecoder(base64.NewDecoder(base64.StdEncoding, strings.NewReader(then.stamp)), pickle.UnpicklerFunc(envUnpickler)).Decode()
	if derr != nil {
		return false
	}
	ft := &function{proj: proj, function: now.fn, targetInfo: targetInfo{Data: then.stamp}}
	ft.oldEnv, ft.newEnv = old, env
	eq, _, _, err := ft.diffEnv()
	return err == nil && eq
}

func c08Short(s string) string {
	if len(s) > 90 {
		return s[:60] + "…(" + strconv.Itoa(len(s)) + " bytes)"
	}
	return s
}

func TestVerifC08Values(t *testing.T) {
	if os.Getenv("VERIF_C08_CHILD") != "values" {
		t.Skip("not the values child")
	}
	outf, err := os.Create(os.Getenv("VERIF_REPORT"))
	if err != nil {
		t.Fatal(err)
	}
	defer outf.Close()
	line := func(parts ...string) {
		for i := range parts {
			parts[i] = strings.NewReplacer("\t", "\\t", "\n", "\\n").Replace(parts[i])
		}
		outf.WriteString(strings.Join(parts, "\t") + "\n")
	}
	seed, _ := strconv.ParseInt(os.Getenv("VERIF_SEED"), 10, 64)
	rng := rand.New(rand.NewSource(seed*104729 + 8))
	thorough := os.Getenv("VERIF_C08_THOROUGH") == "1"
	root := os.Getenv("VERIF_ROOT")
	os.Setenv("HOME", filepath.Join(root, ".home"))
	os.MkdirAll(filepath.Join(root, ".home"), 0755)
	os.WriteFile(filepath.Join(root, "dawn.toml"), nil, 0644)

	pool := c08ValuePool(rng, thorough)
	dist := map[string]int{}
	for _, v := range pool {
		dist[v.class]++
	}
	var dl []string
	for k, n := range dist {
		dl = append(dl, fmt.Sprintf("%s=%d", k, n))
	}
	sort.Strings(dl)
	line("valuesdist", strings.Join(dl, " "))

	// ---- pool: one load, one target per (route, value)
	t0 := time.Now()
	text := c08ValuePoolText(pool)
	line("text", "values", base64.StdEncoding.EncodeToString([]byte(text[:strings.Index(text, "reg(0,")]+"reg(i, <value>, <hashable>)   # one line per pool value\n")))
	first, proj, lerr := c08ValuesLoad(root, map[string]string{"BUILD.dawn": text}, "")
	if lerr != "" {
		line("ORACLE", "terminates", "values/pool", lerr)
	} else {
		again, _, lerr2 := c08ValuesLoad(root, map[string]string{"BUILD.dawn": text}, "")
		for ri, r := range c08ValueRoutes {
			byStamp := map[string]int{}
			idents := map[string]bool{}
			n := 0
			for i, v := range pool {
				name := fmt.Sprintf("r%d_%d", ri, i)
				tg := first[name]
				if tg == nil {
					if !r.hashable || v.hashable {
						line("ORACLE", "harness", "values/"+r.name, "no target for "+c08Short(v.src))
					}
					continue
				}
				n++
				idents[tg.ident] = true
				if lerr2 != "" || again[name] == nil || again[name].stamp != tg.stamp || !c08EngineSameCheap(again[name], tg) {
					line("ORACLE", "deterministic", "values/"+r.name+"/"+c08Short(v.src), "two loads of identical text gave different fingerprints "+lerr2)
				}
				if j, dup := byStamp[tg.stamp]; dup {
					other := first[fmt.Sprintf("r%d_%d", ri, j)]
					changed := "false"
					if other.ident != tg.ident {
						// the two sides of the edit pool[j] -> pool[i]; ask the engine itself on the failing pair
						same := c08EngineSame(proj, other, tg)
						detail := fmt.Sprintf("the function references %s instead of %s (route %s: %s(%s)) and its fingerprint is the same; diffEnv says up to date: %v",
							c08Short(v.src), c08Short(pool[j].src), r.name, r.factory, r.wrap, same)
						line("ORACLE", c08ValueOracle(pool[j], v), "values/"+r.name+"/"+c08Short(pool[j].src)+" -> "+c08Short(v.src), detail)
					} else {
						changed = "same-value"
					}
					line("case", "values/"+r.name, c08Short(v.src), "true", changed)
					continue
				}
				byStamp[tg.stamp] = i
				line("case", "values/"+r.name, c08Short(v.src), "true", "true")
			}
			line("valuesroute", r.name, strconv.Itoa(n), strconv.Itoa(len(idents)), strconv.Itoa(len(byStamp)))
		}
	}

	line("valuestime", "pool", time.Since(t0).String())
	t0 = time.Now()
	// ---- edits: one load per selected value; any two loads are an edit of the text
	type loaded struct {
		v       c08Val
		targets map[string]*c08ValueTarget
	}
	byRoute := map[string]map[string]*loaded{}
	nEdits := 0
	for _, v := range pool {
		if !v.edit {
			continue
		}
		files := c08ValueEditText(v)
		tgs, eproj, lerr := c08ValuesLoad(root, files, "G")
		if lerr != "" {
			line("ORACLE", "terminates", "values/edits/"+c08Short(v.src), lerr)
			continue
		}
		nEdits++
		cur := &loaded{v, tgs}
		for _, rn := range c08EditRoutes {
			tg := tgs[rn]
			if tg == nil {
				line("ORACLE", "harness", "values/edits/"+rn, "no target for "+c08Short(v.src))
				continue
			}
			if rn == "t_dictkey" && !v.hashable {
				continue
			}
			m := byRoute[rn]
			if m == nil {
				m = map[string]*loaded{}
				byRoute[rn] = m
			}
			ident := tgs["t_global"].ident
			if prev, dup := m[tg.stamp]; dup && prev.targets["t_global"].ident != ident {
				same := c08EngineSame(eproj, prev.targets[rn], tg)
				line("ORACLE", c08ValueOracle(prev.v, v), "values/edits/"+rn+"/"+c08Short(prev.v.src)+" -> "+c08Short(v.src),
					fmt.Sprintf("the project text was edited (%s replaced by %s everywhere) and the fingerprint of //:%s is the same; diffEnv says up to date: %v",
						c08Short(prev.v.src), c08Short(v.src), rn, same))
				line("case", "values/edits/"+rn, c08Short(v.src), "true", "false")
				continue
			}
			m[tg.stamp] = cur
			line("case", "values/edits/"+rn, c08Short(v.src), "true", "true")
		}
	}
	line("valuestime", "edits", time.Since(t0).String())
	line("valuesdone", strconv.Itoa(len(pool)), strconv.Itoa(nEdits))
}

// c08EngineSameCheap: equal stamps are what diffEnv's first branch compares.
func c08EngineSameCheap(a, b *c08ValueTarget) bool { return a.stamp == b.stamp }
