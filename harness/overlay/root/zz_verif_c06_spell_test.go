package dawn

// C06, the spelling family.  The property counts executions per module FILE ("executes each module file at most once
// however many modules load it"); the loader's registry is keyed by a label, and a load statement may spell the label
// of one file in many ways.  The scenarios here put the module files in several package directories (and in a
// required project that sits in the download cache) and let every loader name the file it loads by a different
// text: explicit kinds, labels relative to the loader's package, redundant slashes, an omitted or empty name for a
// package's BUILD.dawn, a requirement's alias / another alias of the same requirement / the full project path.  The
// file a text names is known by construction (plain string formatting below, none of dawn's label code), and the
// execution of a file is observed by its first statement (print("x:<file>")), not by the label the loader reports.

import (
	"math/rand"
	"sort"
	"strconv"
	"strings"
)

// c06Place: where file d lives: project ("" = the project under test), package directory, file name.
func c06Place(sc *c06Scenario, d string) (proj, dir, file string) {
	if c06IsPkg(d) {
		return "", d[1:], "BUILD.dawn"
	}
	return sc.Proj[d], sc.Dirs[d], d + ".dawn"
}

// c06Spellings: the label texts by which a load statement in a file of package fromDir of project fromProj can name
// file d.  The first one is the plain form.
func c06Spellings(sc *c06Scenario, fromProj, fromDir, d string) []string {
	tproj, tdir, file := c06Place(sc, d)
	var out []string
	seen := map[string]bool{}
	add := func(s string) {
		if !seen[s] {
			seen[s] = true
			out = append(out, s)
		}
	}
	kinds := []string{"", "module:", "source:", "k:"}

	// the project part
	var projs []string
	switch {
	case tproj == fromProj:
		projs = []string{""}
		if tproj != "" {
			projs = append(projs, tproj)
		}
	case fromProj == "":
		projs = []string{tproj}
		var aliases []string
		for a, p := range sc.Reqs {
			if p == tproj {
				aliases = append(aliases, a)
			}
		}
		sort.Strings(aliases)
		projs = append(projs, aliases...)
	default:
		return nil // a required project's file cannot name a file of the project under test
	}

	// absolute package texts: plain, doubled and trailing slashes, a third leading slash
	pkgs := []string{"//" + tdir, "//" + strings.ReplaceAll(tdir, "/", "//") + "/", "///" + tdir}
	for _, p := range projs {
		for _, pk := range pkgs {
			for _, k := range kinds {
				add(k + p + pk + ":" + file)
			}
		}
	}
	if file == "BUILD.dawn" {
		for _, p := range projs {
			for _, pk := range pkgs {
				add(p + pk) // no name (an explicit kind needs a name: its colon would be taken for the name's)
				for _, k := range kinds {
					add(k + p + pk + ":") // empty name
				}
			}
		}
	}

	// relative to the loader's package
	if tproj == fromProj {
		rel, ok := "", true
		switch {
		case tdir == fromDir:
		case fromDir == "":
			rel = tdir
		case strings.HasPrefix(tdir, fromDir+"/"):
			rel = tdir[len(fromDir)+1:]
		default:
			ok = false
		}
		if ok {
			rels := []string{rel}
			if rel != "" {
				rels = append(rels, rel+"/") // (a doubled slash inside would be read as <project>//<package>)
			}
			for _, r := range rels {
				for _, k := range kinds {
					add(k + r + ":" + file)
				}
				if file == "BUILD.dawn" {
					add(r)
					for _, k := range kinds {
						add(k + r + ":")
					}
				}
			}
		}
	}
	return out
}

func c06CopyMods(m map[string][]string) map[string][]string {
	r := map[string][]string{}
	for k, v := range m {
		r[k] = append([]string(nil), v...)
	}
	return r
}

// c06Spelled: the enumerated part of the spelling family.
func c06Spelled() []c06Scenario {
	var out []c06Scenario
	reqs := map[string]string{"lib": "example.com/lib", "lib2": "example.com/lib", "other": "example.com/other"}

	// --- one shared file, every spelling against the plain one, and all spellings side by side.
	// The shared file loads two more files itself (relative and absolute), so the second execution of a mis-keyed
	// file would also re-request its own loads.
	type shared struct {
		class string
		sc    c06Scenario // Mods/Dirs/Proj/Reqs; Pkgs are added per loader
		file  string      // the shared file
		froms []string    // package directories of the loaders (so that the relative forms apply)
	}
	bases := []shared{
		{"spell-helper", c06Scenario{
			Mods: map[string][]string{"h": {"a", "b"}, "a": nil, "b": nil},
			Dirs: map[string]string{"h": "lib", "a": "lib/sub", "b": ""},
			Raw:  map[string][]string{"h": {"sub:a.dawn", "//:b.dawn"}}},
			"h", []string{"p1", "", "lib", "q/p3"}},
		{"spell-deep", c06Scenario{
			Mods: map[string][]string{"h": {"a"}, "a": nil},
			Dirs: map[string]string{"h": "lib/sub/deep", "a": "lib/sub/deep"},
			Raw:  map[string][]string{"h": {":a.dawn"}}},
			"h", []string{"", "lib", "lib/sub", "lib/sub/deep"}},
		{"spell-rootfile", c06Scenario{
			Mods: map[string][]string{"h": {"a"}, "a": nil},
			Dirs: map[string]string{"h": "", "a": "lib"},
			Raw:  map[string][]string{"h": {"lib:a.dawn"}}},
			"h", []string{"", "p1"}},
		{"spell-pkgfile", c06Scenario{ // the shared file is a package's BUILD.dawn (itself loaded by its own goroutine)
			Mods: map[string][]string{"a": nil},
			Dirs: map[string]string{"a": "lib"}},
			"@lib", []string{"p1", "", "lib/sub"}},
		{"spell-required", c06Scenario{ // the shared file lives in a required project
			Mods: map[string][]string{"h": {"a", "b"}, "a": nil, "b": nil},
			Dirs: map[string]string{"h": "", "a": "sub", "b": "sub"},
			Proj: map[string]string{"h": "example.com/lib", "a": "example.com/lib", "b": "example.com/lib"},
			Raw:  map[string][]string{"h": {"sub:a.dawn", "example.com/lib//sub:b.dawn"}},
			Reqs: reqs},
			"h", []string{"p1", ""}},
	}
	for _, b := range bases {
		type use struct{ from, text string }
		var uses []use
		seen := map[string]bool{}
		for _, from := range b.froms {
			for _, t := range c06Spellings(&b.sc, "", from, b.file) {
				if !seen[t] { // a text that is not relative means the same from every package
					seen[t] = true
					uses = append(uses, use{from, t})
				} else if !strings.Contains(t, "//") {
					uses = append(uses, use{from, t})
				}
			}
		}
		// one package per loader directory; its load statements are the texts given for that directory
		mk := func(class string, us []use, reps int) {
			sc := b.sc
			sc.Class, sc.Reps = class, reps
			sc.Mods = c06CopyMods(b.sc.Mods)
			byDir := map[string]int{}
			for _, u := range us {
				i, ok := byDir[u.from]
				if !ok {
					sc.Pkgs = append(sc.Pkgs, c06Pkg{Dir: u.from, Flag: len(sc.Pkgs)%2 == 0})
					i = len(sc.Pkgs) - 1
					byDir[u.from] = i
				}
				sc.Pkgs[i].Loads = append(sc.Pkgs[i].Loads, b.file)
				sc.Pkgs[i].Raw = append(sc.Pkgs[i].Raw, u.text)
			}
			if _, ok := byDir[strings.TrimPrefix(b.file, "@")]; c06IsPkg(b.file) && !ok {
				sc.Pkgs = append(sc.Pkgs, c06Pkg{Dir: b.file[1:], Loads: []string{"a"}, Flag: true})
			}
			out = append(out, sc)
		}
		plain := use{"p0", c06Ref(&b.sc, b.file)}
		for _, u := range uses {
			if u.text != plain.text {
				mk(b.class+"-pair", []use{plain, u}, 1) // the count of executions does not depend on the schedule
			}
		}
		// all texts at once, one package each (up to three load statements per package would hide a second
		// execution behind the first one's result: one text per package here)
		sc := b.sc
		sc.Class, sc.Reps = b.class+"-all", 4
		sc.Mods = c06CopyMods(b.sc.Mods)
		taken := map[string]bool{}
		for i, u := range uses {
			dir := u.from
			if taken[dir] {
				if !strings.Contains(u.text, "//") {
					continue // a relative text needs the package directory itself
				}
				dir = strings.TrimPrefix(u.from+"/y"+strconv.Itoa(i), "/")
			}
			if b.file == "@"+dir {
				continue
			}
			taken[dir] = true
			sc.Pkgs = append(sc.Pkgs, c06Pkg{Dir: dir, Loads: []string{b.file}, Raw: []string{u.text}, Flag: i%4 == 0})
		}
		if c06IsPkg(b.file) && !taken[b.file[1:]] {
			sc.Pkgs = append(sc.Pkgs, c06Pkg{Dir: b.file[1:], Loads: []string{"a"}, Flag: true})
		}
		out = append(out, sc)
		// the same file loaded three times by ONE file under three texts
		var abs []use
		for _, u := range uses {
			if strings.Contains(u.text, "//") {
				abs = append(abs, use{"p1", u.text})
			}
		}
		for i := 0; i+2 < len(abs); i += 5 {
			mk(b.class+"-onefile", []use{abs[i], abs[(i+len(abs)/3)%len(abs)], abs[(i+2*len(abs)/3)%len(abs)]}, 1)
		}
	}

	// --- chains, diamonds and cycles whose edges are spelled differently from the way the packages enter them
	dirs3 := map[string]string{"m0": "", "m1": "lib", "m2": "lib/sub", "m3": "lib"}
	shapes := []struct {
		class string
		mods  map[string][]string
		pkgs  [][]string
	}{
		{"spell-chain", map[string][]string{"m0": {"m1"}, "m1": {"m2"}, "m2": nil}, [][]string{{"m0"}, {"m1"}, {"m2", "m0"}}},
		{"spell-diamond", map[string][]string{"m0": {"m1", "m3"}, "m1": {"m2"}, "m3": {"m2"}, "m2": nil}, [][]string{{"m1"}, {"m3"}, {"m0"}}},
		{"spell-cycle2", map[string][]string{"m0": {"m1"}, "m1": {"m0"}}, [][]string{{"m0"}, {"m1"}}},
		{"spell-cycle3", map[string][]string{"m0": {"m1"}, "m1": {"m2"}, "m2": {"m0"}}, [][]string{{"m0"}, {"m1"}, {"m2"}}},
		{"spell-cycle3", map[string][]string{"m0": {"m1"}, "m1": {"m2"}, "m2": {"m0"}}, [][]string{{"m2"}}},
		{"spell-self", map[string][]string{"m1": {"m1"}}, [][]string{{"m1"}, {"m1"}}},
		{"spell-unreached", map[string][]string{"m0": {"m1"}, "m1": nil, "m2": {"m3"}, "m3": {"m2"}}, [][]string{{"m0"}, {"m1"}}},
	}
	pkgDirs := []string{"", "lib", "p2"}
	for _, sh := range shapes {
		for rot := 0; rot < 4; rot++ {
			sc := c06Scenario{Class: sh.class, Mods: c06CopyMods(sh.mods), Dirs: dirs3, Raw: map[string][]string{}, Reps: 3}
			k := rot
			pick := func(fromDir, d string) string {
				sp := c06Spellings(&sc, "", fromDir, d)
				k += 5
				return sp[(k*7+rot)%len(sp)]
			}
			names := make([]string, 0, len(sc.Mods))
			for n := range sc.Mods {
				names = append(names, n)
			}
			sort.Strings(names)
			for _, n := range names {
				for _, d := range sc.Mods[n] {
					sc.Raw[n] = append(sc.Raw[n], pick(sc.Dirs[n], d))
				}
			}
			for i, e := range sh.pkgs {
				p := c06Pkg{Dir: pkgDirs[i%len(pkgDirs)], Loads: e, Flag: i%2 == 0}
				for _, d := range e {
					p.Raw = append(p.Raw, pick(p.Dir, d))
				}
				sc.Pkgs = append(sc.Pkgs, p)
			}
			out = append(out, sc)
		}
	}

	// --- package files that load package files: shared, in a cycle, and loading themselves, under every text
	for rot := 0; rot < 3; rot++ {
		base := c06Scenario{Mods: map[string][]string{}, Reps: 3}
		k := rot
		pick := func(fromDir, d string) string {
			sp := c06Spellings(&base, "", fromDir, d)
			k += 3
			return sp[(k*5+rot)%len(sp)]
		}
		mk := func(class string, pkgs []c06Pkg) {
			sc := base
			sc.Class = class
			for i := range pkgs {
				pkgs[i].Flag = i%2 == 0
				for _, d := range pkgs[i].Loads {
					pkgs[i].Raw = append(pkgs[i].Raw, pick(pkgs[i].Dir, d))
				}
			}
			sc.Pkgs = pkgs
			out = append(out, sc)
		}
		mk("spell-pkg-shared", []c06Pkg{{Dir: "", Loads: []string{"@p1"}}, {Dir: "p1"}, {Dir: "p1/in", Loads: []string{"@p1"}}, {Dir: "p2", Loads: []string{"@p1", "@p1/in"}}})
		mk("spell-pkg-cycle", []c06Pkg{{Dir: "p0", Loads: []string{"@p1"}}, {Dir: "p1", Loads: []string{"@p0"}}})
		mk("spell-pkg-cycle", []c06Pkg{{Dir: "", Loads: []string{"@p1"}}, {Dir: "p1", Loads: []string{"@p1/p2"}}, {Dir: "p1/p2", Loads: []string{"@"}}})
		mk("spell-pkg-self", []c06Pkg{{Dir: "p0", Loads: []string{"@p0"}}, {Dir: "p1"}})
		mk("spell-pkg-self", []c06Pkg{{Dir: "", Loads: []string{"@"}}})
	}

	// --- files of a required project: loaded by the project under test (aliases, path) and by each other
	for rot := 0; rot < 6; rot++ {
		sc := c06Scenario{Class: "spell-required-graph", Reqs: reqs, Reps: 3,
			Mods: map[string][]string{"r0": {"r1", "r2"}, "r1": {"r2"}, "r2": nil, "o": nil, "m": {"r1", "o"}},
			Dirs: map[string]string{"r0": "", "r1": "x", "r2": "x/y", "o": "", "m": "lib"},
			Proj: map[string]string{"r0": "example.com/lib", "r1": "example.com/lib", "r2": "example.com/lib", "o": "example.com/other"},
			Raw:  map[string][]string{}}
		if rot%3 == 2 {
			sc.Class = "spell-required-cycle"
			sc.Mods["r2"] = []string{"r0"}
		}
		k := rot
		pick := func(fromProj, fromDir, d string) string {
			sp := c06Spellings(&sc, fromProj, fromDir, d)
			k += 3
			return sp[(k*5+rot)%len(sp)]
		}
		for _, n := range []string{"m", "r0", "r1", "r2"} {
			for _, d := range sc.Mods[n] {
				sc.Raw[n] = append(sc.Raw[n], pick(sc.Proj[n], sc.Dirs[n], d))
			}
		}
		for i, e := range [][]string{{"r0"}, {"m", "r2"}, {"r1", "o"}} {
			p := c06Pkg{Dir: []string{"", "p1", "lib"}[i], Loads: e, Flag: i == 0}
			for _, d := range e {
				p.Raw = append(p.Raw, pick("", p.Dir, d))
			}
			sc.Pkgs = append(sc.Pkgs, p)
		}
		out = append(out, sc)
	}
	return out
}

// c06RandomSpelled takes a random graph and spreads its files over package directories -- some of them in a required
// project -- with a random text for every load statement, and now and then a load of a package file.
func c06RandomSpelled(rng *rand.Rand, sc c06Scenario) c06Scenario {
	sc.Class += "-spelled"
	sc.Dirs, sc.Proj, sc.Raw = map[string]string{}, map[string]string{}, map[string][]string{}
	names := make([]string, 0, len(sc.Mods))
	for n := range sc.Mods {
		names = append(names, n)
	}
	sort.Strings(names)
	dirs := []string{"", "", "lib", "lib", "lib/sub", "p1", "q"}
	// modules m_i with i >= cut live in the required project (they can only load each other: edges from there to
	// local files are redirected to another file of that project)
	cut := len(names)
	if rng.Intn(3) == 0 {
		sc.Reqs = map[string]string{"lib": "example.com/lib", "lib2": "example.com/lib"}
		cut = 1 + rng.Intn(len(names))
	}
	remote := names[cut:]
	for i, n := range names {
		sc.Dirs[n] = dirs[rng.Intn(len(dirs))]
		if i >= cut {
			sc.Proj[n] = "example.com/lib"
		}
	}
	for i, n := range names {
		ls := sc.Mods[n]
		for j, d := range ls {
			if i >= cut && sc.Proj[d] == "" {
				ls[j] = remote[rng.Intn(len(remote))]
			}
		}
		if i < cut && rng.Intn(6) == 0 && len(sc.Pkgs) > 0 {
			ls = append(ls, "@"+sc.Pkgs[rng.Intn(len(sc.Pkgs))].Dir)
		}
		sc.Mods[n] = ls
	}
	for i := range sc.Pkgs {
		if rng.Intn(6) == 0 {
			sc.Pkgs[i].Loads = append(sc.Pkgs[i].Loads, "@"+sc.Pkgs[rng.Intn(len(sc.Pkgs))].Dir)
		}
	}
	pick := func(fromProj, fromDir, d string) string {
		sp := c06Spellings(&sc, fromProj, fromDir, d)
		if rng.Intn(4) == 0 {
			return sp[0]
		}
		return sp[rng.Intn(len(sp))]
	}
	for _, n := range names {
		for _, d := range sc.Mods[n] {
			sc.Raw[n] = append(sc.Raw[n], pick(sc.Proj[n], sc.Dirs[n], d))
		}
	}
	for i := range sc.Pkgs {
		for _, d := range sc.Pkgs[i].Loads {
			sc.Pkgs[i].Raw = append(sc.Pkgs[i].Raw, pick("", sc.Pkgs[i].Dir, d))
		}
	}
	return sc
}
