package dawn

// C02 harness, load-order family: "this holds ... for every order in which packages and modules happen to load".
//
// The engine histories load small projects and leave the load order to the Go scheduler, which visits few orders.
// Here a project has many packages, each loaded on its own goroutine, that share helper modules DIRECTLY and THROUGH
// other helper modules (p/BUILD.dawn loads h.dawn, g.dawn (which loads h.dawn) and k.dawn (which loads g.dawn)), and
// every target refers to values of several of them -- the shape in which the identity of a shared value shows in a
// fingerprint.  The project is built once; then the unchanged tree is loaded again and again, each time under another
// perturbation of the load schedule, and built: NO target may be executed.
//
// Perturbations (one per iteration, cycled and seeded):
//   plain       a fresh Load, scheduler's choice
//   barrier     every package's BUILD.dawn is held at module.exec until all of them have arrived, then released at once
//   jitter      seeded sleeps of 0-300us at the registry and module hook points
//   contention  a long-lived Project is Reloaded (watch mode) while other goroutines take and release the project lock,
//               so that the lock is handed from loader to loader in arrival order
//   procs       a fresh Load under GOMAXPROCS 1, 2 or 3
//
// Lines written to VERIF_OUT_LO: {"t":"PROJ"...}, {"t":"ITER"...} per load+build, {"t":"END"}.

import (
	"bufio"
	"encoding/json"
	"fmt"
	"math/rand"
	"os"
	"path/filepath"
	"runtime"
	"sort"
	"strconv"
	"strings"
	"sync"
	"sync/atomic"
	"testing"
	"time"

	"github.com/pgavlin/dawn/diff"
	"github.com/pgavlin/dawn/internal/verifhook"
	"github.com/pgavlin/dawn/label"
	starlark_os "github.com/pgavlin/dawn/lib/os"
	starlark_sh "github.com/pgavlin/dawn/lib/sh"
	starlark_json "go.starlark.net/lib/json"
	"go.starlark.net/starlark"
)

type c02loProj struct {
	files    map[string]string
	packages int
	helpers  []string
	refs     []string // load labels of the helpers
}

// c02loGen: a chain (or small DAG) of helper modules at the root, P packages loading several of them.
func c02loGen(rng *rand.Rand, packages int) *c02loProj {
	p := &c02loProj{files: map[string]string{".dawnconfig": ""}, packages: packages}
	nh := 3 + rng.Intn(3)
	// where each helper lives: the root package or the directory lib (its `package` is then //lib, whoever loads it)
	where := make([]string, nh)
	for i := range where {
		if rng.Intn(2) == 0 {
			where[i] = "lib"
		}
	}
	ref := func(i int) string {
		if where[i] == "" {
			return fmt.Sprintf("//:h%d.dawn", i)
		}
		return fmt.Sprintf("//%s:h%d.dawn", where[i], i)
	}
	p.refs = nil
	for i := 0; i < nh; i++ {
		name := fmt.Sprintf("h%d", i)
		p.helpers = append(p.helpers, name)
		p.refs = append(p.refs, ref(i))
		var b strings.Builder
		var uses []string
		if i > 0 {
			// loads one or two earlier helpers (always the previous one: a chain h0 <- h1 <- h2 ...)
			prev := []int{i - 1}
			if i > 1 && rng.Intn(2) == 0 {
				prev = append(prev, rng.Intn(i-1))
			}
			for _, j := range prev {
				fmt.Fprintf(&b, "load(%q, \"f%d\", \"V%d\")\n", ref(j), j, j)
				uses = append(uses, fmt.Sprintf("f%d(x + %d), V%d", j, i, j))
			}
		}
		// the predeclared values of the MODULE a function was defined in are part of what it references
		switch rng.Intn(3) {
		case 0:
			uses = append(uses, "package")
		case 1:
			uses = append(uses, "package", "host.os")
		}
		fmt.Fprintf(&b, "V%d = {\"k%d\": [%d, %d, \"v%d\"], \"t\": (%d, %d.5)}\n\n", i, i, i, i+1, i, i, i)
		fmt.Fprintf(&b, "def f%d(x):\n    return (x, V%d, %s)\n", i, i, strings.Join(append(uses, "None"), ", "))
		file := name + ".dawn"
		if where[i] != "" {
			file = where[i] + "/" + file
		}
		p.files[file] = b.String()
	}
	var deps []string
	for k := 0; k < packages; k++ {
		var b strings.Builder
		// at least two helpers one of which reaches the other: every package loads the last helper and two more
		pick := map[int]bool{nh - 1: true, rng.Intn(nh - 1): true, rng.Intn(nh): true}
		var order []int
		for i := range pick {
			order = append(order, i)
		}
		sort.Ints(order)
		rng.Shuffle(len(order), func(a, c int) { order[a], order[c] = order[c], order[a] })
		var refs []string
		for _, i := range order {
			fmt.Fprintf(&b, "load(%q, \"f%d\", \"V%d\")\n", p.refs[i], i, i)
			refs = append(refs, fmt.Sprintf("f%d(%d), V%d", i, k, i))
		}
		fmt.Fprintf(&b, "\n@target()\ndef t(self):\n    print(%s)\n", strings.Join(refs, ", "))
		if rng.Intn(3) == 0 {
			fmt.Fprintf(&b, "\n@target(deps=[\":t\"])\ndef u(self, d=V%d):\n    print(d, f%d(0))\n", order[0], order[len(order)-1])
			deps = append(deps, fmt.Sprintf("\"//p%d:u\"", k))
		}
		deps = append(deps, fmt.Sprintf("\"//p%d:t\"", k))
		p.files[fmt.Sprintf("p%d/BUILD.dawn", k)] = b.String()
	}
	p.files["BUILD.dawn"] = fmt.Sprintf("@target(deps=[%s])\ndef all(self):\n    pass\n", strings.Join(deps, ", "))
	return p
}

type c02loEvent struct{ Kind, Label, Text string }

type c02loRecorder struct {
	m      sync.Mutex
	events []c02loEvent
}

func (r *c02loRecorder) add(kind string, l *label.Label, text string) {
	r.m.Lock()
	defer r.m.Unlock()
	s := ""
	if l != nil {
		s = l.String()
	}
	r.events = append(r.events, c02loEvent{kind, s, text})
}

func (r *c02loRecorder) Print(l *label.Label, line string)                       {}
func (r *c02loRecorder) RequirementLoading(l *label.Label, version string)       {}
func (r *c02loRecorder) RequirementLoaded(l *label.Label, version string)        {}
func (r *c02loRecorder) RequirementLoadFailed(l *label.Label, v string, e error) {}
func (r *c02loRecorder) ModuleLoading(l *label.Label)                            {}
func (r *c02loRecorder) ModuleLoaded(l *label.Label)                             {}
func (r *c02loRecorder) ModuleLoadFailed(l *label.Label, err error)              { r.add("ModuleLoadFailed", l, err.Error()) }
func (r *c02loRecorder) LoadDone(err error)                                      {}
func (r *c02loRecorder) TargetUpToDate(l *label.Label)                           { r.add("UpToDate", l, "") }
func (r *c02loRecorder) TargetEvaluating(l *label.Label, reason string, d diff.ValueDiff) {
	r.add("Evaluating", l, reason)
}
func (r *c02loRecorder) TargetFailed(l *label.Label, err error)       { r.add("Failed", l, err.Error()) }
func (r *c02loRecorder) TargetSucceeded(l *label.Label, changed bool) {}
func (r *c02loRecorder) RunDone(err error)                            {}
func (r *c02loRecorder) FileChanged(l *label.Label)                   {}

func c02loLoad(root string, rec *c02loRecorder) (*Project, error) {
	return Load(root, &LoadOptions{Events: rec,
		Builtins: starlark.StringDict{"os": starlark_os.Module, "sh": starlark_sh.Module, "json": starlark_json.Module}})
}

func TestVerifC02LoadOrder(t *testing.T) {
	outPath := os.Getenv("VERIF_OUT_LO")
	if outPath == "" {
		t.Skip("VERIF_OUT_LO not set")
	}
	seed, _ := strconv.ParseInt(os.Getenv("VERIF_SEED"), 10, 64)
	nproj, _ := strconv.Atoi(os.Getenv("VERIF_LO_PROJECTS"))
	if nproj == 0 {
		nproj = 3
	}
	iters, _ := strconv.Atoi(os.Getenv("VERIF_LO_ITERS"))
	if iters == 0 {
		iters = 15
	}
	if runtime.GOMAXPROCS(0) < 8 {
		defer runtime.GOMAXPROCS(runtime.GOMAXPROCS(8))
	}
	f, err := os.Create(outPath)
	if err != nil {
		t.Fatal(err)
	}
	defer f.Close()
	w := bufio.NewWriter(f)
	emit := func(v any) {
		b, _ := json.Marshal(v)
		w.Write(b)
		w.WriteByte('\n')
		w.Flush()
	}
	os.Setenv("HOME", t.TempDir())
	all, _ := label.Parse("//:all")
	modes := []string{"plain", "barrier", "jitter", "contention", "procs"}
	defer verifhook.SetHandler(nil)

	for pi := 0; pi < nproj; pi++ {
		rng := rand.New(rand.NewSource(seed*104729 + int64(pi)*31 + 5))
		packages := 8 + rng.Intn(9)
		pr := c02loGen(rng, packages)
		root := filepath.Join(t.TempDir(), fmt.Sprintf("proj%d", pi))
		for rel, c := range pr.files {
			p := filepath.Join(root, filepath.FromSlash(rel))
			os.MkdirAll(filepath.Dir(p), 0o755)
			os.WriteFile(p, []byte(c), 0o644)
		}
		emit(map[string]any{"t": "PROJ", "project": pi, "packages": packages, "helpers": len(pr.helpers), "files": pr.files})

		// the first build
		verifhook.SetHandler(nil)
		rec := &c02loRecorder{}
		proj, err := c02loLoad(root, rec)
		if err != nil {
			emit(map[string]any{"t": "ITER", "project": pi, "iter": -1, "mode": "first", "error": "load: " + err.Error()})
			continue
		}
		if err := proj.Run(all, nil); err != nil {
			emit(map[string]any{"t": "ITER", "project": pi, "iter": -1, "mode": "first", "error": "run: " + err.Error()})
			continue
		}
		var long *Project // the long-lived project of the contention mode
		longRec := &c02loRecorder{}

		for it := 0; it < iters; it++ {
			mode := modes[it%len(modes)]
			irng := rand.New(rand.NewSource(seed*7 + int64(pi)*1000 + int64(it)))
			var hm sync.Mutex
			execs := map[string]int{}
			var arrived int32
			gate := make(chan struct{})
			var gateOnce sync.Once
			openGate := func() { gateOnce.Do(func() { close(gate) }) }
			jit := make([]int, 4096)
			for i := range jit {
				jit[i] = irng.Intn(300)
			}
			var jn int32
			verifhook.SetHandler(func(point string, args ...any) {
				if point == "module.exec" && len(args) > 0 {
					l := fmt.Sprint(args[0])
					hm.Lock()
					execs[l]++
					hm.Unlock()
					if mode == "barrier" && strings.HasSuffix(l, ":BUILD.dawn") && !strings.HasPrefix(l, "module://:") {
						if int(atomic.AddInt32(&arrived, 1)) >= packages {
							openGate()
						}
						select {
						case <-gate:
						case <-time.After(300 * time.Millisecond):
							openGate()
						}
					}
				}
				if mode == "jitter" && (strings.HasPrefix(point, "registry.") || strings.HasPrefix(point, "module.")) {
					// registry hooks run under the project lock: sleeping there reorders who gets the lock next
					d := jit[int(atomic.AddInt32(&jn, 1))%len(jit)]
					time.Sleep(time.Duration(d) * time.Microsecond)
				}
			})
			rec := &c02loRecorder{}
			var p *Project
			var lerr error
			switch mode {
			case "contention":
				if long == nil {
					long, lerr = c02loLoad(root, longRec)
					hm.Lock()
					execs = map[string]int{} // only the Reload below is this iteration's load
					hm.Unlock()
				}
				if lerr == nil {
					longRec.m.Lock()
					longRec.events = nil
					longRec.m.Unlock()
					stop := make(chan struct{})
					var wg sync.WaitGroup
					for g := 0; g < 4; g++ {
						wg.Add(1)
						go func() {
							defer wg.Done()
							for {
								select {
								case <-stop:
									return
								default:
								}
								long.m.Lock()
								long.m.Unlock() //nolint
							}
						}()
					}
					lerr = long.Reload()
					close(stop)
					wg.Wait()
					p, rec = long, longRec
				}
			case "procs":
				old := runtime.GOMAXPROCS(1 + irng.Intn(3))
				p, lerr = c02loLoad(root, rec)
				runtime.GOMAXPROCS(old)
			default:
				p, lerr = c02loLoad(root, rec)
			}
			out := map[string]any{"t": "ITER", "project": pi, "iter": it, "mode": mode}
			if lerr != nil {
				out["error"] = "load: " + lerr.Error()
				emit(out)
				continue
			}
			verifhook.SetHandler(nil)
			rerr := p.Run(all, nil)
			if rerr != nil {
				out["error"] = "run: " + rerr.Error()
			}
			var executed []map[string]string
			upToDate := 0
			rec.m.Lock()
			for _, e := range rec.events {
				switch e.Kind {
				case "Evaluating":
					executed = append(executed, map[string]string{"target": e.Label, "reason": e.Text})
				case "UpToDate":
					upToDate++
				}
			}
			rec.m.Unlock()
			var twice []string
			hm.Lock()
			for l, n := range execs {
				if n > 1 {
					twice = append(twice, fmt.Sprintf("%s x%d", l, n))
				}
			}
			hm.Unlock()
			sort.Strings(twice)
			out["executed"] = executed
			out["up_to_date"] = upToDate
			out["modules_executed_more_than_once"] = twice
			emit(out)
		}
	}
	emit(map[string]any{"t": "END"})
}
