package dawn

// C20, nested family: callers in context (see the header of zz_verif_c20_test.go).
//
// A scenario is a forest of planned calls per goroutine.  A planned call names a cache (by rank), a key,
// what its callable does (planned value / planned failure / pass on the result of its last nested call)
// and the nested calls the callable makes, all on caches of strictly higher rank, with the thread the
// callable was given.  All caches of a scenario use the same key strings.  The observed events carry the
// cache; c20Project cuts the history of one cache out of the scenario's history and derives the plan of
// that cache from the calls that actually happened (a nested call happens only when its callable runs).

import (
	"fmt"
	"math/rand"
	"sort"
	"strconv"
	"strings"
	"sync"
	"sync/atomic"
	"time"

	"go.starlark.net/starlark"
)

type c20NCall struct {
	cache, key int
	val        int64 // >= 1: planned value code; -1: planned failure
	shape      int   // see c20Shapes
	pass       bool  // the callable returns what its last nested call returned (value or error)
	gate       bool  // the callable waits (bounded) for another goroutine's call on the same cache and key
	jpre, jin  int   // delay before the call / inside the callable (c20Delay)
	body       []*c20NCall
}

type c20Nested struct {
	j       int // index in the nested family
	builtin bool
	ncaches int
	nkeys   int
	style   int
	keys    []string
	plan    [][]*c20NCall
	family  string
}

const c20ProjBase = 500000

func c20NestedDepth(c *c20NCall) int {
	d := 0
	for _, n := range c.body {
		if x := 1 + c20NestedDepth(n); x > d {
			d = x
		}
	}
	return d
}

func c20GenNested(seed int64, j int) *c20Nested {
	rng := rand.New(rand.NewSource(seed*1000003 + int64(j)*104729 + 71))
	ns := &c20Nested{j: j, builtin: j%2 == 1, ncaches: 2, nkeys: 1}
	uid := int64(0)
	okv := func() int64 { uid++; return uid }
	// C(cache, key, val, body...): planned value val (0 = fresh value, -1 = failure); P(...): pass-through
	C := func(cache, key int, val int64, body ...*c20NCall) *c20NCall {
		if val == 0 {
			val = okv()
		}
		return &c20NCall{cache: cache, key: key, val: val, body: body}
	}
	P := func(cache, key int, body ...*c20NCall) *c20NCall {
		return &c20NCall{cache: cache, key: key, val: okv(), pass: true, body: body}
	}
	const nFixed = 9
	switch {
	case j < 2*nFixed:
		ns.family = "enumerated"
		switch j / 2 {
		case 0: // the smallest member: one nested caller, one direct caller of the inner cache
			ns.plan = [][]*c20NCall{{P(0, 0, C(1, 0, 0))}, {C(1, 0, 0)}}
		case 1: // two nested callers through the same outer key, one direct caller
			ns.plan = [][]*c20NCall{{P(0, 0, C(1, 0, 0))}, {P(0, 0, C(1, 0, 0))}, {C(1, 0, 0)}}
		case 2: // nested callers through different outer keys, two direct callers
			ns.nkeys = 2
			ns.plan = [][]*c20NCall{{C(0, 0, 0, C(1, 0, 0))}, {C(0, 1, 0, C(1, 0, 0))}, {C(1, 0, 0)}, {C(1, 0, 0)}}
		case 3: // the inner callable fails: the error passes through the outer once, nothing is stored in either; retry
			ns.plan = [][]*c20NCall{{P(0, 0, C(1, 0, -1)), P(0, 0, C(1, 0, 0))}, {C(1, 0, -1), C(1, 0, 0)}, {C(0, 0, 0)}}
		case 4: // chain of depth 2 over three caches, direct callers on the middle and the innermost
			ns.ncaches = 3
			ns.plan = [][]*c20NCall{{P(0, 0, P(1, 0, C(2, 0, 0)))}, {C(2, 0, 0)}, {P(1, 0, C(2, 0, 0))}, {C(2, 0, 0), C(1, 0, 0), C(0, 0, 0)}}
		case 5: // one callable makes two nested calls (two keys of the inner cache)
			ns.nkeys = 2
			ns.plan = [][]*c20NCall{{C(0, 0, 0, C(1, 0, 0), C(1, 1, 0))}, {C(1, 1, 0), C(1, 0, 0)}, {C(1, 0, 0)}, {C(1, 1, 0)}}
		case 6: // the thread used the inner cache BEFORE and uses it AFTER the outer once (same thread object throughout)
			ns.plan = [][]*c20NCall{{C(1, 0, 0), P(0, 0, C(1, 0, 0)), C(1, 0, 0)}, {C(1, 0, 0)}, {C(0, 0, 0, C(1, 0, 0)), C(1, 0, 0)}}
		case 7: // the outer callable fails AFTER a successful nested call: inner keeps its entry, outer stores nothing
			ns.plan = [][]*c20NCall{{C(0, 0, -1, C(1, 0, 0)), C(0, 0, 0, C(1, 0, 0))}, {C(1, 0, 0)}, {C(0, 0, -1, C(1, 0, 0))}}
		case 8: // same key string in every cache, no nesting at all: caches must be independent
			ns.ncaches = 3
			ns.plan = [][]*c20NCall{{C(0, 0, 0), C(1, 0, 0), C(2, 0, 0)}, {C(2, 0, 0), C(1, 0, 0), C(0, 0, 0)}, {C(1, 0, -1), C(1, 0, 0)}}
		}
	default:
		ns.family = "random"
		ns.ncaches = 2 + rng.Intn(2)
		ns.nkeys = 1 + rng.Intn(2)
		ng := 2 + rng.Intn(7) // 2..8
		if rng.Intn(2) == 0 {
			ng = 2 + rng.Intn(3)
		}
		pf := []float64{0, 0.2, 0.5}[rng.Intn(3)]
		pnest := []float64{0.4, 0.7, 1}[rng.Intn(3)]
		kindPerCall := rng.Intn(2) == 1
		mixShapes := rng.Intn(2) == 1
		if rng.Intn(3) == 0 {
			ns.style = rng.Intn(len(c20KeyStyles))
		}
		var gen func(lo int) *c20NCall
		gen = func(lo int) *c20NCall {
			c := &c20NCall{cache: lo + rng.Intn(ns.ncaches-lo), key: rng.Intn(ns.nkeys), val: -1}
			if rng.Intn(2) == 0 {
				c.key = 0 // a hot key per cache, so that nested and direct callers meet
			}
			if rng.Float64() >= pf {
				kind := "int"
				if kindPerCall {
					kind = c20Kinds[rng.Intn(len(c20Kinds))]
				}
				c.val = c20Code(kind, okv())
			}
			if c.cache < ns.ncaches-1 && rng.Float64() < pnest {
				for n := 1 + rng.Intn(2); n > 0; n-- {
					c.body = append(c.body, gen(c.cache+1))
				}
				c.pass = rng.Intn(2) == 0
			}
			if mixShapes {
				sh := []int{0, 1, 2}
				if c.val < 0 && !c.pass {
					sh = []int{0, 1, 2, 4, 5}
				}
				c.shape = sh[rng.Intn(len(sh))]
			}
			return c
		}
		for g := 0; g < ng; g++ {
			var calls []*c20NCall
			for n := 1 + rng.Intn(3); n > 0; n-- {
				calls = append(calls, gen(0))
			}
			ns.plan = append(ns.plan, calls)
		}
	}
	ns.keys = c20Keys(ns.style)[:ns.nkeys]
	// delays and gates, drawn after the structure
	delay := func() int {
		switch rng.Intn(4) {
		case 0:
			return 0
		case 1:
			return 1
		}
		return 2 + rng.Intn(120)
	}
	var deco func(c *c20NCall)
	deco = func(c *c20NCall) {
		c.jpre, c.jin = delay(), delay()
		c.gate = ns.family == "enumerated" || rng.Intn(2) == 0
		for _, n := range c.body {
			deco(n)
		}
	}
	for _, g := range ns.plan {
		for _, c := range g {
			deco(c)
		}
	}
	return ns
}

func c20DescribeCall(ns *c20Nested, c *c20NCall) string {
	out := c20Repr(c.val)
	if c.pass && len(c.body) > 0 {
		out = "result of its last nested call"
	}
	s := fmt.Sprintf("cache%d.once(%s, %s -> %s)", c.cache, strconv.QuoteToASCII(ns.keys[c.key]), c20Shapes[c.shape], out)
	if len(s) > 120 {
		s = fmt.Sprintf("cache%d.once(key#%d, %s -> %s)", c.cache, c.key, c20Shapes[c.shape], out)
	}
	if len(c.body) > 0 {
		var bs []string
		for _, n := range c.body {
			bs = append(bs, c20DescribeCall(ns, n))
		}
		s += " whose callable first calls { " + strings.Join(bs, "; ") + " }"
	}
	return s
}

func c20DescribeNested(ns *c20Nested) string {
	var gs []string
	for g, calls := range ns.plan {
		var cs []string
		for _, c := range calls {
			cs = append(cs, c20DescribeCall(ns, c))
		}
		gs = append(gs, fmt.Sprintf("g%d: %s", g, strings.Join(cs, "; ")))
	}
	mode := "direct"
	if ns.builtin {
		mode = "builtin"
	}
	return fmt.Sprintf("%d caches (%s), one thread per goroutine | %s", ns.ncaches, mode, strings.Join(gs, " | "))
}

type c20NestedResult struct {
	hist        []c20Event
	final       []map[int]int64 // per cache
	panics      []string
	invocations [][]int64 // per cache per key
}

func c20RunNested(ns *c20Nested) (res c20NestedResult) {
	var reg sync.Map
	caches := make([]*cache, ns.ncaches)
	onceFns := make([]starlark.Value, ns.ncaches)
	for i := range caches {
		if ns.builtin {
			v, err := starlark.Call(&starlark.Thread{Name: "mk"}, builtin_cache, nil, nil)
			if err != nil {
				res.panics = append(res.panics, "builtin_cache: "+err.Error())
				return
			}
			caches[i] = v.(*cache)
			onceFns[i], _ = caches[i].Attr("once")
		} else {
			caches[i] = &cache{entries: map[string]starlark.Value{}}
			caches[i].onceM = caches[i].newOnce()
		}
	}
	var mu sync.Mutex
	logEv := func(e c20Event) {
		mu.Lock()
		res.hist = append(res.hist, e)
		mu.Unlock()
	}
	res.invocations = make([][]int64, ns.ncaches)
	inflight := make([][]int64, ns.ncaches) // calls between 'c' and 'r', per cache and key
	for i := range res.invocations {
		res.invocations[i] = make([]int64, ns.nkeys)
		inflight[i] = make([]int64, ns.nkeys)
	}

	var exec func(th *starlark.Thread, g int, call *c20NCall) (starlark.Value, error)
	exec = func(th *starlark.Thread, g int, call *c20NCall) (starlark.Value, error) {
		var callable starlark.Callable = starlark.NewBuiltin("h", func(ith *starlark.Thread, _ *starlark.Builtin, _ starlark.Tuple, _ []starlark.Tuple) (starlark.Value, error) {
			atomic.AddInt64(&res.invocations[call.cache][call.key], 1)
			logEv(c20Event{kind: 'b', g: g, key: call.key, cache: call.cache, call: call})
			c20Delay(call.jin)
			if call.gate {
				// wait until somebody else has a call on this cache and key in flight (own call counts 1)
				deadline := time.Now().Add(time.Millisecond)
				for atomic.LoadInt64(&inflight[call.cache][call.key]) < 2 && time.Now().Before(deadline) {
					time.Sleep(10 * time.Microsecond)
				}
				if atomic.LoadInt64(&inflight[call.cache][call.key]) >= 2 {
					time.Sleep(40 * time.Microsecond) // let it get into once
				}
			}
			var last starlark.Value
			var lerr error
			for _, n := range call.body {
				last, lerr = exec(ith, g, n)
			}
			if call.pass && len(call.body) > 0 {
				out := c20Val(last, lerr, &reg)
				logEv(c20Event{kind: 'e', g: g, key: call.key, val: out, cache: call.cache, call: call})
				if lerr != nil {
					return nil, lerr
				}
				return last, nil
			}
			var v starlark.Value
			if call.val >= 0 {
				v = c20Make(call.val, &reg)
			}
			logEv(c20Event{kind: 'e', g: g, key: call.key, val: call.val, cache: call.cache, call: call})
			switch {
			case call.val >= 0:
				return v, nil
			case call.shape == 4:
				return starlark.None, nil // the def calls fail() next
			case call.shape == 5:
				return nil, nil
			}
			return nil, fmt.Errorf("planned failure")
		})
		if src, ok := c20ShapeSrc[call.shape]; ok {
			globals, err := starlark.ExecFile(&starlark.Thread{Name: "def"}, "c20.star", src, starlark.StringDict{"h": callable})
			if err != nil {
				panic("c20 harness: " + err.Error())
			}
			callable = globals["f"].(starlark.Callable)
		}
		c20Delay(call.jpre)
		atomic.AddInt64(&inflight[call.cache][call.key], 1)
		logEv(c20Event{kind: 'c', g: g, key: call.key, cache: call.cache, call: call})
		var v starlark.Value
		var err error
		if ns.builtin {
			v, err = starlark.Call(th, onceFns[call.cache], starlark.Tuple{starlark.String(ns.keys[call.key]), callable}, nil)
		} else {
			v, err = caches[call.cache].once(th, nil, ns.keys[call.key], callable)
		}
		logEv(c20Event{kind: 'r', g: g, key: call.key, val: c20Val(v, err, &reg), cache: call.cache, call: call})
		atomic.AddInt64(&inflight[call.cache][call.key], -1)
		return v, err
	}

	start := make(chan struct{})
	var wg sync.WaitGroup
	for g := range ns.plan {
		wg.Add(1)
		go func(g int) {
			defer wg.Done()
			defer func() {
				if x := recover(); x != nil {
					mu.Lock()
					res.panics = append(res.panics, fmt.Sprint(x))
					mu.Unlock()
				}
			}()
			thread := &starlark.Thread{Name: "g" + strconv.Itoa(g)}
			<-start
			for _, call := range ns.plan[g] {
				exec(thread, g, call)
			}
		}(g)
	}
	close(start)
	wg.Wait()

	for i, c := range caches {
		fin := map[int]int64{}
		c.m.Lock()
		for k := 0; k < ns.nkeys; k++ {
			if v, ok := c.entries[ns.keys[k]]; ok {
				fin[k] = c20Val(v, nil, &reg)
			}
		}
		extra := len(c.entries) - len(fin)
		c.m.Unlock()
		if extra != 0 {
			res.panics = append(res.panics, fmt.Sprintf("entries of cache %d has keys outside the plan", i))
		}
		res.final = append(res.final, fin)
	}
	return
}

// c20Project: the history of cache i and the single-cache scenario it is a run of.  The plan lists, per
// goroutine, the calls it actually made on cache i in order; the outcome of a call whose callable ran is
// the observed one (a pass-through callable's outcome is only known then), otherwise the planned one
// (irrelevant to the model: a callable that is not invoked has no outcome).
func c20Project(ns *c20Nested, r c20NestedResult, i int, describe string) (*c20Scenario, []c20Event, int, int) {
	mode := "nested-direct"
	if ns.builtin {
		mode = "nested-builtin"
	}
	sc := &c20Scenario{id: c20ProjBase + 4*ns.j + i, builtin: ns.builtin, nkeys: ns.nkeys, style: ns.style, keys: ns.keys,
		plan: make([][]c20Call, len(ns.plan)), mode: mode, extra: fmt.Sprintf("cache %d of: %s", i, describe)}
	var hist []c20Event
	cur := map[int]int{}
	nestedInv := 0 // invocations on this cache made by a caller that is inside another cache's callable
	nestedRaced := 0 // ... during which another goroutine had a call on the same key of this cache in flight
	depth := map[int]int{}
	open := map[int]int{}      // goroutine -> key of its call in flight on this cache
	inNested := map[int]bool{} // goroutine is running a nested invocation on this cache -> raced so far
	for _, e := range r.hist {
		switch e.kind { // depth of goroutine e.g in callables (of any cache)
		case 'b':
			if e.cache == i && depth[e.g] > 0 {
				nestedInv++
				raced := false
				for g2, k2 := range open {
					if g2 != e.g && k2 == e.key {
						raced = true
					}
				}
				inNested[e.g] = raced
			}
			depth[e.g]++
		case 'e':
			depth[e.g]--
			if raced, ok := inNested[e.g]; ok && e.cache == i {
				if raced {
					nestedRaced++
				}
				delete(inNested, e.g)
			}
		}
		if e.cache != i {
			continue
		}
		switch e.kind {
		case 'c':
			open[e.g] = e.key
			for g2 := range inNested {
				if g2 != e.g && open[g2] == e.key {
					inNested[g2] = true
				}
			}
		case 'r':
			delete(open, e.g)
		}
		hist = append(hist, e)
		switch e.kind {
		case 'c':
			val := e.call.val
			if e.call.pass && len(e.call.body) > 0 {
				val = -1
			}
			cur[e.g] = len(sc.plan[e.g])
			sc.plan[e.g] = append(sc.plan[e.g], c20Call{key: e.key, val: val, shape: e.call.shape})
		case 'e':
			v := e.val
			if v < 0 {
				v = -1
			}
			sc.plan[e.g][cur[e.g]].val = v
		}
	}
	return sc, hist, nestedInv, nestedRaced
}

// c20NestedLines runs one nested scenario and returns its output lines (S per cache, ORACLE).
func c20NestedLines(ns *c20Nested, rawID int, r c20NestedResult) []string {
	var lines []string
	describe := c20DescribeNested(ns)
	for _, p := range r.panics {
		lines = append(lines, "ORACLE\tpanic\t"+strconv.Itoa(rawID)+"\t"+strings.ReplaceAll(p, "\n", " "))
	}
	if len(r.final) != ns.ncaches {
		return lines
	}
	depthMax := 0
	for _, g := range ns.plan {
		for _, c := range g {
			if d := c20NestedDepth(c); d > depthMax {
				depthMax = d
			}
		}
	}
	for i := 0; i < ns.ncaches; i++ {
		sc, hist, nestedInv, nestedRaced := c20Project(ns, r, i, describe)
		sc.extra += fmt.Sprintf("\t%d\t%d\t%d\t%s\t%d", ns.ncaches, depthMax, nestedInv, ns.family, nestedRaced)
		lines = append(lines, c20Render(sc, hist, r.final[i]))
		bad := c20Oracles(sc, hist, r.final[i], r.invocations[i])
		sort.Strings(bad)
		for _, o := range bad {
			lines = append(lines, "ORACLE\t"+o+"\t"+strconv.Itoa(sc.id))
		}
	}
	return lines
}
