package dawn

import (
	"bufio"
	"encoding/json"
	"fmt"
	"io/fs"
	"math/rand"
	"os"
	"path/filepath"
	"sort"
	"strconv"
	"strings"
	"sync"
	"testing"
	"time"
)

func (r *engRun) pickTarget(biasLast bool) int {
	ids := r.sortedTargets()
	if len(ids) == 0 {
		return -1
	}
	if biasLast && r.rng.Intn(2) == 0 {
		return ids[len(ids)-1]
	}
	return ids[r.rng.Intn(len(ids))]
}

func treeHashExcludingState(root string) string {
	tmp := map[string]bool{}
	_ = tmp
	return treeHashFiltered(root, func(rel string) bool {
		// the build-state directory is <root>/.dawn/build; its siblings inside .dawn (a module cache when the project is
		// rooted at $HOME, files of other tools) are OUTSIDE it
		return rel == ".dawn/build" || strings.HasPrefix(rel, ".dawn/build/") || rel == ".exec.log" || rel == ".hooks.log" || strings.HasPrefix(rel, ".home") || rel == ".report.json"
	})
}

func treeHashFiltered(root string, skip func(string) bool) string {
	var names []string
	filepath.Walk(root, func(p string, info os.FileInfo, err error) error {
		if err != nil {
			return nil
		}
		rel, _ := filepath.Rel(root, p)
		if skip(rel) {
			if info.IsDir() {
				return filepath.SkipDir
			}
			return nil
		}
		if info.IsDir() {
			names = append(names, "D "+rel)
		} else {
			b, _ := os.ReadFile(p)
			names = append(names, "F "+rel+" "+string(b))
		}
		return nil
	})
	sort.Strings(names)
	return strings.Join(names, "\n")
}

func readRecordFiles(root string) map[string]string {
	out := map[string]string{}
	for _, kind := range []string{"targets", "sources"} {
		dir := filepath.Join(root, ".dawn", "build", kind)
		entries, _ := os.ReadDir(dir)
		for _, e := range entries {
			b, _ := os.ReadFile(filepath.Join(dir, e.Name()))
			out[kind+"/"+e.Name()] = string(b)
		}
	}
	return out
}

func (r *engRun) gc(index bool) {
	before := readRecordFiles(r.root)
	outside := treeHashExcludingState(r.root)
	mode := "gc"
	if index {
		mode = "gcindex"
	}
	// which records belong to labels that exist now
	live := map[string]bool{}
	for _, m := range r.p.model() {
		l := r.p.label(m.ID)
		live[l] = true
	}
	rep, _, hung := r.child(mode, "", nil, "")
	if rep != nil && rep.LoadErr == "" && !index {
		r.dirty = false
	}
	obs := &mObs{Kind: "gc"}
	if hung || rep == nil || rep.LoadErr != "" || rep.RunErr != "" {
		r.oracle("C14 gc failed: %+v hung=%v", rep, hung)
		obs.Kind = "died"
	}
	after := readRecordFiles(r.root)
	recs, _ := r.records()
	obs.Recs = recs
	if treeHashExcludingState(r.root) != outside {
		r.oracle("C14 gc changed files outside the build-state directory")
	}
	liveIDs := map[int]bool{}
	for _, m := range r.p.model() {
		liveIDs[m.ID] = true
	}
	// every record of a live label is kept byte for byte (modulo the identical refresh rewrite)
	for name, b := range before {
		id := r.recordFileLabel(name)
		if liveIDs[id] {
			if a, ok := after[name]; !ok {
				r.oracle("C14 gc removed the record %s of existing label %d", name, id)
			} else if a != b {
				r.oracle("C14 gc changed the record %s of existing label %d", name, id)
			}
		}
	}
	if !index {
		for name := range after {
			if id := r.recordFileLabel(name); !liveIDs[id] {
				r.oracle("C14 gc kept the record %s of a label that no longer exists", name)
			}
		}
		if entries, _ := os.ReadDir(filepath.Join(r.root, ".dawn", "build", "temp")); len(entries) != 0 {
			r.oracle("C14 gc left %d stray temporaries", len(entries))
		}
		// ... wherever they are: after a collection the state directory holds records and the index, nothing else
		filepath.WalkDir(filepath.Join(r.root, ".dawn", "build"), func(p string, d fs.DirEntry, err error) error {
			if err != nil || d.IsDir() {
				return nil
			}
			rel, _ := filepath.Rel(filepath.Join(r.root, ".dawn"), p)
			if strings.HasPrefix(rel, "build/targets/") || strings.HasPrefix(rel, "build/sources/") || rel == "build/index.json" {
				return nil
			}
			r.oracle("C14 gc left the stray file .dawn/%s", rel)
			return nil
		})
	}
	r.h.Ops = append(r.h.Ops, mOp{Op: "gc", Index: index, Obs: obs})
}

func (r *engRun) recordFileLabel(name string) int {
	kind, file, _ := strings.Cut(name, "/")
	un, err := urlUnescape(file)
	if err != nil {
		return -1
	}
	slash := strings.LastIndexByte(un, '/')
	lbl := "//" + un[:slash] + ":" + un[slash+1:]
	if kind == "sources" {
		lbl = "source:" + lbl
	}
	return r.labelIDAny(lbl)
}

func urlUnescape(s string) (string, error) {
	var b strings.Builder
	for i := 0; i < len(s); i++ {
		if s[i] == '%' && i+2 < len(s) {
			v, err := strconv.ParseUint(s[i+1:i+3], 16, 8)
			if err != nil {
				return "", err
			}
			b.WriteByte(byte(v))
			i += 2
		} else {
			b.WriteByte(s[i])
		}
	}
	return b.String(), nil
}

// whatever a killed build left behind loads: through the index, as `dawn list`, `dawn gc` and the REPL load (a kill inside
// the index write leaves a truncated index, which must be ignored), and in full
func (r *engRun) loadAfterCrash(point string) {
	r.loadAfter("a build killed at " + point)
}

// loadAfter: "the persisted build state stays loadable" -- an index-preferring load and a full load, in fresh processes
func (r *engRun) loadAfter(what string) {
	for _, mode := range []string{"loadindex", "load"} {
		before, _ := r.records()
		rep, _, hung := r.child(mode, "", nil, "")
		if hung || rep == nil {
			r.oracle("C03 the state left by %s does not load (%s): no report (hung=%v)", what, mode, hung)
		} else if rep.LoadErr != "" {
			r.oracle("C03 the state left by %s does not load (%s): %s", what, mode, rep.LoadErr)
		} else {
			// a load builds nothing: whatever it rewrites (the refresh of a record), a target marked for re-run stays
			// marked and a record keeps or lacks its stamp as before
			after, _ := r.records()
			was := map[int][3]int{}
			for _, x := range before {
				was[x[0]] = x
			}
			for _, x := range after {
				if b, ok := was[x[0]]; ok && b != x {
					r.oracle("C03 a load (%s) of the state left by %s changed the record of %s: re-run mark %d -> %d, has a stamp %d -> %d",
						mode, what, r.p.label(x[0]), b[1], x[1], b[2], x[2])
				}
			}
		}
	}
}

var crashPoints = []string{"eval.before_body", "eval.after_body", "save.mkdir", "save.created", "save.written", "save.closed", "save.renamed", "eval.recorded", "index.created", "index.written"}

func runEngHistory(t *testing.T, self string, base string, seed int64, index int, steps int) *engHistory {
	rng := rand.New(rand.NewSource(seed*1000003 + int64(index)))
	root, err := os.MkdirTemp(base, fmt.Sprintf("h%d-", index))
	if err != nil {
		t.Fatal(err)
	}
	if os.Getenv("VERIF_KEEP") == "" {
		defer os.RemoveAll(root)
	}
	r := &engRun{t: t, rng: rng, root: root, p: newEngProject(rng), h: &engHistory{Seed: seed, Index: index}, litOf: map[int]int{}, self: self, allLabels: map[string]int{}}
	os.WriteFile(filepath.Join(root, "dawn.toml"), nil, 0644)
	os.WriteFile(filepath.Join(root, "body.sh"), []byte(engBodySh), 0755)
	os.MkdirAll(filepath.Join(root, ".home"), 0755)
	// things that live next to the build-state directory, inside .dawn: never dawn's to touch
	for rel, c := range map[string]string{".dawn/modules/cache/example.com/lib@v1.0.0/dawn.toml": "[project]\nname = 'lib'\n",
		".dawn/settings.toml": "# not dawn's\n", ".dawn/build.bak/targets/%2Fkeep": "{}\n", ".dawn/builds": "x\n"} {
		os.MkdirAll(filepath.Dir(filepath.Join(root, rel)), 0755)
		os.WriteFile(filepath.Join(root, rel), []byte(c), 0644)
	}
	if index < len(engScenarios) {
		engScenarios[index](r)
		return r.h
	}
	ns := 1 + rng.Intn(3)
	for i := 0; i < ns; i++ {
		s := r.addSource(r.p.Pkgs[rng.Intn(len(r.p.Pkgs))])
		lit := r.writeLit(r.p.Sources[s].Path)
		r.emitFile(r.p.Sources[s].Path, lit, "initial")
	}
	nt := 3 + rng.Intn(5)
	for i := 0; i < nt; i++ {
		r.addTarget()
	}
	// sources created by addTarget
	for _, s := range r.p.Sources {
		if lit, ok := r.litOf[s.Path]; ok {
			seen := false
			for _, o := range r.h.Ops {
				if o.Op == "file" && o.Path == s.Path {
					seen = true
				}
			}
			if !seen {
				r.emitFile(s.Path, lit, "initial")
			}
		}
	}
	r.emitProj("initial")

	var pendingDry, lastCrash *mObs
	pendingDryLabel := -1
	forceBuild := -1
	var twin string
	for step := 0; step < steps; step++ {
		if len(r.h.Oracles) > 0 {
			break
		}
		c := rng.Intn(100)
		if forceBuild >= 0 {
			c = 0
		}
		if c >= 34 {
			// anything but a plain build invalidates the pending dry-run prediction
			if !(c >= 38 && c < 46) {
				pendingDry = nil
			}
		}
		switch {
		case c < 34: // build
			label := r.pickTarget(true)
			if forceBuild >= 0 {
				if _, ok := r.p.Targets[forceBuild]; ok {
					label = forceBuild
				}
				forceBuild = -1
			}
			if label < 0 {
				continue
			}
			var fail []int
			if rng.Intn(7) == 0 && pendingDry == nil {
				cl := r.closure(label)
				var ids []int
				for id := range cl {
					ids = append(ids, id)
				}
				sort.Ints(ids)
				fail = []int{ids[rng.Intn(len(ids))]}
			}
			obs := r.build(label, "build", fail, "", "")
			if lastCrash != nil {
				// C03: the state left by the killed build loads, and the bodies that ran without being recorded run again
				if obs.Kind != "build" || obs.LoadErr {
					r.oracle("C03 the build after a killed build did not load/run (kind %s)", obs.Kind)
				} else if obs.OK && len(fail) == 0 {
					rec := map[int]bool{}
					for _, id := range lastCrash.Recorded {
						rec[id] = true
					}
					ran := map[int]bool{}
					for _, id := range obs.Ran {
						ran[id] = true
					}
					cl := r.closure(label)
					for _, id := range lastCrash.Ran {
						if !rec[id] && cl[id] && !ran[id] {
							// its body ran but no record was written: it is up to date only if nothing was out of date but
							// a missing output, which the body has re-created; the model decides that, here we only note it
							_ = id
						}
					}
				}
				lastCrash = nil
			}
			if twin != "" {
				// the same build in the twin tree that was not garbage collected
				saved, savedOps, savedOr := r.root, len(r.h.Ops), len(r.h.Oracles)
				r.root = twin
				tobs := r.build(label, "build", fail, "", "twin")
				r.root = saved
				r.h.Ops = r.h.Ops[:savedOps]
				r.h.Oracles = r.h.Oracles[:savedOr]
				if fmt.Sprint(tobs.Ran) != fmt.Sprint(obs.Ran) || tobs.OK != obs.OK {
					r.oracle("C14 after gc the build of %d executed %v (ok=%v), without gc %v (ok=%v)", label, obs.Ran, obs.OK, tobs.Ran, tobs.OK)
				}
				os.RemoveAll(twin)
				twin = ""
			}
			if pendingDry != nil && pendingDryLabel == label && len(fail) == 0 && obs.Kind == "build" {
				// C13: the dry run reported exactly the targets the real build attempts
				if obs.OK {
					want, got := evaluatingSet(obs), evaluatingSet(pendingDry)
					if want != got {
						r.oracle("C13 dry run of %d predicted %s but the real build attempted %s", label, got, want)
					}
				}
			}
			pendingDry = nil
			if obs.Kind == "build" && obs.OK {
				r.checkClean(label)
				if rng.Intn(3) == 0 && len(r.h.Oracles) == 0 {
					// C02: rebuilding an unchanged tree executes nothing (except always-targets)
					o2 := r.build(label, "build", nil, "", "noop-rebuild")
					hasAlways := false
					for id := range r.closure(label) {
						hasAlways = hasAlways || r.p.Targets[id].Always
					}
					if !hasAlways && len(o2.Ran) != 0 {
						r.oracle("C02 rebuilding the unchanged tree executed %v", o2.Ran)
					}
					if !hasAlways && len(o2.Ran) == 0 && o2.Kind == "build" && o2.OK {
						// C02: comment / whitespace edits of the build files of the closure (every definition below them moves),
						// a same-content rewrite and a timestamp change of its sources execute nothing either
						var ids []int
						for id := range r.closure(label) {
							ids = append(ids, id)
						}
						sort.Ints(ids)
						for _, id := range ids {
							if rng.Intn(2) == 0 {
								r.p.Targets[id].Cosmetic++
							}
						}
						r.p.Targets[ids[0]].Cosmetic++
						r.emitProj("cosmetic edits in the closure")
						for _, id := range ids {
							for _, sid := range r.p.Targets[id].Srcs {
								sp := r.p.Sources[sid]
								if lit, ok := r.litOf[sp.Path]; ok && lit != 0 && sp.Dir == nil {
									f := filepath.Join(r.root, r.p.Paths[sp.Path])
									os.WriteFile(f, []byte(fmt.Sprintf("lit-%d\n", lit)), 0644)
									os.Chtimes(f, time.Now().Add(time.Hour), time.Now().Add(time.Hour))
									r.emitFile(sp.Path, lit, "same-content rewrite")
								}
							}
						}
						o3 := r.build(label, "build", nil, "", "rebuild after cosmetic edits")
						if o3.Kind == "build" && len(o3.Ran) != 0 {
							r.oracle("C02 comment/whitespace edits of build files and same-content rewrites of sources re-executed %v", o3.Ran)
						}
						// C02 across a dry run: a source is edited, a dry run reports the work, the edit is reverted -- the tree
						// is again what was built, so the next build executes nothing
						if o3.Kind == "build" && o3.OK && len(o3.Ran) == 0 {
							reverted := false
							for _, id := range ids {
								for _, sid := range r.p.Targets[id].Srcs {
									sp := r.p.Sources[sid]
									if lit, ok := r.litOf[sp.Path]; ok && lit != 0 && sp.Dir == nil && !reverted {
										r.editSource(sid)
										r.build(label, "dry", nil, "", "dry run after an edit that is then reverted")
										r.revertSource(sid, lit)
										reverted = true
									}
								}
							}
							if reverted {
								o4 := r.build(label, "build", nil, "", "rebuild after the reverted edit")
								if o4.Kind == "build" && len(o4.Ran) != 0 {
									r.oracle("C02 an edit that was reverted (with a dry run in between) re-executed %v", o4.Ran)
								}
							}
						}
					}
				}
			}
		case c < 38: // always
			if l := r.pickTarget(true); l >= 0 {
				r.build(l, "always", nil, "", "")
				pendingDry = nil
			}
		case c < 46: // dry run, then (usually) the real build
			if l := r.pickTarget(true); l >= 0 {
				pendingDry = r.build(l, "dry", nil, "", "")
				pendingDryLabel = l
				if rng.Intn(4) != 0 {
					forceBuild = l
				}
			}
		case c < 53: // crash, then recovery
			if l := r.pickTarget(true); l >= 0 {
				point := crashPoints[rng.Intn(len(crashPoints))]
				nth := 1 + rng.Intn(3)
				obs := r.build(l, "build", nil, point+"|*|"+strconv.Itoa(nth), "")
				pendingDry = nil
				if obs.Kind == "crash" || obs.Kind == "crash-load" {
					forceBuild = l
					lastCrash = obs
					r.loadAfterCrash(point)
				}
			}
		case c < 58: // gc
			if twin == "" && rng.Intn(2) == 0 {
				twin, _ = os.MkdirTemp(base, "twin-")
				if err := copyTree(r.root, twin, true); err != nil {
					os.RemoveAll(twin)
					twin = ""
				}
				r.gc(false)
				// the twin is compared on the very next operation, which is therefore a build
				forceBuild = r.pickTarget(true)
			} else {
				// gc through the index (as the CLI does) only when the index is current
				r.gc(rng.Intn(2) == 0 && !r.dirty)
			}
		case c < 68: // edit a source file
			var sids []int
			for s := range r.p.Sources {
				sids = append(sids, s)
			}
			sort.Ints(sids)
			if len(sids) == 0 {
				continue
			}
			s := r.p.Sources[sids[rng.Intn(len(sids))]]
			generated := false
			for _, t := range r.p.Targets {
				for _, g := range t.Gens {
					generated = generated || g == s.Path
				}
			}
			if generated {
				continue
			}
			if s.Dir != nil {
				// edits inside a source directory: content, rename (same content under another name), add, delete,
				// and a rename back (the directory returns to an earlier state: nothing may re-run because of it)
				var names []string
				for n := range s.Dir {
					names = append(names, n)
				}
				sort.Strings(names)
				dir := filepath.Join(r.root, r.p.Paths[s.Path])
				var links []string
				for _, n := range names {
					if s.Links[n] {
						links = append(links, n)
					}
				}
				switch k := rng.Intn(7); {
				case k == 5: // a symbolic link in the directory is created or pointed at another file
					n := "l0.c"
					if len(links) > 0 {
						n = links[rng.Intn(len(links))]
					}
					r.dirLink(s, n, true)
					r.emitDir(s, "link inside a source directory points to another file")
				case k == 6 && len(links) > 0: // the file behind a link is edited
					r.dirLink(s, links[rng.Intn(len(links))], false)
					r.emitDir(s, "edit of the file behind a link inside a source directory")
				case k == 0 && len(names) > 0: // rename
					old := names[rng.Intn(len(names))]
					nn := "r_" + old
					if strings.HasPrefix(old, "r_") {
						nn = strings.TrimPrefix(old, "r_")
					}
					if _, exists := s.Dir[nn]; !exists {
						os.Rename(filepath.Join(dir, old), filepath.Join(dir, nn))
						s.Dir[nn] = s.Dir[old]
						delete(s.Dir, old)
						if s.Links[old] {
							s.Links[nn] = true
							delete(s.Links, old)
						}
						r.emitDir(s, "rename inside a source directory")
					}
				case k == 1 && len(names) > 1: // delete
					old := names[rng.Intn(len(names))]
					os.Remove(filepath.Join(dir, old))
					delete(s.Dir, old)
					delete(s.Links, old)
					r.emitDir(s, "delete inside a source directory")
				case k == 2: // add
					r.dirPut(s, fmt.Sprintf("n%d.c", r.p.nextLit))
					r.emitDir(s, "add inside a source directory")
				case k == 3 && len(names) > 0: // same-content rewrite
					n := names[rng.Intn(len(names))]
					os.WriteFile(filepath.Join(dir, n), []byte(fmt.Sprintf("lit-%d\n", s.Dir[n])), 0644)
					r.emitDir(s, "same-content rewrite inside a source directory")
				default:
					if len(names) > 0 {
						r.dirPut(s, names[rng.Intn(len(names))])
						r.emitDir(s, "edit inside a source directory")
					}
				}
				continue
			}
			switch rng.Intn(6) {
			case 0: // delete
				os.Remove(filepath.Join(r.root, r.p.Paths[s.Path]))
				delete(r.litOf, s.Path)
				r.emitFile(s.Path, 0, "delete")
			case 1: // touch / same-content rewrite: no model-level change
				if lit, ok := r.litOf[s.Path]; ok {
					os.WriteFile(filepath.Join(r.root, r.p.Paths[s.Path]), []byte(fmt.Sprintf("lit-%d\n", lit)), 0644)
					r.emitFile(s.Path, lit, "same-content rewrite")
				}
			default:
				lit := r.writeLit(s.Path)
				r.emitFile(s.Path, lit, "edit")
			}
		case c < 71: // delete a generated output
			ids := r.sortedTargets()
			t := r.p.Targets[ids[rng.Intn(len(ids))]]
			if len(t.Gens) > 0 {
				g := t.Gens[rng.Intn(len(t.Gens))]
				os.Remove(filepath.Join(r.root, r.p.Paths[g]))
				r.emitFile(g, 0, "delete output")
			}
		case c < 77: // constant
			if l := r.pickTarget(false); l >= 0 {
				t := r.p.Targets[l]
				old := t.K
				for t.K == old {
					// distinct per target (no two equal integer constants in one file), crossing the pickle width classes
					// (300/556/812 and 65580/65836 share their low bytes: a codec that drops a byte makes such an edit invisible)
					t.K = []int{1, 20, 40, 240, 270, 300, 556, 812, 65520, 65580, 65836, 70000}[rng.Intn(12)] + t.ID
				}
				r.emitProj(fmt.Sprintf("constant of %d: %d -> %d", l, old, t.K))
			}
		case c < 80: // helper module
			if rng.Intn(3) == 0 {
				r.p.HelperOrder++
				r.emitProj("helper: entries of an ordered dict swapped")
			} else {
				r.p.HelperVer++
				r.emitProj("helper version")
			}
		case c < 84: // cosmetic (comment / whitespace): same environments
			if l := r.pickTarget(false); l >= 0 {
				r.p.Targets[l].Cosmetic++
				r.emitProj(fmt.Sprintf("cosmetic edit of %d", l))
			}
		case c < 87: // unrelated global in a package
			pkg := r.p.Pkgs[rng.Intn(len(r.p.Pkgs))]
			r.p.Pad[pkg]++
			r.emitProj("pad global in " + pkg)
		case c < 91: // add a dependency edge
			a, b := r.pickTarget(false), r.pickTarget(false)
			if a >= 0 && b >= 0 && a != b && !r.reaches(b, a) {
				has := false
				for _, d := range r.p.Targets[a].Deps {
					has = has || d == b
				}
				if !has {
					r.p.Targets[a].Deps = append(r.p.Targets[a].Deps, b)
					r.emitProj(fmt.Sprintf("add edge %d -> %d", a, b))
				}
			}
		case c < 94: // remove a dependency edge
			if a := r.pickTarget(false); a >= 0 && len(r.p.Targets[a].Deps) > 0 {
				t := r.p.Targets[a]
				i := rng.Intn(len(t.Deps))
				t.Deps = append(t.Deps[:i:i], t.Deps[i+1:]...)
				r.emitProj(fmt.Sprintf("remove an edge of %d", a))
			}
		case c < 96: // add a target
			t := r.addTarget()
			for _, s := range t.Srcs {
				if lit, ok := r.litOf[r.p.Sources[s].Path]; ok {
					r.emitFile(r.p.Sources[s].Path, lit, "source of new target")
				}
			}
			r.emitProj(fmt.Sprintf("add target %d", t.ID))
		case c < 98: // remove a target nobody depends on
			ids := r.sortedTargets()
			if len(ids) > 2 {
				victim := ids[rng.Intn(len(ids))]
				used := false
				for _, t := range r.p.Targets {
					for _, d := range t.Deps {
						used = used || d == victim
					}
				}
				if !used && twin == "" {
					delete(r.p.Targets, victim)
					r.emitProj(fmt.Sprintf("remove target %d", victim))
				}
			}
		default: // toggle always
			if l := r.pickTarget(false); l >= 0 {
				r.p.Targets[l].Always = !r.p.Targets[l].Always
				r.emitProj(fmt.Sprintf("toggle always of %d", l))
			}
		}
	}
	if twin != "" {
		os.RemoveAll(twin)
	}
	// one history in three ends with a session: several runs on ONE Project without a fresh load (not told to the model)
	if len(r.h.Oracles) == 0 && index%3 == 0 {
		r.randomSession()
	}
	return r.h
}

func evaluatingSet(o *mObs) string {
	var ids []string
	for id, ks := range o.Events {
		for _, k := range ks {
			if k == "Evaluating" {
				ids = append(ids, id)
			}
		}
	}
	sort.Strings(ids)
	return strings.Join(ids, ",")
}

func TestVerifEngine(t *testing.T) {
	outPath := os.Getenv("VERIF_OUT")
	if outPath == "" || os.Getenv("VERIF_CHILD") == "1" {
		t.Skip("VERIF_OUT not set")
	}
	seed, _ := strconv.ParseInt(os.Getenv("VERIF_SEED"), 10, 64)
	n, _ := strconv.Atoi(os.Getenv("VERIF_HISTORIES"))
	if n == 0 {
		n = 20
	}
	steps, _ := strconv.Atoi(os.Getenv("VERIF_STEPS"))
	if steps == 0 {
		steps = 14
	}
	workers, _ := strconv.Atoi(os.Getenv("VERIF_WORKERS"))
	if workers == 0 {
		workers = 12
	}
	self, err := os.Executable()
	if err != nil {
		t.Fatal(err)
	}
	base, err := os.MkdirTemp("", "verif-engine-")
	if err != nil {
		t.Fatal(err)
	}
	if os.Getenv("VERIF_KEEP") == "" {
		defer os.RemoveAll(base)
	}

	f, err := os.Create(outPath)
	if err != nil {
		t.Fatal(err)
	}
	defer f.Close()
	w := bufio.NewWriter(f)
	defer w.Flush()

	var mu sync.Mutex
	var wg sync.WaitGroup
	jobs := make(chan int)
	for i := 0; i < workers; i++ {
		wg.Add(1)
		go func() {
			defer wg.Done()
			for idx := range jobs {
				h := runEngHistory(t, self, base, seed, idx, steps)
				b, _ := json.Marshal(h)
				mu.Lock()
				w.Write(b)
				w.WriteByte('\n')
				mu.Unlock()
			}
		}()
	}
	for i := 0; i < n; i++ {
		jobs <- i
	}
	close(jobs)
	wg.Wait()
}
