package dawn

// Correspondence harness for C12, identity-key half: under WHICH STRING does a label that the user spelled end up
// in the places that use printed labels as identities?
//
//   - the dependency list of a target (target(deps=[s])): the runner asks its host for these strings and keeps one
//     node per string; the record of the dependent is keyed by them;
//   - the target table (proj.targets), looked up by get_target(s) / run(s) (Parse, RelativeTo, String) and by
//     Project.LoadTarget(raw) (Parse, String), which is what the runner calls with a dependency string.
//
// The helper-level sweep (label harness) checks Parse/String/RelativeTo as functions; the sites sweep checks the keys
// manufactured for sources= entries.  Neither runs the code that turns a label WRITTEN BY THE USER into a key.
//
// Part A (in process, the real builtins of a really loaded project, a population of defined targets):
//   spellings = every string of length <= N over {a . / :}, + by-construction re-spellings of the population's labels
//   (repeated / trailing / extra leading separators, relative forms, kinds and projects), + seeded edits of those;
//   from three calling packages.  Written as `dep` and `find` cases and recomputed by the Coq model
//   (site_dep / site_get / site_load_target).
// Part B (end to end: BUILD.dawn files on disk, Load, Run, the records on disk): by-construction spellings of known
//   targets, written as string literals and as the expression package + "/sub:gen"; the key in memory and the key
//   in the dependent's record are written as `dep` cases too.
//
// Direct oracles (independent of the model):
//   dependency_key_not_printed_label : the stored dependency string does not parse, or does not print back to itself;
//   dependency_key_not_canonical     : two spellings that denote the same label (label.Parse + RelativeTo, themselves
//       under test in the label harness; in part B: by construction) are stored under different strings, or two
//       different labels under the same string;
//   dependency_names_unknown_key     : the spelling denotes a defined target, but the stored string is not the key of
//       that target in the target table;
//   spelling_not_found / lookup_wrong_target : get_target(s) / LoadTarget(s) does not find the defined target the
//       spelling denotes / returns a target with another label;
//   record_key_not_printed_label     : a key of the `dependencies` map of a persisted record is not the printed label
//       of the dependency;
//   target_ran_under_two_identities / module_loaded_under_two_identities : one target (module) that several
//       spellings refer to was evaluated (loaded) more than once in one build (load);
//   accepted_spelling_rejected_e2e   : a project whose labels are all accepted spellings failed to load or build.

import (
	"bufio"
	"encoding/json"
	"fmt"
	"math/rand"
	"os"
	"path/filepath"
	"sort"
	"strconv"
	"strings"
	"sync"
	"testing"

	"github.com/pgavlin/dawn/diff"
	"github.com/pgavlin/dawn/label"
	"go.starlark.net/starlark"
)

// c12eligible: the labels the property speaks about (a name, or no kind).
func c12eligible(l *label.Label) bool { return l.Name != "" || l.Kind == "" }

type c12keys struct {
	site   *c12site
	getTgt *starlark.Builtin
	base   map[string]bool // keys of the population
}

// dep runs target(name="q", deps=[s], function=body) in pkg and returns the stored dependency string; whatever the
// call registered is removed again, so that the population stays as defined.
func (k *c12keys) dep(pkg, s string) (res string, outcome string) {
	defer func() {
		if x := recover(); x != nil {
			res, outcome = fmt.Sprint(x), "panic"
		}
		k.site.proj.m.Lock()
		for key := range k.site.proj.targets {
			if !k.base[key] {
				delete(k.site.proj.targets, key)
			}
		}
		k.site.proj.m.Unlock()
	}()
	m := k.site.mods[pkg]
	kwargs := []starlark.Tuple{
		{starlark.String("name"), starlark.String("q")},
		{starlark.String("deps"), starlark.NewList([]starlark.Value{starlark.String(s)})},
		{starlark.String("function"), k.site.fn},
	}
	v, err := starlark.Call(m.thread, m.target, nil, kwargs)
	if err != nil {
		return "", "err"
	}
	f, ok := v.(*function)
	if !ok {
		return fmt.Sprintf("target returned %T", v), "panic"
	}
	if len(f.deps) != 1 {
		return fmt.Sprintf("%d dependencies recorded", len(f.deps)), "panic"
	}
	return f.deps[0], "ok"
}

// get runs get_target(s) in pkg; the result is the returned target's label.
func (k *c12keys) get(pkg, s string) (l *label.Label, res string, outcome string) {
	defer func() {
		if x := recover(); x != nil {
			l, res, outcome = nil, fmt.Sprint(x), "panic"
		}
	}()
	m := k.site.mods[pkg]
	v, err := starlark.Call(m.thread, k.getTgt, starlark.Tuple{starlark.String(s)}, nil)
	if err != nil {
		return nil, "", "err"
	}
	t, ok := v.(Target)
	if !ok {
		return nil, fmt.Sprintf("get_target returned %T", v), "panic"
	}
	return t.Label(), t.Label().String(), "ok"
}

// loadTarget is the runner's question: Project.LoadTarget(raw).
func (k *c12keys) loadTarget(s string) (l *label.Label, res string, outcome string) {
	defer func() {
		if x := recover(); x != nil {
			l, res, outcome = nil, fmt.Sprint(x), "panic"
		}
	}()
	rt, err := k.site.proj.LoadTarget(s)
	if err != nil {
		return nil, "", "err"
	}
	t := rt.(*runTarget).target
	return t.Label(), t.Label().String(), "ok"
}

// c12respell returns spellings of the package pk (absolute "//a/b" or relative "a/b" or "") that differ from it only
// in separators: each separator doubled, all doubled, a trailing separator, two trailing, an extra one after the root
// (absolute spellings), one trailing separator (relative spellings).
func c12respell(pk string) []string {
	abs := strings.HasPrefix(pk, "//")
	body := pk
	if abs {
		body = pk[2:]
	}
	pre := ""
	if abs {
		pre = "//"
	}
	var comps []string
	if body != "" {
		comps = strings.Split(body, "/")
	}
	out := []string{pk}
	add := func(s string) { out = append(out, s) }
	if !abs {
		// in a relative spelling a doubled separator is the project syntax (sub//u is package //u of project sub):
		// the only re-spelling is one trailing separator
		if len(comps) > 0 {
			add(body + "/")
		}
		return out
	}
	for i := 1; i < len(comps); i++ {
		add(pre + strings.Join(comps[:i], "/") + "//" + strings.Join(comps[i:], "/"))
	}
	if len(comps) > 1 {
		add(pre + strings.Join(comps, "//"))
		add(pre + strings.Join(comps, "///") + "/")
	}
	if len(comps) > 0 {
		add(pre + body + "/")
		add(pre + body + "//")
	}
	if abs {
		add("///" + body)
		add("////" + body)
		if len(comps) > 0 {
			add("///" + strings.Join(comps, "//") + "/")
		}
	}
	return out
}

// c12relForms: the package spellings that denote pk from the calling package from: the absolute one, and the
// relative one when from is a prefix.
func c12relForms(from, pk string) []string {
	forms := []string{pk}
	if from == pk {
		forms = append(forms, "")
	} else if from == "//" {
		forms = append(forms, pk[2:])
	} else if strings.HasPrefix(pk, from+"/") {
		forms = append(forms, pk[len(from)+1:])
	}
	return forms
}

type c12evCount struct {
	discardEventsT
	m    sync.Mutex
	eval map[string]int
	mods map[string]int
}

func (e *c12evCount) TargetEvaluating(l *label.Label, reason string, d diff.ValueDiff) {
	e.m.Lock()
	e.eval[l.String()]++
	e.m.Unlock()
}

func (e *c12evCount) ModuleLoading(l *label.Label) {
	e.m.Lock()
	e.mods[l.String()]++
	e.m.Unlock()
}

func TestVerifC12Keys(t *testing.T) {
	outPath := os.Getenv("VERIF_OUT_KEYS")
	if outPath == "" {
		t.Skip("VERIF_OUT_KEYS not set")
	}
	maxLen, _ := strconv.Atoi(os.Getenv("VERIF_KEY_MAXLEN"))
	if maxLen == 0 {
		maxLen = 5
	}
	nrand, _ := strconv.Atoi(os.Getenv("VERIF_KEY_NRAND"))
	nproj, _ := strconv.Atoi(os.Getenv("VERIF_KEY_NPROJ"))
	if nproj == 0 {
		nproj = 1
	}
	seed, _ := strconv.ParseInt(os.Getenv("VERIF_SEED"), 10, 64)
	rng := rand.New(rand.NewSource(seed*104729 + 12))

	of, err := os.Create(outPath)
	if err != nil {
		t.Fatal(err)
	}
	defer of.Close()
	w := bufio.NewWriterSize(of, 1<<20)
	defer w.Flush()
	line := func(fields ...string) {
		w.WriteString(strings.Join(fields, "\t"))
		w.WriteByte('\n')
	}

	tmp, err := os.MkdirTemp("", "c12k")
	if err != nil {
		t.Fatal(err)
	}
	defer os.RemoveAll(tmp)

	// ---------------------------------------------------------------- part A
	popPkgs := []string{"//", "//a", "//a/a", "//a/a/a", "//aa"}
	popNames := []string{"a", "aa"}
	callers := []string{"//", "//a", "//a/a"}
	site := c12newSite(t, filepath.Join(tmp, "A"), popPkgs)
	k := &c12keys{site: site, getTgt: site.proj.newBuiltin_get_target(), base: map[string]bool{}}
	site.proj.m.Lock()
	site.proj.targets = map[string]*runTarget{}
	site.proj.m.Unlock()
	var popLabels []label.Label
	for _, p := range popPkgs {
		for _, n := range popNames {
			m := site.mods[p]
			kwargs := []starlark.Tuple{
				{starlark.String("name"), starlark.String(n)},
				{starlark.String("function"), site.fn},
			}
			if _, err := starlark.Call(m.thread, m.target, nil, kwargs); err != nil {
				t.Fatalf("defining %v:%v: %v", p, n, err)
			}
			popLabels = append(popLabels, label.Label{Package: p, Name: n})
		}
	}
	byLabel := map[label.Label]*runTarget{}
	var defs []string
	for key, rt := range site.proj.targets {
		k.base[key] = true
		defs = append(defs, c12hx(key))
		byLabel[*rt.target.Label()] = rt
	}
	sort.Strings(defs)
	line("defs", strings.Join(defs, ","))

	// the spellings
	var all []string
	c12enum("a/:.", maxLen, func(s string) { all = append(all, s) })
	nEnum := len(all)
	var built []string
	for _, from := range callers {
		for _, l := range popLabels {
			for _, form := range c12relForms(from, l.Package) {
				for _, sp := range c12respell(form) {
					for _, name := range []string{":" + l.Name, "", ":"} {
						for _, pre := range []string{"", "k:", "source:", "p", "p/q", ":"} {
							if pre != "" && name != ":"+l.Name && rng.Intn(3) != 0 {
								continue // kinds/projects mostly with the real name
							}
							built = append(built, pre+sp+name)
						}
					}
				}
			}
		}
	}
	all = append(all, built...)
	for i := 0; i < nrand; i++ {
		b := []byte(built[rng.Intn(len(built))])
		for e := rng.Intn(4); e > 0; e-- {
			pos := rng.Intn(len(b) + 1)
			switch rng.Intn(6) {
			case 0, 1:
				b = append(b[:pos:pos], append([]byte{'/'}, b[pos:]...)...)
			case 2:
				b = append(b[:pos:pos], append([]byte{"a.:@ -%"[rng.Intn(7)]}, b[pos:]...)...)
			case 3:
				if len(b) > 0 {
					pos = rng.Intn(len(b))
					b = append(b[:pos:pos], b[pos+1:]...)
				}
			case 4:
				b = append(b[:pos:pos], append([]byte("/./"), b[pos:]...)...)
			case 5:
				b = append(b[:pos:pos], append([]byte("../"), b[pos:]...)...)
			}
		}
		all = append(all, string(b))
	}
	line("info", "enumerated", strconv.Itoa(nEnum), "constructed", strconv.Itoa(len(built)), "random", strconv.Itoa(nrand))

	type seenKey struct {
		s string
		d string
	}
	firstOfLabel := map[label.Label]seenKey{} // denoted label -> first spelling and its key
	firstOfKey := map[string]label.Label{}   // key -> denoted label
	seenS := map[string]bool{}
	for _, s := range all {
		if seenS[s] {
			continue
		}
		seenS[s] = true
		// what the spelling denotes, as far as label.Parse is concerned
		p0, perr := label.Parse(s)
		for _, pkg := range callers {
			var r *label.Label
			if perr == nil {
				r, _ = p0.RelativeTo(pkg)
			}
			d, do := k.dep(pkg, s)
			line("dep", c12hx(pkg), c12hx(s), do, c12hx(d), "call")
			gl, gs, g := k.get(pkg, s)
			ll, ls, lo := k.loadTarget(s)
			line("find", c12hx(pkg), c12hx(s), g, c12hx(gs), lo, c12hx(ls))
			if do == "ok" {
				if r != nil && c12eligible(r) {
					// (1) the key is a printed label, of the label the spelling denotes
					l2, err2 := label.Parse(d)
					if err2 != nil || *l2 != *r || l2.String() != d {
						line("ORACLE", "dependency_key_not_printed_label", c12hx(pkg), c12hx(s), c12hx(d))
					}
					// (2) one key per label, one label per key
					if prev, ok := firstOfLabel[*r]; ok && prev.d != d {
						line("ORACLE", "dependency_key_not_canonical", c12hx(pkg), c12hx(s), c12hx(d), c12hx(prev.s), c12hx(prev.d))
					} else if !ok {
						firstOfLabel[*r] = seenKey{s, d}
					}
					if prev, ok := firstOfKey[d]; ok && prev != *r {
						line("ORACLE", "dependency_key_not_canonical", c12hx(pkg), c12hx(s), c12hx(d), c12hx(prev.String()), c12hx(d))
					} else if !ok {
						firstOfKey[d] = *r
					}
					// (3) the key of a defined target is its key in the table
					if want, ok := byLabel[*r]; ok {
						site.proj.m.Lock()
						have := site.proj.targets[d]
						site.proj.m.Unlock()
						if have != want {
							line("ORACLE", "dependency_names_unknown_key", c12hx(pkg), c12hx(s), c12hx(d))
						}
					}
				}
			}
			// (4) lookups by any spelling
			if r != nil && c12eligible(r) {
				if _, ok := byLabel[*r]; ok && g == "err" {
					line("ORACLE", "spelling_not_found", c12hx(pkg), c12hx(s), c12hx("get_target"))
				}
				if g == "ok" && *gl != *r {
					line("ORACLE", "lookup_wrong_target", c12hx(pkg), c12hx(s), c12hx("get_target"), c12hx(gs))
				}
			}
			if perr == nil && c12eligible(p0) {
				if _, ok := byLabel[*p0]; ok && lo == "err" {
					line("ORACLE", "spelling_not_found", c12hx(pkg), c12hx(s), c12hx("LoadTarget"))
				}
				if lo == "ok" && *ll != *p0 {
					line("ORACLE", "lookup_wrong_target", c12hx(pkg), c12hx(s), c12hx("LoadTarget"), c12hx(ls))
				}
			}
		}
	}

	// ---------------------------------------------------------------- part B
	for pi := 0; pi < nproj; pi++ {
		c12keysProject(t, filepath.Join(tmp, "B", strconv.Itoa(pi)), rng, pi, line)
	}
}

// c12keysProject writes one project whose BUILD.dawn files refer to a few targets under many accepted spellings,
// loads it, builds it and reads the records back.
func c12keysProject(t *testing.T, root string, rng *rand.Rand, pi int, line func(...string)) {
	type ref struct {
		pkg    string      // the package whose BUILD.dawn holds the reference
		expr   string      // Starlark source of the dependency
		s      string      // the string it evaluates to
		denote label.Label // the target it denotes, by construction
		name   string      // the dependent target
	}
	targets := []label.Label{{Package: "//sub", Name: "gen"}, {Package: "//sub/u", Name: "gen"}, {Package: "//", Name: "b"},
		{Package: "//sub/u/v", Name: "w"}}
	holders := []string{"//", "//sub"}
	var refs []ref
	lit := func(s string) string { return starlark.String(s).String() }
	for _, h := range holders {
		for _, tl := range targets {
			var cands []ref
			for _, form := range c12relForms(h, tl.Package) {
				for _, sp := range c12respell(form) {
					s := sp + ":" + tl.Name
					cands = append(cands, ref{pkg: h, expr: lit(s), s: s, denote: tl})
				}
			}
			// the natural way to a non-canonical spelling: the `package` builtin plus a suffix
			if strings.HasPrefix(tl.Package, strings.TrimSuffix(h, "/")+"/") && tl.Package != h {
				suffix := "/" + tl.Package[len(strings.TrimSuffix(h, "/"))+1:] + ":" + tl.Name
				cands = append(cands, ref{pkg: h, expr: "package + " + lit(suffix), s: h + suffix, denote: tl})
			}
			// the first project holds every candidate, the others a seeded half
			for _, c := range cands {
				if pi == 0 || rng.Intn(2) == 0 {
					refs = append(refs, c)
				}
			}
		}
	}
	for i := range refs {
		refs[i].name = "d" + strconv.Itoa(i)
	}

	modSpell := map[string][]string{
		"//":    {"//lib:defs.dawn", "lib:defs.dawn", "//lib/:defs.dawn", "///lib:defs.dawn", "lib/:defs.dawn"},
		"//sub": {"//lib:defs.dawn", "//lib//:defs.dawn", "////lib/:defs.dawn"},
	}
	write := func(rel, content string) {
		p := filepath.Join(root, filepath.FromSlash(rel))
		if err := os.MkdirAll(filepath.Dir(p), 0755); err != nil {
			t.Fatal(err)
		}
		if err := os.WriteFile(p, []byte(content), 0644); err != nil {
			t.Fatal(err)
		}
	}
	write("dawn.toml", "")
	write("lib/defs.dawn", "v = 1\n")
	own := map[string][]string{"//": {"b"}, "//sub": {"gen"}, "//sub/u": {"gen"}, "//sub/u/v": {"w"}}
	for _, pkg := range []string{"//", "//sub", "//sub/u", "//sub/u/v"} {
		var b strings.Builder
		for i, ms := range modSpell[pkg] {
			fmt.Fprintf(&b, "load(%s, v%d=\"v\")\n", lit(ms), i)
		}
		for _, n := range own[pkg] {
			fmt.Fprintf(&b, "@target()\ndef %s():\n    pass\n", n)
		}
		var mine []string
		for _, r := range refs {
			if r.pkg == pkg {
				fmt.Fprintf(&b, "@target(deps=[%s])\ndef %s():\n    pass\n", r.expr, r.name)
				mine = append(mine, r.name)
			}
		}
		if len(mine) > 0 {
			fmt.Fprintf(&b, "@target(deps=[%s])\ndef all():\n    pass\n", strings.Join(mine, ", "))
		}
		write(pkg[2:]+"/BUILD.dawn", b.String())
	}

	ev := &c12evCount{eval: map[string]int{}, mods: map[string]int{}}
	fail := func(what string, err error) {
		line("ORACLE", "accepted_spelling_rejected_e2e", c12hx(root), c12hx(what), c12hx(err.Error()))
	}
	var proj *Project
	func() {
		defer func() {
			if x := recover(); x != nil {
				line("ORACLE", "accepted_spelling_rejected_e2e", c12hx(root), c12hx("Load panicked"), c12hx(fmt.Sprint(x)))
			}
		}()
		p, err := Load(root, &LoadOptions{Events: ev})
		if err != nil {
			fail("Load", err)
			return
		}
		proj = p
	}()
	if proj == nil {
		return
	}
	ev.m.Lock()
	for ml, n := range ev.mods {
		if n > 1 {
			line("ORACLE", "module_loaded_under_two_identities", c12hx(root), c12hx(ml), c12hx(strconv.Itoa(n)))
		}
	}
	if ev.mods["module://lib:defs.dawn"] != 1 {
		line("ORACLE", "module_loaded_under_two_identities", c12hx(root), c12hx("module://lib:defs.dawn"),
			c12hx(strconv.Itoa(ev.mods["module://lib:defs.dawn"])))
	}
	ev.m.Unlock()

	// keys in memory
	for _, r := range refs {
		tgt, err := proj.Target(&label.Label{Package: r.pkg, Name: r.name})
		if err != nil {
			fail(r.pkg+":"+r.name, err)
			continue
		}
		deps := tgt.(*function).deps
		if len(deps) != 1 {
			fail(r.pkg+":"+r.name, fmt.Errorf("%d dependencies recorded", len(deps)))
			continue
		}
		line("dep", c12hx(r.pkg), c12hx(r.s), "ok", c12hx(deps[0]), "load")
		if deps[0] != r.denote.String() {
			line("ORACLE", "dependency_key_not_canonical", c12hx(r.pkg), c12hx(r.s), c12hx(deps[0]), c12hx(r.denote.String()), c12hx(r.denote.String()))
		}
	}
	// build, then the records
	for _, h := range holders {
		ev.m.Lock()
		ev.eval = map[string]int{}
		ev.m.Unlock()
		var rerr error
		func() {
			defer func() {
				if x := recover(); x != nil {
					rerr = fmt.Errorf("Run panicked: %v", x)
				}
			}()
			rerr = proj.Run(&label.Label{Package: h, Name: "all"}, &RunOptions{})
		}()
		if rerr != nil {
			fail("Run "+h+":all", rerr)
		}
		ev.m.Lock()
		for tl, n := range ev.eval {
			if n > 1 {
				line("ORACLE", "target_ran_under_two_identities", c12hx(root), c12hx(tl), c12hx(strconv.Itoa(n)))
			}
		}
		ev.m.Unlock()
	}
	for _, r := range refs {
		raw, err := os.ReadFile(proj.targetInfoPath(&label.Label{Package: r.pkg, Name: r.name}))
		if err != nil {
			fail("record of "+r.pkg+":"+r.name, err)
			continue
		}
		var rec struct {
			Dependencies map[string]string `json:"dependencies"`
		}
		if err := json.Unmarshal(raw, &rec); err != nil {
			fail("record of "+r.pkg+":"+r.name, err)
			continue
		}
		var keys []string
		for key := range rec.Dependencies {
			keys = append(keys, key)
		}
		sort.Strings(keys)
		if len(keys) != 1 {
			line("ORACLE", "record_key_not_printed_label", c12hx(r.pkg), c12hx(r.s), c12hx(strings.Join(keys, " ")))
			continue
		}
		line("dep", c12hx(r.pkg), c12hx(r.s), "ok", c12hx(keys[0]), "record")
		if keys[0] != r.denote.String() {
			line("ORACLE", "record_key_not_printed_label", c12hx(r.pkg), c12hx(r.s), c12hx(keys[0]))
		}
	}
}
