package dawn

// Engine harness, sessions: SEVERAL runs on one Project value in one process, with edits between them and without a fresh
// load -- what the REPL's run() builtin and any library client that keeps its *Project do.  The sequential model has a
// fresh load before every build (as the CLI and watch mode have), so a session is judged by the direct staleness oracle
// only (C01: "After any history of edits and builds ... a build of a target that reports success leaves every target in
// its dependency closure current ... the files produced equal those a from-scratch build of the same tree produces"):
// after every run of the session that reports success the child snapshots the tree; the parent then builds each snapshot
// from scratch in a fresh process and compares the generated files of the closure.  Nothing is claimed about which bodies
// a session executes (a reused Project keeps its load-time view of the records and re-executes more than a fresh load
// would; C02 is about freshly loaded projects).
//
// A session is always the LAST thing in its history: the model is not told about it.

import (
	"encoding/json"
	"fmt"
	"os"
	"path/filepath"
	"strings"

	"github.com/pgavlin/dawn/label"
)

type sessStep struct {
	Op      string   `json:"op"` // run | write | remove | reload
	Label   string   `json:"label,omitempty"`
	Mode    string   `json:"mode,omitempty"` // build | always | dry
	Fail    []string `json:"fail,omitempty"`
	Path    string   `json:"path,omitempty"`
	Content string   `json:"content,omitempty"`
	Note    string   `json:"note,omitempty"`
}

type sessResult struct {
	Step     int      `json:"step"`
	RunErr   string   `json:"run_err"`
	Ran      []string `json:"ran"`
	Snapshot string   `json:"snapshot,omitempty"`
}

// sessionChild runs the steps of VERIF_SESSION on proj; results go to VERIF_SESSION_OUT.
func sessionChild(proj *Project, root string, rec *engRecorder) string {
	var steps []sessStep
	if err := json.Unmarshal([]byte(os.Getenv("VERIF_SESSION")), &steps); err != nil {
		return "bad session: " + err.Error()
	}
	snapBase := os.Getenv("VERIF_SNAP")
	var results []sessResult
	execPos := 0
	_, execPos = readLines(filepath.Join(root, ".exec.log"), 0)
	for i, st := range steps {
		switch st.Op {
		case "write":
			full := filepath.Join(root, st.Path)
			os.MkdirAll(filepath.Dir(full), 0755)
			os.WriteFile(full, []byte(st.Content), 0644)
		case "remove":
			os.Remove(filepath.Join(root, st.Path))
		case "reload":
			if err := proj.Reload(); err != nil {
				return fmt.Sprintf("step %d: reload: %v", i, err)
			}
		case "run":
			l, err := label.Parse(st.Label)
			if err != nil {
				return fmt.Sprintf("step %d: bad label %q", i, st.Label)
			}
			os.Setenv("VERIF_FAIL", strings.Join(st.Fail, ","))
			err = proj.Run(l, &RunOptions{Always: st.Mode == "always", DryRun: st.Mode == "dry"})
			os.Setenv("VERIF_FAIL", "")
			res := sessResult{Step: i, RunErr: errText(err)}
			res.Ran, execPos = readLines(filepath.Join(root, ".exec.log"), execPos)
			if err == nil && st.Mode != "dry" && snapBase != "" {
				res.Snapshot = filepath.Join(snapBase, fmt.Sprintf("s%d", i))
				if cerr := copyTree(root, res.Snapshot, false); cerr != nil {
					return fmt.Sprintf("step %d: snapshot: %v", i, cerr)
				}
			}
			results = append(results, res)
		}
	}
	b, _ := json.Marshal(results)
	os.WriteFile(os.Getenv("VERIF_SESSION_OUT"), b, 0644)
	return ""
}

// session plays the steps in one child process and judges every successful run against a from-scratch build of the tree
// as it was then.  The parent's notion of the tree (r.litOf) is not kept up to date: a session ends its history.
func (r *engRun) session(what string, steps []sessStep, labelOf map[string]int) {
	snap, err := os.MkdirTemp(filepath.Dir(r.root), "snap-")
	if err != nil {
		return
	}
	defer os.RemoveAll(snap)
	out := filepath.Join(snap, "session.json")
	b, _ := json.Marshal(steps)
	r.extraEnv = []string{"VERIF_SESSION=" + string(b), "VERIF_SNAP=" + snap, "VERIF_SESSION_OUT=" + out}
	rep, _, hung := r.child("session", "", nil, "")
	r.extraEnv = nil
	describe := func(upto int) string {
		var parts []string
		for _, st := range steps[:upto+1] {
			switch st.Op {
			case "run":
				s := "run " + st.Label
				if st.Mode != "build" {
					s += " (" + st.Mode + ")"
				}
				if len(st.Fail) > 0 {
					s += " with " + strings.Join(st.Fail, ",") + " failing"
				}
				parts = append(parts, s)
			case "write":
				parts = append(parts, "edit "+st.Path)
			case "remove":
				parts = append(parts, "delete "+st.Path)
			case "reload":
				parts = append(parts, "reload")
			}
		}
		return strings.Join(parts, "; ")
	}
	if hung || rep == nil || rep.LoadErr != "" || rep.RunErr != "" {
		le := ""
		if rep != nil {
			le = rep.LoadErr + rep.RunErr
		}
		r.oracle("C01 session (%s: %s) did not complete: hung=%v %s", what, describe(len(steps)-1), hung, le)
		return
	}
	var results []sessResult
	if rb, err := os.ReadFile(out); err != nil || json.Unmarshal(rb, &results) != nil {
		r.oracle("C01 session (%s) left no results", what)
		return
	}
	for _, res := range results {
		st := steps[res.Step]
		if res.Snapshot == "" {
			if res.RunErr == "" && st.Mode != "dry" {
				r.oracle("harness: no snapshot for step %d", res.Step)
			}
			continue
		}
		id, ok := labelOf[st.Label]
		if !ok {
			continue
		}
		// the snapshot, built from scratch in a fresh process
		scratch := res.Snapshot + "-scratch"
		if err := copyTree(res.Snapshot, scratch, false); err != nil {
			r.oracle("harness: %v", err)
			continue
		}
		for _, t := range r.p.Targets {
			for _, g := range t.Gens {
				os.Remove(filepath.Join(scratch, r.p.Paths[g]))
			}
		}
		saved := r.root
		r.root = scratch
		crep, _, _ := r.child("build", st.Label, nil, "")
		r.root = saved
		if crep == nil || crep.LoadErr != "" || crep.RunErr != "" {
			continue // the from-scratch build fails: nothing to compare
		}
		for tid := range r.closure(id) {
			for _, g := range r.p.Targets[tid].Gens {
				a, _ := os.ReadFile(filepath.Join(res.Snapshot, r.p.Paths[g]))
				c, _ := os.ReadFile(filepath.Join(scratch, r.p.Paths[g]))
				if string(a) != string(c) {
					r.oracle("C01 stale: %s of %s differs from a from-scratch build after the session [%s] on one Project (%s; that run executed %v)",
						r.p.Paths[g], r.p.label(tid), describe(res.Step), what, res.Ran)
				}
			}
		}
	}
}

func (r *engRun) sessLit(path int) string {
	lit := r.p.nextLit
	r.p.nextLit++
	return fmt.Sprintf("lit-%d\n", lit)
}

func init() {
	// scripted sessions over a chain s -> a -> b -> top with a second source of b
	engScenarios = append(engScenarios, func(r *engRun) {
		s := r.mkSource("")
		s2 := r.mkSource("")
		a := r.mkTarget("", nil, []int{s}, 1, false, 0)
		b := r.mkTarget("", []int{a.ID}, []int{s2}, 1, false, 1)
		top := r.mkTarget("", []int{b.ID}, nil, 1, false, 0)
		r.emitProj("scenario: sessions (several runs on one Project, no reload)")
		r.build(top.ID, "build", nil, "", "scenario")
		lo := map[string]int{r.p.label(a.ID): a.ID, r.p.label(b.ID): b.ID, r.p.label(top.ID): top.ID}
		ps, ps2 := r.p.Paths[r.p.Sources[s].Path], r.p.Paths[r.p.Sources[s2].Path]
		la, lb, lt := r.p.label(a.ID), r.p.label(b.ID), r.p.label(top.ID)
		run := func(l, mode string, fail ...string) sessStep { return sessStep{Op: "run", Label: l, Mode: mode, Fail: fail} }
		edit := func(p string, src int) sessStep {
			return sessStep{Op: "write", Path: p, Content: r.sessLit(r.p.Sources[src].Path)}
		}
		gen := func(t *engTarget) string { return r.p.Paths[t.Gens[0]] }
		sessions := [][]sessStep{
			// a failed build between an edit and the next build
			{run(lt, "build"), edit(ps, s), run(lt, "build", la), run(lt, "build"), run(lt, "build")},
			// the failing body is further down; the repaired build is of a sub-target first
			{edit(ps, s), run(lt, "build", lb), run(la, "build"), run(lt, "build")},
			// partial builds inside a session
			{edit(ps, s), run(la, "build"), run(lt, "build"), edit(ps2, s2), run(lb, "build"), run(lt, "build")},
			// a deleted output, a dry run in between, an always-run
			{{Op: "remove", Path: gen(a)}, run(lt, "dry"), run(lt, "build"), edit(ps, s), run(lt, "always", la), run(lt, "build")},
			// two edits, the second one while the first is still unbuilt; a failure of the top
			{edit(ps, s), run(lt, "build", lt), edit(ps2, s2), run(lt, "build", lt), run(lt, "build")},
			// a reload in the middle (watch mode), then more runs without one
			{edit(ps, s), run(lt, "build", la), {Op: "reload"}, run(lt, "build"), edit(ps, s), run(lt, "build", lb), run(lt, "build")},
			// back to an earlier content
			{{Op: "write", Path: ps, Content: "same\n"}, run(lt, "build"), edit(ps, s), run(lt, "build", la), {Op: "write", Path: ps, Content: "same\n"}, run(lt, "build")},
		}
		for i, ss := range sessions {
			// every session starts from the state the previous one left (one more way of reaching states)
			r.session(fmt.Sprintf("scripted %d", i), ss, lo)
		}
	})
}

// randomSession: 5-9 steps over the history's project, appended to a random history as its last operation
func (r *engRun) randomSession() {
	var fns []*engTarget
	lo := map[string]int{}
	for _, t := range r.p.Targets {
		fns = append(fns, t)
		lo[r.p.label(t.ID)] = t.ID
	}
	if len(fns) == 0 || len(r.p.Sources) == 0 {
		return
	}
	// deterministic order
	for i := range fns {
		for j := i + 1; j < len(fns); j++ {
			if fns[j].ID < fns[i].ID {
				fns[i], fns[j] = fns[j], fns[i]
			}
		}
	}
	generated := map[int]bool{}
	for _, t := range r.p.Targets {
		for _, g := range t.Gens {
			generated[g] = true
		}
	}
	var srcs []int
	for s, src := range r.p.Sources {
		// a generated file that is also somebody's source is its generator's to write, not an edit's
		if !generated[src.Path] && src.Dir == nil {
			srcs = append(srcs, s)
		}
	}
	if len(srcs) == 0 {
		return
	}
	for i := range srcs {
		for j := i + 1; j < len(srcs); j++ {
			if srcs[j] < srcs[i] {
				srcs[i], srcs[j] = srcs[j], srcs[i]
			}
		}
	}
	n := 5 + r.rng.Intn(5)
	var steps []sessStep
	for i := 0; i < n; i++ {
		switch k := r.rng.Intn(10); {
		case k < 3:
			s := srcs[r.rng.Intn(len(srcs))]
			if r.p.Sources[s].Dir != nil {
				continue
			}
			steps = append(steps, sessStep{Op: "write", Path: r.p.Paths[r.p.Sources[s].Path], Content: r.sessLit(r.p.Sources[s].Path)})
		case k == 3:
			t := fns[r.rng.Intn(len(fns))]
			if len(t.Gens) > 0 {
				steps = append(steps, sessStep{Op: "remove", Path: r.p.Paths[t.Gens[r.rng.Intn(len(t.Gens))]]})
			}
		case k == 4 && r.rng.Intn(3) == 0:
			steps = append(steps, sessStep{Op: "reload"})
		default:
			t := fns[r.rng.Intn(len(fns))]
			st := sessStep{Op: "run", Label: r.p.label(t.ID), Mode: []string{"build", "build", "build", "always", "dry"}[r.rng.Intn(5)]}
			if r.rng.Intn(3) == 0 {
				var cl []int
				for id := range r.closure(t.ID) {
					cl = append(cl, id)
				}
				for a := range cl {
					for b := a + 1; b < len(cl); b++ {
						if cl[b] < cl[a] {
							cl[a], cl[b] = cl[b], cl[a]
						}
					}
				}
				st.Fail = []string{r.p.label(cl[r.rng.Intn(len(cl))])}
			}
			steps = append(steps, st)
		}
	}
	steps = append(steps, sessStep{Op: "run", Label: r.p.label(fns[len(fns)-1].ID), Mode: "build"})
	r.session("random", steps, lo)
}

func init() {
	// edits of the dependency / source LISTS alone: the bodies of style 4 read their lists from a manifest, so adding or
	// removing an edge changes no function environment -- the target must execute because its record has no stamp for the
	// new dependency (or has one too many), not because its fingerprint moved
	engScenarios = append(engScenarios, func(r *engRun) {
		s1 := r.mkSource("")
		s2 := r.mkSource("")
		a := r.mkTarget("", nil, []int{s1}, 1, false, 4)
		d := r.mkTarget("", nil, []int{s2}, 1, false, 0)
		t := r.mkTarget("", []int{a.ID}, nil, 1, false, 4)
		top := r.mkTarget("", []int{t.ID}, nil, 1, false, 4)
		r.emitProj("scenario: edits of dependency and source lists only (manifest-driven bodies)")
		r.build(top.ID, "build", nil, "", "scenario")
		r.build(d.ID, "build", nil, "", "the future dependency, built on its own")
		// a new edge to a target that is built and up to date
		t.Deps = append(t.Deps, d.ID)
		r.emitProj("add edge t -> d (d built and unchanged)")
		r.build(top.ID, "build", nil, "", "scenario")
		r.checkClean(top.ID)
		r.build(top.ID, "build", nil, "", "scenario: nothing changed")
		// a new source that exists and was a source of another target already
		t.Srcs = append(t.Srcs, s2)
		r.emitProj("add source s2 to t")
		r.build(top.ID, "build", nil, "", "scenario")
		r.checkClean(top.ID)
		// the edge goes away again
		t.Deps = t.Deps[:1]
		r.emitProj("remove edge t -> d")
		r.build(top.ID, "build", nil, "", "scenario")
		r.checkClean(top.ID)
		// an edge to a target that has never been built, added to the middle of the chain
		e := r.mkTarget("", nil, []int{s1}, 1, false, 4)
		a.Deps = append(a.Deps, e.ID)
		r.emitProj("add target e and edge a -> e")
		r.build(t.ID, "build", nil, "", "scenario: a sub-target")
		r.build(top.ID, "build", nil, "", "scenario")
		r.checkClean(top.ID)
		// LAST (the tree stays stale afterwards, see the known finding `declared-order`): the same dependencies and
		// sources, declared in another order; then one of them declared twice.  A record keeps the stamps of its
		// dependencies as an unordered map, so neither edit is noticed, while a body that works on what is declared in
		// the declared order (a link line) produces other output from scratch.
		t.Srcs = append(t.Srcs, s1)
		r.emitProj("add source s1 to t (so that it has two)")
		r.build(top.ID, "build", nil, "", "scenario")
		r.checkClean(top.ID)
		t.Srcs[0], t.Srcs[1] = t.Srcs[1], t.Srcs[0]
		r.emitProj("the two sources of t declared in the other order")
		r.build(top.ID, "build", nil, "", "scenario")
		r.checkCleanAs(top.ID, "declared-order")
		t.Srcs = append(t.Srcs, t.Srcs[0])
		r.emitProj("a source of t declared twice")
		r.build(top.ID, "build", nil, "", "scenario")
		r.checkCleanAs(top.ID, "declared-order")
	})
}

// splitRuns cuts a report's events at the LoadDone markers: events of the load, of the first run, of the second run, ...
func splitRuns(rep *engReport) [][]engEvent {
	var parts [][]engEvent
	cur := []engEvent{}
	for _, e := range rep.Events {
		if e.Kind == "LoadDone" {
			parts = append(parts, cur)
			cur = []engEvent{}
			continue
		}
		cur = append(cur, e)
	}
	return append(parts, cur)
}

func evaluatingOf(evs []engEvent) string {
	set := map[string]bool{}
	for _, e := range evs {
		if e.Kind == "Evaluating" {
			set[e.Label] = true
		}
	}
	var ls []string
	for l := range set {
		ls = append(ls, l)
	}
	for i := range ls {
		for j := i + 1; j < len(ls); j++ {
			if ls[j] < ls[i] {
				ls[i], ls[j] = ls[j], ls[i]
			}
		}
	}
	return strings.Join(ls, " ")
}

// previewThenBuildInProcess: ONE Project, run(dry) then run, no Reload (the REPL's run(x, dry_run=True); run(x)).  The
// preview must change nothing, must predict what the build attempts, and the build is to the model an ordinary build.
func (r *engRun) previewThenBuildInProcess(label int, what string) {
	lbl := r.p.label(label)
	_, r.execPos = readLines(filepath.Join(r.root, ".exec.log"), 0)
	rep, _, hung := r.child("dry+run", lbl, nil, "")
	if hung || rep == nil || rep.LoadErr != "" {
		r.oracle("C13 dry run then build in one process (%s): no report (hung=%v)", what, hung)
		return
	}
	if strings.Contains(rep.RunErr, "dry run changed the tree") {
		r.oracle("C13 dry run of %s changed the tree (files, directories or persisted state) (%s)", lbl, what)
	}
	ranLines, _ := readLines(filepath.Join(r.root, ".exec.log"), r.execPos)
	var ran []int
	for _, l := range ranLines {
		ran = append(ran, r.labelIDAny(l))
	}
	for i := range ran {
		for j := i + 1; j < len(ran); j++ {
			if ran[j] < ran[i] {
				ran[i], ran[j] = ran[j], ran[i]
			}
		}
	}
	by, run := r.eventsByLabel(rep) // events of the second run (after the marker)
	r.checkProtocol(run, ran, "build", rep.RunErr, lbl)
	if parts := splitRuns(rep); len(parts) >= 3 && rep.RunErr == "" {
		if want, got := evaluatingOf(parts[len(parts)-1]), evaluatingOf(parts[len(parts)-2]); want != got {
			r.oracle("C13 dry run of %s predicted [%s] but the build that followed in the same process attempted [%s] (%s)", lbl, got, want, what)
		}
	}
	recs, _ := r.records()
	r.h.Ops = append(r.h.Ops, mOp{Op: "build", Label: label, Mode: "build", Note: "in process, after a dry run, no reload: " + what,
		Obs: &mObs{Kind: "build", OK: rep.RunErr == "", Ran: ran, Events: by, Recs: recs}})
	o := r.build(label, "build", nil, "", "fresh process afterwards")
	if o.Kind == "build" && o.OK {
		if len(o.Ran) != 0 {
			r.oracle("C13 a dry run changed what the next build does: %v ran in a fresh process although the tree is what was just built (%s)", o.Ran, what)
		}
		r.checkClean(label)
	}
}

func init() {
	// previews in one process with the build that follows, in the states a preview can meet: an edited source, a deleted
	// output, a failed build before it, nothing to do
	engScenarios = append(engScenarios, func(r *engRun) {
		s := r.mkSource("")
		lib := r.mkTarget("", nil, []int{s}, 1, false, 0)
		app := r.mkTarget("", []int{lib.ID}, nil, 1, false, 4)
		r.emitProj("scenario: previews followed by the build in one process")
		r.build(app.ID, "build", nil, "", "scenario")
		r.editSource(s)
		r.previewThenBuildInProcess(app.ID, "a source was edited")
		r.previewThenBuildInProcess(app.ID, "nothing to do")
		os.Remove(filepath.Join(r.root, r.p.Paths[lib.Gens[0]]))
		r.emitFile(lib.Gens[0], 0, "delete output")
		r.previewThenBuildInProcess(app.ID, "an output was deleted")
		r.editSource(s)
		r.build(app.ID, "build", []int{lib.ID}, "", "a failing build")
		r.previewThenBuildInProcess(app.ID, "after a failed build")
	})
	// outputs in directories that do not exist (yet / any more): a preview creates nothing
	engScenarios = append(engScenarios, func(r *engRun) {
		s := r.mkSource("")
		g := r.mkTarget("", nil, []int{s}, 1, false, 0)
		g.Gens = []int{r.p.newPath("dist/bin/g.out0"), r.p.newPath("dist/pkg/deep/g.out1")}
		top := r.mkTarget("", []int{g.ID}, nil, 1, false, 0)
		top.Gens = []int{r.p.newPath("out/top.out0")}
		r.emitProj("scenario: previews of targets whose output directories do not exist")
		r.build(top.ID, "dry", nil, "", "fresh checkout: nothing built, no output directory")
		r.build(g.ID, "dry", nil, "", "a sub-target")
		r.dryThenBuild(top.ID)
		os.RemoveAll(filepath.Join(r.root, "dist"))
		r.emitFile(g.Gens[0], 0, "delete output")
		r.emitFile(g.Gens[1], 0, "delete output")
		r.build(top.ID, "dry", nil, "", "the output directory was removed")
		r.dryThenBuild(top.ID)
	})
	// the last label of a kind disappears: the directory that held its records has nothing live in it any more
	engScenarios = append(engScenarios, func(r *engRun) {
		s := r.mkSource("")
		a := r.mkTarget("", nil, []int{s}, 1, false, 4)
		top := r.mkTarget("", []int{a.ID}, nil, 1, false, 0)
		r.emitProj("scenario: collections after the last source / the last target of a package is gone")
		r.build(top.ID, "build", nil, "", "scenario")
		a.Srcs = nil
		delete(r.p.Sources, s)
		r.emitProj("the only source is no longer declared")
		r.build(top.ID, "build", nil, "", "scenario")
		r.gc(false)
		r.gc(true)
		o := r.build(top.ID, "build", nil, "", "after the collections")
		if o.Kind == "build" && o.OK && len(o.Ran) != 0 {
			r.oracle("C14 a collection changed what the next build executes: %v ran although nothing changed", o.Ran)
		}
	})
	// a target killed inside its body although its record was valid (an always-run), completed by a build of it alone,
	// then its dependent in a fresh process: the dependent has seen the earlier execution, not this one
	engScenarios = append(engScenarios, func(r *engRun) {
		s := r.mkSource("")
		lib := r.mkTarget("", nil, []int{s}, 1, false, 0)
		app := r.mkTarget("", []int{lib.ID}, nil, 1, false, 1)
		top := r.mkTarget("", []int{app.ID}, nil, 1, false, 4)
		r.emitProj("scenario: an interrupted re-run of a valid target, completed without its dependents")
		r.build(top.ID, "build", nil, "", "scenario")
		for _, point := range []string{"eval.after_body", "eval.before_body", "save.created"} {
			r.build(top.ID, "always", nil, point+"|"+r.p.label(lib.ID)+"|1", "always-run killed at "+point+" of the dependency")
			r.build(lib.ID, "build", nil, "", "the dependency alone")
			o := r.build(top.ID, "build", nil, "", "the dependents, in a fresh process")
			if o.Kind == "build" && o.OK {
				r.checkClean(top.ID)
			}
		}
		os.Remove(filepath.Join(r.root, r.p.Paths[lib.Gens[0]]))
		r.emitFile(lib.Gens[0], 0, "delete output")
		r.build(top.ID, "build", nil, "eval.after_body|"+r.p.label(lib.ID)+"|1", "re-creation of a deleted output killed after the body")
		r.build(lib.ID, "build", nil, "", "the dependency alone")
		o := r.build(top.ID, "build", nil, "", "the dependents, in a fresh process")
		if o.Kind == "build" && o.OK {
			r.checkClean(top.ID)
		}
	})
}

func init() {
	// a generated file that is also a declared SOURCE of another target: deleted, it must come back (the presence of a
	// declared output is the generator's to check, whoever else watches the file)
	engScenarios = append(engScenarios, func(r *engRun) {
		s := r.mkSource("")
		gen := r.mkTarget("", nil, []int{s}, 2, false, 0)
		gs := 1000 + len(r.p.Sources)
		r.p.Sources[gs] = &engSource{ID: gs, Path: gen.Gens[0]}
		use := r.mkTarget("", nil, []int{gs}, 1, false, 4)
		top := r.mkTarget("", []int{use.ID}, nil, 1, false, 0)
		r.emitProj("scenario: a generated file that is a declared source of another target")
		r.build(top.ID, "build", nil, "", "scenario")
		for _, what := range []int{0, 1} {
			os.Remove(filepath.Join(r.root, r.p.Paths[gen.Gens[what]]))
			r.emitFile(gen.Gens[what], 0, "delete output")
			o := r.build(top.ID, "build", nil, "", "after the deletion")
			if o.Kind == "build" && o.OK {
				r.checkClean(top.ID)
			}
			r.build(top.ID, "build", nil, "", "nothing changed")
		}
		os.Remove(filepath.Join(r.root, r.p.Paths[gen.Gens[0]]))
		r.emitFile(gen.Gens[0], 0, "delete output")
		r.build(use.ID, "dry", nil, "", "preview of the consumer")
		o := r.build(use.ID, "build", nil, "", "the consumer alone")
		if o.Kind == "build" && o.OK {
			r.checkClean(use.ID)
		}
	})
	// a dependency or a source named twice in one declaration
	engScenarios = append(engScenarios, func(r *engRun) {
		s := r.mkSource("")
		a := r.mkTarget("", nil, []int{s, s}, 1, false, 4)
		b := r.mkTarget("", []int{a.ID, a.ID}, []int{s}, 1, false, 0)
		top := r.mkTarget("", []int{b.ID, a.ID, b.ID}, nil, 1, false, 4)
		r.emitProj("scenario: the same dependency / source named twice")
		r.build(top.ID, "build", nil, "", "scenario")
		r.build(top.ID, "build", nil, "", "nothing changed")
		r.editSource(s)
		o := r.build(top.ID, "build", nil, "", "after an edit")
		if o.Kind == "build" && o.OK {
			r.checkClean(top.ID)
		}
		r.build(top.ID, "build", nil, "", "nothing changed")
		top.Deps = []int{b.ID, a.ID}
		r.emitProj("one of the duplicates removed")
		r.build(top.ID, "build", nil, "", "scenario")
		r.build(top.ID, "dry", nil, "", "nothing changed")
	})
}

func init() {
	// sessions over a generated file that is a declared source (no explicit dependency on the generator): the link from
	// the file to its generator must survive a Reload (watch mode), and a session that starts from an interrupted state
	engScenarios = append(engScenarios, func(r *engRun) {
		s := r.mkSource("")
		gen := r.mkTarget("", nil, []int{s}, 1, false, 0)
		gs := 1000 + len(r.p.Sources)
		r.p.Sources[gs] = &engSource{ID: gs, Path: gen.Gens[0]}
		use := r.mkTarget("", nil, []int{gs}, 1, false, 4)
		top := r.mkTarget("", []int{use.ID}, nil, 1, false, 0)
		r.emitProj("scenario: sessions with a generated source; a session after an interrupted build")
		r.build(top.ID, "build", nil, "", "scenario")
		lo := map[string]int{r.p.label(gen.ID): gen.ID, r.p.label(use.ID): use.ID, r.p.label(top.ID): top.ID}
		ps := r.p.Paths[r.p.Sources[s].Path]
		lg, lu, lt := r.p.label(gen.ID), r.p.label(use.ID), r.p.label(top.ID)
		run := func(l, mode string, fail ...string) sessStep { return sessStep{Op: "run", Label: l, Mode: mode, Fail: fail} }
		edit := func() sessStep { return sessStep{Op: "write", Path: ps, Content: r.sessLit(r.p.Sources[s].Path)} }
		r.session("generated source, reload", []sessStep{edit(), {Op: "reload"}, run(lt, "build"), edit(), {Op: "reload"}, run(lu, "build"), run(lt, "build")}, lo)
		r.session("generated source, no reload", []sessStep{edit(), run(lu, "build"), {Op: "remove", Path: r.p.Paths[gen.Gens[0]]}, run(lt, "build")}, lo)
		r.session("generated source, reload after a failure", []sessStep{edit(), run(lt, "build", lg), {Op: "reload"}, run(lt, "build", lu), run(lt, "build")}, lo)
	})
	engScenarios = append(engScenarios, func(r *engRun) {
		s := r.mkSource("")
		lib := r.mkTarget("", nil, []int{s}, 1, false, 0)
		app := r.mkTarget("", []int{lib.ID}, nil, 1, false, 4)
		r.emitProj("scenario: a session that starts from the state an interrupted build left")
		r.build(app.ID, "build", nil, "", "scenario")
		// killed in the middle of the body of a forced re-run: the record is valid and marked, the outputs are half-written
		r.build(app.ID, "always", nil, "partial|"+r.p.label(lib.ID), "always-run killed inside the body of the dependency")
		lo := map[string]int{r.p.label(lib.ID): lib.ID, r.p.label(app.ID): app.ID}
		ll, la := r.p.label(lib.ID), r.p.label(app.ID)
		run := func(l, mode string, fail ...string) sessStep { return sessStep{Op: "run", Label: l, Mode: mode, Fail: fail} }
		r.session("after a kill inside a body: the retry fails, then succeeds", []sessStep{run(la, "build", ll), run(la, "build"), run(la, "build")}, lo)
	})
	// a dependency declared twice next to one that goes away
	engScenarios = append(engScenarios, func(r *engRun) {
		s := r.mkSource("")
		s2 := r.mkSource("")
		a := r.mkTarget("", nil, []int{s}, 1, false, 0)
		b := r.mkTarget("", nil, []int{s2}, 1, false, 0)
		t := r.mkTarget("", []int{a.ID, b.ID, a.ID}, []int{s, s2, s}, 1, false, 4)
		top := r.mkTarget("", []int{t.ID}, nil, 1, false, 0)
		r.emitProj("scenario: a dependency declared twice next to one that is removed")
		r.build(top.ID, "build", nil, "", "scenario")
		t.Srcs = []int{s, s}
		r.emitProj("the source between the duplicates is no longer declared")
		o := r.build(top.ID, "build", nil, "", "scenario")
		if o.Kind == "build" && o.OK {
			r.checkClean(top.ID)
		}
		t.Deps = []int{a.ID, a.ID}
		r.emitProj("the dependency between the duplicates is no longer declared")
		o = r.build(top.ID, "build", nil, "", "scenario")
		if o.Kind == "build" && o.OK {
			r.checkClean(top.ID)
		}
		r.build(top.ID, "build", nil, "", "nothing changed")
	})
	// a load that FAILS (a half-edited build file, as watch mode sees on every save) must leave the index alone: a
	// collection through the index afterwards keeps the records of the labels the failing load never reached
	engScenarios = append(engScenarios, func(r *engRun) {
		hasSub := false
		for _, pk := range r.p.Pkgs {
			hasSub = hasSub || pk == "sub"
		}
		if !hasSub {
			r.p.Pkgs = append(r.p.Pkgs, "sub")
			r.p.Pad["sub"] = 0
		}
		s := r.mkSource("sub")
		a := r.mkTarget("sub", nil, []int{s}, 1, false, 0)
		b := r.mkTarget("", []int{a.ID}, nil, 1, false, 4)
		top := r.mkTarget("", []int{b.ID}, nil, 1, false, 0)
		r.emitProj("scenario: a failing load, then a collection through the index")
		r.build(top.ID, "build", nil, "", "scenario")
		for _, broken := range []string{"sub/BUILD.dawn", "BUILD.dawn"} {
			full := filepath.Join(r.root, broken)
			orig, err := os.ReadFile(full)
			if err != nil {
				return
			}
			os.WriteFile(full, append(append([]byte{}, orig...), []byte("\ntarget(name=\n")...), 0644)
			for _, mode := range []string{"load", "build"} {
				rep, _, hung := r.child(mode, r.p.label(top.ID), nil, "")
				if hung || rep == nil {
					r.oracle("C14 load of a tree with a half-edited %s: no report (hung=%v)", broken, hung)
					return
				}
				if rep.LoadErr == "" {
					r.oracle("harness: the half-edited %s loaded", broken)
					return
				}
			}
			r.gc(true)
			os.WriteFile(full, orig, 0644)
			o := r.build(top.ID, "build", nil, "", "the build file is what it was")
			if o.Kind == "build" && o.OK && len(o.Ran) != 0 {
				r.oracle("C14 a collection changed what the next build executes: %v ran although the tree is what was built (after a failing load of %s)", o.Ran, broken)
			}
		}
	})
}

func init() {
	// a preview in a tree where a target has a stale dependency AND its own up-to-date check fails (the directory of its
	// output has become a regular file): the real build fails that target before attempting it and attempts nothing
	// downstream; the preview must say the same
	engScenarios = append(engScenarios, func(r *engRun) {
		s := r.mkSource("")
		g := r.mkTarget("", nil, []int{s}, 1, false, 0)
		g.Gens = []int{r.p.newPath("gendir/sub/g.out0")}
		top := r.mkTarget("", []int{g.ID}, nil, 1, false, 4)
		r.emitProj("scenario: preview and build when a stale target's up-to-date check fails")
		r.build(top.ID, "build", nil, "", "scenario")
		r.editSource(s)
		dir := filepath.Dir(filepath.Join(r.root, r.p.Paths[g.Gens[0]]))
		saved := dir + ".saved"
		if err := os.Rename(dir, saved); err != nil {
			return
		}
		os.WriteFile(dir, []byte("not a directory\n"), 0644)
		lbl := r.p.label(top.ID)
		drep, _, dh := r.child("dry", lbl, nil, "")
		_, r.execPos = readLines(filepath.Join(r.root, ".exec.log"), 0)
		rrep, _, rh := r.child("build", lbl, nil, "")
		ranLines, _ := readLines(filepath.Join(r.root, ".exec.log"), r.execPos)
		os.Remove(dir)
		os.Rename(saved, dir)
		if dh || rh || drep == nil || rrep == nil || drep.LoadErr != "" || rrep.LoadErr != "" {
			r.oracle("C13 preview / build with a failing up-to-date check: no report")
			return
		}
		if drep.HashBefore != drep.HashAfter {
			r.oracle("C13 dry run of %s changed the tree (files or persisted state) although it only failed to check a target", lbl)
		}
		dparts, rparts := splitRuns(drep), splitRuns(rrep)
		want, got := evaluatingOf(rparts[len(rparts)-1]), evaluatingOf(dparts[len(dparts)-1])
		if want != got || (drep.RunErr == "") != (rrep.RunErr == "") {
			r.oracle("C13 dry run of %s predicted [%s] (error: %v) but the real build of the same tree attempted [%s] (error: %v): %s has a stale dependency and its own up-to-date check fails",
				lbl, got, drep.RunErr != "", want, rrep.RunErr != "", r.p.label(g.ID))
		}
		// to the model the real build is one cut short after the source was recorded: nothing ran, nothing was marked
		var ran []int
		for _, l := range ranLines {
			ran = append(ran, r.labelIDAny(l))
		}
		recs, _ := r.records()
		r.h.Ops = append(r.h.Ops, mOp{Op: "build", Label: top.ID, Mode: "build", Note: "the up-to-date check of a target fails",
			Obs: &mObs{Kind: "crash", Ran: ran, Recorded: []int{s}, Recs: recs, Events: map[string][]string{}}})
		o := r.build(top.ID, "build", nil, "", "the directory is back")
		if o.Kind == "build" && o.OK {
			r.checkClean(top.ID)
		}
	})
}
