package diff

// C16, the families about NUMBERS (added to the package through `go test -overlay` next to zz_verif_c16_test.go).
//
// "Equal" in the property is Starlark's equality, and that is not "same type and same parts": an int and a float of
// the same value are equal (1 == 1.0, 0 == 0.0 == -0.0), NaN equals NaN, while True, "1" and 1 are three unequal
// values that print or convert alike.  Every stage of the diff decides equality on its own (DiffDepth before it
// descends, the edit graph search element by element, diffReplacements pair by pair, the dict look-ups of diffMapping
// key by key), so the families below put equal-but-differently-typed and alike-but-unequal values in every position
// in which one of those stages compares two values: as elements of sequences of all relative lengths (exhaustively
// over small alphabets), next to real changes so that deletes and adds are merged into replacements around them, one
// level down (inside element tuples, lists and dicts), as dict keys and dict values, and as the two values themselves.

import (
	"math"
	"math/rand"

	"go.starlark.net/starlark"
)

// c16twin returns a value of another type that Starlark reports equal to v (ok = there is one): int <-> float, the
// two zeros, and the same one level down for tuples.
func c16twin(v starlark.Value) (starlark.Value, bool) {
	switch v := v.(type) {
	case starlark.Int:
		if n, ok := v.Int64(); ok && n > -(1<<50) && n < 1<<50 {
			return starlark.Float(float64(n)), true
		}
	case starlark.Float:
		f := float64(v)
		if f == math.Trunc(f) && math.Abs(f) < 1<<50 {
			if f == 0 && !math.Signbit(f) {
				return starlark.Float(math.Copysign(0, -1)), true
			}
			return starlark.MakeInt64(int64(f)), true
		}
	case starlark.Tuple:
		r := make(starlark.Tuple, len(v))
		any := false
		for i, e := range v {
			if t, ok := c16twin(e); ok {
				r[i], any = t, true
			} else {
				r[i] = e
			}
		}
		return r, any
	}
	return nil, false
}

func c16numbers(g *c16gen, rng *rand.Rand, maxLen, alpha, nRand int) {
	fl := func(f float64) starlark.Value { return starlark.Float(f) }
	negZero := fl(math.Copysign(0, -1))
	str := func(s string) starlark.Value { return starlark.String(s) }
	dict := func(kv ...starlark.Value) starlark.Value {
		d := starlark.NewDict(len(kv) / 2)
		for i := 0; i+1 < len(kv); i += 2 {
			d.SetKey(kv[i], kv[i+1])
		}
		return d
	}

	// (a) every pair of sequences over {1, 1.0, 2, True (, 2.0)}: an equal pair of two types, an unequal number, and a
	// value that is 1 under every conversion without being equal to it
	nums := []starlark.Value{c16int(1), fl(1), c16int(2), starlark.True, fl(2)}
	if alpha < 2 {
		alpha = 2
	}
	if alpha > len(nums) {
		alpha = len(nums)
	}
	g.allPairs("num-tuple", c16seqs(nums[:alpha], maxLen), c16tuple, c16tuple)
	g.allPairs("num-list", c16seqs(nums[:4], maxLen-1), c16list, c16list)
	g.allPairs("num-tuple-list", c16seqs(nums[:3], 2), c16tuple, c16list)

	// (b) the values that are, or look like, zero: 0 == 0.0 == -0.0, and 0.5 / False / None which are not
	zeros := []starlark.Value{c16int(0), fl(0), negZero, fl(0.5), starlark.False}
	g.allPairs("num-zero", c16seqs(zeros, 2), c16tuple, c16tuple)
	// (c) floats that no int equals, and NaN, which Starlark (unlike Go's ==) reports equal to itself
	special := []starlark.Value{fl(math.NaN()), fl(math.Inf(1)), fl(math.Inf(-1)), c16int(1), fl(-1.5)}
	g.allPairs("num-special", c16seqs(special, 2), c16tuple, c16tuple)

	// (d) one level down: elements that are containers of the SAME type holding equal numbers of different types
	// (and dicts whose keys are: {1: 1} == {1.0: 1.0})
	nested := []starlark.Value{
		starlark.Tuple{c16int(1)}, starlark.Tuple{fl(1)}, dict(c16int(1), c16int(1)), dict(fl(1), fl(1)),
		starlark.Tuple{c16int(1), str("a")}, starlark.Tuple{fl(1), str("b")},
	}
	g.allPairs("num-nested", c16seqs(nested, 2), c16tuple, c16tuple)

	// (e) the values themselves (DiffDepth's own first comparison), all pairs
	lits := []starlark.Value{c16int(0), fl(0), negZero, starlark.False, c16int(1), fl(1), starlark.True, fl(0.5), c16int(2),
		fl(math.NaN()), fl(math.Inf(1)), fl(math.Inf(-1)), str("1"), starlark.None,
		starlark.Tuple{c16int(1)}, starlark.Tuple{fl(1)}, dict(c16int(1), c16int(2)), dict(fl(1), fl(2))}
	for _, x := range lits {
		for _, y := range lits {
			g.pair("num-literal", x, y)
		}
	}

	// (f) dicts: the key 1 of the old dict is the key 1.0 of the new one (one key for a dict), next to the key "k"; the
	// values run over {absent, 1, 1.0, 2, (1, "a"), (1.0, "b")}: unchanged-but-retyped, changed, and a tuple in which a
	// retyped element stands next to a changed one
	vals := []starlark.Value{nil, c16int(1), fl(1), c16int(2), starlark.Tuple{c16int(1), str("a")}, starlark.Tuple{fl(1), str("b")}}
	for i0, x0 := range vals {
		for _, x1 := range vals {
			for _, y0 := range vals {
				for i1, y1 := range vals {
					o, n := starlark.NewDict(2), starlark.NewDict(2)
					if x0 != nil {
						o.SetKey(c16int(1), x0)
					}
					if x1 != nil {
						o.SetKey(str("k"), x1)
					}
					set := func(k, v starlark.Value) {
						if v != nil {
							n.SetKey(k, v)
						}
					}
					if (i0+i1)%2 == 0 {
						set(str("k"), y1)
						set(fl(1), y0)
					} else {
						set(fl(1), y0)
						set(str("k"), y1)
					}
					g.pair("num-dict", o, n)
				}
			}
		}
	}

	// (g) seeded: a sequence of constants as a target has them (ints, floats, strings, booleans, None, a nested
	// tuple), a copy with 0-2 local edits, and then every element of the copy that has a twin of another type
	// replaced by it with probability 1/2 -- retyped elements before, between, after and inside the changed runs
	pool := []starlark.Value{c16int(0), c16int(1), c16int(2), c16int(3), fl(2), fl(0.5), str("a"), str("b"), starlark.True,
		starlark.None, starlark.Tuple{c16int(1), str("a")}}
	fresh := []starlark.Value{c16int(7), fl(7), str("z"), starlark.False, fl(1.5), starlark.Tuple{fl(1), str("z")}}
	for i := 0; i < nRand; i++ {
		n := 2 + rng.Intn(9)
		base := make([]starlark.Value, n)
		for j := range base {
			base[j] = pool[rng.Intn(len(pool))]
		}
		edited := append([]starlark.Value{}, base...)
		for e := rng.Intn(3); e > 0; e-- {
			pos := rng.Intn(len(edited) + 1)
			del := rng.Intn(3)
			if pos+del > len(edited) {
				del = len(edited) - pos
			}
			ins := make([]starlark.Value, rng.Intn(3))
			for j := range ins {
				ins[j] = fresh[rng.Intn(len(fresh))]
			}
			edited = append(append(append([]starlark.Value{}, edited[:pos]...), ins...), edited[pos+del:]...)
		}
		for j, v := range edited {
			if t, ok := c16twin(v); ok && rng.Intn(2) == 0 {
				edited[j] = t
			}
		}
		x, y := base, edited
		if rng.Intn(2) == 0 {
			x, y = edited, base
		}
		if i%2 == 0 {
			g.pair("num-retyped-tuple", c16tuple(x), c16tuple(y))
		} else {
			g.pair("num-retyped-list", c16list(x), c16list(y))
		}
	}

	// (h) directed: ONE retyped element at every position of a sequence in which ONE other element changes (every
	// pair of positions), and with one element more or less on either side: the retyped element directly before,
	// directly after and away from the change, in both orientations of the shorter-first swap
	for n := 2; n <= 4; n++ {
		for rt := 0; rt < n; rt++ {
			for ch := 0; ch < n; ch++ {
				if ch == rt {
					continue
				}
				for shape := 0; shape < 3; shape++ {
					x := make([]starlark.Value, n)
					for j := range x {
						x[j] = c16int(j + 1)
					}
					y := append([]starlark.Value{}, x...)
					y[rt], _ = c16twin(x[rt])
					y[ch] = str("c")
					switch shape {
					case 1:
						y = append(y, c16int(9))
					case 2:
						x = append(x, c16int(9))
					}
					for _, mk := range []c16mk{c16tuple, c16list} {
						g.pair("num-directed", mk(x), mk(y))
						g.pair("num-directed", mk(y), mk(x))
					}
				}
			}
		}
	}
}
