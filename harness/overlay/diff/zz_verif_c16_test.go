package diff

// Correspondence harness for C16 (added to the package through `go test -overlay`; never committed to /repo).
// Writes to $VERIF_OUT:
//   ROUTESIZE \t <defaultRouteSize>
//   D \t <class> \t <a> \t <b> \t <result>       one line per case; values and diffs in the term language of
//                                                 /verif/coq/Diff/Run.v (vI vS vB vT vL vM / DL DS DM / EC ED EA ER / KD KR KA)
//                                                 numbers: vTrue vFalse, (vF f) with f = fNaN fPInf fNInf fNZ (fH n) (fHn n) = +-n/2
//   ORACLE \t <name> \t <a> \t <b> \t <detail>   one line per direct failure of the property on the implementation
//   BIG \t <name> \t <ok|fail detail>            route-table exhaustion cases (oracle only)

import (
	"bufio"
	"fmt"
	"math"
	"math/rand"
	"os"
	"strconv"
	"strings"
	"testing"

	"go.starlark.net/starlark"
)

func c16val(v starlark.Value) string {
	switch v := v.(type) {
	case starlark.NoneType:
		return "vN"
	case starlark.Bool:
		if v {
			return "vTrue"
		}
		return "vFalse"
	case starlark.Int:
		n, _ := v.Int64()
		return fmt.Sprintf("(vI %d)", n)
	case starlark.Float:
		// the floats of the model: NaN, the infinities, -0.0 and the multiples of one half (exact)
		f := float64(v)
		switch t := 2 * f; {
		case f != f:
			return "(vF fNaN)"
		case math.IsInf(f, 1):
			return "(vF fPInf)"
		case math.IsInf(f, -1):
			return "(vF fNInf)"
		case f == 0 && math.Signbit(f):
			return "(vF fNZ)"
		case t == math.Trunc(t) && math.Abs(t) < 1<<52:
			if t < 0 {
				return fmt.Sprintf("(vF (fHn %d))", int64(-t))
			}
			return fmt.Sprintf("(vF (fH %d))", int64(t))
		}
		return "<?float>"
	case starlark.String:
		return "(vS " + c16bytes(string(v)) + ")"
	case starlark.Bytes:
		return "(vB " + c16bytes(string(v)) + ")"
	case starlark.Tuple:
		parts := make([]string, len(v))
		for i, e := range v {
			parts[i] = c16val(e)
		}
		return "(vT [" + strings.Join(parts, ";") + "])"
	case *starlark.List:
		parts := make([]string, v.Len())
		for i := range parts {
			parts[i] = c16val(v.Index(i))
		}
		return "(vL [" + strings.Join(parts, ";") + "])"
	case *starlark.Dict:
		var parts []string
		for _, it := range v.Items() {
			parts = append(parts, "("+c16val(it[0])+","+c16val(it[1])+")")
		}
		return "(vM [" + strings.Join(parts, ";") + "])"
	case ValueDiff:
		return "<diff>"
	}
	return "<?" + v.Type() + ">"
}

func c16bytes(s string) string {
	parts := make([]string, len(s))
	for i := 0; i < len(s); i++ {
		parts[i] = strconv.Itoa(int(s[i]))
	}
	return "[" + strings.Join(parts, ";") + "]"
}

func c16diff(d ValueDiff) string {
	switch d := d.(type) {
	case *LiteralDiff:
		return "(DL " + c16val(d.Old()) + " " + c16val(d.New()) + ")"
	case *SliceableDiff:
		var parts []string
		for _, ev := range d.Edits() {
			e := ev.(*Edit)
			switch e.Kind() {
			case EditKindCommon:
				parts = append(parts, "(EC "+c16val(e.Sliceable)+")")
			case EditKindDelete:
				parts = append(parts, "(ED "+c16val(e.Sliceable)+")")
			case EditKindAdd:
				parts = append(parts, "(EA "+c16val(e.Sliceable)+")")
			case EditKindReplace:
				var ds []string
				for i := 0; i < e.Len(); i++ {
					if nd, ok := e.Index(i).(ValueDiff); ok {
						ds = append(ds, "(Y "+c16diff(nd)+")")
					} else if e.Index(i) == starlark.None {
						ds = append(ds, "X")
					} else {
						ds = append(ds, "<?>")
					}
				}
				parts = append(parts, "(ER ["+strings.Join(ds, ";")+"])")
			default:
				parts = append(parts, "<?kind>")
			}
		}
		return "(DS " + c16val(d.Old()) + " " + c16val(d.New()) + " [" + strings.Join(parts, ";") + "])"
	case *MappingDiff:
		var parts []string
		it := d.Edits().Iterate()
		defer it.Done()
		var k starlark.Value
		for it.Next(&k) {
			ev, _, _ := d.Edits().Get(k)
			e := ev.(*Edit)
			var me string
			switch {
			case e.Len() != 1:
				me = "<?len>"
			case e.Kind() == EditKindDelete:
				me = "(KD " + c16val(e.Index(0)) + ")"
			case e.Kind() == EditKindAdd:
				me = "(KA " + c16val(e.Index(0)) + ")"
			case e.Kind() == EditKindReplace:
				if nd, ok := e.Index(0).(ValueDiff); ok {
					me = "(KR " + c16diff(nd) + ")"
				} else {
					me = "<?>"
				}
			default:
				me = "<?kind>"
			}
			parts = append(parts, "("+c16val(k)+","+me+")")
		}
		return "(DM " + c16val(d.Old()) + " " + c16val(d.New()) + " [" + strings.Join(parts, ";") + "])"
	}
	return "<?diff>"
}

func c16run(a, b starlark.Value) (d ValueDiff, err error, panicked string) {
	defer func() {
		if x := recover(); x != nil {
			panicked = fmt.Sprint(x)
		}
	}()
	d, err = Diff(a, b)
	return
}

func c16elems(v starlark.Value) []starlark.Value {
	s := v.(starlark.Sliceable)
	r := make([]starlark.Value, s.Len())
	for i := range r {
		r[i] = s.Index(i)
	}
	return r
}

func c16stringlike(v starlark.Value) bool {
	switch v.(type) {
	case starlark.String, starlark.Bytes:
		return true
	}
	return false
}

func c16sameSeq(got []starlark.Value, want []starlark.Value, exact bool) bool {
	if len(got) != len(want) {
		return false
	}
	for i := range got {
		if exact {
			if c16val(got[i]) != c16val(want[i]) {
				return false
			}
		} else if eq, err := starlark.Equal(got[i], want[i]); err != nil {
			// too deep for Equal: identical renderings are equal values
			if c16val(got[i]) != c16val(want[i]) {
				return false
			}
		} else if !eq {
			return false
		}
	}
	return true
}

// c16oracle checks the property directly on a diff result; returns the names of the failed clauses.
func c16oracle(d ValueDiff, a, b starlark.Value) (fails []string) {
	defer func() {
		if x := recover(); x != nil {
			fails = append(fails, "oracle-panic:"+fmt.Sprint(x))
		}
	}()
	eq, err := starlark.Equal(a, b)
	if err != nil {
		return nil
	}
	isNil := d == nil || c16isNilPtr(d)
	if isNil != eq {
		return []string{"empty-iff-equal"}
	}
	if isNil {
		return nil
	}
	if c16val(d.Old()) != c16val(a) {
		fails = append(fails, "old-side")
	}
	if c16val(d.New()) != c16val(b) {
		fails = append(fails, "new-side")
	}
	_, aSl := a.(starlark.Sliceable)
	_, bSl := b.(starlark.Sliceable)
	_, aMap := a.(starlark.IterableMapping)
	_, bMap := b.(starlark.IterableMapping)
	switch d := d.(type) {
	case *SliceableDiff:
		if !aSl || !bSl {
			return append(fails, "kind-slice")
		}
		var olds, news []starlark.Value
		for _, ev := range d.Edits() {
			e := ev.(*Edit)
			switch e.Kind() {
			case EditKindCommon:
				olds = append(olds, c16elems(e.Sliceable)...)
				news = append(news, c16elems(e.Sliceable)...)
			case EditKindDelete:
				olds = append(olds, c16elems(e.Sliceable)...)
			case EditKindAdd:
				news = append(news, c16elems(e.Sliceable)...)
			case EditKindReplace:
				for i := 0; i < e.Len(); i++ {
					nd, ok := e.Index(i).(ValueDiff)
					if !ok {
						fails = append(fails, "replace-without-sides")
						continue
					}
					if c16stringlike(a) && c16stringlike(b) {
						olds = append(olds, c16elems(nd.Old())...)
						news = append(news, c16elems(nd.New())...)
					} else {
						olds = append(olds, nd.Old())
						news = append(news, nd.New())
						for _, f := range c16oracle(nd, nd.Old(), nd.New()) {
							fails = append(fails, "nested:"+f)
						}
					}
				}
			default:
				fails = append(fails, "edit-kind")
			}
		}
		if !c16sameSeq(olds, c16elems(a), true) {
			fails = append(fails, "seq-old-reconstruction")
		}
		if !c16sameSeq(news, c16elems(b), false) {
			fails = append(fails, "seq-new-reconstruction")
		}
	case *MappingDiff:
		if !aMap || !bMap || (aSl && bSl) {
			return append(fails, "kind-mapping")
		}
		am, bm := a.(starlark.IterableMapping), b.(starlark.IterableMapping)
		want := 0
		check := func(k starlark.Value) {
			av, inA, _ := am.Get(k)
			bv, inB, _ := bm.Get(k)
			ev, has, _ := d.Edits().Get(k)
			var e *Edit
			if has {
				e = ev.(*Edit)
			}
			switch {
			case inA && !inB:
				want++
				if !has || e.Kind() != EditKindDelete || e.Len() != 1 || c16val(e.Index(0)) != c16val(av) {
					fails = append(fails, "map-removed-key")
				}
			case !inA && inB:
				want++
				if !has || e.Kind() != EditKindAdd || e.Len() != 1 || c16val(e.Index(0)) != c16val(bv) {
					fails = append(fails, "map-added-key")
				}
			default:
				same, _ := starlark.Equal(av, bv)
				if same {
					if has {
						fails = append(fails, "map-unchanged-key-has-edit")
					}
					return
				}
				want++
				if !has || e.Kind() != EditKindReplace || e.Len() != 1 {
					fails = append(fails, "map-changed-key")
					return
				}
				nd, ok := e.Index(0).(ValueDiff)
				if !ok || c16val(nd.Old()) != c16val(av) || c16val(nd.New()) != c16val(bv) {
					fails = append(fails, "map-changed-key-sides")
					return
				}
				for _, f := range c16oracle(nd, av, bv) {
					fails = append(fails, "nested:"+f)
				}
			}
		}
		seen := starlark.NewDict(0) // keys as a dict sees them: 1 and 1.0 are ONE key
		for _, m := range []starlark.IterableMapping{am, bm} {
			it := m.Iterate()
			var k starlark.Value
			for it.Next(&k) {
				if _, found, _ := seen.Get(k); !found {
					seen.SetKey(k, starlark.None)
					check(k)
				}
			}
			it.Done()
		}
		n := 0
		it := d.Edits().Iterate()
		var k starlark.Value
		for it.Next(&k) {
			n++
		}
		it.Done()
		if n != want {
			fails = append(fails, "map-edit-count")
		}
	case *LiteralDiff:
		if (aSl && bSl) || (aMap && bMap) {
			fails = append(fails, "kind-literal")
		}
	default:
		fails = append(fails, "kind-unknown")
	}
	return fails
}

func c16isNilPtr(d ValueDiff) bool {
	switch d := d.(type) {
	case *LiteralDiff:
		return d == nil
	case *SliceableDiff:
		return d == nil
	case *MappingDiff:
		return d == nil
	}
	return false
}

type c16gen struct {
	w       *bufio.Writer
	cases   int
	oracles int
}

func (g *c16gen) pair(class string, a, b starlark.Value) {
	g.cases++
	d, err, p := c16run(a, b)
	var res string
	switch {
	case p != "":
		res = "RPanic"
	case err != nil:
		res = "RErr"
	case d == nil || c16isNilPtr(d):
		res = "(ROk X)"
	default:
		res = "(ROk (Y " + c16diff(d) + "))"
	}
	fmt.Fprintf(g.w, "D\t%s\t%s\t%s\t%s\n", class, c16val(a), c16val(b), res)
	if p != "" {
		g.oracles++
		fmt.Fprintf(g.w, "ORACLE\tpanic\t%s\t%s\t%s\n", c16val(a), c16val(b), strings.ReplaceAll(p, "\n", " "))
		return
	}
	if err != nil {
		return
	}
	for _, f := range c16oracle(d, a, b) {
		g.oracles++
		fmt.Fprintf(g.w, "ORACLE\t%s\t%s\t%s\t%s\n", f, c16val(a), c16val(b), res)
	}
}

// all sequences over alpha of length 0..maxLen
func c16seqs(alpha []starlark.Value, maxLen int) [][]starlark.Value {
	res := [][]starlark.Value{{}}
	prev := [][]starlark.Value{{}}
	for l := 1; l <= maxLen; l++ {
		var cur [][]starlark.Value
		for _, p := range prev {
			for _, x := range alpha {
				s := append(append([]starlark.Value{}, p...), x)
				cur = append(cur, s)
			}
		}
		res = append(res, cur...)
		prev = cur
	}
	return res
}

type c16mk func(elems []starlark.Value) starlark.Value

func c16tuple(e []starlark.Value) starlark.Value { return starlark.Tuple(append([]starlark.Value{}, e...)) }
func c16list(e []starlark.Value) starlark.Value {
	return starlark.NewList(append([]starlark.Value{}, e...))
}
func c16string(e []starlark.Value) starlark.Value {
	var sb strings.Builder
	for _, x := range e {
		n, _ := x.(starlark.Int).Int64()
		sb.WriteByte(byte('a' + n))
	}
	return starlark.String(sb.String())
}
func c16bytesv(e []starlark.Value) starlark.Value {
	return starlark.Bytes(string(c16string(e).(starlark.String)))
}

func (g *c16gen) allPairs(class string, seqs [][]starlark.Value, mka, mkb c16mk) {
	for _, x := range seqs {
		for _, y := range seqs {
			g.pair(class, mka(x), mkb(y))
		}
	}
}

func c16int(i int) starlark.Value { return starlark.MakeInt(i) }

func TestVerifC16(t *testing.T) {
	outPath := os.Getenv("VERIF_OUT")
	if outPath == "" {
		t.Skip("VERIF_OUT not set")
	}
	geti := func(name string, def int) int {
		if v, err := strconv.Atoi(os.Getenv(name)); err == nil {
			return v
		}
		return def
	}
	maxTuple := geti("VERIF_MAXLEN", 4)
	maxOther := geti("VERIF_MAXLEN_OTHER", 3)
	maxNested := geti("VERIF_MAXLEN_NESTED", 2)
	dictKeys := geti("VERIF_DICTKEYS", 3)
	nRand := geti("VERIF_NRAND", 200)
	big := geti("VERIF_BIG", 1)
	seed, _ := strconv.ParseInt(os.Getenv("VERIF_SEED"), 10, 64)
	rng := rand.New(rand.NewSource(seed))

	f, err := os.Create(outPath)
	if err != nil {
		t.Fatal(err)
	}
	defer f.Close()
	g := &c16gen{w: bufio.NewWriterSize(f, 1<<20)}
	defer g.w.Flush()
	fmt.Fprintf(g.w, "ROUTESIZE\t%d\n", defaultRouteSize)

	abc := []starlark.Value{c16int(0), c16int(1), c16int(2)}

	// 1. flat sequences, every pair
	g.allPairs("tuple", c16seqs(abc, maxTuple), c16tuple, c16tuple)
	other := c16seqs(abc, maxOther)
	g.allPairs("list", other, c16list, c16list)
	g.allPairs("string", other, c16string, c16string)
	g.allPairs("bytes", other, c16bytesv, c16bytesv)
	// mixed containers
	mixed := c16seqs(abc, 2)
	g.allPairs("tuple-list", mixed, c16tuple, c16list)
	g.allPairs("list-tuple", mixed, c16list, c16tuple)
	g.allPairs("string-bytes", mixed, c16string, c16bytesv)
	strElems := []starlark.Value{starlark.String("a"), starlark.String("b"), starlark.String("ab")}
	for _, x := range mixed {
		for _, y := range c16seqs(strElems, 2) {
			g.pair("string-tuple", c16string(x), c16tuple(y))
			g.pair("tuple-string", c16tuple(y), c16string(x))
		}
	}

	// 2. nested one level: tuples of tuples, and tuples mixing ints, strings and tuples
	nestedAlpha := []starlark.Value{
		starlark.Tuple{c16int(0), c16int(1)}, starlark.Tuple{c16int(0), c16int(2)}, starlark.Tuple{c16int(1)},
	}
	g.allPairs("nested", c16seqs(nestedAlpha, maxNested+1), c16tuple, c16tuple)
	mixAlpha := []starlark.Value{
		c16int(0), starlark.String("ab"), starlark.String("ac"), starlark.Tuple{c16int(0), c16int(1)},
		starlark.Tuple{c16int(0), c16int(2)}, starlark.NewList([]starlark.Value{c16int(0)}), starlark.None,
	}
	mixLen := maxNested
	if mixLen > 2 {
		mixLen = 2
	}
	g.allPairs("nested-mixed", c16seqs(mixAlpha, mixLen), c16tuple, c16tuple)
	g.allPairs("nested-mixed-list", c16seqs(mixAlpha, mixLen), c16list, c16list)
	for i := 0; i < nRand; i++ {
		mkr := func() []starlark.Value {
			r := make([]starlark.Value, rng.Intn(6))
			for j := range r {
				r[j] = mixAlpha[rng.Intn(len(mixAlpha))]
			}
			return r
		}
		g.pair("nested-mixed-random", c16tuple(mkr()), c16tuple(mkr()))
	}

	// 3. dicts: every assignment of {absent, 1, 2, (0,1)} to the keys; old in key order, new in reverse order
	keys := []starlark.Value{c16int(1), starlark.String("k"), starlark.Tuple{c16int(0)}, c16int(3)}[:dictKeys]
	vals := []starlark.Value{nil, c16int(1), c16int(2), starlark.Tuple{c16int(0), c16int(1)}}
	var assigns [][]starlark.Value
	var rec func(cur []starlark.Value)
	rec = func(cur []starlark.Value) {
		if len(cur) == len(keys) {
			assigns = append(assigns, append([]starlark.Value{}, cur...))
			return
		}
		for _, v := range vals {
			rec(append(cur, v))
		}
	}
	rec(nil)
	mkDict := func(as []starlark.Value, reverse bool) starlark.Value {
		d := starlark.NewDict(len(as))
		for i := range as {
			j := i
			if reverse {
				j = len(as) - 1 - i
			}
			if as[j] != nil {
				d.SetKey(keys[j], as[j])
			}
		}
		return d
	}
	for _, x := range assigns {
		for _, y := range assigns {
			g.pair("dict", mkDict(x, false), mkDict(y, true))
		}
	}
	// two keys, richer values (nested tuples and nested dicts)
	d1, d2 := starlark.NewDict(1), starlark.NewDict(1)
	d1.SetKey(c16int(9), c16int(1))
	d2.SetKey(c16int(9), c16int(2))
	rich := []starlark.Value{nil, c16int(1), c16int(2), starlark.Tuple{c16int(0), c16int(1)},
		starlark.Tuple{c16int(0), c16int(2)}, d1, d2, starlark.String("ab"), starlark.String("b")}
	for i0, x0 := range rich {
		for _, x1 := range rich {
			for _, y0 := range rich {
				for i1, y1 := range rich {
					mk := func(v0, v1 starlark.Value, rev bool) starlark.Value {
						d := starlark.NewDict(2)
						ks := []starlark.Value{c16int(1), starlark.String("k")}
						vs := []starlark.Value{v0, v1}
						for i := 0; i < 2; i++ {
							j := i
							if rev {
								j = 1 - i
							}
							if vs[j] != nil {
								d.SetKey(ks[j], vs[j])
							}
						}
						return d
					}
					g.pair("dict-rich", mk(x0, x1, false), mk(y0, y1, (i0+i1)%2 == 0))
				}
			}
		}
	}

	// 3b. present-or-absent is not a matter of the value: every assignment of {absent, None, 1 (, 0)} to three keys, one
	// of which is None itself.  None is what Mapping.Get hands back for a key that is NOT there, so a key bound to None
	// (kept, changed to/from None, removed, added) is the family in which "present" and "value is not None" part.
	// Each pair is also diffed one level down: as the value of a key of an outer dict (nested mapping diff), and as the
	// only element of a tuple (mapping diff inside a replace edit).
	{
		nkeys := []starlark.Value{starlark.None, starlark.String("k"), c16int(1)}
		nvals := []starlark.Value{nil, starlark.None, c16int(1)}
		if geti("VERIF_NONEVALS", 3) > 3 {
			nvals = append(nvals, c16int(0))
		}
		var nassigns [][]starlark.Value
		var nrec func(cur []starlark.Value)
		nrec = func(cur []starlark.Value) {
			if len(cur) == len(nkeys) {
				nassigns = append(nassigns, append([]starlark.Value{}, cur...))
				return
			}
			for _, v := range nvals {
				nrec(append(cur, v))
			}
		}
		nrec(nil)
		mkN := func(as []starlark.Value, reverse bool) *starlark.Dict {
			d := starlark.NewDict(len(as))
			for i := range as {
				j := i
				if reverse {
					j = len(as) - 1 - i
				}
				if as[j] != nil {
					d.SetKey(nkeys[j], as[j])
				}
			}
			return d
		}
		for xi, x := range nassigns {
			for yi, y := range nassigns {
				rev := (xi+yi)%2 == 0
				g.pair("dict-none", mkN(x, false), mkN(y, rev))
				o1, o2 := starlark.NewDict(2), starlark.NewDict(2)
				o1.SetKey(starlark.String("same"), starlark.None)
				o1.SetKey(starlark.String("env"), mkN(x, false))
				o2.SetKey(starlark.String("same"), starlark.None)
				o2.SetKey(starlark.String("env"), mkN(y, rev))
				g.pair("dict-none-nested", o1, o2)
				g.pair("dict-none-in-tuple", starlark.Tuple{mkN(x, false)}, starlark.Tuple{mkN(y, rev)})
			}
		}
		// one key going from any to any of the values that read as "nothing" (None, 0, "", b"", (), [], {}) or absent,
		// next to a second key that is unchanged / changed / added / removed
		zero := func() []starlark.Value {
			return []starlark.Value{nil, starlark.None, c16int(0), starlark.String(""), starlark.Bytes(""), starlark.Tuple{},
				starlark.NewList(nil), starlark.NewDict(0), c16int(1)}
		}
		ctx := [][2]starlark.Value{{c16int(1), c16int(1)}, {c16int(1), c16int(2)}, {nil, c16int(1)}, {c16int(1), nil}, {starlark.None, starlark.None}}
		for i := range zero() {
			for j := range zero() {
				for ci, c := range ctx {
					o, n := starlark.NewDict(2), starlark.NewDict(2)
					set := func(d *starlark.Dict, k string, v starlark.Value) {
						if v != nil {
							d.SetKey(starlark.String(k), v)
						}
					}
					if ci%2 == 0 {
						set(o, "z", zero()[i])
						set(o, "o", c[0])
						set(n, "o", c[1])
						set(n, "z", zero()[j])
					} else {
						set(o, "o", c[0])
						set(o, "z", zero()[i])
						set(n, "z", zero()[j])
						set(n, "o", c[1])
					}
					g.pair("dict-zero", o, n)
				}
			}
		}
	}

	// 4. different kinds (literal diffs), and depth limits
	lits := []starlark.Value{starlark.None, c16int(0), c16int(1), starlark.String(""), starlark.String("a"),
		starlark.Bytes("a"), starlark.Tuple{}, starlark.Tuple{c16int(0)}, starlark.NewList(nil), starlark.NewDict(0), d1}
	for _, x := range lits {
		for _, y := range lits {
			g.pair("literal", x, y)
		}
	}
	nest := func(k int, leaf starlark.Value, list bool) starlark.Value {
		v := leaf
		for i := 0; i < k; i++ {
			if list {
				v = starlark.NewList([]starlark.Value{v})
			} else {
				v = starlark.Tuple{v}
			}
		}
		return v
	}
	for k := 7; k <= 12; k++ {
		g.pair("depth", nest(k, c16int(1), false), nest(k, c16int(2), false))
		g.pair("depth", nest(k, c16int(1), true), nest(k, c16int(2), true))
		g.pair("depth", nest(k, c16int(1), false), nest(k, c16int(1), false))
		g.pair("depth", starlark.Tuple{c16int(0), nest(k, c16int(1), false)}, starlark.Tuple{c16int(1), nest(k, c16int(2), false)})
		g.pair("depth", nest(k, starlark.String("ab"), false), nest(k, starlark.String("ac"), false))
		dd1, dd2 := starlark.NewDict(1), starlark.NewDict(1)
		dd1.SetKey(c16int(1), nest(k, c16int(1), false))
		dd2.SetKey(c16int(1), nest(k, c16int(2), false))
		g.pair("depth", dd1, dd2)
	}

	// 5. longer random sequences (seeded)
	for i := 0; i < nRand; i++ {
		na, nb := rng.Intn(13), rng.Intn(13)
		al := 2 + rng.Intn(3)
		mkr := func(n int) []starlark.Value {
			r := make([]starlark.Value, n)
			for j := range r {
				r[j] = c16int(rng.Intn(al))
			}
			return r
		}
		x, y := mkr(na), mkr(nb)
		switch i % 3 {
		case 0:
			g.pair("random-tuple", c16tuple(x), c16tuple(y))
		case 1:
			g.pair("random-string", c16string(x), c16string(y))
		default:
			g.pair("random-list", c16list(x), c16list(y))
		}
	}

	// 5b. edited sequences: a base sequence and a copy with 1-3 local edits (runs deleted, inserted, or replaced by a run
	// of another length), as strings, bytes, tuples and lists -- scripts with replace edits next to adds/deletes
	for i := 0; i < nRand; i++ {
		n := 4 + rng.Intn(11)
		base := make([]starlark.Value, n)
		for j := range base {
			base[j] = c16int(rng.Intn(4))
		}
		edited := append([]starlark.Value{}, base...)
		for e := 1 + rng.Intn(3); e > 0; e-- {
			pos := rng.Intn(len(edited) + 1)
			del := rng.Intn(4)
			if pos+del > len(edited) {
				del = len(edited) - pos
			}
			ins := make([]starlark.Value, rng.Intn(5))
			for j := range ins {
				ins[j] = c16int(4 + rng.Intn(3)) // letters the base does not use
			}
			edited = append(append(append([]starlark.Value{}, edited[:pos]...), ins...), edited[pos+del:]...)
		}
		x, y := base, edited
		if rng.Intn(2) == 0 {
			x, y = edited, base
		}
		switch i % 4 {
		case 0:
			g.pair("edited-string", c16string(x), c16string(y))
		case 1:
			g.pair("edited-bytes", c16bytesv(x), c16bytesv(y))
		case 2:
			g.pair("edited-tuple", c16tuple(x), c16tuple(y))
		default:
			g.pair("edited-list", c16list(x), c16list(y))
		}
	}

	// 5c. directed: a changed run that grows locally (d elements replaced by a > d) while the whole sequence shrinks or
	// stays (extra tail deleted), and the mirror images: replace edits adjacent to adds and deletes, in both orientations
	mkseq := func(letters ...int) []starlark.Value {
		r := make([]starlark.Value, len(letters))
		for i, l := range letters {
			r[i] = c16int(l)
		}
		return r
	}
	for d := 1; d <= 3; d++ {
		for a := 1; a <= 5; a++ {
			for extra := 0; extra <= 4; extra += 2 {
				var x, y []int
				x = append(x, 0, 1)
				y = append(y, 0, 1)
				for i := 0; i < d; i++ {
					x = append(x, 2)
				}
				for i := 0; i < a; i++ {
					y = append(y, 4+i%2)
				}
				x = append(x, 3, 0)
				y = append(y, 3, 0)
				for i := 0; i < extra; i++ {
					x = append(x, 1+i%3)
				}
				for _, mk := range []c16mk{c16string, c16bytesv, c16tuple, c16list} {
					g.pair("directed-grow", mk(mkseq(x...)), mk(mkseq(y...)))
					g.pair("directed-grow", mk(mkseq(y...)), mk(mkseq(x...)))
				}
			}
		}
	}

	// 5d. numbers: elements that are equal without being of one type (1 == 1.0), and unequal ones that look alike
	c16numbers(g, rng, geti("VERIF_NUMLEN", 3), geti("VERIF_NUMALPHA", 4), nRand)

	// 6. route-table exhaustion (more than defaultRouteSize snake points): oracle only
	if big > 0 {
		for _, sh := range [][2]int{{1500, 1500}, {1300, 1700}, {1700, 1450}} {
			x := make([]starlark.Value, sh[0])
			y := make([]starlark.Value, sh[1])
			for j := range x {
				x[j] = c16int(j % 7)
			}
			for j := range y {
				y[j] = c16int(7 + j%5)
			}
			// a few common elements so that the script is not a single replace
			for j := 0; j < len(x) && j < len(y); j += 97 {
				y[j] = x[j]
			}
			a, b := c16tuple(x), c16tuple(y)
			d, err, p := c16run(a, b)
			// did compose really go round its outer loop again?  (same set-up as diffSlice; ox/oy are only
			// written by recordSeq when it gives up on a partial path)
			retried := func() (r bool) {
				defer func() { recover() }()
				aa, bb := a.(starlark.Sliceable), b.(starlark.Sliceable)
				mm, nn, rev := aa.Len(), bb.Len(), false
				if mm >= nn {
					aa, bb, mm, nn, rev = bb, aa, nn, mm, true
				}
				dd := differ{a: aa, b: bb, m: mm, n: nn, reverse: rev, depth: starlark.CompareLimit - 1, routeSize: defaultRouteSize}
				dd.compose()
				return dd.ox != 0 || dd.oy != 0
			}()
			name := fmt.Sprintf("%dx%d retried=%v", sh[0], sh[1], retried)
			switch {
			case p != "":
				fmt.Fprintf(g.w, "BIG\t%s\tpanic %s\n", name, strings.ReplaceAll(p, "\n", " "))
			case err != nil:
				fmt.Fprintf(g.w, "BIG\t%s\terror %v\n", name, err)
			default:
				fails := c16oracle(d, a, b)
				if len(fails) == 0 {
					fmt.Fprintf(g.w, "BIG\t%s\tok\n", name)
				} else {
					fmt.Fprintf(g.w, "BIG\t%s\tfail %s\n", name, strings.Join(fails, ","))
				}
			}
		}
	}
	// 7. crafted: two sequences, all elements distinct, long enough to exhaust the route table once; one extra
	// pair of equal elements placed so that the delete+add -> replace merge pairs them across the boundary of
	// the two search rounds (old[1] with the second element of new that the second round adds).
	if big > 0 {
		m, n := 1500, 1700
		mk := func(zj int) (starlark.Value, starlark.Value) {
			x := make([]starlark.Value, m)
			y := make([]starlark.Value, n)
			for i := range x {
				x[i] = c16int(i)
			}
			for j := range y {
				y[j] = c16int(100000 + j)
			}
			if zj >= 0 {
				x[1] = starlark.String("Z")
				y[zj] = starlark.String("Z")
			}
			return c16tuple(x), c16tuple(y)
		}
		func() {
			defer func() {
				if x := recover(); x != nil {
					fmt.Fprintf(g.w, "CRAFTED\tsetup\tpanic %v\n", x)
				}
			}()
			a, b := mk(-1)
			dd := differ{a: a.(starlark.Sliceable), b: b.(starlark.Sliceable), m: m, n: n, reverse: false,
				depth: starlark.CompareLimit - 1, routeSize: defaultRouteSize}
			dd.compose()
			if dd.ox == 0 && dd.oy == 0 {
				fmt.Fprintf(g.w, "CRAFTED\tsetup\tno route-table exhaustion at %dx%d\n", m, n)
				return
			}
			// first round: adds new[0:cut), deletes old[0:..); the second round starts adding at new[cut]
			cut := dd.edits[0].values.Len()
			if dd.edits[0].kind != editKindAdd || cut+1 >= n {
				fmt.Fprintf(g.w, "CRAFTED\tsetup\tunexpected first-round shape\n")
				return
			}
			a, b = mk(cut + 1)
			d, err, p := c16run(a, b)
			desc := fmt.Sprintf("old = (0..%d) with old[1]=\"Z\"; new = (100000..%d) with new[%d]=\"Z\"", m-1, 100000+n-1, cut+1)
			switch {
			case p != "":
				fmt.Fprintf(g.w, "CRAFTED\t%s\tpanic %s\n", desc, p)
			case err != nil:
				fmt.Fprintf(g.w, "CRAFTED\t%s\terror %v\n", desc, err)
			default:
				fails := c16oracle(d, a, b)
				shape := ""
				if sd, ok := d.(*SliceableDiff); ok {
					for _, ev := range sd.Edits() {
						e := ev.(*Edit)
						shape += fmt.Sprintf("%s(%d) ", string(e.Kind()), e.Len())
					}
				}
				if len(fails) == 0 {
					fmt.Fprintf(g.w, "CRAFTED\t%s\tok\t%s\n", desc, shape)
				} else {
					fmt.Fprintf(g.w, "CRAFTED\t%s\tfail %s\t%s\n", desc, strings.Join(fails, ","), shape)
				}
			}
		}()
	}
	t.Logf("C16: %d cases, %d oracle failures", g.cases, g.oracles)
}
