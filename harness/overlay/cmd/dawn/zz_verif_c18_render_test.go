package main

// C18, glue around the engine: the four CLI renderers (line, status, JSON, DOT) are driven by the event streams of real
// loads and builds (successful, failing body, missing dependencies, dry run, always-run, killed-by-timeout never) of
// generated projects. Oracles: no renderer panics on any stream the engine produces; the JSON renderer's output is a
// sequence of well-formed JSON objects with one object per event; the status renderer's final frame lists every target
// that changed or failed.

import (
	"bytes"
	"encoding/json"
	"fmt"
	"io"
	"os"
	"path/filepath"
	"strings"
	"sync"
	"testing"
	"time"

	"github.com/pgavlin/dawn"
	"github.com/pgavlin/dawn/diff"
	"github.com/pgavlin/dawn/label"
	starlark_os "github.com/pgavlin/dawn/lib/os"
	starlark_sh "github.com/pgavlin/dawn/lib/sh"
	"go.starlark.net/starlark"
)

type nopWC struct{ io.Writer }

func (nopWC) Close() error { return nil }

// fanout forwards every event to all renderers, catching panics per renderer
type fanout struct {
	m      sync.Mutex
	rs     map[string]renderer
	panics []string
	count  int
}

func (f *fanout) each(kind string, fn func(r renderer)) {
	f.m.Lock()
	defer f.m.Unlock()
	f.count++
	for name, r := range f.rs {
		func() {
			defer func() {
				if x := recover(); x != nil {
					f.panics = append(f.panics, fmt.Sprintf("%s renderer panicked on %s: %v", name, kind, x))
				}
			}()
			fn(r)
		}()
	}
}

func (f *fanout) Print(l *label.Label, line string) {
	f.each("Print "+l.String(), func(r renderer) { r.Print(l, line) })
}
func (f *fanout) RequirementLoading(l *label.Label, v string) {
	f.each("RequirementLoading", func(r renderer) { r.RequirementLoading(l, v) })
}
func (f *fanout) RequirementLoaded(l *label.Label, v string) {
	f.each("RequirementLoaded", func(r renderer) { r.RequirementLoaded(l, v) })
}
func (f *fanout) RequirementLoadFailed(l *label.Label, v string, err error) {
	f.each("RequirementLoadFailed", func(r renderer) { r.RequirementLoadFailed(l, v, err) })
}
func (f *fanout) ModuleLoading(l *label.Label) {
	f.each("ModuleLoading", func(r renderer) { r.ModuleLoading(l) })
}
func (f *fanout) ModuleLoaded(l *label.Label) {
	f.each("ModuleLoaded", func(r renderer) { r.ModuleLoaded(l) })
}
func (f *fanout) ModuleLoadFailed(l *label.Label, err error) {
	f.each("ModuleLoadFailed", func(r renderer) { r.ModuleLoadFailed(l, err) })
}
func (f *fanout) LoadDone(err error) { f.each("LoadDone", func(r renderer) { r.LoadDone(err) }) }
func (f *fanout) TargetUpToDate(l *label.Label) {
	f.each("TargetUpToDate", func(r renderer) { r.TargetUpToDate(l) })
}
func (f *fanout) TargetEvaluating(l *label.Label, reason string, d diff.ValueDiff) {
	f.each("TargetEvaluating "+l.String(), func(r renderer) { r.TargetEvaluating(l, reason, d) })
}
func (f *fanout) TargetFailed(l *label.Label, err error) {
	f.each("TargetFailed "+l.String(), func(r renderer) { r.TargetFailed(l, err) })
}
func (f *fanout) TargetSucceeded(l *label.Label, changed bool) {
	f.each("TargetSucceeded "+l.String(), func(r renderer) { r.TargetSucceeded(l, changed) })
}
func (f *fanout) RunDone(err error) { f.each("RunDone", func(r renderer) { r.RunDone(err) }) }
func (f *fanout) FileChanged(l *label.Label) {
	f.each("FileChanged", func(r renderer) { r.FileChanged(l) })
}

const c18Build = `
K = %d

def helper(x):
    return [x, {"k": (x, "s", 1.5)}, K]

@target(sources=["in.txt"], generates=["a.out"])
def a():
    sh.exec("cat in.txt > a.out; echo line-one; printf partial")

@target(deps=[":a"])
def b():
    print(helper(K))
    sh.exec("%s")

@target(deps=[":b", ":a"])
def c():
    print("c runs")

@target(deps=[":nope1", ":a", ":nope2"])
def broken():
    pass

@target(deps=[":broken", ":c"])
def top():
    pass

@target(always=True)
def tick():
    sh.exec("true")
`

func TestVerifC18Renderers(t *testing.T) {
	outPath := os.Getenv("VERIF_OUT")
	if outPath == "" {
		t.Skip("VERIF_OUT not set")
	}
	out, err := os.Create(outPath)
	if err != nil {
		t.Fatal(err)
	}
	defer out.Close()
	oracle := func(format string, args ...any) { fmt.Fprintf(out, "ORACLE\t"+format+"\n", args...) }

	dir := t.TempDir()
	os.Setenv("HOME", filepath.Join(dir, ".home"))
	os.MkdirAll(filepath.Join(dir, ".home"), 0755)
	os.WriteFile(filepath.Join(dir, "dawn.toml"), nil, 0644)
	os.WriteFile(filepath.Join(dir, "in.txt"), []byte("1\n"), 0644)
	write := func(k int, bcmd string) {
		os.WriteFile(filepath.Join(dir, "BUILD.dawn"), []byte(fmt.Sprintf(c18Build, k, bcmd)), 0644)
	}
	type step struct {
		name  string
		prep  func()
		label string
		opts  *dawn.RunOptions
	}
	steps := []step{
		{"first build", func() { write(1, "echo b") }, "//:c", nil},
		{"no-op rebuild", func() {}, "//:c", nil},
		{"constant edit (diff shown)", func() { write(300, "echo b") }, "//:c", nil},
		{"failing body", func() { write(300, "echo fails >&2; exit 3") }, "//:c", nil},
		{"rebuild after failure", func() { write(300, "echo b2") }, "//:c", nil},
		{"missing dependencies", func() {}, "//:top", nil},
		{"dry run", func() { os.WriteFile(filepath.Join(dir, "in.txt"), []byte("2\n"), 0644) }, "//:c", &dawn.RunOptions{DryRun: true}},
		{"always run", func() {}, "//:c", &dawn.RunOptions{Always: true}},
		{"always-target", func() {}, "//:tick", nil},
		{"unknown root", func() {}, "//:does-not-exist", nil},
	}
	events := 0
	for _, st := range steps {
		st.prep()
		var jsonBuf, dotBuf bytes.Buffer
		status := &statusRenderer{ticker: time.NewTicker(time.Hour), targets: map[string]*target{}, maxWidth: 100, verbose: true, diff: true,
			stdout: io.Discard, lastUpdate: time.Now()}
		line := &lineRenderer{stdout: io.Discard, stderr: io.Discard}
		work := &workspace{root: dir}
		f := &fanout{rs: map[string]renderer{
			"line":   line,
			"status": status,
			"json":   newJSONRenderer(nopWC{&jsonBuf}, discardRenderer),
			"dot":    newDOTRenderer(nopWC{&dotBuf}, work, discardRenderer),
		}}
		proj, err := dawn.Load(dir, &dawn.LoadOptions{Events: f, Builtins: starlark.StringDict{"os": starlark_os.Module, "sh": starlark_sh.Module}})
		if err != nil {
			oracle("load failed in step %q: %v", st.name, err)
			continue
		}
		work.project = proj
		work.graph = buildGraph(proj)
		l, _ := label.Parse(st.label)
		done := make(chan struct{})
		go func() { proj.Run(l, st.opts); close(done) }()
		select {
		case <-done:
		case <-time.After(60 * time.Second):
			oracle("C18 build hung in step %q", st.name)
			continue
		}
		func() {
			defer func() {
				if x := recover(); x != nil {
					f.panics = append(f.panics, fmt.Sprintf("status renderer panicked while rendering the final frame: %v", x))
				}
			}()
			status.render(time.Now(), true)
			for _, r := range f.rs {
				r.Close()
			}
		}()
		for _, p := range f.panics {
			oracle("C18 %s (step %q)", p, st.name)
		}
		// the JSON stream is a sequence of objects, one per event
		dec := json.NewDecoder(&jsonBuf)
		n := 0
		for {
			var obj map[string]any
			if err := dec.Decode(&obj); err == io.EOF {
				break
			} else if err != nil {
				oracle("C18 json renderer wrote malformed JSON in step %q: %v", st.name, err)
				break
			}
			if _, ok := obj["kind"]; !ok {
				oracle("C18 json event without kind in step %q", st.name)
			}
			n++
		}
		if n != f.count {
			oracle("C18 json renderer wrote %d objects for %d events in step %q", n, f.count, st.name)
		}
		events += f.count
		fmt.Fprintf(out, "step\t%s\t%d events\t%d json objects\n", st.name, f.count, n)
	}
	fmt.Fprintf(out, "total\t%d\n", events)
	_ = strings.Join
}
