package main

// C13 at the command line: "a dry run" is something a user asks for with an option of the dawn command, and the command
// line offers several ways of asking - the bare invocation `dawn -n` / `dawn --dry-run` (shorthand for the build command,
// with a flag set of its own), `dawn build -n` / `--dry-run`, each with or without a target argument, alone or combined
// with -B/--always and with the persistent options, flags clustered (-nB) or apart, from the project root or from a
// package directory.  The engine harness drives Project.Run with RunOptions{DryRun: true} and never passes through this
// layer (cmd/dawn/root.go, build.go, targetCommand.go, workspace.go), so nothing held the flag that is parsed to the
// option that reaches the engine.
//
// One invocation = one fresh process (this test binary re-executed; the child sets os.Args and calls rootCmd.Execute(),
// exactly what main() does), with the working directory, standard output and standard error of a real `dawn` run.
// Nothing of /repo is replaced and no global of the package is touched by the parent.
//
// A group = (project shape, state of the tree before the dry run, always or not, target argument, working directory):
//   1. the project is rendered into a fresh directory and brought into the state by REAL invocations without the flag
//      (fresh: none; loaded: `dawn list targets`, which loads and builds nothing; built: `dawn`; edited: `dawn`, then a source
//      file changes; for the shape with a failing body a marker file makes the body fail from then on);
//   2. several spellings of the dry run of that group, one after the other;
//   3. the same invocation WITHOUT the flag (one of its spellings: `dawn`, `dawn build`, `--dry-run=false`, ...).
// Every body appends a line to a log file of its own OUTSIDE the project, so executions are seen whatever the renderer prints.
//
// Oracles (names are the ORACLE records' "name"):
//   cli-dry-run-executed-bodies    the body log is empty after a dry run;
//   cli-dry-run-changed-tree       the digest of every file, directory and link under the project root (persisted state
//                                  in .dawn included) is the same before and after a dry run;
//   cli-dry-run-prediction         D = labels printed "evaluating..." by the dry run, E = by the real invocation that follows:
//                                  D = E when the real build succeeds; otherwise E within D and D \ E downstream of the
//                                  failed target; and every body that really ran was announced by the dry run;
//   cli-dry-run-silent             a dry run of a tree where the real build then executes bodies printed no target;
//   cli-real-build-did-not-build   without the flag, from a never-built tree or with -B, the bodies of the whole
//                                  dependency closure of the requested target run (exactly once each) and the outputs
//                                  exist; after an edit, the bodies that read the edited file run;
//   cli-invocation-failed          an invocation fails (exit status) where the shape has no failing body, or hangs.
//
// Records:
//   {"t":"group","shape":..,"state":..,"always":bool,"target":..,"cwd":..,"dry":[{"args":[..],"announced":[..],"exit":0}..],
//    "real":{"args":[..],"announced":[..],"bodies":[..],"exit":0}}
//   {"t":"ORACLE","name":..,"detail":..,"group":{shape,state,always,target,cwd,files:{path:text},prepare:[..],"dry_args":[..],"real_args":[..]}}
// (bodies: a label once per execution of its body)
//   {"t":"stats","counts":{..}}

import (
	"bufio"
	"bytes"
	"context"
	"crypto/sha256"
	"encoding/hex"
	"encoding/json"
	"fmt"
	"io/fs"
	"math/rand"
	"os"
	"os/exec"
	"path/filepath"
	"regexp"
	"sort"
	"strconv"
	"strings"
	"sync"
	"testing"
	"time"

	"go.starlark.net/starlark"
)

// ---------------------------------------------------------------- child: one `dawn` process

func TestVerifC13CLIChild(t *testing.T) {
	if os.Getenv("VERIF_C13_CHILD") != "1" {
		t.Skip("not a child")
	}
	var args []string
	if err := json.Unmarshal([]byte(os.Getenv("VERIF_C13_ARGS")), &args); err != nil {
		t.Fatal(err)
	}
	os.Args = append([]string{"dawn"}, args...)
	code := 0
	// main(), with the exit status written to a file instead of os.Exit
	if err := rootCmd.Execute(); err != nil {
		if serr, ok := err.(*starlark.EvalError); ok {
			fmt.Fprint(os.Stderr, serr.Backtrace())
		} else {
			fmt.Fprintln(os.Stderr, err)
		}
		code = 1
	}
	os.WriteFile(os.Getenv("VERIF_C13_RES"), []byte(strconv.Itoa(code)), 0o644)
}

// ---------------------------------------------------------------- projects

type c13target struct {
	Pkg     string // "" = root package, else "pkg" / "pkg/sub"
	Name    string
	Deps    []string // labels
	Srcs    []string // file names in the package directory
	Default bool
	Always  bool
	Fails   bool // the body fails while <root>/fail.flag exists
}

func (t *c13target) label() string { return "//" + t.Pkg + ":" + t.Name }

type c13shape struct {
	Name    string
	Marker  string // dawn.toml or .dawnconfig
	Targets []*c13target
	Failing bool
}

func (s *c13shape) byLabel(l string) *c13target {
	for _, t := range s.Targets {
		if t.label() == l {
			return t
		}
	}
	return nil
}

// closure of a label over the dependency lists (the label itself included), following :default to its target
func (s *c13shape) closure(l string) map[string]bool {
	out := map[string]bool{}
	var walk func(string)
	walk = func(x string) {
		t := s.byLabel(x)
		if t == nil || out[x] {
			return
		}
		out[x] = true
		for _, d := range t.Deps {
			walk(d)
		}
	}
	walk(l)
	return out
}

func (s *c13shape) downstream(l string) map[string]bool {
	out := map[string]bool{}
	for _, t := range s.Targets {
		if t.label() != l && s.closure(t.label())[l] {
			out[t.label()] = true
		}
	}
	return out
}

// the target that `:default` of a package names, searching upwards as the command line does
func (s *c13shape) defaultOf(pkg string) string {
	for {
		for _, t := range s.Targets {
			if t.Pkg == pkg && t.Default {
				return t.label()
			}
		}
		if pkg == "" {
			return ""
		}
		if i := strings.LastIndexByte(pkg, '/'); i >= 0 {
			pkg = pkg[:i]
		} else {
			pkg = ""
		}
	}
}

func (s *c13shape) files(root, logPath string) map[string]string {
	files := map[string]string{s.Marker: ""}
	pkgs := map[string][]*c13target{}
	var order []string
	for _, t := range s.Targets {
		if _, ok := pkgs[t.Pkg]; !ok {
			order = append(order, t.Pkg)
		}
		pkgs[t.Pkg] = append(pkgs[t.Pkg], t)
	}
	for _, pkg := range order {
		var b strings.Builder
		for _, t := range pkgs[pkg] {
			q := func(xs []string) string {
				var o []string
				for _, x := range xs {
					o = append(o, strconv.Quote(x))
				}
				return "[" + strings.Join(o, ", ") + "]"
			}
			fmt.Fprintf(&b, "@target(deps=%s, sources=%s, generates=[%q]", q(t.Deps), q(t.Srcs), t.Name+".out")
			if t.Default {
				b.WriteString(", default=True")
			}
			if t.Always {
				b.WriteString(", always=True")
			}
			// one log file per target (logPath is a directory): the shell that runs the bodies writes a line and its end
			// separately, so concurrent bodies appending to one file would run their lines together
			cmd := fmt.Sprintf("echo x >> '%s' && cat %s /dev/null > %s.out", filepath.Join(logPath, c13logName(t.label())), strings.Join(t.Srcs, " "), t.Name)
			if t.Fails {
				cmd += fmt.Sprintf(" && test ! -e '%s'", filepath.Join(root, "fail.flag"))
			}
			fmt.Fprintf(&b, ")\ndef %s():\n    sh.exec(%q)\n\n", t.Name, cmd)
			for _, src := range t.Srcs {
				files[filepath.Join(pkg, src)] = "v1 of " + src + "\n"
			}
		}
		files[filepath.Join(pkg, "BUILD.dawn")] = b.String()
	}
	return files
}

func c13shapes(rng *rand.Rand) []*c13shape {
	T := func(pkg, name string, deps []string, srcs []string) *c13target {
		return &c13target{Pkg: pkg, Name: name, Deps: deps, Srcs: srcs}
	}
	def := func(t *c13target) *c13target { t.Default = true; return t }
	shapes := []*c13shape{
		{Name: "single", Marker: "dawn.toml", Targets: []*c13target{def(T("", "copy", nil, []string{"in.txt"}))}},
		{Name: "chain", Marker: "dawn.toml", Targets: []*c13target{
			T("", "a", nil, []string{"a.in"}), T("", "b", []string{"//:a"}, []string{"b.in"}), def(T("", "c", []string{"//:b"}, nil))}},
		{Name: "packages", Marker: ".dawnconfig", Targets: []*c13target{
			T("lib", "core", nil, []string{"core.in"}), def(T("lib", "all", []string{"//lib:core"}, []string{"all.in"})),
			T("lib/deep", "leaf", []string{"//lib:core"}, []string{"leaf.in"}),
			T("", "left", []string{"//lib:core"}, []string{"left.in"}), T("", "right", []string{"//lib:all", "//lib/deep:leaf"}, nil),
			def(T("", "top", []string{"//:left", "//:right"}, []string{"top.in"}))}},
		{Name: "always", Marker: "dawn.toml", Targets: []*c13target{
			T("", "base", nil, []string{"base.in"}),
			{Pkg: "", Name: "stamp", Deps: []string{"//:base"}, Always: true},
			def(T("", "app", []string{"//:stamp"}, []string{"app.in"}))}},
		{Name: "failing", Marker: "dawn.toml", Failing: true, Targets: []*c13target{
			T("", "a", nil, []string{"a.in"}),
			{Pkg: "", Name: "f", Deps: []string{"//:a"}, Srcs: []string{"f.in"}, Fails: true},
			T("", "c", []string{"//:f"}, []string{"c.in"}), def(T("", "d", []string{"//:c"}, nil))}},
	}
	// random layered shapes: 3-6 targets over up to two packages, dependencies on earlier targets only
	for k := 0; k < 3; k++ {
		s := &c13shape{Name: fmt.Sprintf("random%d", k), Marker: []string{"dawn.toml", ".dawnconfig"}[rng.Intn(2)]}
		n := 3 + rng.Intn(4)
		for i := 0; i < n; i++ {
			pkg := []string{"", "", "p"}[rng.Intn(3)]
			t := &c13target{Pkg: pkg, Name: fmt.Sprintf("t%d", i)}
			for j := 0; j < i; j++ {
				if rng.Intn(3) == 0 {
					t.Deps = append(t.Deps, s.Targets[j].label())
				}
			}
			if rng.Intn(4) != 0 {
				t.Srcs = []string{fmt.Sprintf("t%d.in", i)}
			}
			s.Targets = append(s.Targets, t)
		}
		// the last target of the root package (or one made for it) is the default and reaches everything without a dependant
		top := &c13target{Pkg: "", Name: "top", Default: true, Srcs: []string{"top.in"}}
		for _, t := range s.Targets {
			if len(s.downstream(t.label())) == 0 {
				top.Deps = append(top.Deps, t.label())
			}
		}
		s.Targets = append(s.Targets, top)
		shapes = append(shapes, s)
	}
	return shapes
}

// ---------------------------------------------------------------- the command line's spellings

// every way of asking for a dry run; J = a path outside the project for --json / --dot
func c13drySpellings(always bool, J string) [][]string {
	if !always {
		return [][]string{
			{"-n"}, {"--dry-run"}, {"build", "-n"}, {"build", "--dry-run"},
			{"--dry-run=true"}, {"build", "--dry-run=true"}, {"-V", "-n"}, {"-n", "-V"}, {"-nV"}, {"-d", "-n"}, {"-r", "--dry-run"},
			{"-V", "build", "-n"}, {"build", "-V", "-n"}, {"build", "-d", "--dry-run"}, {"-n", "-n"}, {"build", "-n", "--dry-run"},
			{"--json", J, "-n"}, {"build", "--json", J, "--dry-run"}, {"--dot", J, "--dry-run"}, {"-n", "--json", J},
			{"--always=false", "-n"}, {"build", "--always=false", "-n"},
		}
	}
	return [][]string{
		{"-n", "-B"}, {"-B", "-n"}, {"build", "-n", "-B"}, {"build", "-B", "-n"},
		{"-nB"}, {"-Bn"}, {"build", "-nB"}, {"build", "-Bn"},
		{"--dry-run", "--always"}, {"--always", "--dry-run"}, {"build", "--always", "--dry-run"}, {"build", "--dry-run", "--always"},
		{"-B", "--dry-run"}, {"--always", "-n"}, {"build", "-B", "--dry-run=true"}, {"-V", "-Bn"}, {"-V", "build", "-nB"},
		{"--json", J, "-B", "-n"}, {"build", "-Bn", "--json", J}, {"-dnB"},
	}
}

// the same invocation without the flag
func c13realSpellings(always bool) [][]string {
	if !always {
		return [][]string{{}, {"build"}, {"--dry-run=false"}, {"build", "--dry-run=false"}, {"-V"}, {"-V", "build"}, {"--always=false"}}
	}
	return [][]string{{"-B"}, {"build", "-B"}, {"--always"}, {"build", "--always"}, {"-B", "--dry-run=false"}, {"build", "-B", "--dry-run=false"}, {"-V", "-B"}}
}

// ---------------------------------------------------------------- running

var c13evalRe = regexp.MustCompile(`\[([^\]\s]+)\] evaluating\.\.\.`)

type c13run struct {
	Args      []string `json:"args"`
	Announced []string `json:"announced"`
	Bodies    []string `json:"bodies"`
	Exit      int      `json:"exit"`
	Stderr    string   `json:"stderr,omitempty"`
}

type c13env struct {
	scratch string // home, logs, results
	id      string
}

func (e *c13env) dawn(cwd, logPath string, args []string) c13run {
	// --json / --dot write where the user says: a file of this worker's, outside the project
	typed := args
	args = append([]string{}, args...)
	for i, a := range args {
		if a == "<J>" {
			args[i] = filepath.Join(e.scratch, e.id+".events")
		}
	}
	os.RemoveAll(logPath)
	os.MkdirAll(logPath, 0o755)
	res := filepath.Join(e.scratch, e.id+".res")
	os.Remove(res)
	ctx, cancel := context.WithTimeout(context.Background(), 90*time.Second)
	defer cancel()
	cmd := exec.CommandContext(ctx, os.Args[0], "-test.run=^TestVerifC13CLIChild$", "-test.timeout=80s")
	cmd.Dir = cwd
	ab, _ := json.Marshal(args)
	cmd.Env = append(os.Environ(), "VERIF_C13_CHILD=1", "VERIF_C13_ARGS="+string(ab), "VERIF_C13_RES="+res,
		"HOME="+filepath.Join(e.scratch, "home"), "PWD="+cwd)
	var so, se bytes.Buffer
	cmd.Stdout, cmd.Stderr = &so, &se
	err := cmd.Run()
	r := c13run{Args: typed, Announced: []string{}, Bodies: []string{}}
	code, rerr := os.ReadFile(res)
	switch {
	case ctx.Err() != nil:
		r.Exit, r.Stderr = -1, "timed out"
	case rerr != nil:
		r.Exit, r.Stderr = -2, fmt.Sprintf("no exit status written (%v): %s", err, c13tail(se.String()+so.String()))
	default:
		r.Exit, _ = strconv.Atoi(string(code))
		if r.Exit != 0 {
			r.Stderr = c13tail(se.String())
		}
	}
	seen := map[string]bool{}
	for _, m := range c13evalRe.FindAllStringSubmatch(so.String(), -1) {
		if !seen[m[1]] {
			seen[m[1]] = true
			r.Announced = append(r.Announced, m[1])
		}
	}
	sort.Strings(r.Announced)
	// one entry per execution: a label occurs as often as its body ran
	if es, err := os.ReadDir(logPath); err == nil {
		for _, e := range es {
			b, _ := os.ReadFile(filepath.Join(logPath, e.Name()))
			for k := 0; k < strings.Count(string(b), "x"); k++ {
				r.Bodies = append(r.Bodies, strings.ReplaceAll(e.Name(), "%", "/"))
			}
		}
	}
	sort.Strings(r.Bodies)
	return r
}

func c13logName(label string) string { return strings.ReplaceAll(label, "/", "%") }

func c13tail(s string) string {
	if len(s) > 400 {
		s = s[len(s)-400:]
	}
	return s
}

// path -> digest of everything under root: files (mode, content), directories, links
func c13tree(root string) map[string]string {
	out := map[string]string{}
	filepath.WalkDir(root, func(p string, d fs.DirEntry, err error) error {
		rel, _ := filepath.Rel(root, p)
		if err != nil {
			out[rel] = "error " + err.Error()
			return nil
		}
		info, ierr := d.Info()
		if ierr != nil {
			out[rel] = "error " + ierr.Error()
			return nil
		}
		switch {
		case d.IsDir():
			out[rel] = "dir " + info.Mode().Perm().String()
		case info.Mode()&fs.ModeSymlink != 0:
			l, _ := os.Readlink(p)
			out[rel] = "link " + l
		default:
			b, _ := os.ReadFile(p)
			h := sha256.Sum256(b)
			out[rel] = fmt.Sprintf("file %s %d %s", info.Mode().Perm(), len(b), hex.EncodeToString(h[:8]))
		}
		return nil
	})
	return out
}

func c13treeDiff(a, b map[string]string) []string {
	var d []string
	for k, v := range a {
		if w, ok := b[k]; !ok {
			d = append(d, "removed "+k)
		} else if w != v {
			d = append(d, "changed "+k+" ("+v+" -> "+w+")")
		}
	}
	for k := range b {
		if _, ok := a[k]; !ok {
			d = append(d, "created "+k)
		}
	}
	sort.Strings(d)
	if len(d) > 8 {
		d = append(d[:8], fmt.Sprintf("... %d more", len(d)-8))
	}
	return d
}

func c13set(xs []string) map[string]bool {
	m := map[string]bool{}
	for _, x := range xs {
		m[x] = true
	}
	return m
}

func c13keys(m map[string]bool) []string {
	out := []string{}
	for k := range m {
		out = append(out, k)
	}
	sort.Strings(out)
	return out
}

// ---------------------------------------------------------------- groups

type c13group struct {
	Shape  *c13shape
	State  string // fresh | loaded | built | edited
	Always bool
	Target string // "" = no argument
	Cwd    string // package directory the command runs in ("" = root)
	Dry    [][]string
	Real   []string
	Edit   string // edited: path of the source file that changes
}

type c13oracle struct {
	T      string         `json:"t"`
	Name   string         `json:"name"`
	Detail string         `json:"detail"`
	Group  map[string]any `json:"group"`
}

// the label a (target argument, working directory) pair asks for, resolved without the code under test
func (g *c13group) requested() string {
	switch {
	case g.Target == "":
		return g.Shape.defaultOf(g.Cwd)
	case strings.HasPrefix(g.Target, "//"):
		if strings.HasSuffix(g.Target, ":default") {
			return g.Shape.defaultOf(strings.TrimSuffix(strings.TrimPrefix(g.Target, "//"), ":default"))
		}
		return g.Target
	case g.Target == ":default":
		return g.Shape.defaultOf(g.Cwd)
	default: // ":name"
		return "//" + g.Cwd + g.Target
	}
}

func c13play(env *c13env, g *c13group, emit func(any), count func(string)) {
	root := filepath.Join(env.scratch, env.id)
	os.RemoveAll(root)
	logPath := filepath.Join(env.scratch, env.id+".bodies")
	files := g.Shape.files(root, logPath)
	for p, c := range files {
		os.MkdirAll(filepath.Dir(filepath.Join(root, p)), 0o755)
		os.WriteFile(filepath.Join(root, p), []byte(c), 0o644)
	}
	defer os.RemoveAll(root)
	cwd := filepath.Join(root, g.Cwd)
	prepare := []string{}
	describe := func(dry []string) map[string]any {
		return map[string]any{"shape": g.Shape.Name, "state": g.State, "always": g.Always, "target": g.Target, "cwd": "<root>/" + g.Cwd,
			"files": files, "prepare": prepare, "dry_args": dry, "real_args": append(append([]string{}, g.Real...), c13arg(g.Target)...),
			"bodies_log": "every body appends a line to a file of its own outside the project (the quoted path after >>)"}
	}
	fail := func(name, detail string, dry []string) {
		count("oracle:" + name)
		emit(c13oracle{"ORACLE", name, detail, describe(dry)})
	}
	all := map[string]bool{}
	for _, t := range g.Shape.Targets {
		all[t.label()] = true
	}

	// 1. the state before the dry run, reached with real invocations
	if g.State == "built" || g.State == "edited" {
		r := env.dawn(root, logPath, []string{})
		prepare = append(prepare, "`dawn` in <root>")
		count("invocations:prepare")
		want := g.Shape.closure(g.Shape.defaultOf(""))
		if r.Exit != 0 {
			fail("cli-invocation-failed", fmt.Sprintf("`dawn` on the never-built project: exit %d: %s", r.Exit, r.Stderr), nil)
			return
		}
		if strings.Join(r.Bodies, " ") != strings.Join(c13keys(want), " ") {
			fail("cli-real-build-did-not-build", fmt.Sprintf("`dawn` on the never-built project ran the bodies %v, the default target's closure is %v", r.Bodies, c13keys(want)), nil)
			return
		}
	}
	if g.State == "edited" {
		os.WriteFile(filepath.Join(root, g.Edit), []byte("v2 of "+g.Edit+", edited\n"), 0o644)
		prepare = append(prepare, "write a new text to "+g.Edit)
	}
	if g.Shape.Failing {
		os.WriteFile(filepath.Join(root, "fail.flag"), nil, 0o644)
		prepare = append(prepare, "create fail.flag (the body of //:f fails while it exists)")
		if g.State == "built" || g.State == "edited" { // make the failing target stale again
			os.WriteFile(filepath.Join(root, "f.in"), []byte("v2 of f.in\n"), 0o644)
			prepare = append(prepare, "write a new text to f.in")
		}
	}

	// 2. the dry runs
	rec := map[string]any{"t": "group", "shape": g.Shape.Name, "state": g.State, "always": g.Always, "target": g.Target, "cwd": g.Cwd}
	before := c13tree(root)
	if g.State == "fresh" || g.State == "loaded" {
		// Every dawn command loads the project first, and the first load of a project creates the .dawn directory (the
		// index of targets, empty directories).  That is the load's doing, not the dry run's: on a tree that no command
		// has seen yet, the dry run may leave what a command that only loads leaves (`dawn list targets`) and nothing else.
		// fresh: .dawn is removed again before the dry run; loaded: it stays.
		r := env.dawn(root, logPath, []string{"list", "targets"})
		count("invocations:prepare")
		if r.Exit != 0 || len(r.Bodies) > 0 {
			fail("cli-invocation-failed", fmt.Sprintf("`dawn list targets` on the never-built project: exit %d, bodies %v: %s", r.Exit, r.Bodies, r.Stderr), nil)
			return
		}
		loaded := c13tree(root)
		if g.State == "fresh" {
			os.RemoveAll(filepath.Join(root, ".dawn"))
			if d := c13treeDiff(before, c13tree(root)); len(d) > 0 {
				emit(map[string]any{"t": "NOTE", "name": "load-only command wrote outside .dawn", "detail": d})
				return
			}
			prepare = append(prepare, "(the tree a dry run leaves is compared with the tree `dawn list targets` leaves on a copy of the untouched project)")
		} else {
			prepare = append(prepare, "`dawn list targets` in <root>")
		}
		before = loaded
	}
	var dries []c13run
	for _, spelling := range g.Dry {
		args := append(append([]string{}, spelling...), c13arg(g.Target)...)
		r := env.dawn(cwd, logPath, args)
		count("invocations:dry")
		count("dry:" + c13form(spelling))
		dries = append(dries, r)
		tainted := false
		if len(r.Bodies) > 0 {
			fail("cli-dry-run-executed-bodies", fmt.Sprintf("`dawn %s` executed the bodies of %v", strings.Join(args, " "), r.Bodies), args)
			tainted = true
		}
		after := c13tree(root)
		if d := c13treeDiff(before, after); len(d) > 0 {
			fail("cli-dry-run-changed-tree", fmt.Sprintf("`dawn %s` changed the project tree: %s", strings.Join(args, " "), strings.Join(d, "; ")), args)
			tainted = true
		}
		if r.Exit < 0 || (r.Exit != 0 && !g.Shape.Failing) {
			fail("cli-invocation-failed", fmt.Sprintf("`dawn %s`: exit %d: %s", strings.Join(args, " "), r.Exit, r.Stderr), args)
			tainted = true
		}
		if tainted {
			// the tree is no longer in the state this group is about
			rec["dry"], rec["aborted"] = dries, true
			emit(rec)
			return
		}
	}
	rec["dry"] = dries

	// 3. the same invocation without the flag
	rargs := append(append([]string{}, g.Real...), c13arg(g.Target)...)
	real := env.dawn(cwd, logPath, rargs)
	count("invocations:real")
	count("real:" + c13form(g.Real))
	rec["real"] = real
	emit(rec)
	if real.Exit < 0 || (real.Exit != 0) != g.Shape.Failing {
		// a failing shape's build fails whenever //:f is attempted; it is attempted in every group of that shape
		fail("cli-invocation-failed", fmt.Sprintf("`dawn %s` after the dry runs: exit %d (a failing body in the project: %v): %s",
			strings.Join(rargs, " "), real.Exit, g.Shape.Failing, real.Stderr), nil)
		return
	}
	E := c13set(real.Announced)
	downstream := map[string]bool{}
	if g.Shape.Failing {
		downstream = g.Shape.downstream("//:f")
		// the alias //:default is downstream of whatever it names
		if g.Shape.downstream("//:f")[g.Shape.defaultOf("")] {
			downstream["//:default"] = true
		}
		// a source file read only by targets downstream of the failure is looked at by the real build or not, depending on
		// how far those targets got before the failure reached them
		for _, t := range g.Shape.Targets {
			if downstream[t.label()] {
				for _, src := range t.Srcs {
					downstream["source://"+t.Pkg+":"+src] = true
				}
			}
		}
	}
	for _, r := range dries {
		D := c13set(r.Announced)
		var missing, extra, unannounced []string
		for l := range E {
			if !D[l] {
				missing = append(missing, l)
			}
		}
		for l := range D {
			if !E[l] && !(real.Exit != 0 && downstream[l]) {
				extra = append(extra, l)
			}
		}
		for _, l := range real.Bodies {
			if !D[l] {
				unannounced = append(unannounced, l)
			}
		}
		sort.Strings(missing)
		sort.Strings(extra)
		if len(missing)+len(extra)+len(unannounced) > 0 {
			name := "cli-dry-run-prediction"
			if len(D) == 0 {
				name = "cli-dry-run-silent"
			}
			fail(name, fmt.Sprintf("`dawn %s` announced %v; `dawn %s` then announced %v and ran the bodies %v (attempted but not announced: %v; announced but not attempted%s: %v; bodies not announced: %v)",
				strings.Join(r.Args, " "), r.Announced, strings.Join(rargs, " "), real.Announced, real.Bodies, missing,
				map[bool]string{true: " and not downstream of the failure", false: ""}[real.Exit != 0], extra, unannounced), r.Args)
			break
		}
	}

	// without the flag the build builds (the expectation is computed from the generated dependency lists only)
	req := g.requested()
	if req == "" {
		return
	}
	closure := g.Shape.closure(req)
	ran := c13set(real.Bodies)
	dup := len(ran) != len(real.Bodies)
	var want map[string]bool
	switch {
	case g.Shape.Failing:
		// everything the failed target needs, and the failed target itself
		want = g.Shape.closure("//:f")
		if (g.State == "built" || g.State == "edited") && !g.Always {
			want = map[string]bool{"//:f": true}
			if g.State == "edited" {
				want = nil // which bodies run besides //:f depends on the edit; held by the prediction oracle
			}
		}
	case g.State == "fresh" || g.State == "loaded" || g.Always:
		want = closure
	case g.State == "edited":
		want = nil
		for _, t := range g.Shape.Targets {
			for _, s := range t.Srcs {
				if filepath.Join(t.Pkg, s) == g.Edit && closure[t.label()] && !ran[t.label()] {
					fail("cli-real-build-did-not-build", fmt.Sprintf("`dawn %s` after an edit of %s did not run the body of %s, which reads it (ran %v)",
						strings.Join(rargs, " "), g.Edit, t.label(), real.Bodies), nil)
				}
			}
		}
	}
	if want != nil && (dup || strings.Join(c13keys(ran), " ") != strings.Join(c13keys(want), " ")) {
		fail("cli-real-build-did-not-build", fmt.Sprintf("`dawn %s` (%s tree, requested %s) ran the bodies %v, expected exactly once each: %v",
			strings.Join(rargs, " "), g.State, req, real.Bodies, c13keys(want)), nil)
	}
	if real.Exit == 0 {
		for l := range E {
			if all[l] && !ran[l] {
				fail("cli-real-build-did-not-build", fmt.Sprintf("`dawn %s` announced %s but did not run its body (ran %v)", strings.Join(rargs, " "), l, real.Bodies), nil)
			}
		}
		for l := range ran {
			t := g.Shape.byLabel(l)
			if t == nil {
				fail("cli-real-build-did-not-build", fmt.Sprintf("`dawn %s`: the body log names %q, which is no target of the project", strings.Join(rargs, " "), l), nil)
				continue
			}
			if _, err := os.Stat(filepath.Join(root, t.Pkg, t.Name+".out")); err != nil {
				fail("cli-real-build-did-not-build", fmt.Sprintf("`dawn %s`: the output of %s does not exist after the build", strings.Join(rargs, " "), l), nil)
			}
		}
	}
}

func c13arg(target string) []string {
	if target == "" {
		return nil
	}
	return []string{target}
}

// a spelling with the --json/--dot path replaced by a placeholder
func c13form(args []string) string {
	out := []string{"dawn"}
	for i, a := range args {
		if a == "<J>" {
			a = "<path>"
		}
		_ = i
		out = append(out, a)
	}
	return strings.Join(out, " ")
}

func TestVerifC13CLI(t *testing.T) {
	out := os.Getenv("VERIF_OUT")
	if out == "" || os.Getenv("VERIF_C13_CHILD") == "1" {
		t.Skip("VERIF_OUT not set")
	}
	f, err := os.Create(out)
	if err != nil {
		t.Fatal(err)
	}
	defer f.Close()
	w := bufio.NewWriterSize(f, 1<<20)
	defer w.Flush()
	var mu sync.Mutex
	emit := func(v any) {
		b, _ := json.Marshal(v)
		mu.Lock()
		defer mu.Unlock()
		w.Write(b)
		w.WriteByte('\n')
	}
	stats := map[string]int{}
	count := func(k string) {
		mu.Lock()
		defer mu.Unlock()
		stats[k]++
	}
	seed, _ := strconv.Atoi(os.Getenv("VERIF_SEED"))
	perGroup, _ := strconv.Atoi(os.Getenv("VERIF_C13_SPELLINGS"))
	if perGroup == 0 {
		perGroup = 4
	}
	nrandom, _ := strconv.Atoi(os.Getenv("VERIF_C13_RANDOM"))
	workers, _ := strconv.Atoi(os.Getenv("VERIF_C13_WORKERS"))
	if workers == 0 {
		workers = 8
	}
	rng := rand.New(rand.NewSource(int64(seed)*104729 + 13))
	scratch := t.TempDir()
	if d, err := os.MkdirTemp("/dev/shm", "verif-c13cli-"); err == nil {
		scratch = d
		defer os.RemoveAll(d)
	}
	if s, err := filepath.EvalSymlinks(scratch); err == nil {
		scratch = s
	}
	os.MkdirAll(filepath.Join(scratch, "home"), 0o755)
	const J = "<J>"

	shapes := c13shapes(rng)
	var groups []*c13group
	// the spellings are dealt round-robin, so that every spelling meets every (state, always) on the first shapes and all of
	// them are used however few groups run
	next := map[bool]int{}
	deal := func(always bool, k int) [][]string {
		cat := c13drySpellings(always, J)
		var o [][]string
		for i := 0; i < k; i++ {
			o = append(o, cat[next[always]%len(cat)])
			next[always]++
		}
		return o
	}
	nextReal := map[bool]int{}
	dealReal := func(always bool) []string {
		cat := c13realSpellings(always)
		r := cat[nextReal[always]%len(cat)]
		nextReal[always]++
		return r
	}
	edits := func(s *c13shape) []string {
		var o []string
		for _, t := range s.Targets {
			for _, src := range t.Srcs {
				o = append(o, filepath.Join(t.Pkg, src))
			}
		}
		return o
	}
	// places a target can be asked for from: (argument, working directory)
	places := func(s *c13shape) [][2]string {
		o := [][2]string{{"", ""}, {"//:default", ""}}
		for _, t := range s.Targets {
			o = append(o, [2]string{t.label(), ""})
			o = append(o, [2]string{":" + t.Name, t.Pkg})
			if t.Pkg != "" {
				o = append(o, [2]string{"", t.Pkg}, [2]string{t.label(), t.Pkg})
			}
		}
		return o
	}
	// enumerated: shape x state x always, without an argument from the root, every dry spelling of the catalogue dealt over them
	for _, s := range shapes {
		for _, st := range []string{"fresh", "loaded", "built", "edited"} {
			for _, always := range []bool{false, true} {
				g := &c13group{Shape: s, State: st, Always: always, Dry: deal(always, perGroup), Real: dealReal(always)}
				if st == "edited" {
					e := edits(s)
					g.Edit = e[rng.Intn(len(e))]
				}
				groups = append(groups, g)
			}
		}
	}
	// with a target argument / from a package directory
	for _, s := range shapes {
		ps := places(s)
		rng.Shuffle(len(ps), func(i, j int) { ps[i], ps[j] = ps[j], ps[i] })
		k := 3
		if len(ps) < k {
			k = len(ps)
		}
		for _, p := range ps[:k] {
			if s.Failing && !s.closure((&c13group{Shape: s, Target: p[0], Cwd: p[1]}).requested())["//:f"] {
				continue // the build of this target does not reach the failing body
			}
			always := rng.Intn(2) == 0
			st := []string{"fresh", "loaded", "built", "edited"}[rng.Intn(4)]
			g := &c13group{Shape: s, State: st, Always: always, Target: p[0], Cwd: p[1], Dry: deal(always, perGroup), Real: dealReal(always)}
			if st == "edited" {
				e := edits(s)
				g.Edit = e[rng.Intn(len(e))]
			}
			groups = append(groups, g)
		}
	}
	for i := 0; i < nrandom; i++ {
		s := shapes[rng.Intn(len(shapes))]
		ps := places(s)
		p := ps[rng.Intn(len(ps))]
		if s.Failing && !s.closure((&c13group{Shape: s, Target: p[0], Cwd: p[1]}).requested())["//:f"] {
			p = [2]string{"", ""}
		}
		always := rng.Intn(2) == 0
		st := []string{"fresh", "loaded", "built", "edited"}[rng.Intn(4)]
		g := &c13group{Shape: s, State: st, Always: always, Target: p[0], Cwd: p[1], Dry: deal(always, perGroup), Real: dealReal(always)}
		if st == "edited" {
			e := edits(s)
			g.Edit = e[rng.Intn(len(e))]
		}
		groups = append(groups, g)
	}

	var wg sync.WaitGroup
	ch := make(chan int)
	for k := 0; k < workers; k++ {
		wg.Add(1)
		go func(k int) {
			defer wg.Done()
			for i := range ch {
				env := &c13env{scratch: scratch, id: fmt.Sprintf("w%d-g%d", k, i)}
				c13play(env, groups[i], emit, count)
				count("groups")
				count("state:" + groups[i].State)
				count("shape:" + groups[i].Shape.Name)
				if groups[i].Target != "" {
					count("with-target-argument")
				}
				if groups[i].Cwd != "" {
					count("from-package-directory")
				}
			}
		}(k)
	}
	for i := range groups {
		ch <- i
	}
	close(ch)
	wg.Wait()
	emit(map[string]any{"t": "stats", "counts": stats})
}
