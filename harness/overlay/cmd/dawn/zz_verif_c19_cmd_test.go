package main

// C19, the last sentence of the property: "Rewriting dawn.toml during get and tidy therefore loses nothing but comments
// and layout."  The two commands (cmd/dawn/get.go, tidy.go) are run in-process - their RunE functions, on the global
// workspace, with $HOME pointing at a scratch directory - on generated projects, against a simulated network:
// go-git's client registry maps https:// and ssh:// to an in-process git server over repositories built here (tagged
// versions of a handful of projects, some in sub-directories, with names that need quoting), which can also be switched
// off (every dial fails).  Nothing of /repo is replaced; mvs.DefaultDialer, the resolver, the module cache and the
// fetch all run as they are.
//
// A scenario = (command and arguments, the project's configuration, the layout of its dawn.toml (canonical or one of
// three hand-written ones), network up/down, module cache complete or lacking one entry).  The families enumerate, for a base project, every
// command line of a catalogue (tidy; get of a present / new / versioned / major-suffixed / unreachable / empty /
// malformed query, with latest, upgrade, patch, range, exact and unknown versions; get -u; wrong argument counts) under
// both network states and several layouts - so the commands are stopped at every point of their run: argument check,
// load, resolution of the present requirements, resolution of the query, naming the new requirement, write - and then
// random projects x random command lines.
//
// Oracle.  B = the configuration dawn.toml loads as before the command, A = after it, R = the requirements that the
// command's resolution yields, recomputed here by calling mvs.Get / UpgradeAll / Tidy directly on B with a resolver of
// its own under the same network and cache (error = no result).  The command succeeded: A = B with requirements R.
// The command failed: A = B (or B with R, should a failure be reported after the write).  In both cases A must load,
// and writing A again must reproduce the bytes of the file whenever the command rewrote it.  Failing scenarios are
// shrunk (canonical layout, fewer items in the project) before they are reported.
//   {"t":"cmd","kind":..,"line":"dawn get ..","net":bool,"cache_lacks":text|null,"layout":..,"canonical":bool,"before":hex,"cfg":C,
//    "err":text|null,"resolved":[[name,path,version]..]|null,"after":hex,"changed":bool}
//   {"t":"ORACLE","name":..,"cfg":C,"bytes":hex,"detail":..,"from":..,"command":{..the scenario as above..}}
//   {"t":"cmdstats","counts":{..}}
// C as in the project harness: {"name":hex,"version":hex,"ignore":[hex..],"reqs":[[namehex,pathhex,versionhex]..]}

import (
	"bufio"
	"context"
	"encoding/hex"
	"encoding/json"
	"errors"
	"fmt"
	"math/rand"
	"os"
	"path/filepath"
	"reflect"
	"sort"
	"strconv"
	"strings"
	"sync/atomic"
	"testing"
	"time"

	git "github.com/go-git/go-git/v5"
	"github.com/go-git/go-git/v5/plumbing/object"
	"github.com/go-git/go-git/v5/plumbing/storer"
	"github.com/go-git/go-git/v5/plumbing/transport"
	"github.com/go-git/go-git/v5/plumbing/transport/client"
	"github.com/go-git/go-git/v5/plumbing/transport/server"
	"github.com/mitchellh/go-homedir"
	"github.com/pgavlin/dawn/internal/mvs"
	"github.com/pgavlin/dawn/internal/project"
)

type c19cfg struct {
	Name    string      `json:"name"`
	Version string      `json:"version"`
	Ignore  []string    `json:"ignore"`
	Reqs    [][3]string `json:"reqs"`
}

func c19hx(s string) string { return hex.EncodeToString([]byte(s)) }

func c19reqs(m map[string]project.RequirementConfig) [][3]string {
	out := [][3]string{}
	names := make([]string, 0, len(m))
	for k := range m {
		names = append(names, k)
	}
	sort.Strings(names)
	for _, k := range names {
		out = append(out, [3]string{c19hx(k), c19hx(m[k].Path), c19hx(m[k].Version)})
	}
	return out
}

func c19export(c *project.Config) *c19cfg {
	if c == nil {
		return nil
	}
	o := &c19cfg{Name: c19hx(c.Name), Version: c19hx(c.Version), Ignore: []string{}, Reqs: c19reqs(c.Requirements)}
	for _, g := range c.Ignore {
		o.Ignore = append(o.Ignore, c19hx(g))
	}
	return o
}

func c19same(a, b *project.Config) bool { return reflect.DeepEqual(c19export(a), c19export(b)) }

// the simulated network: host+path of a repository -> its storage; down = nothing answers
type c19net struct {
	repos map[string]string // address -> directory of the repository
	down  atomic.Bool
	dials atomic.Int64
}

func (n *c19net) Load(ep *transport.Endpoint) (storer.Storer, error) {
	n.dials.Add(1)
	if n.down.Load() {
		return nil, errors.New("dial tcp: lookup " + ep.Host + ": network is unreachable")
	}
	d, ok := n.repos[ep.Host+ep.Path]
	if !ok {
		return nil, transport.ErrRepositoryNotFound
	}
	// a storage of its own for every connection: resolution dials in parallel, and a go-git storage is not for sharing
	r, err := git.PlainOpen(d)
	if err != nil {
		return nil, err
	}
	return r.Storer, nil
}

func c19basic(s string) string {
	var b strings.Builder
	b.WriteByte('"')
	for _, r := range s {
		switch {
		case r == '"':
			b.WriteString(`\"`)
		case r == '\\':
			b.WriteString(`\\`)
		case r < 0x20 || r == 0x7f:
			fmt.Fprintf(&b, `\u%04X`, r)
		default:
			b.WriteRune(r)
		}
	}
	b.WriteByte('"')
	return b.String()
}

func c19key(k string) string {
	bare := k != ""
	for i := 0; i < len(k); i++ {
		ch := k[i]
		if !(ch >= 'A' && ch <= 'Z' || ch >= 'a' && ch <= 'z' || ch >= '0' && ch <= '9' || ch == '_' || ch == '-') {
			bare = false
		}
	}
	if bare {
		return k
	}
	return c19basic(k)
}

// a hand-written layout of a configuration (TOML from the language's specification, not from the code under test)
func c19decorate(c *project.Config, style int) []byte {
	names := make([]string, 0, len(c.Requirements))
	for k := range c.Requirements {
		names = append(names, k)
	}
	sort.Strings(names)
	var b strings.Builder
	switch style % 3 {
	case 0: // comments, blank lines, aligned values, multi-line array
		b.WriteString("# Project file.\n#\n# Keep the requirements sorted, please.\n\n")
		if c.Name != "" {
			b.WriteString("name    = " + c19basic(c.Name) + "     # the project name\n")
		}
		if c.Version != "" {
			b.WriteString("version = " + c19basic(c.Version) + "\n")
		}
		if len(c.Ignore) != 0 {
			b.WriteString("\n# Nothing under these is a package.\nignore = [\n")
			for i, g := range c.Ignore {
				fmt.Fprintf(&b, "    %s,   # pattern %d\n", c19basic(g), i)
			}
			b.WriteString("]\n")
		}
		if len(names) != 0 {
			b.WriteString("\n[requirements]\n# Core libraries.\n")
			for _, k := range names {
				r := c.Requirements[k]
				fmt.Fprintf(&b, "%-12s = { path = %s,  version = %s }   # checked\n", c19key(k), c19basic(r.Path), c19basic(r.Version))
			}
		}
		b.WriteString("\n# end of file\n")
	case 1: // CRLF, version before name, one sub-table per requirement
		if c.Version != "" {
			b.WriteString("version = " + c19basic(c.Version) + "\r\n")
		}
		if c.Name != "" {
			b.WriteString("name = " + c19basic(c.Name) + "\r\n")
		}
		b.WriteString("ignore = [")
		for i, g := range c.Ignore {
			if i > 0 {
				b.WriteString(" ,")
			}
			b.WriteString(" " + c19basic(g))
		}
		b.WriteString(" ]\r\n")
		for _, k := range names {
			r := c.Requirements[k]
			b.WriteString("\r\n[requirements." + c19key(k) + "]\r\n")
			b.WriteString("version = " + c19basic(r.Version) + "\r\n")
			b.WriteString("path = " + c19basic(r.Path) + "   # where it lives\r\n")
		}
	default: // compact, no final newline
		var lines []string
		if c.Name != "" {
			lines = append(lines, "name="+c19basic(c.Name))
		}
		if c.Version != "" {
			lines = append(lines, "version="+c19basic(c.Version))
		}
		if len(c.Ignore) != 0 {
			var gs []string
			for _, g := range c.Ignore {
				gs = append(gs, c19basic(g))
			}
			lines = append(lines, "ignore=["+strings.Join(gs, ",")+"]")
		}
		if len(names) != 0 {
			lines = append(lines, "[requirements]")
			for _, k := range names {
				r := c.Requirements[k]
				lines = append(lines, c19key(k)+"={version="+c19basic(r.Version)+",path="+c19basic(r.Path)+"}")
			}
		}
		b.WriteString(strings.Join(lines, "\n"))
	}
	return []byte(b.String())
}

// one released version of one project of the universe
type c19mod struct {
	repo, sub string // repository address, project directory inside it ("" = the root)
	path      string // requirement path (with the major suffix)
	version   string
	name      string
	reqs      [][2]string // path, version
}

func (m c19mod) toml() string {
	var b strings.Builder
	if m.name != "" {
		b.WriteString("name = " + c19basic(m.name) + "\n")
	}
	if len(m.reqs) != 0 {
		b.WriteString("\n[requirements]\n")
		for i, r := range m.reqs {
			fmt.Fprintf(&b, "r%d = { path = %s, version = %s }\n", i, c19basic(r[0]), c19basic(r[1]))
		}
	}
	return b.String()
}

func TestVerifC19Cmd(t *testing.T) {
	out := os.Getenv("VERIF_OUT")
	if out == "" {
		t.Skip("VERIF_OUT not set")
	}
	f, err := os.Create(out)
	if err != nil {
		t.Fatal(err)
	}
	defer f.Close()
	w := bufio.NewWriterSize(f, 1<<20)
	defer w.Flush()
	emit := func(v any) {
		b, _ := json.Marshal(v)
		w.Write(b)
		w.WriteByte('\n')
	}
	seed, _ := strconv.Atoi(os.Getenv("VERIF_SEED"))
	nrand, _ := strconv.Atoi(os.Getenv("VERIF_NCMD"))
	if nrand == 0 {
		nrand = 60
	}
	rng := rand.New(rand.NewSource(int64(seed)*7919 + 1919))
	dir := t.TempDir()
	if d, err := os.MkdirTemp("/dev/shm", "verif-c19cmd-"); err == nil {
		dir = d
		defer os.RemoveAll(d)
	}
	stats := map[string]int{}

	// ---------------- the universe: repositories with tagged versions ----------------
	const A, B, L = "example.com/mods/alpha", "example.com/mods/beta", "example.com/lib"
	universe := []c19mod{
		{repo: B, path: B, version: "v1.0.0", name: "beta"},
		{repo: B, path: B, version: "v1.1.0", name: "beta"},
		{repo: B, path: B, version: "v1.1.1", name: "beta"},
		{repo: B, path: B + "@v2", version: "v2.0.0", name: "beta"},
		{repo: B, path: B + "@v2", version: "v2.1.0-rc.1", name: "beta"},
		{repo: A, path: A, version: "v1.0.0", name: "alpha"},
		{repo: A, path: A, version: "v1.1.0", name: "alpha", reqs: [][2]string{{B, "v1.0.0"}}},
		{repo: A, path: A, version: "v1.2.0", name: "alpha", reqs: [][2]string{{B, "v1.1.0"}}},
		{repo: A, path: A + "@v2", version: "v2.0.0", name: "alpha", reqs: [][2]string{{B + "@v2", "v2.0.0"}}},
		{repo: L, sub: "gamma", path: L + "/gamma", version: "v0.3.0", name: "g lib"},
		{repo: L, sub: "gamma", path: L + "/gamma", version: "v0.4.0", name: "g lib", reqs: [][2]string{{B, "v1.1.1"}}},
		{repo: L, sub: "delta", path: L + "/delta", version: "v1.0.0", name: "it's δ"},
		{repo: L, sub: "eps", path: L + "/eps", version: "v1.0.0"},
		{repo: L, sub: "q", path: L + "/q", version: "v1.0.0", name: "say \"hi\"\tthere", reqs: [][2]string{{L + "/eps", "v1.0.0"}}},
		{repo: L, sub: "dot", path: L + "/dot", version: "v1.3.0", name: "a.b", reqs: [][2]string{{A, "v1.1.0"}}},
		{repo: "example.com/mods/broken", path: "example.com/mods/broken", version: "v1.0.0", name: "broken", reqs: [][2]string{{"example.com/mods/missing", "v1.0.0"}}},
	}
	net := &c19net{repos: map[string]string{}}
	{
		repoDirs := map[string]string{}
		repos := map[string]*git.Repository{}
		for _, m := range universe {
			r := repos[m.repo]
			if r == nil {
				d := filepath.Join(dir, "repos", fmt.Sprint(len(repos)))
				os.MkdirAll(d, 0o755)
				if r, err = git.PlainInit(d, false); err != nil {
					t.Fatal(err)
				}
				repos[m.repo], repoDirs[m.repo] = r, d
				net.repos[m.repo] = d
			}
			pd := filepath.Join(repoDirs[m.repo], filepath.FromSlash(m.sub))
			os.MkdirAll(pd, 0o755)
			os.WriteFile(filepath.Join(pd, "dawn.toml"), []byte(m.toml()), 0o644)
			os.WriteFile(filepath.Join(pd, "BUILD.dawn"), []byte("# "+m.path+" "+m.version+"\n"), 0o644)
			wt, _ := r.Worktree()
			if err := wt.AddWithOptions(&git.AddOptions{All: true}); err != nil {
				t.Fatal(err)
			}
			h, err := wt.Commit(m.path+" "+m.version, &git.CommitOptions{Author: &object.Signature{Name: "verif", Email: "verif@example.com", When: time.Unix(1700000000+int64(len(repos)), 0)}})
			if err != nil {
				t.Fatal(err)
			}
			tag := m.version
			if m.sub != "" {
				tag = m.sub + "/" + m.version
			}
			if _, err := r.CreateTag(tag, h, nil); err != nil {
				t.Fatal(err)
			}
		}
	}
	tr := server.NewClient(net)
	client.InstallProtocol("https", tr)
	client.InstallProtocol("ssh", tr)

	// ---------------- the environment of the commands ----------------
	homedir.DisableCache = true
	defer func() { homedir.DisableCache = false }()
	t.Setenv("HOME", dir) // restored when the test ends; every scenario sets its own
	// a fetch ends with a rename from os.TempDir() into the module cache: both on one file system
	os.MkdirAll(filepath.Join(dir, "tmp"), 0o755)
	t.Setenv("TMPDIR", filepath.Join(dir, "tmp"))
	oldWork := *work
	defer func() { *work = oldWork }()
	// The module cache is filled by the harness (what a fetch of each version leaves there), completely or but for one
	// entry: the commands then dial, list versions and fetch AT MOST ONE project at a time.  (With several entries
	// missing, resolution fetches in parallel, and two fetches from one repository share a go-git work tree inside
	// internal/vcs - the process can die with "concurrent map writes".  That is a matter of internal/vcs and
	// internal/mvs, not of this property, and must not make this check flaky.)
	cacheEntry := func(m c19mod) string {
		return filepath.Join(".dawn", "modules", "cache", filepath.FromSlash(project.TrimPathVersion(m.path))+"@"+m.version)
	}
	fillCache := func(home string, lacks int) {
		for i, m := range universe {
			if i == lacks {
				continue
			}
			d := filepath.Join(home, cacheEntry(m))
			os.MkdirAll(d, 0o755)
			os.WriteFile(filepath.Join(d, "dawn.toml"), []byte(m.toml()), 0o644)
			os.WriteFile(filepath.Join(d, "BUILD.dawn"), []byte("# "+m.path+" "+m.version+"\n"), 0o644)
		}
	}
	warmHome := filepath.Join(dir, "home-warm")
	fillCache(warmHome, -1)
	nHome := 0
	root := filepath.Join(dir, "project")
	os.MkdirAll(root, 0o755)
	configPath := filepath.Join(root, "dawn.toml")
	work.root, work.configFile = root, "dawn.toml"
	scratch := filepath.Join(dir, "scratch.toml")
	fresh := func(c *project.Config) []byte {
		os.Remove(scratch)
		project.WriteConfigFile(scratch, c)
		b, _ := os.ReadFile(scratch)
		return b
	}

	type scen struct {
		kind   string
		cmd    string // get, tidy
		args   []string
		update bool
		down   bool // the network
		lacks  int  // the module cache lacks this entry of the universe (-1 = complete)
		style  int  // -1 = canonical layout
		cfg    *project.Config
	}
	line := func(sc scen) string {
		s := "dawn " + sc.cmd
		if sc.update {
			s += " -u"
		}
		for _, a := range sc.args {
			s += " " + strconv.Quote(a)
		}
		return s
	}
	// what the command line asks resolution to compute, on the configuration loaded from the file
	resolve := func(sc scen, c *project.Config, cache string) (map[string]project.RequirementConfig, error) {
		resolver := mvs.NewResolver(cache, mvs.DefaultDialer, nil)
		switch {
		case sc.cmd == "tidy":
			if len(sc.args) != 0 {
				return nil, errors.New("usage")
			}
			return mvs.Tidy(context.Background(), c, resolver)
		case sc.update:
			if len(sc.args) != 0 {
				return nil, errors.New("usage")
			}
			return mvs.UpgradeAll(context.Background(), c, resolver)
		default:
			if len(sc.args) != 1 {
				return nil, errors.New("usage")
			}
			return mvs.Get(context.Background(), c, resolver, sc.args[0])
		}
	}
	type result struct {
		before, after []byte
		cfgB, cfgA    *project.Config
		runErr        error
		panicked      string
		aerr          error
		R             map[string]project.RequirementConfig
		rerr          error
		name, detail  string
	}
	play := func(sc scen) (r result) {
		home := warmHome
		if sc.lacks >= 0 {
			nHome++
			home = filepath.Join(dir, fmt.Sprintf("home-%05d", nHome))
			fillCache(home, sc.lacks)
			defer os.RemoveAll(home)
		}
		os.Setenv("HOME", home)
		cache := filepath.Join(home, ".dawn", "modules", "cache")
		if sc.style < 0 {
			r.before = fresh(sc.cfg)
		} else {
			r.before = c19decorate(sc.cfg, sc.style)
		}
		os.Remove(configPath)
		os.WriteFile(configPath, r.before, 0o644)
		var lerr error
		if r.cfgB, lerr = project.LoadConfigBytes(r.before); lerr != nil {
			r.name = "skip:not-loadable"
			return
		}
		net.down.Store(sc.down)
		defer net.down.Store(false)
		func() {
			defer func() {
				if x := recover(); x != nil {
					r.panicked = fmt.Sprint(x)
				}
			}()
			switch sc.cmd {
			case "tidy":
				if err := tidyCmd.Args(tidyCmd, sc.args); err != nil {
					r.runErr = err
					return
				}
				r.runErr = tidyCmd.RunE(tidyCmd, sc.args)
			default:
				cmd := newGetCommand()
				if sc.update {
					cmd.Flags().Set("update", "true")
				}
				if err := cmd.Args(cmd, sc.args); err != nil {
					r.runErr = err
					return
				}
				r.runErr = cmd.RunE(cmd, sc.args)
			}
		}()
		r.after, _ = os.ReadFile(configPath)
		r.cfgA, r.aerr = project.LoadConfigFile(configPath)
		cfgB2, _ := project.LoadConfigBytes(r.before)
		r.R, r.rerr = resolve(sc, cfgB2, cache)
		withR := func() *project.Config {
			c, _ := project.LoadConfigBytes(r.before)
			c.Requirements = r.R
			return c
		}
		diffOf := func(want *project.Config) string {
			var d []string
			a, b := c19export(r.cfgA), c19export(want)
			if a.Name != b.Name {
				d = append(d, "name")
			}
			if a.Version != b.Version {
				d = append(d, "version")
			}
			if !reflect.DeepEqual(a.Ignore, b.Ignore) {
				d = append(d, "ignore")
			}
			if !reflect.DeepEqual(a.Reqs, b.Reqs) {
				d = append(d, fmt.Sprintf("requirements: has %d, expected %d", len(a.Reqs), len(b.Reqs)))
			}
			return strings.Join(d, ", ")
		}
		switch {
		case r.panicked != "":
			r.name, r.detail = "command-panics", r.panicked
		case r.aerr != nil:
			r.name, r.detail = "command-leaves-a-file-that-does-not-load", r.aerr.Error()
		case r.runErr != nil:
			if !c19same(r.cfgA, r.cfgB) && !(r.rerr == nil && c19same(r.cfgA, withR())) {
				r.name, r.detail = "failed-command-changes-the-configuration", "command error: "+r.runErr.Error()+"; differs in "+diffOf(r.cfgB)
			}
		case r.rerr != nil:
			r.name = "skip:command-succeeded-where-resolution-fails"
		case !c19same(r.cfgA, withR()):
			r.name, r.detail = "command-rewrite-loses-configuration", "differs in "+diffOf(withR())
		}
		if r.name == "" && string(r.after) != string(r.before) {
			if again := fresh(r.cfgA); string(again) != string(r.after) {
				r.name, r.detail = "command-rewritten-file-not-reproduced-by-writing-what-it-loads-as", hex.EncodeToString(again)
			}
		}
		return
	}
	record := func(sc scen, r result) map[string]any {
		m := map[string]any{"kind": sc.kind, "line": line(sc), "net": !sc.down, "cache_lacks": nil, "layout": "canonical",
			"canonical": sc.style < 0, "before": hex.EncodeToString(r.before), "cfg": c19export(r.cfgB), "err": nil, "resolved": nil,
			"after": hex.EncodeToString(r.after), "changed": string(r.after) != string(r.before)}
		if sc.style >= 0 {
			m["layout"] = fmt.Sprintf("hand-written:style%d", sc.style%3)
		}
		if sc.lacks >= 0 {
			m["cache_lacks"] = universe[sc.lacks].path + " " + universe[sc.lacks].version
		}
		if r.runErr != nil {
			m["err"] = r.runErr.Error()
		}
		if r.rerr == nil {
			m["resolved"] = c19reqs(r.R)
		}
		return m
	}
	nFail := 0
	do := func(sc scen) {
		r := play(sc)
		stats["family:"+sc.kind]++
		if strings.HasPrefix(r.name, "skip:") {
			stats[r.name]++
			emit(map[string]any{"t": "NOTE", "name": r.name, "line": line(sc), "cfg": c19export(sc.cfg)})
			return
		}
		switch {
		case r.panicked != "":
			stats["outcome:panic"]++
		case r.runErr != nil && string(r.after) == string(r.before):
			stats["outcome:failed,file-untouched"]++
		case r.runErr != nil:
			stats["outcome:failed,file-rewritten"]++
		case c19same(r.cfgA, r.cfgB):
			stats["outcome:succeeded,same-configuration"]++
		default:
			stats["outcome:succeeded,requirements-changed"]++
		}
		if sc.style >= 0 {
			stats["layout:hand-written"]++
		} else {
			stats["layout:canonical"]++
		}
		if sc.down {
			stats["network:down"]++
		}
		if sc.lacks >= 0 {
			stats["cache:lacks-one-entry"]++
		}
		if r.panicked == "" {
			rec := record(sc, r)
			rec["t"] = "cmd"
			emit(rec)
		}
		if r.name == "" || nFail >= 60 {
			return
		}
		nFail++
		small, sr := sc, r
		if nFail <= 12 {
			try := func(cand scen) {
				if cr := play(cand); cr.name == r.name {
					small, sr = cand, cr
				}
			}
			if small.style >= 0 {
				cand := small
				cand.style = -1
				try(cand)
			}
			if small.lacks >= 0 {
				cand := small
				cand.lacks = -1
				try(cand)
			}
			edit := func(f func(c *project.Config)) {
				cand := small
				c := *small.cfg
				c.Ignore = append([]string{}, small.cfg.Ignore...)
				c.Requirements = map[string]project.RequirementConfig{}
				for k, v := range small.cfg.Requirements {
					c.Requirements[k] = v
				}
				f(&c)
				cand.cfg = &c
				try(cand)
			}
			edit(func(c *project.Config) { c.Ignore = nil })
			edit(func(c *project.Config) { c.Version = "" })
			edit(func(c *project.Config) { c.Name = "" })
			names := make([]string, 0, len(small.cfg.Requirements))
			for k := range small.cfg.Requirements {
				names = append(names, k)
			}
			sort.Strings(names)
			for _, k := range names {
				edit(func(c *project.Config) { delete(c.Requirements, k) })
			}
		}
		emit(map[string]any{"t": "ORACLE", "name": sr.name, "cfg": c19export(sr.cfgB), "bytes": hex.EncodeToString(sr.after), "detail": sr.detail,
			"from": "command:" + sc.kind, "command": record(small, sr), "loaded_after": c19export(sr.cfgA)})
	}

	// ---------------- scenarios ----------------
	req := func(p, v string) project.RequirementConfig { return project.RequirementConfig{Path: p, Version: v} }
	type cl struct {
		cmd    string
		update bool
		args   []string
	}
	catalogue := []cl{
		{cmd: "tidy"},
		{cmd: "tidy", args: []string{"x"}},
		{cmd: "get"},
		{cmd: "get", args: []string{A, B}},
		{cmd: "get", update: true},
		{cmd: "get", update: true, args: []string{A}},
	}
	for _, q := range []string{A, A + "@latest", A + "@v1.2.0", A + "@v1.0.0", A + "@v1.1.0", A + "@v1.9.9", A + "@upgrade", A + "@patch", A + "@<v1.2.0", A + "@>v1.0.0",
		A + "@v2", A + "@v2@latest", A + "@v2@v2.0.0", B, B + "@v1.1.1", B + "@patch", B + "@v2", B + "@v2@v2.1.0-rc.1", B + "@v1.0.0",
		L + "/gamma", L + "/gamma@v0.3.0", L + "/delta", L + "/eps", L + "/q", L + "/dot", L + "/nothing", L, "example.com/mods/broken", "example.com/mods/missing",
		"example.com/mods/missing@v1.0.0", "nowhere.invalid/x", "", "@v1.2.4", "@", "@latest", A + "@nosuchref", A + "@", A + "@>", A + "@<vx", A + "/", "/" + A, A + "@v3",
		"example.com", "a b", "é", "../x"} {
		catalogue = append(catalogue, cl{cmd: "get", args: []string{q}})
	}
	base := &project.Config{Name: "project", Version: "v0.3.0", Ignore: []string{"**/testdata", "it's"}, Requirements: map[string]project.RequirementConfig{
		"alpha": req(A, "v1.1.0"), "b lib": req(B, "v1.0.0"), "": req(L+"/gamma", "v0.3.0")}}
	for i, c := range catalogue {
		for _, down := range []bool{false, true} {
			do(scen{kind: "catalogue", cmd: c.cmd, update: c.update, args: c.args, down: down, style: -1, cfg: base, lacks: -1})
			do(scen{kind: "catalogue", cmd: c.cmd, update: c.update, args: c.args, down: down, style: i % 3, cfg: base, lacks: []int{-1, rng.Intn(len(universe))}[i%2]})
		}
	}
	// projects whose requirements cannot all be resolved, or are redundant, or name one project twice
	special := []*project.Config{
		{Name: "n"},
		{},
		{Name: "needs-missing", Requirements: map[string]project.RequirementConfig{"broken": req("example.com/mods/broken", "v1.0.0"), "beta": req(B, "v1.0.0")}},
		{Name: "unknown-version", Ignore: []string{"x"}, Requirements: map[string]project.RequirementConfig{"alpha": req(A, "v1.5.0")}},
		{Name: "redundant", Version: "1", Requirements: map[string]project.RequirementConfig{"alpha": req(A, "v1.2.0"), "beta": req(B, "v1.0.0"), "g lib": req(L+"/gamma", "v0.4.0")}},
		{Name: "twice", Requirements: map[string]project.RequirementConfig{"one": req(B, "v1.0.0"), "two words": req(B, "v1.1.0"), "alpha@v2": req(A+"@v2", "v2.0.0")}},
		{Name: "majors", Requirements: map[string]project.RequirementConfig{"beta": req(B, "v1.1.1"), "beta@v2": req(B+"@v2", "v2.0.0")}},
	}
	for i, c := range special {
		for _, k := range []cl{{cmd: "tidy"}, {cmd: "get", update: true}, {cmd: "get", args: []string{A}}, {cmd: "get", args: []string{B + "@v1.1.1"}},
			{cmd: "get", args: []string{L + "/q"}}, {cmd: "get", args: []string{"example.com/mods/missing"}}} {
			for _, down := range []bool{false, true} {
				do(scen{kind: "special-project", cmd: k.cmd, update: k.update, args: k.args, down: down, style: []int{-1, i}[rng.Intn(2)], cfg: c, lacks: -1})
			}
		}
	}
	// free-form fields: the project's name, its version, the ignore patterns (a sequence: order, repetitions - adjacent or not - and empty patterns count) and
	// the requirement names are text the commands must carry over verbatim.  Text of the domains of the RESTRICTED fields
	// (versions valid but not canonical, near-versions, unclean paths) and of plausible normalisers (padding, case,
	// equivalent Unicode spellings, text that reads as another TOML type, key words, references) in all of them,
	// x tidy / get -u / get of one module, canonical and hand-written layouts.  (The whole domains are enumerated in
	// the internal/project harness, c19crossStrings; this is their cross-section at the level of the commands.)
	free := []string{"v1.2.3+build.7", "v2", "v1.4", "v3.1.0+vendor.2", "v1.2.3-rc.1+exp.sha.5114f85", "1.2.3", "V1.0.0", "v01.2.3", "a//b", "./a", "a/", "a/../b", "a@v1", "**/testdata/", " x ", "x\n", "\tx",
		"Dawn", "e\u0301", "\u212b", "\ufb01", "true", "1.0", "007", "1979-05-27", "requirements", "a.b.c", "$HOME", "https://github.com/a/b.git", "github.com/A/B"}
	for i, s := range free {
		c := &project.Config{Name: s, Version: s, Ignore: []string{s, s, "b", "a", s, "", ""}, Requirements: map[string]project.RequirementConfig{s: req(A, "v1.1.0"), "beta": req(B, "v1.0.0")}}
		for j, k := range []cl{{cmd: "tidy"}, {cmd: "get", update: true}, {cmd: "get", args: []string{A + "@v1.2.0"}}} {
			if j == i%3 { // two of the three command lines per string
				continue
			}
			do(scen{kind: "free-form-fields", cmd: k.cmd, update: k.update, args: k.args, style: []int{-1, i % 3}[(i+j)%2], cfg: c, lacks: -1})
		}
	}
	// random projects x random command lines
	strs := []string{"v1.2.3+build", "v2", "a//b/", " x ", "e\u0301", "1.0", "", "dawn", "a b", "a.b", "it's", "say \"hi\"", "\\", "'''", "tab\there", "line\nbreak", "\x00", "\x7f", "é", "日本語", "\U0001F600", "#", "[x]", "a=b", " lead", "%d"}
	oddNames := []string{"", "a b", "x.y", "it's", "é", "say \"hi\"", "\U0001F600", "dep-1", "a\tb"}
	for i := 0; i < nrand; i++ {
		c := &project.Config{Name: strs[rng.Intn(len(strs))], Version: strs[rng.Intn(len(strs))], Requirements: map[string]project.RequirementConfig{}}
		for n := rng.Intn(3); n > 0; n-- {
			c.Ignore = append(c.Ignore, strs[rng.Intn(len(strs))])
		}
		for n := rng.Intn(5); n > 0; n-- {
			m := universe[rng.Intn(len(universe))]
			name := m.name
			if name == "" || rng.Intn(3) == 0 {
				name = oddNames[rng.Intn(len(oddNames))]
			}
			c.Requirements[name] = req(m.path, m.version)
		}
		k := catalogue[rng.Intn(len(catalogue))]
		do(scen{kind: "random", cmd: k.cmd, update: k.update, args: k.args, down: rng.Intn(4) == 0, lacks: []int{-1, -1, rng.Intn(len(universe))}[rng.Intn(3)], style: rng.Intn(4) - 1, cfg: c})
	}
	stats["dials"] = int(net.dials.Load())
	emit(map[string]any{"t": "cmdstats", "counts": stats})
}
