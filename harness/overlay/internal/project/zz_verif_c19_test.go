package project

// Correspondence harness for C19 (added to the package through `go test -overlay`; never committed to /repo).
// Generates configurations, writes them with WriteConfigFile, loads the file back with LoadConfigFile, writes
// the loaded configuration again; evaluates the direct oracle (loaded == original up to nil/empty, second
// bytes == first bytes) for the VALID ones and emits everything for the model to reproduce.
// One JSON object per line in $VERIF_OUT:
//   {"t":"cfg","kind":..,"cfg":C,"valid":bool,"werr":bool,"bytes":hex,"lerr":bool,"loaded":C|null,"bytes2":hex}
//   {"t":"semver","s":hex,"ok":bool}        semver.IsValid(s) && semver.Canonical(s) == s
//   {"t":"clean","s":hex,"out":hex}         CleanPath(s)
//   {"t":"ORACLE","name":..,"cfg":C,"bytes":hex,"detail":..}
// C = {"name":hex,"version":hex,"ignore":[hex..],"reqs":[[namehex,pathhex,versionhex]..]} (reqs sorted by name)

import (
	"bufio"
	"encoding/hex"
	"encoding/json"
	"fmt"
	"math/rand"
	"os"
	"path/filepath"
	"reflect"
	"sort"
	"strconv"
	"testing"
	"unicode/utf8"

	"golang.org/x/mod/semver"
)

type c19cfg struct {
	Name    string      `json:"name"`
	Version string      `json:"version"`
	Ignore  []string    `json:"ignore"`
	Reqs    [][3]string `json:"reqs"`
}

func c19hx(s string) string { return hex.EncodeToString([]byte(s)) }

func c19export(c *Config) *c19cfg {
	if c == nil {
		return nil
	}
	o := &c19cfg{Name: c19hx(c.Name), Version: c19hx(c.Version), Ignore: []string{}, Reqs: [][3]string{}}
	for _, g := range c.Ignore {
		o.Ignore = append(o.Ignore, c19hx(g))
	}
	names := make([]string, 0, len(c.Requirements))
	for k := range c.Requirements {
		names = append(names, k)
	}
	sort.Strings(names)
	for _, k := range names {
		r := c.Requirements[k]
		o.Reqs = append(o.Reqs, [3]string{c19hx(k), c19hx(r.Path), c19hx(r.Version)})
	}
	return o
}

func c19valid(c *Config) bool {
	ok := utf8.ValidString(c.Name) && utf8.ValidString(c.Version)
	for _, g := range c.Ignore {
		ok = ok && utf8.ValidString(g)
	}
	for k, r := range c.Requirements {
		ok = ok && utf8.ValidString(k) && utf8.ValidString(r.Path) && utf8.ValidString(r.Version)
		ok = ok && semver.IsValid(r.Version) && semver.Canonical(r.Version) == r.Version
		ok = ok && CleanPath(r.Path) == r.Path
	}
	return ok
}

// equality up to nil/empty slices and maps
func c19same(a, b *Config) bool {
	return reflect.DeepEqual(c19export(a), c19export(b))
}

func c19write(path string, c *Config) (err error, panicked bool) {
	defer func() {
		if x := recover(); x != nil {
			panicked = true
		}
	}()
	err = WriteConfigFile(path, c)
	return
}

func c19load(path string) (c *Config, err error, panicked bool) {
	defer func() {
		if x := recover(); x != nil {
			panicked = true
		}
	}()
	c, err = LoadConfigFile(path)
	return
}

func TestVerifC19(t *testing.T) {
	out := os.Getenv("VERIF_OUT")
	if out == "" {
		t.Skip("VERIF_OUT not set")
	}
	f, err := os.Create(out)
	if err != nil {
		t.Fatal(err)
	}
	defer f.Close()
	w := bufio.NewWriterSize(f, 1<<20)
	defer w.Flush()
	emit := func(v any) {
		b, _ := json.Marshal(v)
		w.Write(b)
		w.WriteByte('\n')
	}
	seed, _ := strconv.Atoi(os.Getenv("VERIF_SEED"))
	nrand, _ := strconv.Atoi(os.Getenv("VERIF_NRAND"))
	if nrand == 0 {
		nrand = 300
	}
	rng := rand.New(rand.NewSource(int64(seed)*104729 + 19))
	dir := t.TempDir()
	p1, p2 := filepath.Join(dir, "dawn.toml"), filepath.Join(dir, "dawn2.toml")

	nOracle := 0
	oracle := func(name string, c *Config, bytes []byte, detail string) {
		if nOracle < 300 {
			nOracle++
			emit(map[string]any{"t": "ORACLE", "name": name, "cfg": c19export(c), "bytes": hex.EncodeToString(bytes), "detail": detail})
		}
	}
	do := func(kind string, c *Config) {
		valid := c19valid(c)
		rec := map[string]any{"t": "cfg", "kind": kind, "cfg": c19export(c), "valid": valid}
		os.Remove(p1)
		os.Remove(p2)
		werr, wp := c19write(p1, c)
		if wp {
			rec["panic"] = "write"
			emit(rec)
			oracle("write-panics", c, nil, "")
			return
		}
		rec["werr"] = werr != nil
		b1, _ := os.ReadFile(p1)
		rec["bytes"] = hex.EncodeToString(b1)
		loaded, lerr, lp := c19load(p1)
		if lp {
			rec["panic"] = "load"
			emit(rec)
			oracle("load-panics", c, b1, "")
			return
		}
		rec["lerr"] = lerr != nil
		rec["loaded"] = c19export(loaded)
		var b2 []byte
		if lerr == nil {
			if err, p := c19write(p2, loaded); err == nil && !p {
				b2, _ = os.ReadFile(p2)
			}
			rec["bytes2"] = hex.EncodeToString(b2)
		}
		emit(rec)
		if !valid {
			return
		}
		switch {
		case werr != nil:
			oracle("valid-config-write-fails", c, b1, werr.Error())
		case lerr != nil:
			oracle("valid-config-does-not-load-back", c, b1, lerr.Error())
		case !c19same(loaded, c):
			lj, _ := json.Marshal(c19export(loaded))
			oracle("loaded-differs-from-written", c, b1, string(lj))
		case string(b2) != string(b1):
			oracle("second-write-differs", c, b1, hex.EncodeToString(b2))
		}
	}

	// ---- string classes (DESIGN section 6, C19) ----
	type cls struct{ name, s string }
	var classes []cls
	add := func(name string, ss ...string) {
		for _, s := range ss {
			classes = append(classes, cls{name, s})
		}
	}
	add("plain", "dawn", "a-b_c9", "A", "0")
	add("ascii-quoting", "a b", "a.b", "a=b", "a#b", "[x]", "{y}", "a,b", " lead", "trail ", "a/b", "*.go", "**/x?", "a:b", "~", "@")
	for c := 0; c < 0x20; c++ {
		add(fmt.Sprintf("ctl-%02x", c), string(rune(c)), "a"+string(rune(c))+"b")
	}
	add("quotes", "'", "\"", "\\", "'''", "\"\"\"", "\\\"", "\\\\", "it's", "say \"hi\"", "\\u0041", "\\n", "'\"\\", "a'b\"c\\d\ne")
	add("percent", "%", "%20", "my%20lib", "100%", "%d", "%!s", "%%", "a%sb", "%v%v")
	add("del", "\x7f", "a\x7fb")
	add("latin1", "\u0080", "\u0085", "\u009f", "\u00a0", "\u00e9", "\u00ff", "na\u00efve caf\u00e9")
	add("bmp", "\u0100", "\u07ff", "\u0800", "\u65e5\u672c\u8a9e", "\ufffd", "\uffff", "\ufffe", "\ud7ff", "\ue000", "\u2028", "\ufeff", "\u200b")
	add("astral", "\U00010000", "😀", "\U0010ffff", "a😀'b")
	add("empty", "")
	add("invalid-utf8", "\xff", "a\xc3", "\xed\xa0\x80", "\xc0\x80", "\xf4\x90\x80\x80", "ok\x80")

	goodV := []string{"v0.0.0", "v1.2.3", "v10.20.30", "v1.2.3-pre", "v1.2.3-alpha.1", "v1.0.0-0.3.7", "v1.0.0-x-y-z.--", "v2.0.0-rc.1", "v0.0.0-20240101000000-abcdef123456"}
	badV := []string{"1.2.3", "v1", "v1.2", "v1.2.3+build", "v1.2.3-pre+build", "v01.2.3", "v1.02.3", "v1.2.03", "v1.2.3-01", "", "v1.2.3-", "v1.2.3-a..b", "v1.2.3-é", "v", "va.b.c", "v1.2.3.4", " v1.2.3", "v1.2.3 ", "v1.2.3-0", "v1.2.3-00", "v1.2.3-0a", "v-1.2.3", "V1.2.3", "v1.2.3-a_b", "v1.2.3+", "v1.2.3-a+b.c"}
	goodP := []string{"github.com/a/b", "a", "a/b@v2", "a@v10", ".", "/", "/a", "../a", "a@v2/b", "a@b@v3", "..", "a@v1x", "../../x@v3", "a.b/c-d_e", "@v2", "a/@v2"}
	badP := []string{"a/", "a//b", "./a", "a/../b", "a@v1", "a@v0", "", "a/.@v2", "a@", "a/b@", "a/./b", "/..", "//a", "a/b/..@v2", "@v1", "@"}

	// the sub-models, one by one
	for _, v := range append(append([]string{}, goodV...), badV...) {
		emit(map[string]any{"t": "semver", "s": c19hx(v), "ok": semver.IsValid(v) && semver.Canonical(v) == v})
	}
	for _, c := range classes {
		emit(map[string]any{"t": "semver", "s": c19hx(c.s), "ok": semver.IsValid(c.s) && semver.Canonical(c.s) == c.s})
		emit(map[string]any{"t": "semver", "s": c19hx("v1.2.3-" + c.s), "ok": semver.IsValid("v1.2.3-"+c.s) && semver.Canonical("v1.2.3-"+c.s) == "v1.2.3-"+c.s})
		emit(map[string]any{"t": "clean", "s": c19hx(c.s), "out": c19hx(CleanPath(c.s))})
	}
	for _, p := range append(append([]string{}, goodP...), badP...) {
		emit(map[string]any{"t": "clean", "s": c19hx(p), "out": c19hx(CleanPath(p))})
	}
	pathAlpha := []string{"a", "/", ".", "@", "v", "2", "1"}
	var enum func(prefix string, n int)
	enum = func(prefix string, n int) {
		emit(map[string]any{"t": "clean", "s": c19hx(prefix), "out": c19hx(CleanPath(prefix))})
		if n == 0 {
			return
		}
		for _, a := range pathAlpha {
			enum(prefix+a, n-1)
		}
	}
	maxp, _ := strconv.Atoi(os.Getenv("VERIF_MAXPATH"))
	if maxp == 0 {
		maxp = 4
	}
	enum("", maxp)

	// ---- configurations: every class in every position ----
	req := func(p, v string) RequirementConfig { return RequirementConfig{Path: p, Version: v} }
	do("empty", &Config{})
	do("empty", &Config{Ignore: []string{}, Requirements: map[string]RequirementConfig{}})
	for _, c := range classes {
		s := c.s
		do("name:"+c.name, &Config{Name: s})
		do("version:"+c.name, &Config{Version: s})
		do("ignore1:"+c.name, &Config{Ignore: []string{s}})
		do("ignore3:"+c.name, &Config{Name: "n", Ignore: []string{s, "x", s}})
		do("key:"+c.name, &Config{Requirements: map[string]RequirementConfig{s: req("github.com/a/b", "v1.2.3")}})
		do("key2:"+c.name, &Config{Version: "1", Requirements: map[string]RequirementConfig{s: req("a", "v0.0.0"), "z" + s: req("b@v2", "v2.0.0-rc.1")}})
		do("path:"+c.name, &Config{Requirements: map[string]RequirementConfig{"k": req(s, "v1.2.3")}})
		do("reqversion:"+c.name, &Config{Requirements: map[string]RequirementConfig{"k": req("a", s)}})
		do("all:"+c.name, &Config{Name: s, Version: s, Ignore: []string{s}, Requirements: map[string]RequirementConfig{s: req("a/b@v2", "v1.0.0-x-y-z.--")}})
	}
	for _, v := range append(append([]string{}, goodV...), badV...) {
		do("semver", &Config{Name: "p", Requirements: map[string]RequirementConfig{"dep": req("github.com/a/b", v)}})
	}
	for _, p := range append(append([]string{}, goodP...), badP...) {
		do("cleanpath", &Config{Requirements: map[string]RequirementConfig{"dep": req(p, "v1.2.3")}})
	}
	// the layout: every subset of the four top-level items
	for m := 0; m < 16; m++ {
		c := &Config{}
		if m&1 != 0 {
			c.Name = "n"
		}
		if m&2 != 0 {
			c.Version = "0.1"
		}
		if m&4 != 0 {
			c.Ignore = []string{"*.o", "build/**"}
		}
		if m&8 != 0 {
			c.Requirements = map[string]RequirementConfig{"b": req("b", "v1.0.0"), "a": req("a@v3", "v3.1.4")}
		}
		do("layout", c)
	}
	// many requirements (map iteration order), keys whose byte order differs from other orders
	for i := 0; i < 6; i++ {
		c := &Config{Name: "many", Requirements: map[string]RequirementConfig{}}
		keys := []string{"b", "a", "B", "_", "-", "10", "9", "é", "z", "a.b", "a b", "", "ab", "😀", "￿", "a'", "\n"}
		rng.Shuffle(len(keys), func(i, j int) { keys[i], keys[j] = keys[j], keys[i] })
		for _, k := range keys[:8+rng.Intn(len(keys)-8)] {
			c.Requirements[k] = req(goodP[rng.Intn(len(goodP))], goodV[rng.Intn(len(goodV))])
		}
		do("many-reqs", c)
	}
	// ---- random configurations ----
	pool := []string{"a", "b", "Z", "0", "-", "_", ".", " ", "=", "#", "'", "\"", "\\", "\n", "\t", "\r", "\x00", "\x1f", "\x7f", "é", "日", "😀", "/", "*", "[", "]", "{", "}", ",", "\u0085", "�", "u", "n"}
	rs := func() string {
		switch rng.Intn(4) {
		case 0:
			return classes[rng.Intn(len(classes)-6)].s // not the invalid-UTF-8 ones
		case 1:
			return ""
		}
		n := 1 + rng.Intn(6)
		s := ""
		for i := 0; i < n; i++ {
			s += pool[rng.Intn(len(pool))]
		}
		return s
	}
	for i := 0; i < nrand; i++ {
		c := &Config{}
		if rng.Intn(3) != 0 {
			c.Name = rs()
		}
		if rng.Intn(3) != 0 {
			c.Version = rs()
		}
		for n := rng.Intn(4); n > 0; n-- {
			c.Ignore = append(c.Ignore, rs())
		}
		if rng.Intn(4) != 0 {
			c.Requirements = map[string]RequirementConfig{}
			for n := rng.Intn(9); n > 0; n-- {
				p, v := goodP[rng.Intn(len(goodP))], goodV[rng.Intn(len(goodV))]
				if rng.Intn(12) == 0 {
					p = badP[rng.Intn(len(badP))]
				}
				if rng.Intn(12) == 0 {
					v = badV[rng.Intn(len(badV))]
				}
				c.Requirements[rs()] = req(p, v)
			}
		}
		do("random", c)
	}
}
